(* C12: random code generation, for every tape (= every outcome of the generator). *)
From Coq Require Import ZArith String List Bool Lia ZifyBool Arith.
From PushModel Require Import Base.Sx Base.Machine Base.ListOps Base.F32 Model.Item Model.GraphT Model.State
  Model.InstrBase Model.Registry Model.RandomGen Model.IRand Spec.RandSpec.
Import ListNotations.
Open Scope Z_scope.
Open Scope list_scope.

(* ---- generalities ---- *)
Lemma rbind_ok {A B} (r : res A) (f : A -> res B) b :
  rbind r f = Ok b -> exists a, r = Ok a /\ f a = Ok b.
Proof. destruct r; cbn; intros H; try discriminate. eauto. Qed.

Lemma rs_eqb_eq a b : str_eqb a b = true <-> a = b.
Proof.
  revert b; induction a as [|x ra IH]; intros [|y rb]; cbn; split; intros H; try discriminate; try reflexivity.
  - apply andb_prop in H as [H1 H2]. apply Z.eqb_eq in H1. apply IH in H2. now subst.
  - inversion H; subst. rewrite Z.eqb_refl. cbn. now apply IH.
Qed.
Lemma rs_eqb_refl a : str_eqb a a = true.
Proof. now apply rs_eqb_eq. Qed.

Lemma next_cons x r : next (x :: r) = (x, r).
Proof. reflexivity. Qed.

(* the two halves of the oracle contract: every tape answers inside the range ... *)
Lemma draw_range_ok t lo hi :
  lo < hi -> exists v, draw_range t lo hi = Ok (v, snd (next t)) /\ lo <= v < hi.
Proof.
  intros H. unfold draw_range. destruct (lo <? hi) eqn:E; [|lia].
  eexists; split; [reflexivity|].
  pose proof (Z.mod_pos_bound (fst (next t)) (hi - lo) ltac:(lia)). lia.
Qed.
(* ... and every value of the range is the answer of some tape *)
Lemma draw_range_hit lo hi v x rest :
  lo <= v < hi -> x = v - lo -> draw_range (x :: rest) lo hi = Ok (v, rest).
Proof.
  intros H ->. unfold draw_range. rewrite next_cons. cbn [fst snd].
  destruct (lo <? hi) eqn:E; [|lia]. rewrite Z.mod_small by lia. replace (lo + (v - lo)) with v by lia. reflexivity.
Qed.
Lemma draw_range_empty t lo hi : hi <= lo -> draw_range t lo hi = Panic.
Proof. intros H. unfold draw_range. destruct (lo <? hi) eqn:E; [lia|reflexivity]. Qed.

(* ---- sums ---- *)
Lemma zsum_app a b : zsum (a ++ b) = zsum a + zsum b.
Proof. unfold zsum. induction a as [|x a IH]; cbn [fold_right app]; lia. Qed.
Lemma zsum_cons x a : zsum (x :: a) = x + zsum a.
Proof. reflexivity. Qed.
Lemma zsum_rev a : zsum (rev a) = zsum a.
Proof.
  induction a as [|x a IH]; [reflexivity|]. cbn [rev]. rewrite zsum_app, IH, !zsum_cons. cbn [zsum fold_right]. lia.
Qed.
Lemma sizes_zsum l : sizes l = zsum (map size l).
Proof. induction l as [|x l IH]; [reflexivity|]. cbn [sizes map fold_right]. fold (sizes l). rewrite zsum_cons. lia. Qed.

Lemma size_pos t : 1 <= size t.
Proof.
  induction t as [l IH| | |] using item_ind'; try (cbn; lia).
  rewrite size_list. assert (0 <= sizes l); [|lia].
  induction IH as [|x l Hx _ IHl]; [cbn; lia|]. cbn [sizes fold_right]. fold (sizes l). lia.
Qed.
Lemma sizes_ge l x : In x l -> size x <= sizes l.
Proof.
  induction l as [|y l IH]; [contradiction|]. cbn [sizes fold_right]. fold (sizes l).
  intros [->|H].
  - assert (0 <= sizes l); [|lia]. clear. induction l as [|z l IH]; [cbn; lia|].
    cbn [sizes fold_right]. fold (sizes l). pose proof (size_pos z). lia.
  - pose proof (size_pos y). specialize (IH H). lia.
Qed.

Lemma valid_parts_iff r parts :
  valid_parts r parts = true <-> Forall (fun k => 1 <= k) parts /\ zsum parts = r /\ last parts 0 = 1.
Proof.
  unfold valid_parts. rewrite !andb_true_iff, forallb_forall, Forall_forall, !Z.eqb_eq.
  split; intros [[H1 H2] H3] || intros [H1 [H2 H3]]; repeat split; auto; intros k Hk; specialize (H1 k Hk); lia.
Qed.

(* ================= decompose ================= *)
Lemma decompose_ok : forall fuel t r, 1 <= r -> (Z.to_nat r <= fuel)%nat ->
  exists parts t', decompose fuel t r = Ok (parts, t') /\
    Forall (fun k => 1 <= k) parts /\ zsum parts = r /\ last parts 0 = 1.
Proof.
  induction fuel as [|f IH]; intros t r Hr Hf; [lia|].
  cbn [decompose]. destruct (r =? 1) eqn:E.
  - exists [1], t. split; [reflexivity|]. split; [constructor; [lia|constructor]|]. split; [cbn; lia|reflexivity].
  - destruct (draw_range_ok t 1 r ltac:(lia)) as [v [Hd Hv]]. rewrite Hd. cbn [rbind fst snd].
    destruct (IH (snd (next t)) (r - v) ltac:(lia) ltac:(lia)) as [rest [t' [Hrest [Hpos [Hsum Hlast]]]]].
    rewrite Hrest. cbn [rbind fst snd]. exists (v :: rest), t'. repeat split.
    + constructor; [lia|assumption].
    + rewrite zsum_cons. lia.
    + destruct rest; [cbn in Hlast; discriminate|exact Hlast].
Qed.

Lemma decompose_complete : forall parts rest fuel,
  Forall (fun k => 1 <= k) parts -> last parts 0 = 1 -> (Z.to_nat (zsum parts) <= fuel)%nat ->
  decompose fuel (map (fun k => k - 1) (removelast parts) ++ rest) (zsum parts) = Ok (parts, rest).
Proof.
  induction parts as [|k ps IH]; intros rest fuel Hpos Hlast Hf; [cbn in Hlast; discriminate|].
  inversion Hpos as [|? ? Hk Hps]; subst.
  destruct ps as [|k2 ps].
  - cbn in Hlast. subst k. cbn [zsum fold_right] in *. destruct fuel; [cbn in Hf; lia|]. reflexivity.
  - assert (Hz : 1 <= zsum (k2 :: ps)).
    { inversion Hps; subst. rewrite zsum_cons.
      assert (0 <= zsum ps); [|lia]. clear - H2. induction H2; [cbn; lia|]. rewrite zsum_cons. lia. }
    rewrite (zsum_cons k (k2 :: ps)) in *. destruct fuel as [|f]; [lia|].
    cbn [decompose]. destruct (k + zsum (k2 :: ps) =? 1) eqn:E; [lia|].
    change (removelast (k :: k2 :: ps)) with (k :: removelast (k2 :: ps)).
    cbn [map app]. rewrite (draw_range_hit 1 _ k) by lia. cbn [rbind fst snd].
    replace (k + zsum (k2 :: ps) - k) with (zsum (k2 :: ps)) by lia.
    rewrite IH; [reflexivity|assumption|exact Hlast|lia].
Qed.

(* ================= one point ================= *)
Definition is_atom (t : item) : bool := match t with IList _ => false | _ => true end.

Lemma mem_str_nth {A} (l : list (str * A)) d i :
  (i < length l)%nat -> mem_str (fst (nth i l d)) (map fst l) = true.
Proof.
  revert i; induction l as [|x l IH]; intros i Hi; [cbn in Hi; lia|].
  destruct i; cbn [nth map mem_str existsb].
  - now rewrite rs_eqb_refl.
  - apply orb_true_iff. right. apply IH. cbn in Hi. lia.
Qed.
Lemma mem_str_nth_s (l : list str) d i :
  (i < length l)%nat -> mem_str (nth i l d) l = true.
Proof.
  revert i; induction l as [|x l IH]; intros i Hi; [cbn in Hi; lia|].
  destruct i; cbn [nth mem_str existsb].
  - now rewrite rs_eqb_refl.
  - apply orb_true_iff. right. apply IH. cbn in Hi. lia.
Qed.
Lemma mem_str_index (l : list str) d n :
  mem_str n l = true -> exists i, (i < length l)%nat /\ nth i l d = n.
Proof.
  induction l as [|x l IH]; cbn [mem_str existsb]; [discriminate|].
  intros H. apply orb_true_iff in H as [H|H].
  - exists O. split; [cbn; lia|]. apply rs_eqb_eq in H. now subst.
  - destruct (IH H) as [i [Hi Hn]]. exists (S i). split; [cbn; lia|exact Hn].
Qed.
Lemma mem_str_index_fst {A} (l : list (str * A)) d n :
  mem_str n (map fst l) = true -> exists i, (i < length l)%nat /\ fst (nth i l d) = n.
Proof.
  induction l as [|x l IH]; cbn [map mem_str existsb]; [discriminate|].
  intros H. apply orb_true_iff in H as [H|H].
  - exists O. split; [cbn; lia|]. apply rs_eqb_eq in H. now subst.
  - destruct (IH H) as [i [Hi Hn]]. exists (S i). split; [cbn; lia|exact Hn].
Qed.

Lemma firstn_exact {A} (l r : list A) : firstn (length l) (l ++ r) = l.
Proof. induction l; cbn; [reflexivity|]. now f_equal. Qed.
Lemma skipn_exact {A} (l r : list A) : skipn (length l) (l ++ r) = r.
Proof. induction l; cbn; auto. Qed.

Section Leaf.
  Context {FO : FloatOps}.
  Variable binds : list (str * item).
  Variable cfg : config.
  Variable instrs : list str.
  Notation nnew := (n_event_new cfg).

  Lemma draw_name_nonempty t : nonempty (fst (draw_name t)) = true.
  Proof. reflexivity. Qed.
  Lemma draw_name_hit c cs rest :
    draw_name (c :: Z.of_nat (length cs) :: cs ++ rest) = (c :: cs, rest).
  Proof.
    unfold draw_name. cbv zeta. rewrite !next_cons. cbn [fst snd]. rewrite !next_cons. cbn [fst snd].
    replace (Z.min (Z.of_nat (length cs)) (zlen (cs ++ rest))) with (Z.of_nat (length cs))
      by (unfold zlen; rewrite app_length; lia).
    rewrite Nat2Z.id.
    now rewrite firstn_exact, skipn_exact.
  Qed.

  Lemma existing_ok t :
    exists nm t', existing_random_name binds t = Ok (nm, t') /\
      match binds with [] => nonempty nm = true | _ => mem_str nm (map fst binds) = true end.
  Proof.
    unfold existing_random_name. destruct binds as [|b bs] eqn:Eb.
    - exists (fst (draw_name t)), (snd (draw_name t)). split; [unfold new_random_name; now rewrite <- surjective_pairing|]. apply draw_name_nonempty.
    - destruct (draw_range_ok t 0 (zlen (b :: bs))) as [v [Hd Hv]]; [unfold zlen; cbn [length]; lia|].
      rewrite Hd. cbn [rbind fst snd]. eexists _, _. split; [reflexivity|].
      apply mem_str_nth. unfold zlen in Hv. lia.
  Qed.

  (* soundness: every tape yields an allowed single point *)
  Lemma gen_leaf_ok t :
    exists x t', gen_leaf binds cfg instrs t = Ok (x, t') /\ is_atom x = true /\ leaf_ok instrs binds nnew x = true.
  Proof.
    unfold gen_leaf.
    destruct (draw_range_ok t 0 6 ltac:(lia)) as [k [Hk Hkr]]. rewrite Hk. cbn [rbind fst snd].
    set (t1 := snd (next t)).
    destruct (k =? 0) eqn:E0.
    { destruct (draw_range_ok t1 0 2 ltac:(lia)) as [b [Hb _]]. rewrite Hb. cbn [rbind fst snd].
      eexists _, _. split; [reflexivity|]. split; reflexivity. }
    destruct (k =? 1) eqn:E1.
    { eexists _, _. split; [reflexivity|]. split; [reflexivity|].
      cbn [leaf_ok]. unfold draw_unit_f32. cbn [fst].
      destruct (unit_bits (fst (next t1))) eqn:Eu; [exact Eu|reflexivity]. }
    destruct (k =? 2) eqn:E2.
    { destruct instrs as [|i0 is0] eqn:Ei.
      - eexists _, _. split; [reflexivity|]. split; [reflexivity|]. cbn [leaf_ok]. apply rs_eqb_refl.
      - destruct (draw_range_ok t1 0 (zlen (i0 :: is0))) as [i [Hi Hir]]; [unfold zlen; cbn [length]; lia|].
        rewrite Hi. cbn [rbind fst snd]. eexists _, _. split; [reflexivity|]. split; [reflexivity|].
        cbn [leaf_ok]. apply mem_str_nth_s. unfold zlen in Hir. lia. }
    destruct (k =? 3) eqn:E3.
    { destruct (draw_range_ok t1 min32 (max32 + 1)) as [z [Hz Hzr]]; [unfold min32, max32; lia|].
      rewrite Hz. cbn [rbind fst snd]. eexists _, _. split; [reflexivity|]. split; [reflexivity|].
      cbn [leaf_ok]. unfold in_i32. unfold min32, max32 in *. lia. }
    destruct (draw_range_ok t1 0 10000 ltac:(lia)) as [r [Hr Hrr]]. rewrite Hr. cbn [rbind fst snd].
    destruct (r <? nnew) eqn:En.
    - eexists _, _. split; [reflexivity|]. split; [reflexivity|].
      cbn [leaf_ok]. unfold name_ok. unfold new_random_name. rewrite draw_name_nonempty.
      destruct binds; [reflexivity|]. apply orb_true_iff. left. apply andb_true_iff. split; [lia|reflexivity].
    - destruct (existing_ok (snd (next t1))) as [nm [t' [He Hn]]]. rewrite He. cbn [rbind fst snd].
      eexists _, _. split; [reflexivity|]. split; [reflexivity|].
      cbn [leaf_ok]. unfold name_ok. destruct binds; [exact Hn|].
      apply orb_true_iff. right. apply andb_true_iff. split; [lia|exact Hn].
  Qed.

  (* completeness: every allowed single point is the answer of some tape *)
  Lemma gen_leaf_complete x rest :
    is_atom x = true -> leaf_ok instrs binds nnew x = true ->
    exists tp, gen_leaf binds cfg instrs (tp ++ rest) = Ok (x, rest).
  Proof.
    intros Ha Hl. unfold gen_leaf. destruct x as [l|nm|v|nm]; [discriminate| | |]; cbn [leaf_ok] in Hl.
    - (* instruction *)
      destruct instrs as [|i0 is0] eqn:Ei.
      + apply rs_eqb_eq in Hl. subst nm. exists [2]. cbn [app].
        rewrite (draw_range_hit 0 6 2) by lia. reflexivity.
      + destruct (mem_str_index _ noop_name _ Hl) as [i [Hi Hn]].
        exists [2; Z.of_nat i]. cbn [app].
        rewrite (draw_range_hit 0 6 2) by lia. cbn [rbind fst snd Z.eqb Pos.eqb].
        rewrite (draw_range_hit 0 _ (Z.of_nat i)); [|unfold zlen; lia|lia]. cbn [rbind fst snd].
        now rewrite Nat2Z.id, Hn.
    - (* literal *)
      destruct v as [b|z| | f | | |]; try discriminate.
      + exists [0; if b then 1 else 0]. cbn [app].
        rewrite (draw_range_hit 0 6 0) by lia. cbn [rbind fst snd Z.eqb Pos.eqb].
        rewrite (draw_range_hit 0 2 (if b then 1 else 0)); [|destruct b; lia|lia]. cbn [rbind fst snd].
        now destruct b.
      + exists [3; z - min32]. cbn [app].
        rewrite (draw_range_hit 0 6 3) by lia. cbn [rbind fst snd Z.eqb Pos.eqb].
        rewrite (draw_range_hit min32 _ z); [reflexivity| |reflexivity].
        unfold in_i32, min32, max32 in *. lia.
      + exists [1; f]. cbn [app].
        rewrite (draw_range_hit 0 6 1) by lia. cbn [rbind fst snd Z.eqb Pos.eqb].
        unfold draw_unit_f32. rewrite next_cons. cbn [fst snd]. now rewrite Hl.
    - (* name *)
      unfold name_ok in Hl.
      assert (Hnew : forall c cs r0, nm = c :: cs -> 0 <= r0 < 10000 -> r0 <? nnew = true \/ binds = [] ->
        exists tp, gen_leaf binds cfg instrs (tp ++ rest) = Ok (IName nm, rest)).
      { intros c cs r0 -> Hr0 Hc. exists ([4; r0; c; Z.of_nat (length cs)] ++ cs). unfold gen_leaf.
        rewrite <- app_assoc. cbn [app].
        rewrite (draw_range_hit 0 6 4) by lia. cbn [rbind fst snd Z.eqb Pos.eqb].
        rewrite (draw_range_hit 0 10000 r0) by lia. cbn [rbind fst snd].
        destruct (r0 <? nnew) eqn:E.
        - unfold new_random_name. now rewrite draw_name_hit.
        - destruct Hc as [Hc|Hc]; [discriminate|]. unfold existing_random_name. rewrite Hc.
          unfold new_random_name. now rewrite draw_name_hit. }
      destruct binds as [|b bs] eqn:Eb.
      + destruct nm as [|c cs]; [discriminate|]. apply (Hnew c cs 0); [reflexivity|lia|right; reflexivity].
      + apply orb_true_iff in Hl as [Hl|Hl]; apply andb_true_iff in Hl as [H1 H2].
        * destruct nm as [|c cs]; [discriminate|]. apply (Hnew c cs 0); [reflexivity|lia|left; lia].
        * destruct (mem_str_index_fst _ ([], IList []) _ H2) as [i [Hi Hn]].
          exists [4; 9999; Z.of_nat i]. cbn [app].
          rewrite (draw_range_hit 0 6 4) by lia. cbn [rbind fst snd Z.eqb Pos.eqb].
          rewrite (draw_range_hit 0 10000 9999) by lia. cbn [rbind fst snd].
          destruct (9999 <? nnew) eqn:E; [lia|].
          unfold existing_random_name.
          rewrite (draw_range_hit 0 _ (Z.of_nat i)); [|unfold zlen; lia|lia]. cbn [rbind fst snd].
          now rewrite Nat2Z.id, Hn.
  Qed.
End Leaf.

(* ================= random_code_with_size ================= *)
Lemma atom_shape instrs binds nnew x :
  is_atom x = true -> size x = 1 /\ shape_ok instrs binds nnew x = leaf_ok instrs binds nnew x.
Proof. destruct x; try discriminate; intros _; split; reflexivity. Qed.

Lemma forallb_rev {A} (f : A -> bool) l : forallb f (rev l) = forallb f l.
Proof.
  destruct (forallb f l) eqn:E.
  - apply forallb_forall. intros x Hx. apply in_rev in Hx. rewrite forallb_forall in E. auto.
  - destruct (forallb f (rev l)) eqn:E2; [|reflexivity].
    rewrite <- E. symmetry. apply forallb_forall. intros x Hx. rewrite forallb_forall in E2. apply E2.
    now apply in_rev in Hx.
Qed.

Lemma rev_head_last (items : list item) :
  items <> [] -> exists x r, rev items = x :: r /\ size x = last (map size items) 0.
Proof.
  intros H. destruct (exists_last H) as [l' [a ->]].
  exists a, (rev l'). split; [apply rev_unit|]. rewrite map_app. cbn [map]. now rewrite last_last.
Qed.

Section Gen.
  Context {FO : FloatOps}.
  Variable binds : list (str * item).
  Variable cfg : config.
  Variable instrs : list str.
  Notation nnew := (n_event_new cfg).
  Notation shape := (shape_ok instrs binds nnew).
  Notation genf := (gen binds cfg instrs).
  Notation genall := (gen_all binds cfg instrs).

  Lemma gen_S f t n : genf (S f) t n =
    if n =? 1 then gen_leaf binds cfg instrs t
    else if n <? 1 then Panic
    else let! parts := decompose (Z.to_nat (n - 1)) t (n - 1) in
         let! items := genall f (fst parts) (snd parts) in
         Ok (IList (rev (fst items)), snd items).
  Proof. reflexivity. Qed.

  Lemma gen_all_cons f k r t : genall f (k :: r) t =
    let! x := genf f t k in let! xs := genall f r (snd x) in Ok (fst x :: fst xs, snd xs).
  Proof. reflexivity. Qed.

  Definition gen_good (f : nat) : Prop := forall n t, 1 <= n -> (Z.to_nat n <= f)%nat ->
    exists x t', genf f t n = Ok (x, t') /\ size x = n /\ shape x = true.

  Lemma gen_all_ok f : gen_good f -> forall parts t,
    Forall (fun k => 1 <= k /\ (Z.to_nat k <= f)%nat) parts ->
    exists items t', genall f parts t = Ok (items, t') /\ map size items = parts /\ forallb shape items = true.
  Proof.
    intros G. induction parts as [|k ps IH]; intros t Hp.
    - exists [], t. repeat split.
    - inversion Hp as [|? ? [Hk1 Hk2] Hps]; subst. rewrite gen_all_cons.
      destruct (G k t Hk1 Hk2) as [x [t1 [Hx [Hs Hsh]]]]. rewrite Hx. cbn [rbind fst snd].
      destruct (IH t1 Hps) as [xs [t2 [Hxs [Hm Hf]]]]. rewrite Hxs. cbn [rbind fst snd].
      exists (x :: xs), t2. split; [reflexivity|]. split; [cbn [map]; now rewrite Hs, Hm|].
      cbn [forallb]. now rewrite Hsh, Hf.
  Qed.

  (* soundness, by induction on the fuel (= strong induction on the size) *)
  Lemma gen_ok : forall f, gen_good f.
  Proof.
    induction f as [|f IH]; intros n t Hn Hf; [lia|].
    rewrite gen_S. destruct (n =? 1) eqn:E1.
    - destruct (gen_leaf_ok binds cfg instrs t) as [x [t' [Hx [Ha Hl]]]].
      exists x, t'. split; [exact Hx|]. destruct (atom_shape instrs binds nnew x Ha) as [Hs Hsh].
      split; [lia|]. now rewrite Hsh.
    - destruct (n <? 1) eqn:E2; [lia|].
      destruct (decompose_ok (Z.to_nat (n - 1)) t (n - 1) ltac:(lia) ltac:(lia))
        as [parts [t1 [Hd [Hpos [Hsum Hlast]]]]].
      rewrite Hd. cbn [rbind fst snd].
      assert (Hp : Forall (fun k => 1 <= k /\ (Z.to_nat k <= f)%nat) parts).
      { assert (Hb : forall k, In k parts -> k <= zsum parts).
        { clear - Hpos. induction Hpos as [|y l Hy Hl IHl]; [contradiction|]. intros k [->|Hk]; rewrite zsum_cons.
          - assert (0 <= zsum l); [|lia]. clear - Hl. induction Hl; [cbn; lia|]. rewrite zsum_cons. lia.
          - specialize (IHl k Hk). lia. }
        apply Forall_forall. intros k Hk. rewrite Forall_forall in Hpos. specialize (Hpos k Hk).
        specialize (Hb k Hk). split; lia. }
      destruct (gen_all_ok f IH parts t1 Hp) as [items [t2 [Hi [Hm Hsh]]]].
      rewrite Hi. cbn [rbind fst snd]. exists (IList (rev items)), t2. split; [reflexivity|]. split.
      + rewrite size_list, sizes_zsum, map_rev, zsum_rev, Hm. lia.
      + assert (Hne : items <> []).
        { intros ->. cbn in Hm. subst parts. cbn in Hlast. discriminate. }
        destruct (rev_head_last items Hne) as [x [r [Hr Hsx]]].
        cbn [shape_ok]. rewrite Hr. rewrite <- Hr, forallb_rev, Hsh, Hsx, Hm, Hlast. reflexivity.
  Qed.

  (* completeness *)
  Lemma gen_all_complete f : forall items rest,
    Forall (fun x => forall fuel rest, (Z.to_nat (size x) <= fuel)%nat ->
                     exists tp, genf fuel (tp ++ rest) (size x) = Ok (x, rest)) items ->
    (forall x, In x items -> (Z.to_nat (size x) <= f)%nat) ->
    exists tp, genall f (map size items) (tp ++ rest) = Ok (items, rest).
  Proof.
    induction items as [|x xs IH]; intros rest HF Hf.
    - exists []. reflexivity.
    - inversion HF as [|? ? Hx Hxs]; subst.
      destruct (IH rest Hxs (fun y Hy => Hf y (or_intror Hy))) as [tp2 H2].
      destruct (Hx f (tp2 ++ rest) (Hf x (or_introl eq_refl))) as [tp1 H1].
      exists (tp1 ++ tp2). rewrite <- app_assoc. cbn [map]. rewrite gen_all_cons, H1. cbn [rbind fst snd].
      rewrite H2. reflexivity.
  Qed.

  Lemma gen_complete : forall x, shape x = true -> forall fuel rest, (Z.to_nat (size x) <= fuel)%nat ->
    exists tp, genf fuel (tp ++ rest) (size x) = Ok (x, rest).
  Proof.
    induction x as [l IH|nm|v|nm] using item_ind'; intros Hsh fuel rest Hf.
    2-4: match goal with |- exists tp, genf _ _ (size ?x) = _ =>
           destruct (gen_leaf_complete binds cfg instrs x rest eq_refl Hsh) as [tp Htp] end;
         exists tp; (destruct fuel as [|f]; [cbn in Hf; lia|]); rewrite gen_S; exact Htp.
    cbn [shape_ok] in Hsh. destruct l as [|x0 l0]; [discriminate|].
    apply andb_true_iff in Hsh as [Hx0 Hall].
    set (l := x0 :: l0) in *.
    pose proof (size_pos x0) as Hp0. assert (Hs0 : size x0 <= sizes l) by (apply sizes_ge; left; reflexivity).
    rewrite size_list in *. destruct fuel as [|f]; [lia|].
    set (parts := map size (rev l)).
    assert (Hsum : zsum parts = sizes l).
    { unfold parts. now rewrite map_rev, zsum_rev, sizes_zsum. }
    assert (Hpos : Forall (fun k => 1 <= k) parts).
    { apply Forall_forall. intros k Hk. apply in_map_iff in Hk as [y [<- _]]. apply size_pos. }
    assert (Hlast : last parts 0 = 1).
    { unfold parts, l. cbn [rev]. rewrite map_app. cbn [map]. rewrite last_last. lia. }
    assert (HF : Forall (fun x => forall fuel rest, (Z.to_nat (size x) <= fuel)%nat ->
                     exists tp, genf fuel (tp ++ rest) (size x) = Ok (x, rest)) (rev l)).
    { apply Forall_forall. intros y Hy. apply in_rev in Hy. rewrite Forall_forall in IH.
      apply IH; [exact Hy|]. rewrite forallb_forall in Hall. now apply Hall. }
    assert (Hfu : forall y, In y (rev l) -> (Z.to_nat (size y) <= f)%nat).
    { intros y Hy. apply in_rev in Hy. pose proof (sizes_ge l y Hy). pose proof (size_pos y). lia. }
    destruct (gen_all_complete f (rev l) rest HF Hfu) as [tp2 H2].
    exists (map (fun k => k - 1) (removelast parts) ++ tp2). rewrite <- app_assoc. rewrite gen_S.
    destruct (1 + sizes l =? 1) eqn:E1; [lia|]. destruct (1 + sizes l <? 1) eqn:E2; [lia|].
    replace (1 + sizes l - 1) with (sizes l) by lia.
    rewrite <- Hsum. rewrite decompose_complete; [|exact Hpos|exact Hlast|lia].
    cbn [rbind fst snd]. fold parts in H2. rewrite H2. cbn [rbind fst snd]. now rewrite rev_involutive.
  Qed.
End Gen.

(* ================= consequences of the shape ================= *)
Section Shape.
  Variable instrs : list str.
  Variable binds : list (str * item).
  Variable nnew : Z.
  Notation shape := (shape_ok instrs binds nnew).

  Lemma shape_no_empty_list t : shape t = true -> no_empty_list t = true.
  Proof.
    induction t as [l IH| | |] using item_ind'; try reflexivity.
    cbn [shape_ok no_empty_list]. destruct l as [|x l]; [discriminate|]. intros H.
    apply andb_true_iff in H as [_ H]. cbn [nonempty andb].
    apply forallb_forall. intros y Hy. rewrite Forall_forall in IH. apply IH; [exact Hy|].
    rewrite forallb_forall in H. now apply H.
  Qed.

  Lemma shape_leaves t : shape t = true -> forallb (leaf_ok instrs binds nnew) (leaves t) = true.
  Proof.
    induction t as [l IH| | |] using item_ind'; try (cbn [shape_ok leaves forallb]; intros ->; reflexivity).
    cbn [shape_ok leaves]. intros H. assert (Hall : forallb shape l = true).
    { destruct l; [discriminate|]. now apply andb_true_iff in H as [_ H]. }
    clear H. apply forallb_forall. intros y Hy. apply in_flat_map in Hy as [c [Hc Hy]].
    rewrite Forall_forall in IH. rewrite forallb_forall in Hall.
    specialize (IH c Hc (Hall c Hc)). rewrite forallb_forall in IH. now apply IH.
  Qed.
End Shape.

(* ================= the statements of C12 ================= *)
Section C12.
  Context {FO : FloatOps}.
  Variable binds : list (str * item).
  Variable cfg : config.
  Variable instrs : list str.
  Notation nnew := (n_event_new cfg).

  Theorem decompose_parts t r : 1 <= r ->
    exists parts t', decompose (Z.to_nat r) t r = Ok (parts, t') /\
      Forall (fun k => 1 <= k) parts /\ zsum parts = r.
  Proof.
    intros Hr. destruct (decompose_ok (Z.to_nat r) t r Hr (Nat.le_refl _)) as [parts [t' [H [H1 [H2 _]]]]].
    eauto.
  Qed.

  Theorem valid_gen_sound t n : 1 <= n ->
    exists x t', random_code_with_size binds cfg instrs t n = Ok (x, t') /\ valid_gen instrs binds nnew n x = true.
  Proof.
    intros Hn. destruct (gen_ok binds cfg instrs (Z.to_nat n) n t Hn (Nat.le_refl _)) as [x [t' [H [Hs Hsh]]]].
    exists x, t'. split; [exact H|]. unfold valid_gen. rewrite Hsh, Hs, Z.eqb_refl. reflexivity.
  Qed.

  Theorem valid_gen_complete n x rest : valid_gen instrs binds nnew n x = true ->
    exists tp, random_code_with_size binds cfg instrs (tp ++ rest) n = Ok (x, rest).
  Proof.
    unfold valid_gen. intros H. apply andb_true_iff in H as [Hs Hsh]. apply Z.eqb_eq in Hs. subst n.
    apply gen_complete; [exact Hsh|apply Nat.le_refl].
  Qed.

  Theorem gen_size t n : 1 <= n ->
    exists x t', random_code_with_size binds cfg instrs t n = Ok (x, t') /\ size x = n.
  Proof.
    intros Hn. destruct (valid_gen_sound t n Hn) as [x [t' [H Hv]]]. exists x, t'. split; [exact H|].
    unfold valid_gen in Hv. apply andb_true_iff in Hv as [Hs _]. lia.
  Qed.

  Theorem gen_leaves t n : 1 <= n ->
    exists x t', random_code_with_size binds cfg instrs t n = Ok (x, t') /\
      Forall (fun l => leaf_ok instrs binds nnew l = true) (leaves x).
  Proof.
    intros Hn. destruct (valid_gen_sound t n Hn) as [x [t' [H Hv]]]. exists x, t'. split; [exact H|].
    unfold valid_gen in Hv. apply andb_true_iff in Hv as [_ Hsh].
    apply Forall_forall. intros l Hl. pose proof (shape_leaves _ _ _ _ Hsh) as HL.
    rewrite forallb_forall in HL. now apply HL.
  Qed.

  Theorem gen_no_empty_list t n : 1 <= n ->
    exists x t', random_code_with_size binds cfg instrs t n = Ok (x, t') /\ no_empty_list x = true.
  Proof.
    intros Hn. destruct (valid_gen_sound t n Hn) as [x [t' [H Hv]]]. exists x, t'. split; [exact H|].
    unfold valid_gen in Hv. apply andb_true_iff in Hv as [_ Hsh]. eapply shape_no_empty_list; eauto.
  Qed.

  (* random_code: between 1 and bound-1 points for a bound >= 2, nothing below *)
  Theorem random_code_bound t m :
    (2 <= m -> exists x t', random_code binds cfg instrs t m = Ok (Some x, t') /\
                 1 <= size x <= m - 1 /\ valid_gen instrs binds nnew (size x) x = true) /\
    (m <= 1 -> random_code binds cfg instrs t m = Ok (None, t)).
  Proof.
    unfold random_code, random_code_g. split; intros Hm.
    - destruct (1 <? m) eqn:E; [|lia].
      destruct (draw_range_ok t 1 m ltac:(lia)) as [a [Ha Har]]. rewrite Ha. cbn [rbind fst snd].
      destruct (valid_gen_sound (snd (next t)) a ltac:(lia)) as [x [t' [H Hv]]]. rewrite H. cbn [rbind fst snd].
      exists x, t'. split; [reflexivity|].
      assert (size x = a) by (unfold valid_gen in Hv; apply andb_true_iff in Hv as [Hs _]; lia).
      subst a. split; [lia|exact Hv].
    - destruct (1 <? m) eqn:E; [lia|reflexivity].
  Qed.

  (* the pinned guard `max_points > 0` lets the bound 1 through to Uniform::from(1..1) *)
  Lemma random_code_pinned_bound_1 t : random_code_pinned binds cfg instrs t 1 = Panic.
  Proof. reflexivity. Qed.
End C12.

(* CODE.RAND: for EVERY i32 on the INTEGER stack (i32::MIN included) the instruction returns,
   consumes the limit, and pushes nothing or one valid item of at most min(|n|,|maxpts|) - 1 points *)
Section CodeRand.
  Context {FO : FloatOps}.
  Theorem code_rand_bound instrs p w s n ir :
    st_int s = n :: ir ->
    let s1 := set_int s ir in
    let limit := Z.min (Z.abs n) (Z.abs (cfg_max_points_rand (st_cfg s))) in
    exists w' s', code_rand instrs p w s = Ok (w', s') /\
      ((limit <= 1 /\ s' = s1 /\ w' = w) \/
       (2 <= limit /\ exists x, s' = push_code s1 x /\ 1 <= size x <= limit - 1 /\
          valid_gen instrs (st_bind s) (n_event_new (st_cfg s)) (size x) x = true)).
  Proof.
    intros Hs s1 limit. unfold code_rand. rewrite Hs. fold s1.
    assert (Hc : st_cfg s1 = st_cfg s) by reflexivity. assert (Hb : st_bind s1 = st_bind s) by reflexivity.
    rewrite Hc, Hb. unfold code_limit. fold limit.
    destruct (random_code_bound (st_bind s) (st_cfg s) instrs (w_tape w) limit) as [H2 H1].
    destruct (Z_le_gt_dec limit 1) as [Hl|Hl].
    - rewrite (H1 Hl). cbn [rbind fst snd]. eexists _, _. split; [reflexivity|]. left.
      split; [exact Hl|]. split; [reflexivity|]. destruct w; reflexivity.
    - destruct (H2 ltac:(lia)) as [x [t' [H [Hsz Hv]]]]. rewrite H. cbn [rbind fst snd].
      eexists _, _. split; [reflexivity|]. right. split; [lia|]. exists x. auto.
  Qed.

  (* the pinned limit: i32::abs overflows on i32::MIN *)
  Example code_limit_pinned_refuted_debug : code_limit_pinned Debug min32 25 = Panic.
  Proof. reflexivity. Qed.
  Example code_limit_pinned_refuted_release :
    code_limit_pinned Release min32 25 = Ok (two64 - 2147483648).
  Proof. reflexivity. Qed.
  Example code_rand_pinned_refuted :
    code_rand_pinned [] Debug {| w_next_node := 1; w_tape := [] |} (set_int empty_state [1]) = Panic.
  Proof. reflexivity. Qed.
End CodeRand.

(* C11: the printed form of a program parses back to the program. *)
From Coq Require Import ZArith List Bool Lia ZifyBool.
From PushModel Require Import Base.Sx Base.Machine Base.F32 Model.Item Model.State Model.Parser Spec.ParseSpec
  Proofs.NameProofs Proofs.ParseLex Proofs.ParseTree Proofs.ParseRules.
Import ListNotations.
Open Scope Z_scope.

Section Print.
  Context {FO : FloatOps}.

  (* the token tree of a program: lists stay lists, an atom is its printed text *)
  Fixpoint tree_of (t : item) : ttree :=
    match t with
    | IList l => TL ((fix go (l : list item) : list ttree :=
                        match l with [] => [] | x :: r => tree_of x :: go r end) l)
    | _ => TA (item_str t)
    end.
  Lemma tree_of_list l : tree_of (IList l) = TL (map tree_of l).
  Proof. reflexivity. Qed.

  Lemma items_str_eq l : items_str l = stack_str (map item_str l).
  Proof. reflexivity. Qed.

  Lemma split_ws_items_str l : split_ws (items_str l) = flat_map split_ws (map item_str l).
  Proof. rewrite items_str_eq. apply split_ws_stack_str. Qed.

  Lemma split_ws_list_str l :
    split_ws (item_str (IList l)) = s_open :: flat_map split_ws (map item_str l) ++ [s_close].
  Proof.
    rewrite item_str_list.
    change ([40; 32] ++ items_str l ++ [32; 41]) with ([40] ++ 32 :: (items_str l ++ 32 :: [41])).
    rewrite split_ws_app_ws by reflexivity. rewrite split_ws_app_ws by reflexivity.
    rewrite split_ws_items_str. reflexivity.
  Qed.

  Section Tokens.
    Variable P : item -> bool.
    Hypothesis HP : forall a, P a = true -> good_tok (item_str a).

    Lemma split_ws_item_str t : atoms_all P t = true -> split_ws (item_str t) = flatten1 (tree_of t).
    Proof.
      induction t as [l IH|n|v|n] using item_ind'; intro H;
        try (cbn [tree_of flatten1]; apply split_ws_tok; apply HP; exact H).
      rewrite split_ws_list_str, tree_of_list, flatten1_list. do 2 f_equal.
      rewrite atoms_all_list in H.
      induction l as [|x r IHr]; [reflexivity|].
      apply Forall_cons_iff in IH as [IHx IHrest]. cbn [forallb] in H. apply andb_true_iff in H as [Hx Hr].
      cbn [map flat_map flatten]. rewrite IHx by exact Hx. f_equal. now apply IHr.
    Qed.

    Lemma split_ws_items l : forallb (atoms_all P) l = true ->
      split_ws (items_str l) = flatten (map tree_of l).
    Proof.
      intro H. rewrite split_ws_items_str.
      induction l as [|x r IH]; [reflexivity|].
      cbn [forallb] in H. apply andb_true_iff in H as [Hx Hr].
      cbn [map flat_map flatten]. rewrite split_ws_item_str by exact Hx. f_equal. now apply IH.
    Qed.
  End Tokens.

  Variable names : list str.

  Lemma rt_atom_sound a : rt_atom names a = true ->
    good_tok (item_str a) /\ classify names (item_str a) = CItem a.
  Proof.
    unfold rt_atom. intro H. apply andb_true_iff in H as [Hg H]. apply good_tokb_ok in Hg.
    split; [exact Hg|].
    destruct (classify names (item_str a)) as [t| | |]; try discriminate.
    destruct t as [l|m|v|m]; [discriminate| |destruct v|]; destruct a as [l'|n|w|n]; try discriminate;
      try (destruct w; try discriminate).
    - apply str_eqb_eq in H. now subst.
    - apply eqb_prop in H. now subst.
    - apply Z.eqb_eq in H. now subst.
    - apply str_eqb_eq in H. now subst.
  Qed.

  Lemma rt_float_sound a : rt_float names a = true ->
    exists x y, a = ILit (LFloat x) /\ good_tok (ffmt 3 x) /\ classify names (ffmt 3 x) = CItem (ILit (LFloat y)).
  Proof.
    unfold rt_float. destruct a as [l|n|v|n]; try discriminate. destruct v; try discriminate.
    intro H. apply andb_true_iff in H as [Hg H]. apply good_tokb_ok in Hg.
    destruct (classify names (ffmt 3 f)) as [t| | |] eqn:E; try discriminate.
    destruct t as [l|m|v|m]; try discriminate. destruct v; try discriminate.
    exists f, f0. auto.
  Qed.

  Lemma printable_good a : rt_atom names a = true -> good_tok (item_str a).
  Proof. intro H. now apply rt_atom_sound. Qed.
  Lemma printable_f_good a : rt_atom names a || rt_float names a = true -> good_tok (item_str a).
  Proof.
    intro H. apply orb_true_iff in H as [H|H]; [now apply rt_atom_sound|].
    destruct (rt_float_sound a H) as [x [y [-> [Hg _]]]]. exact Hg.
  Qed.

  (* ---- exact round trip ---- *)
  Lemma to_items_tree_of t : printable names t = true ->
    atoms_ok names (tree_of t) /\ to_items names (tree_of t) = [t].
  Proof.
    unfold printable.
    induction t as [l IH|n|v|n] using item_ind'; intro H;
      try (cbn [atoms_all] in H; destruct (rt_atom_sound _ H) as [_ Hc];
           cbn [tree_of atoms_ok to_items]; unfold atom_tok; rewrite Hc; repeat split; discriminate).
    rewrite tree_of_list, to_items_list, atoms_ok_list. rewrite atoms_all_list in H.
    assert (F : forest_ok names (map tree_of l) /\ to_stack names (map tree_of l) = l).
    { induction l as [|x r IHr]; [split; [constructor|reflexivity]|].
      apply Forall_cons_iff in IH as [IHx IHrest]. cbn [forallb] in H. apply andb_true_iff in H as [Hx Hr].
      destruct (IHx Hx) as [A1 A2]. destruct (IHr IHrest Hr) as [B1 B2].
      split; [constructor; assumption|]. cbn [map to_stack flat_map]. rewrite A2. cbn [app]. f_equal. exact B2. }
    destruct F as [F1 F2]. split; [exact F1|]. now rewrite F2.
  Qed.

  Lemma to_stack_trees l : forallb (printable names) l = true ->
    forest_ok names (map tree_of l) /\ to_stack names (map tree_of l) = l.
  Proof.
    induction l as [|x r IH]; intro H; [split; [constructor|reflexivity]|].
    cbn [forallb] in H. apply andb_true_iff in H as [Hx Hr].
    destruct (to_items_tree_of x Hx) as [A1 A2]. destruct (IH Hr) as [B1 B2].
    split; [constructor; assumption|]. cbn [map to_stack flat_map]. rewrite A2. cbn [app]. f_equal. exact B2.
  Qed.

  Variable p : profile.

  Theorem code_print_roundtrip l s :
    forallb (printable names) l = true -> str_fits (items_str l) -> st_exec s = [] ->
    parse_program p names s (items_str l) = Ok (set_exec s l).
  Proof.
    intros H Hb He. destruct (to_stack_trees l H) as [F1 F2].
    rewrite (parse_text_tree p names (map tree_of l)); [now rewrite He, F2| |exact F1|exact Hb].
    apply (split_ws_items (rt_atom names) printable_good l H).
  Qed.

  Theorem parse_print_tree t s :
    printable names t = true -> str_fits (item_str t) -> st_exec s = [] ->
    parse_program p names s (item_str t) = Ok (set_exec s [t]).
  Proof.
    intros H Hb He. destruct (to_items_tree_of t H) as [F1 F2].
    rewrite (parse_text_tree p names [tree_of t]); [| |now constructor|exact Hb].
    - rewrite He. cbn [to_stack flat_map]. rewrite F2. reflexivity.
    - cbn [flatten flat_map]. rewrite app_nil_r.
      apply (split_ws_item_str (rt_atom names) printable_good t H).
  Qed.

  (* ---- with floats: exact at the printed precision ---- *)
  Section Floats.
    (* the scalar law: a 3-decimal text that parses as a float prints as itself *)
    Hypothesis Hf : forall x y, fparse (ffmt 3 x) = Some y -> ffmt 3 y = ffmt 3 x.

    Lemma to_items_tree_of_f t : printable_f names t = true ->
      atoms_ok names (tree_of t) /\ exists t', to_items names (tree_of t) = [t'] /\ item_str t' = item_str t.
    Proof.
      unfold printable_f.
      assert (A : forall a, (forall l, a <> IList l) -> rt_atom names a || rt_float names a = true ->
                  atom_tok names (item_str a) /\
                  exists t', match classify names (item_str a) with CItem i => [i] | _ => [] end = [t'] /\ item_str t' = item_str a).
      { intros a Ha H. apply orb_true_iff in H as [H|H].
        - destruct (rt_atom_sound a H) as [_ Hc]. unfold atom_tok. rewrite Hc.
          split; [split; discriminate|]. now exists a.
        - destruct (rt_float_sound a H) as [x [y [-> [Hg Hc]]]]. cbn [item_str lit_str].
          unfold atom_tok. rewrite Hc. split; [split; discriminate|].
          exists (ILit (LFloat y)). split; [reflexivity|]. cbn [item_str lit_str].
          apply Hf. now apply (classify_float_inv names). }
      induction t as [l IH|n|v|n] using item_ind'; intro H;
        try (cbn [atoms_all] in H; cbn [tree_of atoms_ok to_items]; apply A; [discriminate|exact H]).
      rewrite tree_of_list, atoms_ok_list. rewrite atoms_all_list in H.
      assert (F : forest_ok names (map tree_of l) /\
                  exists l', to_stack names (map tree_of l) = l' /\ map item_str l' = map item_str l).
      { induction l as [|x r IHr]; [split; [constructor|now exists []]|].
        apply Forall_cons_iff in IH as [IHx IHrest]. cbn [forallb] in H. apply andb_true_iff in H as [Hx Hr].
        destruct (IHx Hx) as [A1 [x' [A2 A3]]]. destruct (IHr IHrest Hr) as [B1 [r' [B2 B3]]].
        split; [constructor; assumption|]. exists (x' :: r'). split.
        - cbn [map to_stack flat_map]. rewrite A2. cbn [app]. f_equal. exact B2.
        - cbn [map]. now rewrite A3, B3. }
      destruct F as [F1 [l' [F2 F3]]]. split; [exact F1|].
      exists (IList l'). split; [now rewrite to_items_list, F2|].
      rewrite !item_str_list, !items_str_eq, F3. reflexivity.
    Qed.

    Lemma to_stack_trees_f l : forallb (printable_f names) l = true ->
      forest_ok names (map tree_of l) /\
      exists l', to_stack names (map tree_of l) = l' /\ map item_str l' = map item_str l.
    Proof.
      induction l as [|x r IH]; intro H; [split; [constructor|now exists []]|].
      cbn [forallb] in H. apply andb_true_iff in H as [Hx Hr].
      destruct (to_items_tree_of_f x Hx) as [A1 [x' [A2 A3]]]. destruct (IH Hr) as [B1 [r' [B2 B3]]].
      split; [constructor; assumption|]. exists (x' :: r'). split.
      - cbn [map to_stack flat_map]. rewrite A2. cbn [app]. f_equal. exact B2.
      - cbn [map]. now rewrite A3, B3.
    Qed.

    Theorem print_parse_print_tree t s :
      printable_f names t = true -> str_fits (item_str t) -> st_exec s = [] ->
      exists t', parse_program p names s (item_str t) = Ok (set_exec s [t']) /\ item_str t' = item_str t.
    Proof.
      intros H Hb He. destruct (to_items_tree_of_f t H) as [F1 [t' [F2 F3]]].
      exists t'. split; [|exact F3].
      rewrite (parse_text_tree p names [tree_of t]); [| |now constructor|exact Hb].
      - rewrite He. cbn [to_stack flat_map]. rewrite F2. reflexivity.
      - cbn [flatten flat_map]. rewrite app_nil_r.
        apply (split_ws_item_str _ printable_f_good t H).
    Qed.

    Theorem print_parse_print_stack l s :
      forallb (printable_f names) l = true -> str_fits (items_str l) -> st_exec s = [] ->
      exists l', parse_program p names s (items_str l) = Ok (set_exec s l') /\ items_str l' = items_str l.
    Proof.
      intros H Hb He. destruct (to_stack_trees_f l H) as [F1 [l' [F2 F3]]].
      exists l'. split; [|now rewrite !items_str_eq, F3].
      rewrite (parse_text_tree p names (map tree_of l)); [now rewrite He, F2| |exact F1|exact Hb].
      apply (split_ws_items _ printable_f_good l H).
    Qed.
  End Floats.

  (* ---- sufficient conditions for the atoms, kind by kind ---- *)
  Lemma z_str_plain z : plain (z_str z).
  Proof.
    destruct (z_str_head z) as [c [r [E Hc]]]. unfold plain, vec_prefix. rewrite E.
    assert (c <> 73 /\ c <> 70 /\ c <> 66 /\ c <> 40 /\ c <> 41) as [N1 [N2 [N3 [N4 N5]]]] by lia.
    cbn [starts_with s_INT s_FLOAT s_BOOL].
    replace (73 =? c) with false by lia. replace (70 =? c) with false by lia. replace (66 =? c) with false by lia.
    cbn [andb]. repeat split; unfold s_open, s_close; congruence.
  Qed.

  Lemma printable_int z : in_i32 z = true -> is_instr names (z_str z) = false ->
    printable names (ILit (LInt z)) = true.
  Proof.
    intros Hz Hi. unfold printable. cbn [atoms_all]. unfold rt_atom. cbn [item_str lit_str].
    rewrite (classify_int names (z_str z) z (z_str_plain z) Hi (i32_roundtrip z Hz)).
    apply andb_true_iff. split; [apply good_tokb_ok, z_str_good|apply Z.eqb_refl].
  Qed.

  Lemma printable_instr n : plain n -> good_tok n -> is_instr names n = true ->
    printable names (IInstr n) = true.
  Proof.
    intros Hp Hg Hi. unfold printable. cbn [atoms_all]. unfold rt_atom. cbn [item_str].
    rewrite (classify_instr names n Hp Hi).
    apply andb_true_iff. split; [now apply good_tokb_ok|apply str_eqb_refl].
  Qed.

  Lemma printable_bool b : is_instr names (bool_str b) = false -> fparse (bool_str b) = None ->
    printable names (ILit (LBool b)) = true.
  Proof.
    intros Hi Hf. unfold printable. cbn [atoms_all]. unfold rt_atom. cbn [item_str lit_str].
    rewrite (classify_bool names b Hi Hf).
    apply andb_true_iff. split; [now destruct b|now destruct b].
  Qed.

  Lemma printable_name n : good_tok n -> classify names n = CItem (IName n) ->
    printable names (IName n) = true.
  Proof.
    intros Hg Hc. unfold printable. cbn [atoms_all]. unfold rt_atom. cbn [item_str]. rewrite Hc.
    apply andb_true_iff. split; [now apply good_tokb_ok|apply str_eqb_refl].
  Qed.
End Print.

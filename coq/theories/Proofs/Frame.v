(* Footprint algebra: composition of [same_outside] facts. *)
From Coq Require Import ZArith String List Bool Lia.
From PushModel Require Import Base.Sx Base.Machine Base.F32 Model.Item Model.GraphT Model.State.
Import ListNotations.

Ltac so_split :=
  unfold same_outside; cbn [m_bool m_code m_exec m_float m_index m_int m_name m_bvec m_fvec m_ivec
    m_input m_output m_graph m_bind m_cfg m_quote m_send mask_none mask_union
    also_bool also_code also_exec also_float also_index also_int also_name also_bvec also_fvec also_ivec
    also_input also_output also_graph also_bind also_cfg also_quote also_send];
  repeat split.

Lemma same_outside_refl m s : same_outside m s s.
Proof. so_split; reflexivity. Qed.

Lemma same_outside_trans m1 m2 s1 s2 s3 :
  same_outside m1 s1 s2 -> same_outside m2 s2 s3 -> same_outside (mask_union m1 m2) s1 s3.
Proof.
  unfold same_outside. cbn [mask_union m_bool m_code m_exec m_float m_index m_int m_name m_bvec m_fvec m_ivec
    m_input m_output m_graph m_bind m_cfg m_quote m_send].
  intros H1 H2.
  repeat match goal with H : _ /\ _ |- _ => destruct H end.
  repeat split; intros Hm; apply orb_false_elim in Hm as [Ha Hb];
    (etransitivity; [match goal with H : _ = false -> _ |- _ => apply H; assumption end|]);
    match goal with H : _ = false -> _ |- _ => apply H; assumption end.
Qed.

(* a mask may always be enlarged *)
Definition mask_le (a b : mask) : Prop :=
  forall f : mask -> bool,
    In f [m_bool; m_code; m_exec; m_float; m_index; m_int; m_name; m_bvec; m_fvec; m_ivec;
          m_input; m_output; m_graph; m_bind; m_cfg; m_quote; m_send] ->
    f b = false -> f a = false.

Lemma same_outside_weaken a b s s' : mask_le a b -> same_outside a s s' -> same_outside b s s'.
Proof.
  intros L H. unfold same_outside in *.
  repeat match goal with H : _ /\ _ |- _ => destruct H end.
  repeat split; intros Hm;
    match goal with H : _ = false -> ?x = _ |- ?x = _ => apply H end;
    apply L; try assumption; cbn; tauto.
Qed.

Ltac mask_le_tac :=
  let f := fresh "f" in let Hin := fresh "Hin" in let Hb := fresh "Hb" in
  intros f Hin Hb; cbn in Hin;
  repeat (destruct Hin as [<- | Hin]; [cbn in *; try reflexivity; try assumption;
           repeat match goal with H : (_ || _) = false |- _ => apply orb_false_elim in H as [? ?] end;
           try assumption; try discriminate|]);
  contradiction.

(* C10: decidable versions of the frame predicates, evaluated by the checker `frame.check`
   on observed states.  Equality is syntactic (floats are their bit patterns, exactly what the
   wire carries); each boolean function is proved equivalent to its Prop. *)
From Coq Require Import ZArith String List Bool Lia.
From PushModel Require Import Base.Sx Base.Machine Base.F32 Model.Item Model.GraphT Model.State
  Model.InstrBase Spec.Footprint.
Import ListNotations.

Definition eqb_ok {A} (e : A -> A -> bool) : Prop := forall x y, e x y = true <-> x = y.

Lemma bool_eqb_ok : eqb_ok Bool.eqb.
Proof. intros x y. apply Bool.eqb_true_iff. Qed.
Lemma z_eqb_ok : eqb_ok Z.eqb.
Proof. intros x y. apply Z.eqb_eq. Qed.

Lemma list_eqb_ok {A} (e : A -> A -> bool) : eqb_ok e -> eqb_ok (list_eqb e).
Proof.
  intros He a. induction a as [|x ra IH]; intros [|y rb]; cbn [list_eqb]; split; intros H;
    try discriminate; try reflexivity.
  - apply andb_prop in H as [H1 H2]. apply He in H1. apply IH in H2. now subst.
  - inversion H; subst. apply andb_true_intro. split; [now apply He|now apply IH].
Qed.

Definition pair_eqb {A B} (ea : A -> A -> bool) (eb : B -> B -> bool) (x y : A * B) : bool :=
  ea (fst x) (fst y) && eb (snd x) (snd y).
Lemma pair_eqb_ok {A B} (ea : A -> A -> bool) (eb : B -> B -> bool) :
  eqb_ok ea -> eqb_ok eb -> eqb_ok (pair_eqb ea eb).
Proof.
  intros Ha Hb [a b] [c d]. unfold pair_eqb. cbn [fst snd]. rewrite andb_true_iff, (Ha a c), (Hb b d).
  split; [intros [-> ->]; reflexivity|intros H; inversion H; auto].
Qed.

(* ---- items, syntactically ---- *)
Definition lit_eqs (a b : lit) : bool :=
  match a, b with
  | LBool x, LBool y => Bool.eqb x y
  | LInt x, LInt y => Z.eqb x y
  | LIndex c1 d1, LIndex c2 d2 => Z.eqb c1 c2 && Z.eqb d1 d2
  | LFloat x, LFloat y => Z.eqb x y
  | LBoolVec x, LBoolVec y => list_eqb Bool.eqb x y
  | LIntVec x, LIntVec y => list_eqb Z.eqb x y
  | LFloatVec x, LFloatVec y => list_eqb Z.eqb x y
  | _, _ => false
  end.
Lemma lit_eqs_ok : eqb_ok lit_eqs.
Proof.
  pose proof (list_eqb_ok _ bool_eqb_ok) as Lb. pose proof (list_eqb_ok _ z_eqb_ok) as Lz.
  assert (inj : forall {A} (C : A -> lit) (x y : A) (P : Prop),
             (forall u v, C u = C v -> u = v) -> (P <-> x = y) -> (P <-> C x = C y)).
  { intros A C x y P Hi Hp. rewrite Hp. split; [intros ->; reflexivity|apply Hi]. }
  intros [x|x|c1 d1|x|x|x|x] [y|y|c2 d2|y|y|y|y]; cbn [lit_eqs]; try (split; intros H; discriminate H).
  - apply inj; [intros u v H; now inversion H|apply bool_eqb_ok].
  - apply inj; [intros u v H; now inversion H|apply z_eqb_ok].
  - rewrite andb_true_iff, !Z.eqb_eq. split; [intros [-> ->]; reflexivity|intros H; inversion H; auto].
  - apply inj; [intros u v H; now inversion H|apply z_eqb_ok].
  - apply inj; [intros u v H; now inversion H|apply Lb].
  - apply inj; [intros u v H; now inversion H|apply Lz].
  - apply inj; [intros u v H; now inversion H|apply Lz].
Qed.

Fixpoint item_eqs (a b : item) {struct a} : bool :=
  match a, b with
  | IList la, IList lb =>
      (fix go (la lb : list item) {struct la} : bool :=
         match la, lb with
         | [], [] => true
         | x :: ra, y :: rb => item_eqs x y && go ra rb
         | _, _ => false
         end) la lb
  | IInstr n, IInstr m => list_eqb Z.eqb n m
  | ILit v, ILit u => lit_eqs v u
  | IName n, IName m => list_eqb Z.eqb n m
  | _, _ => false
  end.
Lemma item_eqs_list la lb : item_eqs (IList la) (IList lb) = list_eqb item_eqs la lb.
Proof.
  cbn [item_eqs]. revert lb. induction la as [|x ra IH]; intros [|y rb]; cbn [list_eqb]; try reflexivity.
  now rewrite IH.
Qed.
Lemma item_eqs_ok : eqb_ok item_eqs.
Proof.
  pose proof (list_eqb_ok _ z_eqb_ok) as Lz.
  intros a. induction a as [la IH|n|v|n] using item_ind'; intros b.
  - destruct b as [lb|m|u|m]; try (cbn [item_eqs]; split; intros H; discriminate).
    rewrite item_eqs_list.
    assert (E : forall lb, list_eqb item_eqs la lb = true <-> la = lb).
    { clear lb. induction IH as [|x ra Hx Hr IHr]; intros [|y rb]; cbn [list_eqb]; split; intros H;
        try discriminate; try reflexivity.
      - apply andb_prop in H as [H1 H2]. apply Hx in H1. apply IHr in H2. now subst.
      - inversion H; subst. apply andb_true_intro. split; [now apply Hx|now apply IHr]. }
    rewrite E. split; [intros ->; reflexivity|intros H; now inversion H].
  - destruct b as [lb|m|u|m]; cbn [item_eqs]; split; intros H; try discriminate.
    + apply Lz in H. now subst. + inversion H; subst. now apply Lz.
  - destruct b as [lb|m|u|m]; cbn [item_eqs]; split; intros H; try discriminate.
    + apply lit_eqs_ok in H. now subst. + inversion H; subst. now apply lit_eqs_ok.
  - destruct b as [lb|m|u|m]; cbn [item_eqs]; split; intros H; try discriminate.
    + apply Lz in H. now subst. + inversion H; subst. now apply Lz.
Qed.

(* ---- the other field types ---- *)
Definition str_eqs : str -> str -> bool := list_eqb Z.eqb.
Definition msg_eqs : msg -> msg -> bool := pair_eqb (list_eqb Z.eqb) (list_eqb Bool.eqb).
Definition graph_eqs (g h : graph) : bool :=
  list_eqb (pair_eqb Z.eqb Z.eqb) (g_nodes g) (g_nodes h) &&
  list_eqb (pair_eqb Z.eqb (list_eqb (pair_eqb Z.eqb Z.eqb))) (g_edges g) (g_edges h).
Definition bind_eqs : (str * item) -> (str * item) -> bool := pair_eqb str_eqs item_eqs.
Definition cfg_eqs (a b : config) : bool :=
  Z.eqb (cfg_max_rand_float a) (cfg_max_rand_float b) && Z.eqb (cfg_min_rand_float a) (cfg_min_rand_float b) &&
  Z.eqb (cfg_max_rand_int a) (cfg_max_rand_int b) && Z.eqb (cfg_min_rand_int a) (cfg_min_rand_int b) &&
  Z.eqb (cfg_eval_push_limit a) (cfg_eval_push_limit b) && Z.eqb (cfg_eval_time_limit a) (cfg_eval_time_limit b) &&
  Z.eqb (cfg_growth_cap a) (cfg_growth_cap b) && Z.eqb (cfg_new_erc_name_prob a) (cfg_new_erc_name_prob b) &&
  Z.eqb (cfg_max_points_rand a) (cfg_max_points_rand b) && Z.eqb (cfg_max_points_prog a) (cfg_max_points_prog b).

Lemma str_eqs_ok : eqb_ok str_eqs.
Proof. apply list_eqb_ok, z_eqb_ok. Qed.
Lemma msg_eqs_ok : eqb_ok msg_eqs.
Proof. apply pair_eqb_ok; apply list_eqb_ok; [apply z_eqb_ok|apply bool_eqb_ok]. Qed.
Lemma zz_eqs_ok : eqb_ok (pair_eqb Z.eqb Z.eqb).
Proof. apply pair_eqb_ok; apply z_eqb_ok. Qed.
Lemma graph_eqs_ok : eqb_ok graph_eqs.
Proof.
  intros [n1 e1] [n2 e2]. unfold graph_eqs. cbn [g_nodes g_edges]. rewrite andb_true_iff.
  rewrite (list_eqb_ok _ zz_eqs_ok n1 n2).
  rewrite (list_eqb_ok _ (pair_eqb_ok _ _ z_eqb_ok (list_eqb_ok _ zz_eqs_ok)) e1 e2).
  split; [intros [-> ->]; reflexivity|intros H; inversion H; auto].
Qed.
Lemma bind_eqs_ok : eqb_ok bind_eqs.
Proof. apply pair_eqb_ok; [apply str_eqs_ok|apply item_eqs_ok]. Qed.
Lemma cfg_eqs_ok : eqb_ok cfg_eqs.
Proof.
  intros [a1 a2 a3 a4 a5 a6 a7 a8 a9 a10] [b1 b2 b3 b4 b5 b6 b7 b8 b9 b10]. unfold cfg_eqs.
  cbn [cfg_max_rand_float cfg_min_rand_float cfg_max_rand_int cfg_min_rand_int cfg_eval_push_limit
       cfg_eval_time_limit cfg_growth_cap cfg_new_erc_name_prob cfg_max_points_rand cfg_max_points_prog].
  rewrite !andb_true_iff, !Z.eqb_eq. split.
  - intros H. repeat match goal with H : _ /\ _ |- _ => destruct H end. now subst.
  - intros H. inversion H. repeat split.
Qed.

(* ---- same_outside, decidably ---- *)
Definition same_outside_b (m : mask) (s s' : state) : bool :=
  (m_bool m || list_eqb Bool.eqb (st_bool s') (st_bool s)) &&
  ((m_code m || list_eqb item_eqs (st_code s') (st_code s)) &&
  ((m_exec m || list_eqb item_eqs (st_exec s') (st_exec s)) &&
  ((m_float m || list_eqb Z.eqb (st_float s') (st_float s)) &&
  ((m_index m || list_eqb (pair_eqb Z.eqb Z.eqb) (st_index s') (st_index s)) &&
  ((m_int m || list_eqb Z.eqb (st_int s') (st_int s)) &&
  ((m_name m || list_eqb str_eqs (st_name s') (st_name s)) &&
  ((m_bvec m || list_eqb (list_eqb Bool.eqb) (st_bvec s') (st_bvec s)) &&
  ((m_fvec m || list_eqb (list_eqb Z.eqb) (st_fvec s') (st_fvec s)) &&
  ((m_ivec m || list_eqb (list_eqb Z.eqb) (st_ivec s') (st_ivec s)) &&
  ((m_input m || list_eqb msg_eqs (st_input s') (st_input s)) &&
  ((m_output m || list_eqb msg_eqs (st_output s') (st_output s)) &&
  ((m_graph m || list_eqb graph_eqs (st_graph s') (st_graph s)) &&
  ((m_bind m || list_eqb bind_eqs (st_bind s') (st_bind s)) &&
  ((m_cfg m || cfg_eqs (st_cfg s') (st_cfg s)) &&
  ((m_quote m || Bool.eqb (st_quote s') (st_quote s)) &&
   (m_send m || Bool.eqb (st_send s') (st_send s))))))))))))))))).

Lemma guarded_iff (mb e : bool) (P : Prop) : (e = true <-> P) -> ((mb || e) = true <-> (mb = false -> P)).
Proof.
  intros H. destruct mb; cbn [orb].
  - split; [intros _ D; discriminate D|reflexivity].
  - rewrite H. split; [auto|intros K; now apply K].
Qed.
Lemma and_iff (A A' B B' : Prop) : (A <-> A') -> (B <-> B') -> (A /\ B <-> A' /\ B').
Proof. tauto. Qed.

Theorem same_outside_b_ok m s s' : same_outside_b m s s' = true <-> same_outside m s s'.
Proof.
  unfold same_outside_b, same_outside.
  repeat (rewrite andb_true_iff; apply and_iff; [apply guarded_iff|]); try apply guarded_iff.
  - apply (list_eqb_ok _ bool_eqb_ok).
  - apply (list_eqb_ok _ item_eqs_ok).
  - apply (list_eqb_ok _ item_eqs_ok).
  - apply (list_eqb_ok _ z_eqb_ok).
  - apply (list_eqb_ok _ zz_eqs_ok).
  - apply (list_eqb_ok _ z_eqb_ok).
  - apply (list_eqb_ok _ str_eqs_ok).
  - apply (list_eqb_ok _ (list_eqb_ok _ bool_eqb_ok)).
  - apply (list_eqb_ok _ (list_eqb_ok _ z_eqb_ok)).
  - apply (list_eqb_ok _ (list_eqb_ok _ z_eqb_ok)).
  - apply (list_eqb_ok _ msg_eqs_ok).
  - apply (list_eqb_ok _ msg_eqs_ok).
  - apply (list_eqb_ok _ graph_eqs_ok).
  - apply (list_eqb_ok _ bind_eqs_ok).
  - apply cfg_eqs_ok.
  - apply bool_eqb_ok.
  - apply bool_eqb_ok.
Qed.

(* ---- only_pops, decidably ---- *)
Fixpoint suffix_b {A} (e : A -> A -> bool) (l' l : list A) : bool :=
  list_eqb e l' l || match l with [] => false | _ :: r => suffix_b e l' r end.

Lemma suffix_b_ok {A} (e : A -> A -> bool) : eqb_ok e -> forall l' l, suffix_b e l' l = true <-> suffix l' l.
Proof.
  intros He l' l. pose proof (list_eqb_ok _ He) as Le. induction l as [|x r IH]; cbn [suffix_b].
  - rewrite orb_false_r, (Le l' []). unfold suffix. split.
    + intros ->. exists O. reflexivity.
    + intros [k ->]. destruct k; reflexivity.
  - rewrite orb_true_iff, (Le l' (x :: r)), IH. unfold suffix. split.
    + intros [->|[k ->]]; [exists O; reflexivity|exists (S k); reflexivity].
    + intros [[|k] ->]; [left; reflexivity|right; exists k; reflexivity].
Qed.

Definition only_pops_b (s s' : state) : bool :=
  suffix_b Bool.eqb (st_bool s') (st_bool s) &&
  (suffix_b item_eqs (st_code s') (st_code s) &&
  (suffix_b item_eqs (st_exec s') (st_exec s) &&
  (suffix_b Z.eqb (st_float s') (st_float s) &&
  (suffix_b Z.eqb (st_int s') (st_int s) &&
  (suffix_b str_eqs (st_name s') (st_name s) &&
  (suffix_b (list_eqb Bool.eqb) (st_bvec s') (st_bvec s) &&
  (suffix_b (list_eqb Z.eqb) (st_fvec s') (st_fvec s) &&
  (suffix_b (list_eqb Z.eqb) (st_ivec s') (st_ivec s) &&
  (list_eqb (pair_eqb Z.eqb Z.eqb) (st_index s') (st_index s) &&
  (list_eqb msg_eqs (st_input s') (st_input s) &&
  (list_eqb msg_eqs (st_output s') (st_output s) &&
  (list_eqb graph_eqs (st_graph s') (st_graph s) &&
  (list_eqb bind_eqs (st_bind s') (st_bind s) &&
  (cfg_eqs (st_cfg s') (st_cfg s) &&
  (Bool.eqb (st_quote s') (st_quote s) &&
   Bool.eqb (st_send s') (st_send s)))))))))))))))).

Theorem only_pops_b_ok s s' : only_pops_b s s' = true <-> only_pops s s'.
Proof.
  unfold only_pops_b, only_pops.
  repeat (rewrite andb_true_iff; apply and_iff; [|]).
  - apply (suffix_b_ok _ bool_eqb_ok).
  - apply (suffix_b_ok _ item_eqs_ok).
  - apply (suffix_b_ok _ item_eqs_ok).
  - apply (suffix_b_ok _ z_eqb_ok).
  - apply (suffix_b_ok _ z_eqb_ok).
  - apply (suffix_b_ok _ str_eqs_ok).
  - apply (suffix_b_ok _ (list_eqb_ok _ bool_eqb_ok)).
  - apply (suffix_b_ok _ (list_eqb_ok _ z_eqb_ok)).
  - apply (suffix_b_ok _ (list_eqb_ok _ z_eqb_ok)).
  - apply (list_eqb_ok _ zz_eqs_ok).
  - apply (list_eqb_ok _ msg_eqs_ok).
  - apply (list_eqb_ok _ msg_eqs_ok).
  - apply (list_eqb_ok _ graph_eqs_ok).
  - apply (list_eqb_ok _ bind_eqs_ok).
  - apply cfg_eqs_ok.
  - apply bool_eqb_ok.
  - apply bool_eqb_ok.
Qed.

(* the verdict of the checker on a (before, after) pair: footprint respected, and only pops when
   the instruction does not apply ([u]: an operand is lacking or the guard fails) *)
Definition frame_verdict (m : mask) (u : bool) (before after : state) : bool :=
  same_outside_b m before after && (if u then only_pops_b before after else true).

Theorem frame_verdict_ok m u b a :
  frame_verdict m u b a = true <-> same_outside m b a /\ (u = true -> only_pops b a).
Proof.
  unfold frame_verdict. rewrite andb_true_iff, same_outside_b_ok.
  destruct u.
  - rewrite only_pops_b_ok. tauto.
  - split; [intros [H _]; split; [exact H|intros D; discriminate D]|intros [H _]; auto].
Qed.

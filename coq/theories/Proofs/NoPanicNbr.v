(* C01: the four LIST.NEIGHBOR* instructions.  The topology code cannot panic:
   the edge length is at least 1, so no division by zero in decompose_index. *)
From Coq Require Import ZArith String List Bool Lia ZifyBool.
From PushModel Require Import Base.Sx Base.Machine Base.ListOps Base.F32 Model.Item Model.GraphT Model.State
  Model.InstrBase Model.ICode Model.Registry Model.IList Model.Topology Model.INeighbor Model.RegistryNbr
  Proofs.NoPanicBase Proofs.NoPanicItem Proofs.NoPanicTac Proofs.NoPanicListIo.
Import ListNotations.
Open Scope Z_scope.

Lemma checked_pow_pos b n cp : 1 <= b -> 0 <= n -> checked_pow b n = Some cp -> 1 <= cp.
Proof.
  intros Hb Hn. unfold checked_pow.
  destruct (n =? 0); [intros E; inversion E; lia|].
  destruct (b =? 0) eqn:E0; [lia|].
  destruct (b =? 1); [intros E; inversion E; lia|].
  destruct (64 <=? n) eqn:E64; [discriminate|].
  destruct (b ^ n <? two64); [|discriminate]. intros E; inversion E; subst.
  assert (0 < b ^ n) by (apply Z.pow_pos_nonneg; lia). lia.
Qed.

Lemma edge_go_ge ntotal d fuel : forall e, e <= edge_go ntotal d fuel e.
Proof.
  induction fuel as [|f IH]; intros e; cbn [edge_go]; [lia|].
  destruct (checked_pow e d); [|lia]. destruct (z <? ntotal); [|lia].
  specialize (IH (e + 1)). lia.
Qed.
Lemma edge_length_pos ntotal ndim : 1 <= edge_length ntotal ndim.
Proof. unfold edge_length. apply edge_go_ge. Qed.

Section Nbr.
  Context {FO : FloatOps}.

  Lemma decompose_go_not_panic index nedge : 1 <= nedge -> forall k i, decompose_go index nedge k i <> Panic.
  Proof.
    intros He. induction k as [|k IH]; intros i; cbn [decompose_go]; [discriminate|].
    destruct (checked_pow nedge (usize_as_u32 i)) as [cp|] eqn:C; [|discriminate].
    assert (0 <= usize_as_u32 i) by (unfold usize_as_u32, two32; apply Z.mod_pos_bound; lia).
    pose proof (checked_pow_pos _ _ _ He H C).
    replace ((cp =? 0) || (nedge =? 0)) with false by lia.
    specialize (IH (i + 1)). destruct (decompose_go index nedge k (i + 1)) as [[l|]| |]; congruence.
  Qed.
  Lemma decompose_index_not_panic index nedge ndim : 1 <= nedge -> decompose_index index nedge ndim <> Panic.
  Proof. intros. now apply decompose_go_not_panic. Qed.

  Lemma sqsum_not_panic p : forall l1 l2 acc, sqsum p acc l1 l2 <> Panic.
  Proof.
    induction l1 as [|a r1 IH]; intros l2 acc; cbn [sqsum]; [discriminate|].
    destruct l2 as [|b r2]; [discriminate|].
    unfold sq_term, libm2. destruct p; [destruct (flibm _ _)|]; cbn [rbind]; try discriminate; apply IH.
  Qed.
  Lemma euclid_not_panic p l1 l2 : euclidean_distance p l1 l2 <> Panic.
  Proof.
    unfold euclidean_distance. destruct (negb _); [discriminate|].
    pose proof (sqsum_not_panic p l1 l2 f_zero). destruct (sqsum p f_zero l1 l2); cbn [rbind]; congruence.
  Qed.

  Lemma nbr_scan_ok p nedge ndim dindex radius : 1 <= nedge -> forall k i,
    match nbr_scan p nedge ndim dindex radius k i with
    | Ok l => Forall wf_z l
    | Panic => False
    | Need _ _ => True
    end.
  Proof.
    intros He. induction k as [|k IH]; intros i; cbn [nbr_scan]; [constructor|].
    pose proof (decompose_index_not_panic i nedge ndim He) as D.
    destruct (decompose_index i nedge ndim) as [odi| |]; cbn [rbind]; [|congruence|exact I].
    assert (K : match (match odi with
                       | None => Ok false
                       | Some di => let! od := euclidean_distance p dindex di in
                                    match od with None => Ok false | Some dist => Ok (fle dist radius) end
                       end) with Panic => False | _ => True end).
    { destruct odi as [di|]; [|exact I]. pose proof (euclid_not_panic p dindex di).
      destruct (euclidean_distance p dindex di) as [[d|]| |]; cbn [rbind]; try exact I. congruence. }
    destruct (match odi with None => Ok false | Some di => _ end) as [keep| |]; cbn [rbind]; [|contradiction|exact I].
    specialize (IH (i + 1)). destruct (nbr_scan p nedge ndim dindex radius k (i + 1)); cbn [rbind]; auto.
    destruct keep; auto using wf_usize_as_i32.
  Qed.

  Lemma find_neighbors_ok p ntotal ndim index radius :
    match find_neighbors p ntotal ndim index radius with
    | Ok (Some l) => Forall wf_z l
    | Ok None => True
    | Panic => False
    | Need _ _ => True
    end.
  Proof.
    unfold find_neighbors. destruct (nbr_guard ntotal ndim index radius); [exact I|].
    unfold find_neighbors_with. pose proof (edge_length_pos ntotal ndim) as He.
    pose proof (decompose_index_not_panic index _ ndim He) as D.
    destruct (decompose_index index (edge_length ntotal ndim) ndim) as [[dindex|]| |]; cbn [rbind]; try congruence; try exact I.
    pose proof (nbr_scan_ok p _ ndim dindex radius He (Z.to_nat ntotal) 0) as S.
    destruct (nbr_scan p (edge_length ntotal ndim) ndim dindex radius (Z.to_nat ntotal) 0); cbn [rbind]; auto.
  Qed.

  Lemma nbr_call_not_panic p t2 t1 t0 fv : nbr_call p t2 t1 t0 fv = Panic -> False.
  Proof. unfold nbr_call. intros E. pose proof (find_neighbors_ok p (nbr_size t2) (nbr_dims (nbr_size t2) t0) (nbr_index (nbr_size t2) t1) (nbr_radius fv)) as H. now rewrite E in H. Qed.
  Lemma nbr_call_wf p t2 t1 t0 fv l : nbr_call p t2 t1 t0 fv = Ok (Some l) -> Forall wf_z l.
  Proof. unfold nbr_call. intros E. pose proof (find_neighbors_ok p (nbr_size t2) (nbr_dims (nbr_size t2) t0) (nbr_index (nbr_size t2) t1) (nbr_radius fv)) as H. now rewrite E in H. Qed.

  Lemma wf_nbr_ivals code position nbrs : Forall wf_item code -> Forall wf_z (nbr_vals ival code position nbrs).
  Proof.
    intros W. induction nbrs as [|n r IH]; cbn [nbr_vals]; [constructor|].
    destruct (l_copy code (i32_as_usize n)) eqn:C; [|exact IH]. constructor; [|exact IH].
    apply wf_ival. eapply l_copy_P; eauto.
  Qed.

  Hint Resolve nbr_call_not_panic : nopanic.
  Hint Resolve wf_nbr_ivals : wf.
  Hint Extern 2 (Forall wf_z ?x) =>
    match goal with H : nbr_call _ _ _ _ _ = Ok (Some x) |- _ => exact (nbr_call_wf _ _ _ _ _ _ H) end : wf.

  Ltac unf_nbr :=
    cbv beta iota zeta delta [list_neighbor_ids list_neighbor_vals list_neighbor_bvals list_neighbor_ivals
      list_neighbor_fvals push_bvec push_ivec push_fvec];
    unf_state.

  Lemma nbr_safe : table_safe tbl_nbr.
  Proof. unfold table_safe, tbl_nbr. table_walk unf_nbr. Qed.
End Nbr.

(* C15: one-step growth, the three vector families (ONES / ZEROS / SINE are ByOperand). *)
From Coq Require Import ZArith String List Bool Lia ZifyBool.
From PushModel Require Import Base.Sx Base.Machine Base.ListOps Base.F32 Model.Item Model.GraphT Model.State
  Model.InstrBase Model.IScalar Model.ICode Model.IVector Model.Registry Model.RegistryVec Model.Cost
  Proofs.CostBase Proofs.CostItem Proofs.CostVec Proofs.CostGrowth.
Import ListNotations.
Open Scope Z_scope.

Ltac vec_unfold H :=
  cbv beta iota zeta delta [
    g_dup g_pop g_swap g_rot g_flush g_depth g_yank g_shove g_yankdup g_define
    vec_overlay vec_equal vec_length vec_fill vec_empty vec_map_top vec_get vec_set vec_rotate vec_append
    bvec_id bvec_get bvec_set bvec_and bvec_or bvec_not bvec_equal bvec_length bvec_ones bvec_zeros bvec_rotate
    bvec_sort_asc bvec_sort_desc bvec_count
    ivec_id ivec_append ivec_bool_index ivec_get ivec_set ivec_arith ivec_add ivec_sub ivec_contains ivec_empty
    ivec_equal ivec_from_int ivec_length ivec_loop ivec_mean ivec_sum ivec_ones ivec_zeros ivec_remove ivec_rotate
    ivec_set_insert ivec_sort_asc ivec_sort_desc
    fvec_id fvec_append fvec_get fvec_set fvec_arith fvec_add fvec_sub fvec_mul fvec_div fvec_mul_scalar fvec_empty
    fvec_equal fvec_length fvec_mean fvec_sum fvec_ones fvec_zeros fvec_rotate fvec_sine fvec_sort_asc fvec_sort_desc
    lit_bvec lit_ivec lit_fvec
    st_bool st_code st_exec st_float st_index st_int st_name st_bvec st_fvec st_ivec st_input st_output
    st_graph st_bind st_cfg st_quote st_send
    set_bool set_code set_exec set_float set_index set_int set_name set_bvec set_fvec set_ivec set_input
    set_output set_graph set_bind set_cfg set_quote set_send
    push_int push_bool push_float push_code push_exec push_name rbind pure purep fst snd] in H.

Section Vec.
  Context {FO : FloatOps}.

  Ltac table_tac :=
    repeat (apply Forall_cons; [cbn [fst snd]; first [left; vm_compute; reflexivity | right; grow_with vec_unfold]|]);
    apply Forall_nil.

  Lemma bvec_grows : table_grows tbl_bvec.
  Proof.
    unfold table_grows, tbl_bvec, vec_stack_family, stack_family. cbn [app filter String.eqb Ascii.eqb Bool.eqb negb fst append].
    table_tac.
  Qed.
  Lemma ivec_grows : table_grows tbl_ivec.
  Proof.
    unfold table_grows, tbl_ivec, vec_stack_family, stack_family. cbn [app filter String.eqb Ascii.eqb Bool.eqb negb fst append].
    table_tac.
  Qed.
  Lemma fvec_grows : table_grows tbl_fvec.
  Proof.
    unfold table_grows, tbl_fvec, vec_stack_family, stack_family. cbn [app filter String.eqb Ascii.eqb Bool.eqb negb fst append].
    table_tac.
  Qed.
End Vec.

(* C08: replace_point (specification side) and Item::insert. *)
From Coq Require Import ZArith List Bool Lia ZifyBool.
From PushModel Require Import Base.Sx Base.Machine Base.ListOps Base.F32 Model.Item Spec.TreeSpec
  Proofs.TreePoints.
Import ListNotations.
Open Scope Z_scope.

(* ---- unfolding equations, sizes as [size] ---- *)
Lemma replace_in_list_cons x c r k :
  replace_in_list x (c :: r) k =
  if k <? size c then replace_point c k x :: r else c :: replace_in_list x r (k - size c).
Proof. rewrite <- psize_size. reflexivity. Qed.
Lemma replace_in_list_nil x k : replace_in_list x [] k = [].
Proof. reflexivity. Qed.
Lemma replace_point_unfold t i x :
  replace_point t i x =
  if i =? 0 then x
  else match t with IList l => IList (replace_in_list x l (i - 1)) | _ => t end.
Proof. destruct t; reflexivity. Qed.

(* ---- a subtree occupies a block of indices inside its tree ---- *)
Definition fits (t : item) : Prop :=
  forall j, 0 <= j < size t -> j + size (nth_point t j) <= size t.

Lemma fits_list l : Forall fits l ->
  forall k, 0 <= k < sizes l -> k + size (nthl l k) <= sizes l.
Proof.
  induction 1 as [|c r Hc _ IH]; intros k Hk.
  - rewrite sizes_nil in Hk. lia.
  - rewrite sizes_cons in *. rewrite nthl_cons by lia.
    pose proof (size_pos c). pose proof (sizes_nonneg r).
    destruct (k <? size c) eqn:E.
    + specialize (Hc k ltac:(lia)). lia.
    + specialize (IH (k - size c) ltac:(lia)). lia.
Qed.

Lemma subtree_fits t : fits t.
Proof.
  induction t as [l IH|n|v|n] using item_ind'; intros j Hj;
    rewrite nth_point_unfold by lia.
  - rewrite size_list in *. destruct (j =? 0) eqn:E; [rewrite size_list; lia|].
    pose proof (fits_list l IH (j - 1) ltac:(lia)). lia.
  - cbn [size] in *. replace (j =? 0) with true by lia. cbn [size]. lia.
  - cbn [size] in *. replace (j =? 0) with true by lia. cbn [size]. lia.
  - cbn [size] in *. replace (j =? 0) with true by lia. cbn [size]. lia.
Qed.

(* ---- size of the result ---- *)
Definition rp_size_ok (t : item) : Prop :=
  forall i x, 0 <= i < size t ->
    size (replace_point t i x) = size t + size x - size (nth_point t i).

Lemma rp_size_list l : Forall rp_size_ok l ->
  forall k x, 0 <= k < sizes l ->
    sizes (replace_in_list x l k) = sizes l + size x - size (nthl l k).
Proof.
  induction 1 as [|c r Hc _ IH]; intros k x Hk.
  - rewrite sizes_nil in Hk. lia.
  - rewrite sizes_cons in Hk. rewrite replace_in_list_cons, nthl_cons by lia.
    pose proof (size_pos c). pose proof (sizes_nonneg r).
    destruct (k <? size c) eqn:E.
    + rewrite !sizes_cons, Hc by lia. lia.
    + rewrite !sizes_cons, IH by lia. lia.
Qed.

Lemma rp_size t : rp_size_ok t.
Proof.
  induction t as [l IH|n|v|n] using item_ind'; intros i x Hi;
    rewrite replace_point_unfold, nth_point_unfold by lia.
  - rewrite size_list in *. destruct (i =? 0) eqn:E; [rewrite size_list; lia|].
    rewrite size_list, (rp_size_list l IH) by lia. lia.
  - cbn [size] in *. replace (i =? 0) with true by lia. cbn [size]. lia.
  - cbn [size] in *. replace (i =? 0) with true by lia. cbn [size]. lia.
  - cbn [size] in *. replace (i =? 0) with true by lia. cbn [size]. lia.
Qed.

(* ---- the inserted tree sits at index i ---- *)
Definition rp_at_ok (t : item) : Prop :=
  forall i x j, 0 <= i < size t -> 0 <= j < size x ->
    nth_point (replace_point t i x) (i + j) = nth_point x j.

Lemma rp_at_list l : Forall rp_at_ok l ->
  forall k x j, 0 <= k < sizes l -> 0 <= j < size x ->
    nthl (replace_in_list x l k) (k + j) = nth_point x j.
Proof.
  induction 1 as [|c r Hc _ IH]; intros k x j Hk Hj.
  - rewrite sizes_nil in Hk. lia.
  - rewrite sizes_cons in Hk. rewrite replace_in_list_cons.
    pose proof (size_pos c). pose proof (sizes_nonneg r).
    destruct (k <? size c) eqn:E.
    + rewrite nthl_cons by lia.
      pose proof (rp_size c k x ltac:(lia)). pose proof (subtree_fits c k ltac:(lia)).
      replace (k + j <? size (replace_point c k x)) with true by lia.
      apply Hc; lia.
    + rewrite nthl_cons by lia.
      replace (k + j <? size c) with false by lia.
      replace (k + j - size c) with (k - size c + j) by lia.
      apply IH; lia.
Qed.

Lemma rp_at t : rp_at_ok t.
Proof.
  induction t as [l IH|n|v|n] using item_ind'; intros i x j Hi Hj;
    rewrite replace_point_unfold.
  - rewrite size_list in Hi. destruct (i =? 0) eqn:E; [f_equal; lia|].
    rewrite nth_point_unfold by lia. replace (i + j =? 0) with false by lia.
    replace (i + j - 1) with (i - 1 + j) by lia.
    apply rp_at_list; [exact IH|lia|lia].
  - cbn [size] in Hi. replace (i =? 0) with true by lia. f_equal. lia.
  - cbn [size] in Hi. replace (i =? 0) with true by lia. f_equal. lia.
  - cbn [size] in Hi. replace (i =? 0) with true by lia. f_equal. lia.
Qed.

(* ---- points before index i: ancestors of point i contain the new subtree,
   all others are unchanged; positions unchanged ---- *)
Definition rp_before_ok (t : item) : Prop :=
  forall i x j, 0 <= j < i -> i < size t ->
    nth_point (replace_point t i x) j =
    if i <? j + size (nth_point t j) then replace_point (nth_point t j) (i - j) x
    else nth_point t j.

Lemma rp_before_list l : Forall rp_before_ok l ->
  forall k x j, 0 <= j < k -> k < sizes l ->
    nthl (replace_in_list x l k) j =
    if k <? j + size (nthl l j) then replace_point (nthl l j) (k - j) x else nthl l j.
Proof.
  induction 1 as [|c r Hc _ IH]; intros k x j Hj Hk.
  - rewrite sizes_nil in Hk. lia.
  - rewrite sizes_cons in Hk. rewrite replace_in_list_cons.
    pose proof (size_pos c). pose proof (sizes_nonneg r). pose proof (size_pos x).
    destruct (k <? size c) eqn:E.
    + rewrite !nthl_cons by lia.
      pose proof (rp_size c k x ltac:(lia)). pose proof (subtree_fits c k ltac:(lia)).
      replace (j <? size (replace_point c k x)) with true by lia.
      replace (j <? size c) with true by lia.
      apply Hc; lia.
    + rewrite !nthl_cons by lia.
      destruct (j <? size c) eqn:E2.
      * pose proof (subtree_fits c j ltac:(lia)).
        replace (k <? j + size (nth_point c j)) with false by lia. reflexivity.
      * rewrite IH by lia.
        replace (k - size c - (j - size c)) with (k - j) by lia.
        destruct (k - size c <? j - size c + size (nthl r (j - size c))) eqn:E3;
          [replace (k <? j + size (nthl r (j - size c))) with true by lia
          |replace (k <? j + size (nthl r (j - size c))) with false by lia]; reflexivity.
Qed.

Lemma rp_before t : rp_before_ok t.
Proof.
  induction t as [l IH|n|v|n] using item_ind'; intros i x j Hj Hi.
  - rewrite size_list in Hi. pose proof (sizes_nonneg l).
    destruct (j =? 0) eqn:E.
    + replace j with 0 by lia. rewrite !nth_point_0, Z.sub_0_r, size_list.
      replace (i <? 0 + (1 + sizes l)) with true by lia. reflexivity.
    + rewrite replace_point_unfold. replace (i =? 0) with false by lia.
      rewrite !nth_point_unfold by lia. rewrite E.
      rewrite (rp_before_list l IH) by lia.
      replace (i - 1 - (j - 1)) with (i - j) by lia.
      destruct (i - 1 <? j - 1 + size (nthl l (j - 1))) eqn:E3;
        [replace (i <? j + size (nthl l (j - 1))) with true by lia
        |replace (i <? j + size (nthl l (j - 1))) with false by lia]; reflexivity.
  - cbn [size] in Hi. lia.
  - cbn [size] in Hi. lia.
  - cbn [size] in Hi. lia.
Qed.

(* ---- points after the replaced subtree: same value, index shifted ---- *)
Definition rp_after_ok (t : item) : Prop :=
  forall i x j, 0 <= i < size t -> i + size (nth_point t i) <= j < size t ->
    nth_point (replace_point t i x) (j + size x - size (nth_point t i)) = nth_point t j.

Lemma rp_after_list l : Forall rp_after_ok l ->
  forall k x j, 0 <= k < sizes l -> k + size (nthl l k) <= j < sizes l ->
    nthl (replace_in_list x l k) (j + size x - size (nthl l k)) = nthl l j.
Proof.
  induction 1 as [|c r Hc _ IH]; intros k x j Hk Hj.
  - rewrite sizes_nil in Hk. lia.
  - rewrite sizes_cons in Hk, Hj. rewrite replace_in_list_cons.
    pose proof (size_pos c). pose proof (sizes_nonneg r). pose proof (size_pos x).
    rewrite (nthl_cons c r k) in * by lia.
    destruct (k <? size c) eqn:E.
    + pose proof (rp_size c k x ltac:(lia)). pose proof (subtree_fits c k ltac:(lia)).
      pose proof (size_pos (nth_point c k)).
      rewrite !nthl_cons by lia.
      destruct (j <? size c) eqn:E2.
      * replace (j + size x - size (nth_point c k) <? size (replace_point c k x)) with true by lia.
        apply Hc; lia.
      * replace (j + size x - size (nth_point c k) <? size (replace_point c k x)) with false by lia.
        f_equal. lia.
    + pose proof (size_pos (nthl r (k - size c))).
      pose proof (fits_list r ltac:(apply Forall_forall; intros; apply subtree_fits) (k - size c) ltac:(lia)).
      rewrite !nthl_cons by lia.
      replace (j <? size c) with false by lia.
      replace (j + size x - size (nthl r (k - size c)) <? size c) with false by lia.
      replace (j + size x - size (nthl r (k - size c)) - size c)
        with (j - size c + size x - size (nthl r (k - size c))) by lia.
      apply IH; lia.
Qed.

Lemma rp_after t : rp_after_ok t.
Proof.
  induction t as [l IH|n|v|n] using item_ind'; intros i x j Hi Hj.
  - rewrite size_list in Hi, Hj. pose proof (sizes_nonneg l). pose proof (size_pos x).
    destruct (i =? 0) eqn:E.
    + replace i with 0 in * by lia. rewrite nth_point_0, size_list in Hj. lia.
    + rewrite replace_point_unfold, E.
      rewrite (nth_point_unfold (IList l) i) in * by lia. rewrite E in *.
      pose proof (fits_list l ltac:(apply Forall_forall; intros; apply subtree_fits) (i - 1) ltac:(lia)).
      pose proof (size_pos (nthl l (i - 1))).
      rewrite !nth_point_unfold by lia.
      replace (j + size x - size (nthl l (i - 1)) =? 0) with false by lia.
      replace (j =? 0) with false by lia.
      replace (j + size x - size (nthl l (i - 1)) - 1)
        with (j - 1 + size x - size (nthl l (i - 1))) by lia.
      apply rp_after_list; [exact IH|lia|lia].
  - cbn [size] in *. replace i with 0 in * by lia. rewrite nth_point_0 in Hj. cbn [size] in Hj. lia.
  - cbn [size] in *. replace i with 0 in * by lia. rewrite nth_point_0 in Hj. cbn [size] in Hj. lia.
  - cbn [size] in *. replace i with 0 in * by lia. rewrite nth_point_0 in Hj. cbn [size] in Hj. lia.
Qed.

(* ---- Item::insert ---- *)
Definition insert_list (pinned : bool) (p : profile) (x : item) (ridx : Z) :
  list item -> list item -> Z -> Z -> res (list item * ins_r) :=
  fix go (pre l : list item) (i d : Z) {struct l} : res (list item * ins_r) :=
    match l with
    | [] => Ok (rev pre, IErr d)
    | c :: rest =>
        let! d1 := usub p d 1 in
        let! nx := insert_g pinned p c x d1 in
        match snd nx with
        | IOk here =>
            let l' := rev pre ++ fst nx :: rest in
            Ok (if here then replace_child l' (if pinned then ridx else i) x else l', IOk false)
        | IErr nd => go (fst nx :: pre) rest (i + 1) nd
        end
    end.

Lemma insert_g_unfold pinned p t x d :
  insert_g pinned p t x d =
  if d =? 0 then Ok (t, IOk true)
  else match t with
       | IList l =>
           let! ridx := usub p d 1 in
           let! r := insert_list pinned p x ridx [] l 0 d in
           Ok (IList (fst r), snd r)
       | _ => Ok (t, IErr d)
       end.
Proof. destruct t; reflexivity. Qed.

Lemma insert_list_cons pinned p x ridx pre c rest i d :
  insert_list pinned p x ridx pre (c :: rest) i d =
  let! d1 := usub p d 1 in
  let! nx := insert_g pinned p c x d1 in
  match snd nx with
  | IOk here =>
      let l' := rev pre ++ fst nx :: rest in
      Ok (if here then replace_child l' (if pinned then ridx else i) x else l', IOk false)
  | IErr nd => insert_list pinned p x ridx (fst nx :: pre) rest (i + 1) nd
  end.
Proof. reflexivity. Qed.

Lemma replace_child_mid (a b : list item) c x :
  replace_child (a ++ c :: b) (Z.of_nat (length a)) x = a ++ x :: b.
Proof.
  unfold replace_child. rewrite app_length. cbn [length].
  replace ((0 <=? Z.of_nat (length a)) && (Z.of_nat (length a) <? Z.of_nat (length a + S (length b))))
    with true by lia.
  rewrite Nat2Z.id, upd_app_r by lia. rewrite Nat.sub_diag. reflexivity.
Qed.

Definition insert_ok (p : profile) (x t : item) : Prop :=
  forall d, 0 <= d ->
    (d = 0 -> insert p t x d = Ok (t, IOk true)) /\
    (0 < d < size t -> insert p t x d = Ok (replace_point t d x, IOk false)) /\
    (size t <= d -> insert p t x d = Ok (t, IErr (d - size t + 1))).

Lemma insert_list_spec p x l : Forall (insert_ok p x) l ->
  forall pre i d ridx, i = Z.of_nat (length pre) -> 1 <= d ->
    (d - 1 < sizes l ->
       insert_list false p x ridx pre l i d = Ok (rev pre ++ replace_in_list x l (d - 1), IOk false)) /\
    (sizes l <= d - 1 ->
       insert_list false p x ridx pre l i d = Ok (rev pre ++ l, IErr (d - sizes l))).
Proof.
  induction 1 as [|c r Hc _ IH]; intros pre i d ridx Hi Hd.
  - rewrite sizes_nil. split; [lia|]. intros _. cbn [insert_list]. rewrite app_nil_r, Z.sub_0_r. reflexivity.
  - rewrite insert_list_cons, usub_ok by lia. cbn [rbind].
    rewrite sizes_cons, replace_in_list_cons.
    pose proof (size_pos c). pose proof (sizes_nonneg r).
    destruct (Hc (d - 1) ltac:(lia)) as [A0 [H1 H2]]. unfold insert in *.
    destruct (Z.eq_dec (d - 1) 0) as [Z0|NZ].
    + rewrite A0 by lia. cbn [rbind snd fst].
      replace (d - 1 <? size c) with true by lia.
      split; [intros _|lia].
      subst i. rewrite <- (rev_length pre), replace_child_mid.
      rewrite Z0, replace_point_unfold. reflexivity.
    + destruct (d - 1 <? size c) eqn:E.
      * rewrite H1 by lia. cbn [rbind snd fst]. split; [reflexivity|lia].
      * rewrite H2 by lia. cbn [rbind snd fst].
        destruct (IH (c :: pre) (i + 1) (d - 1 - size c + 1) ridx) as [I1 I2].
        { cbn [length]. lia. } { lia. }
        cbn [rev] in I1, I2. rewrite <- !app_assoc in I1, I2. cbn [app] in I1, I2.
        replace (d - 1 - size c + 1 - 1) with (d - 1 - size c) in I1, I2 by lia.
        replace (d - 1 - size c + 1 - sizes r) with (d - (size c + sizes r)) in I2 by lia.
        split; intro; [apply I1|apply I2]; lia.
Qed.

Theorem insert_spec_all p x t : insert_ok p x t.
Proof.
  induction t as [l IH|n|v|n] using item_ind'; intros d Hd; unfold insert;
    rewrite insert_g_unfold, replace_point_unfold.
  - rewrite size_list. pose proof (sizes_nonneg l).
    destruct (d =? 0) eqn:E; [repeat split; intros; try reflexivity; lia|].
    rewrite usub_ok by lia. cbn [rbind].
    destruct (insert_list_spec p x l IH [] 0 d (d - 1) eq_refl ltac:(lia)) as [H1 H2].
    cbn [rev app] in H1, H2.
    repeat split; intro; try lia.
    + rewrite H1 by lia. reflexivity.
    + rewrite H2 by lia. cbn [rbind fst snd]. do 3 f_equal. lia.
  - cbn [size]. destruct (d =? 0) eqn:E; repeat split; intros; try reflexivity; try lia. do 3 f_equal. lia.
  - cbn [size]. destruct (d =? 0) eqn:E; repeat split; intros; try reflexivity; try lia. do 3 f_equal. lia.
  - cbn [size]. destruct (d =? 0) eqn:E; repeat split; intros; try reflexivity; try lia. do 3 f_equal. lia.
Qed.

Theorem insert_spec p t x i : 0 < i < size t ->
  insert p t x i = Ok (replace_point t i x, IOk false).
Proof. intro H. apply (insert_spec_all p x t i); lia. Qed.

Theorem insert_root_untouched p t x : insert p t x 0 = Ok (t, IOk true).
Proof. apply (insert_spec_all p x t 0); lia. Qed.

Theorem insert_out_of_range_noop p t x i : size t <= i ->
  insert p t x i = Ok (t, IErr (i - size t + 1)).
Proof. intro H. pose proof (size_pos t). apply (insert_spec_all p x t i); lia. Qed.

Theorem extract_after_insert p t x i : 0 < i < size t ->
  exists t', insert p t x i = Ok (t', IOk false) /\ traverse p t' i = Ok (Found x).
Proof.
  intro H. exists (replace_point t i x). split; [apply insert_spec; exact H|].
  pose proof (rp_size t i x ltac:(lia)). pose proof (subtree_fits t i ltac:(lia)).
  pose proof (size_pos x).
  destruct (traverse_spec p (replace_point t i x) i ltac:(lia)) as [T1 _].
  rewrite T1 by lia.
  pose proof (rp_at t i x 0 ltac:(lia) ltac:(lia)) as A.
  rewrite Z.add_0_r, nth_point_0 in A. rewrite A. reflexivity.
Qed.

Theorem insert_local p t x i : 0 < i < size t ->
  exists t', insert p t x i = Ok (t', IOk false) /\
    let old := nth_point t i in
    size t' = size t + size x - size old /\
    (forall j, 0 <= j < i ->
       nth_point t' j = if i <? j + size (nth_point t j)
                        then replace_point (nth_point t j) (i - j) x
                        else nth_point t j) /\
    (forall j, 0 <= j < size x -> nth_point t' (i + j) = nth_point x j) /\
    (forall j, i + size old <= j < size t ->
       nth_point t' (j + size x - size old) = nth_point t j).
Proof.
  intro H. exists (replace_point t i x). split; [apply insert_spec; exact H|].
  cbv zeta. repeat split.
  - apply rp_size; lia.
  - intros j Hj. apply rp_before; lia.
  - intros j Hj. apply rp_at; lia.
  - intros j Hj. apply rp_after; lia.
Qed.

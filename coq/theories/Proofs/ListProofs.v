(* Lemmas behind Props/C19.v: LIST records. *)
From Coq Require Import String ZArith List Bool Lia ZifyBool Permutation.
From PushModel Require Import Base.Sx Base.Machine Base.ListOps Base.F32 Model.Item Model.GraphT Model.State
  Model.InstrBase Model.IScalar Model.ICode Model.Registry Model.Interp Model.IList Model.RegistryListIo
  Model.RegistryAll Spec.ListSpec.
Import ListNotations.
Open Scope Z_scope.
Open Scope list_scope.

(* ================= find = n-th element of the type-filtered preorder listing ================= *)
Section FindSpec.
  Context {FO : FloatOps}.

  Definition find_list (pat : item) (n : Z) : list item -> Z -> option item * Z :=
    fix go (l : list item) (cnt : Z) {struct l} : option item * Z :=
      match l with
      | [] => (None, cnt)
      | c :: r => match find c pat cnt n with
                  | (Some y, k) => (Some y, k)
                  | (None, k) => go r k
                  end
      end.

  Lemma find_unfold t pat cnt n :
    find t pat cnt n =
    if shallow_eq pat t && (cnt =? n) then (Some t, cnt)
    else match t with
         | IList l => find_list pat n l (if shallow_eq pat t then cnt + 1 else cnt)
         | _ => (None, if shallow_eq pat t then cnt + 1 else cnt)
         end.
  Proof. destruct t; reflexivity. Qed.

  (* the answer of a search that starts with counter [cnt] over a listing [tp] *)
  Definition find_answer (tp : list item) (cnt n : Z) : option item * Z :=
    if (cnt <=? n) && (n <? cnt + zlen tp) then (nth_error tp (Z.to_nat (n - cnt)), n)
    else (None, cnt + zlen tp).

  Lemma zlen_app {A} (a b : list A) : zlen (a ++ b) = zlen a + zlen b.
  Proof. unfold zlen. rewrite app_length. lia. Qed.
  Lemma zlen_cons {A} (x : A) l : zlen (x :: l) = 1 + zlen l.
  Proof. unfold zlen. cbn [length]. lia. Qed.
  Lemma zlen_nonneg {A} (l : list A) : 0 <= zlen l.
  Proof. unfold zlen. lia. Qed.

  Lemma find_answer_app tp1 tp2 cnt n :
    find_answer (tp1 ++ tp2) cnt n =
    match find_answer tp1 cnt n with
    | (Some y, k) => (Some y, k)
    | (None, k) => find_answer tp2 k n
    end.
  Proof.
    unfold find_answer. rewrite zlen_app.
    pose proof (zlen_nonneg tp1) as H1. pose proof (zlen_nonneg tp2) as H2.
    destruct ((cnt <=? n) && (n <? cnt + zlen tp1)) eqn:E1.
    - assert (Hlt : (Z.to_nat (n - cnt) < length tp1)%nat) by (unfold zlen in *; lia).
      destruct (nth_error tp1 (Z.to_nat (n - cnt))) eqn:E; [|apply nth_error_None in E; lia].
      replace ((cnt <=? n) && (n <? cnt + (zlen tp1 + zlen tp2))) with true by lia.
      rewrite nth_error_app1 by exact Hlt. now rewrite E.
    - destruct ((cnt <=? n) && (n <? cnt + (zlen tp1 + zlen tp2))) eqn:E2.
      + replace ((cnt + zlen tp1 <=? n) && (n <? cnt + zlen tp1 + zlen tp2)) with true by lia.
        rewrite nth_error_app2 by (unfold zlen in *; lia).
        do 2 f_equal. unfold zlen in *. lia.
      + replace ((cnt + zlen tp1 <=? n) && (n <? cnt + zlen tp1 + zlen tp2)) with false by lia.
        f_equal. lia.
  Qed.

  Lemma find_spec_gen pat n t :
    forall cnt, find t pat cnt n = find_answer (typed_points pat t) cnt n.
  Proof.
    induction t as [l IH | nm | v | nm] using item_ind'; intro cnt; rewrite find_unfold; unfold typed_points.
    2-4: cbn [preorder filter]; unfold find_answer;
         destruct (shallow_eq pat _); cbn [andb]; [destruct (cnt =? n) eqn:E|];
         cbn [zlen length app]; unfold zlen; cbn [length];
         [ replace ((cnt <=? n) && (n <? cnt + Z.of_nat 1)) with true by lia;
           replace (Z.to_nat (n - cnt)) with 0%nat by lia; cbn [nth_error]; f_equal; lia
         | replace ((cnt <=? n) && (n <? cnt + Z.of_nat 1)) with false by lia; reflexivity
         | replace ((cnt <=? n) && (n <? cnt + Z.of_nat 0)) with false by lia; f_equal; lia ].
    rewrite preorder_list. cbn [filter].
    assert (HL : forall c, find_list pat n l c = find_answer (filter (shallow_eq pat) (flat_map preorder l)) c n).
    { induction IH as [|x r Hx Hr IHr]; intro c.
      - cbn [find_list flat_map filter]. unfold find_answer, zlen. cbn [length].
        replace ((c <=? n) && (n <? c + Z.of_nat 0)) with false by lia. f_equal. lia.
      - cbn [find_list flat_map]. rewrite filter_app, find_answer_app, Hx.
        unfold typed_points. destruct (find_answer (filter (shallow_eq pat) (preorder x)) c n) as [[y|] k]; [reflexivity|].
        apply IHr. }
    destruct (shallow_eq pat (IList l)); cbn [andb].
    - change (IList l :: filter (shallow_eq pat) (flat_map preorder l))
        with (([IList l] ++ filter (shallow_eq pat) (flat_map preorder l))%list).
      rewrite find_answer_app. rewrite HL.
      destruct (cnt =? n) eqn:E.
      + unfold find_answer at 1. unfold zlen. cbn [length].
        replace ((cnt <=? n) && (n <? cnt + Z.of_nat 1)) with true by lia.
        replace (Z.to_nat (n - cnt)) with 0%nat by lia. cbn [nth_error]. f_equal. lia.
      + unfold find_answer at 2. unfold zlen at 1. cbn [length].
        replace ((cnt <=? n) && (n <? cnt + Z.of_nat 1)) with false by lia.
        replace (cnt + Z.of_nat 1) with (cnt + 1) by lia. reflexivity.
    - apply HL.
  Qed.
End FindSpec.

Section ValSpec.
  Context {FO : FloatOps}.

  Lemma find_nth pat t n :
    fst (find t pat 0 n) = if n <? 0 then None else nth_error (typed_points pat t) (Z.to_nat n).
  Proof.
    rewrite find_spec_gen. unfold find_answer. pose proof (zlen_nonneg (typed_points pat t)) as H.
    destruct (n <? 0) eqn:E.
    - replace ((0 <=? n) && (n <? 0 + zlen (typed_points pat t))) with false by lia. reflexivity.
    - destruct ((0 <=? n) && (n <? 0 + zlen (typed_points pat t))) eqn:E2; cbn [fst].
      + now rewrite Z.sub_0_r.
      + symmetry. apply nth_error_None. unfold zlen in *. lia.
  Qed.

  Lemma nth_filter_bool L : forall k,
    match nth_error (filter (shallow_eq pat_bool) L) k with Some (ILit (LBool b)) => b | _ => false end
    = nth k (filter_map item_bool L) false.
  Proof.
    induction L as [|x r IH]; intro k; [destruct k; reflexivity|].
    destruct x as [l|nm|v|nm]; try exact (IH k).
    destruct v; try exact (IH k).
    cbn [filter shallow_eq pat_bool lit_kind Z.eqb filter_map item_bool].
    destruct k; [reflexivity|]. cbn [nth_error nth]. apply IH.
  Qed.
  Lemma nth_filter_int L : forall k,
    match nth_error (filter (shallow_eq pat_int) L) k with Some (ILit (LInt b)) => b | _ => 0 end
    = nth k (filter_map item_int L) 0.
  Proof.
    induction L as [|x r IH]; intro k; [destruct k; reflexivity|].
    destruct x as [l|nm|v|nm]; try exact (IH k).
    destruct v; try exact (IH k).
    cbn [filter shallow_eq pat_int lit_kind Z.eqb filter_map item_int].
    destruct k; [reflexivity|]. cbn [nth_error nth]. apply IH.
  Qed.
  Lemma nth_filter_float L : forall k,
    match nth_error (filter (shallow_eq pat_float) L) k with Some (ILit (LFloat b)) => b | _ => f_zero end
    = nth k (filter_map item_float L) f_zero.
  Proof.
    induction L as [|x r IH]; intro k; [destruct k; reflexivity|].
    destruct x as [l|nm|v|nm]; try exact (IH k).
    destruct v; try exact (IH k).
    cbn [filter shallow_eq pat_float lit_kind Z.eqb filter_map item_float].
    destruct k; [reflexivity|]. cbn [nth_error nth]. apply IH.
  Qed.

  Lemma bval_spec t n : bval t n = if n <? 0 then false else nth (Z.to_nat n) (bools_of t) false.
  Proof. unfold bval. rewrite find_nth. destruct (n <? 0); [reflexivity|]. apply nth_filter_bool. Qed.
  Lemma ival_spec t n : ival t n = if n <? 0 then 0 else nth (Z.to_nat n) (ints_of t) 0.
  Proof. unfold ival. rewrite find_nth. destruct (n <? 0); [reflexivity|]. apply nth_filter_int. Qed.
  Lemma fval_spec t n : fval t n = if n <? 0 then f_zero else nth (Z.to_nat n) (floats_of t) f_zero.
  Proof. unfold fval. rewrite find_nth. destruct (n <? 0); [reflexivity|]. apply nth_filter_float. Qed.

  (* the complete statement of C19_find_nth_spec *)
  Lemma find_nth_spec_lemma :
    (forall (pat t : item) (n : Z),
        fst (find t pat 0 n) = if n <? 0 then None else nth_error (typed_points pat t) (Z.to_nat n)) /\
    (forall (t : item) (n : Z),
        bval t n = (if n <? 0 then false else nth (Z.to_nat n) (bools_of t) false) /\
        ival t n = (if n <? 0 then 0 else nth (Z.to_nat n) (ints_of t) 0) /\
        fval t n = (if n <? 0 then f_zero else nth (Z.to_nat n) (floats_of t) f_zero)).
  Proof.
    split; [exact find_nth|]. intros t n. split; [apply bval_spec|split; [apply ival_spec|apply fval_spec]].
  Qed.
End ValSpec.

(* ================= designate ================= *)
Section Designate.
  Context {FO : FloatOps}.

  Lemma cnt_cons k c r : cnt k (c :: r) = if c =? k then S (cnt k r) else cnt k r.
  Proof. unfold cnt. cbn [filter]. rewrite (Z.eqb_sym k c). destruct (c =? k); reflexivity. Qed.
  Lemma cnt_nil k : cnt k [] = 0%nat.
  Proof. reflexivity. Qed.
  Lemma cnt_app k a b : cnt k (a ++ b) = (cnt k a + cnt k b)%nat.
  Proof. unfold cnt. now rewrite filter_app, app_length. Qed.
  Lemma cnt_rev k l : cnt k (rev l) = cnt k l.
  Proof.
    induction l as [|x r IH]; [reflexivity|]. cbn [rev]. rewrite cnt_app, IH, !cnt_cons, cnt_nil.
    destruct (x =? k); lia.
  Qed.

  Lemma skipn_cons_nth {A} (l : list A) : forall n x r,
    skipn n l = x :: r -> nth_error l n = Some x /\ skipn (S n) l = r.
  Proof.
    induction l as [|y t IH]; intros [|n] x r H; cbn [skipn nth_error] in *; try discriminate.
    - inversion H. split; reflexivity.
    - apply IH in H. exact H.
  Qed.
  Lemma skipn_nil_nth {A} (l : list A) : forall n,
    skipn n l = [] -> nth_error l n = None /\ skipn (S n) l = [].
  Proof.
    induction l as [|y t IH]; intros [|n] H; cbn [skipn nth_error] in *; try discriminate; auto.
  Qed.
  Lemma skipn_map {A B} (f : A -> B) l : forall n, skipn n (map f l) = map f (skipn n l).
  Proof. induction l as [|y t IH]; intros [|n]; cbn [skipn map]; auto. Qed.

  Ltac stack_fin E :=
    let E1 := fresh "Hn" in let E2 := fresh "Hs" in
    destruct E as [E1 E2]; rewrite ?nth_error_map, E1; rewrite ?E2;
    cbn [option_map fst snd skipn map
         st_bool st_code st_exec st_float st_index st_int st_name st_bvec st_fvec st_ivec st_input st_output
         st_graph st_bind st_cfg st_quote st_send set_bool set_code set_exec set_float set_int set_name set_bvec
         set_fvec set_ivec];
    reflexivity.
  Ltac stack_case :=
    match goal with
    | |- context [nth_error (map ?f ?l) ?n] =>
        let E := fresh "E" in
        destruct (skipn n l) eqn:E;
        [apply skipn_nil_nth in E | apply skipn_cons_nth in E]; stack_fin E
    | |- context [nth_error ?l ?n] =>
        let E := fresh "E" in
        destruct (skipn n l) eqn:E;
        [apply skipn_nil_nth in E | apply skipn_cons_nth in E]; stack_fin E
    end.

  Lemma designate_step_inv seen s0 acc sid :
    designate_step (acc, drop_counts seen s0) sid =
    (match nth_error (stack_items sid s0) (cnt sid seen) with Some x => x :: acc | None => acc end,
     drop_counts (sid :: seen) s0).
  Proof.
    destruct s0 as [sb sc se sf six si sn sbv sfv siv sin sout sg sbd scf sq ssd].
    unfold designate_step, stack_items, drop_stack. cbn [snd fst].
    unfold drop_counts at 1 2 3 4 5 6 7 8 9 10 11 12 13 14 15 16 17 18.
    cbn [st_bool st_code st_exec st_float st_index st_int st_name st_bvec st_fvec st_ivec st_input st_output
         st_graph st_bind st_cfg st_quote st_send set_bool set_code set_exec set_float set_int set_name set_bvec
         set_fvec set_ivec].
    unfold drop_counts. rewrite !cnt_cons.
    cbn [st_bool st_code st_exec st_float st_index st_int st_name st_bvec st_fvec st_ivec st_input st_output
         st_graph st_bind st_cfg st_quote st_send].
    destruct (sid =? BOOL_ID) eqn:E1; [apply Z.eqb_eq in E1; subst sid; cbv [BOOL_ID BVEC_ID CODE_ID EXEC_ID FLOAT_ID FVEC_ID INT_ID IVEC_ID NAME_ID Z.eqb Pos.eqb]; stack_case|].
    destruct (sid =? BVEC_ID) eqn:E2; [apply Z.eqb_eq in E2; subst sid; cbv [BOOL_ID BVEC_ID CODE_ID EXEC_ID FLOAT_ID FVEC_ID INT_ID IVEC_ID NAME_ID Z.eqb Pos.eqb]; stack_case|].
    destruct (sid =? CODE_ID) eqn:E3; [apply Z.eqb_eq in E3; subst sid; cbv [BOOL_ID BVEC_ID CODE_ID EXEC_ID FLOAT_ID FVEC_ID INT_ID IVEC_ID NAME_ID Z.eqb Pos.eqb]; stack_case|].
    destruct (sid =? EXEC_ID) eqn:E4; [apply Z.eqb_eq in E4; subst sid; cbv [BOOL_ID BVEC_ID CODE_ID EXEC_ID FLOAT_ID FVEC_ID INT_ID IVEC_ID NAME_ID Z.eqb Pos.eqb]; stack_case|].
    destruct (sid =? FLOAT_ID) eqn:E5; [apply Z.eqb_eq in E5; subst sid; cbv [BOOL_ID BVEC_ID CODE_ID EXEC_ID FLOAT_ID FVEC_ID INT_ID IVEC_ID NAME_ID Z.eqb Pos.eqb]; stack_case|].
    destruct (sid =? FVEC_ID) eqn:E6; [apply Z.eqb_eq in E6; subst sid; cbv [BOOL_ID BVEC_ID CODE_ID EXEC_ID FLOAT_ID FVEC_ID INT_ID IVEC_ID NAME_ID Z.eqb Pos.eqb]; stack_case|].
    destruct (sid =? INT_ID) eqn:E7; [apply Z.eqb_eq in E7; subst sid; cbv [BOOL_ID BVEC_ID CODE_ID EXEC_ID FLOAT_ID FVEC_ID INT_ID IVEC_ID NAME_ID Z.eqb Pos.eqb]; stack_case|].
    destruct (sid =? IVEC_ID) eqn:E8; [apply Z.eqb_eq in E8; subst sid; cbv [BOOL_ID BVEC_ID CODE_ID EXEC_ID FLOAT_ID FVEC_ID INT_ID IVEC_ID NAME_ID Z.eqb Pos.eqb]; stack_case|].
    destruct (sid =? NAME_ID) eqn:E9; [apply Z.eqb_eq in E9; subst sid; cbv [BOOL_ID BVEC_ID CODE_ID EXEC_ID FLOAT_ID FVEC_ID INT_ID IVEC_ID NAME_ID Z.eqb Pos.eqb]; stack_case|].
    destruct (cnt sid seen); reflexivity.
  Qed.

  Lemma drop_counts_nil s : drop_counts [] s = s.
  Proof. destruct s; reflexivity. Qed.
  Lemma drop_counts_ext a b s : (forall k, cnt k a = cnt k b) -> drop_counts a s = drop_counts b s.
  Proof. intro H. unfold drop_counts. now rewrite !H. Qed.

  Lemma designate_fold ids : forall seen s0 acc,
    fold_left designate_step ids (acc, drop_counts seen s0) =
    (rev (picked seen ids s0) ++ acc, drop_counts (rev ids ++ seen) s0).
  Proof.
    induction ids as [|sid r IH]; intros seen s0 acc; [reflexivity|].
    cbn [fold_left]. rewrite designate_step_inv, IH. cbn [picked rev]. rewrite <- app_assoc. cbn [app].
    destruct (nth_error (stack_items sid s0) (cnt sid seen)); [|reflexivity].
    cbn [rev]. now rewrite <- app_assoc.
  Qed.

  (* the pass and the per-occurrence description agree *)
  Lemma designate_picked ids s :
    designate ids s = (IList (rev (picked [] ids s)), drop_counts ids s).
  Proof.
    unfold designate. pose proof (designate_fold ids [] s []) as H. rewrite drop_counts_nil in H.
    rewrite H. cbn [fst snd].
    rewrite !app_nil_r. f_equal. apply drop_counts_ext. intro k. apply cnt_rev.
  Qed.

  (* ---- the model's load_items is the pass ---- *)
  Lemma take_id_spec sid s :
    take_id sid s = match stack_items sid s with
                    | x :: _ => Some (x, drop_stack sid 1 s)
                    | [] => None
                    end.
  Proof.
    unfold take_id, stack_items, drop_stack.
    repeat (destruct (sid =? _); [match goal with |- context [match ?f s with _ => _ end] => destruct (f s) end; reflexivity|]).
    reflexivity.
  Qed.

  Lemma load_ids_fold ids : forall s acc,
    fold_left designate_step ids (acc, s) = (rev (fst (load_ids ids s)) ++ acc, snd (load_ids ids s)).
  Proof.
    induction ids as [|sid r IH]; intros s acc; [reflexivity|].
    cbn [fold_left load_ids]. unfold designate_step at 2. cbn [fst snd]. rewrite take_id_spec.
    destruct (stack_items sid s) as [|x rest] eqn:E.
    - apply IH.
    - rewrite IH. destruct (load_ids r (drop_stack sid 1 s)) as [xs s2]. cbn [fst snd rev].
      now rewrite <- app_assoc.
  Qed.

  Lemma load_ids_designate ids s :
    (mk_record (fst (load_ids ids s)), snd (load_ids ids s)) = designate ids s.
  Proof. unfold designate, mk_record. rewrite load_ids_fold. cbn [fst snd]. now rewrite app_nil_r. Qed.

  Lemma list_add_designate s :
    list_add s = Ok (match st_ivec s with
                     | ids :: r => let d := designate ids (set_ivec s r) in push_code (snd d) (fst d)
                     | [] => s
                     end).
  Proof.
    unfold list_add, load_items. destruct (st_ivec s) as [|ids r]; [reflexivity|].
    rewrite <- load_ids_designate. destruct (load_ids ids (set_ivec s r)). reflexivity.
  Qed.

  (* ---- conservation ---- *)
  Lemma perm_skip_app {A} (x : A) a R R' :
    Permutation (x :: R') R -> Permutation (x :: a ++ R') (a ++ R).
  Proof.
    intro H. eapply Permutation_trans; [apply Permutation_middle|]. now apply Permutation_app_head.
  Qed.

  Ltac perm_case sid K :=
    let H := fresh "H" in let E := fresh "E" in
    destruct (sid =? K) eqn:H;
    [ apply Z.eqb_eq in H; subst sid; intro E;
      match type of E with
      | map _ ?l = _ => destruct l; [discriminate|]; cbn [map] in E; inversion E; subst
      | ?l = _ => subst l
      end;
      unfold all_items, source_ids; cbn [flat_map]; unfold stack_items;
      cbv [BOOL_ID BVEC_ID CODE_ID EXEC_ID FLOAT_ID FVEC_ID INT_ID IVEC_ID NAME_ID Z.eqb Pos.eqb];
      cbn [st_bool st_code st_exec st_float st_index st_int st_name st_bvec st_fvec st_ivec skipn map
           set_bool set_code set_exec set_float set_int set_name set_bvec set_fvec set_ivec];
      repeat first [exact (Permutation_refl _) | apply perm_skip_app] |].

  Lemma designate_step_perm acc s sid :
    Permutation (acc ++ all_items s)
                (fst (designate_step (acc, s) sid) ++ all_items (snd (designate_step (acc, s) sid))).
  Proof.
    unfold designate_step. cbn [fst snd].
    destruct (stack_items sid s) as [|x rest] eqn:E; [apply Permutation_refl|]. cbn [fst snd].
    apply Permutation_sym. change ((x :: acc) ++ all_items (drop_stack sid 1 s))
      with (x :: acc ++ all_items (drop_stack sid 1 s)).
    apply perm_skip_app. revert E.
    destruct s as [sb sc se sf six si sn sbv sfv siv sin sout sg sbd scf sq ssd].
    unfold stack_items at 1. unfold drop_stack.
    cbn [st_bool st_code st_exec st_float st_index st_int st_name st_bvec st_fvec st_ivec st_input st_output
         st_graph st_bind st_cfg st_quote st_send].
    perm_case sid BOOL_ID. perm_case sid BVEC_ID. perm_case sid CODE_ID. perm_case sid EXEC_ID.
    perm_case sid FLOAT_ID. perm_case sid FVEC_ID. perm_case sid INT_ID. perm_case sid IVEC_ID.
    perm_case sid NAME_ID.
    discriminate.
  Qed.

  Lemma designate_fold_perm ids : forall acc s,
    Permutation (acc ++ all_items s)
                (fst (fold_left designate_step ids (acc, s)) ++ all_items (snd (fold_left designate_step ids (acc, s)))).
  Proof.
    induction ids as [|sid r IH]; intros acc s; [apply Permutation_refl|].
    cbn [fold_left]. eapply Permutation_trans; [apply (designate_step_perm acc s sid)|].
    destruct (designate_step (acc, s) sid) as [acc1 s1]. apply IH.
  Qed.

  Definition record_children (t : item) : list item := match t with IList l => l | _ => [] end.

  Lemma designate_conserves ids s :
    Permutation (all_items s)
                (record_children (fst (designate ids s)) ++ all_items (snd (designate ids s))).
  Proof. exact (designate_fold_perm ids [] s). Qed.
End Designate.

(* ================= addresses, REMOVE, SET, VAL ================= *)
Section Address.
  Context {FO : FloatOps}.

  Lemma len32_small {A} (l : list A) : zlen l <= max32 -> len32 l = zlen l.
  Proof.
    intro H. unfold len32. apply wrap32_id. unfold in_i32, min32, max32 in *.
    pose proof (zlen_nonneg l). lia.
  Qed.

  Lemma clamp_is_clamped idx len : 0 < len -> clamp_idx idx len = clamped_pos idx len.
  Proof. intro H. unfold clamp_idx, clamped_pos. destruct (idx <? 0) eqn:E1; [lia|]. destruct (len <=? idx) eqn:E2; lia. Qed.

  Lemma record_address_clamped_lemma (s : state) (idx : Z) :
    0 < zlen (st_code s) <= max32 ->
    record_pos s idx = clamped_pos idx (zlen (st_code s)) /\
    0 <= record_pos s idx < zlen (st_code s) /\
    (0 <= idx < zlen (st_code s) -> record_pos s idx = idx) /\
    (idx < 0 -> record_pos s idx = 0) /\
    (zlen (st_code s) <= idx -> record_pos s idx = zlen (st_code s) - 1).
  Proof.
    intros [H1 H2]. unfold record_pos. rewrite len32_small by exact H2.
    rewrite clamp_is_clamped by exact H1. unfold clamped_pos.
    destruct (idx <? 0) eqn:E1; destruct (zlen (st_code s) <=? idx) eqn:E2; lia.
  Qed.

  Lemma del_split {A} (l : list A) : forall k, del l k = firstn k l ++ skipn (S k) l.
  Proof.
    induction l as [|x r IH]; intros [|k]; cbn [del firstn skipn app]; try reflexivity.
    - f_equal. rewrite IH. reflexivity.
  Qed.
  Lemma upd_split {A} (l : list A) a : forall k, (k < length l)%nat ->
    upd l k a = firstn k l ++ a :: skipn (S k) l.
  Proof.
    induction l as [|x r IH]; intros [|k] H; cbn [upd firstn skipn app length] in *; try lia; try reflexivity.
    f_equal. apply IH. lia.
  Qed.

  Lemma l_copy_in {A} (l : list A) i : 0 <= i < zlen l -> l_copy l i = nth_error l (Z.to_nat i).
  Proof. intro H. unfold l_copy. replace ((0 <=? i) && (i <? zlen l)) with true by lia. reflexivity. Qed.

  (* LIST.REMOVE *)
  Lemma list_remove_lemma (s : state) (idx : Z) (r : list Z) :
    st_int s = idx :: r ->
    zlen (st_code s) <= max32 ->
    let code := st_code s in
    let pos := Z.to_nat (clamped_pos idx (zlen code)) in
    list_remove s = Ok (set_code (set_int s r)
                          (match code with [] => [] | _ => firstn pos code ++ skipn (S pos) code end)).
  Proof.
    intros Hi Hl code pos. unfold list_remove. rewrite Hi. cbn zeta.
    unfold record_pos. change (st_code (set_int s r)) with code.
    destruct code as [|c0 cr] eqn:Ec.
    - unfold l_remove. destruct (_ && _); reflexivity.
    - assert (Hpos : 0 < zlen (c0 :: cr)) by (rewrite zlen_cons; pose proof (zlen_nonneg cr); lia).
      fold code in Hl. rewrite Ec in Hl.
      rewrite len32_small by exact Hl. rewrite clamp_is_clamped by exact Hpos.
      unfold l_remove. pose proof (clamp_idx_range idx _ Hpos) as Hr. rewrite clamp_is_clamped in Hr by exact Hpos.
      replace ((0 <=? clamped_pos idx (zlen (c0 :: cr))) && (clamped_pos idx (zlen (c0 :: cr)) <? zlen (c0 :: cr))) with true by lia.
      now rewrite del_split.
  Qed.

  (* LIST.SET (repaired code) *)
  Lemma list_set_lemma (s : state) (idx : Z) (r : list Z) (ids : list Z) (vr : list (list Z)) :
    st_int s = idx :: r ->
    st_ivec s = ids :: vr ->
    let d := designate ids (set_ivec (set_int s r) vr) in
    let code := st_code (snd d) in
    let pos := Z.to_nat (clamped_pos idx (zlen code)) in
    zlen code <= max32 ->
    list_set s = Ok (set_code (snd d)
                       (match code with [] => [] | _ => firstn pos code ++ fst d :: skipn (S pos) code end)).
  Proof.
    intros Hi Hv d code pos Hl. unfold list_set. rewrite Hi. cbn zeta. unfold load_items.
    change (st_ivec (set_int s r)) with (st_ivec s). rewrite Hv.
    change (set_ivec (set_int s r) vr) with (set_ivec (set_int s r) vr).
    pose proof (load_ids_designate ids (set_ivec (set_int s r) vr)) as HD. fold d in HD.
    destruct (load_ids ids (set_ivec (set_int s r) vr)) as [items s2]. cbn [fst snd] in HD.
    assert (H1 : mk_record items = fst d) by (now rewrite <- HD).
    assert (H2 : s2 = snd d) by (now rewrite <- HD).
    rewrite H1, H2. fold code. unfold record_pos. fold code.
    destruct code as [|c0 cr] eqn:Ec.
    - unfold l_replace. destruct (_ && _); reflexivity.
    - assert (Hpos : 0 < zlen (c0 :: cr)) by (rewrite zlen_cons; pose proof (zlen_nonneg cr); lia).
      rewrite len32_small by exact Hl. rewrite clamp_is_clamped by exact Hpos.
      unfold l_replace. pose proof (clamp_idx_range idx _ Hpos) as Hr. rewrite clamp_is_clamped in Hr by exact Hpos.
      replace ((0 <=? clamped_pos idx (zlen (c0 :: cr))) && (clamped_pos idx (zlen (c0 :: cr)) <? zlen (c0 :: cr))) with true by lia.
      rewrite upd_split; [reflexivity|]. clear - Hr. unfold zlen in *. lia.
  Qed.

  Lemma list_set_no_operands (s : state) :
    (st_int s = [] -> list_set s = Ok s) /\
    (forall idx r, st_int s = idx :: r -> st_ivec s = [] -> list_set s = Ok (set_int s r)).
  Proof.
    split.
    - intro H. unfold list_set. now rewrite H.
    - intros idx r H Hv. unfold list_set, load_items. rewrite H. cbn zeta.
      change (st_ivec (set_int s r)) with (st_ivec s). now rewrite Hv.
  Qed.

  (* LIST.BVAL / IVAL / FVAL *)
  Lemma list_val_lemma {A} (f : item -> Z -> A) (push : state -> A -> state) (s : state) (n idx : Z) (r : list Z) :
    st_int s = n :: idx :: r ->
    0 < zlen (st_code s) <= max32 ->
    exists t, nth_error (st_code s) (Z.to_nat (clamped_pos idx (zlen (st_code s)))) = Some t /\
              list_val f push s = Ok (push (set_int s r) (f t (i32_as_usize n))).
  Proof.
    intros Hi [H1 H2]. unfold list_val. rewrite Hi. cbn zeta. unfold record_pos.
    change (st_code (set_int s r)) with (st_code s).
    rewrite len32_small by exact H2. rewrite clamp_is_clamped by exact H1.
    pose proof (clamp_idx_range idx _ H1) as Hr. rewrite clamp_is_clamped in Hr by exact H1.
    rewrite l_copy_in by exact Hr.
    destruct (nth_error (st_code s) (Z.to_nat (clamped_pos idx (zlen (st_code s))))) as [t|] eqn:E.
    - exists t. split; reflexivity.
    - apply nth_error_None in E. clear - E Hr. unfold zlen in *. lia.
  Qed.
End Address.

(* ================= registry lookups without normalising instruction bodies ================= *)
Section Lookup.
  Context {FO : FloatOps}.

  Lemma mk_registry_app a b : mk_registry (a ++ b) = mk_registry a ++ mk_registry b.
  Proof. unfold mk_registry. apply map_app. Qed.
  Lemma lookup_app a b n :
    lookup (a ++ b) n = match lookup a n with Some f => Some f | None => lookup b n end.
  Proof.
    induction a as [|[k f] r IH]; [reflexivity|]. cbn [app lookup]. destruct (str_eqb n k); [reflexivity|apply IH].
  Qed.
  Lemma lookup_none reg n :
    forallb (fun k => negb (str_eqb n k)) (map fst reg) = true -> lookup reg n = None.
  Proof.
    induction reg as [|[k f] r IH]; [reflexivity|]. cbn [map fst forallb lookup]. intro H.
    apply andb_prop in H as [H1 H2]. destruct (str_eqb n k); [discriminate|]. now apply IH.
  Qed.
End Lookup.

(* evaluates the string comparisons of a lookup in a small table, leaves the semantics alone *)
Ltac lookup_small :=
  cbn [map fst snd mk_registry lookup];
  repeat (match goal with
          | |- context [str_eqb ?a ?b] =>
              let v := eval vm_compute in (str_eqb a b) in
              replace (str_eqb a b) with v by (vm_compute; reflexivity)
          end; cbv iota; cbn [lookup]);
  try reflexivity.
(* lookup in the full registry: skips the tables that do not contain the name *)
Ltac lookup_full T :=
  unfold full_registry, full_table; rewrite ?mk_registry_app, ?lookup_app;
  repeat match goal with
         | |- context [lookup (mk_registry ?U) ?n] =>
             lazymatch U with
             | T => fail
             | _ => rewrite (lookup_none (mk_registry U) n) by (vm_compute; reflexivity)
             end
         end;
  unfold T; lookup_small.

(* ================= LIST.GET followed by execution ================= *)
Section GetRestores.
  Context {FO : FloatOps}.
  Variable p : profile.

  Lemma lookup_list_get : lookup full_registry (s2l "LIST.GET"%string) = Some (pure list_get).
  Proof. lookup_full tbl_list. Qed.
  Lemma lookup_list_add : lookup full_registry (s2l "LIST.ADD"%string) = Some (pure list_add).
  Proof. lookup_full tbl_list. Qed.

  (* ---- single interpreter steps ---- *)
  Lemma step_instr reg w s n E f :
    st_exec s = IInstr n :: E -> lookup reg n = Some (pure f) ->
    step p reg w s = let! s' := f (set_exec s E) in Ok (false, w, s').
  Proof.
    intros H1 H2. unfold step. rewrite H1, H2. unfold pure. destruct (f (set_exec s E)); reflexivity.
  Qed.
  Lemma step_lit reg w s v E :
    st_exec s = ILit v :: E -> step p reg w s = Ok (false, w, push_lit (set_exec s E) v).
  Proof. intro H. unfold step. now rewrite H. Qed.
  Lemma step_list reg w s l E :
    st_exec s = IList l :: E -> step p reg w s = Ok (false, w, set_exec s (l ++ E)).
  Proof. intro H. unfold step. rewrite H. reflexivity. Qed.
  Lemma steps_S reg k w s w' s' :
    step p reg w s = Ok (false, w', s') -> steps p reg (S k) w s = steps p reg k w' s'.
  Proof. intro H. cbn [steps]. rewrite H. reflexivity. Qed.

  (* ---- push_lit touches exactly one typed stack ---- *)
  Lemma push_lit_set_exec s v e : push_lit (set_exec s e) v = set_exec (push_lit s v) e.
  Proof. destruct v; reflexivity. Qed.
  Lemma push_lit_set_code s v e : push_lit (set_code s e) v = set_code (push_lit s v) e.
  Proof. destruct v; reflexivity. Qed.
  Lemma st_exec_push_lit s v : st_exec (push_lit s v) = st_exec s.
  Proof. destruct v; reflexivity. Qed.
  Lemma push_lits_set_exec lits : forall s e, push_lits lits (set_exec s e) = set_exec (push_lits lits s) e.
  Proof.
    unfold push_lits. induction lits as [|v r IH]; intros s e; [reflexivity|].
    cbn [fold_left]. now rewrite push_lit_set_exec, IH.
  Qed.
  Lemma push_lits_set_code lits : forall s e, push_lits lits (set_code s e) = set_code (push_lits lits s) e.
  Proof.
    unfold push_lits. induction lits as [|v r IH]; intros s e; [reflexivity|].
    cbn [fold_left]. now rewrite push_lit_set_code, IH.
  Qed.
  Lemma set_exec_same s : set_exec s (st_exec s) = s.
  Proof. destruct s; reflexivity. Qed.

  (* what push_lits does to every field *)
  Lemma push_lits_fields lits : forall s,
    let s' := push_lits lits s in
    st_bool s' = rev (filter_map sel_bool lits) ++ st_bool s /\
    st_int s' = rev (filter_map sel_int lits) ++ st_int s /\
    st_float s' = rev (filter_map sel_float lits) ++ st_float s /\
    st_index s' = rev (filter_map sel_index lits) ++ st_index s /\
    st_bvec s' = rev (filter_map sel_bvec lits) ++ st_bvec s /\
    st_ivec s' = rev (filter_map sel_ivec lits) ++ st_ivec s /\
    st_fvec s' = rev (filter_map sel_fvec lits) ++ st_fvec s /\
    st_code s' = st_code s /\ st_exec s' = st_exec s /\ st_name s' = st_name s /\
    st_input s' = st_input s /\ st_output s' = st_output s /\ st_graph s' = st_graph s /\
    st_bind s' = st_bind s /\ st_cfg s' = st_cfg s /\ st_quote s' = st_quote s /\ st_send s' = st_send s.
  Proof.
    unfold push_lits. induction lits as [|v r IH]; intro s.
    - cbn. repeat split; reflexivity.
    - cbn [fold_left]. specialize (IH (push_lit s v)). cbv zeta in *.
      destruct IH as (H1 & H2 & H3 & H4 & H5 & H6 & H7 & H8 & H9 & H10 & H11 & H12 & H13 & H14 & H15 & H16 & H17).
      rewrite H1, H2, H3, H4, H5, H6, H7, H8, H9, H10, H11, H12, H13, H14, H15, H16, H17.
      destruct v; cbn [filter_map sel_bool sel_int sel_float sel_index sel_bvec sel_ivec sel_fvec rev push_lit
                       st_bool st_code st_exec st_float st_index st_int st_name st_bvec st_fvec st_ivec st_input
                       st_output st_graph st_bind st_cfg st_quote st_send set_bool set_int set_index set_float
                       set_bvec set_ivec set_fvec];
        rewrite <- ?app_assoc; repeat split; reflexivity.
  Qed.

  (* executing a run of literals *)
  Lemma steps_lits lits : forall w s E,
    st_exec s = map ILit lits ++ E ->
    steps p full_registry (length lits) w s = Ok (false, w, set_exec (push_lits lits s) E).
  Proof.
    induction lits as [|v r IH]; intros w s E H.
    - cbn [length steps push_lits fold_left]. cbn [map app] in H. rewrite <- H. now rewrite set_exec_same.
    - cbn [length]. cbn [map app] in H. rewrite (steps_S _ _ _ _ _ _ (step_lit _ _ _ _ _ H)).
      rewrite IH with (E := E).
      + unfold push_lits. cbn [fold_left]. fold (push_lits r (push_lit (set_exec s (map ILit r ++ E)) v)).
        fold (push_lits r (push_lit s v)).
        rewrite push_lit_set_exec, push_lits_set_exec. reflexivity.
      + now rewrite st_exec_push_lit.
  Qed.

  (* LIST.GET, then the record is unpacked and its literals are pushed *)
  Lemma list_get_restores_lemma (w : world) (s : state) (idx : Z) (r : list Z) (lits : list lit) (E : list item) :
    st_exec s = IInstr (s2l "LIST.GET"%string) :: E ->
    st_int s = idx :: r ->
    zlen (st_code s) <= max32 ->
    nth_error (st_code s) (Z.to_nat (clamped_pos idx (zlen (st_code s)))) = Some (IList (map ILit lits)) ->
    let s' := push_lits lits (set_exec (set_int s r) E) in
    steps p full_registry (2 + length lits) w s = Ok (false, w, s') /\
    st_code s' = st_code s /\ st_exec s' = E /\
    st_bool s' = rev (filter_map sel_bool lits) ++ st_bool s /\
    st_int s' = rev (filter_map sel_int lits) ++ r /\
    st_float s' = rev (filter_map sel_float lits) ++ st_float s /\
    st_index s' = rev (filter_map sel_index lits) ++ st_index s /\
    st_bvec s' = rev (filter_map sel_bvec lits) ++ st_bvec s /\
    st_ivec s' = rev (filter_map sel_ivec lits) ++ st_ivec s /\
    st_fvec s' = rev (filter_map sel_fvec lits) ++ st_fvec s /\
    st_name s' = st_name s /\ st_input s' = st_input s /\ st_output s' = st_output s /\
    st_graph s' = st_graph s /\ st_bind s' = st_bind s /\ st_quote s' = st_quote s.
  Proof.
    intros He Hi Hl Hn s'.
    assert (Hpos : 0 < zlen (st_code s)).
    { destruct (st_code s); [destruct (Z.to_nat _); discriminate|]. rewrite zlen_cons. pose proof (zlen_nonneg l). lia. }
    split.
    - change (2 + length lits)%nat with (S (S (length lits))).
      assert (Hg : list_get (set_exec s E) = Ok (push_exec (set_int (set_exec s E) r) (IList (map ILit lits)))).
      { unfold list_get. change (st_int (set_exec s E)) with (st_int s). rewrite Hi. cbn zeta.
        unfold record_pos. change (st_code (set_int (set_exec s E) r)) with (st_code s).
        rewrite len32_small by exact Hl. rewrite clamp_is_clamped by exact Hpos.
        pose proof (clamp_idx_range idx _ Hpos) as Hr. rewrite clamp_is_clamped in Hr by exact Hpos.
        rewrite l_copy_in by exact Hr. rewrite Hn. reflexivity. }
      rewrite (steps_S _ _ _ _ w (push_exec (set_int (set_exec s E) r) (IList (map ILit lits)))).
      2:{ rewrite (step_instr _ _ _ _ _ _ He lookup_list_get). rewrite Hg. reflexivity. }
      rewrite (steps_S _ _ _ _ w (set_exec (set_int (set_exec s E) r) (map ILit lits ++ E))).
      2:{ rewrite (step_list _ w _ (map ILit lits) E) by reflexivity. reflexivity. }
      rewrite steps_lits with (E := E) by reflexivity.
      unfold s'. change (set_int (set_exec s E) r) with (set_exec (set_int s r) E).
      rewrite !push_lits_set_exec. reflexivity.
    - pose proof (push_lits_fields lits (set_exec (set_int s r) E)) as H. cbv zeta in H. fold s' in H.
      destruct H as (H1 & H2 & H3 & H4 & H5 & H6 & H7 & H8 & H9 & H10 & H11 & H12 & H13 & H14 & H15 & H16 & H17).
      repeat split; assumption.
  Qed.

  (* ---- round trip: what LIST.ADD took from literal stacks goes back where it was ---- *)
  Lemma take_id_literal sid s :
    literal_id sid = true ->
    match take_id sid s with
    | Some (x, s1) => exists v, x = ILit v /\ push_lit s1 v = s
    | None => True
    end.
  Proof.
    unfold literal_id. intro H.
    repeat (apply orb_prop in H; destruct H as [H|H]); apply Z.eqb_eq in H; subst sid;
      unfold take_id; cbv [BOOL_ID BVEC_ID CODE_ID EXEC_ID FLOAT_ID FVEC_ID INT_ID IVEC_ID NAME_ID Z.eqb Pos.eqb];
      destruct s as [sb sc se sf six si sn sbv sfv siv sin sout sg sbd scf sq ssd];
      cbn [st_bool st_float st_int st_bvec st_fvec st_ivec].
    - destruct sb; [exact I|]. eexists; split; reflexivity.
    - destruct sbv; [exact I|]. eexists; split; reflexivity.
    - destruct sf; [exact I|]. eexists; split; reflexivity.
    - destruct sfv; [exact I|]. eexists; split; reflexivity.
    - destruct si; [exact I|]. eexists; split; reflexivity.
    - destruct siv; [exact I|]. eexists; split; reflexivity.
  Qed.

  Lemma load_ids_literal ids : Forall (fun k => literal_id k = true) ids -> forall s,
    exists lits, fst (load_ids ids s) = map ILit lits /\ push_lits (rev lits) (snd (load_ids ids s)) = s.
  Proof.
    induction 1 as [|sid r Hs Hr IH]; intro s.
    - exists []. split; reflexivity.
    - cbn [load_ids]. pose proof (take_id_literal sid s Hs) as HT.
      destruct (take_id sid s) as [[x s1]|].
      + destruct HT as [v [-> Hp]]. destruct (IH s1) as [lits [H1 H2]].
        destruct (load_ids r s1) as [xs s2]. cbn [fst snd] in *.
        exists (v :: lits). split; [cbn [map]; now rewrite H1|].
        cbn [rev]. unfold push_lits in *. rewrite fold_left_app. cbn [fold_left]. now rewrite H2.
      + apply IH.
  Qed.

  Lemma designate_literal_roundtrip_lemma ids s :
    Forall (fun k => literal_id k = true) ids ->
    exists lits, fst (designate ids s) = IList (map ILit lits) /\ push_lits lits (snd (designate ids s)) = s.
  Proof.
    intro H. destruct (load_ids_literal ids H s) as [lits [H1 H2]].
    exists (rev lits). rewrite <- load_ids_designate. cbn [fst snd]. split; [|exact H2].
    unfold mk_record. now rewrite H1, map_rev.
  Qed.

  (* ---- end to end: LIST.ADD ; 0 ; LIST.GET ; execution of the record ---- *)
  Lemma list_add_get_roundtrip_lemma (w : world) (s : state) (ids : list Z) (vr : list (list Z)) (E : list item) :
    st_exec s = IInstr (s2l "LIST.ADD"%string) :: ILit (LInt 0) :: IInstr (s2l "LIST.GET"%string) :: E ->
    st_ivec s = ids :: vr ->
    Forall (fun k => literal_id k = true) ids ->
    zlen (st_code s) < max32 ->
    exists lits,
      steps p full_registry (4 + length lits) w s =
        Ok (false, w, set_code (set_exec (set_ivec s vr) E) (IList (map ILit lits) :: st_code s)).
  Proof.
    intros He Hv Hlit Hlen.
    set (X1 := ILit (LInt 0) :: IInstr (s2l "LIST.GET"%string) :: E) in *.
    set (s0 := set_ivec (set_exec s X1) vr).
    destruct (designate_literal_roundtrip_lemma ids s0 Hlit) as [lits [Hrec Hback]].
    exists lits.
    remember (snd (designate ids s0)) as sd eqn:Hsd.
    set (rec := IList (map ILit lits)) in *.
    (* facts about sd from the round trip *)
    pose proof (push_lits_fields lits sd) as HF. cbv zeta in HF. rewrite Hback in HF.
    destruct HF as (_ & _ & _ & _ & _ & _ & _ & Hcode & Hexec & _).
    change (st_code s0) with (st_code s) in Hcode. change (st_exec s0) with X1 in Hexec.
    (* step 1: LIST.ADD *)
    assert (Hadd : list_add (set_exec s X1) = Ok (push_code sd rec)).
    { rewrite list_add_designate. change (st_ivec (set_exec s X1)) with (st_ivec s). rewrite Hv.
      fold s0. cbv zeta. rewrite <- Hsd, Hrec. reflexivity. }
    change (4 + length lits)%nat with (S (S (S (S (length lits))))).
    rewrite (steps_S _ _ _ _ w (push_code sd rec)).
    2:{ rewrite (step_instr _ _ _ _ _ _ He lookup_list_add). rewrite Hadd. reflexivity. }
    (* step 2: the literal 0 *)
    rewrite (steps_S _ _ _ _ w (push_lit (set_exec (push_code sd rec) (IInstr (s2l "LIST.GET"%string) :: E)) (LInt 0))).
    2:{ apply step_lit. cbn [push_code st_exec set_code]. rewrite <- Hexec. reflexivity. }
    (* step 3: LIST.GET addresses position 0 = the record just pushed *)
    assert (Hl1 : zlen (rec :: st_code sd) <= max32) by (rewrite zlen_cons, <- Hcode; lia).
    assert (Hp1 : 0 < zlen (rec :: st_code sd)) by (rewrite zlen_cons; pose proof (zlen_nonneg (st_code sd)); lia).
    set (s3 := set_exec (set_code sd (rec :: st_code sd)) E).
    assert (Hget : list_get (set_exec (push_lit (set_exec (push_code sd rec) (IInstr (s2l "LIST.GET"%string) :: E)) (LInt 0)) E)
                   = Ok (push_exec s3 rec)).
    { unfold list_get. cbn [push_lit push_code st_int set_int set_exec set_code st_code st_exec].
      unfold record_pos. cbn [st_code set_int set_exec set_code push_code].
      rewrite len32_small by exact Hl1. rewrite clamp_is_clamped by exact Hp1.
      assert (Hc : clamped_pos 0 (zlen (rec :: st_code sd)) = 0).
      { unfold clamped_pos. replace (0 <? 0) with false by reflexivity.
        replace (zlen (rec :: st_code sd) <=? 0) with false by lia. reflexivity. }
      rewrite Hc. rewrite l_copy_in by lia. cbn [Z.to_nat nth_error]. unfold rec at 1.
      unfold s3, push_exec. destruct sd; reflexivity. }
    rewrite (steps_S _ _ _ _ w (push_exec s3 rec)).
    2:{ erewrite step_instr; [|reflexivity|exact lookup_list_get]. rewrite Hget. reflexivity. }
    (* step 4: the record is unpacked *)
    rewrite (steps_S _ _ _ _ w (set_exec s3 (map ILit lits ++ E))).
    2:{ rewrite (step_list _ w _ (map ILit lits) E) by reflexivity. reflexivity. }
    (* its literals are pushed *)
    rewrite steps_lits with (E := E) by reflexivity.
    unfold s3. rewrite !push_lits_set_exec, push_lits_set_code, Hback.
    rewrite <- Hcode. unfold s0. destruct s; reflexivity.
  Qed.
End GetRestores.

(* ================= statements as used by Props/C19.v ================= *)
Section Statements.
  Context {FO : FloatOps}.

  Lemma list_add_moves_exactly_lemma (s : state) :
    (st_ivec s = [] -> list_add s = Ok s) /\
    (forall ids rest, st_ivec s = ids :: rest ->
       let s0 := set_ivec s rest in
       let d := designate ids s0 in
       list_add s = Ok (push_code (snd d) (fst d)) /\
       d = (IList (rev (picked [] ids s0)), drop_counts ids s0) /\
       Permutation (all_items s0) (rev (picked [] ids s0) ++ all_items (drop_counts ids s0))).
  Proof.
    split.
    - intro H. rewrite list_add_designate, H. reflexivity.
    - intros ids rest H s0 d. split; [|split].
      + rewrite list_add_designate, H. reflexivity.
      + apply designate_picked.
      + pose proof (designate_conserves ids s0) as HP. rewrite designate_picked in HP. exact HP.
  Qed.

  Lemma i32_as_usize_nonneg n : min32 <= n -> 0 <= i32_as_usize n.
  Proof. unfold i32_as_usize, min32, two64. intro H. destruct (n <? 0) eqn:E; lia. Qed.

  Lemma list_vals_lemma (s : state) (n idx : Z) (r : list Z) :
    st_int s = n :: idx :: r ->
    min32 <= n ->
    0 < zlen (st_code s) <= max32 ->
    exists t, nth_error (st_code s) (Z.to_nat (clamped_pos idx (zlen (st_code s)))) = Some t /\
      list_bval s = Ok (push_bool (set_int s r) (nth (Z.to_nat (i32_as_usize n)) (bools_of t) false)) /\
      list_ival s = Ok (push_int (set_int s r) (nth (Z.to_nat (i32_as_usize n)) (ints_of t) 0)) /\
      list_fval s = Ok (push_float (set_int s r) (nth (Z.to_nat (i32_as_usize n)) (floats_of t) f_zero)).
  Proof.
    intros Hi Hn Hc. pose proof (i32_as_usize_nonneg n Hn) as Hu.
    destruct (list_val_lemma bval push_bool s n idx r Hi Hc) as [t [Ht Hb]].
    destruct (list_val_lemma ival push_int s n idx r Hi Hc) as [t2 [Ht2 Hi2]].
    destruct (list_val_lemma fval push_float s n idx r Hi Hc) as [t3 [Ht3 Hf3]].
    rewrite Ht in Ht2, Ht3. inversion Ht2; inversion Ht3; subst t2 t3.
    exists t. split; [exact Ht|].
    unfold list_bval, list_ival, list_fval. rewrite Hb, Hi2, Hf3.
    rewrite bval_spec, ival_spec, fval_spec.
    replace (i32_as_usize n <? 0) with false by lia. repeat split; reflexivity.
  Qed.

  Lemma list_remove_no_operand (s : state) : st_int s = [] -> list_remove s = Ok s.
  Proof. intro H. unfold list_remove. now rewrite H. Qed.

  Lemma list_set_replaces_exactly_lemma (s : state) :
    (st_int s = [] -> list_set s = Ok s) /\
    (forall idx r, st_int s = idx :: r -> st_ivec s = [] -> list_set s = Ok (set_int s r)) /\
    (forall idx r ids vr, st_int s = idx :: r -> st_ivec s = ids :: vr ->
       let d := designate ids (set_ivec (set_int s r) vr) in
       let code := st_code (snd d) in
       let pos := Z.to_nat (clamped_pos idx (zlen code)) in
       zlen code <= max32 ->
       list_set s = Ok (set_code (snd d)
                          (match code with [] => [] | _ => firstn pos code ++ fst d :: skipn (S pos) code end))).
  Proof.
    split; [exact (proj1 (list_set_no_operands s))|].
    split; [exact (proj2 (list_set_no_operands s))|]. exact (list_set_lemma s).
  Qed.

  Lemma list_remove_deletes_exactly_lemma (s : state) :
    (st_int s = [] -> list_remove s = Ok s) /\
    (forall idx r, st_int s = idx :: r -> zlen (st_code s) <= max32 ->
       let code := st_code s in
       let pos := Z.to_nat (clamped_pos idx (zlen code)) in
       list_remove s = Ok (set_code (set_int s r)
                             (match code with [] => [] | _ => firstn pos code ++ skipn (S pos) code end))).
  Proof. split; [exact (list_remove_no_operand s)|exact (list_remove_lemma s)]. Qed.
End Statements.

(* Lemmas behind Props/C19.v: LIST records. *)
From Coq Require Import String ZArith List Bool Lia ZifyBool Permutation.
From PushModel Require Import Base.Sx Base.Machine Base.ListOps Base.F32 Model.Item Model.GraphT Model.State
  Model.InstrBase Model.IScalar Model.ICode Model.Registry Model.Interp Model.IList Model.RegistryListIo
  Model.RegistryAll Spec.ListSpec.
Import ListNotations.
Open Scope Z_scope.

(* ================= find = n-th element of the type-filtered preorder listing ================= *)
Section FindSpec.
  Context {FO : FloatOps}.

  Definition find_list (pat : item) (n : Z) : list item -> Z -> option item * Z :=
    fix go (l : list item) (cnt : Z) {struct l} : option item * Z :=
      match l with
      | [] => (None, cnt)
      | c :: r => match find c pat cnt n with
                  | (Some y, k) => (Some y, k)
                  | (None, k) => go r k
                  end
      end.

  Lemma find_unfold t pat cnt n :
    find t pat cnt n =
    if shallow_eq pat t && (cnt =? n) then (Some t, cnt)
    else match t with
         | IList l => find_list pat n l (if shallow_eq pat t then cnt + 1 else cnt)
         | _ => (None, if shallow_eq pat t then cnt + 1 else cnt)
         end.
  Proof. destruct t; reflexivity. Qed.

  (* the answer of a search that starts with counter [cnt] over a listing [tp] *)
  Definition find_answer (tp : list item) (cnt n : Z) : option item * Z :=
    if (cnt <=? n) && (n <? cnt + zlen tp) then (nth_error tp (Z.to_nat (n - cnt)), n)
    else (None, cnt + zlen tp).

  Lemma zlen_app {A} (a b : list A) : zlen (a ++ b) = zlen a + zlen b.
  Proof. unfold zlen. rewrite app_length. lia. Qed.
  Lemma zlen_cons {A} (x : A) l : zlen (x :: l) = 1 + zlen l.
  Proof. unfold zlen. cbn [length]. lia. Qed.
  Lemma zlen_nonneg {A} (l : list A) : 0 <= zlen l.
  Proof. unfold zlen. lia. Qed.

  Lemma find_answer_app tp1 tp2 cnt n :
    find_answer (tp1 ++ tp2) cnt n =
    match find_answer tp1 cnt n with
    | (Some y, k) => (Some y, k)
    | (None, k) => find_answer tp2 k n
    end.
  Proof.
    unfold find_answer. rewrite zlen_app.
    pose proof (zlen_nonneg tp1) as H1. pose proof (zlen_nonneg tp2) as H2.
    destruct ((cnt <=? n) && (n <? cnt + zlen tp1)) eqn:E1.
    - assert (Hlt : (Z.to_nat (n - cnt) < length tp1)%nat) by (unfold zlen in *; lia).
      destruct (nth_error tp1 (Z.to_nat (n - cnt))) eqn:E; [|apply nth_error_None in E; lia].
      replace ((cnt <=? n) && (n <? cnt + (zlen tp1 + zlen tp2))) with true by lia.
      rewrite nth_error_app1 by exact Hlt. now rewrite E.
    - destruct ((cnt <=? n) && (n <? cnt + (zlen tp1 + zlen tp2))) eqn:E2.
      + replace ((cnt + zlen tp1 <=? n) && (n <? cnt + zlen tp1 + zlen tp2)) with true by lia.
        rewrite nth_error_app2 by (unfold zlen in *; lia).
        do 2 f_equal. unfold zlen in *. lia.
      + replace ((cnt + zlen tp1 <=? n) && (n <? cnt + zlen tp1 + zlen tp2)) with false by lia.
        f_equal. lia.
  Qed.

  Lemma find_spec_gen pat n t :
    forall cnt, find t pat cnt n = find_answer (typed_points pat t) cnt n.
  Proof.
    induction t as [l IH | nm | v | nm] using item_ind'; intro cnt; rewrite find_unfold; unfold typed_points.
    2-4: cbn [preorder filter]; unfold find_answer;
         destruct (shallow_eq pat _); cbn [andb]; [destruct (cnt =? n) eqn:E|];
         cbn [zlen length app]; unfold zlen; cbn [length];
         [ replace ((cnt <=? n) && (n <? cnt + Z.of_nat 1)) with true by lia;
           replace (Z.to_nat (n - cnt)) with 0%nat by lia; cbn [nth_error]; f_equal; lia
         | replace ((cnt <=? n) && (n <? cnt + Z.of_nat 1)) with false by lia; reflexivity
         | replace ((cnt <=? n) && (n <? cnt + Z.of_nat 0)) with false by lia; f_equal; lia ].
    rewrite preorder_list. cbn [filter].
    assert (HL : forall c, find_list pat n l c = find_answer (filter (shallow_eq pat) (flat_map preorder l)) c n).
    { induction IH as [|x r Hx Hr IHr]; intro c.
      - cbn [find_list flat_map filter]. unfold find_answer, zlen. cbn [length].
        replace ((c <=? n) && (n <? c + Z.of_nat 0)) with false by lia. f_equal. lia.
      - cbn [find_list flat_map]. rewrite filter_app, find_answer_app, Hx.
        unfold typed_points. destruct (find_answer (filter (shallow_eq pat) (preorder x)) c n) as [[y|] k]; [reflexivity|].
        apply IHr. }
    destruct (shallow_eq pat (IList l)); cbn [andb].
    - change (IList l :: filter (shallow_eq pat) (flat_map preorder l))
        with (([IList l] ++ filter (shallow_eq pat) (flat_map preorder l))%list).
      rewrite find_answer_app. rewrite HL.
      destruct (cnt =? n) eqn:E.
      + unfold find_answer at 1. unfold zlen. cbn [length].
        replace ((cnt <=? n) && (n <? cnt + Z.of_nat 1)) with true by lia.
        replace (Z.to_nat (n - cnt)) with 0%nat by lia. cbn [nth_error]. f_equal. lia.
      + unfold find_answer at 2. unfold zlen at 1. cbn [length].
        replace ((cnt <=? n) && (n <? cnt + Z.of_nat 1)) with false by lia.
        replace (cnt + Z.of_nat 1) with (cnt + 1) by lia. reflexivity.
    - apply HL.
  Qed.
End FindSpec.

Section ValSpec.
  Context {FO : FloatOps}.

  Lemma find_nth pat t n :
    fst (find t pat 0 n) = if n <? 0 then None else nth_error (typed_points pat t) (Z.to_nat n).
  Proof.
    rewrite find_spec_gen. unfold find_answer. pose proof (zlen_nonneg (typed_points pat t)) as H.
    destruct (n <? 0) eqn:E.
    - replace ((0 <=? n) && (n <? 0 + zlen (typed_points pat t))) with false by lia. reflexivity.
    - destruct ((0 <=? n) && (n <? 0 + zlen (typed_points pat t))) eqn:E2; cbn [fst].
      + now rewrite Z.sub_0_r.
      + symmetry. apply nth_error_None. unfold zlen in *. lia.
  Qed.

  Lemma nth_filter_bool L : forall k,
    match nth_error (filter (shallow_eq pat_bool) L) k with Some (ILit (LBool b)) => b | _ => false end
    = nth k (filter_map item_bool L) false.
  Proof.
    induction L as [|x r IH]; intro k; [destruct k; reflexivity|].
    destruct x as [l|nm|v|nm]; try exact (IH k).
    destruct v; try exact (IH k).
    cbn [filter shallow_eq pat_bool lit_kind Z.eqb filter_map item_bool].
    destruct k; [reflexivity|]. cbn [nth_error nth]. apply IH.
  Qed.
  Lemma nth_filter_int L : forall k,
    match nth_error (filter (shallow_eq pat_int) L) k with Some (ILit (LInt b)) => b | _ => 0 end
    = nth k (filter_map item_int L) 0.
  Proof.
    induction L as [|x r IH]; intro k; [destruct k; reflexivity|].
    destruct x as [l|nm|v|nm]; try exact (IH k).
    destruct v; try exact (IH k).
    cbn [filter shallow_eq pat_int lit_kind Z.eqb filter_map item_int].
    destruct k; [reflexivity|]. cbn [nth_error nth]. apply IH.
  Qed.
  Lemma nth_filter_float L : forall k,
    match nth_error (filter (shallow_eq pat_float) L) k with Some (ILit (LFloat b)) => b | _ => f_zero end
    = nth k (filter_map item_float L) f_zero.
  Proof.
    induction L as [|x r IH]; intro k; [destruct k; reflexivity|].
    destruct x as [l|nm|v|nm]; try exact (IH k).
    destruct v; try exact (IH k).
    cbn [filter shallow_eq pat_float lit_kind Z.eqb filter_map item_float].
    destruct k; [reflexivity|]. cbn [nth_error nth]. apply IH.
  Qed.

  Lemma bval_spec t n : bval t n = if n <? 0 then false else nth (Z.to_nat n) (bools_of t) false.
  Proof. unfold bval. rewrite find_nth. destruct (n <? 0); [reflexivity|]. apply nth_filter_bool. Qed.
  Lemma ival_spec t n : ival t n = if n <? 0 then 0 else nth (Z.to_nat n) (ints_of t) 0.
  Proof. unfold ival. rewrite find_nth. destruct (n <? 0); [reflexivity|]. apply nth_filter_int. Qed.
  Lemma fval_spec t n : fval t n = if n <? 0 then f_zero else nth (Z.to_nat n) (floats_of t) f_zero.
  Proof. unfold fval. rewrite find_nth. destruct (n <? 0); [reflexivity|]. apply nth_filter_float. Qed.

  (* the complete statement of C19_find_nth_spec *)
  Lemma find_nth_spec_lemma :
    (forall (pat t : item) (n : Z),
        fst (find t pat 0 n) = if n <? 0 then None else nth_error (typed_points pat t) (Z.to_nat n)) /\
    (forall (t : item) (n : Z),
        bval t n = (if n <? 0 then false else nth (Z.to_nat n) (bools_of t) false) /\
        ival t n = (if n <? 0 then 0 else nth (Z.to_nat n) (ints_of t) 0) /\
        fval t n = (if n <? 0 then f_zero else nth (Z.to_nat n) (floats_of t) f_zero)).
  Proof.
    split; [exact find_nth|]. intros t n. split; [apply bval_spec|split; [apply ival_spec|apply fval_spec]].
  Qed.
End ValSpec.

(* C03: rec_push follows the chain of last elements; the token loop of
   parser.rs simulates the explicit open-list stack of Spec/ParseSpec.v; hence
   totality, the tree theorem, dropped literals, parsing onto a non-empty stack. *)
From Coq Require Import ZArith List Bool Lia ZifyBool.
From PushModel Require Import Base.Sx Base.Machine Base.F32 Model.Item Model.State Model.Parser Spec.ParseSpec
  Proofs.NameProofs Proofs.ParseLex.
Import ListNotations.
Open Scope Z_scope.

(* ------------------------------------------------------------------ *)
(* rec_push: the equations of the Rust function *)

Definition rp_go (x : item) (d : Z) : list item -> list item * bool :=
  fix go (l : list item) : list item * bool :=
    match l with
    | [] => ([x], true)
    | b' :: r =>
        match r with
        | [] => let '(b'', ok) := rec_push_in b' x (d - 1) in ([b''], ok)
        | _ :: _ => let '(r', ok) := go r in (b' :: r', ok)
        end
    end.

Lemma rec_push_in_list items x d :
  rec_push_in (IList items) x d =
  if d =? 0 then (IList (items ++ [x]), true)
  else let '(l', ok) := rp_go x d items in (IList l', ok).
Proof. reflexivity. Qed.

Lemma rp_go_snoc x d l b :
  rp_go x d (l ++ [b]) = let '(b'', ok) := rec_push_in b x (d - 1) in (l ++ [b''], ok).
Proof.
  induction l as [|a l IH].
  - reflexivity.
  - cbn [app]. cbn [rp_go]. fold (rp_go x d).
    destruct (l ++ [b]) as [|i r0] eqn:E; [now destruct l|].
    rewrite IH. destruct (rec_push_in b x (d - 1)). reflexivity.
Qed.

Lemma rec_push_in_shape c x d :
  rec_push_in (IList c) x d = (IList (fst (rec_push c x d)), snd (rec_push c x d)).
Proof.
  unfold rec_push. rewrite rec_push_in_list. destruct (d =? 0); [reflexivity|].
  destruct (rp_go x d c). reflexivity.
Qed.

(* if depth == 0 { stack.push_front(item); return true; } *)
Lemma rec_push_0 l x : rec_push l x 0 = (l ++ [x], true).
Proof. reflexivity. Qed.
(* empty stack at depth > 0: stack.push(item); true *)
Lemma rec_push_nil x d : d <> 0 -> rec_push [] x d = ([x], true).
Proof. intro H. unfold rec_push. rewrite rec_push_in_list. replace (d =? 0) with false by lia. reflexivity. Qed.
(* bottom item is a list: recurse into it with depth - 1 *)
Lemma rec_push_list l c x d : d <> 0 ->
  rec_push (l ++ [IList c]) x d = (l ++ [IList (fst (rec_push c x (d - 1)))], snd (rec_push c x (d - 1))).
Proof.
  intro H. unfold rec_push at 1. rewrite rec_push_in_list. replace (d =? 0) with false by lia.
  rewrite rp_go_snoc, rec_push_in_shape. reflexivity.
Qed.
(* bottom item is not a list: the item is dropped, false *)
Lemma rec_push_atom l b x d : d <> 0 -> (forall c, b <> IList c) ->
  rec_push (l ++ [b]) x d = (l ++ [b], false).
Proof.
  intros H Hb. unfold rec_push at 1. rewrite rec_push_in_list. replace (d =? 0) with false by lia.
  rewrite rp_go_snoc. destruct b; try reflexivity. now destruct (Hb l0).
Qed.

Lemma push_at_0 l x : push_at l x 0 = l ++ [x].
Proof. reflexivity. Qed.
Lemma push_at_list l c x d : d <> 0 -> push_at (l ++ [IList c]) x d = l ++ [IList (push_at c x (d - 1))].
Proof. intro H. unfold push_at. now rewrite rec_push_list. Qed.

(* ------------------------------------------------------------------ *)
(* the open-list stack and rec_push *)

Section Sim.
  Context {FO : FloatOps}.
  Variable p : profile.
  Variable names : list str.

  Lemma push_at_plug outer : forall cur x k, 0 <= k ->
    push_at (plug cur outer) x (Z.of_nat (length outer) + k) = plug (push_at cur x k) outer.
  Proof.
    induction outer as [|o os IH]; intros cur x k Hk.
    - cbn [plug length]. f_equal.
    - cbn [plug length]. replace (Z.of_nat (S (length os)) + k) with (Z.of_nat (length os) + (k + 1)) by lia.
      rewrite IH by lia. rewrite push_at_list by lia. replace (k + 1 - 1) with k by lia. reflexivity.
  Qed.

  Lemma push_at_plug0 outer cur x :
    push_at (plug cur outer) x (Z.of_nat (length outer)) = plug (cur ++ [x]) outer.
  Proof.
    replace (Z.of_nat (length outer)) with (Z.of_nat (length outer) + 0) by lia.
    rewrite push_at_plug by lia. reflexivity.
  Qed.

  (* ---- the lexical part: one loop iteration does what [classify] says ---- *)
  Definition step_spec (c : cls) (e : list item) (d : Z) : res (list item * Z) :=
    match c with
    | CItem t => Ok (push_at e t d, d)
    | CDrop => Ok (e, d)
    | COpen => let! d' := uadd p d 1 in Ok (push_at e (IList []) d, d')
    | CClose => Ok (e, if d =? 0 then 0 else d - 1)
    end.

  Lemma vec_step_spec tok pre vt e d :
    starts_with pre tok = true -> str_bytes pre = Z.of_nat (length pre) ->
    vec_step false tok (Z.of_nat (length pre)) vt e d =
    step_spec (match vec_elems_text (length pre) tok with
               | Some body => match parse_vector vt body with Some v => CItem (ILit v) | None => CDrop end
               | None => CDrop
               end) e d.
  Proof.
    intros Hs Hb. unfold vec_step, vec_body. cbv iota. rewrite (slice_vec_body pre tok Hs Hb).
    destruct (vec_elems_text (length pre) tok) as [body|]; cbn [rbind step_spec]; [|reflexivity].
    unfold push_vector. destruct (parse_vector vt body); reflexivity.
  Qed.

  Lemma tok_step_classify tok e d :
    tok_step false p names tok e d = step_spec (classify names tok) e d.
  Proof.
    unfold tok_step, classify, vec_prefix.
    destruct (starts_with s_INT tok) eqn:E1.
    { exact (vec_step_spec tok s_INT VInt e d E1 eq_refl). }
    destruct (starts_with s_FLOAT tok) eqn:E2.
    { exact (vec_step_spec tok s_FLOAT VFloat e d E2 eq_refl). }
    destruct (starts_with s_BOOL tok) eqn:E3.
    { exact (vec_step_spec tok s_BOOL VBool e d E3 eq_refl). }
    destruct (str_eqb s_open tok); [reflexivity|].
    destruct (str_eqb s_close tok); [reflexivity|].
    destruct (is_instr names tok); [reflexivity|].
    destruct (parse_i32 tok); [reflexivity|].
    destruct (fparse tok); [reflexivity|].
    destruct (str_eqb tok s_true); [reflexivity|].
    destruct (str_eqb tok s_false); reflexivity.
  Qed.

  (* ---- one iteration simulates one step of the open-list stack ---- *)
  Definition zdepth (z : zst) : Z := Z.of_nat (length (snd z)).
  Definition zplug (z : zst) : list item := plug (fst z) (snd z).

  Lemma zdepth_step z c : zdepth (z_step z c) <= zdepth z + 1.
  Proof.
    destruct z as [cur outer]. unfold zdepth. destruct c; cbn [z_step snd length]; try lia.
    destruct outer; cbn [snd length]; lia.
  Qed.

  Lemma step_sim z c : zdepth z + 1 < two64 ->
    step_spec c (zplug z) (zdepth z) = Ok (zplug (z_step z c), zdepth (z_step z c)).
  Proof.
    destruct z as [cur outer]. unfold zdepth, zplug. cbn [fst snd]. intro Hd.
    destruct c; cbn [step_spec z_step fst snd].
    - now rewrite push_at_plug0.
    - reflexivity.
    - unfold uadd. replace (Z.of_nat (length outer) + 1 <? two64) with true by lia.
      cbn [rbind]. rewrite push_at_plug0. cbn [plug length]. do 2 f_equal. lia.
    - destruct outer as [|o os]; cbn [fst snd length plug].
      + reflexivity.
      + replace (Z.of_nat (S (length os)) =? 0) with false by lia. do 2 f_equal. lia.
  Qed.

  Lemma parse_tokens_sim toks : forall z,
    zdepth z + Z.of_nat (length toks) < two64 ->
    parse_tokens false p names toks (zplug z) (zdepth z) =
    Ok (zplug (z_run z (map (classify names) toks))).
  Proof.
    induction toks as [|t r IH]; intros z Hb; [reflexivity|].
    cbn [parse_tokens map]. rewrite tok_step_classify, step_sim by (cbn [length] in Hb; lia).
    cbn [rbind fst snd]. unfold z_run. cbn [fold_left]. apply IH.
    pose proof (zdepth_step z (classify names t)). cbn [length] in Hb. lia.
  Qed.

  (* ---- the parser computes the specification, on every input ---- *)
  Theorem parse_tokens_spec toks e : Z.of_nat (length toks) < two64 ->
    parse_tokens false p names toks e 0 = Ok (spec_parse_tokens names e toks).
  Proof.
    intro Hb. change e with (zplug (e, [])) at 1. change 0 with (zdepth (e, [])) at 1.
    rewrite parse_tokens_sim by (unfold zdepth; cbn [snd length]; lia).
    unfold spec_parse_tokens, zplug. destruct (z_run (e, []) (map (classify names) toks)). reflexivity.
  Qed.

  Definition str_fits (text : str) : Prop := Z.of_nat (length text) < two64.

  Theorem parse_exec_spec e text : str_fits text ->
    parse_exec false p names e text = Ok (spec_parse names e text).
  Proof.
    intro Hb. unfold parse_exec, spec_parse. apply parse_tokens_spec.
    pose proof (split_ws_length text). unfold str_fits in Hb. lia.
  Qed.

  Theorem parse_program_spec s text : str_fits text ->
    parse_program p names s text = Ok (set_exec s (spec_parse names (st_exec s) text)).
  Proof.
    intro Hb. unfold parse_program, parse_g. rewrite parse_exec_spec by exact Hb. reflexivity.
  Qed.

  Theorem parse_total s text : str_fits text -> exists s', parse_program p names s text = Ok s'.
  Proof. intro Hb. eexists. now apply parse_program_spec. Qed.

  (* only st_exec changes (for the pinned code as well) *)
  Theorem parse_frame pinned s text s' :
    parse_g pinned p names s text = Ok s' -> exists e, s' = set_exec s e.
  Proof.
    unfold parse_g. destruct (parse_exec pinned p names (st_exec s) text) as [e| |]; cbn [rbind]; try discriminate.
    intro H. injection H as <-. now exists e.
  Qed.

  (* ---- token forests ---- *)
  Lemma classify_open : classify names s_open = COpen.
  Proof. reflexivity. Qed.
  Lemma classify_close : classify names s_close = CClose.
  Proof. reflexivity. Qed.

  Lemma z_run_app z a b : z_run (z_run z a) b = z_run z (a ++ b).
  Proof. unfold z_run. now rewrite fold_left_app. Qed.

  Lemma z_run_tree t : atoms_ok names t -> forall cur outer,
    z_run (cur, outer) (map (classify names) (flatten1 t)) = (cur ++ to_items names t, outer).
  Proof.
    induction t as [tok|l IH] using ttree_ind'; intros Hok cur outer.
    - cbn [flatten1 map to_items]. destruct Hok as [H1 H2]. unfold z_run. cbn [fold_left].
      destruct (classify names tok); cbn [z_step]; try congruence. now rewrite app_nil_r.
    - rewrite flatten1_list, to_items_list. apply atoms_ok_list in Hok.
      cbn [map]. rewrite map_app. cbn [map]. rewrite classify_open, classify_close.
      unfold z_run. cbn [fold_left z_step]. rewrite fold_left_app.
      assert (F : forall cur outer, z_run (cur, outer) (map (classify names) (flatten l)) = (cur ++ to_stack names l, outer)).
      { clear cur outer. induction l as [|x r IHr]; intros cur outer.
        - cbn. now rewrite app_nil_r.
        - inversion IH; subst. inversion Hok; subst.
          cbn [flatten to_stack flat_map]. rewrite map_app, <- z_run_app.
          rewrite H1 by assumption. fold (flatten r). fold (to_stack names r). rewrite IHr by assumption.
          now rewrite app_assoc. }
      unfold z_run in F. rewrite F. reflexivity.
  Qed.

  Lemma z_run_forest f : forest_ok names f -> forall cur outer,
    z_run (cur, outer) (map (classify names) (flatten f)) = (cur ++ to_stack names f, outer).
  Proof.
    induction 1 as [|x r Hx Hr IH]; intros cur outer.
    - cbn. now rewrite app_nil_r.
    - cbn [flatten to_stack flat_map]. rewrite map_app, <- z_run_app.
      rewrite z_run_tree by assumption. fold (flatten r). fold (to_stack names r). rewrite IH.
      now rewrite app_assoc.
  Qed.

  Lemma spec_parse_forest f pre : forest_ok names f ->
    spec_parse_tokens names pre (flatten f) = pre ++ to_stack names f.
  Proof. intro H. unfold spec_parse_tokens. rewrite z_run_forest by exact H. reflexivity. Qed.

  (* the token sequence of a forest is balanced *)
  Lemma balanced_tree t : atoms_ok names t -> forall d rest,
    balanced_from d (map (classify names) (flatten1 t) ++ rest) = balanced_from d rest.
  Proof.
    induction t as [tok|l IH] using ttree_ind'; intros Hok d rest.
    - cbn [flatten1 map app]. destruct Hok as [H1 H2].
      destruct (classify names tok) eqn:E; cbn [balanced_from]; rewrite ?E; try congruence.
    - rewrite flatten1_list. apply atoms_ok_list in Hok.
      cbn [map app]. rewrite classify_open. cbn [balanced_from].
      rewrite map_app, <- app_assoc. cbn [map app]. rewrite classify_close.
      assert (F : forall d rest, balanced_from d (map (classify names) (flatten l) ++ rest) = balanced_from d rest).
      { clear d rest. induction l as [|x r IHr]; intros d rest; [reflexivity|].
        inversion IH; subst. inversion Hok; subst.
        cbn [flatten flat_map]. rewrite map_app, <- app_assoc. rewrite H1 by assumption.
        now apply IHr. }
      rewrite F. reflexivity.
  Qed.

  Lemma balanced_forest f : forest_ok names f -> balanced names (flatten f) = true.
  Proof.
    intro H. unfold balanced.
    assert (F : forall d rest, balanced_from d (map (classify names) (flatten f) ++ rest) = balanced_from d rest).
    { induction H as [|x r Hx Hr IH]; intros d rest; [reflexivity|].
      cbn [flatten flat_map]. rewrite map_app, <- app_assoc, balanced_tree by assumption. apply IH. }
    specialize (F O []). rewrite app_nil_r in F. exact F.
  Qed.

  (* C03_parse_tokens_tree, token level *)
  Theorem parse_tokens_tree f : forest_ok names f -> Z.of_nat (length (flatten f)) < two64 ->
    parse_tokens false p names (flatten f) [] 0 = Ok (to_stack names f).
  Proof.
    intros H Hb. rewrite parse_tokens_spec by exact Hb. now rewrite spec_parse_forest.
  Qed.

  (* ---- a dropped literal is as good as absent ---- *)
  Lemma parse_tokens_app pinned a : forall b e d,
    parse_tokens pinned p names (a ++ b) e d =
    let! e' := (fix go (a : list str) (e : list item) (d : Z) : res (list item * Z) :=
                  match a with
                  | [] => Ok (e, d)
                  | t :: r => let! st := tok_step pinned p names t e d in go r (fst st) (snd st)
                  end) a e d in
    parse_tokens pinned p names b (fst e') (snd e').
  Proof.
    induction a as [|t r IH]; intros b e d; [reflexivity|].
    cbn [app parse_tokens]. destruct (tok_step pinned p names t e d) as [st| |]; cbn [rbind]; try reflexivity.
    apply IH.
  Qed.

  Theorem parse_drops_bad_vector tok a b e d : classify names tok = CDrop ->
    parse_tokens false p names (a ++ tok :: b) e d = parse_tokens false p names (a ++ b) e d.
  Proof.
    intro Hc. rewrite !parse_tokens_app.
    match goal with |- rbind ?x _ = _ => destruct x as [st| |] end; cbn [rbind]; try reflexivity.
    cbn [parse_tokens]. rewrite tok_step_classify, Hc. reflexivity.
  Qed.

  (* ---- parsing onto a non-empty stack ---- *)
  Fixpoint map_last {A} (f : A -> A) (l : list A) : list A :=
    match l with
    | [] => []
    | [x] => [f x]
    | x :: r => x :: map_last f r
    end.
  Definition add_pre (pre : list item) (z : zst) : zst :=
    match snd z with
    | [] => (pre ++ fst z, [])
    | _ :: _ => (fst z, map_last (app pre) (snd z))
    end.

  Lemma add_pre_step pre z c : z_step (add_pre pre z) c = add_pre pre (z_step z c).
  Proof.
    destruct z as [cur outer]. unfold add_pre.
    destruct outer as [|o [|o2 os]]; destruct c; cbn [z_step fst snd map_last]; try reflexivity;
      now rewrite ?app_assoc.
  Qed.

  Lemma add_pre_run pre cs : forall z, z_run (add_pre pre z) cs = add_pre pre (z_run z cs).
  Proof.
    unfold z_run. induction cs as [|c cs IH]; intro z; [reflexivity|].
    cbn [fold_left]. rewrite add_pre_step. apply IH.
  Qed.

  Lemma add_pre_plug pre outer : forall cur,
    plug (fst (add_pre pre (cur, outer))) (snd (add_pre pre (cur, outer))) = pre ++ plug cur outer.
  Proof.
    induction outer as [|o os IH]; intro cur; [reflexivity|].
    destruct os as [|o2 os].
    - unfold add_pre. cbn [fst snd map_last plug]. now rewrite app_assoc.
    - specialize (IH (o ++ [IList cur])). unfold add_pre in *. cbn [fst snd plug] in *.
      exact IH.
  Qed.

  Theorem spec_parse_onto pre toks :
    spec_parse_tokens names pre toks = pre ++ spec_parse_tokens names [] toks.
  Proof.
    unfold spec_parse_tokens.
    replace (pre, @nil (list item)) with (add_pre pre ([], []))
      by (unfold add_pre; cbn [fst snd]; now rewrite app_nil_r).
    - rewrite add_pre_run. destruct (z_run ([], []) (map (classify names) toks)) as [cur outer].
      pose proof (add_pre_plug pre outer cur) as H.
      destruct (add_pre pre (cur, outer)). exact H.
  Qed.

  Theorem parse_onto_nonempty pre text : str_fits text ->
    parse_exec false p names pre text = Ok (pre ++ spec_parse names [] text) /\
    parse_exec false p names [] text = Ok (spec_parse names [] text).
  Proof.
    intro Hb. rewrite !parse_exec_spec by exact Hb. split; [|reflexivity].
    unfold spec_parse. now rewrite spec_parse_onto.
  Qed.
End Sim.

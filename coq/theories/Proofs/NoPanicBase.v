(* C01 (no panic): the typing invariant [wf_state], the resource envelope and
   the generic closure lemmas used by the per-family no-panic proofs.

   [wf_state s]  : s is a state the Rust types can hold: every i32-typed value
                   (INTEGER stack, INTVECTOR elements, integer literals anywhere
                   in CODE / EXEC / bound items, message headers, node states)
                   is an i32 and both fields of every INDEX are usize values; the
                   two integer bounds of the configuration (INTEGER.RAND) are i32.
                   Nothing about lengths, capacities or graph structure.
   [envelope s]  : the top CODE item has at most i32::MAX points (the only
                   resource bound any modelled instruction body depends on:
                   `size as i32` in CODE.EXTRACT / CODE.NTH must not be 0 or -1).
   [sem_safe f]  : from a wf state inside the envelope, f does not panic and
                   a normal return is wf again (given that `as i32` on a float
                   yields an i32: [fo_typed]).  [sem_safe0 f]: the same without
                   the envelope; [table_safe] asks [sem_safe0] of every entry
                   except CODE.EXTRACT and CODE.NTH. *)
From Coq Require Import ZArith String List Bool Lia ZifyBool Permutation.
From PushModel Require Import Base.Sx Base.Machine Base.ListOps Base.F32 Model.Item Model.GraphT Model.State
  Model.InstrBase Model.Registry Model.Interp.
Import ListNotations.
Open Scope Z_scope.

(* ---------------------------------------------------------------------- *)
(* the invariant *)
Definition wf_z (z : Z) : Prop := in_i32 z = true.
Definition wf_idx (i : Z * Z) : Prop := in_usize (fst i) = true /\ in_usize (snd i) = true.

Definition wf_litb (v : lit) : bool :=
  match v with
  | LInt z => in_i32 z
  | LIndex c d => in_usize c && in_usize d
  | LIntVec v => forallb in_i32 v
  | _ => true
  end.
Fixpoint wf_itemb (t : item) : bool :=
  match t with
  | IList l => forallb wf_itemb l
  | ILit v => wf_litb v
  | _ => true
  end.
Definition wf_item (t : item) : Prop := wf_itemb t = true.
Definition wf_bound (b : str * item) : Prop := wf_item (snd b).
Definition wf_msg (m : msg) : Prop := Forall wf_z (fst m).
Definition wf_graph (g : graph) : Prop := Forall (fun kv : Z * Z => wf_z (snd kv)) (g_nodes g).

Record wf_state (s : state) : Prop := mk_wf {
  wf_int : Forall wf_z (st_int s);
  wf_ivec : Forall (Forall wf_z) (st_ivec s);
  wf_index : Forall wf_idx (st_index s);
  wf_code : Forall wf_item (st_code s);
  wf_exec : Forall wf_item (st_exec s);
  wf_bind : Forall wf_bound (st_bind s);
  wf_input : Forall wf_msg (st_input s);
  wf_output : Forall wf_msg (st_output s);
  wf_graphs : Forall wf_graph (st_graph s);
  wf_cfg : wf_z (cfg_min_rand_int (st_cfg s)) /\ wf_z (cfg_max_rand_int (st_cfg s)) }.

(* the resource envelope *)
Definition envelope (s : state) : Prop :=
  match st_code s with t :: _ => size t <= max32 | [] => True end.

Section Safe.
  Context {FO : FloatOps}.

  (* `x as i32` yields an i32 *)
  Definition fo_typed : Prop := forall x, in_i32 (f_to_i32 x) = true.

  Definition ok_state (r : res state) : Prop :=
    match r with Ok s' => fo_typed -> wf_state s' | Panic => False | Need _ _ => True end.
  Definition ok_ws (r : res (world * state)) : Prop :=
    match r with Ok ws => fo_typed -> wf_state (snd ws) | Panic => False | Need _ _ => True end.
  Definition sem_safe (f : sem) : Prop :=
    forall p w s, wf_state s -> envelope s -> ok_ws (f p w s).
  (* the same without the envelope: all instructions but the two below *)
  Definition sem_safe0 (f : sem) : Prop :=
    forall p w s, wf_state s -> ok_ws (f p w s).
  (* the instructions whose bodies depend on the envelope (`size as i32` as a divisor) *)
  Definition env_names : list string := ["CODE.EXTRACT"%string; "CODE.NTH"%string].
  Definition needs_env (n : string) : bool := existsb (String.eqb n) env_names.
  Definition entry_safe (e : string * sem) : Prop :=
    if needs_env (fst e) then sem_safe (snd e) else sem_safe0 (snd e).
  Definition table_safe (t : list (string * sem)) : Prop := Forall entry_safe t.

  Lemma sem_safe0_safe f : sem_safe0 f -> sem_safe f.
  Proof. intros H p w s W _. now apply H. Qed.
  Lemma entry_safe_safe e : entry_safe e -> sem_safe (snd e).
  Proof. unfold entry_safe. destruct (needs_env (fst e)); auto using sem_safe0_safe. Qed.
  Lemma entry_safe_safe0 e : entry_safe e -> needs_env (fst e) = false -> sem_safe0 (snd e).
  Proof. unfold entry_safe. intros H E. now rewrite E in H. Qed.

  Lemma ok_pure (f : instr) p w s : ok_state (f s) -> ok_ws (pure f p w s).
  Proof. unfold pure. destruct (f s); cbn; auto. Qed.
  Lemma ok_purep (f : profile -> instr) p w s : ok_state (f p s) -> ok_ws (purep f p w s).
  Proof. unfold purep. destruct (f p s); cbn; auto. Qed.

  Lemma sem_safe_no_panic f : sem_safe f -> forall p w s, wf_state s -> envelope s -> f p w s <> Panic.
  Proof. intros H p w s W E C. specialize (H p w s W E). now rewrite C in H. Qed.
  Lemma sem_safe_preserves f : sem_safe f -> fo_typed -> forall p w s w' s',
    wf_state s -> envelope s -> f p w s = Ok (w', s') -> wf_state s'.
  Proof. intros H FT p w s w' s' W E C. specialize (H p w s W E). rewrite C in H. exact (H FT). Qed.

  Lemma table_safe_app a b : table_safe a -> table_safe b -> table_safe (a ++ b).
  Proof. intros. apply Forall_app; split; assumption. Qed.
End Safe.

(* ---------------------------------------------------------------------- *)
(* i32 facts *)
Lemma wf_z_iff z : wf_z z <-> min32 <= z <= max32.
Proof. unfold wf_z, in_i32. lia. Qed.
Lemma wf_wrap32 z : wf_z (wrap32 z).
Proof. apply wrap32_in. Qed.
Lemma wf_wadd32 a b : wf_z (wadd32 a b). Proof. apply wrap32_in. Qed.
Lemma wf_wsub32 a b : wf_z (wsub32 a b). Proof. apply wrap32_in. Qed.
Lemma wf_wmul32 a b : wf_z (wmul32 a b). Proof. apply wrap32_in. Qed.
Lemma wf_wdiv32 a b : wf_z (wdiv32 a b). Proof. apply wrap32_in. Qed.
Lemma wf_wabs32 a : wf_z (wabs32 a). Proof. apply wrap32_in. Qed.
Lemma wf_len32 {A} (l : list A) : wf_z (len32 l). Proof. apply wrap32_in. Qed.
Lemma wf_usize_as_i32 u : wf_z (usize_as_i32 u). Proof. apply wrap32_in. Qed.
Lemma wf_small z : -2147483648 <= z <= 2147483647 -> wf_z z.
Proof. intros H. apply wf_z_iff. unfold min32, max32. lia. Qed.

Lemma rem_in_i32 a b : wf_z a -> wf_z (Z.rem a b).
Proof.
  rewrite !wf_z_iff. unfold min32, max32. intros H.
  destruct (Z.eq_dec b 0) as [->|Hb]; [rewrite Z.rem_0_r_ext by reflexivity; lia|].
  rewrite (Z.rem_mod a b Hb).
  assert (0 <= Z.abs a mod Z.abs b <= Z.abs a).
  { split; [apply Z.mod_pos_bound; lia|apply Z.mod_le; lia]. }
  destruct (Z.sgn_spec a) as [[? S]|[[? S]|[? S]]]; rewrite S; lia.
Qed.
Lemma wf_wrem32 a b : wf_z a -> wf_z (wrem32 a b).
Proof.
  intros H. unfold wrem32. destruct ((a =? min32) && (b =? -1)); [reflexivity|]. now apply rem_in_i32.
Qed.

(* wrap32 never exceeds a non-negative argument: `len as i32 <= len` *)
Lemma wrap32_le z : 0 <= z -> wrap32 z <= z.
Proof.
  intros H. unfold wrap32, two32.
  destruct (Z.lt_ge_cases z 2147483648).
  - rewrite Z.mod_small; lia.
  - pose proof (Z.mod_pos_bound (z + 2147483648) 4294967296 ltac:(lia)). lia.
Qed.
Lemma wrap32_small z : 0 <= z <= max32 -> wrap32 z = z.
Proof. intros H. apply wrap32_id. unfold in_i32, min32, max32 in *. lia. Qed.

(* ---------------------------------------------------------------------- *)
(* Forall through the list surgery *)
Section ForallOps.
  Context {A : Type}.
  Variable P : A -> Prop.

  Lemma Forall_upd l k a : Forall P l -> P a -> Forall P (upd l k a).
  Proof.
    intros H Ha. revert k. induction H as [|x r Hx Hr IH]; intros [|k]; cbn [upd]; auto.
  Qed.
  Lemma Forall_del l k : Forall P l -> Forall P (del l k).
  Proof.
    intros H. revert k. induction H as [|x r Hx Hr IH]; intros [|k]; cbn [del]; auto.
  Qed.
  Lemma Forall_ins l k a : Forall P l -> P a -> Forall P (ins l k a).
  Proof.
    intros H Ha. revert l H. induction k as [|k IH]; intros l H; cbn [ins]; [auto|].
    destruct H; auto.
  Qed.
  Lemma Forall_nth_error l k a : Forall P l -> nth_error l k = Some a -> P a.
  Proof. intros H E. apply nth_error_In in E. rewrite Forall_forall in H. auto. Qed.
  Lemma Forall_tl l : Forall P l -> Forall P (tl l).
  Proof. intros H. destruct H; cbn [tl]; auto. Qed.
  Lemma Forall_skipn' n l : Forall P l -> Forall P (skipn n l).
  Proof. intros H. revert n. induction H; intros [|n]; cbn [skipn]; auto. Qed.
  Lemma Forall_firstn' n l : Forall P l -> Forall P (firstn n l).
  Proof. intros H. revert n. induction H; intros [|n]; cbn [firstn]; auto. Qed.
  Lemma Forall_removelast l : Forall P l -> Forall P (removelast l).
  Proof. induction 1 as [|x r Hx Hr IH]; cbn [removelast]; auto. destruct r; auto. Qed.
  Lemma Forall_app_intro a b : Forall P a -> Forall P b -> Forall P (a ++ b).
  Proof. intros. apply Forall_app. auto. Qed.
  Lemma Forall_snoc a x : Forall P a -> P x -> Forall P (a ++ [x]).
  Proof. intros. apply Forall_app_intro; auto. Qed.
  Lemma Forall_repeat x n : P x -> Forall P (repeat x n).
  Proof. intros H. induction n; cbn [repeat]; auto. Qed.
  Lemma Forall_filter (f : A -> bool) l : Forall P l -> Forall P (filter f l).
  Proof. induction 1; cbn [filter]; auto. destruct (f x); auto. Qed.
  Lemma Forall_perm l l' : Permutation l l' -> Forall P l -> Forall P l'.
  Proof. intros HP H. eapply Permutation_Forall; eauto. Qed.
End ForallOps.

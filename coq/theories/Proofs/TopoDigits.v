(* C20: checked_pow, digit vectors, and decompose_index = digits. *)
From Coq Require Import ZArith List Bool Lia ZifyBool.
From PushModel Require Import Base.Sx Base.Machine Base.F32 Spec.TopoSpec Model.Topology.
Import ListNotations.
Open Scope Z_scope.

(* ---- checked_pow ---- *)
Lemma pow_ge_two64 b n : 2 <= b -> 64 <= n -> two64 <= b ^ n.
Proof.
  intros Hb Hn. change two64 with (2 ^ 64).
  transitivity (2 ^ n).
  - apply Z.pow_le_mono_r; lia.
  - apply Z.pow_le_mono_l; lia.
Qed.

Lemma checked_pow_spec b n : 0 <= b -> 0 <= n ->
  checked_pow b n = if b ^ n <? two64 then Some (b ^ n) else None.
Proof.
  intros Hb Hn. unfold checked_pow.
  destruct (n =? 0) eqn:E0.
  { apply Z.eqb_eq in E0. subst. reflexivity. }
  apply Z.eqb_neq in E0.
  destruct (b =? 0) eqn:Eb0.
  { apply Z.eqb_eq in Eb0. subst. rewrite Z.pow_0_l by lia. reflexivity. }
  destruct (b =? 1) eqn:Eb1.
  { apply Z.eqb_eq in Eb1. subst. rewrite Z.pow_1_l by lia. reflexivity. }
  apply Z.eqb_neq in Eb0, Eb1.
  destruct (64 <=? n) eqn:E64; [|reflexivity].
  apply Z.leb_le in E64.
  pose proof (pow_ge_two64 b n ltac:(lia) E64).
  destruct (b ^ n <? two64) eqn:E; [lia|reflexivity].
Qed.

Lemma checked_pow_one n : checked_pow 1 n = Some 1.
Proof. unfold checked_pow. destruct (n =? 0); reflexivity. Qed.

Lemma checked_pow_64 b : 2 <= b -> checked_pow b 64 = None.
Proof.
  intros Hb. unfold checked_pow. cbn [Z.eqb].
  destruct (b =? 0) eqn:E0; [lia|]. destruct (b =? 1) eqn:E1; [lia|]. reflexivity.
Qed.

(* the power used at loop position i, `nedge.checked_pow(i as u32)` *)
Lemma checked_pow_at nedge i : 1 <= nedge -> 0 <= i -> nedge ^ i < two64 ->
  checked_pow nedge (usize_as_u32 i) = Some (nedge ^ i).
Proof.
  intros He Hi Hp.
  destruct (Z.eq_dec nedge 1) as [->|Hne].
  { rewrite checked_pow_one, Z.pow_1_l by lia. reflexivity. }
  assert (i < 64).
  { destruct (Z_lt_le_dec i 64); [assumption|].
    pose proof (pow_ge_two64 nedge i ltac:(lia) ltac:(lia)). lia. }
  unfold usize_as_u32, two32. rewrite Z.mod_small by lia.
  rewrite checked_pow_spec by lia.
  destruct (nedge ^ i <? two64) eqn:E; [reflexivity|lia].
Qed.

(* ---- digit vectors ---- *)
Lemma digits_length e d i : length (digits e d i) = d.
Proof. revert i. induction d; intros; cbn [digits length]; [reflexivity|rewrite IHd; reflexivity]. Qed.

Lemma digits_range e d i : 1 <= e -> Forall (fun x => 0 <= x < e) (digits e d i).
Proof.
  intros He. revert i. induction d; intros; cbn [digits]; constructor.
  - apply Z.mod_pos_bound. lia.
  - apply IHd.
Qed.

Lemma digits_coord_ok e d i : 1 <= e -> coord_ok e d (digits e d i).
Proof. intros. split; [apply digits_length|apply digits_range; assumption]. Qed.

Lemma compose_digits e d i : 1 <= e -> 0 <= i < e ^ Z.of_nat d -> compose e (digits e d i) = i.
Proof.
  intros He. revert i. induction d as [|d IH]; intros i Hi.
  - cbn [digits compose]. change (Z.of_nat 0) with 0 in Hi. rewrite Z.pow_0_r in Hi. lia.
  - cbn [digits compose].
    rewrite Nat2Z.inj_succ, Z.pow_succ_r in Hi by lia.
    rewrite IH.
    + pose proof (Z.div_mod i e ltac:(lia)). lia.
    + split; [apply Z.div_pos; lia|].
      apply Z.div_lt_upper_bound; lia.
Qed.

Lemma compose_range e d l : 1 <= e -> coord_ok e d l -> 0 <= compose e l < e ^ Z.of_nat d.
Proof.
  intros He [Hl Hr]. subst d. induction Hr as [|x r Hx Hr IH].
  - cbn [compose length]. change (Z.of_nat 0) with 0. rewrite Z.pow_0_r. lia.
  - cbn [compose length]. rewrite Nat2Z.inj_succ, Z.pow_succ_r by lia. nia.
Qed.

Lemma digits_compose e d l : 1 <= e -> coord_ok e d l -> digits e d (compose e l) = l.
Proof.
  intros He [Hl Hr]. subst d. induction Hr as [|x r Hx Hr IH].
  - reflexivity.
  - cbn [compose length digits]. f_equal.
    + rewrite (Z.mul_comm e), Z_mod_plus_full. apply Z.mod_small. lia.
    + rewrite (Z.mul_comm e), Z.div_add by lia.
      rewrite (Z.div_small x e) by lia. rewrite Z.add_0_l. exact IH.
Qed.

(* ---- the loop of decompose_index computes the digit vector ---- *)
Lemma decompose_go_digits index nedge : 1 <= nedge -> 0 <= index ->
  forall k i0, 0 <= i0 -> nedge ^ (i0 + Z.of_nat k - 1) < two64 ->
    decompose_go index nedge k i0 = Ok (Some (digits nedge k (index / nedge ^ i0))).
Proof.
  intros He Hx. induction k as [|k IH]; intros i0 Hi0 Hp; cbn [decompose_go digits].
  - reflexivity.
  - rewrite Nat2Z.inj_succ in Hp.
    assert (Hpi : nedge ^ i0 < two64).
    { eapply Z.le_lt_trans; [|exact Hp]. apply Z.pow_le_mono_r; lia. }
    rewrite checked_pow_at by lia.
    assert (0 < nedge ^ i0) by (apply Z.pow_pos_nonneg; lia).
    destruct ((nedge ^ i0 =? 0) || (nedge =? 0)) eqn:E; [lia|].
    rewrite IH.
    + do 3 f_equal. rewrite Z.pow_add_r, Z.pow_1_r by lia.
      rewrite Z.div_div by lia. reflexivity.
    + lia.
    + replace (i0 + 1 + Z.of_nat k - 1) with (i0 + Z.succ (Z.of_nat k) - 1) by lia. exact Hp.
Qed.

Lemma decompose_index_digits index nedge ndim :
  1 <= nedge -> 0 <= index -> 0 <= ndim -> nedge ^ (ndim - 1) < two64 ->
  decompose_index index nedge ndim = Ok (Some (digits nedge (Z.to_nat ndim) index)).
Proof.
  intros He Hx Hd Hp. unfold decompose_index.
  rewrite decompose_go_digits; try lia.
  - rewrite Z.pow_0_r, Z.div_1_r. reflexivity.
  - rewrite Z2Nat.id by lia. exact Hp.
Qed.

(* beyond 64 positions the power overflows and the function answers None *)
Lemma decompose_go_overflow index nedge : 2 <= nedge ->
  forall k i0, 0 <= i0 <= 64 -> 65 <= i0 + Z.of_nat k ->
    decompose_go index nedge k i0 = Ok None.
Proof.
  intros He. induction k as [|k IH]; intros i0 Hi0 Hk.
  - cbn [Z.of_nat] in Hk. lia.
  - cbn [decompose_go]. unfold usize_as_u32, two32. rewrite Z.mod_small by lia.
    destruct (Z.eq_dec i0 64) as [->|Hne].
    + rewrite checked_pow_64 by lia. reflexivity.
    + destruct (checked_pow nedge i0) as [cp|] eqn:Ecp; [|reflexivity].
      destruct ((cp =? 0) || (nedge =? 0)) eqn:E.
      * rewrite checked_pow_spec in Ecp by lia.
        assert (0 < nedge ^ i0) by (apply Z.pow_pos_nonneg; lia).
        destruct (nedge ^ i0 <? two64); [|discriminate]. injection Ecp as <-. lia.
      * rewrite IH; [reflexivity|lia|lia].
Qed.

(* ---- the bijection, stated on the model function ---- *)
Lemma digits_bijection_lemma e d :
  1 <= e -> 0 <= d -> e ^ (d - 1) < two64 ->
  (forall i, 0 <= i < e ^ d ->
     exists l, decompose_index i e d = Ok (Some l) /\ coord_ok e (Z.to_nat d) l /\ compose e l = i) /\
  (forall l, coord_ok e (Z.to_nat d) l ->
     0 <= compose e l < e ^ d /\ decompose_index (compose e l) e d = Ok (Some l)).
Proof.
  intros He Hd Hp. split.
  - intros i Hi. exists (digits e (Z.to_nat d) i).
    split; [apply decompose_index_digits; lia|].
    split; [apply digits_coord_ok; lia|].
    apply compose_digits; [lia|]. rewrite Z2Nat.id by lia. exact Hi.
  - intros l Hl.
    pose proof (compose_range e _ l He Hl) as Hr. rewrite Z2Nat.id in Hr by lia.
    split; [exact Hr|].
    rewrite decompose_index_digits by lia.
    rewrite digits_compose by assumption. reflexivity.
Qed.

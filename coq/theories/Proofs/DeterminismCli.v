(* C14: the command-line front end reaches the library's final stacks.
   The CLI state differs from the library state only by the binding BIN -> argv[0].
   (a) every registry entry except the DEFINE family and CODE.DEFINITION neither
       reads nor writes the binding table (second table walk);
   (b) DEFINE / CODE.DEFINITION / the interpreter's identifier lookup use the table
       only at names taken from the state, and BIN is none of them as long as BIN
       occurs nowhere in the state and no name-synthesising instruction runs. *)
From Coq Require Import ZArith String List Bool Lia ZifyBool.
From PushModel Require Import Base.Sx Base.Machine Base.ListOps Base.F32 Model.Item Model.GraphT Model.State
  Model.InstrBase Model.IScalar Model.ICode Model.IVector Model.IList Model.IIo Model.IGraph
  Model.Topology Model.INeighbor Model.RandomGen Model.IRand
  Model.Registry Model.Interp Model.RegistryVec Model.RegistryListIo Model.RegistryGraph Model.RegistryNbr
  Model.RegistryRand Model.RegistryAll Model.Cli
  Spec.DetSpec Proofs.NameProofs Proofs.DeterminismItems Proofs.DeterminismInv Proofs.DeterminismWalk
  Proofs.Determinism.
Import ListNotations.
Open Scope Z_scope.
Open Scope string_scope.

(* ---------------------------------------------------------------------- *)
(* the relation between the CLI state and the library state *)
Definition agree_off (k : str) (b1 b2 : list (str * item)) : Prop :=
  forall n, n <> k -> bind_get b1 n = bind_get b2 n.

Definition bin_sim (sc sl : state) : Prop :=
  exists bc, sc = set_bind sl bc /\ agree_off BIN bc (st_bind sl).

Definition is_bin : str -> bool := name_in [ "BIN" ].
Lemma is_bin_false n : is_bin n = false -> n <> BIN.
Proof.
  intros H E. subst. assert (is_bin BIN = true) by reflexivity. congruence.
Qed.

Lemma agree_off_set k b1 b2 n v : agree_off k b1 b2 -> agree_off k (bind_set b1 n v) (bind_set b2 n v).
Proof.
  intros A m Hm. destruct (str_eqb m n) eqn:E.
  - apply str_eqb_eq in E. subst. now rewrite !bind_get_set_same.
  - assert (m <> n) by (intros ->; now rewrite str_eqb_refl in E).
    rewrite !bind_get_set_other by assumption. now apply A.
Qed.

Lemma set_bind_same s : set_bind s (st_bind s) = s.
Proof. destruct s; reflexivity. Qed.
Lemma set_bind_set_bind s a b : set_bind (set_bind s a) b = set_bind s b.
Proof. destruct s; reflexivity. Qed.
Lemma st_bind_set_bind s b : st_bind (set_bind s b) = b.
Proof. destruct s; reflexivity. Qed.

(* the relation a registry entry must keep *)
Definition sim_out (a b : world * state) : Prop := fst a = fst b /\ bin_sim (snd a) (snd b).
Definition entry_sim (e : string * sem) : Prop :=
  forall p w sc sl, bin_sim sc sl -> nok is_bin (st_name sl) ->
    res_rel sim_out (snd e p w sc) (snd e p w sl).

(* ---------------------------------------------------------------------- *)
(* (a) obliviousness to the binding table *)
Definition instr_obl (g : instr) : Prop :=
  forall s b, g (set_bind s b) = rmap (fun s' => set_bind s' b) (g s).
Definition sem_obl (f : sem) : Prop :=
  forall p w s b, f p w (set_bind s b) = rmap (fun r => (fst r, set_bind (snd r) b)) (f p w s).

Lemma pure_obl g : instr_obl g -> sem_obl (pure g).
Proof. intros H p w s b. unfold pure. rewrite H. destruct (g s); reflexivity. Qed.
Lemma purep_obl g : (forall p, instr_obl (g p)) -> sem_obl (purep g).
Proof. intros H p w s b. unfold purep. rewrite H. destruct (g p s); reflexivity. Qed.

(* an oblivious entry leaves the table as it was *)
Lemma sem_obl_bind f : sem_obl f -> forall p w s w' s', f p w s = Ok (w', s') -> st_bind s' = st_bind s.
Proof.
  intros H p w s w' s' E. pose proof (H p w s (st_bind s)) as G. rewrite set_bind_same, E in G.
  cbn in G. inversion G as [G1]. rewrite G1 at 1. now rewrite st_bind_set_bind.
Qed.

Lemma obl_entry_sim n f : sem_obl f -> entry_sim (n, f).
Proof.
  intros H p w sc sl (bc & -> & A) _. cbn [snd]. rewrite H.
  destruct (f p w sl) as [[w1 s1]| |] eqn:E; cbn; auto.
  unfold sim_out; cbn. split; [reflexivity|]. exists bc. split; [reflexivity|].
  now rewrite (sem_obl_bind _ H _ _ _ _ _ E).
Qed.

Ltac innermost_destruct t :=
  match t with
  | context [match ?y with _ => _ end] =>
      lazymatch y with
      | context [match _ with _ => _ end] => fail
      | _ => destruct y eqn:?
      end
  end.

Ltac obl_run :=
  cbv beta iota zeta; unfold record_pos; st_cbn; cbn [rbind rmap];
  first
    [ reflexivity
    | lazymatch goal with
      | |- (match ?x with _ => _ end) = _ => first [ innermost_destruct x | destruct x eqn:? ]; obl_run
      | |- rbind ?r _ = _ => destruct r eqn:?; obl_run
      | |- ?lhs = _ => let h := head_of lhs in unfold h; obl_run
      end ].

Ltac obl_tac :=
  let s := fresh "s" in let b := fresh "b" in
  intros s b; destruct s as [sb sc se sf six si sn sbv sfv siv sin sout sg sbd scf sq ssd];
  obl_run.

Ltac sem_obl_tac :=
  let p := fresh "p" in let w := fresh "w" in let s := fresh "s" in let b := fresh "b" in
  intros p w s b; destruct s as [sb sc se sf six si sn sbv sfv siv sin sout sg sbd scf sq ssd];
  obl_run.

(* ---------------------------------------------------------------------- *)
(* (b) the entries that use the table *)
Section Define.
  Context {FO : FloatOps}.

  (* T.DEFINE over a lens that does not involve the table or the NAME stack *)
  Definition lens_plain {A} (get : state -> list A) (set : state -> list A -> state) : Prop :=
    (forall s b, get (set_bind s b) = get s) /\
    (forall s b v, set (set_bind s b) v = set_bind (set s v) b) /\
    (forall s v, st_bind (set s v) = st_bind s) /\
    (forall s v, get (set_name s v) = get s) /\
    (forall s v u, set (set_name s v) u = set_name (set s u) v).

  Lemma set_name_set_bind s v b : set_name (set_bind s b) v = set_bind (set_name s v) b.
  Proof. destruct s; reflexivity. Qed.
  Lemma st_name_set_bind s b : st_name (set_bind s b) = st_name s.
  Proof. destruct s; reflexivity. Qed.
  Lemma st_bind_set_name s v : st_bind (set_name s v) = st_bind s.
  Proof. destruct s; reflexivity. Qed.

  Lemma define_entry_sim {A} n (get : state -> list A) set mk :
    lens_plain get set -> entry_sim (n, pure (g_define get set mk)).
  Proof.
    intros (L1 & L2 & L3 & L4 & L5) p w sc sl (bc & -> & Ag) Hn. cbn [snd]. unfold pure, g_define.
    rewrite st_name_set_bind. destruct (st_name sl) as [|k nr] eqn:En.
    - cbn. unfold sim_out; cbn. split; [reflexivity|]. exists bc. auto.
    - rewrite set_name_set_bind, L1. destruct (get (set_name sl nr)) as [|v vr] eqn:Eg; cbn [rbind].
      + cbn. unfold sim_out; cbn. split; [reflexivity|]. exists bc. split; [reflexivity|].
        now rewrite st_bind_set_name.
      + cbn. unfold sim_out; cbn. split; [reflexivity|].
        rewrite L2, set_bind_set_bind.
        exists (bind_set bc k (mk v)). split; [now rewrite set_bind_set_bind|].
        rewrite st_bind_set_bind. now apply agree_off_set.
  Qed.

  Lemma definition_entry_sim n : entry_sim (n, pure code_definition).
  Proof.
    intros p w sc sl (bc & -> & Ag) Hn. cbn [snd]. unfold pure, code_definition.
    rewrite st_name_set_bind. destruct (st_name sl) as [|k nr] eqn:En.
    - cbn. unfold sim_out; cbn. split; [reflexivity|]. exists bc. auto.
    - rewrite set_name_set_bind, st_bind_set_bind, st_bind_set_name.
      inversion Hn as [|? ? Hk _]; subst. apply is_bin_false in Hk. rewrite (Ag _ Hk).
      destruct (bind_get (st_bind sl) k) as [t|]; cbn; unfold sim_out; cbn; (split; [reflexivity|]);
        exists bc; destruct sl; (split; [reflexivity|exact Ag]).
  Qed.

  Ltac lens_tac := repeat split; intros; match goal with s : state |- _ => destruct s; reflexivity end.

  (* LIST.ADD / LIST.SET pass the whole state to load_items *)
  Lemma take_id_obl sid s b :
    take_id sid (set_bind s b) = option_map (fun r => (fst r, set_bind (snd r) b)) (take_id sid s).
  Proof.
    destruct s as [sb sc se sf six si sn sbv sfv siv sin sout sg sbd scf sq ssd]. unfold take_id. st_cbn.
    repeat match goal with |- (if ?c then _ else _) = _ => destruct c end; try reflexivity;
      match goal with |- (match ?l with _ => _ end) = _ => destruct l; reflexivity end.
  Qed.
  Lemma load_ids_obl ids : forall s b,
    load_ids ids (set_bind s b) = (fst (load_ids ids s), set_bind (snd (load_ids ids s)) b).
  Proof.
    induction ids as [|sid r IH]; intros s b; cbn [load_ids]; [reflexivity|].
    rewrite take_id_obl. destruct (take_id sid s) as [[x s1]|]; cbn [option_map fst snd]; [|apply IH].
    rewrite IH. destruct (load_ids r s1); reflexivity.
  Qed.
  Lemma set_ivec_set_bind s v b : set_ivec (set_bind s b) v = set_bind (set_ivec s v) b.
  Proof. destruct s; reflexivity. Qed.
  Lemma load_items_obl s b :
    load_items (set_bind s b) = option_map (fun r => (fst r, set_bind (snd r) b)) (load_items s).
  Proof.
    unfold load_items. replace (st_ivec (set_bind s b)) with (st_ivec s) by (destruct s; reflexivity).
    destruct (st_ivec s) as [|ids r]; [reflexivity|]. cbn [option_map]. now rewrite set_ivec_set_bind, load_ids_obl.
  Qed.
  Lemma list_add_obl : instr_obl list_add.
  Proof.
    intros s b. unfold list_add. rewrite load_items_obl.
    destruct (load_items s) as [[xs s1]|]; cbn [option_map fst snd rmap]; [|reflexivity].
    destruct s1; reflexivity.
  Qed.
  Lemma list_set_obl : instr_obl list_set.
  Proof.
    intros s b. unfold list_set. replace (st_int (set_bind s b)) with (st_int s) by (destruct s; reflexivity).
    destruct (st_int s) as [|idx r]; [reflexivity|].
    replace (set_int (set_bind s b) r) with (set_bind (set_int s r) b) by (destruct s; reflexivity).
    rewrite load_items_obl.
    destruct (load_items (set_int s r)) as [[xs s2]|]; cbn [option_map fst snd rmap]; [|reflexivity].
    destruct s2; reflexivity.
  Qed.

  Ltac sim_entry0 :=
    first
      [ apply define_entry_sim; lens_tac
      | apply definition_entry_sim
      | apply obl_entry_sim;
        first [ apply pure_obl; first [ exact list_add_obl | exact list_set_obl | obl_tac ]
              | apply purep_obl; intro; obl_tac
              | sem_obl_tac ] ].

  (* the RAND family reads the binding table (CODE.RAND, NAME.RANDBOUNDNAME) and is
     outside the comparison anyway: its entries owe nothing *)
  Ltac sim_entry :=
    cbn [fst];
    first
      [ let H := fresh in intros H; vm_compute in H; discriminate H
      | intros _; sim_entry0 ].


  Theorem full_table_sim : Forall (fun e => lit_in rand_names (fst e) = false -> entry_sim e) full_table.
  Proof.
    unfold full_table, base_table, tbl_core, tbl_boolean, tbl_integer, tbl_float, tbl_name, tbl_code, tbl_exec, tbl_index,
      tbl_bvec, tbl_ivec, tbl_fvec, vec_stack_family, stack_family, tbl_list, tbl_io, tbl_graph, tbl_nbr, tbl_rand.
    cbn [map all_ginstr ginstr_name ginstr_sem].
    walk_with sim_entry.
  Qed.
End Define.

(* ---------------------------------------------------------------------- *)
(* the interpreter step and the run *)
(* what the compared programs must not mention: the name-synthesising instructions and the RAND family *)
Definition cli_excluded : list string := name_synth_names ++ rand_names.
Definition cli_qi : str -> bool := name_in cli_excluded.
Lemma cli_except_ok : except_ok cli_qi.
Proof. unfold except_ok, closure_exceptions. repeat constructor. Qed.
Lemma cli_rearm_ok : rearm_ok cli_qi.
Proof. unfold rearm_ok, rearm_names. repeat constructor. Qed.
Lemma cli_synth_ok : synth_ok cli_qi is_bin.
Proof. right. unfold name_synth_names. repeat constructor. Qed.

Section CliRun.
  Context {FO : FloatOps}.
  Variable p : profile.

  Definition step_out (a b : bool * world * state) : Prop :=
    fst (fst a) = fst (fst b) /\ snd (fst a) = snd (fst b) /\ bin_sim (snd a) (snd b).

  Lemma push_lit_set_bind s v b : push_lit (set_bind s b) v = set_bind (push_lit s v) b.
  Proof. destruct s, v; reflexivity. Qed.

  Lemma step_sim w sc sl : bin_sim sc sl -> sinv cli_qi is_bin sl ->
    res_rel step_out (step p full_registry w sc) (step p full_registry w sl).
  Proof.
    intros (bc & -> & Ag) (Ie & Ic & Ib & In). unfold step.
    replace (st_exec (set_bind sl bc)) with (st_exec sl) by (destruct sl; reflexivity).
    destruct (st_exec sl) as [|t r] eqn:Ee.
    { cbn. unfold step_out; cbn. repeat split. exists bc. auto. }
    replace (set_exec (set_bind sl bc) r) with (set_bind (set_exec sl r) bc) by (destruct sl; reflexivity).
    assert (Ag1 : agree_off BIN bc (st_bind (set_exec sl r))) by (destruct sl; exact Ag).
    inversion Ie as [|? ? Ht Hr]; subst.
    destruct t as [l|n|v|n].
    - cbn. unfold step_out; cbn. repeat split. exists bc. destruct sl; cbn in *. split; [reflexivity|exact Ag].
    - destruct (lookup full_registry n) as [f|] eqn:L.
      + destruct (lookup_in_named _ _ _ L) as (k & Hin & ->).
        assert (NR : lit_in rand_names k = false).
        { apply lit_in_name_in. unfold iok in Ht. cbn [occurs] in Ht. unfold cli_qi, cli_excluded in Ht.
          rewrite name_in_app in Ht. now apply orb_false_iff in Ht as [_ Ht]. }
        pose proof (proj1 (Forall_forall _ _) full_table_sim _ Hin NR p w (set_bind (set_exec sl r) bc) (set_exec sl r)) as S.
        cbn [snd] in S.
        assert (B : bin_sim (set_bind (set_exec sl r) bc) (set_exec sl r)) by (exists bc; auto).
        assert (N : nok is_bin (st_name (set_exec sl r))) by (destruct sl; exact In).
        specialize (S B N).
        destruct (f p w (set_bind (set_exec sl r) bc)) as [[w1 s1]| |], (f p w (set_exec sl r)) as [[w2 s2]| |];
          cbn in S |- *; try tauto.
        destruct S as [S1 S2]. cbn in S1, S2. unfold step_out; cbn. auto.
      + cbn. unfold step_out; cbn. repeat split. exists bc. auto.
    - cbn. unfold step_out; cbn. repeat split. rewrite push_lit_set_bind. exists bc. split; [reflexivity|].
      destruct sl, v; exact Ag.
    - replace (st_quote (set_bind (set_exec sl r) bc)) with (st_quote (set_exec sl r)) by (destruct sl; reflexivity).
      destruct (st_quote (set_exec sl r)).
      + cbn. unfold step_out; cbn. repeat split. exists bc. destruct sl; cbn in *. split; [reflexivity|exact Ag].
      + rewrite st_bind_set_bind. apply iok_name_inv in Ht. apply is_bin_false in Ht. rewrite (Ag1 _ Ht).
        destruct (bind_get (st_bind (set_exec sl r)) n) as [b|]; cbn; unfold step_out; cbn; repeat split;
          exists bc; destruct sl; cbn in *; (split; [reflexivity|exact Ag]).
  Qed.

  Lemma run_loop_cli clock fuel : forall c w sc sl w' sl',
    bin_sim sc sl -> sinv cli_qi is_bin sl ->
    run_loop p full_registry clock fuel c w sl = Ok (NoErrors, w', sl') ->
    exists k sc', steps p full_registry k w sc = Ok (true, w', sc') /\ bin_sim sc' sl'.
  Proof.
    induction fuel as [|f IH]; intros c w sc sl w' sl' B I H; cbn [run_loop] in H; [discriminate|].
    destruct (_ <? c)%Z; [discriminate|]. destruct (_ <? clock c)%Z; [discriminate|].
    pose proof (step_sim w sc sl B I) as S.
    destruct (step p full_registry w sl) as [[[f1 w1] s1]| |] eqn:E1; cbn [rbind] in H; try discriminate.
    destruct (step p full_registry w sc) as [[[f2 w2] s2]| |] eqn:E2; cbn in S; try tauto.
    destruct S as (S1 & S2 & S3). cbn in S1, S2, S3. subst f2 w2.
    pose proof (step_keeps _ _ cli_rearm_ok cli_synth_ok cli_except_ok _ _ _ _ _ _ I E1) as I1.
    destruct f1.
    - inversion H; subst. exists 1%nat, s2. cbn [steps]. rewrite E2. cbn. auto.
    - destruct (_ <? _)%Z; [discriminate|].
      destruct (IH _ _ _ _ _ _ S3 I1 H) as (k & sc' & K1 & K2).
      exists (S k), sc'. cbn [steps]. rewrite E2. cbn [rbind]. auto.
  Qed.

  Lemma cli_init_sim arg0 s0 : bin_sim (cli_init arg0 s0) (copy_to_code s0).
  Proof.
    unfold cli_init. eexists. split; [reflexivity|].
    intros n Hn. now apply bind_get_set_other.
  Qed.

  (* The CLI, started on what the parser left, stops after finitely many steps in a
     state that equals the library's final state in every field but the binding
     table, and the tables agree on every name but BIN. *)
  Theorem cli_equals_library_lemma : forall clock w arg0 s0 w' sl,
    mentions_name_b [ "BIN" ] s0 = false ->
    mentions_b cli_excluded s0 = false ->
    run p full_registry clock w s0 = Ok (NoErrors, w', sl) ->
    exists k sc,
      cli_watch p full_registry k w arg0 s0 = Ok (true, w', sc) /\
      sc = set_bind sl (st_bind sc) /\
      (forall n, n <> BIN -> bind_get (st_bind sc) n = bind_get (st_bind sl) n).
  Proof.
    intros clock w arg0 s0 w' sl HB HS H.
    assert (I : sinv cli_qi is_bin s0).
    { apply sinv_iff. unfold mentions_name_b, mentions_b in *.
      destruct (occurs_state cli_qi is_bin s0) eqn:E; [|reflexivity]. exfalso.
      unfold occurs_state in *. rewrite !orb_false_iff in HB, HS. rewrite !orb_true_iff in E.
      assert (G : forall l, occurs_list cli_qi nowhere l = false -> occurs_list nowhere is_bin l = false ->
                            occurs_list cli_qi is_bin l = false).
      { clear. intros l. unfold occurs_list. induction l as [|x r IHl]; cbn [existsb]; [auto|].
        rewrite !orb_false_iff. intros [A1 A2] [B1 B2]. split; [|auto]. clear -A1 B1.
        induction x as [l IH|n|v|n] using item_ind'; try assumption.
        rewrite occurs_list_unfold in *. unfold occurs_list in *.
        induction l as [|c r IHl]; cbn [existsb] in *; [reflexivity|].
        inversion IH; subst. apply orb_false_iff in A1 as [? ?], B1 as [? ?]. apply orb_false_iff. split; auto. }
      destruct HB as [[[B1 B2] B3] B4], HS as [[[S1 S2] S3] S4].
      destruct E as [[[E|E]|E]|E]; [rewrite G in E| rewrite G in E|rewrite G in E|]; try discriminate; try assumption.
      unfold is_bin in E. congruence. }
    unfold run in H. apply copy_to_code_sinv in I.
    destruct (run_loop_cli _ _ _ _ _ _ _ _ (cli_init_sim arg0 s0) I H) as (k & sc & K & (bc & -> & Ag)).
    exists k, (set_bind sl bc). split; [exact K|]. rewrite st_bind_set_bind. split; [reflexivity|exact Ag].
  Qed.
End CliRun.

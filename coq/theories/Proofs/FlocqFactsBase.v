(* Facts about the executable float instance (Base/F32Flocq.v, Flocq binary32):
   the bridge between the bit-pattern level of the model ([f32 := Z]) and Flocq's
   real-number semantics.  A bit pattern [z] denotes the binary32 [of_bits z]; for
   a finite one, [RV z] is its real value.  Every arithmetic operation of the
   instance gets a lemma "operands finite, rounded result below 2^128 => result
   finite with value round(exact result)".

   This file (like Base/F32Flocq.v) depends on the classical axioms of Coq's Reals
   library that Flocq is built on; nothing else. *)
From Coq Require Import ZArith List Bool Lia Lra Reals.
From Flocq Require Import IEEE754.BinarySingleNaN IEEE754.Binary IEEE754.Bits Core.
From PushModel Require Import Base.Sx Base.F32 Base.F32Flocq.
Open Scope Z_scope.

Notation fexp32 := (FLT_exp (-149) 24).
Notation rnd32 := (round radix2 fexp32 ZnearestE).
Notation fmt32 := (generic_format radix2 fexp32).

#[global] Instance prec32_gt_0 : Prec_gt_0 24 := Hprec32.
#[global] Instance valid_fexp32 : Valid_exp fexp32 := FLT_exp_valid (-149) 24.

Definition RV (z : Z) : R := B2R 24 128 (of_bits z).
Definition Fin (z : Z) : Prop := is_finite 24 128 (of_bits z) = true.
Definition Sgn (z : Z) : bool := Bsign 24 128 (of_bits z).

(* ---- bit patterns ---- *)
Lemma of_bits_canon (x : binary32) : is_nan 24 128 x = false -> of_bits (b32_canon x) = x.
Proof.
  intros H. unfold of_bits, b32_canon.
  assert (E : match x with B754_nan _ _ _ _ _ => nan_bits | _ => bits_of_b32 x end = bits_of_b32 x)
    by (destruct x; try reflexivity; discriminate).
  rewrite E. unfold bits_of_b32, b32_of_bits.
  pose proof (bits_of_binary_float_range 23 8 eq_refl eq_refl x) as Hr.
  change (2 ^ (23 + 8 + 1)) with 4294967296 in Hr.
  rewrite Z.mod_small by exact Hr.
  exact (binary_float_of_bits_of_binary_float 23 8 eq_refl eq_refl eq_refl x).
Qed.

Lemma of_bits_mod z : of_bits (z mod 4294967296) = of_bits z.
Proof. unfold of_bits. now rewrite Z.mod_mod by lia. Qed.

Lemma canon_eq (x y : binary32) : x = y -> b32_canon x = b32_canon y.
Proof. now intros ->. Qed.

(* two finite floats with the same value and sign are the same float *)
Lemma canon_eq_fin (x y : binary32) :
  is_finite 24 128 x = true -> is_finite 24 128 y = true ->
  B2R 24 128 x = B2R 24 128 y -> Bsign 24 128 x = Bsign 24 128 y -> b32_canon x = b32_canon y.
Proof. intros. apply canon_eq. now apply B2R_Bsign_inj. Qed.

Lemma fin_not_nan (x : binary32) : is_finite 24 128 x = true -> is_nan 24 128 x = false.
Proof. now destruct x. Qed.

(* ---- the format ---- *)
Lemma fmt_int n : Z.abs n < 16777216 -> fmt32 (IZR n).
Proof.
  intros H. apply generic_format_FLT. exists (Float radix2 n 0).
  - unfold F2R. cbn [Fnum Fexp bpow]. now rewrite Rmult_1_r.
  - cbn [Fnum]. exact H.
  - cbn [Fexp]. lia.
Qed.

Lemma fmt_pow2 e : -149 <= e -> fmt32 (bpow radix2 e).
Proof. intros H. now apply generic_format_FLT_bpow. Qed.

Lemma rnd_le x y : (x <= y)%R -> (rnd32 x <= rnd32 y)%R.
Proof. apply round_le; auto with typeclass_instances. Qed.

Lemma rnd_id x : fmt32 x -> rnd32 x = x.
Proof. apply round_generic; auto with typeclass_instances. Qed.

Lemma rnd_int n : Z.abs n < 16777216 -> rnd32 (IZR n) = IZR n.
Proof. intros. now apply rnd_id, fmt_int. Qed.

Lemma rnd_0 : rnd32 0 = 0%R.
Proof. apply round_0; auto with typeclass_instances. Qed.

(* a rounded value between two format values *)
Lemma rnd_between lo hi x : fmt32 lo -> fmt32 hi -> (lo <= x <= hi)%R -> (lo <= rnd32 x <= hi)%R.
Proof.
  intros Fl Fh [H1 H2]. split.
  - rewrite <- (rnd_id lo Fl). now apply rnd_le.
  - rewrite <- (rnd_id hi Fh). now apply rnd_le.
Qed.

Lemma pow2_128 : bpow radix2 128 = IZR (2 ^ 128).
Proof. reflexivity. Qed.

(* no overflow as soon as the rounded value is bounded by an integer below 2^128 *)
Lemma no_ovf x (b : Z) : (Rabs x <= IZR b)%R -> b < 2 ^ 128 ->
  Rlt_bool (Rabs x) (bpow radix2 128) = true.
Proof.
  intros H Hb. apply Rlt_bool_true. rewrite pow2_128. apply Rle_lt_trans with (1 := H). now apply IZR_lt.
Qed.

Lemma abs_between lo hi x : (lo <= x <= hi)%R -> (Rabs x <= Rmax (Rabs lo) (Rabs hi))%R.
Proof.
  intros [H1 H2]. unfold Rmax. destruct (Rle_dec (Rabs lo) (Rabs hi)) as [H|H];
  unfold Rabs in *; repeat destruct Rcase_abs; lra.
Qed.

(* ---- the arithmetic operations ---- *)
Lemma fl_mul_ok a b (bd : Z) : Fin a -> Fin b ->
  (Rabs (rnd32 (RV a * RV b)) <= IZR bd)%R -> bd < 2 ^ 128 ->
  Fin (fl_mul a b) /\ RV (fl_mul a b) = rnd32 (RV a * RV b) /\ Sgn (fl_mul a b) = xorb (Sgn a) (Sgn b).
Proof.
  intros Fa Fb Hb Hbd. unfold Fin, RV, Sgn, fl_mul, b32_mult in *.
  match goal with |- context [Bmult _ _ ?hp ?hm ?nan ?m ?x ?y] =>
    pose proof (Bmult_correct 24 128 hp hm nan m x y) as H; set (r := Bmult _ _ hp hm nan m x y) in * end.
  change (SpecFloat.fexp 24 128) with fexp32 in H. change (round_mode mode_NE) with ZnearestE in H.
  rewrite (no_ovf _ bd Hb Hbd) in H. destruct H as (H1 & H2 & H3).
  rewrite Fa, Fb in H2. cbn [andb] in H2.
  pose proof (fin_not_nan r H2) as Hn. rewrite (of_bits_canon r Hn). auto.
Qed.

Ltac fix_modes H :=
  change (SpecFloat.fexp 24 128) with fexp32 in H; change (round_mode mode_NE) with ZnearestE in H.

Lemma fl_add_ok a b (bd : Z) : Fin a -> Fin b ->
  (Rabs (rnd32 (RV a + RV b)) <= IZR bd)%R -> bd < 2 ^ 128 ->
  Fin (fl_add a b) /\ RV (fl_add a b) = rnd32 (RV a + RV b) /\
  Sgn (fl_add a b) = match Rcompare (RV a + RV b) 0 with Eq => Sgn a && Sgn b | Lt => true | Gt => false end.
Proof.
  intros Fa Fb Hb Hbd. unfold Fin, RV, Sgn, fl_add, b32_plus in *.
  match goal with |- context [Bplus _ _ ?hp ?hm ?nan ?m ?x ?y] =>
    pose proof (Bplus_correct 24 128 hp hm nan m x y Fa Fb) as H; set (r := Bplus _ _ hp hm nan m x y) in * end.
  fix_modes H. rewrite (no_ovf _ bd Hb Hbd) in H. destruct H as (H1 & H2 & H3).
  pose proof (fin_not_nan r H2) as Hn. rewrite (of_bits_canon r Hn). auto.
Qed.

Lemma fl_sub_ok a b (bd : Z) : Fin a -> Fin b ->
  (Rabs (rnd32 (RV a - RV b)) <= IZR bd)%R -> bd < 2 ^ 128 ->
  Fin (fl_sub a b) /\ RV (fl_sub a b) = rnd32 (RV a - RV b) /\
  Sgn (fl_sub a b) = match Rcompare (RV a - RV b) 0 with Eq => Sgn a && negb (Sgn b) | Lt => true | Gt => false end.
Proof.
  intros Fa Fb Hb Hbd. unfold Fin, RV, Sgn, fl_sub, b32_minus in *.
  match goal with |- context [Bminus _ _ ?hp ?hm ?nan ?m ?x ?y] =>
    pose proof (Bminus_correct 24 128 hp hm nan m x y Fa Fb) as H; set (r := Bminus _ _ hp hm nan m x y) in * end.
  fix_modes H. rewrite (no_ovf _ bd Hb Hbd) in H. destruct H as (H1 & H2 & H3).
  pose proof (fin_not_nan r H2) as Hn. rewrite (of_bits_canon r Hn). auto.
Qed.

Lemma fl_div_ok a b (bd : Z) : Fin a -> RV b <> 0%R ->
  (Rabs (rnd32 (RV a / RV b)) <= IZR bd)%R -> bd < 2 ^ 128 ->
  Fin (fl_div a b) /\ RV (fl_div a b) = rnd32 (RV a / RV b) /\ Sgn (fl_div a b) = xorb (Sgn a) (Sgn b).
Proof.
  intros Fa Nb Hb Hbd. unfold Fin, RV, Sgn, fl_div, b32_div in *.
  match goal with |- context [Bdiv _ _ ?hp ?hm ?nan ?m ?x ?y] =>
    pose proof (Bdiv_correct 24 128 hp hm nan m x y Nb) as H; set (r := Bdiv _ _ hp hm nan m x y) in * end.
  fix_modes H. rewrite (no_ovf _ bd Hb Hbd) in H. destruct H as (H1 & H2 & H3).
  rewrite Fa in H2.
  pose proof (fin_not_nan r H2) as Hn. rewrite (of_bits_canon r Hn). auto.
Qed.

Lemma fl_sqrt_ok a : Fin a -> Sgn a = false ->
  Fin (fl_sqrt a) /\ RV (fl_sqrt a) = rnd32 (sqrt (RV a)) /\ Sgn (fl_sqrt a) = false.
Proof.
  intros Fa Sa. unfold Fin, RV, Sgn, fl_sqrt, b32_sqrt in *.
  match goal with |- context [Bsqrt _ _ ?hp ?hm ?nan ?m ?x] =>
    pose proof (Bsqrt_correct 24 128 hp hm nan m x) as H; set (r := Bsqrt _ _ hp hm nan m x) in * end.
  fix_modes H. destruct H as (H1 & H2 & H3).
  assert (F : is_finite 24 128 r = true).
  { rewrite H2. destruct (of_bits a) as [s|s|s pl e|s m e e0]; try discriminate; try reflexivity.
    cbn [Bsign] in Sa. now rewrite Sa. }
  pose proof (fin_not_nan r F) as Hn. rewrite (of_bits_canon r Hn). rewrite (H3 Hn). auto.
Qed.

Lemma F2R_int z : F2R (Float radix2 z 0) = IZR z.
Proof. unfold F2R. cbn [Fnum Fexp bpow]. now rewrite Rmult_1_r. Qed.

Lemma norm32_ok m e (sz : bool) (bd : Z) :
  (Rabs (rnd32 (F2R (Float radix2 m e))) <= IZR bd)%R -> bd < 2 ^ 128 ->
  let r := b32_canon (norm32 m e sz) in
  Fin r /\ RV r = rnd32 (F2R (Float radix2 m e)) /\
  Sgn r = match Rcompare (F2R (Float radix2 m e)) 0 with Eq => sz | Lt => true | Gt => false end.
Proof.
  intros Hb Hbd. cbv zeta. unfold Fin, RV, Sgn, norm32.
  pose proof (binary_normalize_correct 24 128 Hprec32 Hmax32 mode_NE m e sz) as H.
  set (r := binary_normalize _ _ _ _ _ _ _ _) in *.
  fix_modes H. rewrite (no_ovf _ bd Hb Hbd) in H. destruct H as (H1 & H2 & H3).
  pose proof (fin_not_nan r H2) as Hn. rewrite (of_bits_canon r Hn). auto.
Qed.

Lemma fl_of_int_ok z (bd : Z) : (Rabs (rnd32 (IZR z)) <= IZR bd)%R -> bd < 2 ^ 128 ->
  Fin (fl_of_int z) /\ RV (fl_of_int z) = rnd32 (IZR z) /\ Sgn (fl_of_int z) = (z <? 0).
Proof.
  intros Hb Hbd. unfold fl_of_int. rewrite <- (F2R_int z) in *.
  destruct (norm32_ok z 0 false bd Hb Hbd) as (H1 & H2 & H3). split; [exact H1|]. split; [exact H2|].
  rewrite H3, F2R_int. destruct (Rcompare_spec (IZR z) 0) as [H|H|H].
  - apply lt_IZR in H. symmetry. apply Z.ltb_lt. exact H.
  - apply eq_IZR in H. subst z. reflexivity.
  - apply lt_IZR in H. symmetry. apply Z.ltb_ge. lia.
Qed.

(* integers below 2^24 convert exactly *)
Lemma fl_of_int_exact z : Z.abs z < 16777216 ->
  Fin (fl_of_int z) /\ RV (fl_of_int z) = IZR z /\ Sgn (fl_of_int z) = (z <? 0).
Proof.
  intros Hz. destruct (fl_of_int_ok z 16777216) as (H1 & H2 & H3); [|lia|].
  - rewrite (rnd_int z Hz), <- abs_IZR. apply IZR_le. lia.
  - rewrite (rnd_int z Hz) in H2. auto.
Qed.

Lemma fl_cmp_ok a b : Fin a -> Fin b -> fl_cmp a b = Some (Rcompare (RV a) (RV b)).
Proof. intros Fa Fb. unfold fl_cmp, b32_compare. now apply Bcompare_correct. Qed.

(* ---- mantissa / exponent view; casts to integers ---- *)
Lemma fl_parts_fin z : Fin z ->
  exists m e, fl_parts z = Some (m, e) /\ RV z = F2R (Float radix2 m e) /\
              fl_is_nan z = false /\ fl_is_inf z = false.
Proof.
  unfold Fin, RV, fl_parts, fl_is_nan, fl_is_inf. destruct (of_bits z) as [s|s|s pl e|s m e e0]; try discriminate; intros _.
  - exists 0, 0. split; [reflexivity|]. split; [|split; reflexivity]. cbn [B2R]. unfold F2R. cbn [Fnum]. now rewrite Rmult_0_l.
  - exists (if s then Z.neg m else Z.pos m), e. split; [reflexivity|]. split; [|split; reflexivity]. cbn [B2R]. now destruct s.
Qed.

Lemma bpow2_nonneg e : 0 <= e -> bpow radix2 e = IZR (2 ^ e).
Proof. intros H. rewrite <- (IZR_Zpower radix2 e H). reflexivity. Qed.

Lemma trunc_me_ok m e : trunc_me m e = Ztrunc (F2R (Float radix2 m e)).
Proof.
  unfold trunc_me, F2R. cbn [Fnum Fexp]. destruct (0 <=? e) eqn:E.
  - apply Z.leb_le in E. rewrite (bpow2_nonneg e E), <- mult_IZR, Ztrunc_IZR. reflexivity.
  - apply Z.leb_gt in E. replace e with (- (- e)) at 2 by lia. rewrite bpow_opp, (bpow2_nonneg (- e)) by lia.
    change (IZR m * / IZR (2 ^ (- e)))%R with (IZR m / IZR (2 ^ (- e)))%R.
    rewrite Ztrunc_div; [reflexivity|]. pose proof (Z.pow_pos_nonneg 2 (- e)). lia.
Qed.

Lemma fl_to_int_ok lo hi z : Fin z -> fl_to_int lo hi z = Z.max lo (Z.min hi (Ztrunc (RV z))).
Proof.
  intros F. destruct (fl_parts_fin z F) as (m & e & Hp & Hv & Hn & Hi).
  unfold fl_to_int. rewrite Hn, Hi, Hp, Hv, trunc_me_ok. reflexivity.
Qed.

(* what the no-panic and RAND arguments need: a value in [0, n] truncates into [0, n] *)
Lemma fl_to_int_between lo hi z (n : Z) : Fin z -> lo <= 0 -> n <= hi -> (0 <= RV z <= IZR n)%R ->
  0 <= fl_to_int lo hi z <= n.
Proof.
  intros F Hlo Hhi [H0 Hn]. rewrite (fl_to_int_ok lo hi z F).
  pose proof (Ztrunc_le _ _ H0) as A. pose proof (Ztrunc_le _ _ Hn) as B.
  rewrite Ztrunc_IZR in A, B. lia.
Qed.

(* f32::round keeps a value inside an integer interval [0, n] *)
Lemma fl_round_between z (n : Z) : Fin z -> 0 <= n < 16777216 -> (0 <= RV z <= IZR n)%R ->
  Fin (fl_round z) /\ (0 <= RV (fl_round z) <= IZR n)%R.
Proof.
  intros F Hn [H0 H1]. destruct (fl_parts_fin z F) as (m & e & Hp & Hv & _ & _).
  unfold fl_round. rewrite Hp. destruct (0 <=? e) eqn:E.
  - unfold Fin, RV in *. rewrite of_bits_mod. auto.
  - apply Z.leb_gt in E. cbv zeta.
    assert (Hd : 0 < 2 ^ (- e)) by (apply Z.pow_pos_nonneg; lia).
    set (d := 2 ^ (- e)) in *.
    assert (Hv' : RV z = (IZR m / IZR d)%R).
    { rewrite Hv. unfold F2R. cbn [Fnum Fexp]. replace e with (- (- e)) at 1 by lia.
      rewrite bpow_opp, (bpow2_nonneg (- e)) by lia. reflexivity. }
    assert (Dpos : (0 < IZR d)%R) by (apply IZR_lt; lia).
    assert (Hm0 : 0 <= m).
    { apply le_IZR. rewrite Hv' in H0. apply Rmult_le_compat_r with (r := IZR d) in H0; [|lra].
      unfold Rdiv in H0. rewrite Rmult_assoc, Rinv_l, Rmult_1_r, Rmult_0_l in H0 by lra. exact H0. }
    assert (Hm1 : m <= n * d).
    { apply le_IZR. rewrite mult_IZR. rewrite Hv' in H1. apply Rmult_le_compat_r with (r := IZR d) in H1; [|lra].
      unfold Rdiv in H1. rewrite Rmult_assoc, Rinv_l, Rmult_1_r in H1 by lra. exact H1. }
    replace (m <? 0) with false by (symmetry; apply Z.ltb_ge; exact Hm0).
    rewrite Z.abs_eq by exact Hm0.
    rewrite Z.quot_div_nonneg by lia.
    set (q := (2 * m + d) / (2 * d)).
    assert (Hq : 0 <= q <= n).
    { split; [apply Z.div_pos; lia|]. apply Z.lt_succ_r. apply Z.div_lt_upper_bound; lia. }
    assert (Hr : rnd32 (F2R (Float radix2 q 0)) = IZR q) by (rewrite F2R_int; apply rnd_int; lia).
    destruct (norm32_ok q 0 (fl_sign z) 16777216) as (A & B & _); [|lia|].
    + rewrite Hr, <- abs_IZR. apply IZR_le. lia.
    + cbv zeta in A, B. split; [exact A|]. rewrite B, Hr. split; apply IZR_le; lia.
Qed.

(* ---- comparison on all non-NaN floats: an embedding into the reals ---- *)
Definition xr (x : binary32) : R :=
  match x with
  | B754_infinity _ _ s => if s then (- bpow radix2 128)%R else bpow radix2 128
  | _ => B2R 24 128 x
  end.

Lemma xr_fin x : is_finite 24 128 x = true -> xr x = B2R 24 128 x.
Proof. now destruct x. Qed.

Lemma xr_fin_bound x : is_finite 24 128 x = true -> (- bpow radix2 128 < xr x < bpow radix2 128)%R.
Proof.
  intros F. rewrite (xr_fin x F). pose proof (abs_B2R_lt_emax 24 128 x) as H.
  apply Rabs_lt_inv in H. lra.
Qed.

Lemma b32_compare_xr x y : is_nan 24 128 x = false -> is_nan 24 128 y = false ->
  b32_compare x y = Some (Rcompare (xr x) (xr y)).
Proof.
  intros Nx Ny. pose proof (bpow_gt_0 radix2 128) as P.
  destruct (is_finite 24 128 x) eqn:Fx, (is_finite 24 128 y) eqn:Fy.
  - rewrite (xr_fin x Fx), (xr_fin y Fy). now apply Bcompare_correct.
  - pose proof (xr_fin_bound x Fx) as Bx. unfold xr in *. remember (bpow radix2 128) as M.
    destruct y as [s|[|]|s pl e|s m e e0]; try discriminate;
    destruct x as [sx|sx|sx plx ex|sx mx ex e0x]; try discriminate; symmetry;
    (unfold b32_compare, Bcompare; cbn in *; f_equal; first [apply Rcompare_Lt; lra | apply Rcompare_Gt; lra]).
  - pose proof (xr_fin_bound y Fy) as By. unfold xr in *. remember (bpow radix2 128) as M.
    destruct x as [s|[|]|s pl e|s m e e0]; try discriminate;
    destruct y as [sy|sy|sy ply ey|sy my ey e0y]; try discriminate; symmetry;
    (unfold b32_compare, Bcompare; cbn in *; f_equal; first [apply Rcompare_Lt; lra | apply Rcompare_Gt; lra]).
  - unfold xr. remember (bpow radix2 128) as M.
    destruct x as [s|[|]|s pl e|s m e e0]; try discriminate;
    destruct y as [sy|[|]|sy ply ey|sy my ey e0y]; try discriminate; symmetry;
    (unfold b32_compare, Bcompare; cbn; f_equal;
     first [apply Rcompare_Eq; lra | apply Rcompare_Lt; lra | apply Rcompare_Gt; lra]).
Qed.

Lemma b32_compare_nan x y : is_nan 24 128 x = true \/ is_nan 24 128 y = true -> b32_compare x y = None.
Proof.
  intros [H|H].
  - destruct x; try discriminate. reflexivity.
  - destruct y; try discriminate. destruct x; reflexivity.
Qed.

Lemma fl_is_nan_spec z : fl_is_nan z = is_nan 24 128 (of_bits z).
Proof. unfold fl_is_nan. now destruct (of_bits z). Qed.

Definition XR (z : Z) : R := xr (of_bits z).

Lemma fl_cmp_xr a b : fl_is_nan a = false -> fl_is_nan b = false ->
  fl_cmp a b = Some (Rcompare (XR a) (XR b)).
Proof. rewrite !fl_is_nan_spec. intros. now apply b32_compare_xr. Qed.

Lemma fl_cmp_nan a b : fl_is_nan a = true \/ fl_is_nan b = true -> fl_cmp a b = None.
Proof. rewrite !fl_is_nan_spec. apply b32_compare_nan. Qed.

Lemma fl_cmp_some a b c : fl_cmp a b = Some c -> fl_is_nan a = false /\ fl_is_nan b = false.
Proof.
  intros H. destruct (fl_is_nan a) eqn:A; [rewrite fl_cmp_nan in H by auto; discriminate|].
  destruct (fl_is_nan b) eqn:B; [rewrite fl_cmp_nan in H by auto; discriminate|]. auto.
Qed.

(* ---- constants and small helpers ---- *)
Lemma Fin_of_parts c : (exists me, fl_parts c = Some me) -> Fin c.
Proof.
  unfold fl_parts, Fin. intros [me H]. destruct (of_bits c); try discriminate; reflexivity.
Qed.

Lemma RV_of_parts c m e : fl_parts c = Some (m, e) -> RV c = F2R (Float radix2 m e).
Proof.
  intros H. destruct (fl_parts_fin c) as (m' & e' & Hp & Hv & _ & _).
  - apply Fin_of_parts. eauto.
  - rewrite H in Hp. injection Hp as <- <-. exact Hv.
Qed.

Lemma const_zero : Fin f_zero /\ RV f_zero = 0%R.
Proof.
  split; [apply Fin_of_parts; eexists; reflexivity|].
  rewrite (RV_of_parts f_zero 0 0 eq_refl). unfold F2R. cbn [Fnum]. lra.
Qed.
Lemma const_one : Fin f_one /\ RV f_one = 1%R.
Proof.
  split; [apply Fin_of_parts; eexists; reflexivity|].
  rewrite (RV_of_parts f_one 8388608 (-23) eq_refl). unfold F2R. cbn. lra.
Qed.
Lemma Fin_not_nan z : Fin z -> fl_is_nan z = false.
Proof. unfold Fin. rewrite fl_is_nan_spec. apply fin_not_nan. Qed.

(* a non-NaN strictly between the infinities is finite *)
Lemma XR_fin z : fl_is_nan z = false -> (- bpow radix2 128 < XR z < bpow radix2 128)%R -> Fin z /\ XR z = RV z.
Proof.
  unfold XR, RV, Fin. rewrite fl_is_nan_spec. intros N H.
  destruct (of_bits z) as [s|s|s pl e|s m e e0]; try discriminate; try (split; reflexivity).
  exfalso. cbn [xr] in H. destruct s; lra.
Qed.

Lemma one_lt_max : (1 < bpow radix2 128)%R.
Proof. change 1%R with (bpow radix2 0). apply bpow_lt. lia. Qed.

Lemma fmt_0 : fmt32 0.
Proof. apply generic_format_0. Qed.
Lemma fmt_half : fmt32 (/ 2).
Proof. change (/ 2)%R with (bpow radix2 (-1)). apply fmt_pow2. lia. Qed.
Lemma fmt_pow2Z e : 0 <= e -> fmt32 (IZR (2 ^ e)).
Proof. intros H. rewrite <- (bpow2_nonneg e H). apply fmt_pow2. lia. Qed.

Lemma abs_le_of_between x (b : Z) : (0 <= x <= IZR b)%R -> (Rabs x <= IZR b)%R.
Proof. intros [H0 H1]. rewrite Rabs_pos_eq; assumption. Qed.


(* ---- canonical bit patterns: equality of results from equality of value and sign ---- *)
Definition Canon (z : Z) : Prop := b32_canon (of_bits z) = z.

Lemma canon_canon (r : binary32) : Canon (b32_canon r).
Proof.
  unfold Canon. destruct (is_nan 24 128 r) eqn:N.
  - destruct r; try discriminate. reflexivity.
  - now rewrite of_bits_canon.
Qed.

Lemma canon_fl_add a b : Canon (fl_add a b).  Proof. apply canon_canon. Qed.
Lemma canon_fl_sub a b : Canon (fl_sub a b).  Proof. apply canon_canon. Qed.
Lemma canon_fl_mul a b : Canon (fl_mul a b).  Proof. apply canon_canon. Qed.
Lemma canon_fl_div a b : Canon (fl_div a b).  Proof. apply canon_canon. Qed.
Lemma canon_fl_sqrt a : Canon (fl_sqrt a).    Proof. apply canon_canon. Qed.
Lemma canon_fl_of_int z : Canon (fl_of_int z). Proof. apply canon_canon. Qed.

Lemma bits_eq a b : Canon a -> Canon b -> Fin a -> Fin b -> RV a = RV b -> Sgn a = Sgn b -> a = b.
Proof.
  unfold Canon, Fin, RV, Sgn. intros Ca Cb Fa Fb Hv Hs. rewrite <- Ca, <- Cb. f_equal.
  now apply B2R_Bsign_inj.
Qed.

(* the order [fle] of the instance, on all bit patterns *)
Lemma fl_le_iff a b :
  match fl_cmp a b with Some Lt | Some Eq => true | _ => false end = true <->
  fl_is_nan a = false /\ fl_is_nan b = false /\ (XR a <= XR b)%R.
Proof.
  split.
  - intros H. destruct (fl_cmp a b) as [c|] eqn:E; [|discriminate].
    destruct (fl_cmp_some a b c E) as [Na Nb]. split; [exact Na|]. split; [exact Nb|].
    rewrite (fl_cmp_xr a b Na Nb) in E. injection E as <-.
    destruct (Rcompare_spec (XR a) (XR b)); try discriminate; lra.
  - intros (Na & Nb & H). rewrite (fl_cmp_xr a b Na Nb).
    destruct (Rcompare_spec (XR a) (XR b)); try reflexivity; lra.
Qed.

Lemma fl_lt_iff a b :
  match fl_cmp a b with Some Lt => true | _ => false end = true <->
  fl_is_nan a = false /\ fl_is_nan b = false /\ (XR a < XR b)%R.
Proof.
  split.
  - intros H. destruct (fl_cmp a b) as [c|] eqn:E; [|discriminate].
    destruct (fl_cmp_some a b c E) as [Na Nb]. split; [exact Na|]. split; [exact Nb|].
    rewrite (fl_cmp_xr a b Na Nb) in E. injection E as <-.
    destruct (Rcompare_spec (XR a) (XR b)); try discriminate; lra.
  - intros (Na & Nb & H). rewrite (fl_cmp_xr a b Na Nb).
    destruct (Rcompare_spec (XR a) (XR b)); try reflexivity; lra.
Qed.

Lemma XR_of_Fin z : Fin z -> XR z = RV z.
Proof. intros F. unfold XR, RV. now apply xr_fin. Qed.

(* C02: the run loop against an independent accounting of repeated step calls. *)
From Coq Require Import ZArith String List Bool Lia ZifyBool.
From PushModel Require Import Base.Sx Base.Machine Base.ListOps Base.F32 Model.Item Model.GraphT Model.State
  Model.InstrBase Model.Registry Model.Interp.
Import ListNotations.
Open Scope Z_scope.

Section Run.
  Variable p : profile.
  Variable reg : registry.
  Variable clock : Z -> Z.

  (* no instruction of the registry writes the configuration (discharged for the full
     registry by the footprint theorem of C10) *)
  Hypothesis cfg_stable : forall w s fin w1 s1, step p reg w s = Ok (fin, w1, s1) -> st_cfg s1 = st_cfg s.

  Notation L s := (cfg_eval_push_limit (st_cfg s)).
  Notation T s := (cfg_eval_time_limit (st_cfg s)).
  Notation G s := (cfg_growth_cap (st_cfg s)).

  (* j calls of step, whatever they report *)
  Fixpoint iter_step (j : nat) (w : world) (s : state) : res (world * state) :=
    match j with
    | O => Ok (w, s)
    | S j' => let! r := step p reg w s in iter_step j' (snd (fst r)) (snd r)
    end.

  Lemma step_empty_exec_noop w s : st_exec s = [] -> step p reg w s = Ok (true, w, s).
  Proof. intros H. unfold step. now rewrite H. Qed.

  Lemma step_fin_iff w s fin w1 s1 : step p reg w s = Ok (fin, w1, s1) -> (fin = true <-> st_exec s = []).
  Proof.
    unfold step. destruct (st_exec s) as [|t r] eqn:E.
    - intros H; inversion H; subst. tauto.
    - intros H. split; [|discriminate]. intros ->.
      destruct t; try (inversion H; fail).
      + destruct (lookup reg name); [|inversion H].
        destruct (s0 p w (set_exec s r)) as [[? ?]| |]; cbn in H; inversion H.
      + destruct (st_quote _); [inversion H|]. destruct (bind_get _ _); inversion H.
  Qed.

  (* the independent accounting: what the loop does, as a relation over step calls *)
  Inductive runs_to : Z -> world -> state -> outcome -> world -> state -> Prop :=
  | R_steplimit c w s : L s < c -> runs_to c w s StepLimit w s
  | R_timelimit c w s : c <= L s -> T s < clock c -> runs_to c w s TimeLimit w s
  | R_done c w s : c <= L s -> clock c <= T s -> st_exec s = [] -> runs_to c w s NoErrors w s
  | R_growth c w s w1 s1 : c <= L s -> clock c <= T s ->
      step p reg w s = Ok (false, w1, s1) -> state_size s + G s1 < state_size s1 ->
      runs_to c w s GrowthCap w1 s1
  | R_next c w s w1 s1 o w' s' : c <= L s -> clock c <= T s ->
      step p reg w s = Ok (false, w1, s1) -> state_size s1 <= state_size s + G s1 ->
      runs_to (c + 1) w1 s1 o w' s' -> runs_to c w s o w' s'.

  Lemma run_loop_sound fuel : forall c w s o w' s',
    run_loop p reg clock fuel c w s = Ok (o, w', s') -> o <> OutOfFuel -> runs_to c w s o w' s'.
  Proof.
    induction fuel as [|f IH]; intros c w s o w' s' H NF; cbn [run_loop] in H.
    - inversion H; subst. congruence.
    - destruct (L s <? c) eqn:E1.
      { inversion H; subst. apply R_steplimit. lia. }
      destruct (T s <? clock c) eqn:E2.
      { inversion H; subst. apply R_timelimit; lia. }
      destruct (step p reg w s) as [[[fin w1] s1]| |] eqn:Es; cbn [rbind] in H; try discriminate.
      destruct fin.
      + inversion H; subst.
        pose proof (proj1 (step_fin_iff _ _ _ _ _ Es) eq_refl) as Hex.
        rewrite (step_empty_exec_noop _ _ Hex) in Es. inversion Es; subst.
        apply R_done; try lia; assumption.
      + destruct (state_size s + G s1 <? state_size s1) eqn:E3.
        * inversion H; subst. eapply R_growth; eauto; lia.
        * eapply R_next; eauto; try lia.
  Qed.

  (* every reachable stop is reached with enough fuel: the counter runs from c to L+1 *)
  Lemma run_loop_fuel fuel : forall c w s,
    (Z.to_nat (L s + 2 - c) < fuel)%nat ->
    forall r, run_loop p reg clock fuel c w s = Ok r -> fst (fst r) <> OutOfFuel.
  Proof.
    induction fuel as [|f IH]; intros c w s Hf r H; [lia|]. cbn [run_loop] in H.
    destruct (L s <? c) eqn:E1; [inversion H; subst; discriminate|].
    destruct (T s <? clock c) eqn:E2; [inversion H; subst; discriminate|].
    destruct (step p reg w s) as [[[fin w1] s1]| |] eqn:Es; cbn [rbind] in H; try discriminate.
    destruct fin; [inversion H; subst; discriminate|].
    destruct (state_size s + G s1 <? state_size s1); [inversion H; subst; discriminate|].
    eapply IH; [|exact H]. rewrite (cfg_stable _ _ _ _ _ Es). lia.
  Qed.

  (* consequences of the accounting *)
  Lemma runs_to_iter c w s o w' s' : runs_to c w s o w' s' ->
    exists j : nat,
      iter_step j w s = Ok (w', s') /\ st_cfg s' = st_cfg s /\
      (c <= L s + 1 -> c + Z.of_nat j <= L s + 1) /\
      (o = StepLimit -> c <= L s + 1 -> c + Z.of_nat j = L s + 1) /\
      (o = NoErrors -> st_exec s' = []) /\
      (o = TimeLimit -> T s < clock (c + Z.of_nat j)) /\
      (o = GrowthCap -> exists j0 w0 s0, j = S j0 /\ iter_step j0 w s = Ok (w0, s0) /\
                        state_size s0 + G s < state_size s') /\
      o <> OutOfFuel.
  Proof.
    induction 1 as [c w s H|c w s H1 H2|c w s H1 H2 H3|c w s w1 s1 H1 H2 H3 H4|c w s w1 s1 o w' s' H1 H2 H3 H4 H5 IH].
    - exists O. cbn. repeat split; try congruence; try lia.
    - exists O. cbn. repeat split; try congruence; try lia. intros _. now rewrite Z.add_0_r.
    - exists O. cbn. repeat split; try congruence; try lia.
    - exists 1%nat. cbn [iter_step]. rewrite H3. cbn [rbind fst snd].
      pose proof (cfg_stable _ _ _ _ _ H3) as Hc.
      repeat split; try congruence; try lia.
      intros _. exists O, w, s. repeat split. rewrite <- Hc. lia.
    - destruct IH as (j & I1 & I2 & I3 & I4 & I5 & I6 & I7 & I8).
      pose proof (cfg_stable _ _ _ _ _ H3) as Hc. rewrite Hc in *.
      exists (S j). cbn [iter_step]. rewrite H3. cbn [rbind fst snd].
      split; [exact I1|]. split; [exact I2|].
      split; [intros Hle; lia|].
      split; [intros Ho Hle; specialize (I4 Ho); lia|].
      split; [exact I5|].
      split.
      { intros Ho. specialize (I6 Ho). now replace (c + Z.of_nat (S j)) with (c + 1 + Z.of_nat j) by lia. }
      split; [|exact I8].
      intros Ho. destruct (I7 Ho) as (j0 & w0 & s0 & -> & It & Gr).
      exists (S j0), w0, s0. repeat split; try assumption.
      cbn [iter_step]. rewrite H3. cbn [rbind fst snd]. exact It.
  Qed.

  (* a program that empties EXEC within the budget is never reported as exceeding the step limit *)
  Lemma runs_to_not_steplimit_early c w s o w' s' : runs_to c w s o w' s' ->
    forall j : nat, c + Z.of_nat j <= L s ->
    (exists wj sj, iter_step j w s = Ok (wj, sj) /\ st_exec sj = []) ->
    o <> StepLimit.
  Proof.
    induction 1 as [c w s H|c w s H1 H2|c w s H1 H2 H3|c w s w1 s1 H1 H2 H3 H4|c w s w1 s1 o w' s' H1 H2 H3 H4 H5 IH];
      intros j Hj (wj & sj & It & Ex); try discriminate.
    - lia.
    - destruct j as [|j].
      + cbn in It. inversion It; subst.
        rewrite (step_empty_exec_noop _ _ Ex) in H3. discriminate.
      + cbn [iter_step] in It. rewrite H3 in It. cbn [rbind fst snd] in It.
        pose proof (cfg_stable _ _ _ _ _ H3) as Hc.
        apply (IH j); [rewrite Hc; lia|]. eauto.
  Qed.
End Run.

(* C01: the whole registry, the interpreter step, k steps and the run loop. *)
From Coq Require Import ZArith String List Bool Lia ZifyBool.
From PushModel Require Import Base.Sx Base.Machine Base.ListOps Base.F32 Model.Item Model.GraphT Model.State
  Model.InstrBase Model.Registry Model.Interp Model.RegistryVec Model.RegistryListIo Model.RegistryGraph
  Model.RegistryNbr Model.RegistryRand Model.RegistryAll
  Proofs.NoPanicBase Proofs.NoPanicItem Proofs.NoPanicTac Proofs.NoPanicCore Proofs.NoPanicVec Proofs.NoPanicListIo
  Proofs.NoPanicGraph Proofs.NoPanicNbr Proofs.NoPanicRand.
Import ListNotations.
Open Scope Z_scope.

Section Top.
  Context {FO : FloatOps}.

  (* one lemma per family table; a new family is one more line here *)
  Theorem base_table_safe : table_safe base_table.
  Proof.
    unfold base_table.
    apply table_safe_app; [exact core_safe|].
    apply table_safe_app; [exact bvec_safe|].
    apply table_safe_app; [exact ivec_safe|].
    apply table_safe_app; [exact fvec_safe|].
    apply table_safe_app; [exact list_safe|].
    apply table_safe_app; [exact io_safe|].
    apply table_safe_app; [exact graph_safe|exact nbr_safe].
  Qed.
  Theorem full_table_safe : fo_nbits -> table_safe full_table.
  Proof. intros NB. unfold full_table. apply table_safe_app; [exact base_table_safe|now apply rand_safe]. Qed.

  Lemma lookup_in (t : list (string * sem)) n f : lookup (mk_registry t) n = Some f -> exists nm, In (nm, f) t.
  Proof.
    induction t as [|[nm g] r IH]; cbn [mk_registry map lookup fst snd]; [discriminate|].
    destruct (str_eqb n (s2l nm)).
    - intros E; inversion E; subst. exists nm. now left.
    - intros E. destruct (IH E) as [nm' I]. exists nm'. now right.
  Qed.
  Lemma registry_safe : fo_nbits -> forall n f, lookup full_registry n = Some f -> sem_safe f.
  Proof.
    intros NB n f E. destruct (lookup_in _ _ _ E) as [nm I].
    pose proof (full_table_safe NB) as T. unfold table_safe in T. rewrite Forall_forall in T.
    exact (entry_safe_safe _ (T _ I)).
  Qed.

  Lemma table_entry_safe : fo_nbits -> forall nm f, In (nm, f) full_table -> sem_safe f.
  Proof.
    intros NB nm f I. pose proof (full_table_safe NB) as T. unfold table_safe in T. rewrite Forall_forall in T.
    exact (entry_safe_safe _ (T _ I)).
  Qed.
  Lemma table_entry_safe0 : fo_nbits -> forall nm f, In (nm, f) full_table -> needs_env nm = false -> sem_safe0 f.
  Proof.
    intros NB nm f I E. pose proof (full_table_safe NB) as T. unfold table_safe in T. rewrite Forall_forall in T.
    exact (entry_safe_safe0 _ (T _ I) E).
  Qed.
  Lemma base_entry_safe : forall nm f, In (nm, f) base_table -> sem_safe f.
  Proof.
    intros nm f I. pose proof base_table_safe as T. unfold table_safe in T. rewrite Forall_forall in T.
    exact (entry_safe_safe _ (T _ I)).
  Qed.

  Lemma needs_env_false n : n <> "CODE.EXTRACT"%string -> n <> "CODE.NTH"%string -> needs_env n = false.
  Proof.
    intros H1 H2. unfold needs_env, env_names. cbn [existsb].
    apply String.eqb_neq in H1, H2. now rewrite H1, H2.
  Qed.
  Theorem instr_no_panic_outside_envelope : fo_nbits ->
    forall n f, In (n, f) full_table -> n <> "CODE.EXTRACT"%string -> n <> "CODE.NTH"%string ->
    forall p w s, wf_state s -> f p w s <> Panic.
  Proof.
    intros NB n f I H1 H2 p w s W C.
    pose proof (table_entry_safe0 NB n f I (needs_env_false n H1 H2) p w s W) as H. now rewrite C in H.
  Qed.

  (* ---- one interpreter step ---- *)
  Definition ok_step (r : res (bool * world * state)) : Prop :=
    match r with Ok x => fo_typed -> wf_state (snd x) | Panic => False | Need _ _ => True end.

  Lemma wf_set_exec s v : wf_state s -> Forall wf_item v -> wf_state (set_exec s v).
  Proof. intros W H. destruct s; destruct W; constructor; st_cbn_all; unf_state; st_cbn; auto. Qed.
  Lemma wf_set_name s v : wf_state s -> wf_state (set_name s v).
  Proof. intros W. destruct s; destruct W; constructor; st_cbn_all; unf_state; st_cbn; auto. Qed.
  Lemma wf_set_quote s v : wf_state s -> wf_state (set_quote s v).
  Proof. intros W. destruct s; destruct W; constructor; st_cbn_all; unf_state; st_cbn; auto. Qed.
  Lemma wf_push_lit s v : wf_state s -> wf_item (ILit v) -> wf_state (push_lit s v).
  Proof.
    intros W H. destruct s; destruct W; destruct v; wf_hyps; constructor; st_cbn_all; unfold push_lit; unf_state; st_cbn;
      auto with wf.
  Qed.
  Lemma envelope_set_exec s v : envelope s -> envelope (set_exec s v).
  Proof. destruct s; exact (fun H => H). Qed.

  Theorem step_safe p w s : fo_nbits -> wf_state s -> envelope s -> ok_step (step p full_registry w s).
  Proof.
    intros NB W E. unfold step. destruct (st_exec s) as [|t r] eqn:X; [cbn [ok_step snd]; auto|].
    pose proof (wf_exec s W) as We. rewrite X in We. apply Forall_cons_iff in We as [Wt Wr].
    assert (W1 : wf_state (set_exec s r)) by now apply wf_set_exec.
    destruct t as [l|n|v|n].
    - cbn [ok_step snd]. intros _. apply wf_set_exec; [assumption|].
      apply Forall_app; split; [now apply wf_item_list|exact Wr].
    - destruct (lookup full_registry n) as [f|] eqn:L; [|cbn [ok_step snd]; auto].
      pose proof (registry_safe NB n f L p w (set_exec s r) W1 (envelope_set_exec s r E)) as S.
      destruct (f p w (set_exec s r)) as [[w' s']| |]; cbn [rbind ok_step ok_ws fst snd] in *; auto.
    - cbn [ok_step snd]. intros _. now apply wf_push_lit.
    - destruct (st_quote (set_exec s r)).
      + cbn [ok_step snd]. intros _. now apply wf_set_quote, wf_set_name.
      + destruct (bind_get (st_bind (set_exec s r)) n) as [b|] eqn:B; cbn [ok_step snd]; intros _.
        * apply wf_set_exec; [assumption|]. constructor; [|exact (wf_exec _ W1)].
          eapply bind_get_wf; [exact (wf_bind _ W1)|exact B].
        * now apply wf_set_name.
  Qed.

  (* ---- k steps and the run loop: the execution stays inside the envelope ---- *)
  Definition stays_in_envelope (p : profile) (bound : nat) (w : world) (s : state) : Prop :=
    forall j w' s', (j < bound)%nat -> steps p full_registry j w s = Ok (false, w', s') -> envelope s'.

  Lemma stays_next p k w s w' s' :
    stays_in_envelope p (S k) w s -> step p full_registry w s = Ok (false, w', s') -> stays_in_envelope p k w' s'.
  Proof.
    intros H X j w2 s2 Hj E. apply (H (Datatypes.S j) w2 s2 ltac:(lia)). cbn [steps]. rewrite X. cbn [rbind]. exact E.
  Qed.
  Lemma stays_now p k w s : stays_in_envelope p (S k) w s -> envelope s.
  Proof. intros H. apply (H O w s ltac:(lia)). reflexivity. Qed.

  Theorem steps_safe p : fo_nbits -> fo_typed -> forall k w s,
    wf_state s -> stays_in_envelope p k w s -> ok_step (steps p full_registry k w s).
  Proof.
    intros NB FT. induction k as [|k IH]; intros w s W H; cbn [steps]; [cbn [ok_step snd]; auto|].
    pose proof (step_safe p w s NB W (stays_now p k w s H)) as S.
    destruct (step p full_registry w s) as [[[fin w'] s']| |] eqn:X; cbn [rbind ok_step snd] in *; auto.
    destruct fin; [cbn [ok_step snd]; auto|].
    apply IH; [exact (S FT)|]. eapply stays_next; eauto.
  Qed.

  Definition ok_run (r : res (outcome * world * state)) : Prop :=
    match r with Ok x => wf_state (snd x) | Panic => False | Need _ _ => True end.

  Lemma run_loop_safe p clock : fo_nbits -> fo_typed -> forall fuel c w s,
    wf_state s -> stays_in_envelope p fuel w s -> ok_run (run_loop p full_registry clock fuel c w s).
  Proof.
    intros NB FT. induction fuel as [|f IH]; intros c w s W H; cbn [run_loop]; [exact W|].
    destruct (_ <? c); [exact W|]. destruct (_ <? clock c); [exact W|].
    pose proof (step_safe p w s NB W (stays_now p f w s H)) as S.
    destruct (step p full_registry w s) as [[[fin w'] s']| |] eqn:X; cbn [rbind ok_step snd] in *; auto.
    destruct fin; [exact (S FT)|]. destruct (_ <? _); [exact (S FT)|].
    apply IH; [exact (S FT)|]. eapply stays_next; eauto.
  Qed.

  Lemma wf_copy_to_code s : wf_state s -> wf_state (copy_to_code s).
  Proof.
    intros W. unfold copy_to_code. destruct s; destruct W; constructor; st_cbn_all; unf_state; st_cbn; auto.
    apply Forall_app; auto.
  Qed.

  Theorem run_safe p clock w s : fo_nbits -> fo_typed -> wf_state s ->
    stays_in_envelope p (run_fuel (copy_to_code s)) w (copy_to_code s) -> ok_run (run p full_registry clock w s).
  Proof. intros NB FT W H. unfold run. apply run_loop_safe; auto using wf_copy_to_code. Qed.

  (* ---- the statements of Props/C01.v ---- *)
  Theorem step_no_panic : fo_nbits -> forall p w s, wf_state s -> envelope s -> step p full_registry w s <> Panic.
  Proof. intros NB p w s W E C. pose proof (step_safe p w s NB W E) as H. now rewrite C in H. Qed.
  Theorem step_wf_preserved : fo_nbits -> fo_typed -> forall p w s fin w' s',
    wf_state s -> envelope s -> step p full_registry w s = Ok (fin, w', s') -> wf_state s'.
  Proof. intros NB FT p w s fin w' s' W E C. pose proof (step_safe p w s NB W E) as H. rewrite C in H. exact (H FT). Qed.
  Theorem steps_no_panic : fo_nbits -> fo_typed -> forall p k w s,
    wf_state s -> stays_in_envelope p k w s -> steps p full_registry k w s <> Panic.
  Proof. intros NB FT p k w s W E C. pose proof (steps_safe p NB FT k w s W E) as H. now rewrite C in H. Qed.
  Theorem run_no_panic : fo_nbits -> fo_typed -> forall p clock w s,
    wf_state s -> stays_in_envelope p (run_fuel (copy_to_code s)) w (copy_to_code s) ->
    run p full_registry clock w s <> Panic.
  Proof. intros NB FT p clock w s W E C. pose proof (run_safe p clock w s NB FT W E) as H. now rewrite C in H. Qed.
End Top.

Lemma envelope_from_size_bound s : (forall t, In t (st_code s) -> size t <= max32) -> envelope s.
Proof. unfold envelope. destruct (st_code s); [auto|]. intros H. apply H. now left. Qed.

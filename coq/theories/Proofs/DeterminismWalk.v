(* C14: every entry of the full registry table keeps the invariant
   "nothing selected by (qi, qn) occurs in the state" — one table walk.
   An instruction missing from the walk, or one that builds an instruction item
   from something else than its operands and the re-arm names, is a failed Qed. *)
From Coq Require Import ZArith String List Bool Lia ZifyBool.
From PushModel Require Import Base.Sx Base.Machine Base.ListOps Base.F32 Model.Item Model.GraphT Model.State
  Model.InstrBase Model.IScalar Model.ICode Model.IVector Model.IList Model.IIo Model.IGraph
  Model.Topology Model.INeighbor Model.RandomGen Model.IRand
  Model.Registry Model.Interp Model.RegistryVec Model.RegistryListIo Model.RegistryGraph Model.RegistryNbr
  Model.RegistryRand Model.RegistryAll
  Spec.DetSpec Proofs.DeterminismItems Proofs.DeterminismInv.
Import ListNotations.
Open Scope Z_scope.
Open Scope string_scope.

Ltac walk_with tac :=
  repeat first
    [ apply Forall_nil
    | apply Forall_cons; [tac|]
    | apply Forall_app; split
    | apply Forall_filter_weak ].

Section Walk.
  Context {FO : FloatOps}.

  Lemma core_keeps : Forall entry_keeps tbl_core.
  Proof.
    unfold tbl_core, tbl_boolean, tbl_integer, tbl_float, tbl_name, tbl_code, tbl_exec, tbl_index, stack_family.
    walk_with entry_tac.
  Qed.

  Lemma bvec_keeps : Forall entry_keeps tbl_bvec.
  Proof. unfold tbl_bvec, vec_stack_family, stack_family. walk_with entry_tac. Qed.
  Lemma ivec_keeps : Forall entry_keeps tbl_ivec.
  Proof. unfold tbl_ivec, vec_stack_family, stack_family. walk_with entry_tac. Qed.
  Lemma fvec_keeps : Forall entry_keeps tbl_fvec.
  Proof. unfold tbl_fvec, vec_stack_family, stack_family. walk_with entry_tac. Qed.
  Lemma io_keeps : Forall entry_keeps tbl_io.
  Proof. unfold tbl_io. walk_with entry_tac. Qed.
  Lemma graph_keeps : Forall entry_keeps tbl_graph.
  Proof. unfold tbl_graph. cbn [map all_ginstr ginstr_name ginstr_sem]. walk_with entry_tac. Qed.

  (* LIST.ADD / LIST.SET: the designated items are moved, not built *)
  Lemma take_id_keeps qi qn sid s x s1 :
    sinv qi qn s -> take_id sid s = Some (x, s1) -> iok qi qn x /\ sinv qi qn s1.
  Proof.
    intros I E. destruct s as [sb sc se sf six si sn sbv sfv siv sin sout sg sbd scf sq ssd].
    unfold sinv in I; st_cbn_in I; destruct I as (Ie & Ic & Ib & In).
    unfold take_id in E. st_cbn_in E.
    repeat match type of E with
           | (if ?c then _ else _) = _ => destruct c
           | (match ?l with _ => _ end) = _ => destruct l; try discriminate E
           end; try discriminate E;
      inversion E; subst; clear E; unfold sinv; st_cbn; inv_decomp;
      (split; [|split; [|split; [|split]]]); inv_solve.
  Qed.

  Lemma load_ids_keeps qi qn ids : forall s xs s1,
    sinv qi qn s -> load_ids ids s = (xs, s1) -> lok qi qn xs /\ sinv qi qn s1.
  Proof.
    induction ids as [|sid r IH]; intros s xs s1 I E; cbn [load_ids] in E.
    - inversion E; subst. split; [constructor|assumption].
    - destruct (take_id sid s) as [[x s2]|] eqn:Et.
      + destruct (take_id_keeps _ _ _ _ _ _ I Et) as [Hx I2].
        destruct (load_ids r s2) as [xs2 s3] eqn:El. inversion E; subst.
        destruct (IH _ _ _ I2 El) as [Hxs I3]. split; [now constructor|assumption].
      + eauto.
  Qed.

  Lemma set_ivec_sinv qi qn s v : sinv qi qn s -> sinv qi qn (set_ivec s v).
  Proof. intros I. exact I. Qed.
  Lemma set_int_sinv qi qn s v : sinv qi qn s -> sinv qi qn (set_int s v).
  Proof. intros I. exact I. Qed.

  Lemma load_items_keeps qi qn s xs s1 :
    sinv qi qn s -> load_items s = Some (xs, s1) -> lok qi qn xs /\ sinv qi qn s1.
  Proof.
    unfold load_items. intros I E. destruct (st_ivec s) as [|ids r]; [discriminate|].
    inversion E as [E1]. eapply load_ids_keeps; [|exact E1]. now apply set_ivec_sinv.
  Qed.

  Lemma list_add_keeps : instr_keeps list_add.
  Proof.
    intros qi qn HR s s' I E. unfold list_add in E.
    destruct (load_items s) as [[xs s1]|] eqn:El; inversion E; subst; [|assumption].
    destruct (load_items_keeps _ _ _ _ _ I El) as [Hx (Ie & Ic & Ib & In)].
    unfold sinv, push_code; st_cbn. repeat split; try assumption.
    constructor; [|assumption]. apply iok_list_of. now apply Forall_rev.
  Qed.

  Lemma list_set_keeps : instr_keeps list_set.
  Proof.
    intros qi qn HR s s' I E. unfold list_set in E.
    destruct (st_int s) as [|idx r]; [inversion E; subst; assumption|].
    destruct (load_items (set_int s r)) as [[xs s2]|] eqn:El; inversion E; subst; [|now apply set_int_sinv].
    destruct (load_items_keeps _ _ _ _ _ (set_int_sinv _ _ _ r I) El) as [Hx (Ie & Ic & Ib & In)].
    unfold sinv; st_cbn. repeat split; try assumption.
    apply Forall_l_replace; [assumption|]. apply iok_list_of. now apply Forall_rev.
  Qed.

  Ltac list_entry := first [ exact (pure_keeps _ _ list_add_keeps) | exact (pure_keeps _ _ list_set_keeps) | entry_tac ].
  Lemma list_keeps : Forall entry_keeps tbl_list.
  Proof. unfold tbl_list. walk_with list_entry. Qed.

  Lemma nbr_keeps : Forall entry_keeps tbl_nbr.
  Proof. unfold tbl_nbr. walk_with entry_tac. Qed.

  (* the RAND family: literals and names only — except CODE.RAND *)
  Definition closure_exception (n : string) : bool := lit_in closure_exceptions n.

  Ltac rand_entry :=
    first [ let H := fresh in intros H; vm_compute in H; discriminate H
          | intros _; entry_tac ].

  Lemma rand_keeps instrs : Forall (fun e => closure_exception (fst e) = false -> entry_keeps e) (tbl_rand instrs).
  Proof. unfold tbl_rand. walk_with rand_entry. Qed.

  Lemma Forall_weaken {A} (P Q : A -> Prop) l : (forall x, P x -> Q x) -> Forall P l -> Forall Q l.
  Proof. intros H F. induction F; constructor; auto. Qed.

  Theorem full_table_keeps : Forall (fun e => closure_exception (fst e) = false -> entry_keeps e) full_table.
  Proof.
    unfold full_table. apply Forall_app; split; [|apply rand_keeps].
    apply (Forall_weaken entry_keeps); [auto|]. unfold base_table.
    apply Forall_app; split; [exact core_keeps|].
    apply Forall_app; split; [exact bvec_keeps|].
    apply Forall_app; split; [exact ivec_keeps|].
    apply Forall_app; split; [exact fvec_keeps|].
    apply Forall_app; split; [exact list_keeps|].
    apply Forall_app; split; [exact io_keeps|].
    apply Forall_app; split; [exact graph_keeps|exact nbr_keeps].
  Qed.
End Walk.

(* C07: names — definition, lookup, quoting. *)
From Coq Require Import ZArith String List Bool Lia.
From PushModel Require Import Base.Sx Base.Machine Base.ListOps Base.F32 Model.Item Model.GraphT Model.State
  Model.InstrBase Model.IScalar Model.ICode Model.Registry Model.Interp Model.RegistryAll
  Spec.Footprint Proofs.Frame Proofs.FrameProofs Proofs.CfgStable.
Import ListNotations.
Open Scope Z_scope.

Lemma str_eqb_eq a b : str_eqb a b = true <-> a = b.
Proof.
  revert b; induction a as [|x ra IH]; intros [|y rb]; cbn; split; intros H; try discriminate; try reflexivity.
  - apply andb_prop in H as [H1 H2]. apply Z.eqb_eq in H1. apply IH in H2. now subst.
  - inversion H; subst. rewrite Z.eqb_refl. cbn. now apply IH.
Qed.
Lemma str_eqb_refl a : str_eqb a a = true.
Proof. now apply str_eqb_eq. Qed.
Lemma str_eqb_neq a b : a <> b -> str_eqb a b = false.
Proof. intros H. destruct (str_eqb a b) eqn:E; [|reflexivity]. apply str_eqb_eq in E. contradiction. Qed.

(* ---- the binding table is a finite map with last-writer-wins ---- *)
Lemma bind_get_set_same b n v : bind_get (bind_set b n v) n = Some v.
Proof.
  induction b as [|[k x] r IH]; cbn.
  - now rewrite str_eqb_refl.
  - destruct (str_eqb n k) eqn:E; cbn; [now rewrite str_eqb_refl|]. rewrite E. exact IH.
Qed.
Lemma bind_get_set_other b n m v : m <> n -> bind_get (bind_set b n v) m = bind_get b m.
Proof.
  intros Hne. induction b as [|[k x] r IH]; cbn.
  - now rewrite (str_eqb_neq m n Hne).
  - destruct (str_eqb n k) eqn:E; cbn.
    + apply str_eqb_eq in E. subst k. now rewrite (str_eqb_neq m n Hne).
    + destruct (str_eqb m k); [reflexivity|exact IH].
Qed.

(* abstract map: the value of a name after a history of definitions *)
Fixpoint map_after (ops : list (str * item)) (init : str -> option item) (m : str) : option item :=
  match ops with
  | [] => init m
  | (n, v) :: r => map_after r (fun k => if str_eqb k n then Some v else init k) m
  end.
Lemma map_after_ext ops : forall f g m, (forall k, f k = g k) -> map_after ops f m = map_after ops g m.
Proof.
  induction ops as [|[n v] r IH]; intros f g m E; cbn [map_after]; [apply E|].
  apply IH. intros k. now rewrite E.
Qed.
Lemma bindings_refine_map ops : forall b m,
  bind_get (fold_left (fun b e => bind_set b (fst e) (snd e)) ops b) m = map_after ops (bind_get b) m.
Proof.
  induction ops as [|[n v] r IH]; intros b m; cbn [fold_left map_after fst snd]; [reflexivity|].
  rewrite IH. clear IH.
  assert (E : forall k, bind_get (bind_set b n v) k = (if str_eqb k n then Some v else bind_get b k)).
  { intros k. destruct (str_eqb k n) eqn:E.
    - apply str_eqb_eq in E. subst. apply bind_get_set_same.
    - apply bind_get_set_other. intros ->. now rewrite str_eqb_refl in E. }
  now apply map_after_ext.
Qed.

Section Names.
  Context {FO : FloatOps}.
  Variable p : profile.
  Notation reg := full_registry.

  (* a name without a binding lands on the NAME stack *)
  Lemma unbound_name_to_name_stack w s n r :
    st_exec s = IName n :: r -> st_quote s = false -> bind_get (st_bind s) n = None ->
    step p reg w s = Ok (false, w, set_name (set_exec s r) (n :: st_name s)).
  Proof. intros E Q B. unfold step. rewrite E. cbn. rewrite Q, B. reflexivity. Qed.

  (* a bound name pushes its value on EXEC ... *)
  Lemma bound_name_pushes_value w s n r t :
    st_exec s = IName n :: r -> st_quote s = false -> bind_get (st_bind s) n = Some t ->
    step p reg w s = Ok (false, w, set_exec s (t :: r)).
  Proof. intros E Q B. unfold step. rewrite E. cbn. rewrite Q, B. reflexivity. Qed.

  (* ... and a literal on EXEC goes to its typed stack in the next step *)
  Lemma literal_goes_home w s v r :
    st_exec s = ILit v :: r -> step p reg w s = Ok (false, w, push_lit (set_exec s r) v).
  Proof. intros E. unfold step. now rewrite E. Qed.

  (* T.DEFINE binds the name to the top item of stack T, consuming both *)
  Lemma define_binds {A} (get : state -> list A) (set : state -> list A -> state) (mk : A -> item)
        (Hgn : forall s l, get (set_name s l) = get s) s n nr v vr :
    st_name s = n :: nr -> get s = v :: vr ->
    exists s', g_define get set mk s = Ok s' /\ bind_get (st_bind s') n = Some (mk v) /\
               (forall m, m <> n -> bind_get (st_bind s') m = bind_get (st_bind s) m).
  Proof.
    intros En Ev. unfold g_define. rewrite En. rewrite Hgn, Ev.
    eexists; split; [reflexivity|]. cbn. split.
    - apply bind_get_set_same.
    - intros m Hm. now apply bind_get_set_other.
  Qed.

  (* NAME.QUOTE: exactly the next identifier goes to NAME even if bound; the flag is then clear;
     the binding table is unchanged *)
  Lemma quoted_name_to_name_stack w s n r :
    st_exec s = IName n :: r -> st_quote s = true ->
    step p reg w s = Ok (false, w, set_quote (set_name (set_exec s r) (n :: st_name s)) false).
  Proof. intros E Q. unfold step. rewrite E. cbn. rewrite Q. reflexivity. Qed.

  Lemma code_definition_returns_binding s n nr t :
    st_name s = n :: nr -> bind_get (st_bind s) n = Some t ->
    code_definition s = Ok (push_code (set_name s nr) t).
  Proof. intros E B. unfold code_definition. rewrite E. cbn. now rewrite B. Qed.
End Names.

(* ---- the quote flag survives every non-identifier step ---- *)
Definition reg_quote_kept (reg : registry) : Prop :=
  forall n f, lookup reg n = Some f -> forall p w s w' s', f p w s = Ok (w', s') -> st_quote s = true -> st_quote s' = true.

Definition fp_quote_only_by_quote (fp : list (string * mask)) : Prop :=
  Forall (fun e => fst e = "NAME.QUOTE"%string \/ m_quote (snd e) = false) fp.

Lemma fp_lookup_in_pair fp n m : fp_lookup fp n = Some m -> In (n, m) fp.
Proof.
  induction fp as [|[k v] r IH]; cbn; [discriminate|].
  destruct (String.eqb n k) eqn:E; [|auto].
  intros H; inversion H; subst. apply String.eqb_eq in E. subst. now left.
Qed.

Lemma lookup_in_pair (tbl : list (string * sem)) n f :
  lookup (mk_registry tbl) n = Some f -> exists k, In (k, f) tbl.
Proof.
  induction tbl as [|[k v] r IH]; [discriminate|].
  unfold mk_registry in *. cbn [map lookup fst snd].
  destruct (str_eqb _ _).
  - intros H; inversion H; subst. exists k. now left.
  - intros H. destruct (IH H) as (k2 & Hk). exists k2. now right.
Qed.

Lemma framed_quote_kept tbl fp :
  table_framed tbl fp -> fp_quote_only_by_quote fp ->
  (forall f, In ("NAME.QUOTE"%string, f) tbl -> forall p w s w' s', f p w s = Ok (w', s') -> st_quote s' = true) ->
  reg_quote_kept (mk_registry tbl).
Proof.
  intros Hf Hq HQ n f L p w s w' s' E Q.
  destruct (lookup_in_pair _ _ _ L) as (k & Hin).
  unfold table_framed in Hf. rewrite Forall_forall in Hf.
  destruct (Hf _ Hin) as (m & Lm & Fr). cbn [fst snd] in *.
  apply fp_lookup_in_pair in Lm.
  unfold fp_quote_only_by_quote in Hq. rewrite Forall_forall in Hq.
  destruct (Hq _ Lm) as [Hk|Hm]; cbn [fst snd] in *.
  - subst k. eapply HQ; eauto.
  - specialize (Fr p w s w' s' E). unfold same_outside in Fr.
    assert (st_quote s' = st_quote s) by tauto. congruence.
Qed.

Lemma quote_survives_non_identifier p reg : reg_quote_kept reg ->
  forall w s t r fin w1 s1, st_exec s = t :: r -> (forall n, t <> IName n) -> st_quote s = true ->
  step p reg w s = Ok (fin, w1, s1) -> st_quote s1 = true /\ ((forall n, t <> IInstr n) -> st_bind s1 = st_bind s).
Proof.
  intros R w s t r fin w1 s1 E NI Q H. unfold step in H. rewrite E in H.
  destruct t.
  - inversion H; subst. split; [exact Q|reflexivity].
  - destruct (lookup reg name) eqn:L.
    + destruct (s0 p w (set_exec s r)) as [[w2 s2]| |] eqn:Es; cbn in H; inversion H; subst.
      split; [eapply R; eauto|]. intros Hn. exfalso. eapply Hn. reflexivity.
    + inversion H; subst. split; [exact Q|reflexivity].
  - inversion H; subst. split; [destruct v; exact Q|intros _; destruct v; reflexivity].
  - exfalso. eapply NI. reflexivity.
Qed.

Section CoreQuote.
  Context {FO : FloatOps}.
  Lemma core_quote_kept : reg_quote_kept (mk_registry tbl_core).
  Proof.
    apply (framed_quote_kept _ fp_core core_framed).
    - unfold fp_quote_only_by_quote, fp_core, fp_family. cbn [app].
      repeat (apply Forall_cons; [cbn; first [right; reflexivity | left; reflexivity]|]). apply Forall_nil.
    - intros f Hin p w s w' s' E.
      unfold tbl_core, tbl_boolean, tbl_integer, tbl_float, tbl_name, tbl_code, tbl_exec, tbl_index, stack_family in Hin.
      cbn [app] in Hin.
      repeat (destruct Hin as [Hin|Hin]; [inversion Hin; subst; clear Hin|]); try contradiction.
      unfold pure, name_quote in E. cbn in E. inversion E. reflexivity.
  Qed.
End CoreQuote.

(* ---- the full registry ---- *)
From PushModel Require Import Proofs.FrameProofs2.

Lemma fp_quote_only_by_quote_b fp :
  forallb (fun e : string * mask => String.eqb (fst e) "NAME.QUOTE" || negb (m_quote (snd e))) fp = true ->
  fp_quote_only_by_quote fp.
Proof.
  intros H. unfold fp_quote_only_by_quote. rewrite Forall_forall. rewrite forallb_forall in H.
  intros e Hin. specialize (H e Hin). apply orb_prop in H as [H|H].
  - left. now apply String.eqb_eq.
  - right. now destruct (m_quote (snd e)).
Qed.

Lemma not_in_keys {B} (t : list (string * B)) k f :
  existsb (String.eqb k) (map fst t) = false -> ~ In (k, f) t.
Proof.
  intros H Hin. apply (in_map fst) in Hin. cbn [fst] in Hin.
  assert (E : existsb (String.eqb k) (map fst t) = true).
  { apply existsb_exists. exists k. split; [exact Hin|apply String.eqb_refl]. }
  congruence.
Qed.

Section FullQuote.
  Context {FO : FloatOps}.
  Lemma full_quote_kept : reg_quote_kept full_registry.
  Proof.
    apply (framed_quote_kept _ fp_all all_framed).
    - apply fp_quote_only_by_quote_b. vm_compute. reflexivity.
    - intros f Hin p w s w' s' E. unfold full_table, base_table in Hin.
      apply in_app_or in Hin as [Hin|Hin]; [apply in_app_or in Hin as [Hin|Hin]|].
      + unfold tbl_core, tbl_boolean, tbl_integer, tbl_float, tbl_name, tbl_code, tbl_exec, tbl_index, stack_family in Hin.
        cbn [app] in Hin.
        repeat (destruct Hin as [Hin|Hin]; [inversion Hin; subst; clear Hin|]); try contradiction.
        unfold pure, name_quote in E. cbn in E. inversion E. reflexivity.
      + exfalso. revert Hin. apply not_in_keys. vm_compute. reflexivity.
      + exfalso. revert Hin. apply not_in_keys. vm_compute. reflexivity.
  Qed.
End FullQuote.

(* C10 (second half): an instruction that lacks a needed operand (Spec/Footprint.v, the nd_ tables)
   only pops: nothing is pushed or changed, the world is untouched.  One tactic: case
   analysis on the shapes of the operand stacks that are too short, then the body is run. *)
From Coq Require Import ZArith String List Bool Lia ZifyBool.
From PushModel Require Import Base.Sx Base.Machine Base.ListOps Base.F32 Model.Item Model.GraphT Model.State
  Model.InstrBase Model.IScalar Model.ICode Model.Registry Model.Interp
  Model.IVector Model.RegistryVec Model.IList Model.IIo Model.RegistryListIo Model.IGraph Model.RegistryGraph
  Model.INeighbor Model.RegistryNbr Model.RandomGen Model.IRand Model.RegistryRand Model.RegistryAll Spec.Footprint Proofs.Frame Proofs.FrameProofs Proofs.FrameProofs2.
Import ListNotations.
Open Scope string_scope.

Definition unfired_ok (nd : need) (f : sem) : Prop :=
  forall p w s w' s', lacking_in nd s = true -> f p w s = Ok (w', s') -> only_pops s s' /\ w' = w.

(* ---- "the list has fewer than k items", structurally ---- *)
Fixpoint shorter {A} (l : list A) (k : nat) : bool :=
  match k with
  | O => false
  | S k' => match l with [] => true | _ :: r => shorter r k' end
  end.
Lemma ltb_length {A} (l : list A) k : Nat.ltb (length l) k = shorter l k.
Proof.
  revert l; induction k as [|k IH]; intros l; [destruct l; reflexivity|].
  destruct l as [|x r]; [reflexivity|]. cbn [length shorter]. rewrite <- IH. reflexivity.
Qed.

(* ---- the positional accessors on stacks that are too short ---- *)
Open Scope Z_scope.
Lemma l_yank_nil {A} i : @l_yank A [] i = [].
Proof. unfold l_yank. destruct (_ && _); [|reflexivity]. destruct (Z.to_nat i); reflexivity. Qed.
Lemma l_yank_one {A} (x : A) i : l_yank [x] i = [x].
Proof.
  unfold l_yank, zlen. cbn [length]. destruct ((0 <? i) && (i <? Z.of_nat 1)) eqn:E; [|reflexivity]. lia.
Qed.
Lemma l_yank_two {A} (x y : A) : l_yank [x; y] 2 = [x; y].
Proof. reflexivity. Qed.
Lemma l_shove_nil {A} i : @l_shove A [] i = [].
Proof. unfold l_shove. destruct (_ && _); reflexivity. Qed.
Lemma l_shove_one {A} (x : A) i : l_shove [x] i = [x].
Proof.
  unfold l_shove, zlen. cbn [length]. destruct ((0 <? i) && (i <? Z.of_nat 1)) eqn:E; [|reflexivity]. lia.
Qed.
Lemma l_copy_nil {A} i : @l_copy A [] i = None.
Proof. unfold l_copy. destruct (_ && _); [|reflexivity]. destruct (Z.to_nat i); reflexivity. Qed.
Lemma l_remove_nil {A} i : @l_remove A [] i = [].
Proof. unfold l_remove, zlen. cbn [length]. destruct ((0 <=? i) && (i <? Z.of_nat 0)) eqn:E; [|reflexivity]. lia. Qed.
Lemma l_replace_nil {A} i (x : A) : l_replace [] i x = [].
Proof. unfold l_replace, zlen. cbn [length]. destruct ((0 <=? i) && (i <? Z.of_nat 0)) eqn:E; [|reflexivity]. lia. Qed.
Lemma gs_get_nil i : gs_get [] i = None.
Proof. unfold gs_get, zlen. cbn [length]. destruct ((0 <=? i) && (i <? Z.of_nat 0)) eqn:E; [|reflexivity]. lia. Qed.
Lemma gs_get_one_1 g : gs_get [g] 1 = None.
Proof. reflexivity. Qed.
Close Scope Z_scope.

(* ---- the tactic ---- *)
Ltac shape_one L :=
  lazymatch type of L with
  | true = true => clear L
  | false = true => discriminate L
  | shorter ?l _ = true => destruct l; cbn [shorter] in L; shape_one L
  end.
Ltac shape_cases L :=
  lazymatch type of L with
  | (_ || _) = true => apply orb_prop in L; destruct L as [L|L]; [shape_one L | shape_cases L]
  | false = true => discriminate L
  end.

Ltac unfold_state H :=
  cbv beta iota delta [
    st_bool st_code st_exec st_float st_index st_int st_name st_bvec st_fvec st_ivec st_input st_output
    st_graph st_bind st_cfg st_quote st_send
    set_bool set_code set_exec set_float set_index set_int set_name set_bvec set_fvec set_ivec set_input set_output
    set_graph set_bind set_cfg set_quote set_send] in H.

Ltac unfold_core H :=
  cbv beta iota zeta delta [
    g_dup g_pop g_swap g_rot g_flush g_depth g_yank g_shove g_yankdup g_define
    bool_bin boolean_eq boolean_and boolean_or boolean_not boolean_from_float boolean_from_integer boolean_id
    int_bin int_cmp integer_add integer_sub integer_mul integer_div integer_mod integer_lt integer_eq integer_gt
    integer_max integer_min integer_abs integer_ddup integer_from_boolean integer_from_float integer_id integer_stack_depth
    float_bin float_cmp float_add float_sub float_mul float_div float_mod float_lt float_eq float_gt float_max float_min
    float_libm float_cos float_sin float_tan float_exp float_from_boolean float_from_integer float_id
    name_cat name_equal name_quote name_send name_id
    code_eq code_append code_atom code_car code_cdr code_cons code_container code_contains code_member code_definition
    code_discrepancy code_do code_do_star loop_g code_loop exec_loop code_extract code_from code_from_bool code_from_float
    code_from_int code_from_name code_if exec_if code_insert code_length code_list code_nth code_null code_position
    code_print code_quote code_size code_subst code_id noop exec_eq exec_k exec_s exec_y exec_id exec_cmd
    index_current index_define index_destination index_increase
    push_int push_bool push_float push_code push_exec push_name libm1 rbind pure purep fst snd] in H.

Ltac suffix_tac :=
  first [ exists 0%nat; reflexivity | exists 1%nat; reflexivity | exists 2%nat; reflexivity
        | exists 3%nat; reflexivity | exists 4%nat; reflexivity ].

Ltac short_rewrites H :=
  rewrite ?l_yank_nil, ?l_yank_one, ?l_yank_two, ?l_shove_nil, ?l_shove_one, ?l_copy_nil,
          ?l_remove_nil, ?l_replace_nil, ?gs_get_nil, ?gs_get_one_1 in H;
  cbn [fst snd] in H.

(* one case split at a time: the short-stack rewrites cannot fire under the binders of a match *)
Ltac split_step H :=
  match type of H with
  | context [match ?x with _ => _ end] =>
      match x with
      | context [match _ with _ => _ end] => fail 1
      | _ => destruct x eqn:?; try discriminate H
      end
  | context [match overlay_run ?a ?b ?c ?d with _ => _ end] => destruct (overlay_run a b c d) eqn:?
  end.
Ltac unfired_finish H :=
  repeat (short_rewrites H; split_step H); short_rewrites H;
  inversion H; subst; clear H;
  (split; [|first [reflexivity | match goal with |- _ = ?w => destruct w; reflexivity end]]);
  unfold only_pops;
  cbn [st_bool st_code st_exec st_float st_index st_int st_name st_bvec st_fvec st_ivec st_input st_output
       st_graph st_bind st_cfg st_quote st_send];
  repeat split; first [reflexivity | suffix_tac].

(* [unf] unfolds the family's bodies in the hypothesis *)
Ltac unfired_tac unf :=
  let p := fresh "p" in let w := fresh "w" in let s := fresh "s" in
  let w' := fresh "w'" in let s' := fresh "s'" in let L := fresh "L" in let H := fresh "H" in
  intros p w s w' s' L H;
  destruct s as [sb sc se sf sx si sn sbv sfv siv sin sout sg sbd scfg sq ss];
  cbn [lacking_in existsb depth fst snd
       st_bool st_code st_exec st_float st_index st_int st_name st_bvec st_fvec st_ivec st_input st_output
       st_graph st_bind st_cfg st_quote st_send] in L;
  rewrite ?ltb_length in L;
  shape_cases L;
  (unf H; unfold_state H; short_rewrites H; unfired_finish H).

(* ---- only_pops is a preorder; load_items only pops ---- *)
Lemma suffix_refl {A} (l : list A) : suffix l l.
Proof. exists 0%nat. reflexivity. Qed.
Lemma skipn_add {A} k' k : forall l : list A, skipn k' (skipn k l) = skipn (k + k') l.
Proof.
  induction k as [|k IH]; intros l; [reflexivity|].
  destruct l as [|x r]; cbn [skipn Nat.add]; [destruct k'; reflexivity|apply IH].
Qed.
Lemma suffix_trans {A} (a b c : list A) : suffix b a -> suffix c b -> suffix c a.
Proof. intros [k ->] [k' ->]. exists (k + k')%nat. apply skipn_add. Qed.
Lemma suffix_tl {A} (x : A) (l : list A) : suffix l (x :: l).
Proof. exists 1%nat. reflexivity. Qed.
Lemma suffix_nil {A} (l : list A) : suffix l [] -> l = [].
Proof. intros [k ->]. destruct k; reflexivity. Qed.

Lemma only_pops_refl s : only_pops s s.
Proof. unfold only_pops. repeat split; try apply suffix_refl. Qed.
Lemma only_pops_trans a b c : only_pops a b -> only_pops b c -> only_pops a c.
Proof.
  unfold only_pops. intros H1 H2.
  repeat match goal with H : _ /\ _ |- _ => destruct H end.
  repeat split; try (eapply suffix_trans; eassumption); congruence.
Qed.

Lemma take_id_only_pops sid s x s1 : take_id sid s = Some (x, s1) -> only_pops s s1.
Proof.
  unfold take_id. intros H.
  repeat match type of H with
         | (if ?c then _ else _) = _ => destruct c
         | match ?l with _ => _ end = _ => destruct l eqn:?; try discriminate H
         end;
  try discriminate H; inversion H; subst; unfold only_pops;
  cbn [st_bool st_code st_exec st_float st_index st_int st_name st_bvec st_fvec st_ivec st_input st_output
       st_graph st_bind st_cfg st_quote st_send set_bool set_code set_exec set_float set_int set_name set_bvec set_fvec set_ivec];
  repeat split; try apply suffix_refl;
  match goal with E : ?f s = _ :: ?r |- suffix ?r (?f s) => rewrite E; apply suffix_tl end.
Qed.
Lemma load_ids_only_pops ids : forall s, only_pops s (snd (load_ids ids s)).
Proof.
  induction ids as [|sid r IH]; intros s; cbn [load_ids]; [apply only_pops_refl|].
  destruct (take_id sid s) as [[x s1]|] eqn:E; [|apply IH].
  specialize (IH s1). destruct (load_ids r s1) as [xs s2]. cbn [snd] in *.
  eapply only_pops_trans; [eapply take_id_only_pops; exact E|exact IH].
Qed.

Definition table_unfired (tbl : list (string * sem)) (ndt : list (string * need)) : Prop :=
  Forall (fun e => exists nd, nd_lookup ndt (fst e) = Some nd /\ unfired_ok nd (snd e)) tbl.

Ltac utable_tac tac :=
  repeat (apply Forall_cons; [eexists; split; [reflexivity|]; cbn [snd]; tac|]);
  apply Forall_nil.

Section Unfired.
  Context {FO : FloatOps}.

  Lemma core_unfired : table_unfired tbl_core nd_core.
  Proof.
    unfold table_unfired, tbl_core, tbl_boolean, tbl_integer, tbl_float, tbl_name, tbl_code, tbl_exec, tbl_index, stack_family.
    cbn [app].
    Time utable_tac ltac:(unfired_tac unfold_core).
  Time Qed.

  Ltac unfold_listio2 H :=
    cbv beta iota zeta delta [list_add list_set load_items] in H; unfold_listio H.

  Lemma bvec_unfired : table_unfired tbl_bvec nd_bvec.
  Proof. unfold table_unfired, tbl_bvec. open_vec_table. Time utable_tac ltac:(unfired_tac unfold_vec). Time Qed.
  Lemma ivec_unfired : table_unfired tbl_ivec nd_ivec.
  Proof. unfold table_unfired, tbl_ivec. open_vec_table. Time utable_tac ltac:(unfired_tac unfold_vec). Time Qed.
  Lemma fvec_unfired : table_unfired tbl_fvec nd_fvec.
  Proof. unfold table_unfired, tbl_fvec. open_vec_table. Time utable_tac ltac:(unfired_tac unfold_vec). Time Qed.
  (* LIST.SET: the three ways of lacking an operand; on an empty CODE stack the new record is dropped *)
  Lemma list_set_unfired : unfired_ok [(FInt, 1); (FIvec, 1); (FCode, 1)]%nat (pure list_set).
  Proof.
    intros p w s w' s' L H. unfold pure, list_set, rbind in H.
    destruct (st_int s) as [|idx ir] eqn:Ei; [inversion H; subst; split; [apply only_pops_refl|reflexivity]|].
    assert (P1 : only_pops s (set_int s ir)).
    { unfold only_pops. cbn [st_bool st_code st_exec st_float st_index st_int st_name st_bvec st_fvec st_ivec
        st_input st_output st_graph st_bind st_cfg st_quote st_send set_int].
      repeat split; try apply suffix_refl. rewrite Ei. apply suffix_tl. }
    unfold load_items in H. cbn [st_ivec set_int] in H.
    destruct (st_ivec s) as [|ids vr] eqn:Ev; [inversion H; subst; split; [exact P1|reflexivity]|].
    (* both INTEGER and INTVECTOR are there: the CODE stack is empty *)
    assert (Ec : st_code s = []).
    { unfold lacking_in in L. cbn [existsb fst snd depth] in L. rewrite Ei, Ev in L. cbn [length Nat.ltb Nat.leb orb] in L.
      destruct (st_code s); [reflexivity|discriminate L]. }
    pose proof (load_ids_only_pops ids (set_ivec (set_int s ir) vr)) as P3.
    destruct (load_ids ids (set_ivec (set_int s ir) vr)) as [items s2]. cbn [snd] in P3.
    inversion H; subst. split; [|reflexivity].
    assert (P2 : only_pops (set_int s ir) (set_ivec (set_int s ir) vr)).
    { unfold only_pops. cbn [st_bool st_code st_exec st_float st_index st_int st_name st_bvec st_fvec st_ivec
        st_input st_output st_graph st_bind st_cfg st_quote st_send set_int set_ivec].
      repeat split; try apply suffix_refl. rewrite Ev. apply suffix_tl. }
    pose proof (only_pops_trans _ _ _ P1 (only_pops_trans _ _ _ P2 P3)) as P.
    assert (Ec2 : st_code s2 = []).
    { destruct P as (_ & Hc & _). rewrite Ec in Hc. now apply suffix_nil. }
    rewrite Ec2, l_replace_nil.
    unfold only_pops in *. cbn [st_bool st_code st_exec st_float st_index st_int st_name st_bvec st_fvec st_ivec
        st_input st_output st_graph st_bind st_cfg st_quote st_send set_code].
    repeat match goal with H : _ /\ _ |- _ => destruct H end.
    repeat split; try assumption. rewrite Ec. apply suffix_refl.
  Qed.

  Lemma list_unfired : table_unfired tbl_list nd_list.
  Proof.
    unfold table_unfired, tbl_list.
    Time utable_tac ltac:(first [exact list_set_unfired | unfired_tac unfold_listio2]).
  Time Qed.
  Lemma io_unfired : table_unfired tbl_io nd_io.
  Proof. unfold table_unfired, tbl_io. Time utable_tac ltac:(unfired_tac unfold_listio2). Time Qed.
  Lemma graph_unfired : table_unfired tbl_graph nd_graph.
  Proof.
    unfold table_unfired, tbl_graph, all_ginstr. cbn [map ginstr_name ginstr_sem].
    Time utable_tac ltac:(unfired_tac unfold_graph).
  Time Qed.

  (* ---------------- concatenation ---------------- *)
  Definition nd_fresh_b (nd : list (string * need)) (names : list string) : bool :=
    forallb (fun n => match nd_lookup nd n with None => true | Some _ => false end) names.
  Lemma nd_lookup_app_l a b n m : nd_lookup a n = Some m -> nd_lookup (a ++ b) n = Some m.
  Proof.
    induction a as [|[k v] r IH]; cbn [nd_lookup app]; [discriminate|].
    destruct (String.eqb n k); auto.
  Qed.
  Lemma nd_lookup_app_r a b n : nd_lookup a n = None -> nd_lookup (a ++ b) n = nd_lookup b n.
  Proof.
    induction a as [|[k v] r IH]; cbn [nd_lookup app]; [reflexivity|].
    destruct (String.eqb n k); [discriminate|auto].
  Qed.
  Lemma table_unfired_app t1 t2 n1 n2 :
    table_unfired t1 n1 -> table_unfired t2 n2 -> nd_fresh_b n1 (map fst t2) = true ->
    table_unfired (t1 ++ t2) (n1 ++ n2).
  Proof.
    unfold table_unfired. intros H1 H2 Hf. apply Forall_app. split.
    - eapply Forall_impl; [|exact H1]. intros e (m & L & F). exists m. split; [now apply nd_lookup_app_l|exact F].
    - unfold nd_fresh_b in Hf. rewrite forallb_forall in Hf.
      rewrite Forall_forall in *. intros e Hin. destruct (H2 e Hin) as (m & L & F).
      exists m. split; [|exact F].
      rewrite nd_lookup_app_r; [exact L|].
      specialize (Hf (fst e) (in_map fst _ _ Hin)). destruct (nd_lookup n1 (fst e)); [discriminate|reflexivity].
  Qed.

  Lemma nbr_unfired : table_unfired tbl_nbr nd_nbr.
  Proof. unfold table_unfired, tbl_nbr. Time utable_tac ltac:(unfired_tac unfold_nbr). Time Qed.
  Lemma rand_unfired instrs : table_unfired (tbl_rand instrs) nd_rand.
  Proof. unfold table_unfired, tbl_rand. Time utable_tac ltac:(unfired_tac unfold_rand). Time Qed.

  (* the whole registry: one [table_unfired_app] per family *)
  Lemma base_unfired : table_unfired base_table nd_base.
  Proof.
    unfold base_table, nd_base.
    apply (table_unfired_app _ _ _ _ core_unfired); [|vm_compute; reflexivity].
    apply (table_unfired_app _ _ _ _ bvec_unfired); [|vm_compute; reflexivity].
    apply (table_unfired_app _ _ _ _ ivec_unfired); [|vm_compute; reflexivity].
    apply (table_unfired_app _ _ _ _ fvec_unfired); [|vm_compute; reflexivity].
    apply (table_unfired_app _ _ _ _ list_unfired); [|vm_compute; reflexivity].
    apply (table_unfired_app _ _ _ _ io_unfired); [|vm_compute; reflexivity].
    apply (table_unfired_app _ _ _ _ graph_unfired); [|vm_compute; reflexivity].
    exact nbr_unfired.
  Qed.
  Lemma all_unfired : table_unfired full_table nd_all.
  Proof.
    unfold full_table, nd_all.
    apply (table_unfired_app _ _ _ _ base_unfired (rand_unfired _)).
    rewrite tbl_rand_names. vm_compute. reflexivity.
  Qed.

  Theorem unfired_only_pops n f : In (n, f) full_table ->
    forall p w s w' s', lacking n s = true -> f p w s = Ok (w', s') -> only_pops s s' /\ w' = w.
  Proof.
    intros Hin p w s w' s' L E.
    pose proof all_unfired as AU. unfold table_unfired in AU. rewrite Forall_forall in AU.
    destruct (AU _ Hin) as (nd & Ln & U). cbn [fst snd] in *.
    unfold lacking, needs in L. rewrite Ln in L. exact (U p w s w' s' L E).
  Qed.
End Unfired.

(* C10: one interpreter step changes only EXEC plus the footprint of the item it executes. *)
From Coq Require Import ZArith String List Bool Lia.
From PushModel Require Import Base.Sx Base.Machine Base.ListOps Base.F32 Model.Item Model.GraphT Model.State
  Model.InstrBase Model.Registry Model.Interp Model.RegistryAll
  Spec.Footprint Proofs.Frame Proofs.FrameProofs Proofs.FrameProofs2 Proofs.CfgStable Proofs.NameProofs.
Import ListNotations.
Open Scope string_scope.

(* a registry lookup finds an entry of the table, under the name's code points *)
Lemma lookup_in_key (tbl : list (string * sem)) n f :
  lookup (mk_registry tbl) n = Some f -> exists k, n = s2l k /\ In (k, f) tbl.
Proof.
  induction tbl as [|[k v] r IH]; [discriminate|].
  unfold mk_registry in *. cbn [map lookup fst snd].
  destruct (str_eqb n (s2l k)) eqn:E.
  - intros H; inversion H; subst. exists k. split; [now apply str_eqb_eq|now left].
  - intros H. destruct (IH H) as (k2 & Hn & Hk). exists k2. split; [exact Hn|now right].
Qed.
Lemma lookup_none_key (tbl : list (string * sem)) k :
  lookup (mk_registry tbl) (s2l k) = None -> ~ In k (map fst tbl).
Proof.
  induction tbl as [|[k0 v] r IH]; [intros _ []|].
  unfold mk_registry in *. cbn [map lookup fst snd].
  destruct (str_eqb (s2l k) (s2l k0)) eqn:E; [discriminate|].
  intros H [Hk|Hk]; [subst; now rewrite str_eqb_refl in E|now apply IH].
Qed.
Lemma fp_lookup_key fp k m : fp_lookup fp k = Some m -> In k (map fst fp).
Proof. intros H. apply fp_lookup_in_pair in H. now apply (in_map fst) in H. Qed.

Lemma also_exec_after m s r s' :
  same_outside m (set_exec s r) s' -> same_outside (also_exec m) s s'.
Proof.
  unfold same_outside. cbn [also_exec m_bool m_code m_exec m_float m_index m_int m_name m_bvec m_fvec m_ivec
    m_input m_output m_graph m_bind m_cfg m_quote m_send].
  intros H. repeat match goal with H : _ /\ _ |- _ => destruct H end.
  repeat split; intros Hm; try discriminate;
    match goal with H : _ = false -> ?x = _ |- ?x = _ => exact (H Hm) end.
Qed.

Section StepFrame.
  Context {FO : FloatOps}.

  (* every documented name is a registered name *)
  Lemma fp_all_keys_registered k : In k (map fst fp_all) -> In k (map fst full_table).
  Proof.
    assert (H : forallb (fun k => existsb (String.eqb k) (map fst full_table)) (map fst fp_all) = true)
      by (vm_compute; reflexivity).
    rewrite forallb_forall in H. intros Hin. specialize (H k Hin).
    apply existsb_exists in H as (k' & Hin' & E). apply String.eqb_eq in E. now subst.
  Qed.

  Theorem step_frame p w s t r fin w1 s1 :
    st_exec s = t :: r -> step p full_registry w s = Ok (fin, w1, s1) ->
    exists m, step_fp fp_all t m /\ same_outside (also_exec m) s s1.
  Proof.
    intros E H. unfold step in H. rewrite E in H. destruct t as [l|n|v|n].
    - exists (W []). split; [constructor|]. inversion H; subst.
      so_split; intros; try discriminate; reflexivity.
    - destruct (lookup full_registry n) as [f|] eqn:L.
      + destruct (f p w (set_exec s r)) as [[w2 s2]| |] eqn:Ef; cbn in H; inversion H; subst.
        destruct (lookup_in_key _ _ _ L) as (k & -> & Hin).
        pose proof all_framed as AF. unfold table_framed in AF. rewrite Forall_forall in AF.
        destruct (AF _ Hin) as (m & Lm & Fr). cbn [fst snd] in *.
        exists m. split; [now constructor|].
        eapply also_exec_after. eapply Fr. exact Ef.
      + exists (W []). split.
        * apply sf_unknown. intros k ->. destruct (fp_lookup fp_all k) as [m|] eqn:Lk; [|reflexivity].
          exfalso. apply fp_lookup_key in Lk. apply fp_all_keys_registered in Lk.
          exact (lookup_none_key _ _ L Lk).
        * inversion H; subst. so_split; intros; try discriminate; reflexivity.
    - exists (W [lit_fld v]). split; [constructor|]. inversion H; subst.
      destruct v; so_split; intros; try discriminate; reflexivity.
    - exists (W [FName; FQuote]). split; [constructor|].
      cbn [st_quote set_exec st_bind st_name st_exec] in H.
      destruct (st_quote s); [inversion H; subst; so_split; intros; try discriminate; reflexivity|].
      destruct (bind_get (st_bind s) n); inversion H; subst; so_split; intros; try discriminate; reflexivity.
  Qed.
End StepFrame.

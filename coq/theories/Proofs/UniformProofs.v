(* C05: every typed copy of a stack-manipulation instruction is the generic one. *)
From Coq Require Import ZArith String List Bool.
From PushModel Require Import Base.Sx Base.Machine Base.F32 Model.Item Model.GraphT Model.State
  Model.InstrBase Model.Registry Model.Interp Model.RegistryAll Proofs.StackOpsProofs.
Import ListNotations.
Open Scope string_scope.

Section Uniform.
  Context {FO : FloatOps}.

  Definition reg_is (name : string) (f : instr) : Prop :=
    lookup full_registry (s2l name) = Some (pure f).

  Definition uniform_for {A} (pre : string) (L : lens A) : Prop :=
    reg_is (pre ++ ".DUP") (g_dup (lget L) (lset L)) /\
    reg_is (pre ++ ".POP") (g_pop (lget L) (lset L)) /\
    reg_is (pre ++ ".SWAP") (g_swap (lget L) (lset L)) /\
    reg_is (pre ++ ".ROT") (g_rot (lget L) (lset L)) /\
    reg_is (pre ++ ".FLUSH") (g_flush (lset L)) /\
    reg_is (pre ++ ".YANK") (g_yank (lget L) (lset L)) /\
    reg_is (pre ++ ".YANKDUP") (g_yankdup (lget L) (lset L)) /\
    reg_is (pre ++ ".SHOVE") (g_shove (lget L) (lset L)).

  Ltac uni := unfold uniform_for, reg_is; repeat split; reflexivity.

  Lemma uniform_scalar :
    uniform_for "BOOLEAN" L_bool /\ uniform_for "INTEGER" L_int /\ uniform_for "FLOAT" L_float /\
    uniform_for "NAME" L_name /\ uniform_for "CODE" L_code /\ uniform_for "EXEC" L_exec.
  Proof. repeat split; reflexivity. Qed.

  Lemma depth_uniform :
    reg_is "BOOLEAN.STACKDEPTH" (g_depth st_bool) /\ reg_is "FLOAT.STACKDEPTH" (g_depth st_float) /\
    reg_is "NAME.STACKDEPTH" (g_depth st_name) /\ reg_is "CODE.STACKDEPTH" (g_depth st_code) /\
    reg_is "EXEC.STACKDEPTH" (g_depth st_exec).
  Proof. repeat split; reflexivity. Qed.
End Uniform.

(* C09 — the vector model (Model/IVector.v) meets the abstract description (Spec/VecSpec.v). *)
From Coq Require Import ZArith List Bool Lia Arith ZifyBool Sorting.Permutation Sorting.Sorted.
From PushModel Require Import Base.Sx Base.Machine Base.ListOps Base.F32 Model.Item Model.State Model.InstrBase
  Model.IVector Spec.VecSpec.
Import ListNotations.
Open Scope Z_scope.

(* ------------------------------------------------------------------ *)
(* list facts *)
Section ListFacts.
  Context {A : Type}.

  Lemma nth_error_upd_eq (l : list A) k a : (k < length l)%nat -> nth_error (upd l k a) k = Some a.
  Proof.
    revert k; induction l as [|x r IH]; intros [|k] H; cbn [length] in H; cbn [upd nth_error]; try lia; auto.
    apply IH. lia.
  Qed.

  Lemma nth_error_upd_neq (l : list A) k j a : j <> k -> nth_error (upd l k a) j = nth_error l j.
  Proof.
    revert k j; induction l as [|x r IH]; intros [|k] [|j] H; cbn [upd nth_error]; auto; try congruence.
  Qed.

  Lemma nth_error_ext (l l' : list A) : (forall n, nth_error l n = nth_error l' n) -> l = l'.
  Proof.
    revert l'; induction l as [|x r IH]; intros [|y r'] H; auto.
    - specialize (H O). discriminate.
    - specialize (H O). discriminate.
    - pose proof (H O) as H0. cbn in H0. injection H0 as ->. f_equal. apply IH. intro n. apply (H (S n)).
  Qed.

  Lemma zlen_upd (l : list A) k a : zlen (upd l k a) = zlen l.
  Proof. unfold zlen. now rewrite upd_length. Qed.

  Lemma nth_error_mapi_from {B} (f : Z -> A -> B) (l : list A) i n :
    nth_error (mapi_from f i l) n = option_map (f (i + Z.of_nat n)) (nth_error l n).
  Proof.
    revert i n; induction l as [|x r IH]; intros i [|n]; cbn [mapi_from nth_error option_map]; auto.
    - now rewrite Z.add_0_r.
    - rewrite IH. f_equal. f_equal. lia.
  Qed.

  Lemma mapi_from_length {B} (f : Z -> A -> B) (l : list A) i : length (mapi_from f i l) = length l.
  Proof. revert i; induction l as [|x r IH]; intro i; cbn [mapi_from length]; auto. Qed.

  Lemma elem_at_nil k : elem_at (@nil A) k = None.
  Proof. unfold elem_at. destruct (k <? 0); auto. now destruct (Z.to_nat k). Qed.

  Lemma elem_at_cons (t : A) r k : elem_at (t :: r) k = if k =? 0 then Some t else elem_at r (k - 1).
  Proof.
    unfold elem_at.
    destruct (Z.eqb_spec k 0) as [->|Hk]; [reflexivity|].
    destruct (Z.ltb_spec k 0) as [Hlt|Hge].
    - destruct (Z.ltb_spec (k - 1) 0); [reflexivity|lia].
    - destruct (Z.ltb_spec (k - 1) 0); [lia|].
      replace (Z.to_nat k) with (S (Z.to_nat (k - 1))) by lia. reflexivity.
  Qed.

  Lemma elem_at_Some (v : list A) k y : elem_at v k = Some y -> 0 <= k < Z.of_nat (length v).
  Proof.
    unfold elem_at. destruct (Z.ltb_spec k 0); [discriminate|]. intro Hs.
    assert (Hn : nth_error v (Z.to_nat k) <> None) by congruence.
    apply nth_error_Some in Hn. lia.
  Qed.

  Lemma elem_at_in (v : list A) k : 0 <= k < Z.of_nat (length v) -> exists y, elem_at v k = Some y.
  Proof.
    intro H. unfold elem_at. destruct (Z.ltb_spec k 0); [lia|].
    destruct (nth_error v (Z.to_nat k)) eqn:E; [eauto|].
    apply nth_error_None in E. lia.
  Qed.

  (* opt_all *)
  Lemma opt_all_none (l : list (option A)) n : nth_error l n = Some None -> opt_all l = None.
  Proof.
    revert n; induction l as [|[x|] r IH]; intros [|n] H; cbn [nth_error opt_all] in *; try discriminate; auto.
    now rewrite (IH n H).
  Qed.

  Lemma opt_all_some (l : list (option A)) (v : list A) :
    (forall n, nth_error l n = option_map Some (nth_error v n)) -> opt_all l = Some v.
  Proof.
    revert v; induction l as [|o r IH]; intros v H.
    - destruct v; [reflexivity|]. specialize (H O). discriminate.
    - destruct v as [|y v'].
      + specialize (H O). discriminate.
      + pose proof (H O) as H0. cbn in H0. injection H0 as ->. cbn [opt_all].
        rewrite (IH v'); [reflexivity|]. intro n. apply (H (S n)).
  Qed.
End ListFacts.

(* ------------------------------------------------------------------ *)
(* the element-wise loop *)
Section Overlay.
  Context {A : Type}.
  Variable op : A -> A -> option A.
  Variable off : Z.

  Definition keep (o : option A) (x : A) : A := match o with Some y => y | None => x end.

  (* overlay_elem as seen by a loop that has advanced to index i of the top vector *)
  Definition oe (top : list A) (i : Z) (n : nat) (x : A) : option A :=
    match elem_at top (Z.of_nat n - off - i) with Some y => op x y | None => Some x end.

  Lemma oe_nil i n x : oe [] i n x = Some x.
  Proof. unfold oe. now rewrite elem_at_nil. Qed.

  Lemma oe_cons t r i n x :
    oe (t :: r) i n x = if Z.of_nat n - off - i =? 0 then op x t else oe r (i + 1) n x.
  Proof.
    unfold oe. rewrite elem_at_cons.
    destruct (Z.eqb_spec (Z.of_nat n - off - i) 0); [reflexivity|].
    replace (Z.of_nat n - off - (i + 1)) with (Z.of_nat n - off - i - 1) by lia. reflexivity.
  Qed.

  Lemma ov_loop_inv : forall top i size acc inv v inv',
    size = zlen acc ->
    ov_loop op off size top i acc inv = (v, inv') ->
    length v = length acc /\
    (forall n x, nth_error acc n = Some x -> nth_error v n = Some (keep (oe top i n x) x)) /\
    (inv' = true <-> inv = true \/ exists n x, nth_error acc n = Some x /\ oe top i n x = None).
  Proof.
    induction top as [|t r IH]; intros i size acc inv v inv' Hsize Hrun.
    - cbn [ov_loop] in Hrun. injection Hrun as <- <-. split; [reflexivity|]. split.
      + intros n x Hn. now rewrite oe_nil.
      + split; [auto|]. intros [H|(n & x & _ & H)]; [exact H|]. rewrite oe_nil in H. discriminate.
    - cbn [ov_loop] in Hrun. unfold offset_index in Hrun.
      assert (Hnr : forall n x, nth_error acc n = Some x -> (n < length acc)%nat).
      { intros n x H. apply nth_error_Some. congruence. }
      destruct ((0 <=? i + off) && (i + off <? size)) eqn:Hrange.
      + assert (Hj : 0 <= i + off < zlen acc) by lia.
        unfold zlen in Hj.
        destruct (nth_error acc (Z.to_nat (i + off))) as [x0|] eqn:Hx0.
        2:{ apply nth_error_None in Hx0. lia. }
        destruct (op x0 t) as [y|] eqn:Hop.
        * (* the position is updated *)
          assert (Hsize' : size = zlen (upd acc (Z.to_nat (i + off)) y)) by (now rewrite zlen_upd).
          destruct (IH _ _ _ _ _ _ Hsize' Hrun) as (Hlen & Hval & Hinv).
          rewrite upd_length in Hlen. split; [exact Hlen|]. split.
          -- intros n x Hn. rewrite oe_cons.
             destruct (Z.eqb_spec (Z.of_nat n - off - i) 0) as [Hk|Hk].
             ++ assert (n = Z.to_nat (i + off)) by lia. subst n.
                rewrite Hx0 in Hn. injection Hn as <-. rewrite Hop. cbn [keep].
                rewrite (Hval _ y).
                ** unfold oe. destruct (elem_at r (Z.of_nat (Z.to_nat (i + off)) - off - (i + 1))) eqn:E; [|reflexivity].
                   apply elem_at_Some in E. lia.
                ** apply nth_error_upd_eq. lia.
             ++ rewrite (Hval n x); [reflexivity|].
                rewrite nth_error_upd_neq; [exact Hn|]. lia.
          -- rewrite Hinv. split.
             ++ intros [H|(n & x & Hn & Hoe)]; [left; exact H|]. right.
                destruct (Nat.eq_dec n (Z.to_nat (i + off))) as [->|Hne].
                ** exfalso. unfold oe in Hoe.
                   destruct (elem_at r (Z.of_nat (Z.to_nat (i + off)) - off - (i + 1))) eqn:E; [|discriminate].
                   apply elem_at_Some in E. lia.
                ** rewrite nth_error_upd_neq in Hn by exact Hne.
                   exists n, x. split; [exact Hn|]. rewrite oe_cons.
                   destruct (Z.eqb_spec (Z.of_nat n - off - i) 0); [lia|exact Hoe].
             ++ intros [H|(n & x & Hn & Hoe)]; [left; exact H|]. right.
                rewrite oe_cons in Hoe.
                destruct (Z.eqb_spec (Z.of_nat n - off - i) 0) as [Hk|Hk].
                ** assert (n = Z.to_nat (i + off)) by lia. subst n. rewrite Hx0 in Hn. injection Hn as <-. congruence.
                ** exists n, x. split; [|exact Hoe]. rewrite nth_error_upd_neq; [exact Hn|lia].
        * (* a zero divisor: the flag is raised, the vector is untouched *)
          destruct (IH _ _ _ _ _ _ Hsize Hrun) as (Hlen & Hval & Hinv).
          split; [exact Hlen|]. split.
          -- intros n x Hn. rewrite oe_cons.
             destruct (Z.eqb_spec (Z.of_nat n - off - i) 0) as [Hk|Hk].
             ++ assert (n = Z.to_nat (i + off)) by lia. subst n.
                rewrite Hx0 in Hn. injection Hn as <-. rewrite Hop. cbn [keep].
                rewrite (Hval _ x0 Hx0).
                unfold oe. destruct (elem_at r (Z.of_nat (Z.to_nat (i + off)) - off - (i + 1))) eqn:E; [|reflexivity].
                apply elem_at_Some in E. lia.
             ++ now rewrite (Hval n x Hn).
          -- rewrite Hinv. split; [|intros _; left; reflexivity].
             intros _. right. exists (Z.to_nat (i + off)), x0. split; [exact Hx0|].
             rewrite oe_cons. destruct (Z.eqb_spec (Z.of_nat (Z.to_nat (i + off)) - off - i) 0); [exact Hop|lia].
      + (* the top element does not lie over the second vector *)
        destruct (IH _ _ _ _ _ _ Hsize Hrun) as (Hlen & Hval & Hinv).
        split; [exact Hlen|].
        assert (Hk : forall n x, nth_error acc n = Some x -> Z.of_nat n - off - i <> 0).
        { intros n x Hn. apply Hnr in Hn. unfold zlen in Hsize. lia. }
        split.
        * intros n x Hn. rewrite oe_cons.
          destruct (Z.eqb_spec (Z.of_nat n - off - i) 0) as [E|E]; [exfalso; exact (Hk n x Hn E)|].
          apply Hval. exact Hn.
        * rewrite Hinv. split.
          -- intros [H|(n & x & Hn & Hoe)]; [left; exact H|]. right. exists n, x. split; [exact Hn|].
             rewrite oe_cons. destruct (Z.eqb_spec (Z.of_nat n - off - i) 0) as [E|E]; [exfalso; exact (Hk n x Hn E)|exact Hoe].
          -- intros [H|(n & x & Hn & Hoe)]; [left; exact H|]. right. exists n, x. split; [exact Hn|].
             rewrite oe_cons in Hoe. destruct (Z.eqb_spec (Z.of_nat n - off - i) 0) as [E|E]; [exfalso; exact (Hk n x Hn E)|exact Hoe].
  Qed.

  Lemma oe_overlay_elem top n x : oe top 0 n x = overlay_elem op top off (Z.of_nat n) x.
  Proof. unfold oe, overlay_elem. now rewrite Z.sub_0_r. Qed.

  (* the element-wise loop computes the README rule, for every pair of lengths and every offset *)
  Lemma overlay_run_partial second top :
    overlay_run op second top off = overlay_partial op second top off.
  Proof.
    unfold overlay_run, overlay_partial, mapi.
    destruct (ov_loop op off (zlen second) top 0 second false) as [v inv'] eqn:Hrun.
    destruct (ov_loop_inv _ _ _ _ _ _ _ eq_refl Hrun) as (Hlen & Hval & Hinv).
    destruct inv'.
    - destruct (proj1 Hinv eq_refl) as [H|(n & x & Hn & Hoe)]; [discriminate|].
      symmetry. apply (opt_all_none _ n).
      rewrite nth_error_mapi_from, Hn. cbn [option_map]. rewrite Z.add_0_l, <- oe_overlay_elem, Hoe. reflexivity.
    - symmetry. apply opt_all_some. intro n.
      rewrite nth_error_mapi_from, Z.add_0_l.
      destruct (nth_error second n) as [x|] eqn:Hn.
      + rewrite (Hval n x Hn). cbn [option_map]. rewrite <- oe_overlay_elem.
        destruct (oe top 0 n x) as [y|] eqn:Hoe; [reflexivity|].
        exfalso. assert (false = true) by (apply Hinv; right; eauto). discriminate.
      + cbn [option_map]. apply nth_error_None in Hn.
        assert (E : nth_error v n = None) by (apply nth_error_None; lia). now rewrite E.
  Qed.
End Overlay.

Section OverlayTotal.
  Context {A : Type}.

  Lemma overlay_run_total (f : A -> A -> A) (second top : list A) (off : Z) :
    overlay_run (fun x t => Some (f x t)) second top off = Some (overlay f second top off).
  Proof.
    rewrite overlay_run_partial. unfold overlay_partial, overlay, mapi.
    apply opt_all_some. intro n. rewrite !nth_error_mapi_from.
    destruct (nth_error second n) as [x|]; cbn [option_map]; [|reflexivity].
    unfold overlay_elem. now destruct (elem_at top (0 + Z.of_nat n - off)).
  Qed.

  Lemma overlay_length (f : A -> A -> A) second top off : length (overlay f second top off) = length second.
  Proof. apply mapi_from_length. Qed.

  Lemma overlay_nth (f : A -> A -> A) second top off n :
    nth_error (overlay f second top off) n =
    option_map (fun x => match elem_at top (Z.of_nat n - off) with Some y => f x y | None => x end) (nth_error second n).
  Proof. unfold overlay, mapi. now rewrite nth_error_mapi_from, Z.add_0_l. Qed.

  (* outside the overlap nothing changes *)
  Lemma overlay_outside (f : A -> A -> A) second top off n :
    ~ (0 <= Z.of_nat n - off < Z.of_nat (length top)) ->
    nth_error (overlay f second top off) n = nth_error second n.
  Proof.
    intro H. rewrite overlay_nth.
    destruct (elem_at top (Z.of_nat n - off)) eqn:E.
    - apply elem_at_Some in E. contradiction.
    - now destruct (nth_error second n).
  Qed.

  (* inside the overlap the two elements are combined *)
  Lemma overlay_inside (f : A -> A -> A) second top off n x y :
    nth_error second n = Some x -> elem_at top (Z.of_nat n - off) = Some y ->
    nth_error (overlay f second top off) n = Some (f x y).
  Proof. intros Hx Hy. now rewrite overlay_nth, Hx, Hy. Qed.
End OverlayTotal.

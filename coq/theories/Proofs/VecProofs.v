(* C09 — the vector model (Model/IVector.v) meets the abstract description (Spec/VecSpec.v). *)
From Coq Require Import ZArith List Bool Lia Arith ZifyBool Sorting.Permutation Sorting.Sorted.
From PushModel Require Import Base.Sx Base.Machine Base.ListOps Base.F32 Model.Item Model.State Model.InstrBase
  Model.IVector Spec.VecSpec.
Import ListNotations.
Open Scope Z_scope.

(* ------------------------------------------------------------------ *)
(* list facts *)
Section ListFacts.
  Context {A : Type}.

  Lemma nth_error_upd_eq (l : list A) k a : (k < length l)%nat -> nth_error (upd l k a) k = Some a.
  Proof.
    revert k; induction l as [|x r IH]; intros [|k] H; cbn [length] in H; cbn [upd nth_error]; try lia; auto.
    apply IH. lia.
  Qed.

  Lemma nth_error_upd_neq (l : list A) k j a : j <> k -> nth_error (upd l k a) j = nth_error l j.
  Proof.
    revert k j; induction l as [|x r IH]; intros [|k] [|j] H; cbn [upd nth_error]; auto; try congruence.
  Qed.

  Lemma nth_error_ext (l l' : list A) : (forall n, nth_error l n = nth_error l' n) -> l = l'.
  Proof.
    revert l'; induction l as [|x r IH]; intros [|y r'] H; auto.
    - specialize (H O). discriminate.
    - specialize (H O). discriminate.
    - pose proof (H O) as H0. cbn in H0. injection H0 as ->. f_equal. apply IH. intro n. apply (H (S n)).
  Qed.

  Lemma zlen_upd (l : list A) k a : zlen (upd l k a) = zlen l.
  Proof. unfold zlen. now rewrite upd_length. Qed.

  Lemma nth_error_mapi_from {B} (f : Z -> A -> B) (l : list A) i n :
    nth_error (mapi_from f i l) n = option_map (f (i + Z.of_nat n)) (nth_error l n).
  Proof.
    revert i n; induction l as [|x r IH]; intros i [|n]; cbn [mapi_from nth_error option_map]; auto.
    - now rewrite Z.add_0_r.
    - rewrite IH. f_equal. f_equal. lia.
  Qed.

  Lemma mapi_from_length {B} (f : Z -> A -> B) (l : list A) i : length (mapi_from f i l) = length l.
  Proof. revert i; induction l as [|x r IH]; intro i; cbn [mapi_from length]; auto. Qed.

  Lemma elem_at_nil k : elem_at (@nil A) k = None.
  Proof. unfold elem_at. destruct (k <? 0); auto. now destruct (Z.to_nat k). Qed.

  Lemma elem_at_cons (t : A) r k : elem_at (t :: r) k = if k =? 0 then Some t else elem_at r (k - 1).
  Proof.
    unfold elem_at.
    destruct (Z.eqb_spec k 0) as [->|Hk]; [reflexivity|].
    destruct (Z.ltb_spec k 0) as [Hlt|Hge].
    - destruct (Z.ltb_spec (k - 1) 0); [reflexivity|lia].
    - destruct (Z.ltb_spec (k - 1) 0); [lia|].
      replace (Z.to_nat k) with (S (Z.to_nat (k - 1))) by lia. reflexivity.
  Qed.

  Lemma elem_at_Some (v : list A) k y : elem_at v k = Some y -> 0 <= k < Z.of_nat (length v).
  Proof.
    unfold elem_at. destruct (Z.ltb_spec k 0); [discriminate|]. intro Hs.
    assert (Hn : nth_error v (Z.to_nat k) <> None) by congruence.
    apply nth_error_Some in Hn. lia.
  Qed.

  Lemma elem_at_in (v : list A) k : 0 <= k < Z.of_nat (length v) -> exists y, elem_at v k = Some y.
  Proof.
    intro H. unfold elem_at. destruct (Z.ltb_spec k 0); [lia|].
    destruct (nth_error v (Z.to_nat k)) eqn:E; [eauto|].
    apply nth_error_None in E. lia.
  Qed.

  (* opt_all *)
  Lemma opt_all_none (l : list (option A)) n : nth_error l n = Some None -> opt_all l = None.
  Proof.
    revert n; induction l as [|[x|] r IH]; intros [|n] H; cbn [nth_error opt_all] in *; try discriminate; auto.
    now rewrite (IH n H).
  Qed.

  Lemma opt_all_some (l : list (option A)) (v : list A) :
    (forall n, nth_error l n = option_map Some (nth_error v n)) -> opt_all l = Some v.
  Proof.
    revert v; induction l as [|o r IH]; intros v H.
    - destruct v; [reflexivity|]. specialize (H O). discriminate.
    - destruct v as [|y v'].
      + specialize (H O). discriminate.
      + pose proof (H O) as H0. cbn in H0. injection H0 as ->. cbn [opt_all].
        rewrite (IH v'); [reflexivity|]. intro n. apply (H (S n)).
  Qed.
End ListFacts.

(* ------------------------------------------------------------------ *)
(* the element-wise loop *)
Section Overlay.
  Context {A : Type}.
  Variable op : A -> A -> option A.
  Variable off : Z.

  Definition keep (o : option A) (x : A) : A := match o with Some y => y | None => x end.

  (* overlay_elem as seen by a loop that has advanced to index i of the top vector *)
  Definition oe (top : list A) (i : Z) (n : nat) (x : A) : option A :=
    match elem_at top (Z.of_nat n - off - i) with Some y => op x y | None => Some x end.

  Lemma oe_nil i n x : oe [] i n x = Some x.
  Proof. unfold oe. now rewrite elem_at_nil. Qed.

  Lemma oe_cons t r i n x :
    oe (t :: r) i n x = if Z.of_nat n - off - i =? 0 then op x t else oe r (i + 1) n x.
  Proof.
    unfold oe. rewrite elem_at_cons.
    destruct (Z.eqb_spec (Z.of_nat n - off - i) 0); [reflexivity|].
    replace (Z.of_nat n - off - (i + 1)) with (Z.of_nat n - off - i - 1) by lia. reflexivity.
  Qed.

  Lemma ov_loop_inv : forall top i size acc inv v inv',
    size = zlen acc ->
    ov_loop op off size top i acc inv = (v, inv') ->
    length v = length acc /\
    (forall n x, nth_error acc n = Some x -> nth_error v n = Some (keep (oe top i n x) x)) /\
    (inv' = true <-> inv = true \/ exists n x, nth_error acc n = Some x /\ oe top i n x = None).
  Proof.
    induction top as [|t r IH]; intros i size acc inv v inv' Hsize Hrun.
    - cbn [ov_loop] in Hrun. injection Hrun as <- <-. split; [reflexivity|]. split.
      + intros n x Hn. now rewrite oe_nil.
      + split; [auto|]. intros [H|(n & x & _ & H)]; [exact H|]. rewrite oe_nil in H. discriminate.
    - cbn [ov_loop] in Hrun. unfold offset_index in Hrun.
      assert (Hnr : forall n x, nth_error acc n = Some x -> (n < length acc)%nat).
      { intros n x H. apply nth_error_Some. congruence. }
      destruct ((0 <=? i + off) && (i + off <? size)) eqn:Hrange.
      + assert (Hj : 0 <= i + off < zlen acc) by lia.
        unfold zlen in Hj.
        destruct (nth_error acc (Z.to_nat (i + off))) as [x0|] eqn:Hx0.
        2:{ apply nth_error_None in Hx0. lia. }
        destruct (op x0 t) as [y|] eqn:Hop.
        * (* the position is updated *)
          assert (Hsize' : size = zlen (upd acc (Z.to_nat (i + off)) y)) by (now rewrite zlen_upd).
          destruct (IH _ _ _ _ _ _ Hsize' Hrun) as (Hlen & Hval & Hinv).
          rewrite upd_length in Hlen. split; [exact Hlen|]. split.
          -- intros n x Hn. rewrite oe_cons.
             destruct (Z.eqb_spec (Z.of_nat n - off - i) 0) as [Hk|Hk].
             ++ assert (n = Z.to_nat (i + off)) by lia. subst n.
                rewrite Hx0 in Hn. injection Hn as <-. rewrite Hop. cbn [keep].
                rewrite (Hval _ y).
                ** unfold oe. destruct (elem_at r (Z.of_nat (Z.to_nat (i + off)) - off - (i + 1))) eqn:E; [|reflexivity].
                   apply elem_at_Some in E. lia.
                ** apply nth_error_upd_eq. lia.
             ++ rewrite (Hval n x); [reflexivity|].
                rewrite nth_error_upd_neq; [exact Hn|]. lia.
          -- rewrite Hinv. split.
             ++ intros [H|(n & x & Hn & Hoe)]; [left; exact H|]. right.
                destruct (Nat.eq_dec n (Z.to_nat (i + off))) as [->|Hne].
                ** exfalso. unfold oe in Hoe.
                   destruct (elem_at r (Z.of_nat (Z.to_nat (i + off)) - off - (i + 1))) eqn:E; [|discriminate].
                   apply elem_at_Some in E. lia.
                ** rewrite nth_error_upd_neq in Hn by exact Hne.
                   exists n, x. split; [exact Hn|]. rewrite oe_cons.
                   destruct (Z.eqb_spec (Z.of_nat n - off - i) 0); [lia|exact Hoe].
             ++ intros [H|(n & x & Hn & Hoe)]; [left; exact H|]. right.
                rewrite oe_cons in Hoe.
                destruct (Z.eqb_spec (Z.of_nat n - off - i) 0) as [Hk|Hk].
                ** assert (n = Z.to_nat (i + off)) by lia. subst n. rewrite Hx0 in Hn. injection Hn as <-. congruence.
                ** exists n, x. split; [|exact Hoe]. rewrite nth_error_upd_neq; [exact Hn|lia].
        * (* a zero divisor: the flag is raised, the vector is untouched *)
          destruct (IH _ _ _ _ _ _ Hsize Hrun) as (Hlen & Hval & Hinv).
          split; [exact Hlen|]. split.
          -- intros n x Hn. rewrite oe_cons.
             destruct (Z.eqb_spec (Z.of_nat n - off - i) 0) as [Hk|Hk].
             ++ assert (n = Z.to_nat (i + off)) by lia. subst n.
                rewrite Hx0 in Hn. injection Hn as <-. rewrite Hop. cbn [keep].
                rewrite (Hval _ x0 Hx0).
                unfold oe. destruct (elem_at r (Z.of_nat (Z.to_nat (i + off)) - off - (i + 1))) eqn:E; [|reflexivity].
                apply elem_at_Some in E. lia.
             ++ now rewrite (Hval n x Hn).
          -- rewrite Hinv. split; [|intros _; left; reflexivity].
             intros _. right. exists (Z.to_nat (i + off)), x0. split; [exact Hx0|].
             rewrite oe_cons. destruct (Z.eqb_spec (Z.of_nat (Z.to_nat (i + off)) - off - i) 0); [exact Hop|lia].
      + (* the top element does not lie over the second vector *)
        destruct (IH _ _ _ _ _ _ Hsize Hrun) as (Hlen & Hval & Hinv).
        split; [exact Hlen|].
        assert (Hk : forall n x, nth_error acc n = Some x -> Z.of_nat n - off - i <> 0).
        { intros n x Hn. apply Hnr in Hn. unfold zlen in Hsize. lia. }
        split.
        * intros n x Hn. rewrite oe_cons.
          destruct (Z.eqb_spec (Z.of_nat n - off - i) 0) as [E|E]; [exfalso; exact (Hk n x Hn E)|].
          apply Hval. exact Hn.
        * rewrite Hinv. split.
          -- intros [H|(n & x & Hn & Hoe)]; [left; exact H|]. right. exists n, x. split; [exact Hn|].
             rewrite oe_cons. destruct (Z.eqb_spec (Z.of_nat n - off - i) 0) as [E|E]; [exfalso; exact (Hk n x Hn E)|exact Hoe].
          -- intros [H|(n & x & Hn & Hoe)]; [left; exact H|]. right. exists n, x. split; [exact Hn|].
             rewrite oe_cons in Hoe. destruct (Z.eqb_spec (Z.of_nat n - off - i) 0) as [E|E]; [exfalso; exact (Hk n x Hn E)|exact Hoe].
  Qed.

  Lemma oe_overlay_elem top n x : oe top 0 n x = overlay_elem op top off (Z.of_nat n) x.
  Proof. unfold oe, overlay_elem. now rewrite Z.sub_0_r. Qed.

  (* the element-wise loop computes the README rule, for every pair of lengths and every offset *)
  Lemma overlay_run_partial second top :
    overlay_run op second top off = overlay_partial op second top off.
  Proof.
    unfold overlay_run, overlay_partial, mapi.
    destruct (ov_loop op off (zlen second) top 0 second false) as [v inv'] eqn:Hrun.
    destruct (ov_loop_inv _ _ _ _ _ _ _ eq_refl Hrun) as (Hlen & Hval & Hinv).
    destruct inv'.
    - destruct (proj1 Hinv eq_refl) as [H|(n & x & Hn & Hoe)]; [discriminate|].
      symmetry. apply (opt_all_none _ n).
      rewrite nth_error_mapi_from, Hn. cbn [option_map]. rewrite Z.add_0_l, <- oe_overlay_elem, Hoe. reflexivity.
    - symmetry. apply opt_all_some. intro n.
      rewrite nth_error_mapi_from, Z.add_0_l.
      destruct (nth_error second n) as [x|] eqn:Hn.
      + rewrite (Hval n x Hn). cbn [option_map]. rewrite <- oe_overlay_elem.
        destruct (oe top 0 n x) as [y|] eqn:Hoe; [reflexivity|].
        exfalso. assert (false = true) by (apply Hinv; right; eauto). discriminate.
      + cbn [option_map]. apply nth_error_None in Hn.
        assert (E : nth_error v n = None) by (apply nth_error_None; lia). now rewrite E.
  Qed.
End Overlay.

Section OverlayTotal.
  Context {A : Type}.

  Lemma overlay_run_total (f : A -> A -> A) (second top : list A) (off : Z) :
    overlay_run (fun x t => Some (f x t)) second top off = Some (overlay f second top off).
  Proof.
    rewrite overlay_run_partial. unfold overlay_partial, overlay, mapi.
    apply opt_all_some. intro n. rewrite !nth_error_mapi_from.
    destruct (nth_error second n) as [x|]; cbn [option_map]; [|reflexivity].
    unfold overlay_elem. now destruct (elem_at top (0 + Z.of_nat n - off)).
  Qed.

  Lemma overlay_length (f : A -> A -> A) second top off : length (overlay f second top off) = length second.
  Proof. apply mapi_from_length. Qed.

  Lemma overlay_nth (f : A -> A -> A) second top off n :
    nth_error (overlay f second top off) n =
    option_map (fun x => match elem_at top (Z.of_nat n - off) with Some y => f x y | None => x end) (nth_error second n).
  Proof. unfold overlay, mapi. now rewrite nth_error_mapi_from, Z.add_0_l. Qed.

  (* outside the overlap nothing changes *)
  Lemma overlay_outside (f : A -> A -> A) second top off n :
    ~ (0 <= Z.of_nat n - off < Z.of_nat (length top)) ->
    nth_error (overlay f second top off) n = nth_error second n.
  Proof.
    intro H. rewrite overlay_nth.
    destruct (elem_at top (Z.of_nat n - off)) eqn:E.
    - apply elem_at_Some in E. contradiction.
    - now destruct (nth_error second n).
  Qed.

  (* inside the overlap the two elements are combined *)
  Lemma overlay_inside (f : A -> A -> A) second top off n x y :
    nth_error second n = Some x -> elem_at top (Z.of_nat n - off) = Some y ->
    nth_error (overlay f second top off) n = Some (f x y).
  Proof. intros Hx Hy. now rewrite overlay_nth, Hx, Hy. Qed.
End OverlayTotal.

(* ------------------------------------------------------------------ *)
(* BOOLVECTOR.NOT *)
Lemma not_loop_nth : forall k off i acc n,
  nth_error (not_loop off (zlen acc) k i acc) n =
  option_map (fun x => if (0 <=? Z.of_nat n - off - i) && (Z.of_nat n - off - i <? Z.of_nat k) then negb x else x)
             (nth_error acc n).
Proof.
  induction k as [|k IH]; intros off i acc n.
  - cbn [not_loop]. destruct (nth_error acc n); cbn [option_map]; [|reflexivity].
    replace ((0 <=? Z.of_nat n - off - i) && (Z.of_nat n - off - i <? Z.of_nat 0)) with false by lia.
    reflexivity.
  - cbn [not_loop]. unfold offset_index.
    destruct ((0 <=? i + off) && (i + off <? zlen acc)) eqn:Hr.
    + assert (Hj : 0 <= i + off < zlen acc) by lia. unfold zlen in Hj.
      destruct (nth_error acc (Z.to_nat (i + off))) as [x0|] eqn:Hx0.
      2:{ apply nth_error_None in Hx0. lia. }
      rewrite <- (zlen_upd acc (Z.to_nat (i + off)) (negb x0)). rewrite IH.
      destruct (Nat.eq_dec n (Z.to_nat (i + off))) as [->|Hne].
      * rewrite nth_error_upd_eq by lia. rewrite Hx0. cbn [option_map]. f_equal.
        replace ((0 <=? Z.of_nat (Z.to_nat (i + off)) - off - (i + 1)) && (Z.of_nat (Z.to_nat (i + off)) - off - (i + 1) <? Z.of_nat k)) with false by lia.
        replace ((0 <=? Z.of_nat (Z.to_nat (i + off)) - off - i) && (Z.of_nat (Z.to_nat (i + off)) - off - i <? Z.of_nat (S k))) with true by lia.
        reflexivity.
      * rewrite nth_error_upd_neq by exact Hne.
        destruct (nth_error acc n); cbn [option_map]; [|reflexivity]. f_equal.
        replace ((0 <=? Z.of_nat n - off - (i + 1)) && (Z.of_nat n - off - (i + 1) <? Z.of_nat k))
          with ((0 <=? Z.of_nat n - off - i) && (Z.of_nat n - off - i <? Z.of_nat (S k))) by lia.
        reflexivity.
    + rewrite IH. destruct (nth_error acc n) eqn:Hn; cbn [option_map]; [|reflexivity]. f_equal.
      assert (Hlt : (n < length acc)%nat) by (apply nth_error_Some; congruence). unfold zlen in Hr.
      replace ((0 <=? Z.of_nat n - off - (i + 1)) && (Z.of_nat n - off - (i + 1) <? Z.of_nat k))
        with ((0 <=? Z.of_nat n - off - i) && (Z.of_nat n - off - i <? Z.of_nat (S k))) by lia.
      reflexivity.
Qed.

Lemma not_loop_flip_window (v : list bool) off :
  not_loop off (zlen v) (length v) 0 v = flip_window negb v off.
Proof.
  apply nth_error_ext. intro n. rewrite not_loop_nth. unfold flip_window, mapi.
  rewrite nth_error_mapi_from. destruct (nth_error v n); cbn [option_map]; [|reflexivity].
  rewrite Z.add_0_l, Z.sub_0_r. reflexivity.
Qed.

(* ------------------------------------------------------------------ *)
(* GET / SET *)
Section GetSet.
  Context {A : Type}.

  Lemma len32_small (v : list A) : zlen v <= max32 -> len32 v = zlen v.
  Proof. intro H. unfold len32. apply wrap32_id. unfold in_i32, zlen, min32, max32 in *. lia. Qed.

  Lemma vclamp_clamp (v : list A) idx : zlen v <= max32 -> vclamp v idx = clamp idx (Z.of_nat (length v)).
  Proof. intro H. unfold vclamp, clamp. rewrite (len32_small v H). unfold zlen. lia. Qed.

  Lemma clamp_in_range idx len : 0 < len -> 0 <= clamp idx len < len.
  Proof. unfold clamp. lia. Qed.

  Lemma clamp_id idx len : 0 <= idx < len -> clamp idx len = idx.
  Proof. unfold clamp. lia. Qed.

  Lemma vget_spec (v : list A) idx : zlen v <= max32 -> vget v idx = Ok (get_clamped v idx).
  Proof.
    intro H. unfold vget, get_clamped, vnth. rewrite (vclamp_clamp v idx H).
    destruct (Z.ltb_spec 0 (zlen v)) as [Hp|Hz].
    - pose proof (clamp_in_range idx (Z.of_nat (length v)) Hp) as Hc. unfold zlen in *.
      replace ((0 <=? clamp idx (Z.of_nat (length v))) && (clamp idx (Z.of_nat (length v)) <? Z.of_nat (length v))) with true by lia.
      destruct (nth_error v (Z.to_nat (clamp idx (Z.of_nat (length v))))) eqn:E; [reflexivity|].
      apply nth_error_None in E. lia.
    - unfold zlen in Hz. destruct v; [|cbn [length] in Hz; lia]. now destruct (Z.to_nat (clamp idx (Z.of_nat (length (@nil A))))).
  Qed.

  Lemma upd_mapi_from (v : list A) k x i :
    upd v k x = mapi_from (fun j y => if j =? i + Z.of_nat k then x else y) i v.
  Proof.
    revert k i; induction v as [|y r IH]; intros k i; [now destruct k|].
    destruct k as [|k]; cbn [upd mapi_from].
    - rewrite Z.add_0_r, Z.eqb_refl. f_equal.
      clear IH. revert i. generalize 0%nat. intros _ i.
      assert (G : forall (l : list A) j, i < j -> mapi_from (fun j0 y0 => if j0 =? i then x else y0) j l = l).
      { induction l as [|z l IHl]; intros j Hj; cbn [mapi_from]; [reflexivity|].
        destruct (Z.eqb_spec j i); [lia|]. f_equal. apply IHl. lia. }
      symmetry. apply G. lia.
    - destruct (Z.eqb_spec i (i + Z.of_nat (S k))); [lia|]. f_equal.
      rewrite (IH k (i + 1)). f_equal.
      replace (i + 1 + Z.of_nat k) with (i + Z.of_nat (S k)) by lia. reflexivity.
  Qed.

  Lemma vset_spec (v : list A) idx x : zlen v <= max32 -> vset v idx x = Ok (set_clamped v idx x).
  Proof.
    intro H. unfold vset, set_clamped, vupd, mapi. rewrite (vclamp_clamp v idx H).
    destruct (Z.ltb_spec 0 (zlen v)) as [Hp|Hz].
    - pose proof (clamp_in_range idx (Z.of_nat (length v)) Hp) as Hc. unfold zlen in *.
      replace ((0 <=? clamp idx (Z.of_nat (length v))) && (clamp idx (Z.of_nat (length v)) <? Z.of_nat (length v))) with true by lia.
      f_equal. rewrite (upd_mapi_from v _ x 0). f_equal.
      rewrite Z.add_0_l, Z2Nat.id by lia. reflexivity.
    - unfold zlen in Hz. destruct v; [reflexivity|cbn [length] in Hz; lia].
  Qed.

  (* what SET does, element by element: the clamped position holds the new element, every
     other position is unchanged, the length is unchanged *)
  Lemma set_clamped_nth (v : list A) idx x n :
    nth_error (set_clamped v idx x) n =
    option_map (fun y => if Z.of_nat n =? clamp idx (Z.of_nat (length v)) then x else y) (nth_error v n).
  Proof. unfold set_clamped, mapi. now rewrite nth_error_mapi_from, Z.add_0_l. Qed.

  Lemma set_clamped_length (v : list A) idx x : length (set_clamped v idx x) = length v.
  Proof. apply mapi_from_length. Qed.
End GetSet.

(* ------------------------------------------------------------------ *)
(* sorting *)
Section SortProofs.
  Context {A : Type}.
  Variable le : A -> A -> bool.
  Hypothesis le_total : forall a b, le a b = true \/ le b a = true.
  Hypothesis le_trans : forall a b c, le a b = true -> le b c = true -> le a c = true.

  Lemma ins_sorted_perm x l : Permutation (x :: l) (ins_sorted_by le x l).
  Proof.
    induction l as [|y r IH]; cbn [ins_sorted_by]; [reflexivity|].
    destruct (le x y); [reflexivity|].
    eapply perm_trans; [apply perm_swap|]. now apply perm_skip.
  Qed.

  Lemma stable_sort_perm l : Permutation l (stable_sort le l).
  Proof.
    induction l as [|x r IH]; [reflexivity|]. unfold stable_sort in *. cbn [fold_right].
    eapply perm_trans; [apply perm_skip, IH|]. apply ins_sorted_perm.
  Qed.

  Lemma ins_sorted_sorted x l :
    StronglySorted (fun a b => le a b = true) l -> StronglySorted (fun a b => le a b = true) (ins_sorted_by le x l).
  Proof.
    induction l as [|y r IH]; intro S; cbn [ins_sorted_by].
    - constructor; constructor.
    - inversion S as [|? ? Sr Hall]; subst.
      destruct (le x y) eqn:E.
      + constructor; [exact S|]. constructor; [exact E|].
        eapply Forall_impl; [|exact Hall]. intros a Ha. eapply le_trans; eassumption.
      + constructor; [apply IH; exact Sr|].
        assert (Hyx : le y x = true) by (destruct (le_total x y); congruence).
        eapply Permutation_Forall; [apply ins_sorted_perm|]. constructor; assumption.
  Qed.

  Lemma stable_sort_sorted l : StronglySorted (fun a b => le a b = true) (stable_sort le l).
  Proof.
    induction l as [|x r IH]; [constructor|]. unfold stable_sort in *. cbn [fold_right].
    apply ins_sorted_sorted. exact IH.
  Qed.

  Lemma stable_sort_sorted_perm l : sorted_perm le l (stable_sort le l).
  Proof. split; [apply stable_sort_perm|apply stable_sort_sorted]. Qed.
End SortProofs.

Lemma bool_le_total a b : bool_le a b = true \/ bool_le b a = true.
Proof. destruct a, b; cbn; auto. Qed.
Lemma bool_le_trans a b c : bool_le a b = true -> bool_le b c = true -> bool_le a c = true.
Proof. destruct a, b, c; cbn; auto. Qed.
Lemma zle_total a b : (a <=? b) = true \/ (b <=? a) = true.
Proof. lia. Qed.
Lemma zle_trans a b c : (a <=? b) = true -> (b <=? c) = true -> (a <=? c) = true.
Proof. lia. Qed.

(* ------------------------------------------------------------------ *)
(* aggregates *)
Lemma count_true_count v : count_true v = count v.
Proof.
  unfold count_true, count, zlen. f_equal.
  induction v as [|b r IH]; [reflexivity|]. cbn [filter count_occ].
  destruct b; destruct (bool_dec _ true); try congruence; cbn [length]; now rewrite IH.
Qed.

Lemma wrap32_add_l a b : wrap32 (wrap32 a + b) = wrap32 (a + b).
Proof.
  unfold wrap32, two32.
  replace (((a + 2147483648) mod 4294967296 - 2147483648 + b + 2147483648))
    with ((a + 2147483648) mod 4294967296 + b) by lia.
  rewrite Zplus_mod_idemp_l. f_equal. f_equal. lia.
Qed.

Lemma fold_wadd32 v a : fold_left wadd32 v (wrap32 a) = wrap32 (a + sumZ v).
Proof.
  revert a; induction v as [|x r IH]; intro a; cbn [fold_left sumZ fold_right].
  - now rewrite Z.add_0_r.
  - unfold wadd32 at 2. rewrite wrap32_add_l, IH. f_equal. unfold sumZ. lia.
Qed.

Lemma wsum32_spec v : wsum32 v = wrap32 (sumZ v).
Proof. unfold wsum32. change 0 with (wrap32 0) at 1. now rewrite fold_wadd32. Qed.

Lemma fold_add v a : fold_left Z.add v a = a + sumZ v.
Proof.
  revert a; induction v as [|x r IH]; intro a; cbn [fold_left sumZ fold_right]; [lia|].
  rewrite IH. unfold sumZ. lia.
Qed.

Lemma zsum_spec v : zsum v = sumZ v.
Proof. unfold zsum. now rewrite fold_add. Qed.

(* ------------------------------------------------------------------ *)
(* membership, REMOVE, SET*INSERT *)
Lemma zmem_In x v : zmem x v = true <-> In x v.
Proof.
  unfold zmem. rewrite existsb_exists. split.
  - intros (y & Hy & E). apply Z.eqb_eq in E. now subst.
  - intro H. exists x. split; [exact H|apply Z.eqb_refl].
Qed.

Lemma remove_spec x v y : In y (filter (fun z => negb (z =? x)) v) <-> In y v /\ y <> x.
Proof. rewrite filter_In. split; intros [H1 H2]; split; auto; lia. Qed.

Lemma set_insert_nodup x v : NoDup v -> NoDup (if zmem x v then v else v ++ [x]).
Proof.
  intro H. destruct (zmem x v) eqn:E; [exact H|].
  assert (Hn : ~ In x v) by (rewrite <- zmem_In; congruence).
  clear E. induction H as [|y r Hy Hr IH]; cbn [app].
  - constructor; [intros []|constructor].
  - constructor.
    + rewrite in_app_iff. intros [H1|[H1|[]]]; [contradiction|]. subst. apply Hn. now left.
    + apply IH. intro H1. apply Hn. now right.
Qed.

(* ------------------------------------------------------------------ *)
(* BOOLINDEX *)
Lemma bool_index_shift v i :
  bool_index v i = map (fun j => wrap32 (i + Z.of_nat j)) (filter (fun j => nth j v false) (seq 0 (length v))).
Proof.
  revert i; induction v as [|b r IH]; intro i; [reflexivity|].
  cbn [bool_index length seq filter nth].
  rewrite <- seq_shift, IH.
  assert (E : map (fun j => wrap32 (i + 1 + Z.of_nat j)) (filter (fun j => nth j r false) (seq 0 (length r)))
            = map (fun j => wrap32 (i + Z.of_nat j)) (filter (fun j => nth j (b :: r) false) (map S (seq 0 (length r))))).
  { generalize (seq 0 (length r)). intro l. induction l as [|k l IHl]; [reflexivity|].
    cbn [map filter nth]. destruct (nth k r false); cbn [map]; rewrite IHl; [|reflexivity].
    f_equal. f_equal. lia. }
  destruct b; cbn [map]; rewrite E; [|reflexivity]. now rewrite Z.add_0_r.
Qed.

Lemma bool_index_spec v : zlen v <= max32 -> bool_index v 0 = true_positions v.
Proof.
  intro H. rewrite bool_index_shift. unfold true_positions.
  apply map_ext_in. intros j Hj. apply filter_In in Hj as [Hj _]. apply in_seq in Hj.
  rewrite Z.add_0_l. apply wrap32_id. unfold in_i32, zlen, min32, max32 in *. lia.
Qed.

(* ------------------------------------------------------------------ *)
(* ROTATE, FROMINT *)
Lemma rotate_in_spec {A} (v : list A) x : rotate_in v x = rotate v x.
Proof. now destruct v. Qed.

Lemma rotate_length {A} (v : list A) x : length (rotate v x) = length v.
Proof. destruct v; [reflexivity|]. cbn [rotate tl]. rewrite app_length. cbn [length]. lia. Qed.

Lemma rotate_nth {A} (v : list A) x n : v <> [] ->
  nth_error (rotate v x) n = if Nat.eqb (S n) (length v) then Some x else nth_error v (S n).
Proof.
  intro H. destruct v as [|y r]; [congruence|]. cbn [rotate tl length nth_error].
  destruct (Nat.eqb_spec (S n) (S (length r))) as [E|E].
  - rewrite nth_error_app2 by lia. replace (n - length r)%nat with 0%nat by lia. reflexivity.
  - destruct (Nat.lt_ge_cases n (length r)).
    + now rewrite nth_error_app1.
    + rewrite nth_error_app2 by lia. destruct (n - length r)%nat as [|k] eqn:K; [lia|].
      cbn [nth_error]. destruct k; symmetry; apply nth_error_None; lia.
Qed.

(* ------------------------------------------------------------------ *)
(* SINE over the libm oracle *)
Section Sine.
  Context {FO : FloatOps}.
  Variable sin : f32 -> f32.
  Hypothesis oracle : forall x, flibm FN_SIN x = Some (sin x).

  Definition sine_elem (a x phi : f32) (i : Z) : f32 :=
    fmul a (sin (fadd (fmul (fmul TWO_PI x) (f_of_usize i)) phi)).

  Lemma sine_loop_spec a x phi k i :
    sine_loop a x phi k i = Ok (map (fun j => sine_elem a x phi (i + Z.of_nat j)) (seq 0 k)).
  Proof.
    revert i; induction k as [|k IH]; intro i; [reflexivity|].
    cbn [sine_loop]. unfold libm1. rewrite oracle. cbn [rbind]. rewrite IH. cbn [rbind seq map].
    rewrite Z.add_0_r. f_equal. f_equal. rewrite <- seq_shift, map_map.
    apply map_ext. intro j. f_equal. lia.
  Qed.
End Sine.

(* ------------------------------------------------------------------ *)
(* the instructions *)
Section Instr.
  Context {FO : FloatOps}.

  (* an element-wise instruction with both vectors and the offset present: the two vectors and
     the offset are consumed, the overlay is pushed, nothing else changes *)
  Definition elementwise {A} (get : state -> list (list A)) (set : state -> list (list A) -> state)
             (i : instr) (f : A -> A -> A) : Prop :=
    forall s top second r off ir, get s = top :: second :: r -> st_int s = off :: ir ->
      i s = Ok (set (set_int s ir) (overlay f second top off :: r)).
  (* with a partial operation: nothing is pushed when it is undefined on an overlapping position *)
  Definition elementwise_partial {A} (get : state -> list (list A)) (set : state -> list (list A) -> state)
             (i : instr) (op : A -> A -> option A) : Prop :=
    forall s top second r off ir, get s = top :: second :: r -> st_int s = off :: ir ->
      i s = Ok (set (set_int s ir) (match overlay_partial op second top off with Some v => v :: r | None => r end)).

  Ltac ew := intros s top second r off ir Hv Hi;
    unfold bvec_and, bvec_or, ivec_add, ivec_sub, ivec_mul, ivec_div, ivec_arith,
           fvec_add, fvec_sub, fvec_mul, fvec_div, fvec_arith, vec_overlay;
    rewrite Hv; cbn [st_int set_bvec set_ivec set_fvec]; rewrite Hi; cbn [rbind].

  Lemma elementwise_instructions :
    elementwise st_bvec set_bvec bvec_and andb /\ elementwise st_bvec set_bvec bvec_or orb /\
    elementwise st_ivec set_ivec ivec_add wadd32 /\ elementwise st_ivec set_ivec ivec_sub wsub32 /\
    elementwise st_ivec set_ivec ivec_mul wmul32 /\
    elementwise st_fvec set_fvec fvec_add fadd /\ elementwise st_fvec set_fvec fvec_sub fsub /\
    elementwise st_fvec set_fvec fvec_mul fmul /\
    elementwise_partial st_ivec set_ivec ivec_div (fun x t => if t =? 0 then None else Some (wdiv32 x t)) /\
    elementwise_partial st_fvec set_fvec fvec_div (fun x t => if feq t f_zero then None else Some (fdiv x t)).
  Proof.
    repeat split; ew; try (rewrite overlay_run_total; reflexivity);
      rewrite overlay_run_partial;
      match goal with |- context [overlay_partial ?o ?a ?b ?c] => destruct (overlay_partial o a b c) end; reflexivity.
  Qed.

  Lemma bvec_not_spec s v r off ir :
    st_bvec s = v :: r -> st_int s = off :: ir ->
    bvec_not s = Ok (set_bvec (set_int s ir) (flip_window negb v off :: r)).
  Proof.
    intros Hv Hi. unfold bvec_not. rewrite Hv. cbn [st_int set_bvec]. rewrite Hi.
    now rewrite not_loop_flip_window.
  Qed.

  (* GET: index consumed, vector kept, the clamped element pushed (nothing for an empty vector) *)
  Lemma get_instructions s idx ir :
    st_int s = idx :: ir ->
    (forall v r, st_bvec s = v :: r -> zlen v <= max32 ->
       bvec_get s = Ok (match get_clamped v idx with Some x => set_bool (set_int s ir) (x :: st_bool s) | None => set_int s ir end)) /\
    (forall v r, st_ivec s = v :: r -> zlen v <= max32 ->
       ivec_get s = Ok (match get_clamped v idx with Some x => set_int s (x :: ir) | None => set_int s ir end)) /\
    (forall v r, st_fvec s = v :: r -> zlen v <= max32 ->
       fvec_get s = Ok (match get_clamped v idx with Some x => set_float (set_int s ir) (x :: st_float s) | None => set_int s ir end)).
  Proof.
    intro Hi. repeat split; intros v r Hv Hl; unfold bvec_get, ivec_get, fvec_get, vec_get; rewrite Hi;
      cbn [st_bvec st_ivec st_fvec set_int]; rewrite Hv, (vget_spec v idx Hl); cbn [rbind];
      destruct (get_clamped v idx); reflexivity.
  Qed.

  (* SET: index and new element consumed, the clamped position of the top vector replaced *)
  Lemma set_instructions s idx ir :
    st_int s = idx :: ir ->
    (forall x xr v r, st_bool s = x :: xr -> st_bvec s = v :: r -> zlen v <= max32 ->
       bvec_set s = Ok (set_bvec (set_bool (set_int s ir) xr) (set_clamped v idx x :: r))) /\
    (forall x xr v r, ir = x :: xr -> st_ivec s = v :: r -> zlen v <= max32 ->
       ivec_set s = Ok (set_ivec (set_int s xr) (set_clamped v idx x :: r))) /\
    (forall x xr v r, st_float s = x :: xr -> st_fvec s = v :: r -> zlen v <= max32 ->
       fvec_set s = Ok (set_fvec (set_float (set_int s ir) xr) (set_clamped v idx x :: r))).
  Proof.
    intro Hi. repeat split; intros x xr v r Hx Hv Hl; unfold bvec_set, ivec_set, fvec_set, vec_set; rewrite Hi;
      cbn [st_bool st_int st_float set_int]; rewrite Hx;
      cbn [st_bvec st_ivec st_fvec set_int set_bool set_float]; rewrite Hv, (vset_spec v idx x Hl); reflexivity.
  Qed.

  (* ONES / ZEROS: a positive size gives the constant vector of that length, any other size nothing *)
  Lemma fill_instructions s n ir :
    st_int s = n :: ir ->
    let out {A} (set : state -> list (list A) -> state) (get : state -> list (list A)) (x : A) :=
      Ok (if 0 <? n then set (set_int s ir) (repeat x (Z.to_nat n) :: get s) else set_int s ir) in
    bvec_ones s = out set_bvec st_bvec true /\ bvec_zeros s = out set_bvec st_bvec false /\
    ivec_ones s = out set_ivec st_ivec 1 /\ ivec_zeros s = out set_ivec st_ivec 0 /\
    fvec_ones s = out set_fvec st_fvec f_one /\ fvec_zeros s = out set_fvec st_fvec f_zero.
  Proof.
    intro Hi. cbv zeta.
    repeat split; unfold bvec_ones, bvec_zeros, ivec_ones, ivec_zeros, fvec_ones, fvec_zeros, vec_fill;
      rewrite Hi; destruct (0 <? n); reflexivity.
  Qed.

  (* LENGTH / COUNT / SUM / MEAN: the vector stays, the aggregate is pushed *)
  Lemma aggregate_instructions s :
    (forall v r, st_bvec s = v :: r -> zlen v <= max32 ->
       bvec_length s = Ok (push_int s (zlen v)) /\ bvec_count s = Ok (push_int s (count v))) /\
    (forall v r, st_ivec s = v :: r -> zlen v <= max32 ->
       ivec_length s = Ok (push_int s (zlen v)) /\
       ivec_sum s = Ok (push_int s (wrap32 (sumZ v))) /\
       ivec_mean s = Ok (push_float s (fdiv (f_of_i64 (sumZ v)) (f_of_usize (zlen v))))) /\
    (forall v r, st_fvec s = v :: r -> zlen v <= max32 ->
       fvec_length s = Ok (push_int s (zlen v)) /\
       fvec_sum s = Ok (push_float s (fold_left fadd v f_negzero)) /\
       fvec_mean s = Ok (push_float s (fdiv (fold_left fadd v f_negzero) (f_of_usize (zlen v))))).
  Proof.
    repeat split; intros;
      unfold bvec_length, ivec_length, fvec_length, vec_length, bvec_count, ivec_sum, ivec_mean, fvec_sum, fvec_mean, fsum;
      match goal with H : _ = _ :: _ |- _ => rewrite H end;
      rewrite ?len32_small, ?wsum32_spec, ?zsum_spec by assumption; try reflexivity.
    rewrite count_true_count. f_equal. f_equal. apply wrap32_id.
    pose proof (count_occ_bound bool_dec true v) as B. unfold count, in_i32, zlen, min32, max32 in *. lia.
  Qed.

  (* SORT: the top vector is replaced by a sorted rearrangement (ascending), resp. its reverse *)
  Definition sorts {A} (get : state -> list (list A)) (set : state -> list (list A) -> state)
             (le : A -> A -> bool) (asc desc : instr) : Prop :=
    forall s v r, get s = v :: r ->
      exists w, sorted_perm le v w /\ asc s = Ok (set s (w :: r)) /\ desc s = Ok (set s (rev w :: r)).

  Lemma sort_instructions :
    sorts st_bvec set_bvec bool_le bvec_sort_asc bvec_sort_desc /\
    sorts st_ivec set_ivec Z.leb ivec_sort_asc ivec_sort_desc /\
    ((forall a b, fle_nan_last a b = true \/ fle_nan_last b a = true) ->
     (forall a b c, fle_nan_last a b = true -> fle_nan_last b c = true -> fle_nan_last a c = true) ->
     sorts st_fvec set_fvec fle_nan_last fvec_sort_asc fvec_sort_desc).
  Proof.
    repeat split.
    - intros s v r H. exists (stable_sort bool_le v). split; [apply stable_sort_sorted_perm; [apply bool_le_total|apply bool_le_trans]|].
      unfold bvec_sort_asc, bvec_sort_desc, vec_map_top. rewrite H. split; reflexivity.
    - intros s v r H. exists (stable_sort Z.leb v). split; [apply stable_sort_sorted_perm; [apply zle_total|apply zle_trans]|].
      unfold ivec_sort_asc, ivec_sort_desc, vec_map_top. rewrite H. split; reflexivity.
    - intros Ht Htr s v r H. exists (stable_sort fle_nan_last v). split; [apply stable_sort_sorted_perm; assumption|].
      unfold fvec_sort_asc, fvec_sort_desc, vec_map_top. rewrite H. split; reflexivity.
  Qed.

  (* ROTATE: the scalar is consumed; the top vector is shifted left by one with the scalar appended *)
  Lemma rotate_instructions s :
    (forall x xr v r, st_bool s = x :: xr -> st_bvec s = v :: r ->
       bvec_rotate s = Ok (set_bvec (set_bool s xr) (rotate v x :: r))) /\
    (forall x xr v r, st_int s = x :: xr -> st_ivec s = v :: r ->
       ivec_rotate s = Ok (set_ivec (set_int s xr) (rotate v x :: r))) /\
    (forall x xr v r, st_float s = x :: xr -> st_fvec s = v :: r ->
       fvec_rotate s = Ok (set_fvec (set_float s xr) (rotate v x :: r))).
  Proof.
    repeat split; intros x xr v r Hx Hv; unfold bvec_rotate, ivec_rotate, fvec_rotate, vec_rotate;
      rewrite Hx; cbn [st_bvec st_ivec st_fvec set_bool set_int set_float]; rewrite Hv, rotate_in_spec; reflexivity.
  Qed.

  (* APPEND, REMOVE, SET*INSERT, CONTAINS *)
  Lemma append_instructions s :
    (forall x xr v r, st_int s = x :: xr -> st_ivec s = v :: r ->
       ivec_append s = Ok (set_ivec (set_int s xr) ((v ++ [x]) :: r))) /\
    (forall x xr v r, st_float s = x :: xr -> st_fvec s = v :: r ->
       fvec_append s = Ok (set_fvec (set_float s xr) ((v ++ [x]) :: r))).
  Proof.
    repeat split; intros x xr v r Hx Hv; unfold ivec_append, fvec_append, vec_append; rewrite Hv, Hx; reflexivity.
  Qed.

  Lemma remove_instruction s x xr v r :
    st_int s = x :: xr -> st_ivec s = v :: r ->
    exists w, ivec_remove s = Ok (set_ivec (set_int s xr) (w :: r)) /\
              (forall y, In y w <-> In y v /\ y <> x) /\ (~ In x v -> w = v).
  Proof.
    intros Hx Hv. exists (filter (fun y => negb (y =? x)) v). split; [|split].
    - unfold ivec_remove. now rewrite Hv, Hx.
    - intro y. apply remove_spec.
    - intro Hn. clear Hv. induction v as [|z v IH]; [reflexivity|]. cbn [filter].
      destruct (Z.eqb_spec z x) as [->|Hz]; [exfalso; apply Hn; now left|].
      cbn [negb]. f_equal. apply IH. intro H. apply Hn. now right.
  Qed.

  Lemma set_insert_instruction s x xr :
    st_int s = x :: xr ->
    (forall v r, st_ivec s = v :: r ->
       ivec_set_insert s = Ok (set_ivec (set_int s xr) ((if zmem x v then v else v ++ [x]) :: r))) /\
    (st_ivec s = [] -> ivec_set_insert s = Ok (set_ivec (set_int s xr) [[x]])).
  Proof.
    intro Hx. split.
    - intros v r Hv. unfold ivec_set_insert. rewrite Hv. cbn [st_ivec]. now rewrite Hv, Hx.
    - intro Hv. unfold ivec_set_insert. rewrite Hv. cbn [st_ivec st_int set_ivec]. now rewrite Hx.
  Qed.

  Lemma contains_instruction s x xr v r :
    st_int s = x :: xr -> st_ivec s = v :: r ->
    exists b, ivec_contains s = Ok (push_bool (set_ivec (set_int s xr) r) b) /\ (b = true <-> In x v).
  Proof.
    intros Hx Hv. exists (zmem x v). split; [|apply zmem_In].
    unfold ivec_contains. rewrite Hx. cbn [st_ivec set_int]. now rewrite Hv.
  Qed.

  (* BOOLINDEX, FROMINT, *SCALAR *)
  Lemma bool_index_instruction s v r :
    st_bvec s = v :: r -> zlen v <= max32 ->
    ivec_bool_index s = Ok (set_ivec (set_bvec s r) (true_positions v :: st_ivec s)).
  Proof. intros Hv Hl. unfold ivec_bool_index. now rewrite Hv, (bool_index_spec v Hl). Qed.

  Lemma from_int_instruction s n ir :
    st_int s = n :: ir -> zlen ir <= max32 ->
    let k := take_count n (zlen ir) in
    ivec_from_int s = Ok (set_ivec (set_int s (skipn k ir)) (rev (firstn k ir) :: st_ivec s)).
  Proof.
    intros Hi Hl k. unfold ivec_from_int. rewrite Hi, (len32_small ir Hl).
    replace (Z.to_nat (Z.max (Z.min (zlen ir) n) 0)) with k; [reflexivity|].
    unfold k, take_count. f_equal. lia.
  Qed.

  Lemma mul_scalar_instruction s f fr v r :
    st_float s = f :: fr -> st_fvec s = v :: r ->
    fvec_mul_scalar s = Ok (set_fvec (set_float s fr) (map (fun x => fmul x f) v :: r)).
  Proof. intros Hf Hv. unfold fvec_mul_scalar. rewrite Hf. cbn [st_fvec set_float]. now rewrite Hv. Qed.

  (* SINE: element i is A * sin(2 pi x i + phi), whatever sine function the platform's libm is *)
  Lemma sine_instruction (sin : f32 -> f32) s a x phi fr n ir :
    (forall y, flibm FN_SIN y = Some (sin y)) ->
    st_float s = a :: x :: phi :: fr -> st_int s = n :: ir ->
    fvec_sine s = Ok (if 0 <=? n
                      then set_fvec (set_int (set_float s fr) ir)
                             (map (fun j => sine_elem sin a x phi (Z.of_nat j)) (seq 0 (Z.to_nat n)) :: st_fvec s)
                      else set_int (set_float s fr) ir).
  Proof.
    intros Ho Hf Hi. unfold fvec_sine. rewrite Hf. cbn [st_int set_float]. rewrite Hi.
    destruct (0 <=? n); [|reflexivity].
    rewrite (sine_loop_spec sin Ho). cbn [rbind]. reflexivity.
  Qed.
End Instr.

(* C15: one-step growth, LIST.* (records) and INPUT.* / OUTPUT.*. *)
From Coq Require Import ZArith String List Bool Lia ZifyBool.
From PushModel Require Import Base.Sx Base.Machine Base.ListOps Base.F32 Model.Item Model.GraphT Model.State
  Model.InstrBase Model.IScalar Model.ICode Model.IList Model.IIo Model.Registry Model.RegistryListIo Model.Cost
  Proofs.CostBase Proofs.CostItem Proofs.CostVec Proofs.CostListIo Proofs.CostGrowth.
Import ListNotations.
Open Scope Z_scope.

Ltac listio_unfold H :=
  cbv beta iota zeta delta [
    list_add list_remove list_get list_val list_bval list_ival list_fval list_set load_items record_pos
    input_available input_get input_next input_read input_stack_depth output_flush output_stack_depth output_write
    st_bool st_code st_exec st_float st_index st_int st_name st_bvec st_fvec st_ivec st_input st_output
    st_graph st_bind st_cfg st_quote st_send
    set_bool set_code set_exec set_float set_index set_int set_name set_bvec set_fvec set_ivec set_input
    set_output set_graph set_bind set_cfg set_quote set_send
    push_int push_bool push_float push_code push_exec push_name rbind pure purep fst snd] in H.

Ltac extra_hyps ::=
  repeat match goal with
         | E : load_ids _ _ = (_, _) |- _ => pose proof (load_ids_weight _ _ _ _ E); clear E
         end;
  unfold weight in *; proj_cbn.
Ltac extra_goal ::=
  rewrite ?mk_record_weight in *;
  repeat match goal with
         | |- context [wsum ?f (bq_push ?cap ?l ?x)] =>
             lazymatch goal with
             | _ : wsum f (bq_push cap l x) <= _ |- _ => fail
             | _ => pose proof (bq_push_le f cap l x)
             end
         | |- context [wsum ?f (l_remove ?l ?i)] =>
             lazymatch goal with
             | _ : wsum f (l_remove l i) <= _ |- _ => fail
             | _ => pose proof (wsum_l_remove_le f ltac:(nn_side) l i)
             end
         | |- context [wsum ?f (l_replace ?l ?i ?x)] =>
             lazymatch goal with
             | _ : wsum f (l_replace l i x) <= _ |- _ => fail
             | _ => pose proof (wsum_l_replace_le f ltac:(nn_side) l i x)
             end
         end;
  rewrite ?mk_record_weight in *; unfold msgw in *; cbn [fst snd] in *.

Section ListIo.
  Context {FO : FloatOps}.

  Ltac table_tac :=
    repeat (apply Forall_cons; [cbn [fst snd]; first [left; vm_compute; reflexivity | right; grow_with listio_unfold]|]);
    apply Forall_nil.

  Lemma list_grows : table_grows tbl_list.
  Proof. unfold table_grows, tbl_list. table_tac. Qed.
  Lemma io_grows : table_grows tbl_io.
  Proof. unfold table_grows, tbl_io. table_tac. Qed.
End ListIo.

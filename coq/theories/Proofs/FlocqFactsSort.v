(* C09, FLOATVECTOR.SORT: the comparison [fle_nan_last] (numbers by [fcmp], every NaN
   after every number, all NaN equivalent) is a total preorder for the Flocq instance:
   it is the order of the reals pulled back along a key function (value of a finite
   number, -+2^128 for the infinities, 2^128 + 1 for NaN). *)
From Coq Require Import ZArith List Bool Lia Lra Reals.
From Flocq Require Import IEEE754.BinarySingleNaN IEEE754.Binary IEEE754.Bits Core.
From PushModel Require Import Base.Sx Base.Machine Base.F32 Base.F32Flocq Proofs.FlocqFactsBase
  Model.IVector.
Open Scope Z_scope.

Definition sort_key (z : Z) : R := if fl_is_nan z then (bpow radix2 128 + 1)%R else XR z.

Lemma XR_bound z : (- bpow radix2 128 <= XR z <= bpow radix2 128)%R.
Proof.
  unfold XR. pose proof (bpow_gt_0 radix2 128) as P.
  destruct (is_finite 24 128 (of_bits z)) eqn:F.
  - pose proof (xr_fin_bound _ F). lra.
  - destruct (of_bits z) as [s|[|]|s pl e|s m e e0]; try discriminate; cbn [xr B2R]; lra.
Qed.

Lemma fle_nan_last_key tab a b :
  @fle_nan_last (flocq_ops tab) a b = true <-> (sort_key a <= sort_key b)%R.
Proof.
  unfold fle_nan_last, fcmp_nan_last, sort_key. cbn [fcmp f_is_nan flocq_ops].
  pose proof (XR_bound a) as Ba. pose proof (XR_bound b) as Bb.
  destruct (fl_is_nan a) eqn:Na, (fl_is_nan b) eqn:Nb.
  - rewrite fl_cmp_nan by auto. cbn [bool_cmp]. split; [lra|reflexivity].
  - rewrite fl_cmp_nan by auto. cbn [bool_cmp]. split; [discriminate|lra].
  - rewrite fl_cmp_nan by auto. cbn [bool_cmp]. split; [lra|reflexivity].
  - rewrite (fl_cmp_xr a b Na Nb).
    destruct (Rcompare_spec (XR a) (XR b)); split; try reflexivity; try discriminate; lra.
Qed.

Theorem flocq_fle_nan_last_total tab a b :
  @fle_nan_last (flocq_ops tab) a b = true \/ @fle_nan_last (flocq_ops tab) b a = true.
Proof.
  rewrite !fle_nan_last_key. destruct (Rle_lt_dec (sort_key a) (sort_key b)); [left|right]; lra.
Qed.

Theorem flocq_fle_nan_last_trans tab a b c :
  @fle_nan_last (flocq_ops tab) a b = true -> @fle_nan_last (flocq_ops tab) b c = true ->
  @fle_nan_last (flocq_ops tab) a c = true.
Proof. rewrite !fle_nan_last_key. lra. Qed.

(* the three clauses of the doc comment, for the record *)
Theorem flocq_fle_nan_last_shape tab a b :
  (fl_is_nan a = false -> fl_is_nan b = false ->
     @fle_nan_last (flocq_ops tab) a b = @fle (flocq_ops tab) a b) /\
  (fl_is_nan a = false -> fl_is_nan b = true ->
     @fle_nan_last (flocq_ops tab) a b = true /\ @fle_nan_last (flocq_ops tab) b a = false) /\
  (fl_is_nan a = true -> fl_is_nan b = true -> @fle_nan_last (flocq_ops tab) a b = true).
Proof.
  unfold fle_nan_last, fcmp_nan_last, fle. cbn [fcmp f_is_nan flocq_ops]. split; [|split].
  - intros Na Nb. rewrite (fl_cmp_xr a b Na Nb). destruct (Rcompare (XR a) (XR b)); reflexivity.
  - intros Na Nb. rewrite !fl_cmp_nan by auto. rewrite Na, Nb. split; reflexivity.
  - intros Na Nb. rewrite fl_cmp_nan by auto. rewrite Na, Nb. reflexivity.
Qed.

(* Graph::diff returns None exactly when the two graphs have the same nodes,
   states and edges and f32-`==` weights. *)
From Coq Require Import ZArith List Bool Lia Sorted Permutation ZifyBool.
From PushModel Require Import Base.Sx Base.Machine Base.ListOps Base.F32 Model.Graph Spec.GraphSpec
  Proofs.GraphFacts Proofs.GraphRefine.
Import ListNotations.
Open Scope Z_scope.

Section DiffFacts.
  Context {FO : FloatOps}.

  Definition g_same (a b : graph) : Prop :=
    (forall k, g_get_state a k = g_get_state b k)
    /\ (forall o d, wsame (g_get_weight a o d) (g_get_weight b o d) = true).

  Lemma inv_nodes_nodup g : inv g -> NoDup (map fst (g_nodes g)).
  Proof. intros (S & _). now apply zsorted_nodup. Qed.
  Lemma inv_edges_nodup g : inv g -> NoDup (map fst (g_edges g)).
  Proof. intros (_ & S & _). now apply zsorted_nodup. Qed.

  Lemma diff_nodes_nil a b :
    inv a -> inv b -> (diff_nodes a b = [] <-> forall k, g_get_state a k = g_get_state b k).
  Proof.
    intros Ia Ib. pose proof (inv_nodes_nodup _ Ia) as Na. pose proof (inv_nodes_nodup _ Ib) as Nb.
    unfold diff_nodes, g_get_state. split.
    - intro H. apply app_eq_nil in H as [H1 H2].
      rewrite flat_map_nil in H1. rewrite flat_map_nil in H2. intro k.
      destruct (zm_get k (g_nodes b)) as [st|] eqn:B.
      + specialize (H2 _ (zm_get_in _ _ _ B)). cbn [fst snd] in H2.
        destruct (zm_get k (g_nodes a)) as [st'|]; [|discriminate].
        unfold node_diff in H2. destruct (Z.eqb_spec st' st); [now subst|discriminate].
      + destruct (zm_get k (g_nodes a)) as [st'|] eqn:A; auto.
        specialize (H1 _ (zm_get_in _ _ _ A)). cbn [fst snd] in H1.
        unfold zm_mem in H1. rewrite B in H1. discriminate.
    - intro H.
      assert (forall x y : list nchange, x = [] -> y = [] -> x ++ y = []) as J by (intros; subst; auto).
      apply J; apply flat_map_nil; intros [k st] Hn; cbn [fst snd].
      + apply (zm_in_get _ _ _ Na) in Hn. unfold zm_mem. now rewrite <- H, Hn.
      + apply (zm_in_get _ _ _ Nb) in Hn. rewrite H, Hn. unfold node_diff. now rewrite Z.eqb_refl.
  Qed.

  (* every edge of a is an edge of b *)
  Definition edges_sub (a b : graph) : Prop :=
    forall o d w, g_get_weight a o d = Some w -> g_get_weight b o d <> None.
  (* every edge of b is an edge of a with an `==` weight *)
  Definition edges_match (a b : graph) : Prop :=
    forall o d w', g_get_weight b o d = Some w' ->
                   exists w, g_get_weight a o d = Some w /\ feq w w' = true.

  Lemma diff_left_nil a b :
    inv a ->
    (flat_map (fun kv : Z * list edge =>
                 match zm_get (fst kv) (g_edges b) with
                 | None => map (fun e => ERem (fst kv) (e_origin e) (e_weight e)) (snd kv)
                 | Some es' =>
                     flat_map (fun e => if e_contains (e_origin e) es' then []
                                        else [ERem (fst kv) (e_origin e) (e_weight e)]) (snd kv)
                 end) (g_edges a) = [] <-> edges_sub a b).
  Proof.
    intro Ia. rewrite flat_map_nil. unfold edges_sub. split.
    - intros H o d w. rewrite !get_weight_alt.
      destruct (zm_get d (g_edges a)) as [es|] eqn:G; [|discriminate]. intro Go.
      specialize (H _ (zm_get_in _ _ _ G)). cbn [fst snd] in H.
      apply zm_get_in in Go.
      destruct (zm_get d (g_edges b)) as [es'|].
      + rewrite flat_map_nil in H. specialize (H _ Go). unfold e_origin in H. cbn [fst snd] in H.
        rewrite e_contains_mem in H. unfold zm_mem in H.
        destruct (zm_get o es'); [discriminate|discriminate].
      + apply map_eq_nil in H. subst. destruct Go.
    - intros H [d es] Hkv. cbn [fst snd].
      pose proof (zm_in_get _ _ _ (inv_edges_nodup _ Ia) Hkv) as G.
      destruct (inv_lookup _ _ _ Ia G) as (_ & N & _). cbn [snd] in N.
      assert (forall o w, In (o, w) es -> g_get_weight b o d <> None) as K.
      { intros o w Hin. apply (H o d w). rewrite get_weight_alt, G. now apply zm_in_get. }
      destruct (zm_get d (g_edges b)) as [es'|] eqn:B.
      + apply flat_map_nil. intros [o w] Hin. unfold e_origin. cbn [fst snd].
        specialize (K _ _ Hin). rewrite get_weight_alt, B in K.
        rewrite e_contains_mem. unfold zm_mem. destruct (zm_get o es'); [auto|congruence].
      + destruct es as [|[o w] t]; auto. exfalso.
        apply (K o w (or_introl eq_refl)). now rewrite get_weight_alt, B.
  Qed.

  Lemma diff_right_nil a b :
    inv b ->
    (flat_map (fun kv : Z * list edge =>
                 match zm_get (fst kv) (g_edges a) with
                 | None => map (fun e => EAdd (fst kv) (e_origin e) (e_weight e)) (snd kv)
                 | Some es =>
                     flat_map (fun e =>
                                 if e_contains (e_origin e) es then
                                   match e_find (e_origin e) es with
                                   | Some l => match edge_diff (fst kv) l e with
                                               | Some c => [c]
                                               | None => []
                                               end
                                   | None => []
                                   end
                                 else [EAdd (fst kv) (e_origin e) (e_weight e)]) (snd kv)
                 end) (g_edges b) = [] <-> edges_match a b).
  Proof.
    intro Ib. rewrite flat_map_nil. unfold edges_match. split.
    - intros H o d w'. rewrite !get_weight_alt.
      destruct (zm_get d (g_edges b)) as [es'|] eqn:G; [|discriminate]. intro Go.
      specialize (H _ (zm_get_in _ _ _ G)). cbn [fst snd] in H.
      apply zm_get_in in Go.
      destruct (zm_get d (g_edges a)) as [es|].
      + rewrite flat_map_nil in H. specialize (H _ Go). unfold e_origin in H. cbn [fst snd] in H.
        rewrite e_contains_mem, e_find_get in H. unfold zm_mem in H.
        destruct (zm_get o es) as [w|]; [|discriminate]. cbn [option_map] in H.
        exists w. split; auto. unfold edge_diff, e_origin, e_weight in H. cbn [fst snd] in H.
        rewrite Z.eqb_refl in H. cbn [andb] in H. destruct (feq w w'); [auto|discriminate].
      + apply map_eq_nil in H. subst. destruct Go.
    - intros H [d es'] Hkv. cbn [fst snd].
      pose proof (zm_in_get _ _ _ (inv_edges_nodup _ Ib) Hkv) as G.
      destruct (inv_lookup _ _ _ Ib G) as (_ & N & _). cbn [snd] in N.
      assert (forall o w', In (o, w') es' -> exists w, g_get_weight a o d = Some w /\ feq w w' = true) as K.
      { intros o w' Hin. apply (H o d w'). rewrite get_weight_alt, G. now apply zm_in_get. }
      destruct (zm_get d (g_edges a)) as [es|] eqn:A.
      + apply flat_map_nil. intros [o w'] Hin. unfold e_origin. cbn [fst snd].
        destruct (K _ _ Hin) as [w [K1 K2]]. rewrite get_weight_alt, A in K1.
        rewrite e_contains_mem, e_find_get. unfold zm_mem. rewrite K1. cbn [option_map].
        unfold edge_diff, e_origin, e_weight. cbn [fst snd]. now rewrite Z.eqb_refl, K2.
      + destruct es' as [|[o w'] t]; auto. exfalso.
        destruct (K o w' (or_introl eq_refl)) as [w [K1 _]]. rewrite get_weight_alt, A in K1. discriminate.
  Qed.

  Lemma sub_match_wsame a b :
    edges_sub a b /\ edges_match a b <->
    (forall o d, wsame (g_get_weight a o d) (g_get_weight b o d) = true).
  Proof.
    unfold edges_sub, edges_match. split.
    - intros [S M] o d. specialize (S o d). specialize (M o d).
      destruct (g_get_weight a o d) as [w|]; destruct (g_get_weight b o d) as [w'|]; cbn [wsame]; auto.
      + destruct (M w' eq_refl) as [w2 [E F]]. now inversion E; subst.
      + exfalso. now apply (S w).
      + destruct (M w' eq_refl) as [w2 [E F]]. discriminate.
    - intro H. split; intros o d w E; specialize (H o d); rewrite E in H.
      + destruct (g_get_weight b o d); [discriminate|]. cbn [wsame] in H. discriminate.
      + destruct (g_get_weight a o d) as [w2|]; cbn [wsame] in H; [|discriminate]. now exists w2.
  Qed.

  Lemma diff_edges_nil a b :
    inv a -> inv b ->
    (diff_edges a b = [] <-> forall o d, wsame (g_get_weight a o d) (g_get_weight b o d) = true).
  Proof.
    intros Ia Ib. rewrite <- sub_match_wsame. unfold diff_edges.
    rewrite <- (diff_left_nil a b Ia), <- (diff_right_nil a b Ib). split.
    - apply app_eq_nil.
    - intros [-> ->]. reflexivity.
  Qed.

  Lemma g_diff_none a b : inv a -> inv b -> (g_diff a b = None <-> g_same a b).
  Proof.
    intros Ia Ib. unfold g_same. rewrite <- diff_nodes_nil, <- diff_edges_nil by auto.
    unfold g_diff. destruct (diff_nodes a b) as [|x n]; destruct (diff_edges a b) as [|y e]; cbn [length].
    - cbn. tauto.
    - destruct (Z.eqb_spec (Z.of_nat 0 + Z.of_nat (S (length e))) 0); [lia|].
      split; [discriminate|]. intros [_ H]. discriminate.
    - destruct (Z.eqb_spec (Z.of_nat (S (length n)) + Z.of_nat 0) 0); [lia|].
      split; [discriminate|]. intros [H _]. discriminate.
    - destruct (Z.eqb_spec (Z.of_nat (S (length n)) + Z.of_nat (S (length e))) 0); [lia|].
      split; [discriminate|]. intros [H _]. discriminate.
  Qed.

  (* a weight that is not `==` to itself (NaN) makes a graph differ from itself *)
  Lemma g_diff_self_nan g o d w :
    inv g -> g_get_weight g o d = Some w -> feq w w = false -> g_diff g g <> None.
  Proof.
    intros I G F H. apply g_diff_none in H; auto. destruct H as [_ H].
    specialize (H o d). rewrite G in H. cbn [wsame] in H. congruence.
  Qed.

  (* the specification's "same" in terms of lookups *)
  Lemma osame_eq x y : osame x y = true <-> x = y.
  Proof.
    destruct x as [a|]; destruct y as [b|]; cbn [osame]; split; intro H; try discriminate; auto.
    - f_equal. lia.
    - inversion H. lia.
  Qed.

  Lemma s_same_iff sa sb :
    sinv sa -> sinv sb ->
    (s_same sa sb = true <->
     (forall k, s_get_state sa k = s_get_state sb k)
     /\ (forall o d, wsame (s_get_weight sa o d) (s_get_weight sb o d) = true)).
  Proof.
    intros [Na Ea] [Nb Eb]. unfold s_same. rewrite !andb_true_iff, !forallb_forall. split.
    - intros [[[H1 H2] H3] H4]. split.
      + intro k. unfold s_get_state in *. rewrite !assoc_get in *.
        destruct (zm_get k (s_nodes sa)) as [st|] eqn:A.
        * specialize (H1 _ (zm_get_in _ _ _ A)). cbn [fst snd] in H1. rewrite assoc_get in H1.
          apply osame_eq in H1. auto.
        * destruct (zm_get k (s_nodes sb)) as [st|] eqn:B; auto.
          specialize (H2 _ (zm_get_in _ _ _ B)). cbn [fst snd] in H2. rewrite assoc_get, A in H2. discriminate.
      + intros o d. unfold s_get_weight in *.
        destruct (assoc2 o d (s_edges sa)) as [w|] eqn:A.
        * specialize (H3 _ (assoc2_in _ _ _ _ A)). unfold se_o, se_d, se_w in H3. cbn [fst snd] in H3. auto.
        * destruct (assoc2 o d (s_edges sb)) as [w|] eqn:B; auto.
          specialize (H4 _ (assoc2_in _ _ _ _ B)). unfold se_o, se_d, se_w in H4. cbn [fst snd] in H4.
          now rewrite A in H4.
    - intros [HS HW]. repeat split.
      + intros [k st] H. cbn [fst snd]. apply osame_eq. rewrite <- HS. unfold s_get_state. rewrite assoc_get.
        symmetry. now apply zm_in_get.
      + intros [k st] H. cbn [fst snd]. apply osame_eq. rewrite HS. unfold s_get_state. rewrite assoc_get.
        now apply zm_in_get.
      + intros [[o d] w] H. unfold se_o, se_d, se_w. cbn [fst snd].
        specialize (HW o d). unfold s_get_weight in *. now rewrite (assoc2_of_in _ _ _ _ Ea H) in HW.
      + intros [[o d] w] H. unfold se_o, se_d, se_w. cbn [fst snd].
        specialize (HW o d). unfold s_get_weight in *. now rewrite (assoc2_of_in _ _ _ _ Eb H) in HW.
  Qed.

  Lemma R_diff a b sa sb :
    R a sa -> R b sb -> (g_diff a b = None <-> s_same sa sb = true).
  Proof.
    intros (Ia & Sa & HSa & HWa) (Ib & Sb & HSb & HWb).
    rewrite g_diff_none, s_same_iff by auto. unfold g_same. split; intros [H1 H2]; split; intros.
    - now rewrite <- HSa, <- HSb.
    - now rewrite <- HWa, <- HWb.
    - now rewrite HSa, HSb.
    - now rewrite HWa, HWb.
  Qed.
End DiffFacts.

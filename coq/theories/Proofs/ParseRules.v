(* C03: the lexical rules one by one (each as an implication), and the
   text-level forms of the token-level theorems of Proofs/ParseTree.v. *)
From Coq Require Import ZArith List Bool Lia ZifyBool.
From PushModel Require Import Base.Sx Base.Machine Base.F32 Model.Item Model.State Model.Parser Spec.ParseSpec
  Proofs.NameProofs Proofs.ParseLex Proofs.ParseTree.
Import ListNotations.
Open Scope Z_scope.

Section Rules.
  Context {FO : FloatOps}.
  Variable p : profile.
  Variable names : list str.

  (* a token that is neither a typed vector literal nor a parenthesis *)
  Definition plain (tok : str) : Prop := vec_prefix tok = None /\ tok <> s_open /\ tok <> s_close.

  Lemma classify_plain tok : plain tok ->
    classify names tok =
    if is_instr names tok then CItem (IInstr tok)
    else match parse_i32 tok with
         | Some z => CItem (ILit (LInt z))
         | None => match fparse tok with
                   | Some f => CItem (ILit (LFloat f))
                   | None => if str_eqb tok s_true then CItem (ILit (LBool true))
                             else if str_eqb tok s_false then CItem (ILit (LBool false))
                             else CItem (IName tok)
                   end
         end.
  Proof.
    intros [Hv [Ho Hc]]. unfold classify. rewrite Hv.
    rewrite (str_eqb_neq s_open tok) by congruence. rewrite (str_eqb_neq s_close tok) by congruence.
    reflexivity.
  Qed.

  (* rule 1: typed vector literal *)
  Lemma classify_vec tok vt k body :
    vec_prefix tok = Some (vt, k) -> vec_elems_text k tok = Some body ->
    classify names tok = match parse_vector vt body with Some v => CItem (ILit v) | None => CDrop end.
  Proof. intros H1 H2. unfold classify. now rewrite H1, H2. Qed.
  Lemma classify_vec_truncated tok vt k :
    vec_prefix tok = Some (vt, k) -> vec_elems_text k tok = None -> classify names tok = CDrop.
  Proof. intros H1 H2. unfold classify. now rewrite H1, H2. Qed.
  (* rule 2: parentheses *)
  Lemma classify_paren_open : classify names s_open = COpen.
  Proof. reflexivity. Qed.
  Lemma classify_paren_close : classify names s_close = CClose.
  Proof. reflexivity. Qed.
  (* rule 3: registered instruction *)
  Lemma classify_instr tok : plain tok -> is_instr names tok = true -> classify names tok = CItem (IInstr tok).
  Proof. intros H1 H2. now rewrite classify_plain, H2. Qed.
  (* rule 4: integer *)
  Lemma classify_int tok z : plain tok -> is_instr names tok = false -> parse_i32 tok = Some z ->
    classify names tok = CItem (ILit (LInt z)).
  Proof. intros H1 H2 H3. now rewrite classify_plain, H2, H3. Qed.
  (* rule 5: float *)
  Lemma classify_float tok f : plain tok -> is_instr names tok = false -> parse_i32 tok = None ->
    fparse tok = Some f -> classify names tok = CItem (ILit (LFloat f)).
  Proof. intros H1 H2 H3 H4. now rewrite classify_plain, H2, H3, H4. Qed.
  (* rule 6: TRUE / FALSE *)
  Lemma classify_bool b : is_instr names (bool_str b) = false -> fparse (bool_str b) = None ->
    classify names (bool_str b) = CItem (ILit (LBool b)).
  Proof.
    intros H2 H4. rewrite classify_plain, H2, H4.
    - destruct b; reflexivity.
    - destruct b; (split; [reflexivity|split; discriminate]).
  Qed.
  (* rule 7: anything else is a name *)
  Lemma classify_name tok : plain tok -> is_instr names tok = false -> parse_i32 tok = None ->
    fparse tok = None -> tok <> s_true -> tok <> s_false -> classify names tok = CItem (IName tok).
  Proof.
    intros H1 H2 H3 H4 H5 H6. rewrite classify_plain, H2, H3, H4 by assumption.
    now rewrite !str_eqb_neq by assumption.
  Qed.

  Lemma classify_float_inv tok f : classify names tok = CItem (ILit (LFloat f)) -> fparse tok = Some f.
  Proof.
    unfold classify. destruct (vec_prefix tok) as [[vt k]|].
    - destruct (vec_elems_text k tok) as [body|]; [|discriminate].
      unfold parse_vector. destruct vt.
      + destruct (map_opt bool_el (split_on 44 body)); cbn [option_map]; discriminate.
      + destruct (map_opt parse_i32 (split_on 44 body)); cbn [option_map]; discriminate.
      + destruct (map_opt fparse (split_on 44 body)); cbn [option_map]; discriminate.
    - destruct (str_eqb s_open tok); [discriminate|]. destruct (str_eqb s_close tok); [discriminate|].
      destruct (is_instr names tok); [discriminate|]. destruct (parse_i32 tok); [discriminate|].
      destruct (fparse tok) as [g|].
      + intro H. injection H as ->. reflexivity.
      + destruct (str_eqb tok s_true); [discriminate|]. destruct (str_eqb tok s_false); discriminate.
  Qed.

  (* ---- text level ---- *)
  Theorem parse_frame_mask pinned s text s' :
    parse_g pinned p names s text = Ok s' -> same_outside (also_exec mask_none) s s'.
  Proof.
    intro H. destruct (parse_frame p names pinned s text s' H) as [e ->].
    unfold same_outside. cbn. repeat split; intros; try reflexivity; discriminate.
  Qed.

  Theorem parse_text_tree f s text :
    split_ws text = flatten f -> forest_ok names f -> str_fits text ->
    parse_program p names s text = Ok (set_exec s (st_exec s ++ to_stack names f)).
  Proof.
    intros Hs Hf Hb. rewrite parse_program_spec by exact Hb.
    unfold spec_parse. rewrite Hs, spec_parse_forest by exact Hf. reflexivity.
  Qed.

  Theorem parse_join_tree f s :
    forest_ok names f -> Forall good_tok (flatten f) -> str_fits (join [32] (flatten f)) -> st_exec s = [] ->
    parse_program p names s (join [32] (flatten f)) = Ok (set_exec s (to_stack names f)).
  Proof.
    intros Hf Hg Hb He. rewrite (parse_text_tree f) by (auto using split_ws_join). now rewrite He.
  Qed.

  (* text with a dropped literal between two blanks *)
  Theorem parse_text_drops a tok b e :
    good_tok tok -> classify names tok = CDrop ->
    parse_exec false p names e (a ++ [32] ++ tok ++ [32] ++ b) = parse_exec false p names e (a ++ [32] ++ b).
  Proof.
    intros Hg Hc. unfold parse_exec. cbn [app].
    rewrite !split_ws_app_ws by reflexivity. rewrite (split_ws_tok tok Hg).
    apply (parse_drops_bad_vector p names tok (split_ws a) (split_ws b) e 0 Hc).
  Qed.
End Rules.

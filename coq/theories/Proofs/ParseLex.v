(* String-level facts behind C03 / C11: split_whitespace, the byte slice of a
   vector literal, the decimal i32 printer/parser round trip. *)
From Coq Require Import ZArith List Bool Lia ZifyBool.
From PushModel Require Import Base.Sx Base.Machine Base.F32 Model.Item Model.Parser Spec.ParseSpec
  Proofs.NameProofs.
Import ListNotations.
Open Scope Z_scope.

(* ------------------------------------------------------------------ *)
(* split_whitespace *)

Lemma cons_ne_app t ts us : cons_ne t (ts ++ us) = cons_ne t ts ++ us.
Proof. destruct t; reflexivity. Qed.

Lemma split_ws_cons c r :
  split_ws (c :: r) = if is_ws c then split_ws r else (c :: fst (sw r)) :: snd (sw r).
Proof.
  unfold split_ws. cbn [sw]. destruct (sw r) as [t ts]. destruct (is_ws c); reflexivity.
Qed.

Lemma sw_app_ws a w b :
  is_ws w = true -> sw (a ++ w :: b) = (fst (sw a), snd (sw a) ++ split_ws b).
Proof.
  intro Hw. induction a as [|c a IH].
  - cbn [app sw fst snd]. unfold split_ws. destruct (sw b) as [t ts]. now rewrite Hw.
  - cbn [app sw]. rewrite IH. destruct (sw a) as [t ts]. cbn [fst snd].
    destruct (is_ws c); cbn [fst snd]; [|reflexivity]. now rewrite cons_ne_app.
Qed.

Lemma split_ws_app_ws a w b :
  is_ws w = true -> split_ws (a ++ w :: b) = split_ws a ++ split_ws b.
Proof.
  intro Hw. unfold split_ws at 1. rewrite (sw_app_ws a w b Hw).
  rewrite cons_ne_app. f_equal. unfold split_ws. destruct (sw a) as [t ts]. reflexivity.
Qed.

Lemma ws_free_cons c s : ws_free (c :: s) <-> is_ws c = false /\ ws_free s.
Proof.
  unfold ws_free. cbn [forallb]. rewrite andb_true_iff, negb_true_iff. tauto.
Qed.

Lemma ws_free_app a b : ws_free (a ++ b) <-> ws_free a /\ ws_free b.
Proof. unfold ws_free. rewrite forallb_app, andb_true_iff. tauto. Qed.

Lemma sw_tok t : ws_free t -> sw t = (t, []).
Proof.
  induction t as [|c t IH]; intro H; [reflexivity|].
  apply ws_free_cons in H as [Hc Ht]. cbn [sw]. rewrite (IH Ht), Hc. reflexivity.
Qed.

Lemma split_ws_tok t : good_tok t -> split_ws t = [t].
Proof.
  intros [Hne Hf]. unfold split_ws. rewrite (sw_tok t Hf). destruct t; [congruence|reflexivity].
Qed.

Lemma split_ws_nil : split_ws [] = [].
Proof. reflexivity. Qed.

Lemma good_tokb_ok s : good_tokb s = true <-> good_tok s.
Proof.
  unfold good_tokb, good_tok, ws_free, ws_freeb. destruct s.
  - split; [discriminate|]. intros [H _]. congruence.
  - split; [intro H; split; [discriminate|exact H]|intros [_ H]; exact H].
Qed.

(* tokens separated by single blanks are recovered *)
Lemma split_ws_join ts : Forall good_tok ts -> split_ws (join [32] ts) = ts.
Proof.
  induction 1 as [|t r Ht Hr IH]; [reflexivity|].
  destruct r as [|t2 r].
  - cbn [join]. now apply split_ws_tok.
  - change (join [32] (t :: t2 :: r)) with (t ++ [32] ++ join [32] (t2 :: r)).
    cbn [app]. rewrite split_ws_app_ws by reflexivity. rewrite IH, (split_ws_tok t Ht). reflexivity.
Qed.

(* ... and so are tokens separated by any non-empty runs of whitespace *)
Lemma split_ws_all_ws s : forallb is_ws s = true -> split_ws s = [].
Proof.
  induction s as [|c s IH]; [reflexivity|]. cbn [forallb]. rewrite andb_true_iff. intros [Hc Hs].
  rewrite split_ws_cons, Hc. auto.
Qed.

Lemma split_ws_ws_app w b : forallb is_ws w = true -> split_ws (w ++ b) = split_ws b.
Proof.
  induction w as [|c w IH]; [reflexivity|]. cbn [forallb]. rewrite andb_true_iff. intros [Hc Hs].
  cbn [app]. rewrite split_ws_cons, Hc. auto.
Qed.

Lemma split_ws_app_all_ws a w : forallb is_ws w = true -> split_ws (a ++ w) = split_ws a.
Proof.
  intro Hw. destruct w as [|c w]; [now rewrite app_nil_r|].
  cbn [forallb] in Hw. apply andb_true_iff in Hw as [Hc Hw].
  rewrite split_ws_app_ws by exact Hc. rewrite (split_ws_all_ws w Hw). apply app_nil_r.
Qed.

(* the number of tokens is at most the number of characters *)
Lemma sw_length s : (length (cons_ne (fst (sw s)) (snd (sw s))) <= length s)%nat
                    /\ (length (snd (sw s)) <= length (cons_ne (fst (sw s)) (snd (sw s))))%nat.
Proof.
  induction s as [|c s [IH1 IH2]]; [cbn; lia|].
  cbn [sw]. destruct (sw s) as [t ts]. cbn [fst snd] in *.
  destruct (is_ws c); cbn [fst snd cons_ne length].
  - split; [lia|]. destruct t; cbn [cons_ne length] in *; lia.
  - lia.
Qed.
Lemma split_ws_length s : (length (split_ws s) <= length s)%nat.
Proof. unfold split_ws. pose proof (sw_length s) as [H _]. destruct (sw s). exact H. Qed.

(* trim only removes whitespace at the two ends *)
Lemma trim_start_split s : exists w, forallb is_ws w = true /\ s = w ++ trim_start s.
Proof.
  induction s as [|c s [w [Hw Hs]]].
  - exists []. split; reflexivity.
  - cbn [trim_start]. destruct (is_ws c) eqn:Hc.
    + exists (c :: w). cbn [forallb app]. rewrite Hc, Hw. split; [reflexivity|]. now rewrite <- Hs.
    + exists []. split; reflexivity.
Qed.

Lemma forallb_rev {A} (f : A -> bool) l : forallb f (rev l) = forallb f l.
Proof.
  induction l as [|x l IH]; [reflexivity|].
  cbn [rev forallb]. rewrite forallb_app, IH. cbn [forallb]. rewrite andb_true_r. apply andb_comm.
Qed.

Lemma split_ws_trim s : split_ws (trim s) = split_ws s.
Proof.
  unfold trim.
  destruct (trim_start_split s) as [w1 [Hw1 Hs1]].
  destruct (trim_start_split (rev (trim_start s))) as [w2 [Hw2 Hs2]].
  rewrite Hs1 at 2. rewrite split_ws_ws_app by exact Hw1.
  apply (f_equal (@rev Z)) in Hs2. rewrite rev_involutive, rev_app_distr in Hs2.
  rewrite Hs2 at 2. rewrite split_ws_app_all_ws; [reflexivity|]. now rewrite forallb_rev.
Qed.

Lemma split_ws_stack_str l : split_ws (stack_str l) = flat_map split_ws l.
Proof.
  unfold stack_str. rewrite split_ws_trim.
  induction l as [|s l IH]; [reflexivity|].
  cbn [map concat flat_map]. cbn [app].
  rewrite split_ws_cons. cbn [is_ws]. change (is_ws 32) with true. cbn iota.
  destruct l as [|s2 l].
  - cbn [map concat flat_map]. now rewrite !app_nil_r.
  - cbn [map concat] in *. cbn [app] in *. rewrite split_ws_app_ws by reflexivity.
    rewrite split_ws_cons in IH. change (is_ws 32) with true in IH. cbn iota in IH.
    rewrite IH. reflexivity.
Qed.

(* ------------------------------------------------------------------ *)
(* byte lengths and the slice of a vector literal *)

Lemma utf8_len_pos c : 1 <= utf8_len c <= 4.
Proof. unfold utf8_len. destruct (c <? 128), (c <? 2048), (c <? 65536); lia. Qed.
Lemma utf8_len_1 c : utf8_len c = 1 <-> c < 128.
Proof. unfold utf8_len. destruct (c <? 128) eqn:E1, (c <? 2048), (c <? 65536); lia. Qed.
Lemma str_bytes_nonneg s : 0 <= str_bytes s.
Proof. induction s as [|c s IH]; cbn [str_bytes fold_right]; [lia|]. fold (str_bytes s). pose proof (utf8_len_pos c). lia. Qed.
Lemma str_bytes_cons c s : str_bytes (c :: s) = utf8_len c + str_bytes s.
Proof. reflexivity. Qed.
Lemma str_bytes_app a b : str_bytes (a ++ b) = str_bytes a + str_bytes b.
Proof. induction a as [|c a IH]; [reflexivity|]. cbn [app]. rewrite !str_bytes_cons, IH. lia. Qed.

Lemma drop_bytes_0 s : drop_bytes s 0 = Some s.
Proof. destruct s; reflexivity. Qed.
Lemma take_bytes_0 s : take_bytes s 0 = Some [].
Proof. destruct s; reflexivity. Qed.

Lemma drop_bytes_app a r : drop_bytes (a ++ r) (str_bytes a) = Some r.
Proof.
  induction a as [|c a IH]; [apply drop_bytes_0|].
  cbn [app]. rewrite str_bytes_cons. pose proof (utf8_len_pos c). pose proof (str_bytes_nonneg a).
  cbn [drop_bytes].
  replace (utf8_len c + str_bytes a =? 0) with false by lia.
  replace (utf8_len c <=? utf8_len c + str_bytes a) with true by lia.
  replace (utf8_len c + str_bytes a - utf8_len c) with (str_bytes a) by lia. exact IH.
Qed.

Lemma take_bytes_app a s m :
  0 <= m -> take_bytes (a ++ s) (str_bytes a + m) = option_map (app a) (take_bytes s m).
Proof.
  intro Hm. induction a as [|c a IH].
  - cbn [app str_bytes fold_right]. replace (0 + m) with m by lia. destruct (take_bytes s m); reflexivity.
  - cbn [app]. rewrite str_bytes_cons. pose proof (utf8_len_pos c). pose proof (str_bytes_nonneg a).
    cbn [take_bytes].
    replace (utf8_len c + str_bytes a + m =? 0) with false by lia.
    replace (utf8_len c <=? utf8_len c + str_bytes a + m) with true by lia.
    replace (utf8_len c + str_bytes a + m - utf8_len c) with (str_bytes a + m) by lia.
    rewrite IH. destruct (take_bytes s m); reflexivity.
Qed.

Lemma take_bytes_last c : take_bytes [c] (utf8_len c - 1) = if c <? 128 then Some [] else None.
Proof.
  pose proof (utf8_len_pos c). pose proof (utf8_len_1 c).
  destruct (c <? 128) eqn:E.
  - replace (utf8_len c - 1) with 0 by lia. reflexivity.
  - cbn [take_bytes].
    replace (utf8_len c - 1 =? 0) with false by lia.
    replace (utf8_len c <=? utf8_len c - 1) with false by lia. reflexivity.
Qed.

Lemma starts_with_app pre s : starts_with pre s = true -> s = pre ++ skipn (length pre) s.
Proof.
  revert s. induction pre as [|a pre IH]; intros s H; [reflexivity|].
  destruct s as [|b s]; [discriminate|]. cbn [starts_with] in H.
  apply andb_true_iff in H as [H1 H2]. apply Z.eqb_eq in H1. subst b.
  cbn [length skipn app]. f_equal. now apply IH.
Qed.

Lemma rev_cases {A} (l : list A) : l = [] \/ exists r c, l = r ++ [c].
Proof.
  destruct (rev l) as [|c r] eqn:E.
  - left. apply (f_equal (@rev A)) in E. now rewrite rev_involutive in E.
  - right. exists (rev r), c. apply (f_equal (@rev A)) in E. now rewrite rev_involutive in E.
Qed.

(* token.get(k .. token.len()-1) for a token that starts with an ASCII prefix of k
   characters is the character-level [vec_elems_text] *)
Lemma slice_vec_body pre tok :
  starts_with pre tok = true -> str_bytes pre = Z.of_nat (length pre) ->
  slice_opt tok (Z.of_nat (length pre)) (str_bytes tok - 1) = vec_elems_text (length pre) tok.
Proof.
  intros Hs Hb. pose proof (starts_with_app pre tok Hs) as E.
  set (r := skipn (length pre) tok) in *. unfold vec_elems_text. fold r.
  rewrite E at 1 2. rewrite str_bytes_app, Hb. unfold slice_opt.
  destruct (rev_cases r) as [Hr | [r' [c Hr]]]; rewrite Hr.
  - cbn [str_bytes fold_right rev]. replace (Z.of_nat (length pre) + 0 - 1 <? Z.of_nat (length pre)) with true by lia.
    reflexivity.
  - rewrite str_bytes_app, rev_app_distr. cbn [rev app]. rewrite rev_involutive.
    cbn [str_bytes fold_right]. pose proof (utf8_len_pos c). pose proof (str_bytes_nonneg r').
    fold (str_bytes r').
    replace (Z.of_nat (length pre) + (str_bytes r' + (utf8_len c + 0)) - 1 <? Z.of_nat (length pre)) with false by lia.
    rewrite <- Hb, drop_bytes_app.
    replace (str_bytes pre + (str_bytes r' + (utf8_len c + 0)) - 1 - str_bytes pre)
      with (str_bytes r' + (utf8_len c - 1)) by lia.
    rewrite take_bytes_app by lia. rewrite take_bytes_last.
    destruct (c <? 128); cbn [option_map]; [now rewrite app_nil_r|reflexivity].
Qed.

(* ------------------------------------------------------------------ *)
(* decimal i32: parse_i32 (z_str z) = Some z *)

Lemma digits_val_snoc l d a :
  digits_val (l ++ [d]) a =
  match digits_val l a with
  | Some v => if is_dig d then Some (v * 10 + (d - 48)) else None
  | None => None
  end.
Proof.
  revert a. induction l as [|c l IH]; intro a.
  - cbn [app digits_val]. destruct (is_dig d); reflexivity.
  - cbn [app digits_val]. destruct (is_dig c); [apply IH|reflexivity].
Qed.

Lemma pos_digits_acc f : forall n acc, pos_digits f n acc = pos_digits f n [] ++ acc.
Proof.
  induction f as [|f IH]; intros n acc; [reflexivity|].
  cbn [pos_digits]. destruct (n <? 10); [reflexivity|].
  rewrite (IH (n / 10) ((48 + n mod 10) :: acc)), (IH (n / 10) [48 + n mod 10]).
  rewrite <- app_assoc. reflexivity.
Qed.

Lemma pos_digits_val f : forall n, 0 <= n < 2 ^ Z.of_nat (S f) ->
  digits_val (pos_digits (S f) n []) 0 = Some n /\ pos_digits (S f) n [] <> [].
Proof.
  induction f as [|f IH]; intros n Hn.
  - cbn [pos_digits]. change (2 ^ Z.of_nat 1) with 2 in Hn.
    replace (n <? 10) with true by lia. split; [|discriminate].
    cbn [digits_val]. unfold is_dig. replace ((48 <=? 48 + n) && (48 + n <=? 57)) with true by lia.
    f_equal. lia.
  - remember (S f) as f1. cbn [pos_digits]. destruct (n <? 10) eqn:E.
    + split; [|discriminate]. cbn [digits_val]. unfold is_dig.
      replace ((48 <=? 48 + n) && (48 + n <=? 57)) with true by lia. f_equal. lia.
    + rewrite pos_digits_acc. subst f1.
      assert (Hq : 0 <= n / 10 < 2 ^ Z.of_nat (S f)).
      { rewrite (Nat2Z.inj_succ (S f)), Z.pow_succ_r in Hn by lia.
        split; [apply Z.div_pos; lia|]. apply Z.div_lt_upper_bound; lia. }
      destruct (IH (n / 10) Hq) as [Hv Hne].
      split.
      * rewrite digits_val_snoc, Hv. unfold is_dig.
        pose proof (Z.mod_pos_bound n 10 ltac:(lia)).
        replace ((48 <=? 48 + n mod 10) && (48 + n mod 10 <=? 57)) with true by lia.
        f_equal. pose proof (Z.div_mod n 10 ltac:(lia)). lia.
      * intro H. apply app_eq_nil in H as [_ H]. discriminate.
Qed.

Lemma nat_str_val n : 0 <= n -> digits_val (nat_str n) 0 = Some n /\ nat_str n <> [].
Proof.
  intro Hn. unfold nat_str. apply pos_digits_val. split; [exact Hn|].
  rewrite Nat2Z.inj_succ, Z2Nat.id by apply Z.log2_nonneg.
  destruct (Z.eq_dec n 0) as [->|Hz].
  - reflexivity.
  - replace (Z.max n 1) with n by lia. apply Z.log2_spec. lia.
Qed.

Lemma digits_val_head c r a v : digits_val (c :: r) a = Some v -> 48 <= c <= 57.
Proof. cbn [digits_val]. unfold is_dig. destruct ((48 <=? c) && (c <=? 57)) eqn:E; [lia|discriminate]. Qed.

Theorem i32_roundtrip z : in_i32 z = true -> parse_i32 (z_str z) = Some z.
Proof.
  intro Hz. unfold z_str. destruct (z <? 0) eqn:E.
  - destruct (nat_str_val (- z) ltac:(lia)) as [Hv Hne].
    unfold parse_i32. destruct (nat_str (- z)) as [|c r] eqn:En; [congruence|].
    rewrite Hv. replace (- - z) with z by lia. now rewrite Hz.
  - destruct (nat_str_val z ltac:(lia)) as [Hv Hne].
    unfold parse_i32. destruct (nat_str z) as [|c r] eqn:En; [congruence|].
    pose proof (digits_val_head _ _ _ _ Hv) as Hc.
    destruct (Z.eq_dec c 45) as [->|N1]; [lia|]. destruct (Z.eq_dec c 43) as [->|N2]; [lia|].
    destruct c as [|q|q]; try lia.
    do 6 (destruct q as [q|q|]; try (cbn in N1, N2; try congruence; rewrite Hv, Hz; reflexivity)).
Qed.

(* what the printed integer looks like: a non-empty run of digits after an optional '-' *)
Lemma digits_ws_free l : forall a v, digits_val l a = Some v -> ws_free l.
Proof.
  induction l as [|c r IH]; intros a v Hv; [reflexivity|].
  pose proof (digits_val_head _ _ _ _ Hv) as Hc. apply ws_free_cons. split.
  - unfold is_ws. lia.
  - cbn [digits_val] in Hv. destruct (is_dig c); [|discriminate]. eapply IH; exact Hv.
Qed.

Lemma z_str_good z : good_tok (z_str z).
Proof.
  assert (G : forall n, 0 <= n -> good_tok (nat_str n)).
  { intros n Hn. destruct (nat_str_val n Hn) as [Hv Hne]. split; [exact Hne|].
    eapply digits_ws_free; exact Hv. }
  unfold z_str. destruct (z <? 0) eqn:E.
  - destruct (G (- z) ltac:(lia)) as [Hne Hf]. split; [discriminate|].
    apply ws_free_cons. split; [reflexivity|exact Hf].
  - apply G. lia.
Qed.

Lemma z_str_head z : exists c r, z_str z = c :: r /\ (c = 45 \/ 48 <= c <= 57).
Proof.
  unfold z_str. destruct (z <? 0) eqn:E.
  - eexists _, _. split; [reflexivity|]. now left.
  - destruct (nat_str_val z ltac:(lia)) as [Hv Hne]. destruct (nat_str z) as [|c r]; [congruence|].
    exists c, r. split; [reflexivity|]. right. eapply digits_val_head; exact Hv.
Qed.

(* C15: doubling programs.  `EXEC.Y ( I1 I2 )` applies I1 then I2 once every five interpreter
   steps, forever; with I1 I2 = CODE.DUP CODE.LIST (or NAME.DUP NAME.CAT) the top CODE item
   (the top NAME) doubles every five steps.  The run loop's growth cap looks at stack DEPTHS
   only (at most +2 per step here) and the configured max_points_in_program is read nowhere:
   under the default limits the loop stops at the step limit with an item of >= 2^200 points. *)
From Coq Require Import ZArith String List Bool Lia ZifyBool.
From PushModel Require Import Base.Sx Base.Machine Base.ListOps Base.F32 Model.Item Model.GraphT Model.State
  Model.InstrBase Model.IScalar Model.ICode Model.Registry Model.Interp Model.RegistryAll Model.Cost
  Proofs.CostBase Proofs.ListProofs.
Import ListNotations.
Close Scope string_scope.
Open Scope Z_scope.

Lemma set_exec_set_exec s a b : set_exec (set_exec s a) b = set_exec s b.
Proof. destruct s; reflexivity. Qed.
Lemma st_exec_set_exec s a : st_exec (set_exec s a) = a.
Proof. destruct s; reflexivity. Qed.
Lemma st_cfg_set_exec s a : st_cfg (set_exec s a) = st_cfg s.
Proof. destruct s; reflexivity. Qed.
Lemma state_size_set_exec s a : state_size (set_exec s a) = state_size s - zlen (st_exec s) + zlen a.
Proof.
  destruct s as [xb xc xe xf xix xi xn xbv xfv xiv xinp xoutp xg xbd xcfg xq xsd]. unfold state_size, zlen.
  cbn [st_bool st_float st_int st_name st_code st_exec st_bvec st_fvec st_ivec set_exec]. lia.
Qed.

(* ------------------------------------------------------------------ *)
(* the run loop along a trajectory of non-finishing steps that respect the growth cap *)
Section Traj.
  Context {FO : FloatOps}.
  Variable p : profile.
  Variable reg : registry.
  Variable w : world.
  Variable f : nat -> state.
  Variable cfg : config.
  Hypothesis f_step : forall i, step p reg w (f i) = Ok (false, w, f (S i)).
  Hypothesis f_cfg : forall i, st_cfg (f i) = cfg.
  Hypothesis f_size : forall i, state_size (f (S i)) <= state_size (f i) + cfg_growth_cap cfg.
  Hypothesis time_ok : 0 <= cfg_eval_time_limit cfg.

  Lemma run_loop_traj fuel : forall i c,
    0 <= c <= cfg_eval_push_limit cfg + 1 ->
    (Z.to_nat (cfg_eval_push_limit cfg + 1 - c) < fuel)%nat ->
    run_loop p reg (fun _ => 0) fuel c w (f i) =
      Ok (StepLimit, w, f (i + Z.to_nat (cfg_eval_push_limit cfg + 1 - c))%nat).
  Proof.
    induction fuel as [|fu IH]; intros i c Hc Hf; [lia|].
    cbn [run_loop]. rewrite !f_cfg.
    destruct (cfg_eval_push_limit cfg <? c) eqn:E1.
    - replace (cfg_eval_push_limit cfg + 1 - c) with 0 by lia. cbn [Z.to_nat]. now rewrite Nat.add_0_r.
    - replace (cfg_eval_time_limit cfg <? 0) with false by lia.
      rewrite f_step. cbn [rbind]. rewrite f_cfg.
      replace (state_size (f i) + cfg_growth_cap cfg <? state_size (f (S i))) with false
        by (pose proof (f_size i); lia).
      rewrite IH by lia. do 3 f_equal.
      replace (cfg_eval_push_limit cfg + 1 - c) with (Z.succ (cfg_eval_push_limit cfg + 1 - (c + 1))) by lia.
      rewrite Z2Nat.inj_succ by lia. lia.
  Qed.
End Traj.

(* ------------------------------------------------------------------ *)
(* EXEC.Y ( I1 I2 ) : the five-step cycle *)
Section Cycle.
  Context {FO : FloatOps}.
  Variable p : profile.
  Notation reg := full_registry.
  Variable w : world.
  Variables n1 n2 : string.
  Variables f1 f2 : instr.
  Variables g1 g2 : state -> state.
  Hypothesis L1 : lookup reg (s2l n1) = Some (pure f1).
  Hypothesis L2 : lookup reg (s2l n2) = Some (pure f2).
  Hypothesis LY : lookup reg (s2l "EXEC.Y"%string) = Some (pure exec_y).
  Hypothesis F1 : forall s, f1 s = Ok (g1 s).
  Hypothesis F2 : forall s, f2 s = Ok (g2 s).
  Hypothesis G1e : forall s e, g1 (set_exec s e) = set_exec (g1 s) e.
  Hypothesis G2e : forall s e, g2 (set_exec s e) = set_exec (g2 s) e.

  Definition body : item := IList [i_instr n1; i_instr n2].
  Definition yb : item := IList [i_instr "EXEC.Y"; body].
  Definition exec_of (ph : nat) : list item :=
    match ph with
    | 0%nat => [body; yb]
    | 1%nat => [i_instr n1; i_instr n2; yb]
    | 2%nat => [i_instr n2; yb]
    | 3%nat => [yb]
    | _ => [i_instr "EXEC.Y"; body]
    end.
  Definition st (x : nat * state) : state := set_exec (snd x) (exec_of (fst x)).
  Definition nxt (x : nat * state) : nat * state :=
    match fst x with
    | 0%nat => (1%nat, snd x)
    | 1%nat => (2%nat, g1 (snd x))
    | 2%nat => (3%nat, g2 (snd x))
    | 3%nat => (4%nat, snd x)
    | _ => (0%nat, snd x)
    end.

  Lemma step_cycle x : step p reg w (st x) = Ok (false, w, st (nxt x)).
  Proof.
    destruct x as [ph s]. unfold st, nxt. cbn [fst snd].
    destruct ph as [|[|[|[|ph]]]]; cbn [exec_of].
    - rewrite (step_list p reg w (set_exec s [body; yb]) [i_instr n1; i_instr n2] [yb] (st_exec_set_exec _ _)).
      rewrite set_exec_set_exec. reflexivity.
    - rewrite (step_instr p reg w (set_exec s [i_instr n1; i_instr n2; yb]) (s2l n1) [i_instr n2; yb] f1
                 (st_exec_set_exec _ _) L1).
      rewrite set_exec_set_exec, F1. cbn [rbind]. rewrite G1e. reflexivity.
    - rewrite (step_instr p reg w (set_exec s [i_instr n2; yb]) (s2l n2) [yb] f2 (st_exec_set_exec _ _) L2).
      rewrite set_exec_set_exec, F2. cbn [rbind]. rewrite G2e. reflexivity.
    - rewrite (step_list p reg w (set_exec s [yb]) [i_instr "EXEC.Y"; body] [] (st_exec_set_exec _ _)).
      rewrite set_exec_set_exec. reflexivity.
    - rewrite (step_instr p reg w (set_exec s [i_instr "EXEC.Y"; body]) (s2l "EXEC.Y") [body] exec_y
                 (st_exec_set_exec _ _) LY).
      rewrite set_exec_set_exec. unfold exec_y. rewrite st_exec_set_exec. cbn [rbind]. rewrite set_exec_set_exec. reflexivity.
  Qed.

  Fixpoint iter (n : nat) (x : nat * state) : nat * state :=
    match n with O => x | S n' => iter n' (nxt x) end.
  Lemma iter_S n x : iter (S n) x = nxt (iter n x).
  Proof. revert x; induction n as [|n IH]; intro x; [reflexivity|]. cbn [iter] in *. now rewrite IH. Qed.
  Lemma iter_add a b x : iter (a + b) x = iter b (iter a x).
  Proof. revert x; induction a as [|a IH]; intro x; [reflexivity|]. cbn [Nat.add iter]. apply IH. Qed.

  (* one full cycle from the EXEC.Y phase applies I1 then I2 *)
  Lemma cycle5 s : iter 5 (4%nat, s) = (4%nat, g2 (g1 s)).
  Proof. reflexivity. Qed.
  Fixpoint rounds (k : nat) (s : state) : state := match k with O => s | S k' => rounds k' (g2 (g1 s)) end.
  Lemma iter_rounds k : forall s, iter (5 * k) (4%nat, s) = (4%nat, rounds k s).
  Proof.
    induction k as [|k IH]; intro s; [reflexivity|].
    replace (5 * S k)%nat with (5 + 5 * k)%nat by lia. rewrite iter_add, cycle5, IH. reflexivity.
  Qed.

  Lemma steps_cycle n : forall x, steps p reg n w (st x) = Ok (false, w, st (iter n x)).
  Proof.
    induction n as [|n IH]; intro x; [reflexivity|].
    cbn [steps iter]. rewrite step_cycle. cbn [rbind]. apply IH.
  Qed.

  (* the growth cap never fires: at most one more EXEC entry and what I1, I2 add *)
  Hypothesis G1c : forall s, st_cfg (g1 s) = st_cfg s.
  Hypothesis G2c : forall s, st_cfg (g2 s) = st_cfg s.
  Hypothesis G1s : forall s, state_size (g1 s) <= state_size s + 1.
  Hypothesis G2s : forall s, state_size (g2 s) <= state_size s + 1.

  Lemma st_cfg_cycle x : st_cfg (st (nxt x)) = st_cfg (st x).
  Proof.
    destruct x as [ph s]. unfold st, nxt. cbn [fst snd]. rewrite !st_cfg_set_exec.
    destruct ph as [|[|[|[|ph]]]]; cbn [snd]; rewrite ?G1c, ?G2c; reflexivity.
  Qed.
  Lemma st_cfg_iter n x : st_cfg (st (iter n x)) = st_cfg (st x).
  Proof. induction n as [|n IH]; [reflexivity|]. now rewrite iter_S, st_cfg_cycle. Qed.
  Lemma state_size_cycle x : state_size (st (nxt x)) <= state_size (st x) + 2.
  Proof.
    destruct x as [ph s]. unfold st, nxt. cbn [fst snd]. rewrite !state_size_set_exec.
    destruct ph as [|[|[|[|ph]]]]; cbn [snd fst exec_of]; rewrite ?G1e, ?G2e;
      try (pose proof (G1s s)); try (pose proof (G2s s));
      repeat rewrite ?zlen_cons', ?zlen_nil';
      try lia.
    - assert (st_exec (g1 s) = st_exec s) as ->; [|lia].
      rewrite <- (st_exec_set_exec (g1 s) (st_exec s)), <- G1e. f_equal. destruct s; reflexivity.
    - assert (st_exec (g2 s) = st_exec s) as ->; [|lia].
      rewrite <- (st_exec_set_exec (g2 s) (st_exec s)), <- G2e. f_equal. destruct s; reflexivity.
  Qed.

  (* the run loop, started anywhere in the cycle with the counter at c *)
  Theorem run_loop_cycle x fuel c :
    let cfg := st_cfg (st x) in
    2 <= cfg_growth_cap cfg -> 0 <= cfg_eval_time_limit cfg ->
    0 <= c <= cfg_eval_push_limit cfg + 1 ->
    (Z.to_nat (cfg_eval_push_limit cfg + 1 - c) < fuel)%nat ->
    run_loop p reg (fun _ => 0) fuel c w (st x) =
      Ok (StepLimit, w, st (iter (Z.to_nat (cfg_eval_push_limit cfg + 1 - c)) x)).
  Proof.
    intros cfg HG HT Hc Hf.
    pose proof (run_loop_traj p reg w (fun i => st (iter i x)) cfg) as R.
    cbn beta in R.
    assert (S1 : forall i, step p reg w (st (iter i x)) = Ok (false, w, st (iter (S i) x))).
    { intro i. rewrite iter_S. apply step_cycle. }
    specialize (R S1).
    specialize (R (fun i => st_cfg_iter i x)).
    assert (S2 : forall i, state_size (st (iter (S i) x)) <= state_size (st (iter i x)) + cfg_growth_cap cfg).
    { intro i. rewrite iter_S. pose proof (state_size_cycle (iter i x)). lia. }
    specialize (R S2 HT fuel O c Hc Hf). exact R.
  Qed.
End Cycle.

(* ------------------------------------------------------------------ *)
(* lookups in the full registry *)
Ltac lookup_core :=
  unfold full_registry, full_table, base_table, tbl_core; rewrite ?mk_registry_app, ?lookup_app;
  repeat match goal with
         | |- context [lookup (mk_registry ?U) ?n] =>
             rewrite (lookup_none (mk_registry U) n) by (vm_compute; reflexivity)
         end;
  try unfold tbl_name; try unfold tbl_code; try unfold tbl_exec; unfold stack_family; lookup_small.

Section Instances.
  Context {FO : FloatOps}.
  Variable p : profile.
  Variable w : world.

  Lemma lookup_code_dup : lookup full_registry (s2l "CODE.DUP"%string) = Some (pure (g_dup st_code set_code)).
  Proof. lookup_core. Qed.
  Lemma lookup_code_list : lookup full_registry (s2l "CODE.LIST"%string) = Some (pure code_list).
  Proof. lookup_core. Qed.
  Lemma lookup_code_quote : lookup full_registry (s2l "CODE.QUOTE"%string) = Some (pure code_quote).
  Proof. lookup_core. Qed.
  Lemma lookup_exec_y : lookup full_registry (s2l "EXEC.Y"%string) = Some (pure exec_y).
  Proof. lookup_core. Qed.
  Lemma lookup_name_dup : lookup full_registry (s2l "NAME.DUP"%string) = Some (pure (g_dup st_name set_name)).
  Proof. lookup_core. Qed.
  Lemma lookup_name_cat : lookup full_registry (s2l "NAME.CAT"%string) = Some (pure name_cat).
  Proof. lookup_core. Qed.

  (* ---- CODE.DUP CODE.LIST ---- *)
  Definition dup_code (s : state) : state := match st_code s with x :: _ => set_code s (x :: st_code s) | [] => s end.
  Definition list_code (s : state) : state :=
    match st_code s with b :: a :: _ => push_code s (IList [b; a]) | _ => s end.

  Ltac ds s := destruct s as [xb xc xe xf xix xi xn xbv xfv xiv xinp xoutp xg xbd xcfg xq xsd].

  Lemma dup_code_ok s : g_dup st_code set_code s = Ok (dup_code s).
  Proof. unfold g_dup, dup_code. destruct (st_code s); reflexivity. Qed.
  Lemma list_code_ok s : code_list s = Ok (list_code s).
  Proof. unfold code_list, list_code. destruct (st_code s) as [|b [|a r]]; reflexivity. Qed.
  Lemma dup_code_exec s e : dup_code (set_exec s e) = set_exec (dup_code s) e.
  Proof. ds s. unfold dup_code. cbn [st_code set_exec]. destruct xc; reflexivity. Qed.
  Lemma list_code_exec s e : list_code (set_exec s e) = set_exec (list_code s) e.
  Proof. ds s. unfold list_code. cbn [st_code set_exec]. destruct xc as [|b [|a r]]; reflexivity. Qed.
  Lemma dup_code_cfg s : st_cfg (dup_code s) = st_cfg s.
  Proof. ds s. unfold dup_code. cbn [st_code]. destruct xc; reflexivity. Qed.
  Lemma list_code_cfg s : st_cfg (list_code s) = st_cfg s.
  Proof. ds s. unfold list_code. cbn [st_code]. destruct xc as [|b [|a r]]; reflexivity. Qed.
  Lemma dup_code_size s : state_size (dup_code s) <= state_size s + 1.
  Proof.
    ds s. unfold dup_code. cbn [st_code]. destruct xc; [lia|].
    unfold state_size. cbn [st_bool st_float st_int st_name st_code st_exec st_bvec st_fvec st_ivec set_code length]. lia.
  Qed.
  Lemma list_code_size s : state_size (list_code s) <= state_size s + 1.
  Proof.
    ds s. unfold list_code. cbn [st_code]. destruct xc as [|b [|a r]]; try lia.
    unfold state_size, push_code.
    cbn [st_bool st_float st_int st_name st_code st_exec st_bvec st_fvec st_ivec set_code length]. lia.
  Qed.

  (* the item after k doublings *)
  Fixpoint dbl (k : nat) (x : item) : item := match k with O => x | S k' => dbl k' (IList [x; x]) end.
  Lemma size_dbl k : forall x, size (dbl k x) = 2 ^ Z.of_nat k * (size x + 1) - 1.
  Proof.
    induction k as [|k IH]; intro x; cbn [dbl]; [change (2 ^ Z.of_nat 0) with 1; lia|].
    rewrite IH. rewrite Nat2Z.inj_succ, Z.pow_succ_r by lia.
    change (size (IList [x; x])) with (1 + (size x + (size x + 0))). lia.
  Qed.
  Lemma rounds_code k : forall s x r, st_code s = x :: r ->
    exists r', st_code (rounds dup_code list_code k s) = dbl k x :: r'.
  Proof.
    induction k as [|k IH]; intros s x r E; cbn [rounds dbl]; [eauto|].
    apply (IH _ _ (x :: x :: r)). ds s. cbn [st_code] in E. subst xc. reflexivity.
  Qed.

  (* `( CODE.QUOTE ( 1 ) EXEC.Y ( CODE.DUP CODE.LIST ) )`, as PushInterpreter::run sees it *)
  Definition one_item : item := IList [ILit (LInt 1)].
  Definition dl_body : item := body "CODE.DUP"%string "CODE.LIST"%string.
  Definition doubling_prog : list item := [i_instr "CODE.QUOTE"; one_item; i_instr "EXEC.Y"; dl_body].
  Definition doubling_state (cfg : config) : state := set_cfg (set_exec empty_state doubling_prog) cfg.

  Notation cyc := (iter dup_code list_code).
  Notation cst := (st "CODE.DUP"%string "CODE.LIST"%string).

  (* the state after the first step (CODE.QUOTE) is the EXEC.Y phase of the cycle *)
  Definition after_quote (cfg : config) : state := set_code (doubling_state cfg) (one_item :: doubling_prog).
  Lemma first_step cfg :
    step p full_registry w (copy_to_code (doubling_state cfg)) = Ok (false, w, cst (4%nat, after_quote cfg)).
  Proof.
    rewrite (step_instr p full_registry w (copy_to_code (doubling_state cfg)) (s2l "CODE.QUOTE")
               [one_item; i_instr "EXEC.Y"; dl_body] code_quote eq_refl lookup_code_quote).
    reflexivity.
  Qed.

  (* the steps of the cycle, for any number of steps *)
  Lemma doubling_steps cfg n :
    steps p full_registry (S n) w (copy_to_code (doubling_state cfg)) =
      Ok (false, w, cst (cyc n (4%nat, after_quote cfg))).
  Proof.
    cbn [steps]. rewrite first_step. cbn [rbind].
    apply (steps_cycle p w _ _ _ _ dup_code list_code lookup_code_dup lookup_code_list lookup_exec_y
             dup_code_ok list_code_ok dup_code_exec list_code_exec).
  Qed.

  (* after 1 + 5k steps the top CODE item has 2^(k+1) - 1 points (the configured limit is never consulted) *)
  Theorem doubling_points cfg k : exists s' r,
    steps p full_registry (S (5 * k)) w (copy_to_code (doubling_state cfg)) = Ok (false, w, s') /\
    st_code s' = dbl k one_item :: r /\ size (dbl k one_item) = 3 * 2 ^ Z.of_nat k - 1.
  Proof.
    destruct (rounds_code k (after_quote cfg) one_item doubling_prog eq_refl) as (r' & E).
    eexists _, r'. split; [apply doubling_steps|].
    rewrite iter_rounds. unfold st. cbn [fst snd].
    split; [|rewrite size_dbl; change (size one_item) with 2; lia].
    rewrite <- E. generalize (rounds dup_code list_code k (after_quote cfg)). intro s. ds s. reflexivity.
  Qed.

  (* the run loop under the DEFAULT limits: 1001 steps, the growth cap (stack depths, +2 per step at
     most) never fires, the loop stops at the step limit with a top CODE item of 3 * 2^200 - 1 points *)
  Theorem doubling_run : exists s' r,
    run p full_registry (fun _ => 0) w (doubling_state default_cfg) = Ok (StepLimit, w, s') /\
    st_code s' = dbl 200 one_item :: r /\
    cfg_max_points_prog (st_cfg s') = 100 /\ 2 ^ 200 <= size (dbl 200 one_item).
  Proof.
    destruct (rounds_code 200 (after_quote default_cfg) one_item doubling_prog eq_refl) as (r' & E).
    exists (cst (4%nat, rounds dup_code list_code 200 (after_quote default_cfg))), r'.
    split; [|split; [|split]].
    - unfold run.
      set (s1 := copy_to_code (doubling_state default_cfg)).
      assert (F : exists fu, run_fuel s1 = S fu /\ (Z.to_nat (1000 + 1 - 1) < fu)%nat).
      { exists (S (Z.to_nat (1000 + 2))). split; [reflexivity|lia]. }
      destruct F as (fu & -> & Hfu).
      cbn [run_loop].
      change (cfg_eval_push_limit (st_cfg s1)) with 1000. change (cfg_eval_time_limit (st_cfg s1)) with 5000.
      replace (1000 <? 0) with false by reflexivity. replace (5000 <? 0) with false by reflexivity.
      unfold s1. rewrite first_step. cbn [rbind].
      replace (_ <? state_size (cst (4%nat, after_quote default_cfg))) with false by reflexivity.
      pose proof (run_loop_cycle p w _ _ _ _ dup_code list_code lookup_code_dup lookup_code_list lookup_exec_y
                    dup_code_ok list_code_ok dup_code_exec list_code_exec dup_code_cfg list_code_cfg
                    dup_code_size list_code_size (4%nat, after_quote default_cfg) fu (0 + 1)) as R.
      cbv zeta in R.
      change (st_cfg (cst (4%nat, after_quote default_cfg))) with default_cfg in R.
      change (cfg_growth_cap default_cfg) with 500 in R. change (cfg_eval_time_limit default_cfg) with 5000 in R.
      change (cfg_eval_push_limit default_cfg) with 1000 in R.
      rewrite R by lia.
      replace (Z.to_nat (1000 + 1 - (0 + 1))) with (5 * 200)%nat by lia.
      rewrite iter_rounds. reflexivity.
    - rewrite <- E. unfold st. cbn [fst snd].
      generalize (rounds dup_code list_code 200 (after_quote default_cfg)). intro s. ds s. reflexivity.
    - unfold st. cbn [fst snd]. rewrite st_cfg_set_exec.
      assert (C : forall k s, st_cfg (rounds dup_code list_code k s) = st_cfg s).
      { induction k as [|k IH]; intro s; cbn [rounds]; [reflexivity|]. now rewrite IH, list_code_cfg, dup_code_cfg. }
      rewrite C. reflexivity.
    - rewrite size_dbl. change (size one_item) with 2. change (Z.of_nat 200) with 200. lia.
  Qed.

  (* ---- NAME.DUP NAME.CAT: names have no configured limit at all ---- *)
  Definition dup_name (s : state) : state := match st_name s with x :: _ => set_name s (x :: st_name s) | [] => s end.
  Definition cat_name (s : state) : state :=
    match st_name s with b :: a :: r => set_name s ((a ++ [32] ++ b) :: r) | _ => s end.
  Lemma dup_name_ok s : g_dup st_name set_name s = Ok (dup_name s).
  Proof. unfold g_dup, dup_name. destruct (st_name s); reflexivity. Qed.
  Lemma cat_name_ok s : name_cat s = Ok (cat_name s).
  Proof. unfold name_cat, cat_name. destruct (st_name s) as [|b [|a r]]; reflexivity. Qed.
  Lemma dup_name_exec s e : dup_name (set_exec s e) = set_exec (dup_name s) e.
  Proof. ds s. unfold dup_name. cbn [st_name set_exec]. destruct xn; reflexivity. Qed.
  Lemma cat_name_exec s e : cat_name (set_exec s e) = set_exec (cat_name s) e.
  Proof. ds s. unfold cat_name. cbn [st_name set_exec]. destruct xn as [|b [|a r]]; reflexivity. Qed.

  Fixpoint dbl_name (k : nat) (x : str) : str := match k with O => x | S k' => dbl_name k' (x ++ [32] ++ x) end.
  Lemma len_dbl_name k : forall x, zlen (dbl_name k x) = 2 ^ Z.of_nat k * (zlen x + 1) - 1.
  Proof.
    induction k as [|k IH]; intro x; cbn [dbl_name]; [change (2 ^ Z.of_nat 0) with 1; lia|].
    rewrite IH. rewrite Nat2Z.inj_succ, Z.pow_succ_r by lia.
    rewrite !zlen_app', zlen_cons', zlen_nil'. lia.
  Qed.
  Lemma rounds_name k : forall s x r, st_name s = x :: r ->
    st_name (rounds dup_name cat_name k s) = dbl_name k x :: r.
  Proof.
    induction k as [|k IH]; intros s x r E; cbn [rounds dbl_name]; [exact E|].
    apply IH. ds s. cbn [st_name] in E. subst xn. reflexivity.
  Qed.

  (* `( A EXEC.Y ( NAME.DUP NAME.CAT ) )` with A unbound *)
  Definition nc_body : item := body "NAME.DUP"%string "NAME.CAT"%string.
  Definition name_prog : list item := [IName [65]; i_instr "EXEC.Y"; nc_body].
  Definition name_state : state := set_exec empty_state name_prog.
  Definition after_name : state := set_name name_state [ [65] ].
  Notation nst := (st "NAME.DUP"%string "NAME.CAT"%string).

  Lemma name_first_step : step p full_registry w name_state = Ok (false, w, nst (4%nat, after_name)).
  Proof. reflexivity. Qed.

  (* after 1 + 5k steps the top NAME has 2^(k+1) - 1 characters *)
  Theorem name_doubling k : exists s',
    steps p full_registry (S (5 * k)) w name_state = Ok (false, w, s') /\
    st_name s' = [ dbl_name k [65] ] /\ zlen (dbl_name k [65]) = 2 ^ (Z.of_nat k + 1) - 1.
  Proof.
    eexists. split; [|split].
    - cbn [steps]. rewrite name_first_step. cbn [rbind].
      rewrite (steps_cycle p w _ _ _ _ dup_name cat_name lookup_name_dup lookup_name_cat lookup_exec_y
                 dup_name_ok cat_name_ok dup_name_exec cat_name_exec).
      rewrite iter_rounds. reflexivity.
    - unfold st. cbn [fst snd]. rewrite <- (rounds_name k after_name [65] [] eq_refl).
      generalize (rounds dup_name cat_name k after_name). intro s. ds s. reflexivity.
    - rewrite len_dbl_name. rewrite Z.pow_add_r by lia. change (zlen [65]) with 1. lia.
  Qed.
End Instances.

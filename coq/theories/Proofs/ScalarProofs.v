(* C04: each scalar instruction of the model equals the reference signature of Spec/ScalarSpec.v. *)
From Coq Require Import ZArith String List Bool Lia ZifyBool.
From PushModel Require Import Base.Sx Base.Machine Base.ListOps Base.F32 Model.Item Model.GraphT Model.State
  Model.InstrBase Model.IScalar Model.Registry Model.Interp Model.RegistryAll Spec.ScalarSpec.
Import ListNotations.
Open Scope Z_scope.

Arguments wrap32 : simpl never.
Arguments Z.quot : simpl never.
Arguments Z.rem : simpl never.
Arguments Z.add : simpl never.
Arguments Z.sub : simpl never.
Arguments Z.mul : simpl never.
Arguments Z.abs : simpl never.
Arguments Z.max : simpl never.
Arguments Z.min : simpl never.
Arguments Z.eqb : simpl never.
Arguments Z.ltb : simpl never.
Arguments Z.gtb : simpl never.

Lemma wrem32_is_rem a b : wrem32 a b = Z.rem a b.
Proof.
  unfold wrem32. destruct ((a =? min32) && (b =? -1)) eqn:E; [|reflexivity].
  apply andb_prop in E as [Ea Eb]. apply Z.eqb_eq in Ea, Eb. subst. reflexivity.
Qed.
Lemma gtb_max a b : (if a >? b then a else b) = Z.max a b.
Proof. destruct (a >? b) eqn:E; lia. Qed.
Lemma gtb_min a b : (if a >? b then b else a) = Z.min a b.
Proof. destruct (a >? b) eqn:E; lia. Qed.

Section Scalar.
  Context {FO : FloatOps}.

  Definition agrees (n : string) (g : ssig) : Prop :=
    exists f, lookup full_registry (s2l n) = Some (pure f) /\ forall s, f s = apply_sig g s.

  Ltac two_int s := destruct (st_int s) as [|?b [|?a ?r]]; cbn; try reflexivity.
  Ltac two_float s := destruct (st_float s) as [|?b [|?a ?r]]; cbn; try reflexivity.
  Ltac two_bool s := destruct (st_bool s) as [|?b [|?a ?r]]; cbn; try reflexivity.
  Ltac two_name s := destruct (st_name s) as [|?b [|?a ?r]]; cbn; try reflexivity.
  Ltac one_int s := destruct (st_int s) as [|?a ?r]; cbn; try reflexivity.
  Ltac one_float s := destruct (st_float s) as [|?a ?r]; cbn; try reflexivity.
  Ltac one_bool s := destruct (st_bool s) as [|?a ?r]; cbn; try reflexivity.
  Ltac start := eexists; split; [reflexivity|]; intros s; unfold apply_sig; cbn.

  Lemma scalar_correct : Forall (fun e => agrees (fst e) (snd e)) scalar_table.
  Proof.
    unfold scalar_table.
    repeat (apply Forall_cons; [|]); try apply Forall_nil; cbn [fst snd].
    (* INTEGER *)
    - start. unfold integer_add, int_bin, wadd32. two_int s.
    - start. unfold integer_sub, int_bin, wsub32. two_int s.
    - start. unfold integer_mul, int_bin, wmul32. two_int s.
    - start. unfold integer_div, int_bin, wdiv32. two_int s. destruct (b =? 0); reflexivity.
    - start. unfold integer_mod, int_bin. two_int s. rewrite wrem32_is_rem. destruct (b =? 0); reflexivity.
    - start. unfold integer_lt, int_cmp. two_int s.
    - start. unfold integer_eq, int_cmp. two_int s.
    - start. unfold integer_gt, int_cmp. two_int s.
    - start. unfold integer_max, int_bin. two_int s. now rewrite gtb_max.
    - start. unfold integer_min, int_bin. two_int s. now rewrite gtb_min.
    - start. unfold integer_abs, wabs32. one_int s.
    - start. unfold integer_from_boolean. one_bool s.
    - start. unfold integer_from_float. one_float s.
    (* FLOAT *)
    - start. unfold float_add, float_bin. two_float s.
    - start. unfold float_sub, float_bin. two_float s.
    - start. unfold float_mul, float_bin. two_float s.
    - start. unfold float_div, float_bin, f_nonzero, nonzero. two_float s. destruct (negb _); reflexivity.
    - start. unfold float_mod, float_bin, f_nonzero, nonzero. two_float s. destruct (negb _); reflexivity.
    - start. unfold float_lt, float_cmp. two_float s.
    - start. unfold float_eq, float_cmp. two_float s.
    - start. unfold float_gt, float_cmp. two_float s.
    - start. unfold float_max, float_bin. two_float s.
    - start. unfold float_min, float_bin. two_float s.
    - start. unfold float_cos, float_libm. one_float s. destruct (libm1 _ _); reflexivity.
    - start. unfold float_sin, float_libm. one_float s. destruct (libm1 _ _); reflexivity.
    - start. unfold float_tan, float_libm. one_float s. destruct (libm1 _ _); reflexivity.
    - start. unfold float_exp, float_libm. one_float s. destruct (libm1 _ _); reflexivity.
    - start. unfold float_from_boolean. one_bool s.
    - start. unfold float_from_integer. one_int s.
    (* BOOLEAN *)
    - start. unfold boolean_eq, bool_bin. two_bool s.
    - start. unfold boolean_and, bool_bin. two_bool s.
    - start. unfold boolean_or, bool_bin. two_bool s.
    - start. unfold boolean_not. one_bool s.
    (* NAME *)
    - start. unfold name_equal. two_name s.
    - start. unfold name_cat. two_name s.
  Qed.

  Lemma known_correct : Forall (fun e => agrees (fst e) (snd e)) known_table.
  Proof.
    unfold known_table.
    repeat (apply Forall_cons; [|]); try apply Forall_nil; cbn [fst snd].
    - start. unfold boolean_from_float. one_float s.
    - start. unfold boolean_from_integer. one_int s.
  Qed.

  (* operands are consumed exactly and only when all are present; shapes do not depend on the values *)
  Lemma apply_sig_missing g s : (length (vals (s_ty g) s) < s_n g)%nat -> apply_sig g s = Ok s.
  Proof. intros H. unfold apply_sig. apply Nat.ltb_lt in H. now rewrite H. Qed.
End Scalar.

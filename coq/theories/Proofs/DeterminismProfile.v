(* C14: which registry entries look at the build profile.
   Only two entries of the full table are [purep]: CODE.EXTRACT and CODE.INSERT
   (the `usize` subtractions of Item::traverse / Item::insert).  Both walks start
   from a non-negative point index and never subtract below 1, so the debug
   (panic on underflow) and release (wrap) builds agree; for CODE.INSERT this
   needs the INTEGER operand to be a real i32 (the model's stack holds any Z). *)
From Coq Require Import ZArith String List Bool Lia ZifyBool.
From PushModel Require Import Base.Sx Base.Machine Base.ListOps Base.F32 Model.Item Model.GraphT Model.State
  Model.InstrBase Model.IScalar Model.ICode Model.Registry Proofs.TreeInsert.
Import ListNotations.
Open Scope Z_scope.

Lemma usub_pos p d : 0 < d -> usub p d 1 = Ok (d - 1).
Proof. intros H. unfold usub. destruct (1 <=? d) eqn:E; [reflexivity|lia]. Qed.

(* ---- Item::traverse ---- *)
Lemma traverse_profile p t : forall d, 0 <= d ->
  traverse p t d = traverse Debug t d /\ (forall nd, traverse p t d = Ok (Rem nd) -> 0 < nd).
Proof.
  induction t as [l IH|n|v|n] using item_ind'; intros d Hd; rewrite !traverse_unfold;
    destruct (d =? 0) eqn:E0; try (split; [reflexivity|intros nd H; inversion H; subst; lia]);
    try (split; [reflexivity|discriminate]).
  assert (Hp : 0 < d) by lia. clear Hd E0. revert d Hp.
  induction l as [|c r IHl]; intros d Hp; cbn [traverse_list].
  - split; [reflexivity|intros nd H; inversion H; subst; lia].
  - inversion IH as [|? ? Hc Hr]; subst. rewrite !usub_pos by lia. cbn [rbind].
    destruct (Hc (d - 1) ltac:(lia)) as [E1 E2]. rewrite E1.
    destruct (traverse Debug c (d - 1)) as [[y|nd]| |] eqn:Ec; cbn [rbind];
      try (split; [reflexivity|discriminate]).
    apply IHl; [assumption|]. apply E2. now rewrite E1.
Qed.

(* ---- Item::insert ---- *)
Lemma insert_profile pinned p x t : forall d, 0 <= d ->
  insert_g pinned p t x d = insert_g pinned Debug t x d /\
  (forall t' nd, insert_g pinned p t x d = Ok (t', IErr nd) -> 0 < nd).
Proof.
  induction t as [l IH|n|v|n] using item_ind'; intros d Hd; rewrite !insert_g_unfold;
    destruct (d =? 0) eqn:E0; try (split; [reflexivity|intros t' nd H; inversion H; subst; lia]);
    try (split; [reflexivity|discriminate]).
  assert (Hp : 0 < d) by lia. rewrite !usub_pos by lia. cbn [rbind].
  assert (G : forall ridx l, Forall (fun t => forall d, 0 <= d ->
                 insert_g pinned p t x d = insert_g pinned Debug t x d /\
                 (forall t' nd, insert_g pinned p t x d = Ok (t', IErr nd) -> 0 < nd)) l ->
              forall pre i d, 0 < d ->
              insert_list pinned p x ridx pre l i d = insert_list pinned Debug x ridx pre l i d /\
              (forall l' nd, insert_list pinned p x ridx pre l i d = Ok (l', IErr nd) -> 0 < nd)).
  { clear. intros ridx l. induction l as [|c r IHl]; intros IH pre i d Hp.
    - cbn [insert_list]. split; [reflexivity|intros l' nd H; inversion H; subst; lia].
    - rewrite !insert_list_cons. inversion IH as [|? ? Hc Hr]; subst. rewrite !usub_pos by lia. cbn [rbind].
      destruct (Hc (d - 1) ltac:(lia)) as [E1 E2]. rewrite E1.
      destruct (insert_g pinned Debug c x (d - 1)) as [[c' [here|nd]]| |] eqn:Ec; cbn [rbind fst snd];
        try (split; [reflexivity|discriminate]).
      apply IHl; [assumption|]. eapply E2. rewrite E1. reflexivity. }
  destruct (G (d - 1) l IH [] 0 d Hp) as [G1 G2]. rewrite G1.
  split; [reflexivity|].
  intros t' nd H.
  destruct (insert_list pinned Debug x (d - 1) [] l 0 d) as [[l' r']| |] eqn:El; cbn [rbind fst snd] in H; try discriminate.
  inversion H; subst. eapply G2. rewrite G1. reflexivity.
Qed.

Section Profile.
  Context {FO : FloatOps}.

  Lemma rem_euclid32_nonneg a b n : rem_euclid32 a b = Ok n -> 0 <= n.
  Proof.
    unfold rem_euclid32. destruct (b =? 0) eqn:E; [discriminate|]. destruct (_ && _); [discriminate|].
    intros H; inversion H; subst. apply Z.mod_pos_bound. lia.
  Qed.

  (* CODE.EXTRACT never looks at the profile *)
  Lemma code_extract_profile p s : code_extract p s = code_extract Debug s.
  Proof.
    unfold code_extract. destruct (st_int s) as [|idx ir]; [reflexivity|].
    destruct (st_code (set_int s ir)) as [|t r]; [reflexivity|].
    destruct (rem_euclid32 idx (wrap32 (size t))) as [n| |] eqn:En; cbn [rbind]; try reflexivity.
    apply rem_euclid32_nonneg in En.
    assert (E : i32_as_usize n = n) by (unfold i32_as_usize; destruct (n <? 0) eqn:E; [lia|reflexivity]).
    rewrite E. now rewrite (proj1 (traverse_profile p t n En)).
  Qed.

  (* CODE.INSERT: agrees when the index operand, read as usize, is non-negative:
     true of every i32 (the side condition excludes only model states that hold a
     non-i32 integer below -2^64) *)
  Definition insert_operand_ok (s : state) : Prop :=
    match st_int s with idx :: _ => - two64 <= idx | [] => True end.
  Lemma code_insert_profile p s : insert_operand_ok s -> code_insert p s = code_insert Debug s.
  Proof.
    unfold code_insert, insert_operand_ok. destruct (st_int s) as [|idx ir]; [reflexivity|]. intros Hi.
    destruct (st_code (set_int s ir)) as [|t [|x r]]; try reflexivity.
    assert (E : 0 <= i32_as_usize idx) by (unfold i32_as_usize; destruct (idx <? 0) eqn:E; lia).
    unfold insert. now rewrite (proj1 (insert_profile false p x t _ E)).
  Qed.
End Profile.

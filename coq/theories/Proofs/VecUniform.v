(* C05/C09: the stack-manipulation instructions of the three vector stacks are the generic
   ones.  The vector families register NO ROT instruction (load_vector_instructions,
   src/push/vector.rs:126-481, has no *.ROT entry), so the statement is [uniform_for]
   without its ROT clause, plus the fact that the ROT names are absent. *)
From Coq Require Import ZArith String List Bool.
From PushModel Require Import Base.Sx Base.Machine Base.F32 Model.Item Model.GraphT Model.State
  Model.InstrBase Model.Registry Model.Interp Model.RegistryVec Model.RegistryAll Proofs.StackOpsProofs
  Proofs.UniformProofs.
Import ListNotations.
Open Scope string_scope.

Section VecUniform.
  Context {FO : FloatOps}.

  Definition uniform_norot_for {A} (pre : string) (L : lens A) : Prop :=
    reg_is (pre ++ ".DUP") (g_dup (lget L) (lset L)) /\
    reg_is (pre ++ ".POP") (g_pop (lget L) (lset L)) /\
    reg_is (pre ++ ".SWAP") (g_swap (lget L) (lset L)) /\
    reg_is (pre ++ ".FLUSH") (g_flush (lset L)) /\
    reg_is (pre ++ ".YANK") (g_yank (lget L) (lset L)) /\
    reg_is (pre ++ ".YANKDUP") (g_yankdup (lget L) (lset L)) /\
    reg_is (pre ++ ".SHOVE") (g_shove (lget L) (lset L)) /\
    lookup full_registry (s2l (pre ++ ".ROT")) = None.

  Lemma uniform_vector :
    uniform_norot_for "BOOLVECTOR" L_bvec /\ uniform_norot_for "INTVECTOR" L_ivec /\
    uniform_norot_for "FLOATVECTOR" L_fvec.
  Proof. repeat split; reflexivity. Qed.

  Lemma depth_uniform_vector :
    reg_is "BOOLVECTOR.STACKDEPTH" (g_depth st_bvec) /\ reg_is "INTVECTOR.STACKDEPTH" (g_depth st_ivec) /\
    reg_is "FLOATVECTOR.STACKDEPTH" (g_depth st_fvec).
  Proof. repeat split; reflexivity. Qed.

  Lemma define_uniform_vector :
    reg_is "BOOLVECTOR.DEFINE" (g_define st_bvec set_bvec lit_bvec) /\
    reg_is "INTVECTOR.DEFINE" (g_define st_ivec set_ivec lit_ivec) /\
    reg_is "FLOATVECTOR.DEFINE" (g_define st_fvec set_fvec lit_fvec).
  Proof. repeat split; reflexivity. Qed.
End VecUniform.

(* Lemmas behind Props/C20i.v: the four LIST.NEIGHBOR* instructions
   (Model/INeighbor.v) against the API-level theorems of Proofs/TopoNbr.v. *)
From Coq Require Import String ZArith List Bool Lia ZifyBool Sorted.
From PushModel Require Import Base.Sx Base.Machine Base.ListOps Base.F32 Model.Item Model.GraphT Model.State
  Model.InstrBase Model.Registry Model.Interp Model.IList Model.Topology Model.INeighbor Model.RegistryNbr
  Model.RegistryAll Spec.ListSpec Spec.TopoSpec Spec.NbrSpec Proofs.TopoNbr Proofs.ListProofs.
Import ListNotations.
Open Scope Z_scope.
Open Scope list_scope.

Section NbrInstr.
  Context {FO : FloatOps}.

  (* ---- the operand corrections ---- *)
  Lemma clamps_in_range size index dims :
    let size' := Z.max size 0 in
    let index' := Z.max (Z.min (size' - 1) index) 0 in
    let dims' := Z.max (Z.min size' dims) 0 in
    (1 <= size' -> 0 <= index' < size') /\ 0 <= dims' <= size' /\
    (0 <= index < size -> index' = index) /\ (0 <= dims <= size -> dims' = dims) /\ (0 <= size -> size' = size) /\
    ((size' = 0 \/ dims' = 0) <-> (size <= 0 \/ dims <= 0)).
  Proof. cbv zeta. lia. Qed.

  (* f32::max(fv, 0.0) is never below zero *)
  Lemma fle_zero_zero {FIE : FloatIntExact FO} : fle f_zero f_zero = true.
  Proof.
    pose proof (fie_sqrt_int 0 0 ltac:(unfold two24; lia) ltac:(lia)) as H.
    rewrite fie_zero, fie_sqrt_zero in H. exact H.
  Qed.

  Lemma radius_guard {FIE : FloatIntExact FO} fv : flt (fmax_rust fv f_zero) f_zero = false.
  Proof.
    pose proof (fie_nonneg_guard f_zero fle_zero_zero) as Z0.
    unfold fmax_rust. destruct (f_is_nan fv); [exact Z0|].
    destruct (flt fv f_zero) eqn:E; [exact Z0|exact E].
  Qed.

  (* a zero size or zero dimensions: no neighbourhood *)
  Lemma find_neighbors_guard_none p size' dims' index' r :
    size' = 0 \/ dims' = 0 -> find_neighbors p size' dims' index' r = Ok None.
  Proof.
    intro H. unfold find_neighbors.
    replace (nbr_guard size' dims' index' r) with true; [reflexivity|].
    unfold nbr_guard. destruct (flt r f_zero); cbn [orb]; lia.
  Qed.

  (* ---- LIST.NEIGHBOR*IDS ---- *)
  Lemma neighbor_ids_eq p (s : state) (size index dims : Z) (rest : list Z) (fv : f32) (frest : list f32) :
    st_int s = size :: index :: dims :: rest ->
    st_float s = fv :: frest ->
    let size' := Z.max size 0 in
    let index' := Z.max (Z.min (size' - 1) index) 0 in
    let dims' := Z.max (Z.min size' dims) 0 in
    let radius' := if f_is_nan fv then f_zero else if flt fv f_zero then f_zero else fv in
    let consumed := set_float (set_int s rest) frest in
    list_neighbor_ids p s =
      (let! on := find_neighbors p size' dims' index' radius' in
       Ok (match on with
           | Some nbrs => set_ivec consumed (nbrs :: st_ivec s)
           | None => consumed
           end)).
  Proof.
    intros Hi Hf. cbv zeta. unfold list_neighbor_ids. rewrite Hi. cbn [st_float set_int]. rewrite Hf.
    unfold nbr_call, nbr_size, nbr_dims, nbr_index, nbr_radius, fmax_rust.
    destruct (find_neighbors p _ _ _ _) as [[nbrs|]| |]; reflexivity.
  Qed.

  Lemma neighbor_ids_spec_lemma p (s : state) (size index dims : Z) (rest : list Z) (fv : f32) (frest : list f32) :
    st_int s = size :: index :: dims :: rest ->
    st_float s = fv :: frest ->
    let size' := Z.max size 0 in
    let index' := Z.max (Z.min (size' - 1) index) 0 in
    let dims' := Z.max (Z.min size' dims) 0 in
    let radius' := if f_is_nan fv then f_zero else if flt fv f_zero then f_zero else fv in
    let consumed := set_float (set_int s rest) frest in
    list_neighbor_ids p s =
      (let! on := find_neighbors p size' dims' index' radius' in
       Ok (match on with
           | Some nbrs => set_ivec consumed (nbrs :: st_ivec s)
           | None => consumed
           end))
    /\ (1 <= size' -> 0 <= index' < size')
    /\ 0 <= dims' <= size'
    /\ (FloatIntExact FO -> size <= max32 -> 1 <= size' -> 1 <= dims' -> sizes_ok size' dims' ->
        flt radius' f_zero = false /\
        list_neighbor_ids p s = Ok (set_ivec consumed (geo_nbrs size' dims' index' radius' :: st_ivec s))).
  Proof.
    intros Hi Hf size' index' dims' radius' consumed.
    pose proof (neighbor_ids_eq p s size index dims rest fv frest Hi Hf) as E. cbv zeta in E.
    destruct (clamps_in_range size index dims) as (C1 & C2 & _). cbv zeta in C1, C2.
    split; [exact E|]. split; [exact C1|]. split; [exact C2|].
    intros FIE Hs H1 Hd Hok.
    pose proof (radius_guard fv) as G. unfold fmax_rust in G. fold radius' in G.
    split; [exact G|]. rewrite E. fold size' index' dims' radius'.
    rewrite nbr_is_geometric_set_lemma; try assumption.
    - reflexivity.
    - unfold max32 in Hs. subst size'. lia.
    - apply C1. exact H1.
  Qed.

  (* ---- the *VALS loop ---- *)
  Lemma nbr_vals_records {A} (f : item -> Z -> A) code pos nbrs :
    Forall (fun j => 0 <= j) nbrs ->
    nbr_vals f code pos nbrs = map (fun t => f t pos) (records_at code nbrs).
  Proof.
    induction 1 as [|j r Hj _ IH]; [reflexivity|].
    cbn [nbr_vals]. unfold records_at, present_nbrs in *. cbn [filter].
    replace (i32_as_usize j) with j by (unfold i32_as_usize; destruct (j <? 0) eqn:E; lia).
    unfold l_copy. destruct (j <? zlen code) eqn:E.
    - replace (0 <=? j) with true by lia. cbn [andb map].
      rewrite (nth_error_nth' code (IList [])) by (unfold zlen in E; lia).
      rewrite IH. reflexivity.
    - rewrite andb_false_r. exact IH.
  Qed.

  Lemma neighbor_vals_eq {A} (f : item -> Z -> A) (cons_vec : state -> list A -> state) p
        (s : state) (position size index dims : Z) (rest : list Z) (fv : f32) (frest : list f32) :
    st_int s = position :: size :: index :: dims :: rest ->
    st_float s = fv :: frest ->
    size <= max32 ->
    let size' := Z.max size 0 in
    let index' := Z.max (Z.min (size' - 1) index) 0 in
    let dims' := Z.max (Z.min size' dims) 0 in
    let radius' := if f_is_nan fv then f_zero else if flt fv f_zero then f_zero else fv in
    let consumed := set_float (set_int s rest) frest in
    list_neighbor_vals f cons_vec p s =
      (let! on := find_neighbors p size' dims' index' radius' in
       Ok (match on with
           | Some nbrs => cons_vec consumed (map (fun t => f t (i32_as_usize position)) (records_at (st_code s) nbrs))
           | None => consumed
           end)).
  Proof.
    intros Hi Hf Hs. cbv zeta. unfold list_neighbor_vals. rewrite Hi. cbn [st_float set_int]. rewrite Hf.
    unfold nbr_call, nbr_size, nbr_dims, nbr_index, nbr_radius, fmax_rust.
    destruct (find_neighbors p _ _ _ _) as [[nbrs|]| |] eqn:E; try reflexivity.
    cbn [rbind st_code set_float set_int].
    apply nbr_valid_sorted_nodup_lemma in E; [|unfold max32 in Hs; lia].
    destruct E as (_ & _ & V).
    rewrite nbr_vals_records; [reflexivity|].
    eapply Forall_impl; [|exact V]. cbn beta. intros; lia.
  Qed.
End NbrInstr.

Section NbrStatements.
  Context {FO : FloatOps}.

  (* ---- LIST.NEIGHBOR*BVALS / *IVALS / *FVALS ---- *)
  Lemma neighbor_vals_spec_lemma p (s : state) (position size index dims : Z) (rest : list Z) (fv : f32) (frest : list f32) :
    st_int s = position :: size :: index :: dims :: rest ->
    st_float s = fv :: frest ->
    size <= max32 ->
    let size' := Z.max size 0 in
    let index' := Z.max (Z.min (size' - 1) index) 0 in
    let dims' := Z.max (Z.min size' dims) 0 in
    let radius' := if f_is_nan fv then f_zero else if flt fv f_zero then f_zero else fv in
    let pos' := i32_as_usize position in
    let consumed := set_float (set_int s rest) frest in
    let nb := find_neighbors p size' dims' index' radius' in
    list_neighbor_bvals p s =
      (let! on := nb in
       Ok (match on with
           | Some nbrs => set_bvec consumed (map (fun t => bval t pos') (records_at (st_code s) nbrs) :: st_bvec s)
           | None => consumed
           end))
    /\ list_neighbor_ivals p s =
      (let! on := nb in
       Ok (match on with
           | Some nbrs => set_ivec consumed (map (fun t => ival t pos') (records_at (st_code s) nbrs) :: st_ivec s)
           | None => consumed
           end))
    /\ list_neighbor_fvals p s =
      (let! on := nb in
       Ok (match on with
           | Some nbrs => set_fvec consumed (map (fun t => fval t pos') (records_at (st_code s) nbrs) :: st_fvec s)
           | None => consumed
           end))
    /\ (forall nbrs, nb = Ok (Some nbrs) ->
          StronglySorted Z.lt nbrs /\ Forall (fun j => 0 <= j < size') nbrs /\
          records_at (st_code s) nbrs =
            map (fun j => nth (Z.to_nat j) (st_code s) (IList [])) (filter (fun j => j <? zlen (st_code s)) nbrs))
    /\ (min32 <= position -> forall t,
          bval t pos' = nth (Z.to_nat pos') (bools_of t) false /\
          ival t pos' = nth (Z.to_nat pos') (ints_of t) 0 /\
          fval t pos' = nth (Z.to_nat pos') (floats_of t) f_zero)
    /\ (FloatIntExact FO -> 1 <= size' -> 1 <= dims' -> sizes_ok size' dims' ->
          nb = Ok (Some (geo_nbrs size' dims' index' radius'))).
  Proof.
    intros Hi Hf Hs size' index' dims' radius' pos' consumed nb.
    destruct (clamps_in_range size index dims) as (C1 & C2 & _). cbv zeta in C1, C2.
    split; [exact (neighbor_vals_eq bval push_bvec p s position size index dims rest fv frest Hi Hf Hs)|].
    split; [exact (neighbor_vals_eq ival push_ivec p s position size index dims rest fv frest Hi Hf Hs)|].
    split; [exact (neighbor_vals_eq fval push_fvec p s position size index dims rest fv frest Hi Hf Hs)|].
    split; [|split].
    - intros nbrs E. apply nbr_valid_sorted_nodup_lemma in E; [|unfold max32 in Hs; subst size'; lia].
      destruct E as (S1 & _ & V). repeat split; assumption.
    - intros Hp t. pose proof (i32_as_usize_nonneg position Hp) as Hu. fold pos' in Hu.
      rewrite bval_spec, ival_spec, fval_spec.
      replace (pos' <? 0) with false by lia. repeat split; reflexivity.
    - intros FIE H1 Hd Hok. subst nb.
      apply nbr_is_geometric_set_lemma; try assumption.
      + unfold max32 in Hs. subst size'. lia.
      + apply C1. exact H1.
      + pose proof (radius_guard fv) as G. unfold fmax_rust in G. exact G.
  Qed.

  (* ---- missing operands ---- *)
  Lemma missing_operands_lemma p (s : state) :
    ((length (st_int s) < 3)%nat -> list_neighbor_ids p s = Ok s)
    /\ ((length (st_int s) < 4)%nat ->
          list_neighbor_bvals p s = Ok s /\ list_neighbor_ivals p s = Ok s /\ list_neighbor_fvals p s = Ok s)
    /\ (forall a b c rest, st_int s = a :: b :: c :: rest -> st_float s = [] ->
          list_neighbor_ids p s = Ok (set_int s rest))
    /\ (forall a b c d rest, st_int s = a :: b :: c :: d :: rest -> st_float s = [] ->
          list_neighbor_bvals p s = Ok (set_int s rest) /\
          list_neighbor_ivals p s = Ok (set_int s rest) /\
          list_neighbor_fvals p s = Ok (set_int s rest)).
  Proof.
    unfold list_neighbor_bvals, list_neighbor_ivals, list_neighbor_fvals, list_neighbor_vals, list_neighbor_ids.
    split; [|split; [|split]].
    - destruct (st_int s) as [|a [|b [|c r]]]; cbn [length]; intros; try reflexivity; lia.
    - destruct (st_int s) as [|a [|b [|c [|d r]]]]; cbn [length]; intros; repeat split; try reflexivity; lia.
    - intros a b c rest Hi Hf. rewrite Hi. cbn [st_float set_int]. rewrite Hf. reflexivity.
    - intros a b c d rest Hi Hf. rewrite Hi. cbn [st_float set_int]. rewrite Hf. repeat split; reflexivity.
  Qed.

  (* ---- zero size or zero dimensions: operands consumed, nothing pushed ---- *)
  Lemma guard_none_lemma p (s : state) (size index dims : Z) (fv : f32) (frest : list f32) :
    st_float s = fv :: frest ->
    let size' := Z.max size 0 in
    let index' := Z.max (Z.min (size' - 1) index) 0 in
    let dims' := Z.max (Z.min size' dims) 0 in
    size' = 0 \/ dims' = 0 ->
    (size <= 0 \/ dims <= 0)
    /\ (forall r, find_neighbors p size' dims' index' r = Ok None)
    /\ (forall rest, st_int s = size :: index :: dims :: rest ->
          list_neighbor_ids p s = Ok (set_float (set_int s rest) frest))
    /\ (forall position rest, st_int s = position :: size :: index :: dims :: rest ->
          list_neighbor_bvals p s = Ok (set_float (set_int s rest) frest) /\
          list_neighbor_ivals p s = Ok (set_float (set_int s rest) frest) /\
          list_neighbor_fvals p s = Ok (set_float (set_int s rest) frest)).
  Proof.
    intros Hf size' index' dims' H0.
    assert (N : forall r, find_neighbors p size' dims' index' r = Ok None)
      by (intro r; apply find_neighbors_guard_none; exact H0).
    split; [subst size' dims'; lia|]. split; [exact N|]. split.
    - intros rest Hi. unfold list_neighbor_ids. rewrite Hi. cbn [st_float set_int]. rewrite Hf.
      unfold nbr_call, nbr_size, nbr_dims, nbr_index. fold size'. fold dims'. fold index'. rewrite N. reflexivity.
    - intros position rest Hi.
      unfold list_neighbor_bvals, list_neighbor_ivals, list_neighbor_fvals, list_neighbor_vals.
      rewrite Hi. cbn [st_float set_int]. rewrite Hf.
      unfold nbr_call, nbr_size, nbr_dims, nbr_index. fold size'. fold dims'. fold index'. rewrite N.
      repeat split; reflexivity.
  Qed.

  (* ---- KnownClass 1 of C20 (topology-ndim-over-64) seen through the instruction:
     65 or more dimensions after clamping (so 65 or more cells): None, nothing pushed ---- *)
  Lemma known_large_ndim_instr_lemma p (s : state) (size index dims : Z) (rest : list Z) (fv : f32) (frest : list f32) :
    st_int s = size :: index :: dims :: rest ->
    st_float s = fv :: frest ->
    size <= max32 ->
    65 <= Z.max (Z.min (Z.max size 0) dims) 0 ->
    list_neighbor_ids p s = Ok (set_float (set_int s rest) frest).
  Proof.
    intros Hi Hf Hs Hd.
    pose proof (neighbor_ids_eq p s size index dims rest fv frest Hi Hf) as E. cbv zeta in E.
    rewrite E, known_large_ndim_lemma; [reflexivity| |exact Hd].
    unfold max32 in Hs. unfold two64. lia.
  Qed.

  (* ---- the registry binds the four names to these bodies; one interpreter step runs the body ---- *)
  Lemma lookup_nbr_ids : lookup full_registry (s2l "LIST.NEIGHBOR*IDS"%string) = Some (purep list_neighbor_ids).
  Proof. reflexivity. Qed.
  Lemma lookup_nbr_bvals : lookup full_registry (s2l "LIST.NEIGHBOR*BVALS"%string) = Some (purep list_neighbor_bvals).
  Proof. reflexivity. Qed.
  Lemma lookup_nbr_ivals : lookup full_registry (s2l "LIST.NEIGHBOR*IVALS"%string) = Some (purep list_neighbor_ivals).
  Proof. reflexivity. Qed.
  Lemma lookup_nbr_fvals : lookup full_registry (s2l "LIST.NEIGHBOR*FVALS"%string) = Some (purep list_neighbor_fvals).
  Proof. reflexivity. Qed.

  Lemma step_purep p reg w s n E (f : profile -> instr) :
    st_exec s = IInstr n :: E -> lookup reg n = Some (purep f) ->
    step p reg w s = let! s' := f p (set_exec s E) in Ok (false, w, s').
  Proof.
    intros H1 H2. unfold step. rewrite H1, H2. unfold purep. destruct (f p (set_exec s E)); reflexivity.
  Qed.

  Lemma registered_lemma p (w : world) (s : state) (E : list item) :
    (st_exec s = IInstr (s2l "LIST.NEIGHBOR*IDS"%string) :: E ->
       step p full_registry w s = let! s' := list_neighbor_ids p (set_exec s E) in Ok (false, w, s'))
    /\ (st_exec s = IInstr (s2l "LIST.NEIGHBOR*BVALS"%string) :: E ->
       step p full_registry w s = let! s' := list_neighbor_bvals p (set_exec s E) in Ok (false, w, s'))
    /\ (st_exec s = IInstr (s2l "LIST.NEIGHBOR*IVALS"%string) :: E ->
       step p full_registry w s = let! s' := list_neighbor_ivals p (set_exec s E) in Ok (false, w, s'))
    /\ (st_exec s = IInstr (s2l "LIST.NEIGHBOR*FVALS"%string) :: E ->
       step p full_registry w s = let! s' := list_neighbor_fvals p (set_exec s E) in Ok (false, w, s')).
  Proof.
    repeat split; intro H.
    - exact (step_purep p _ w s _ E _ H lookup_nbr_ids).
    - exact (step_purep p _ w s _ E _ H lookup_nbr_bvals).
    - exact (step_purep p _ w s _ E _ H lookup_nbr_ivals).
    - exact (step_purep p _ w s _ E _ H lookup_nbr_fvals).
  Qed.
End NbrStatements.

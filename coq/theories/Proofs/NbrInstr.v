(* Lemmas behind Props/C20i.v: the four LIST.NEIGHBOR* instructions
   (Model/INeighbor.v) against the API-level theorems of Proofs/TopoNbr.v. *)
From Coq Require Import String ZArith List Bool Lia ZifyBool Sorted.
From PushModel Require Import Base.Sx Base.Machine Base.ListOps Base.F32 Model.Item Model.GraphT Model.State
  Model.InstrBase Model.Registry Model.Interp Model.IList Model.Topology Model.INeighbor Model.RegistryNbr
  Model.RegistryAll Spec.ListSpec Spec.TopoSpec Spec.NbrSpec Proofs.TopoNbr Proofs.ListProofs.
Import ListNotations.
Open Scope Z_scope.
Open Scope list_scope.

Section NbrInstr.
  Context {FO : FloatOps}.

  (* ---- the operand corrections ---- *)
  Lemma clamps_in_range size index dims :
    let size' := Z.max size 0 in
    let index' := Z.max (Z.min (size' - 1) index) 0 in
    let dims' := Z.max (Z.min size' dims) 0 in
    (1 <= size' -> 0 <= index' < size') /\ 0 <= dims' <= size' /\
    (0 <= index < size -> index' = index) /\ (0 <= dims <= size -> dims' = dims) /\ (0 <= size -> size' = size) /\
    ((size' = 0 \/ dims' = 0) <-> (size <= 0 \/ dims <= 0)).
  Proof. cbv zeta. lia. Qed.

  (* f32::max(fv, 0.0) is never below zero *)
  Lemma fle_zero_zero {FIE : FloatIntExact FO} : fle f_zero f_zero = true.
  Proof.
    pose proof (fie_sqrt_int 0 0 ltac:(unfold two24; lia) ltac:(lia)) as H.
    rewrite fie_zero, fie_sqrt_zero in H. exact H.
  Qed.

  Lemma radius_guard {FIE : FloatIntExact FO} fv : flt (fmax_rust fv f_zero) f_zero = false.
  Proof.
    pose proof (fie_nonneg_guard f_zero fle_zero_zero) as Z0.
    unfold fmax_rust. destruct (f_is_nan fv); [exact Z0|].
    destruct (flt fv f_zero) eqn:E; [exact Z0|exact E].
  Qed.

  (* a zero size or zero dimensions: no neighbourhood *)
  Lemma find_neighbors_guard_none p size' dims' index' r :
    size' = 0 \/ dims' = 0 -> find_neighbors p size' dims' index' r = Ok None.
  Proof.
    intro H. unfold find_neighbors.
    replace (nbr_guard size' dims' index' r) with true; [reflexivity|].
    unfold nbr_guard. destruct (flt r f_zero); cbn [orb]; lia.
  Qed.

  (* ---- LIST.NEIGHBOR*IDS ---- *)
  Lemma neighbor_ids_eq p (s : state) (size index dims : Z) (rest : list Z) (fv : f32) (frest : list f32) :
    st_int s = size :: index :: dims :: rest ->
    st_float s = fv :: frest ->
    let size' := Z.max size 0 in
    let index' := Z.max (Z.min (size' - 1) index) 0 in
    let dims' := Z.max (Z.min size' dims) 0 in
    let radius' := if f_is_nan fv then f_zero else if flt fv f_zero then f_zero else fv in
    let consumed := set_float (set_int s rest) frest in
    list_neighbor_ids p s =
      (let! on := find_neighbors p size' dims' index' radius' in
       Ok (match on with
           | Some nbrs => set_ivec consumed (nbrs :: st_ivec s)
           | None => consumed
           end)).
  Proof.
    intros Hi Hf. cbv zeta. unfold list_neighbor_ids. rewrite Hi. cbn [st_float set_int]. rewrite Hf.
    unfold nbr_call, nbr_size, nbr_dims, nbr_index, nbr_radius, fmax_rust.
    destruct (find_neighbors p _ _ _ _) as [[nbrs|]| |]; reflexivity.
  Qed.

  Lemma neighbor_ids_spec_lemma p (s : state) (size index dims : Z) (rest : list Z) (fv : f32) (frest : list f32) :
    st_int s = size :: index :: dims :: rest ->
    st_float s = fv :: frest ->
    let size' := Z.max size 0 in
    let index' := Z.max (Z.min (size' - 1) index) 0 in
    let dims' := Z.max (Z.min size' dims) 0 in
    let radius' := if f_is_nan fv then f_zero else if flt fv f_zero then f_zero else fv in
    let consumed := set_float (set_int s rest) frest in
    list_neighbor_ids p s =
      (let! on := find_neighbors p size' dims' index' radius' in
       Ok (match on with
           | Some nbrs => set_ivec consumed (nbrs :: st_ivec s)
           | None => consumed
           end))
    /\ (1 <= size' -> 0 <= index' < size')
    /\ 0 <= dims' <= size'
    /\ (FloatIntExact FO -> size <= max32 -> 1 <= size' -> 1 <= dims' -> sizes_ok size' dims' ->
        flt radius' f_zero = false /\
        list_neighbor_ids p s = Ok (set_ivec consumed (geo_nbrs size' dims' index' radius' :: st_ivec s))).
  Proof.
    intros Hi Hf size' index' dims' radius' consumed.
    pose proof (neighbor_ids_eq p s size index dims rest fv frest Hi Hf) as E. cbv zeta in E.
    destruct (clamps_in_range size index dims) as (C1 & C2 & _). cbv zeta in C1, C2.
    split; [exact E|]. split; [exact C1|]. split; [exact C2|].
    intros FIE Hs H1 Hd Hok.
    pose proof (radius_guard fv) as G. unfold fmax_rust in G. fold radius' in G.
    split; [exact G|]. rewrite E. fold size' index' dims' radius'.
    rewrite nbr_is_geometric_set_lemma; try assumption.
    - reflexivity.
    - unfold max32 in Hs. subst size'. lia.
    - apply C1. exact H1.
  Qed.

  (* ---- the *VALS loop ---- *)
  Lemma nbr_vals_records {A} (f : item -> Z -> A) code pos nbrs :
    Forall (fun j => 0 <= j) nbrs ->
    nbr_vals f code pos nbrs = map (fun t => f t pos) (records_at code nbrs).
  Proof.
    induction 1 as [|j r Hj _ IH]; [reflexivity|].
    cbn [nbr_vals]. unfold records_at, present_nbrs in *. cbn [filter].
    replace (i32_as_usize j) with j by (unfold i32_as_usize; destruct (j <? 0) eqn:E; lia).
    unfold l_copy. destruct (j <? zlen code) eqn:E.
    - replace (0 <=? j) with true by lia. cbn [andb map].
      rewrite (nth_error_nth' code (IList [])) by (unfold zlen in E; lia).
      rewrite IH. reflexivity.
    - rewrite andb_false_r. exact IH.
  Qed.

  Lemma neighbor_vals_eq {A} (f : item -> Z -> A) (cons_vec : state -> list A -> state) p
        (s : state) (position size index dims : Z) (rest : list Z) (fv : f32) (frest : list f32) :
    st_int s = position :: size :: index :: dims :: rest ->
    st_float s = fv :: frest ->
    size <= max32 ->
    let size' := Z.max size 0 in
    let index' := Z.max (Z.min (size' - 1) index) 0 in
    let dims' := Z.max (Z.min size' dims) 0 in
    let radius' := if f_is_nan fv then f_zero else if flt fv f_zero then f_zero else fv in
    let consumed := set_float (set_int s rest) frest in
    list_neighbor_vals f cons_vec p s =
      (let! on := find_neighbors p size' dims' index' radius' in
       Ok (match on with
           | Some nbrs => cons_vec consumed (map (fun t => f t (i32_as_usize position)) (records_at (st_code s) nbrs))
           | None => consumed
           end)).
  Proof.
    intros Hi Hf Hs. cbv zeta. unfold list_neighbor_vals. rewrite Hi. cbn [st_float set_int]. rewrite Hf.
    unfold nbr_call, nbr_size, nbr_dims, nbr_index, nbr_radius, fmax_rust.
    destruct (find_neighbors p _ _ _ _) as [[nbrs|]| |] eqn:E; try reflexivity.
    cbn [rbind st_code set_float set_int].
    apply nbr_valid_sorted_nodup_lemma in E; [|unfold max32 in Hs; lia].
    destruct E as (_ & _ & V).
    rewrite nbr_vals_records; [reflexivity|].
    eapply Forall_impl; [|exact V]. cbn beta. intros; lia.
  Qed.
End NbrInstr.

(* C01: the core families (NOOP, BOOLEAN, INTEGER, FLOAT, NAME, CODE, EXEC, INDEX). *)
From Coq Require Import ZArith String List Bool Lia ZifyBool.
From PushModel Require Import Base.Sx Base.Machine Base.ListOps Base.F32 Model.Item Model.GraphT Model.State
  Model.InstrBase Model.IScalar Model.ICode Model.Registry
  Proofs.TreePoints Proofs.NoPanicBase Proofs.NoPanicItem Proofs.NoPanicTac.
Import ListNotations.
Open Scope Z_scope.

Ltac unf_core :=
  cbv beta iota zeta delta [
    g_dup g_pop g_swap g_rot g_flush g_depth g_yank g_shove g_yankdup g_define
    bool_bin boolean_eq boolean_and boolean_or boolean_not boolean_from_float boolean_from_integer boolean_id
    int_bin int_cmp integer_add integer_sub integer_mul integer_div integer_mod integer_lt integer_eq integer_gt
    integer_max integer_min integer_abs integer_ddup integer_from_boolean integer_from_float integer_id integer_stack_depth
    float_bin float_cmp float_add float_sub float_mul float_div float_mod float_lt float_eq float_gt float_max float_min
    float_libm float_cos float_sin float_tan float_exp float_from_boolean float_from_integer float_id
    name_cat name_equal name_quote name_send name_id
    code_eq code_append code_atom code_car code_cdr code_cons code_container code_contains code_member code_definition
    code_discrepancy code_do code_do_star loop_g code_loop exec_loop code_from code_from_bool code_from_float
    code_from_int code_from_name code_if exec_if code_length code_list code_null code_position
    code_print code_quote code_size code_subst code_id noop exec_eq exec_k exec_s exec_y exec_id exec_cmd
    index_current index_define index_destination index_increase
    push_int push_bool push_float push_code push_exec push_name libm1 rbind
    set_bool set_code set_exec set_float set_index set_int set_name set_bvec set_fvec set_ivec set_input set_output
    set_graph set_bind set_cfg set_quote set_send
    st_bool st_code st_exec st_float st_index st_int st_name st_bvec st_fvec st_ivec st_input st_output
    st_graph st_bind st_cfg st_quote st_send].

Section Core.
  Context {FO : FloatOps}.

  Ltac unf_x := cbv beta iota zeta delta [code_extract code_nth code_insert]; unf_core.

  Lemma code_extract_safe : sem_safe (purep code_extract).
  Proof.
    safe_intro unf_x.
    destruct sint as [|idx ir]; [wf_leaf|]. destruct scode as [|t cr]; [wf_leaf|].
    pose proof (size_pos t) as Hp.
    unfold rem_euclid32. rewrite (wrap32_small (size t)) by lia.
    replace (size t =? 0) with false by lia. replace ((idx =? min32) && (size t =? -1)) with false by lia.
    set (n := idx mod Z.abs (size t)).
    assert (Hn : 0 <= n) by (apply Z.mod_pos_bound; lia).
    unfold i32_as_usize. replace (n <? 0) with false by lia.
    destruct (traverse p t n) as [[y|d]| |] eqn:T.
    - pose proof (traverse_found_wf p t n y Hn) as Hy. wf_leaf.
    - wf_leaf.
    - exact (traverse_no_underflow p t n Hn T).
    - exact I.
  Qed.

  Lemma length_le_sizes l : Z.of_nat (length l) <= sizes l.
  Proof.
    induction l as [|c r IH]; [rewrite sizes_nil; cbn; lia|].
    rewrite sizes_cons. pose proof (size_pos c). cbn [length]. lia.
  Qed.
  Lemma shallow_le_size t : 0 < shallow_size t <= size t.
  Proof.
    destruct t; cbn [shallow_size]; try (cbn [size]; lia).
    rewrite size_list. pose proof (length_le_sizes l). lia.
  Qed.

  Lemma code_nth_safe : sem_safe (pure code_nth).
  Proof.
    safe_intro unf_x.
    destruct sint as [|idx ir]; [wf_leaf|]. destruct scode as [|t cr]; [wf_leaf|].
    pose proof (shallow_le_size t) as Hp.
    unfold rem_euclid32. rewrite (wrap32_small (shallow_size t)) by lia.
    replace (shallow_size t =? 0) with false by lia.
    replace ((idx =? min32) && (shallow_size t =? -1)) with false by lia.
    set (n := idx mod Z.abs (shallow_size t)).
    wf_hyps.
    assert (Wd : wf_item (if n =? 0 then t else IList [])) by (destruct (n =? 0); auto with wf).
    destruct t as [l| | |]; try solve [wf_leaf].
    destruct (0 <? n); [|wf_leaf].
    destruct (l_copy l (n - 1)) eqn:C; wf_leaf.
  Qed.

  Lemma i32_as_usize_nonneg z : wf_z z -> 0 <= i32_as_usize z.
  Proof. rewrite wf_z_iff. unfold i32_as_usize, min32, max32, two64. intros H. destruct (z <? 0) eqn:E; lia. Qed.

  Lemma code_insert_safe : sem_safe0 (purep code_insert).
  Proof.
    safe_intro unf_x.
    destruct sint as [|idx ir]; [wf_leaf|]. destruct scode as [|t [|x r]]; try solve [wf_leaf].
    wf_hyps.
    destruct (insert_ok p t x (i32_as_usize idx) (i32_as_usize_nonneg idx ltac:(assumption))) as (t' & rr & -> & Wt).
    wf_leaf.
  Qed.

  Hint Resolve code_extract_safe code_nth_safe code_insert_safe : safe_special.

  Lemma boolean_safe : table_safe tbl_boolean.
  Proof. unfold table_safe, tbl_boolean, stack_family. cbn [app]. table_walk unf_core. Qed.
  Lemma integer_safe : table_safe tbl_integer.
  Proof. unfold table_safe, tbl_integer, stack_family. cbn [app]. table_walk unf_core. Qed.
  Lemma float_safe : table_safe tbl_float.
  Proof. unfold table_safe, tbl_float, stack_family. cbn [app]. table_walk unf_core. Qed.
  Lemma name_safe : table_safe tbl_name.
  Proof. unfold table_safe, tbl_name, stack_family. cbn [app]. table_walk unf_core. Qed.
  Lemma code_safe : table_safe tbl_code.
  Proof. unfold table_safe, tbl_code, stack_family. cbn [app]. table_walk unf_core. Qed.
  Lemma exec_safe : table_safe tbl_exec.
  Proof. unfold table_safe, tbl_exec, stack_family. cbn [app]. table_walk unf_core. Qed.
  Lemma index_safe : table_safe tbl_index.
  Proof. unfold table_safe, tbl_index. table_walk unf_core. Qed.

  Lemma noop_safe : table_safe [("NOOP"%string, pure noop)].
  Proof. unfold table_safe. table_walk unf_core. Qed.

  Theorem core_safe : table_safe tbl_core.
  Proof.
    unfold tbl_core.
    apply table_safe_app; [exact noop_safe|].
    apply table_safe_app; [exact boolean_safe|].
    apply table_safe_app; [exact integer_safe|].
    apply table_safe_app; [exact float_safe|].
    apply table_safe_app; [exact name_safe|].
    apply table_safe_app; [exact code_safe|].
    apply table_safe_app; [exact exec_safe|exact index_safe].
  Qed.
End Core.

(* C11 scalar law for the executable float instance, part 3: from bit patterns
   to Flocq's binary32.  [fl_fmt 3] only depends on [of_bits z]; [fmt_b] is
   that function of the float. *)
From Coq Require Import ZArith List Bool Lia ZifyBool.
From Flocq Require Import IEEE754.BinarySingleNaN IEEE754.Binary IEEE754.Bits Core.
From PushModel Require Import Base.Sx Base.F32 Base.F32Flocq Proofs.Fmt3LawStr Proofs.Fmt3LawInt.
Import ListNotations.
Open Scope Z_scope.

Lemma bits_range : forall f : binary32, 0 <= bits_of_b32 f < 4294967296.
Proof.
  intros f. unfold bits_of_b32.
  exact (bits_of_binary_float_range 23 8 (refl_equal _) (refl_equal _) f).
Qed.

Lemma of_bits_bits : forall f : binary32, of_bits (bits_of_b32 f) = f.
Proof.
  intros f. unfold of_bits. rewrite Z.mod_small by apply bits_range.
  unfold b32_of_bits, bits_of_b32.
  exact (binary_float_of_bits_of_binary_float 23 8 (refl_equal _) (refl_equal _) (refl_equal _) f).
Qed.

Lemma bits_of_bits : forall z, bits_of_b32 (of_bits z) = z mod 4294967296.
Proof.
  intros z. unfold of_bits, bits_of_b32, b32_of_bits.
  apply (bits_of_binary_float_of_bits 23 8 (refl_equal _) (refl_equal _) (refl_equal _)).
  apply Z.mod_pos_bound. reflexivity.
Qed.

Lemma sign_bits : forall f : binary32, (2147483648 <=? bits_of_b32 f) = Bsign 24 128 f.
Proof.
  intros f.
  pose proof (split_bits_of_binary_float_correct 23 8 (refl_equal _) (refl_equal _) f) as H.
  unfold split_bits in H. fold (bits_of_b32 f) in H.
  change (2 ^ 23 * 2 ^ 8) with 2147483648 in H.
  destruct f as [s|s|s pl Hpl|s m e Hb]; cbn [split_bits_of_binary_float Bsign] in *.
  - congruence.
  - congruence.
  - congruence.
  - destruct (Zle_bool 0 (Z.pos m - 2 ^ 23)); congruence.
Qed.

Lemma fl_sign_of_bits : forall z, fl_sign z = Bsign 24 128 (of_bits z).
Proof. intros z. unfold fl_sign. rewrite <- sign_bits, bits_of_bits. reflexivity. Qed.

Definition fmt_b (f : binary32) : list Z :=
  match f with
  | B754_nan _ _ _ _ _ => [78; 97; 78]
  | B754_infinity _ _ s => if s then [45; 105; 110; 102] else [105; 110; 102]
  | B754_zero _ _ s => txt s 0
  | B754_finite _ _ s m e _ => txt s (nn (Z.pos m) e)
  end.

Lemma fl_fmt3_b : forall z, fl_fmt 3 z = fmt_b (of_bits z).
Proof.
  intros z. unfold fl_fmt, fl_is_nan, fl_is_inf, fl_parts. rewrite fl_sign_of_bits.
  destruct (of_bits z) as [s|s|s pl Hpl|s m e Hb]; cbn [Bsign fmt_b].
  - reflexivity.
  - reflexivity.
  - reflexivity.
  - unfold txt, nn.
    replace (Z.abs (if s then Z.neg m else Z.pos m)) with (Z.pos m) by (destruct s; reflexivity).
    change (10 ^ 3) with 1000. change (3 =? 0) with false. change (Z.to_nat 3) with 3%nat.
    cbv iota. destruct (0 <=? e); reflexivity.
Qed.

(* a non-NaN float, as a bit pattern, prints as [fmt_b] of itself *)
Lemma fl_fmt3_canon : forall f : binary32, fl_fmt 3 (b32_canon f) = fmt_b f.
Proof.
  intros f. destruct f as [s|s|s pl Hpl|s m e Hb]; unfold b32_canon.
  - rewrite fl_fmt3_b, of_bits_bits. reflexivity.
  - rewrite fl_fmt3_b, of_bits_bits. reflexivity.
  - reflexivity.
  - rewrite fl_fmt3_b, of_bits_bits. reflexivity.
Qed.

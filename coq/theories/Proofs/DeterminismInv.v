(* C14: the invariant "nothing selected by (qi, qn) occurs in the state", the
   obligation of one registry entry, and the symbolic-execution tactic that
   discharges it for an instruction body. *)
From Coq Require Import ZArith String List Bool Lia ZifyBool.
From PushModel Require Import Base.Sx Base.Machine Base.ListOps Base.F32 Model.Item Model.GraphT Model.State
  Model.InstrBase Model.IScalar Model.ICode Model.Registry Model.Interp
  Spec.DetSpec Proofs.DeterminismItems.
Import ListNotations.
Open Scope Z_scope.
Open Scope string_scope.

(* the instructions that push a COMPUTED string on the NAME stack (printed code,
   printed graphs, concatenation, a random name, a key of the binding table): the
   only way a name that was nowhere in the items / NAME stack can appear there *)
Definition name_synth_names : list string :=
  [ "NAME.CAT"; "CODE.PRINT"; "GRAPH.PRINT"; "GRAPH.PRINT*DIFF"; "NAME.RAND"; "NAME.RANDBOUNDNAME" ].
Definition name_synth (n : string) : bool := existsb (String.eqb n) name_synth_names.

Definition rearm_ok (qi : str -> bool) : Prop := Forall (fun n => qi (s2l n) = false) rearm_names.
(* the selection must cover CODE.RAND: under the invariant it is then never executed *)
Definition except_ok (qi : str -> bool) : Prop := Forall (fun n => qi (s2l n) = true) closure_exceptions.

Section Inv.
  Variables qi qn : str -> bool.

  Definition nok (l : list str) : Prop := Forall (fun n => qn n = false) l.

  Definition sinv (s : state) : Prop :=
    lok qi qn (st_exec s) /\ lok qi qn (st_code s) /\ bok qi qn (st_bind s) /\ nok (st_name s).

  Lemma sinv_iff s : occurs_state qi qn s = false <-> sinv s.
  Proof.
    unfold occurs_state, sinv, bok. rewrite !orb_false_iff, !occurs_list_false.
    assert (N : existsb qn (st_name s) = false <-> nok (st_name s)).
    { unfold nok. induction (st_name s) as [|x r IH]; cbn [existsb].
      - split; [constructor|reflexivity].
      - rewrite orb_false_iff, IH. split; [intros [A B]; now constructor|intros H; inversion H; subst; now split]. }
    rewrite N. tauto.
  Qed.

  Lemma rearm_facts : rearm_ok qi ->
    qi (s2l "CODE.POP") = false /\ qi (s2l "EXEC.Y") = false /\ qi (s2l "EXEC.LOOP") = false /\
    qi (s2l "CODE.LOOP") = false /\ qi (s2l "INDEX.INCREASE") = false /\ qi (s2l "INTVECTOR.LOOP") = false.
  Proof.
    unfold rearm_ok, rearm_names. intros H.
    repeat match goal with H : Forall _ (_ :: _) |- _ => inversion H; subst; clear H end.
    repeat split; assumption.
  Qed.
End Inv.

(* what one registry entry owes: it keeps the invariant, for every selection that
   spares the re-arm names; an entry that synthesises names owes it only for
   selections that select no identifier at all *)
Definition entry_keeps (e : string * sem) : Prop :=
  forall qi qn, rearm_ok qi -> (name_synth (fst e) = true -> forall x, qn x = false) ->
  forall p w s w' s', sinv qi qn s -> snd e p w s = Ok (w', s') -> sinv qi qn s'.

Definition instr_keeps (f : instr) : Prop :=
  forall qi qn, rearm_ok qi -> forall s s', sinv qi qn s -> f s = Ok s' -> sinv qi qn s'.

Lemma pure_keeps n f : instr_keeps f -> entry_keeps (n, pure f).
Proof.
  intros K qi qn HR _ p w s w' s' I H. unfold pure in H. cbn [snd] in H.
  destruct (f s) as [s0| |] eqn:E; cbn [rbind] in H; try discriminate. inversion H; subst. eauto.
Qed.
Lemma purep_keeps n f : (forall p, instr_keeps (f p)) -> entry_keeps (n, purep f).
Proof.
  intros K qi qn HR _ p w s w' s' I H. unfold purep in H. cbn [snd] in H.
  destruct (f p s) as [s0| |] eqn:E; cbn [rbind] in H; try discriminate. inversion H; subst.
  eapply K; eauto.
Qed.

(* ---------------------------------------------------------------------- *)
(* symbolic execution of an instruction body in a hypothesis [E : body s = Ok s'] *)
Ltac head_of t := lazymatch t with ?f _ => head_of f | _ => t end.

Ltac st_cbn_in E :=
  cbn [st_bool st_code st_exec st_float st_index st_int st_name st_bvec st_fvec st_ivec st_input st_output
       st_graph st_bind st_cfg st_quote st_send
       set_bool set_code set_exec set_float set_index set_int set_name set_bvec set_fvec set_ivec set_input
       set_output set_graph set_bind set_cfg set_quote set_send
       push_int push_bool push_float push_code push_exec push_name fst snd] in E.
Ltac st_cbn :=
  cbn [st_bool st_code st_exec st_float st_index st_int st_name st_bvec st_fvec st_ivec st_input st_output
       st_graph st_bind st_cfg st_quote st_send
       set_bool set_code set_exec set_float set_index set_int set_name set_bvec set_fvec set_ivec set_input
       set_output set_graph set_bind set_cfg set_quote set_send
       push_int push_bool push_float push_code push_exec push_name fst snd].

Ltac is_state_res r :=
  let T := type of r in
  lazymatch eval cbv beta in T with
  | res state => idtac
  | res (world * state) => idtac
  end.

Ltac sym_run E :=
  cbv beta iota zeta in E; st_cbn_in E;
  lazymatch type of E with
  | Ok _ = Ok _ => inversion E; subst; clear E
  | Panic = _ => discriminate E
  | Need _ _ = _ => discriminate E
  | rbind ?r _ = _ =>
      let Hr := fresh "Hr" in
      destruct r eqn:Hr; cbn [rbind] in E; [|discriminate E|discriminate E];
      tryif is_state_res r then (sym_run Hr; sym_run E) else sym_run E
  | (match ?x with _ => _ end) = _ =>
      let Hx := fresh "Hx" in
      lazymatch x with
      | context [match ?y with _ => _ end] =>
          match x with
          | context [match ?y with _ => _ end] =>
              lazymatch y with
              | context [match _ with _ => _ end] => fail
              | _ => destruct y eqn:Hx; sym_run E
              end
          end
      | _ => destruct x eqn:Hx; sym_run E
      end
  | ?lhs = _ => let h := head_of lhs in unfold h in E; sym_run E
  end.

(* break the invariant facts into facts about the pieces *)
Ltac inv_decomp :=
  repeat match goal with
         | H : lok _ _ (_ :: _) |- _ => inversion H; subst; clear H
         | H : Forall _ (_ :: _) |- _ => inversion H; subst; clear H
         | H : nok _ (_ :: _) |- _ => inversion H; subst; clear H
         | H : iok _ _ (IList _) |- _ => apply iok_list_to in H
         end.

Lemma lok_as_list qi qn t : iok qi qn t -> Forall (iok qi qn) (as_list t).
Proof. intros H. destruct t; cbn [as_list]; try (constructor; [assumption|constructor]). now apply iok_list_to. Qed.

Ltac inv_solve :=
  repeat first
    [ assumption
    | match goal with
      | H : l_copy _ _ = Some ?x |- iok _ _ ?x => eapply Forall_l_copy; [|exact H]
      | H : bind_get _ _ = Some ?x |- iok _ _ ?x => eapply bok_get; [|exact H]
      | H : l_copy _ _ = Some ?x |- ?qn ?x = false => eapply (Forall_l_copy (fun n => qn n = false)); [|exact H]
      | H : traverse _ _ _ = Ok (Found ?x) |- iok _ _ ?x => eapply traverse_ok; [|exact H]
      | H : container _ _ = COk ?x |- iok _ _ ?x => eapply container_item_ok; [|exact H]
      | H : insert _ _ _ _ = Ok ?r |- iok _ _ (fst ?r) => eapply insert_ok; [| |exact H]
      | H : substitute _ _ _ = (?x, _) |- iok _ _ ?x => eapply substitute_ok_eq; [exact H| |]
      | |- iok _ _ (match ?x with _ => _ end) => let Hx := fresh "Hx" in destruct x eqn:Hx; inv_decomp
      end
    | apply lok_as_list
    | apply Forall_nil
    | apply Forall_cons
    | apply Forall_app; split
    | apply Forall_rev
    | apply iok_list_of
    | apply iok_lit
    | apply iok_nil
    | apply iok_instr; assumption
    | apply iok_name; assumption
    | apply Forall_l_yank
    | apply Forall_l_shove
    | apply Forall_l_remove
    | apply Forall_l_replace
    | apply Forall_tl
    | apply Forall_skipn
    | apply Forall_firstn
    | apply bok_set ].

Lemma nok_all qn l : (forall x, qn x = false) -> nok qn l.
Proof. intros H. unfold nok. induction l; constructor; auto. Qed.

(* the whole obligation of an instruction body *)
Ltac keeps_core s I E :=
  match goal with HR : rearm_ok _ |- _ => apply rearm_facts in HR; destruct HR as (? & ? & ? & ? & ? & ?) end;
  destruct s as [sb sc se sf six si sn sbv sfv siv sin sout sg sbd scf sq ssd];
  unfold sinv in I; st_cbn_in I; destruct I as (Ie & Ic & Ib & In);
  sym_run E;
  repeat match goal with |- sinv _ _ (match ?x with _ => _ end) => destruct x end;
  unfold sinv; st_cbn; inv_decomp; unfold i_instr;
  (split; [|split; [|split]]); inv_solve.

Ltac keeps_tac :=
  let qi := fresh "qi" in let qn := fresh "qn" in let HR := fresh "HR" in
  let s := fresh "s" in let s' := fresh "s'" in let I := fresh "I" in let E := fresh "E" in
  intros qi qn HR s s' I E; keeps_core s I E.

(* the obligation of a registry entry (name, sem) *)
Ltac entry_tac :=
  let qi := fresh "qi" in let qn := fresh "qn" in let HR := fresh "HR" in let HS := fresh "HS" in
  let p := fresh "p" in let w := fresh "w" in let w' := fresh "w'" in
  let s := fresh "s" in let s' := fresh "s'" in let I := fresh "I" in let E := fresh "E" in
  intros qi qn HR HS p w s w' s' I E; cbn [fst snd] in HS, E;
  keeps_core s I E;
  try (apply nok_all; apply HS; reflexivity); try (apply HS; reflexivity).

Lemma Forall_filter_weak {A} (P : A -> Prop) f l : Forall P l -> Forall P (filter f l).
Proof.
  induction l as [|x r IH]; intros H; cbn [filter]; [constructor|].
  inversion H; subst. destruct (f x); [constructor|]; auto.
Qed.

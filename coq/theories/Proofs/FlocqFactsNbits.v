(* [fo_nbits] (C01) = [nbits_sane] (C13) for the Flocq instance: the number of bits
   BOOLVECTOR.RAND flips, `(round(100 * min(s, 1-s)) / 100 * size as f32) as i32`,
   lies in [0, size] and below i32::MAX, for every size in [0, 2^31) and every
   sparsity s with not (s < 0), not (s > 1), s not NaN.
   Argument: min(s, 1-s) <= 1/2 in floats; every later operation is monotone and
   1/2, 50, 100 and the powers of two are in the format, so the share is <= 1/2
   and share * fl(size) <= 2^floor(log2 size) <= size. *)
From Coq Require Import ZArith List Bool Lia Lra Reals.
From Flocq Require Import IEEE754.BinarySingleNaN IEEE754.Binary IEEE754.Bits Core.
From PushModel Require Import Base.Sx Base.Machine Base.F32 Base.F32Flocq Proofs.FlocqFactsBase
  Model.RandomGen Spec.RandSpec Proofs.RandVec Proofs.NoPanicBase Proofs.NoPanicRand.
Open Scope Z_scope.

(* ---- the constants ---- *)
Lemma const_100 : Fin f_100 /\ RV f_100 = 100%R.
Proof.
  split; [apply Fin_of_parts; eexists; reflexivity|].
  rewrite (RV_of_parts f_100 13107200 (-17) eq_refl). unfold F2R. cbn. lra.
Qed.

(* ---- step 1: the sparsity is a finite number in [0, 1] ---- *)
Lemma sp_range sp : fl_is_nan sp = false ->
  match fl_cmp sp f_zero with Some Lt => true | _ => false end = false ->
  match fl_cmp sp f_one with Some Gt => true | _ => false end = false ->
  Fin sp /\ (0 <= RV sp <= 1)%R.
Proof.
  intros N H0 H1. destruct const_zero as [F0 V0], const_one as [F1 V1].
  rewrite (fl_cmp_xr sp f_zero N (Fin_not_nan _ F0)) in H0.
  rewrite (fl_cmp_xr sp f_one N (Fin_not_nan _ F1)) in H1.
  assert (X0 : XR f_zero = 0%R) by (unfold XR; rewrite xr_fin by exact F0; exact V0).
  assert (X1 : XR f_one = 1%R) by (unfold XR; rewrite xr_fin by exact F1; exact V1).
  rewrite X0 in H0. rewrite X1 in H1.
  assert (A : (0 <= XR sp)%R) by (destruct (Rcompare_spec (XR sp) 0); try discriminate; lra).
  assert (B : (XR sp <= 1)%R) by (destruct (Rcompare_spec (XR sp) 1); try discriminate; lra).
  pose proof one_lt_max. destruct (XR_fin sp N) as [F E]; [lra|]. rewrite <- E. auto.
Qed.

(* ---- step 2: min(s, 1 - s) is in [0, 1/2] ---- *)
Lemma min_share tab sp : Fin sp -> (0 <= RV sp <= 1)%R ->
  let m := @fmin (flocq_ops tab) sp (@fsub (flocq_ops tab) f_one sp) in
  Fin m /\ (0 <= RV m <= / 2)%R.
Proof.
  intros F [H0 H1]. cbv zeta. unfold fmin, flt. cbn [fsub f_is_nan fcmp flocq_ops].
  destruct const_one as [F1 V1].
  assert (R1 : (0 <= rnd32 (RV f_one - RV sp) <= 1)%R).
  { rewrite V1. replace 1%R with (IZR 1) at 3 by reflexivity.
    apply rnd_between; [apply fmt_0|apply fmt_int; lia|]. lra. }
  destruct (fl_sub_ok f_one sp 1 F1 F) as (Ft & Vt & _); [apply abs_le_of_between; exact R1|lia|].
  set (t := fl_sub f_one sp) in *.
  rewrite (Fin_not_nan sp F), (Fin_not_nan t Ft), (fl_cmp_ok t sp Ft F).
  destruct (Rcompare_spec (RV t) (RV sp)) as [C|C|C].
  - split; [exact Ft|]. split; [rewrite Vt; apply R1|].
    destruct (Rle_dec (RV sp) (/ 2)) as [L|L]; [lra|].
    rewrite Vt, V1. rewrite <- (rnd_id (/ 2) fmt_half). apply rnd_le. lra.
  - split; [exact F|]. split; [exact H0|].
    destruct (Rle_dec (RV sp) (/ 2)) as [L|L]; [lra|]. exfalso.
    assert (RV t <= / 2)%R; [|lra].
    rewrite Vt, V1. rewrite <- (rnd_id (/ 2) fmt_half). apply rnd_le. lra.
  - split; [exact F|]. split; [exact H0|].
    destruct (Rle_dec (RV sp) (/ 2)) as [L|L]; [lra|]. exfalso.
    assert (RV t <= / 2)%R; [|lra].
    rewrite Vt, V1. rewrite <- (rnd_id (/ 2) fmt_half). apply rnd_le. lra.
Qed.

(* ---- step 3: the rounded share round(100 m) / 100 is in [0, 1/2] ---- *)
Lemma share_range tab sp : Fin sp -> (0 <= RV sp <= 1)%R ->
  Fin (@bv_share (flocq_ops tab) sp) /\ (0 <= RV (@bv_share (flocq_ops tab) sp) <= / 2)%R.
Proof.
  intros F H. unfold bv_share. destruct (min_share tab sp F H) as [Fm Hm]. cbv zeta in Fm, Hm.
  set (m := fmin sp (fsub f_one sp)) in *. cbn [fmul fdiv fround flocq_ops].
  destruct const_100 as [Fc Vc].
  assert (R1 : (0 <= rnd32 (RV f_100 * RV m) <= IZR 50)%R).
  { rewrite Vc. replace 0%R with (IZR 0) at 1 by reflexivity.
    apply rnd_between; [apply fmt_int; lia|apply fmt_int; lia|]. lra. }
  destruct (fl_mul_ok f_100 m 50 Fc Fm) as (Fp & Vp & _); [apply abs_le_of_between; exact R1|lia|].
  set (p := fl_mul f_100 m) in *. rewrite <- Vp in R1.
  destruct (fl_round_between p 50 Fp ltac:(lia) R1) as [Fr Hr].
  set (r := fl_round p) in *.
  assert (R2 : (0 <= rnd32 (RV r / RV f_100) <= / 2)%R).
  { rewrite Vc. apply rnd_between; [apply fmt_0|apply fmt_half|]. lra. }
  destruct (fl_div_ok r f_100 1 Fr) as (Fd & Vd & _).
  - rewrite Vc. lra.
  - rewrite Rabs_pos_eq by apply R2. destruct R2 as [_ R2']. lra.
  - lia.
  - split; [exact Fd|]. rewrite Vd. exact R2.
Qed.

(* ---- step 4: share * size ---- *)
Lemma share_times_size sh size : Fin sh -> (0 <= RV sh <= / 2)%R -> 0 <= size < 2147483648 ->
  let n := fl_to_int (-2147483648) 2147483647 (fl_mul sh (fl_of_int size)) in
  0 <= n <= size /\ n < 2147483647.
Proof.
  intros Fs Hs Hz. cbv zeta.
  destruct (Z.eq_dec size 0) as [->|Hnz].
  - destruct (fl_of_int_exact 0 ltac:(lia)) as (F0 & V0 & _).
    assert (R0 : rnd32 (RV sh * RV (fl_of_int 0)) = 0%R) by (rewrite V0, Rmult_0_r; apply rnd_0).
    destruct (fl_mul_ok sh (fl_of_int 0) 0 Fs F0) as (Fp & Vp & _); [rewrite R0, Rabs_R0; lra|lia|].
    pose proof (fl_to_int_between (-2147483648) 2147483647 _ 0 Fp ltac:(lia) ltac:(lia)) as T.
    rewrite Vp, R0 in T. specialize (T ltac:(lra)). lia.
  - set (k := Z.log2 size).
    assert (Hk : 2 ^ k <= size < 2 ^ (k + 1)) by (unfold k; pose proof (Z.log2_spec size); unfold Z.succ in *; lia).
    assert (Hk0 : 0 <= k) by apply Z.log2_nonneg.
    assert (Hk30 : k <= 30).
    { assert (k < 31); [|lia]. apply Z.log2_lt_pow2; lia. }
    assert (P30 : 2 ^ k <= 2 ^ 30) by (apply Z.pow_le_mono_r; lia).
    assert (E2 : 2 ^ (k + 1) = 2 * 2 ^ k) by (rewrite Z.pow_add_r by lia; change (2 ^ 1) with 2; lia).
    assert (R1 : (0 <= rnd32 (IZR size) <= IZR (2 ^ (k + 1)))%R).
    { replace 0%R with (IZR 0) at 1 by reflexivity.
      apply rnd_between; [apply fmt_int; lia|apply fmt_pow2Z; lia|]. split; apply IZR_le; lia. }
    destruct (fl_of_int_ok size (2 ^ (k + 1))) as (Ff & Vf & _);
      [apply abs_le_of_between; exact R1| |].
    { apply Z.pow_lt_mono_r; lia. }
    set (fs := fl_of_int size) in *. rewrite <- Vf in R1.
    assert (R2 : (0 <= rnd32 (RV sh * RV fs) <= IZR (2 ^ k))%R).
    { replace 0%R with (IZR 0) at 1 by reflexivity.
      apply rnd_between; [apply fmt_int; lia|apply fmt_pow2Z; lia|].
      rewrite E2, mult_IZR in R1. destruct Hs as [Hs0 Hs1], R1 as [R10 R11]. split.
      - apply Rmult_le_pos; assumption.
      - apply Rle_trans with (/ 2 * (2 * IZR (2 ^ k)))%R; [apply Rmult_le_compat; assumption|lra]. }
    destruct (fl_mul_ok sh fs (2 ^ k) Fs Ff) as (Fp & Vp & _); [apply abs_le_of_between; exact R2| |].
    { apply Z.pow_lt_mono_r; lia. }
    rewrite <- Vp in R2.
    pose proof (fl_to_int_between (-2147483648) 2147483647 _ (2 ^ k) Fp ltac:(lia) ltac:(lia) R2) as T.
    change (2 ^ 30) with 1073741824 in P30. lia.
Qed.

(* ---- the hypothesis of C01 / C13, for the Flocq instance, every oracle table ---- *)
Theorem flocq_nbits_sane tab size sp :
  in_i32 size = true -> @bv_params_ok (flocq_ops tab) size sp = true ->
  @nbits_sane (flocq_ops tab) size sp = true.
Proof.
  intros Hi Hp. unfold in_i32, min32, max32 in Hi. unfold bv_params_ok in Hp.
  apply andb_true_iff in Hp as [Hp Hgt]. apply andb_true_iff in Hp as [Hp Hlt].
  apply andb_true_iff in Hp as [Hsz Hnan].
  apply negb_true_iff in Hgt, Hlt, Hnan. apply Z.leb_le in Hsz.
  apply andb_true_iff in Hi as [_ Hi]. apply Z.leb_le in Hi.
  unfold fgt in Hgt. unfold flt in Hlt. cbn [fcmp f_is_nan flocq_ops] in Hgt, Hlt, Hnan.
  destruct (sp_range sp Hnan Hlt Hgt) as [F R].
  destruct (share_range tab sp F R) as [Fs Rs].
  pose proof (share_times_size _ size Fs Rs ltac:(lia)) as T. cbv zeta in T.
  unfold nbits_sane, nbits, max32. cbn [fmul f_to_i32 f_of_i32 flocq_ops].
  destruct T as [[T1 T2] T3].
  apply andb_true_iff; split; [apply andb_true_iff; split|];
    [apply Z.leb_le|apply Z.leb_le|apply Z.ltb_lt]; assumption.
Qed.

Theorem flocq_fo_nbits tab : @fo_nbits (flocq_ops tab).
Proof. intros size sp. apply flocq_nbits_sane. Qed.

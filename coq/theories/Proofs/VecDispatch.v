(* C09: every vector instruction name dispatches to its own operation: looking the name up in
   the complete registry yields exactly the semantics listed for it in the vector tables. *)
From Coq Require Import ZArith String List Bool.
From PushModel Require Import Base.Sx Base.Machine Base.F32 Model.Item Model.GraphT Model.State
  Model.InstrBase Model.Registry Model.Interp Model.IVector Model.RegistryVec Model.RegistryAll.
Import ListNotations.
Open Scope string_scope.

Section VecDispatch.
  Context {FO : FloatOps}.

  Definition vector_table : list (string * sem) := tbl_bvec ++ tbl_ivec ++ tbl_fvec.

  Lemma vector_names_dispatch :
    Forall (fun e => lookup full_registry (s2l (fst e)) = Some (snd e)) vector_table.
  Proof. repeat (apply Forall_cons; [reflexivity|]). apply Forall_nil. Qed.

  Lemma vector_table_names :
    map fst vector_table =
    [ "BOOLVECTOR.DUP"; "BOOLVECTOR.POP"; "BOOLVECTOR.SWAP"; "BOOLVECTOR.FLUSH"; "BOOLVECTOR.YANK";
      "BOOLVECTOR.YANKDUP"; "BOOLVECTOR.SHOVE"; "BOOLVECTOR.STACKDEPTH"; "BOOLVECTOR.DEFINE";
      "BOOLVECTOR.GET"; "BOOLVECTOR.SET"; "BOOLVECTOR.AND"; "BOOLVECTOR.OR"; "BOOLVECTOR.NOT";
      "BOOLVECTOR.COUNT"; "BOOLVECTOR.EQUAL"; "BOOLVECTOR.ID"; "BOOLVECTOR.LENGTH"; "BOOLVECTOR.ONES";
      "BOOLVECTOR.ZEROS"; "BOOLVECTOR.ROTATE"; "BOOLVECTOR.SORT*ASC"; "BOOLVECTOR.SORT*DESC";
      "INTVECTOR.DUP"; "INTVECTOR.POP"; "INTVECTOR.SWAP"; "INTVECTOR.FLUSH"; "INTVECTOR.YANK";
      "INTVECTOR.YANKDUP"; "INTVECTOR.SHOVE"; "INTVECTOR.STACKDEPTH"; "INTVECTOR.DEFINE";
      "INTVECTOR.APPEND"; "INTVECTOR.BOOLINDEX"; "INTVECTOR.GET"; "INTVECTOR.SET"; "INTVECTOR.+"; "INTVECTOR.-";
      "INTVECTOR.CONTAINS"; "INTVECTOR.EMPTY"; "INTVECTOR.EQUAL"; "INTVECTOR.FROMINT"; "INTVECTOR.ID";
      "INTVECTOR.ONES"; "INTVECTOR.ZEROS"; "INTVECTOR.MEAN"; "INTVECTOR.LENGTH"; "INTVECTOR.LOOP";
      "INTVECTOR.REMOVE"; "INTVECTOR.ROTATE"; "INTVECTOR.SORT*ASC"; "INTVECTOR.SORT*DESC";
      "INTVECTOR.SET*INSERT"; "INTVECTOR.SUM";
      "FLOATVECTOR.DUP"; "FLOATVECTOR.POP"; "FLOATVECTOR.SWAP"; "FLOATVECTOR.FLUSH"; "FLOATVECTOR.YANK";
      "FLOATVECTOR.YANKDUP"; "FLOATVECTOR.SHOVE"; "FLOATVECTOR.STACKDEPTH"; "FLOATVECTOR.DEFINE";
      "FLOATVECTOR.GET"; "FLOATVECTOR.SET"; "FLOATVECTOR.+"; "FLOATVECTOR.-"; "FLOATVECTOR.*"; "FLOATVECTOR./";
      "FLOATVECTOR.*SCALAR"; "FLOATVECTOR.APPEND"; "FLOATVECTOR.EMPTY"; "FLOATVECTOR.EQUAL"; "FLOATVECTOR.ID";
      "FLOATVECTOR.LENGTH"; "FLOATVECTOR.MEAN"; "FLOATVECTOR.ONES"; "FLOATVECTOR.ZEROS"; "FLOATVECTOR.ROTATE";
      "FLOATVECTOR.SINE"; "FLOATVECTOR.SORT*ASC"; "FLOATVECTOR.SORT*DESC"; "FLOATVECTOR.SUM" ].
  Proof. reflexivity. Qed.

  (* no vector instruction looks at the build profile: debug and release builds agree *)
  Lemma vector_profile_independent :
    Forall (fun e => forall w s, snd e Debug w s = snd e Release w s) vector_table.
  Proof. repeat (apply Forall_cons; [intros w s; reflexivity|]). apply Forall_nil. Qed.

  (* the two names that were bound to a foreign function on the pinned tree *)
  Lemma repaired_bindings :
    lookup full_registry (s2l "BOOLVECTOR.ROTATE") = Some (pure bvec_rotate) /\
    lookup full_registry (s2l "FLOATVECTOR.SUM") = Some (pure fvec_sum).
  Proof. split; reflexivity. Qed.
End VecDispatch.

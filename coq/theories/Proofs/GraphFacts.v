(* Facts about the key-sorted association lists and the incoming-edge lists of
   Model/Graph.v, the structural invariant of a Graph, its preservation by
   every mutating method and the read-after-write laws of the API. *)
From Coq Require Import ZArith List Bool Lia Sorted Permutation ZifyBool.
From PushModel Require Import Base.Sx Base.Machine Base.ListOps Base.F32 Model.Graph.
Import ListNotations.
Open Scope Z_scope.

Ltac zeq :=
  repeat match goal with
         | |- context [?x =? ?y] => destruct (Z.eqb_spec x y)
         | |- context [?x <? ?y] => destruct (Z.ltb_spec x y)
         | H : context [?x =? ?y] |- _ => destruct (Z.eqb_spec x y)
         | H : context [?x <? ?y] |- _ => destruct (Z.ltb_spec x y)
         end.

(* ---------------------------------------------------------------------- *)
Section ZMapFacts.
  Context {V : Type}.
  Implicit Types m : zmap V.

  Definition zsorted m : Prop := StronglySorted Z.lt (map fst m).

  Lemma zm_get_insert k v m k' :
    zm_get k' (zm_insert k v m) = if k' =? k then Some v else zm_get k' m.
  Proof.
    induction m as [|[a b] r IH]; cbn [zm_insert zm_get fst snd].
    - zeq; try lia; auto.
    - destruct (Z.ltb_spec k a); cbn [zm_get fst snd].
      + zeq; try lia; auto.
      + destruct (Z.eqb_spec k a); cbn [zm_get fst snd].
        * zeq; try lia; auto.
        * rewrite IH. zeq; try lia; auto.
  Qed.

  Lemma zm_get_remove k m k' :
    zm_get k' (zm_remove k m) = if k' =? k then None else zm_get k' m.
  Proof.
    unfold zm_remove. induction m as [|[a b] r IH]; cbn [filter zm_get fst snd].
    - zeq; auto.
    - destruct (Z.eqb_spec a k); cbn [negb zm_get fst snd].
      + rewrite IH. zeq; try lia; auto.
      + rewrite IH. zeq; try lia; auto.
  Qed.

  Lemma zm_mem_insert k v m k' : zm_mem k' (zm_insert k v m) = (k' =? k) || zm_mem k' m.
  Proof. unfold zm_mem. rewrite zm_get_insert. zeq; auto. Qed.

  Lemma zm_mem_remove k m k' : zm_mem k' (zm_remove k m) = negb (k' =? k) && zm_mem k' m.
  Proof. unfold zm_mem. rewrite zm_get_remove. zeq; auto. Qed.

  Lemma zm_insert_keys k v m x :
    In x (map fst (zm_insert k v m)) -> x = k \/ In x (map fst m).
  Proof.
    induction m as [|[a b] r IH]; cbn [zm_insert map fst In].
    - intuition.
    - destruct (k <? a); [|destruct (k =? a)]; cbn [map fst In]; intuition.
  Qed.

  Lemma zsorted_insert k v m : zsorted m -> zsorted (zm_insert k v m).
  Proof.
    unfold zsorted. induction m as [|[a b] r IH]; cbn [zm_insert map fst]; intro S.
    - constructor; constructor.
    - apply StronglySorted_inv in S as [S F]. cbn [fst] in *.
      destruct (Z.ltb_spec k a); [|destruct (Z.eqb_spec k a)]; cbn [map fst].
      + constructor. { constructor; auto. }
        constructor; [lia|]. eapply Forall_impl; [|exact F]. intros; lia.
      + subst. constructor; auto.
      + constructor; [apply IH; auto|].
        apply Forall_forall. intros x Hx. apply zm_insert_keys in Hx as [->|Hx]; [lia|].
        rewrite Forall_forall in F. auto.
  Qed.

  Lemma zsorted_filter (f : Z * V -> bool) m : zsorted m -> zsorted (filter f m).
  Proof.
    unfold zsorted. induction m as [|x r IH]; cbn [filter map]; intro S; auto.
    apply StronglySorted_inv in S as [S F].
    destruct (f x); cbn [map]; auto.
    constructor; auto.
    apply Forall_forall. intros y Hy. rewrite Forall_forall in F. apply F.
    apply in_map_iff in Hy as [z [<- Hz]]. apply filter_In in Hz as [Hz _]. now apply in_map.
  Qed.

  Lemma zsorted_remove k m : zsorted m -> zsorted (zm_remove k m).
  Proof. apply zsorted_filter. Qed.

  Lemma zsorted_nodup m : zsorted m -> NoDup (map fst m).
  Proof.
    unfold zsorted. induction (map fst m) as [|a l IH]; intro S; constructor.
    - apply StronglySorted_inv in S as [_ F]. rewrite Forall_forall in F.
      intro H. apply F in H. lia.
    - apply IH. now apply StronglySorted_inv in S.
  Qed.

  Lemma zm_get_in k v m : zm_get k m = Some v -> In (k, v) m.
  Proof.
    induction m as [|[a b] r IH]; cbn [zm_get fst snd]; [discriminate|].
    destruct (Z.eqb_spec a k); intro H.
    - inversion H; subst. now left.
    - right; auto.
  Qed.

  Lemma zm_in_get k v m : NoDup (map fst m) -> In (k, v) m -> zm_get k m = Some v.
  Proof.
    induction m as [|[a b] r IH]; cbn [zm_get map fst snd]; intros N H; [destruct H|].
    inversion N; subst. destruct H as [H|H].
    - inversion H; subst. now rewrite Z.eqb_refl.
    - destruct (Z.eqb_spec a k); [|auto]. subst. exfalso. apply H2.
      change k with (fst (k, v)). now apply in_map.
  Qed.

  Lemma zm_get_none k m : zm_get k m = None <-> ~ In k (map fst m).
  Proof.
    induction m as [|[a b] r IH]; cbn [zm_get map fst snd In]; [intuition|].
    destruct (Z.eqb_spec a k).
    - split; [discriminate|]. intro H. exfalso; apply H; now left.
    - rewrite IH. intuition.
  Qed.

  Lemma zm_mem_in k m : zm_mem k m = true <-> In k (map fst m).
  Proof.
    unfold zm_mem. destruct (zm_get k m) eqn:E.
    - split; auto. intros _. apply zm_get_in in E. change k with (fst (k, v)). now apply in_map.
    - apply zm_get_none in E. split; [discriminate|tauto].
  Qed.

  Lemma nodup_keys_pairs m : NoDup (map fst m) -> NoDup m.
  Proof. apply NoDup_map_inv. Qed.

  Lemma forall_insert (P : Z * V -> Prop) k v m :
    Forall P m -> P (k, v) -> Forall P (zm_insert k v m).
  Proof.
    intros F H. induction m as [|[a b] r IH]; cbn [zm_insert fst].
    - constructor; auto.
    - inversion F; subst.
      destruct (k <? a); [|destruct (k =? a)]; constructor; auto.
  Qed.

  Lemma forall_filter (P : Z * V -> Prop) f m : Forall P m -> Forall P (filter f m).
  Proof.
    intro F. apply Forall_forall. intros x Hx. apply filter_In in Hx as [Hx _].
    rewrite Forall_forall in F; auto.
  Qed.
End ZMapFacts.

Lemma zm_get_map_values {V W} (f : V -> W) (m : zmap V) k :
  zm_get k (zm_map_values f m) = option_map f (zm_get k m).
Proof.
  unfold zm_map_values. induction m as [|[a b] r IH]; cbn [map zm_get fst snd]; auto.
  destruct (a =? k); auto.
Qed.

Lemma zm_map_values_keys {V W} (f : V -> W) (m : zmap V) :
  map fst (zm_map_values f m) = map fst m.
Proof. unfold zm_map_values. rewrite map_map. apply map_ext. auto. Qed.

(* ---------------------------------------------------------------------- *)
(* incoming-edge lists: an edge list is an association list origin |-> weight
   (not sorted); the Rust iterator idioms are lookups / updates of it *)
Fixpoint rm1 (o : Z) (l : list edge) : list edge :=
  match l with
  | [] => []
  | x :: r => if e_origin x =? o then r else x :: rm1 o r
  end.
Fixpoint set1 (o : Z) (w : f32) (l : list edge) : list edge :=
  match l with
  | [] => []
  | x :: r => if e_origin x =? o then (e_origin x, w) :: r else x :: set1 o w r
  end.

Lemma e_remove_first_rm1 o l : e_remove_first o l = rm1 o l.
Proof.
  unfold e_remove_first. induction l as [|x r IH]; cbn [e_position rm1]; auto.
  destruct (e_origin x =? o); cbn [del]; auto.
  destruct (e_position o r); cbn [option_map del]; now rewrite <- IH.
Qed.

Lemma e_set_first_set1 o w l : e_set_first o w l = set1 o w l.
Proof.
  unfold e_set_first. induction l as [|x r IH]; cbn [e_position set1]; auto.
  destruct (e_origin x =? o); cbn [nth_error upd]; auto.
  destruct (e_position o r) as [k|]; cbn [option_map nth_error].
  - destruct (nth_error r k); cbn [upd]; now rewrite <- IH.
  - now rewrite <- IH.
Qed.

Lemma e_get_first_get o l : e_get_first o l = zm_get o l.
Proof.
  unfold e_get_first. induction l as [|x r IH]; cbn [e_position zm_get]; auto.
  unfold e_origin in *. destruct (fst x =? o); cbn [nth_error]; auto.
  destruct (e_position o r) as [k|]; cbn [option_map nth_error]; auto.
Qed.

Lemma e_contains_mem o l : e_contains o l = zm_mem o l.
Proof.
  unfold e_contains, zm_mem, e_origin. induction l as [|x r IH]; cbn [existsb zm_get]; auto.
  destruct (fst x =? o); auto.
Qed.

Lemma e_find_get o l : e_find o l = option_map (fun w => (o, w)) (zm_get o l).
Proof.
  unfold e_find, e_origin. induction l as [|[a b] r IH]; cbn [find zm_get fst snd]; auto.
  destruct (Z.eqb_spec a o); cbn [option_map]; subst; auto.
Qed.

Lemma get_rm1_ne o l o' : o' <> o -> zm_get o' (rm1 o l) = zm_get o' l.
Proof.
  intro N. unfold e_origin. induction l as [|[a b] r IH]; cbn [rm1 zm_get e_origin fst snd]; auto.
  destruct (Z.eqb_spec a o); cbn [zm_get fst snd].
  - subst. zeq; try lia; auto.
  - now rewrite IH.
Qed.

Lemma get_rm1_eq o l : NoDup (map fst l) -> zm_get o (rm1 o l) = None.
Proof.
  induction l as [|[a b] r IH]; cbn [rm1 zm_get e_origin map fst snd]; auto.
  intro N. inversion N; subst.
  destruct (Z.eqb_spec a o); cbn [zm_get fst snd].
  - subst. now apply zm_get_none.
  - destruct (Z.eqb_spec a o); [lia|auto].
Qed.

Lemma rm1_incl o l e : In e (rm1 o l) -> In e l.
Proof.
  induction l as [|x r IH]; cbn [rm1]; auto.
  destruct (e_origin x =? o); cbn [In]; intuition.
Qed.

Lemma rm1_nodup o l : NoDup (map fst l) -> NoDup (map fst (rm1 o l)).
Proof.
  induction l as [|x r IH]; cbn [rm1 map]; auto.
  intro N. inversion N; subst.
  destruct (e_origin x =? o); cbn [map]; auto.
  constructor; auto. intro H. apply H1.
  apply in_map_iff in H as [y [E Hy]]. apply rm1_incl in Hy. rewrite <- E. now apply in_map.
Qed.

Lemma rm1_origin_ne o l e : NoDup (map fst l) -> In e (rm1 o l) -> fst e <> o.
Proof.
  intros N H E. pose proof (get_rm1_eq o l N) as G.
  apply zm_get_none in G. apply G. subst o. now apply in_map.
Qed.

Lemma get_set1 o w l o' :
  zm_get o' (set1 o w l) = if o' =? o then (if zm_mem o l then Some w else None) else zm_get o' l.
Proof.
  unfold zm_mem, e_origin. induction l as [|[a b] r IH]; cbn [set1 zm_get e_origin fst snd].
  - zeq; auto.
  - destruct (Z.eqb_spec a o); cbn [zm_get fst snd].
    + subst. zeq; try lia; auto.
    + rewrite IH. zeq; try lia; auto.
Qed.

Lemma set1_keys o w l : map fst (set1 o w l) = map fst l.
Proof.
  induction l as [|x r IH]; cbn [set1 map]; auto.
  destruct (e_origin x =? o); cbn [map fst]; [reflexivity|now rewrite IH].
Qed.

Lemma get_app_one (l : list edge) o w o' :
  zm_get o' (l ++ [(o, w)]) =
  match zm_get o' l with Some x => Some x | None => if o' =? o then Some w else None end.
Proof.
  induction l as [|[a b] r IH]; cbn [app zm_get fst snd].
  - zeq; try lia; auto.
  - destruct (a =? o'); auto.
Qed.

Lemma filter_keys_nodup {V} (f : Z * V -> bool) (l : list (Z * V)) :
  NoDup (map fst l) -> NoDup (map fst (filter f l)).
Proof.
  induction l as [|x r IH]; cbn [filter map]; auto.
  intro N. inversion N; subst. destruct (f x); cbn [map]; auto.
  constructor; auto. intro H. apply H1.
  apply in_map_iff in H as [y [E Hy]]. apply filter_In in Hy as [Hy _]. rewrite <- E. now apply in_map.
Qed.

Lemma nodup_snoc (l : list Z) o : NoDup l -> ~ In o l -> NoDup (l ++ [o]).
Proof.
  induction l as [|x r IH]; cbn [app]; intros N NI.
  - constructor; auto.
  - inversion N; subst. constructor.
    + rewrite in_app_iff. cbn [In]. intros [H|[H|[]]]; [auto|]. apply NI. now left.
    + apply IH; auto. intro H. apply NI. now right.
Qed.

(* ---------------------------------------------------------------------- *)
(* the structural invariant *)
Definition edges_ok (nodes : zmap Z) (kv : Z * list edge) : Prop :=
  zm_mem (fst kv) nodes = true
  /\ NoDup (map fst (snd kv))
  /\ Forall (fun e => zm_mem (fst e) nodes = true) (snd kv).

Definition inv (g : graph) : Prop :=
  zsorted (g_nodes g) /\ zsorted (g_edges g) /\ Forall (edges_ok (g_nodes g)) (g_edges g).

Lemma inv_new : inv g_new.
Proof. repeat split; constructor. Qed.

Lemma edges_ok_mono n n' kv :
  (forall k, zm_mem k n = true -> zm_mem k n' = true) -> edges_ok n kv -> edges_ok n' kv.
Proof.
  intros M (A & B & C). repeat split; auto.
  eapply Forall_impl; [|exact C]. cbv beta. auto.
Qed.

Lemma inv_lookup g d es :
  inv g -> zm_get d (g_edges g) = Some es -> edges_ok (g_nodes g) (d, es).
Proof.
  intros (_ & _ & F) H. apply zm_get_in in H. rewrite Forall_forall in F. now apply F in H.
Qed.

Lemma inv_add_node g id st : inv g -> inv (g_add_node g id st).
Proof.
  intros (A & B & C). unfold g_add_node. repeat split; cbn [g_nodes g_edges]; auto.
  - now apply zsorted_insert.
  - eapply Forall_impl; [|exact C]. intros kv. apply edges_ok_mono.
    intros k H. rewrite zm_mem_insert, H. apply orb_true_r.
Qed.

Lemma inv_set_state g id st : inv g -> inv (g_set_state g id st).
Proof.
  intros I. unfold g_set_state. destruct (zm_get id (g_nodes g)); auto.
  now apply (inv_add_node g id st).
Qed.

Lemma inv_remove_node g id : inv g -> inv (g_remove_node g id).
Proof.
  intros (A & B & C). unfold g_remove_node. repeat split; cbn [g_nodes g_edges].
  - now apply zsorted_remove.
  - unfold zsorted. rewrite zm_map_values_keys. now apply zsorted_remove.
  - unfold zm_map_values. apply Forall_forall. intros kv H.
    apply in_map_iff in H as [[d es] [<- H]]. apply filter_In in H as [H K].
    cbn [fst snd] in *. rewrite Forall_forall in C. destruct (C _ H) as (M & N & F).
    cbn [fst snd] in *. rewrite e_remove_first_rm1. repeat split; cbn [fst snd].
    + rewrite zm_mem_remove, M. destruct (d =? id); auto.
    + now apply rm1_nodup.
    + apply Forall_forall. intros e He. rewrite zm_mem_remove.
      pose proof (rm1_origin_ne _ _ _ N He). apply rm1_incl in He.
      rewrite Forall_forall in F. rewrite (F _ He). destruct (Z.eqb_spec (fst e) id); auto.
Qed.

Lemma inv_put_edges g d es :
  inv g -> edges_ok (g_nodes g) (d, es) -> inv (mkGraph (g_nodes g) (zm_insert d es (g_edges g))).
Proof.
  intros (A & B & C) H. repeat split; cbn [g_nodes g_edges]; auto.
  - now apply zsorted_insert.
  - now apply forall_insert.
Qed.

Lemma inv_add_edge g o d w : inv g -> inv (g_add_edge g o d w).
Proof.
  intro I. unfold g_add_edge.
  destruct (zm_mem o (g_nodes g)) eqn:Mo; cbn [andb]; auto.
  destruct (zm_mem d (g_nodes g)) eqn:Md; auto.
  destruct (zm_get d (g_edges g)) as [es|] eqn:G.
  - destruct (e_contains o es) eqn:Ct; auto.
    apply inv_put_edges; auto.
    destruct (inv_lookup _ _ _ I G) as (M & N & F). cbn [fst snd] in *.
    repeat split; cbn [fst snd]; auto.
    + rewrite map_app. cbn [map fst].
      rewrite e_contains_mem in Ct.
      assert (~ In o (map fst es)) as NI.
      { intro H. apply zm_mem_in in H. congruence. }
      now apply nodup_snoc.
    + apply Forall_app. split; auto.
  - apply inv_put_edges; auto. repeat split; cbn [fst snd map]; auto.
    constructor; auto. constructor.
Qed.

Lemma inv_remove_edge g o d : inv g -> inv (g_remove_edge g o d).
Proof.
  intro I. unfold g_remove_edge. destruct (zm_get d (g_edges g)) as [es|] eqn:G; auto.
  apply inv_put_edges; auto.
  destruct (inv_lookup _ _ _ I G) as (M & N & F). cbn [fst snd] in *.
  repeat split; cbn [fst snd]; auto.
  - now apply filter_keys_nodup.
  - unfold e_retain_ne. apply Forall_forall. intros e He. apply filter_In in He as [He _].
    rewrite Forall_forall in F; auto.
Qed.

Lemma inv_set_weight g o d w : inv g -> inv (g_set_weight g o d w).
Proof.
  intro I. unfold g_set_weight. destruct (zm_get d (g_edges g)) as [es|] eqn:G; auto.
  apply inv_put_edges; auto.
  destruct (inv_lookup _ _ _ I G) as (M & N & F). cbn [fst snd] in *.
  rewrite e_set_first_set1. repeat split; cbn [fst snd]; auto.
  - now rewrite set1_keys.
  - rewrite Forall_forall in *. intros e He.
    assert (In (fst e) (map fst (set1 o w es))) as K by now apply in_map.
    rewrite set1_keys in K. apply in_map_iff in K as [e' [E K]]. rewrite <- E. auto.
Qed.

(* ---------------------------------------------------------------------- *)
(* read-after-write laws *)
Definition is_some {A} (o : option A) : bool := match o with Some _ => true | None => false end.

Lemma get_weight_alt g o d :
  g_get_weight g o d = match zm_get d (g_edges g) with Some es => zm_get o es | None => None end.
Proof. unfold g_get_weight. destruct (zm_get d (g_edges g)); auto. apply e_get_first_get. Qed.

Lemma gs_add_node g id st k :
  g_get_state (g_add_node g id st) k = if k =? id then Some st else g_get_state g k.
Proof. unfold g_get_state, g_add_node. cbn [g_nodes]. apply zm_get_insert. Qed.

Lemma gs_remove_node g id k :
  g_get_state (g_remove_node g id) k = if k =? id then None else g_get_state g k.
Proof. unfold g_get_state, g_remove_node. cbn [g_nodes]. apply zm_get_remove. Qed.

Lemma gs_set_state g id st k :
  g_get_state (g_set_state g id st) k =
  if k =? id then (if is_some (g_get_state g id) then Some st else None) else g_get_state g k.
Proof.
  unfold g_get_state, g_set_state. destruct (zm_get id (g_nodes g)) eqn:E; cbn [g_nodes is_some].
  - apply zm_get_insert.
  - destruct (Z.eqb_spec k id); subst; auto.
Qed.

Lemma gs_add_edge g o d w k : g_get_state (g_add_edge g o d w) k = g_get_state g k.
Proof.
  unfold g_get_state, g_add_edge.
  destruct (zm_mem o (g_nodes g) && zm_mem d (g_nodes g)); auto.
  destruct (zm_get d (g_edges g)); auto. destruct (e_contains o l); auto.
Qed.

Lemma gs_remove_edge g o d k : g_get_state (g_remove_edge g o d) k = g_get_state g k.
Proof. unfold g_get_state, g_remove_edge. destruct (zm_get d (g_edges g)); auto. Qed.

Lemma gs_set_weight g o d w k : g_get_state (g_set_weight g o d w) k = g_get_state g k.
Proof. unfold g_get_state, g_set_weight. destruct (zm_get d (g_edges g)); auto. Qed.

Lemma gw_add_node g id st o d : g_get_weight (g_add_node g id st) o d = g_get_weight g o d.
Proof. reflexivity. Qed.

Lemma gw_set_state g id st o d : g_get_weight (g_set_state g id st) o d = g_get_weight g o d.
Proof. unfold g_set_state. destruct (zm_get id (g_nodes g)); reflexivity. Qed.

Lemma gw_remove_node g id o d :
  inv g ->
  g_get_weight (g_remove_node g id) o d = if (o =? id) || (d =? id) then None else g_get_weight g o d.
Proof.
  intro I. rewrite !get_weight_alt. unfold g_remove_node. cbn [g_edges].
  rewrite zm_get_map_values, zm_get_remove.
  destruct (Z.eqb_spec d id); cbn [option_map]; [now rewrite orb_true_r|]. rewrite orb_false_r.
  destruct (zm_get d (g_edges g)) as [es|] eqn:G; cbn [option_map]; [|destruct (o =? id); auto].
  rewrite e_remove_first_rm1. destruct (Z.eqb_spec o id).
  - subst. apply get_rm1_eq. now destruct (inv_lookup _ _ _ I G) as (_ & N & _).
  - now apply get_rm1_ne.
Qed.

Lemma gw_add_edge g o d w o' d' :
  g_get_weight (g_add_edge g o d w) o' d' =
  if is_some (g_get_state g o) && is_some (g_get_state g d) && negb (is_some (g_get_weight g o d))
  then (if (o' =? o) && (d' =? d) then Some w else g_get_weight g o' d')
  else g_get_weight g o' d'.
Proof.
  rewrite !get_weight_alt. unfold g_add_edge, g_get_state, zm_mem.
  destruct (zm_get o (g_nodes g)); cbn [is_some andb]; auto.
  destruct (zm_get d (g_nodes g)); cbn [is_some andb]; auto.
  destruct (zm_get d (g_edges g)) as [es|] eqn:G.
  - rewrite e_contains_mem. unfold zm_mem. destruct (zm_get o es) eqn:Go; cbn [is_some negb]; auto.
    cbn [g_edges]. rewrite zm_get_insert.
    destruct (Z.eqb_spec d' d); [subst; rewrite G|]; rewrite ?andb_false_r; auto.
    rewrite get_app_one, andb_true_r.
    destruct (Z.eqb_spec o' o); [subst; now rewrite Go|].
    destruct (zm_get o' es); auto.
  - cbn [is_some negb g_edges]. rewrite zm_get_insert.
    destruct (Z.eqb_spec d' d); [subst; rewrite G|]; rewrite ?andb_false_r; auto.
    cbn [zm_get fst snd]. rewrite andb_true_r.
    destruct (Z.eqb_spec o o'); destruct (Z.eqb_spec o' o); try lia; auto.
Qed.

Lemma gw_remove_edge g o d o' d' :
  g_get_weight (g_remove_edge g o d) o' d' =
  if (o' =? o) && (d' =? d) then None else g_get_weight g o' d'.
Proof.
  rewrite !get_weight_alt. unfold g_remove_edge.
  destruct (zm_get d (g_edges g)) as [es|] eqn:G.
  - cbn [g_edges]. rewrite zm_get_insert.
    destruct (Z.eqb_spec d' d); [subst; rewrite G|]; rewrite ?andb_false_r; auto.
    rewrite andb_true_r. unfold e_retain_ne. unfold e_origin.
    change (filter (fun x : edge => negb (fst x =? o)) es) with (zm_remove o es).
    apply zm_get_remove.
  - destruct (Z.eqb_spec d' d); [subst; rewrite G|]; rewrite ?andb_false_r; auto.
    now destruct (o' =? o).
Qed.

Lemma gw_set_weight g o d w o' d' :
  g_get_weight (g_set_weight g o d w) o' d' =
  if (o' =? o) && (d' =? d) then (if is_some (g_get_weight g o d) then Some w else None)
  else g_get_weight g o' d'.
Proof.
  rewrite !get_weight_alt. unfold g_set_weight.
  destruct (zm_get d (g_edges g)) as [es|] eqn:G.
  - cbn [g_edges]. rewrite zm_get_insert.
    destruct (Z.eqb_spec d' d); [subst; rewrite G|]; rewrite ?andb_false_r; auto.
    rewrite andb_true_r, e_set_first_set1, get_set1. unfold zm_mem.
    destruct (o' =? o); auto.
  - destruct (Z.eqb_spec d' d); [subst; rewrite G|]; rewrite ?andb_false_r; auto.
    cbn [is_some]. now destruct (o' =? o).
Qed.

(* C05: the stack-manipulation family is one generic definition; position maps,
   conservation and frame, for every stack type at once (over a lens). *)
From Coq Require Import ZArith String List Bool Lia Permutation ZifyBool.
From PushModel Require Import Base.Sx Base.Machine Base.ListOps Base.F32 Model.Item Model.GraphT Model.State
  Model.InstrBase Spec.SeqSpec Proofs.Frame.
Import ListNotations.
Open Scope Z_scope.

Section ListFacts.
  Context {A : Type}.

  Lemma del_perm (l : list A) k x : nth_error l k = Some x -> Permutation (x :: del l k) l.
  Proof.
    revert k; induction l as [|y r IH]; intros [|k] H; cbn in *; try discriminate.
    - inversion H; subst. reflexivity.
    - rewrite perm_swap. constructor. now apply IH.
  Qed.

  Lemma ins_perm (r : list A) k x : Permutation (ins r k x) (x :: r).
  Proof.
    revert r; induction k as [|k IH]; intros [|y r]; cbn; try reflexivity.
    rewrite (IH r). apply perm_swap.
  Qed.

  Lemma l_yank_perm (l : list A) i : Permutation (l_yank l i) l.
  Proof.
    unfold l_yank. destruct ((0 <? i) && (i <? zlen l)); [|reflexivity].
    destruct (nth_error l (Z.to_nat i)) eqn:E; [|reflexivity]. now apply del_perm.
  Qed.

  Lemma l_shove_perm (l : list A) i : Permutation (l_shove l i) l.
  Proof.
    unfold l_shove. destruct ((0 <? i) && (i <? zlen l)); [|reflexivity].
    destruct l as [|x r]; [reflexivity|]. apply ins_perm.
  Qed.

  (* the abstract accessors are the plain-sequence operations of the C16 specification *)
  Lemma l_yank_is_spec eqA streq (l : list A) i : 0 <= i ->
    l_yank l i = fst (spec_step eqA streq l (OYank i)).
  Proof.
    intros H. unfold l_yank. cbn [spec_step fst]. unfold pos.
    destruct ((0 <? i) && (i <? zlen l)) eqn:E.
    - reflexivity.
    - destruct (nth_error l (Z.to_nat i)) eqn:N; [|reflexivity].
      assert (i = 0).
      { assert (Z.to_nat i < length l)%nat by (apply nth_error_Some; congruence). unfold zlen in E. lia. }
      subst i. cbn in N. destruct l; cbn in *; [discriminate|]. now inversion N.
  Qed.

  Lemma l_shove_is_spec eqA streq (l : list A) i : 0 <= i ->
    l_shove l i = fst (spec_step eqA streq l (OShove i)).
  Proof.
    intros H. unfold l_shove. cbn [spec_step fst]. unfold pos, len, zlen.
    destruct l as [|x r]; [now destruct ((0 <? i) && _)|].
    destruct (i <? Z.of_nat (length (x :: r))) eqn:E.
    - destruct (0 <? i) eqn:E0; cbn [andb]; [reflexivity|].
      assert (i = 0) by lia. subst. reflexivity.
    - now rewrite andb_false_r.
  Qed.

  Lemma l_copy_is_nth (l : list A) i : 0 <= i -> l_copy l i = nth_error l (Z.to_nat i).
  Proof.
    intros H. unfold l_copy. destruct ((0 <=? i) && (i <? zlen l)) eqn:E; [reflexivity|].
    symmetry. apply nth_error_None. unfold zlen in E. lia.
  Qed.

  Lemma l_copy_clamped (l : list A) idx : l <> [] ->
    exists x, l_copy l (clamp_idx idx (zlen l)) = Some x /\ In x l.
  Proof.
    intros NE. pose proof (clamp_idx_range idx (zlen l)) as R.
    assert (0 < zlen l) by (destruct l; [congruence| unfold zlen; cbn [length]; lia]).
    specialize (R H). unfold l_copy.
    replace ((0 <=? clamp_idx idx (zlen l)) && (clamp_idx idx (zlen l) <? zlen l)) with true by lia.
    destruct (nth_error l (Z.to_nat (clamp_idx idx (zlen l)))) eqn:E.
    - exists a. split; [reflexivity|]. eapply nth_error_In; eauto.
    - apply nth_error_None in E. unfold zlen in *. lia.
  Qed.
End ListFacts.

(* A lens into the state: the laws every (st_X, set_X) pair satisfies *)
Record lens (A : Type) := {
  lget : state -> list A;
  lset : state -> list A -> state;
  lmask : mask;                                   (* the one field the lens reaches *)
  l_get_set : forall s v, lget (lset s v) = v;
  l_frame : forall s v, same_outside lmask s (lset s v);
}.
Arguments lget {A}. Arguments lset {A}. Arguments lmask {A}. Arguments l_get_set {A}. Arguments l_frame {A}.

Section Generic.
  Context {A : Type} (L : lens A).
  Notation get := (lget L).
  Notation set := (lset L).

  Definition small (s : state) : Prop := zlen (get s) <= max32.

  Lemma len32_small {B} (l : list B) : zlen l <= max32 -> len32 l = zlen l.
  Proof.
    intros H. unfold len32. apply wrap32_id. unfold in_i32, min32, max32 in *.
    unfold zlen in *. lia.
  Qed.

  Theorem g_pop_spec s : g_pop get set s = Ok (match get s with _ :: r => set s r | [] => s end).
  Proof. unfold g_pop. destruct (get s); reflexivity. Qed.

  Theorem g_dup_spec s :
    g_dup get set s = Ok (match get s with x :: r => set s (x :: x :: r) | [] => s end).
  Proof. unfold g_dup. destruct (get s); reflexivity. Qed.

  Theorem g_flush_empties s s' : g_flush set s = Ok s' -> get s' = [].
  Proof. unfold g_flush. intros H. inversion H. apply l_get_set. Qed.

  Theorem g_swap_perm s s' : g_swap get set s = Ok s' -> Permutation (get s') (get s).
  Proof. unfold g_swap. intros H; inversion H. rewrite l_get_set. apply l_shove_perm. Qed.

  Theorem g_rot_perm s s' : g_rot get set s = Ok s' -> Permutation (get s') (get s).
  Proof. unfold g_rot. intros H; inversion H. rewrite l_get_set. apply l_yank_perm. Qed.

  Theorem g_swap_spec s s' : g_swap get set s = Ok s' ->
    get s' = match get s with a :: b :: r => b :: a :: r | l => l end.
  Proof.
    unfold g_swap. intros H; inversion H. rewrite l_get_set. unfold l_shove.
    destruct (get s) as [|a [|b r]]; try reflexivity.
    replace ((0 <? 1) && (1 <? zlen (a :: b :: r))) with true by (unfold zlen; cbn [length]; lia).
    reflexivity.
  Qed.

  Theorem g_rot_spec s s' : g_rot get set s = Ok s' ->
    get s' = match get s with a :: b :: c :: r => c :: a :: b :: r | l => l end.
  Proof.
    unfold g_rot. intros H; inversion H. rewrite l_get_set. unfold l_yank.
    destruct (get s) as [|a [|b [|c r]]]; try reflexivity.
    replace ((0 <? 2) && (2 <? zlen (a :: b :: c :: r))) with true by (unfold zlen; cbn [length]; lia).
    reflexivity.
  Qed.

  (* index-taking instructions: the index is removed from INTEGER first, then clamped *)
  Theorem g_yank_spec s idx r : st_int s = idx :: r ->
    let s1 := set_int s r in
    exists s', g_yank get set s = Ok s' /\
      get s' = l_yank (get s1) (clamp_idx idx (len32 (get s1))) /\
      Permutation (get s') (get s1).
  Proof.
    intros H s1. unfold g_yank. rewrite H. eexists; split; [reflexivity|].
    rewrite l_get_set. split; [reflexivity|apply l_yank_perm].
  Qed.

  Theorem g_shove_spec s idx r : st_int s = idx :: r ->
    let s1 := set_int s r in
    exists s', g_shove get set s = Ok s' /\
      get s' = l_shove (get s1) (clamp_idx idx (len32 (get s1))) /\
      Permutation (get s') (get s1).
  Proof.
    intros H s1. unfold g_shove. rewrite H. eexists; split; [reflexivity|].
    rewrite l_get_set. split; [reflexivity|apply l_shove_perm].
  Qed.

  Theorem g_yankdup_spec s idx r : st_int s = idx :: r ->
    let s1 := set_int s r in
    small s1 ->
    exists s', g_yankdup get set s = Ok s' /\
      match get s1 with
      | [] => s' = s1
      | _ => exists x, nth_error (get s1) (Z.to_nat (clamp_idx idx (zlen (get s1)))) = Some x /\
                       get s' = x :: get s1
      end.
  Proof.
    intros H s1 Sm. unfold g_yankdup. rewrite H. fold s1.
    rewrite (len32_small _ Sm).
    destruct (get s1) as [|y l] eqn:E.
    - assert (N : l_copy (@nil A) (clamp_idx idx (zlen (@nil A))) = None).
      { unfold l_copy. destruct (_ && _); [destruct (Z.to_nat _)|]; reflexivity. }
      rewrite N. eexists; split; reflexivity.
    - destruct (l_copy_clamped (y :: l) idx ltac:(discriminate)) as (x & C & _).
      rewrite C. eexists; split; [reflexivity|]. exists x. split.
      + rewrite <- l_copy_is_nth; [exact C|]. apply clamp_idx_range. unfold zlen; cbn [length]; lia.
      + now rewrite l_get_set.
  Qed.

  (* without an index nothing happens *)
  Theorem g_index_ops_need_index s : st_int s = [] ->
    g_yank get set s = Ok s /\ g_shove get set s = Ok s /\ g_yankdup get set s = Ok s.
  Proof. intros H. unfold g_yank, g_shove, g_yankdup. rewrite H. auto. Qed.

  Theorem g_depth_spec s : small s -> g_depth get s = Ok (set_int s (zlen (get s) :: st_int s)).
  Proof. intros Sm. unfold g_depth. now rewrite (len32_small _ Sm). Qed.

  (* ---- frame: nothing but the instruction's own stack (and INTEGER for the index) changes ---- *)
  Lemma set_int_frame s r : same_outside (also_int mask_none) s (set_int s r).
  Proof. so_split; intros; try discriminate; reflexivity. Qed.

  Theorem g_unary_frame s s' :
    g_dup get set s = Ok s' \/ g_pop get set s = Ok s' \/ g_swap get set s = Ok s' \/
    g_rot get set s = Ok s' \/ g_flush set s = Ok s' ->
    same_outside (lmask L) s s'.
  Proof.
    unfold g_dup, g_pop, g_swap, g_rot, g_flush.
    intros [H|[H|[H|[H|H]]]]; try (destruct (get s)); inversion H; subst;
      try apply same_outside_refl; apply l_frame.
  Qed.

  Theorem g_index_frame s s' :
    g_yank get set s = Ok s' \/ g_shove get set s = Ok s' \/ g_yankdup get set s = Ok s' ->
    same_outside (mask_union (also_int mask_none) (lmask L)) s s'.
  Proof.
    unfold g_yank, g_shove, g_yankdup.
    intros [H|[H|H]]; destruct (st_int s) as [|idx r]; try (inversion H; subst; apply same_outside_refl).
    - inversion H; subst. eapply same_outside_trans; [apply set_int_frame|apply l_frame].
    - inversion H; subst. eapply same_outside_trans; [apply set_int_frame|apply l_frame].
    - destruct (l_copy _ _); inversion H; subst.
      + eapply same_outside_trans; [apply set_int_frame|apply l_frame].
      + eapply same_outside_weaken; [|apply set_int_frame]. mask_le_tac.
  Qed.

  Theorem g_depth_frame s s' : g_depth get s = Ok s' -> same_outside (also_int mask_none) s s'.
  Proof. unfold g_depth. intros H; inversion H. apply set_int_frame. Qed.
End Generic.

(* ---- the nine stack types as lenses ---- *)
Ltac lens_frame := intros; so_split; intros; try discriminate; reflexivity.
Program Definition L_bool : lens bool := {| lget := st_bool; lset := set_bool; lmask := also_bool mask_none |}.
Next Obligation. lens_frame. Qed.
Program Definition L_int : lens Z := {| lget := st_int; lset := set_int; lmask := also_int mask_none |}.
Next Obligation. lens_frame. Qed.
Program Definition L_float : lens f32 := {| lget := st_float; lset := set_float; lmask := also_float mask_none |}.
Next Obligation. lens_frame. Qed.
Program Definition L_name : lens str := {| lget := st_name; lset := set_name; lmask := also_name mask_none |}.
Next Obligation. lens_frame. Qed.
Program Definition L_code : lens item := {| lget := st_code; lset := set_code; lmask := also_code mask_none |}.
Next Obligation. lens_frame. Qed.
Program Definition L_exec : lens item := {| lget := st_exec; lset := set_exec; lmask := also_exec mask_none |}.
Next Obligation. lens_frame. Qed.
Program Definition L_bvec : lens (list bool) := {| lget := st_bvec; lset := set_bvec; lmask := also_bvec mask_none |}.
Next Obligation. lens_frame. Qed.
Program Definition L_ivec : lens (list Z) := {| lget := st_ivec; lset := set_ivec; lmask := also_ivec mask_none |}.
Next Obligation. lens_frame. Qed.
Program Definition L_fvec : lens (list f32) := {| lget := st_fvec; lset := set_fvec; lmask := also_fvec mask_none |}.
Next Obligation. lens_frame. Qed.

(* every lens except INTEGER is untouched by popping the index *)
Lemma lens_indep_int :
  (forall s r, lget L_bool (set_int s r) = lget L_bool s) /\
  (forall s r, lget L_float (set_int s r) = lget L_float s) /\
  (forall s r, lget L_name (set_int s r) = lget L_name s) /\
  (forall s r, lget L_code (set_int s r) = lget L_code s) /\
  (forall s r, lget L_exec (set_int s r) = lget L_exec s) /\
  (forall s r, lget L_bvec (set_int s r) = lget L_bvec s) /\
  (forall s r, lget L_ivec (set_int s r) = lget L_ivec s) /\
  (forall s r, lget L_fvec (set_int s r) = lget L_fvec s) /\
  (forall s r, lget L_int (set_int s r) = r).
Proof. repeat split; reflexivity. Qed.

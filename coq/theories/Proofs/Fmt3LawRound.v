(* C11 scalar law for the executable float instance, part 4: what Flocq's
   [binary_normalize] (round to nearest even) contributes, restated on
   integers.  The only facts about rounding that the law needs:
     - the result is a finite float with the sign of the argument,
     - it is at least as close to the argument as any other float ([round_N_pt]),
     - it is not smaller than a power of two below the argument. *)
From Coq Require Import ZArith List Bool Lia ZifyBool Reals Lra.
From Flocq Require Import IEEE754.BinarySingleNaN IEEE754.Binary IEEE754.Bits Core.
From PushModel Require Import Base.Sx Base.F32 Base.F32Flocq.
Open Scope Z_scope.

Definition fexp32 : Z -> Z := SpecFloat.fexp 24 128.
#[global] Instance fexp32_valid : Valid_exp fexp32 := fexp_correct 24 128 Hprec32.
Definition rne (x : R) : R := round radix2 fexp32 ZnearestE x.

Lemma bounded_parts : forall m e, SpecFloat.bounded 24 128 m e = true ->
  0 < Z.pos m < 2 ^ 24 /\ -149 <= e <= 104.
Proof.
  intros m e H. unfold SpecFloat.bounded in H. apply andb_true_iff in H. destruct H as [C B].
  unfold SpecFloat.canonical_mantissa in C. apply Zeq_bool_eq in C.
  rewrite Zpos_digits2_pos in C.
  unfold SpecFloat.fexp, SpecFloat.emin in C.
  pose proof (Zdigits_correct radix2 (Z.pos m)) as [_ D]. cbn [Z.abs] in D.
  change (Z.pow_pos 2) with (Z.pow 2) in D.
  assert (L : Zdigits radix2 (Z.pos m) <= 24) by lia.
  split.
  - split; [lia|]. apply Z.lt_le_trans with (1 := D). apply Z.pow_le_mono_r; lia.
  - lia.
Qed.

(* ---- reals to integers at a common exponent ---- *)
Lemma F2R_diff : forall m1 e1 qp E, E <= e1 ->
  Rabs (F2R (Float radix2 m1 e1) - F2R (Float radix2 qp E)) =
  (IZR (Z.abs (m1 * 2 ^ (e1 - E) - qp)) * bpow radix2 E)%R.
Proof.
  intros m1 e1 qp E H.
  rewrite (F2R_change_exp radix2 E m1 e1 H).
  unfold F2R. cbn [Fnum Fexp]. change (radix_val radix2) with 2.
  rewrite <- Rmult_minus_distr_r, <- minus_IZR, Rabs_mult, <- abs_IZR.
  rewrite (Rabs_pos_eq (bpow radix2 E)) by apply bpow_ge_0. reflexivity.
Qed.

Lemma nearer_int : forall m1 e1 m2 e2 qp E, E <= e1 -> E <= e2 ->
  (Rabs (F2R (Float radix2 m1 e1) - F2R (Float radix2 qp E)) <=
   Rabs (F2R (Float radix2 m2 e2) - F2R (Float radix2 qp E)))%R ->
  Z.abs (m1 * 2 ^ (e1 - E) - qp) <= Z.abs (m2 * 2 ^ (e2 - E) - qp).
Proof.
  intros m1 e1 m2 e2 qp E H1 H2 H.
  rewrite (F2R_diff m1 e1 qp E H1), (F2R_diff m2 e2 qp E H2) in H.
  apply Rmult_le_reg_r in H; [|apply bpow_gt_0]. apply le_IZR. exact H.
Qed.

Lemma F2R_pow_le : forall qp E k, 0 <= k -> 2 ^ k <= qp ->
  (bpow radix2 (k + E) <= F2R (Float radix2 qp E))%R.
Proof.
  intros qp E k Hk H. unfold F2R. cbn [Fnum Fexp]. rewrite bpow_plus.
  apply Rmult_le_compat_r; [apply bpow_ge_0|].
  rewrite <- (IZR_Zpower radix2 k Hk). apply IZR_le. exact H.
Qed.

Lemma F2R_lt_pow : forall qp E k, 0 <= k -> qp < 2 ^ k ->
  (F2R (Float radix2 qp E) < bpow radix2 (k + E))%R.
Proof.
  intros qp E k Hk H. unfold F2R. cbn [Fnum Fexp]. rewrite bpow_plus.
  apply Rmult_lt_compat_r; [apply bpow_gt_0|].
  rewrite <- (IZR_Zpower radix2 k Hk). apply IZR_lt. exact H.
Qed.

(* ---- binary_normalize on a non-zero argument that does not overflow ---- *)
Lemma norm32_spec : forall sm E sg, sm <> 0 -> sg = (sm <? 0) ->
  (Rabs (rne (F2R (Float radix2 sm E))) < bpow radix2 128)%R ->
  rne (F2R (Float radix2 sm E)) <> 0%R ->
  exists my ey Hy,
    norm32 sm E sg = B754_finite 24 128 sg my ey Hy /\
    F2R (Float radix2 (SpecFloat.cond_Zopp sg (Z.pos my)) ey) = rne (F2R (Float radix2 sm E)).
Proof.
  intros sm E sg Hnz Hsg Hlt Hr0.
  pose proof (binary_normalize_correct 24 128 Hprec32 Hmax32 mode_NE sm E sg) as C.
  cbn [round_mode] in C. fold fexp32 in C. fold (rne (F2R (Float radix2 sm E))) in C.
  rewrite (Rlt_bool_true _ _ Hlt) in C. fold (norm32 sm E sg) in C.
  destruct C as [CR [CF CS]].
  assert (Sg : Bsign 24 128 (norm32 sm E sg) = sg).
  { rewrite CS. destruct (Z.ltb_spec sm 0) as [L|L].
    - rewrite Rcompare_Lt; [congruence|]. apply F2R_lt_0. exact L.
    - rewrite Rcompare_Gt; [congruence|]. apply F2R_gt_0. cbn [Fnum]. lia. }
  clear CS.
  destruct (norm32 sm E sg) as [s|s|s pl Hpl|s my ey Hy]; cbn [B2R is_finite Bsign] in *.
  - exfalso. apply Hr0. symmetry. exact CR.
  - discriminate.
  - discriminate.
  - subst s. exists my, ey, Hy. split; [reflexivity|exact CR].
Qed.

Lemma pow_generic : forall k, -149 <= k -> generic_format radix2 fexp32 (bpow radix2 k).
Proof.
  intros k H. apply generic_format_bpow. unfold fexp32, SpecFloat.fexp, SpecFloat.emin. lia.
Qed.

(* the same for a magnitude qp * 2^E with 2^k <= qp < 2^U, signed by [sg] *)
Lemma norm32_pos : forall (sg : bool) qp E k U, 0 <= k -> 2 ^ k <= qp -> -149 <= k + E ->
  0 <= U -> qp < 2 ^ U -> U + E <= 127 ->
  exists my ey (Hy : SpecFloat.bounded 24 128 my ey = true),
    norm32 (if sg then - qp else qp) E sg = B754_finite 24 128 sg my ey Hy /\
    F2R (Float radix2 (Z.pos my) ey) = rne (F2R (Float radix2 qp E)) /\
    k + E - 23 <= ey.
Proof.
  intros sg qp E k U Hk Hlo HkE HU Hhi HUE.
  assert (Hqp : 0 < qp). { assert (0 < 2 ^ k) by (apply Z.pow_pos_nonneg; lia). lia. }
  assert (HkU : k < U). { apply (Z.pow_lt_mono_r_iff 2); lia. }
  set (xa := F2R (Float radix2 qp E)).
  assert (Lo : (bpow radix2 (k + E) <= rne xa)%R).
  { apply round_ge_generic; [exact fexp32_valid|apply valid_rnd_N|apply pow_generic; exact HkE|].
    apply F2R_pow_le; assumption. }
  assert (Hi : (rne xa <= bpow radix2 (U + E))%R).
  { apply round_le_generic; [exact fexp32_valid|apply valid_rnd_N|apply pow_generic; lia|].
    apply Rlt_le. apply F2R_lt_pow; assumption. }
  assert (Pos : (0 < rne xa)%R).
  { apply Rlt_le_trans with (2 := Lo). apply bpow_gt_0. }
  assert (Er : rne (F2R (Float radix2 (if sg then - qp else qp) E)) = (if sg then - rne xa else rne xa)%R).
  { destruct sg; [|reflexivity]. rewrite F2R_Zopp. unfold rne. apply round_NE_opp. }
  destruct (norm32_spec (if sg then - qp else qp) E sg) as [my [ey [Hy [N V]]]].
  - destruct sg; lia.
  - destruct sg; lia.
  - rewrite Er. replace (Rabs (if sg then (- rne xa)%R else rne xa)) with (rne xa).
    2:{ destruct sg; [rewrite Rabs_Ropp|]; rewrite Rabs_pos_eq; auto using Rlt_le. }
    apply Rle_lt_trans with (1 := Hi). apply bpow_lt. lia.
  - rewrite Er. destruct sg; lra.
  - exists my, ey, Hy. split; [exact N|].
    assert (V' : F2R (Float radix2 (Z.pos my) ey) = rne xa).
    { rewrite Er in V. destruct sg; cbn [SpecFloat.cond_Zopp] in V.
      - change (Z.neg my) with (- Z.pos my) in V. rewrite F2R_Zopp in V. lra.
      - exact V. }
    split; [exact V'|].
    destruct (bounded_parts my ey Hy) as [[_ M] _].
    pose proof (F2R_lt_pow (Z.pos my) ey 24 ltac:(lia) M) as B.
    rewrite V' in B.
    assert (LT : (bpow radix2 (k + E) < bpow radix2 (24 + ey))%R) by lra.
    apply lt_bpow in LT. lia.
Qed.

Lemma rne_nearest_int : forall qp E my ey a e,
  F2R (Float radix2 my ey) = rne (F2R (Float radix2 qp E)) ->
  SpecFloat.bounded 24 128 a e = true -> E <= ey -> E <= e ->
  Z.abs (my * 2 ^ (ey - E) - qp) <= Z.abs (Z.pos a * 2 ^ (e - E) - qp).
Proof.
  intros qp E my ey a e V Hb H1 H2.
  apply nearer_int; [exact H1|exact H2|]. rewrite V.
  destruct (round_N_pt radix2 fexp32 (fun x => negb (Z.even x)) (F2R (Float radix2 qp E))) as [_ N].
  apply N. exact (generic_format_B2R 24 128 (B754_finite 24 128 false a e Hb)).
Qed.

(* ---- equal values, equal floats ---- *)
Lemma finite_eq : forall sg m1 e1 H1 m2 e2 H2 E, E <= e1 -> E <= e2 ->
  Z.pos m1 * 2 ^ (e1 - E) = Z.pos m2 * 2 ^ (e2 - E) ->
  B754_finite 24 128 sg m1 e1 H1 = B754_finite 24 128 sg m2 e2 H2.
Proof.
  intros sg m1 e1 H1 m2 e2 H2 E L1 L2 Heq.
  apply B2R_inj; [reflexivity|reflexivity|]. cbn [B2R].
  rewrite (F2R_change_exp radix2 E _ e1 L1), (F2R_change_exp radix2 E _ e2 L2).
  change (radix_val radix2) with 2. f_equal. f_equal.
  destruct sg; cbn [SpecFloat.cond_Zopp].
  - change (Z.neg m1) with (- Z.pos m1). change (Z.neg m2) with (- Z.pos m2).
    rewrite !Z.mul_opp_l. f_equal. exact Heq.
  - exact Heq.
Qed.

(* a value that is a float already is returned unchanged *)
Lemma norm32_exact : forall sg m e Hb sm E, E <= e ->
  sm = SpecFloat.cond_Zopp sg (Z.pos m) * 2 ^ (e - E) ->
  norm32 sm E sg = B754_finite 24 128 sg m e Hb.
Proof.
  intros sg m e Hb sm E L Hsm.
  set (x := B754_finite 24 128 sg m e Hb).
  assert (Ex : F2R (Float radix2 sm E) = B2R 24 128 x).
  { cbn [B2R x]. rewrite (F2R_change_exp radix2 E _ e L). change (radix_val radix2) with 2.
    rewrite <- Hsm. reflexivity. }
  assert (Er : rne (F2R (Float radix2 sm E)) = B2R 24 128 x).
  { rewrite Ex. apply round_generic; [apply valid_rnd_N|]. apply generic_format_B2R. }
  assert (Nz : B2R 24 128 x <> 0%R).
  { cbn [B2R x]. intros Z0. apply eq_0_F2R in Z0. destruct sg; discriminate. }
  assert (P : 0 < 2 ^ (e - E)) by (apply Z.pow_pos_nonneg; lia).
  destruct (norm32_spec sm E sg) as [my [ey [Hy [N V]]]].
  - rewrite Hsm. destruct sg; cbn [SpecFloat.cond_Zopp]; lia.
  - rewrite Hsm. destruct sg; cbn [SpecFloat.cond_Zopp]; lia.
  - rewrite Er. apply abs_B2R_lt_emax.
  - rewrite Er. exact Nz.
  - rewrite N. apply B2R_inj; [reflexivity|reflexivity|]. cbn [B2R]. rewrite V, Er. reflexivity.
Qed.

(* C15: one-step growth over the complete registry. *)
From Coq Require Import ZArith String List Bool Lia ZifyBool.
From PushModel Require Import Base.Sx Base.Machine Base.ListOps Base.F32 Model.Item Model.GraphT Model.State
  Model.InstrBase Model.Registry Model.Interp Model.RegistryVec Model.RegistryListIo Model.RegistryGraph
  Model.RegistryNbr Model.RandomGen Model.IRand Model.RegistryRand Model.RegistryAll Model.Cost
  Proofs.CostBase Proofs.CostGrowth Proofs.CostGrowthCore Proofs.CostGrowthVec Proofs.CostGrowthListIo
  Proofs.CostGrowthGraph.
Import ListNotations.
Close Scope string_scope.
Open Scope Z_scope.

Section All.
  Context {FO : FloatOps}.

  (* the four LIST.NEIGHBOR* are ByOperand *)
  Lemma nbr_grows : table_grows tbl_nbr.
  Proof. unfold table_grows, tbl_nbr. repeat constructor; left; vm_compute; reflexivity. Qed.

  Lemma weight_push_bool s b : weight (push_bool s b) = weight s + 1.
  Proof. destruct_state s. unfold weight, push_bool. proj_cbn. rewrite wsum_cons. unfold cnt. lia. Qed.
  Lemma weight_push_int s z : weight (push_int s z) = weight s + 1.
  Proof. destruct_state s. unfold weight, push_int. proj_cbn. rewrite wsum_cons. unfold cnt. lia. Qed.
  Lemma weight_push_float s x : weight (push_float s x) = weight s + 1.
  Proof. destruct_state s. unfold weight, push_float. proj_cbn. rewrite wsum_cons. unfold cnt. lia. Qed.

  (* BOOLEAN / INTEGER / FLOAT.RAND push one scalar; the vector RANDs are ByOperand; NAME.RAND,
     NAME.RANDBOUNDNAME and CODE.RAND push oracle-sized names *)
  Lemma rand_grows instrs : table_grows (tbl_rand instrs).
  Proof.
    unfold table_grows, tbl_rand.
    repeat (apply Forall_cons; [cbn [fst snd]; try (left; vm_compute; reflexivity)|]); try apply Forall_nil.
    - right. intros p w s w' s' H. unfold boolean_rand, rbind in H.
      destruct (draw_range _ _ _) as [r| |]; inversion H; subst. rewrite weight_push_bool. pose proof (weight_nn s). lia.
    - right. intros p w s w' s' H. unfold integer_rand, rbind in H.
      destruct (random_integer _ _) as [r| |]; inversion H; subst. pose proof (weight_nn s).
      destruct (fst r); rewrite ?weight_push_int; lia.
    - right. intros p w s w' s' H. unfold float_rand, float_rand_g, rbind in H.
      destruct (random_float _ _) as [r| |]; inversion H; subst. pose proof (weight_nn s).
      destruct (fst r); rewrite ?weight_push_float; lia.
  Qed.

  Lemma table_grows_app a b : table_grows a -> table_grows b -> table_grows (a ++ b).
  Proof. unfold table_grows. intros. apply Forall_app. now split. Qed.

  Lemma full_grows : table_grows full_table.
  Proof.
    unfold full_table, base_table.
    apply table_grows_app; [|apply rand_grows].
    apply table_grows_app; [apply core_grows|].
    apply table_grows_app; [apply bvec_grows|].
    apply table_grows_app; [apply ivec_grows|].
    apply table_grows_app; [apply fvec_grows|].
    apply table_grows_app; [apply list_grows|].
    apply table_grows_app; [apply io_grows|].
    apply table_grows_app; [apply graph_grows|apply nbr_grows].
  Qed.

  (* one instruction of the registry at most doubles the weight of the state, plus a constant *)
  Theorem weight_growth n f : In (n, f) full_table -> GrowthExcluded n = false ->
    forall p w s w' s', f p w s = Ok (w', s') -> weight s' <= 2 * weight s + 64.
  Proof.
    intros Hin Hex. pose proof full_grows as G. unfold table_grows in G. rewrite Forall_forall in G.
    destruct (G _ Hin) as [E|Hg]; cbn [fst snd] in *; [congruence|exact Hg].
  Qed.
End All.

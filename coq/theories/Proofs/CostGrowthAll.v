(* C15: one-step growth over the complete registry. *)
From Coq Require Import ZArith String List Bool Lia ZifyBool.
From PushModel Require Import Base.Sx Base.Machine Base.ListOps Base.F32 Model.Item Model.GraphT Model.State
  Model.InstrBase Model.Registry Model.Interp Model.RegistryVec Model.RegistryListIo Model.RegistryGraph
  Model.RegistryNbr Model.RandomGen Model.IRand Model.RegistryRand Model.RegistryAll Model.Cost
  Proofs.CostBase Proofs.CostItem Proofs.CostGrowth Proofs.CostGrowthCore Proofs.CostGrowthVec Proofs.CostGrowthListIo
  Proofs.CostGrowthGraph.
Import ListNotations.
Close Scope string_scope.
Open Scope Z_scope.

Section All.
  Context {FO : FloatOps}.

  (* the four LIST.NEIGHBOR* are ByOperand *)
  Lemma nbr_grows : table_grows tbl_nbr.
  Proof. unfold table_grows, tbl_nbr. repeat constructor; left; vm_compute; reflexivity. Qed.

  Lemma weight_push_bool s b : weight (push_bool s b) = weight s + 1.
  Proof. destruct_state s. unfold weight, push_bool. proj_cbn. rewrite wsum_cons. unfold cnt. lia. Qed.
  Lemma weight_push_int s z : weight (push_int s z) = weight s + 1.
  Proof. destruct_state s. unfold weight, push_int. proj_cbn. rewrite wsum_cons. unfold cnt. lia. Qed.
  Lemma weight_push_float s x : weight (push_float s x) = weight s + 1.
  Proof. destruct_state s. unfold weight, push_float. proj_cbn. rewrite wsum_cons. unfold cnt. lia. Qed.

  (* BOOLEAN / INTEGER / FLOAT.RAND push one scalar; the vector RANDs are ByOperand; NAME.RAND,
     NAME.RANDBOUNDNAME and CODE.RAND push oracle-sized names *)
  Lemma rand_grows instrs : table_grows (tbl_rand instrs).
  Proof.
    unfold table_grows, tbl_rand.
    repeat (apply Forall_cons; [cbn [fst snd]; try (left; vm_compute; reflexivity)|]); try apply Forall_nil.
    - right. intros p w s w' s' H. unfold boolean_rand, rbind in H.
      destruct (draw_range _ _ _) as [r| |]; inversion H; subst. rewrite weight_push_bool. pose proof (weight_nn s). lia.
    - right. intros p w s w' s' H. unfold integer_rand, rbind in H.
      destruct (random_integer _ _) as [r| |]; inversion H; subst. pose proof (weight_nn s).
      destruct (fst r); rewrite ?weight_push_int; lia.
    - right. intros p w s w' s' H. unfold float_rand, float_rand_g, rbind in H.
      destruct (random_float _ _) as [r| |]; inversion H; subst. pose proof (weight_nn s).
      destruct (fst r); rewrite ?weight_push_float; lia.
  Qed.

  Lemma table_grows_app a b : table_grows a -> table_grows b -> table_grows (a ++ b).
  Proof. unfold table_grows. intros. apply Forall_app. now split. Qed.

  Lemma full_grows : table_grows full_table.
  Proof.
    unfold full_table, base_table.
    apply table_grows_app; [|apply rand_grows].
    apply table_grows_app; [apply core_grows|].
    apply table_grows_app; [apply bvec_grows|].
    apply table_grows_app; [apply ivec_grows|].
    apply table_grows_app; [apply fvec_grows|].
    apply table_grows_app; [apply list_grows|].
    apply table_grows_app; [apply io_grows|].
    apply table_grows_app; [apply graph_grows|apply nbr_grows].
  Qed.

  (* one instruction of the registry at most doubles the weight of the state, plus a constant *)
  Theorem weight_growth n f : In (n, f) full_table -> GrowthExcluded n = false ->
    forall p w s w' s', f p w s = Ok (w', s') -> weight s' <= 2 * weight s + 64.
  Proof.
    intros Hin Hex. pose proof full_grows as G. unfold table_grows in G. rewrite Forall_forall in G.
    destruct (G _ Hin) as [E|Hg]; cbn [fst snd] in *; [congruence|exact Hg].
  Qed.

  (* ---- one interpreter step ---- *)
  Lemma lookup_in_table (tbl : list (string * sem)) n f :
    lookup (mk_registry tbl) n = Some f -> exists k, In (k, f) tbl /\ s2l k = n.
  Proof.
    induction tbl as [|[k v] r IH]; [discriminate|].
    unfold mk_registry in *. cbn [map lookup fst snd].
    destruct (str_eqb n (s2l k)) eqn:E.
    - intro H; inversion H; subst. exists k. split; [now left|].
      clear - E. revert E. generalize (s2l k). induction n as [|a n IH]; intros [|b m]; cbn [str_eqb]; try discriminate; auto.
      intro E. apply andb_prop in E as [E1 E2]. f_equal; [lia|now apply IH].
    - intro H. destruct (IH H) as (k' & Hin & Hk). exists k'. split; [now right|exact Hk].
  Qed.

  Lemma weight_push_lit s v : weight (push_lit s v) = weight s + lit_cells v.
  Proof.
    destruct_state s. destruct v; unfold weight, push_lit; proj_cbn; rewrite wsum_cons; cbn [lit_cells];
      unfold cnt, idxw; lia.
  Qed.
  Lemma weight_set_exec_tl s t r : st_exec s = t :: r -> weight (set_exec s r) = weight s - iweight t.
  Proof. destruct_state s. cbn [st_exec]. intros ->. unfold weight. proj_cbn. rewrite wsum_cons. lia. Qed.

  (* whatever is on top of EXEC: a literal, a name, a list or a registered instruction outside
     [GrowthExcluded] *)
  Theorem step_growth p w s fin w' s' :
    step p full_registry w s = Ok (fin, w', s') ->
    (forall n k, hd_error (st_exec s) = Some (IInstr n) -> s2l k = n -> GrowthExcluded k = false) ->
    weight s' <= 2 * weight s + 64.
  Proof.
    intros H Hex. pose proof (weight_nn s) as Wn. unfold step in H.
    destruct (st_exec s) as [|t r] eqn:E; [inversion H; subst; lia|].
    pose proof (weight_set_exec_tl s t r E) as W1. pose proof (iweight_pos t) as Tp.
    destruct t as [l|n|v|n].
    - inversion H; subst. clear H. rewrite iweight_list in *.
      destruct_state s. cbn [st_exec] in E. subst xe. unfold weight in *. proj_cbn.
      rewrite wsum_app, wsum_cons in *. rewrite iweight_list in *. lia.
    - destruct (lookup full_registry n) as [f|] eqn:L.
      + destruct (f p w (set_exec s r)) as [[w1 s1]| |] eqn:F; cbn [rbind] in H; inversion H; subst.
        destruct (lookup_in_table _ _ _ L) as (k & Hin & Hk).
        pose proof (weight_growth k f Hin (Hex n k eq_refl Hk) _ _ _ _ _ F). cbn [fst snd]. lia.
      + inversion H; subst. lia.
    - inversion H; subst. rewrite weight_push_lit. cbn [iweight] in *. lia.
    - destruct (st_quote (set_exec s r)).
      + inversion H; subst. clear H. destruct_state s. cbn [st_exec] in E. subst xe.
        unfold weight in *. proj_cbn. rewrite !wsum_cons in *. cbn [iweight] in *. lia.
      + destruct (bind_get (st_bind (set_exec s r)) n) as [b|] eqn:B.
        * inversion H; subst. clear H. apply Proofs.CostItem.bind_get_le in B.
          destruct_state s. cbn [st_exec] in E. subst xe.
          unfold weight in *. proj_cbn. rewrite !wsum_cons in *. cbn [iweight] in *.
          pose_nn. lia.
        * inversion H; subst. clear H. destruct_state s. cbn [st_exec] in E. subst xe.
          unfold weight in *. proj_cbn. rewrite !wsum_cons in *. cbn [iweight] in *. lia.
  Qed.
End All.

(* C15: weight facts for the LIST records and the INPUT / OUTPUT queues. *)
From Coq Require Import ZArith String List Bool Lia ZifyBool.
From PushModel Require Import Base.Sx Base.Machine Base.ListOps Base.F32 Model.Item Model.GraphT Model.State
  Model.InstrBase Model.IList Model.IIo Model.Cost Proofs.CostBase Proofs.CostItem.
Import ListNotations.
Open Scope Z_scope.

Ltac destruct_state' s := destruct s as [xb xc xe xf xix xi xn xbv xfv xiv xinp xoutp xg xbd xcfg xq xsd].

(* load_items MOVES entries from the typed stacks into the record: nothing is created *)
Lemma take_id_weight sid s x s1 : take_id sid s = Some (x, s1) -> weight s1 + iweight x = weight s.
Proof.
  destruct_state' s. unfold take_id.
  repeat match goal with
         | |- (if ?c then _ else _) = _ -> _ => destruct c
         end;
    cbn [st_bool st_code st_exec st_float st_int st_name st_bvec st_fvec st_ivec];
    try discriminate;
    match goal with |- match ?l with _ => _ end = _ -> _ => destruct l end; try discriminate;
    intro H; inversion H; subst; unfold weight;
    cbn [st_bool st_code st_exec st_float st_index st_int st_name st_bvec st_fvec st_ivec st_input st_output
         st_graph st_bind set_bool set_code set_exec set_float set_int set_name set_bvec set_fvec set_ivec];
    rewrite ?wsum_cons; cbn [iweight lit_cells]; unfold cnt; lia.
Qed.

Lemma load_ids_weight ids : forall s items s2,
  load_ids ids s = (items, s2) -> weight s2 + wsum iweight items = weight s.
Proof.
  induction ids as [|sid r IH]; intros s items s2; cbn [load_ids].
  - intro H; inversion H; subst. rewrite wsum_nil. lia.
  - destruct (take_id sid s) as [[x s1]|] eqn:T.
    + destruct (load_ids r s1) as [xs s3] eqn:L. intro H; inversion H; subst.
      specialize (IH _ _ _ L). apply take_id_weight in T. rewrite wsum_cons. lia.
    + apply IH.
Qed.

Lemma mk_record_weight items : iweight (mk_record items) = 1 + wsum iweight items.
Proof. unfold mk_record. now rewrite iweight_list, wsum_rev. Qed.

(* a bounded queue never takes more than the pushed element *)
Lemma bq_push_le {A} (f : A -> Z) cap l x : wsum f (bq_push cap l x) <= wsum f l + Z.max 0 (f x).
Proof. unfold bq_push. destruct (_ <? cap); rewrite ?wsum_app, ?wsum_cons, ?wsum_nil; lia. Qed.

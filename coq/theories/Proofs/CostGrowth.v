(* C15: one instruction at most doubles the weight of the state (plus a constant), for every
   instruction outside [GrowthExcluded].  One generic tactic per family; a table line whose
   instruction grows faster is a failed Qed. *)
From Coq Require Import ZArith String List Bool Lia ZifyBool.
From PushModel Require Import Base.Sx Base.Machine Base.ListOps Base.F32 Model.Item Model.GraphT Model.State
  Model.InstrBase Model.IScalar Model.ICode Model.IVector Model.Registry Model.Cost
  Proofs.CostBase Proofs.CostItem Proofs.CostVec.
Import ListNotations.
Open Scope Z_scope.

Definition grows (f : sem) : Prop :=
  forall p w s w' s', f p w s = Ok (w', s') -> weight s' <= 2 * weight s + 64.
Definition table_grows (tbl : list (string * sem)) : Prop :=
  Forall (fun e => GrowthExcluded (fst e) = true \/ grows (snd e)) tbl.

Ltac destruct_state s := destruct s as [xb xc xe xf xix xi xn xbv xfv xiv xinp xoutp xg xbd xcfg xq xsd].

(* split every match of the hypothesis (innermost scrutinee first) *)
Ltac split_matches H :=
  repeat (first
    [ match type of H with
      | context [match ?x with _ => _ end] =>
          match x with
          | context [match _ with _ => _ end] => fail 1
          | _ => destruct x eqn:?; try discriminate H
          end
      end
    | (* a scrutinee whose only inner matches sit under a binder *)
      match type of H with
      | context [match ?x with _ => _ end] => destruct x eqn:?; try discriminate H
      end ]).

Ltac proj_cbn :=
  cbn [st_bool st_code st_exec st_float st_index st_int st_name st_bvec st_fvec st_ivec st_input st_output
       st_graph st_bind st_cfg st_quote st_send
       set_bool set_code set_exec set_float set_index set_int set_name set_bvec set_fvec set_ivec set_input
       set_output set_graph set_bind set_cfg set_quote set_send
       push_int push_bool push_float push_code push_exec push_name fst snd] in *.

(* facts carried by the equations that [split_matches] leaves behind *)
Ltac use_hyps :=
  repeat match goal with
         | E : l_copy ?l ?i = Some ?x |- _ =>
             first [ pose proof (wsum_l_copy_le iweight iweight_nn l i x E)
                   | pose proof (wsum_l_copy_le vw vw_nn l i x E)
                   | idtac ]; clear E
         | E : traverse _ ?t _ = Ok (Found ?y) |- _ => pose proof (traverse_found_le _ _ _ _ E); clear E
         | E : container ?t ?pat = COk ?c |- _ => pose proof (container_le _ _ _ E); clear E
         | E : insert _ ?t ?x _ = Ok ?r |- _ => pose proof (insert_le _ _ _ _ _ E); clear E
         | E : bind_get ?b ?n = Some ?t |- _ => pose proof (bind_get_le _ _ _ E); clear E
         | E : overlay_run _ _ _ _ = Some _ |- _ => pose proof (overlay_run_len _ _ _ _ _ E); clear E
         | E : vset _ _ _ = Ok _ |- _ => pose proof (vset_len _ _ _ _ E); clear E
         end.
Ltac use_goal :=
  repeat match goal with
         | |- context [bind_set ?b ?k ?v] =>
             lazymatch goal with
             | _ : wsum bindw (bind_set b k v) <= _ |- _ => fail
             | _ => pose proof (bind_set_le b k v)
             end
         | |- context [as_list ?t] =>
             lazymatch goal with
             | _ : wsum iweight (as_list t) <= _ |- _ => fail
             | _ => pose proof (as_list_le t)
             end
         | |- context [wsum ?f (skipn ?k ?l)] =>
             lazymatch goal with
             | _ : wsum f (skipn k l) <= _ |- _ => fail
             | _ => pose proof (wsum_skipn_le f ltac:(nn_side) k l)
             end
         | |- context [zlen (filter ?q ?l)] =>
             lazymatch goal with
             | _ : zlen (filter q l) <= _ |- _ => fail
             | _ => pose proof (zlen_filter_le q l)
             end
         | |- context [zlen (bool_index ?v ?i)] =>
             lazymatch goal with
             | _ : zlen (bool_index v i) <= _ |- _ => fail
             | _ => pose proof (bool_index_len v i)
             end
         | |- context [zlen (firstn ?k ?l)] =>
             lazymatch goal with
             | _ : zlen (firstn k l) + zlen (skipn k l) = _ |- _ => fail
             | _ => pose proof (zlen_firstn_skipn k l)
             end
         | |- context [zlen (skipn ?k ?l)] =>
             lazymatch goal with
             | _ : zlen (firstn k l) + zlen (skipn k l) = _ |- _ => fail
             | _ => pose proof (zlen_firstn_skipn k l)
             end
         | |- context [zlen (tl ?l)] =>
             lazymatch goal with
             | _ : zlen (tl l) <= _ |- _ => fail
             | _ => pose proof (zlen_tl_le l)
             end
         | |- context [wsum ?f (tl ?l)] =>
             lazymatch goal with
             | _ : wsum f (tl l) <= _ |- _ => fail
             | _ => pose proof (wsum_tl_le f ltac:(nn_side) l)
             end
         end.
(* the weight of an instruction literal: a number *)
Ltac eval_instrs :=
  repeat match goal with
         | |- context [iweight (i_instr ?n)] =>
             let v := eval vm_compute in (iweight (i_instr n)) in change (iweight (i_instr n)) with v
         end.

Ltac pose_zlen :=
  repeat match goal with
         | |- context [zlen ?l] =>
             lazymatch goal with _ : 0 <= zlen l |- _ => fail | _ => pose proof (zlen_nn l) end
         | _ : context [zlen ?l] |- _ =>
             lazymatch goal with _ : 0 <= zlen l |- _ => fail | _ => pose proof (zlen_nn l) end
         end.

Ltac pose_lits :=
  repeat match goal with
         | |- context [lit_cells ?v] =>
             lazymatch goal with _ : 1 <= lit_cells v |- _ => fail | _ => pose proof (lit_cells_pos v) end
         end.

(* family-specific facts: rebound with ::= by the family files *)
Ltac extra_hyps := idtac.
Ltac extra_goal := idtac.

Ltac grow_fin :=
  unfold weight in *; proj_cbn; unfold str in *; use_hyps; extra_hyps;
  autorewrite with wdb in *; use_goal; extra_goal; autorewrite with wdb in *; eval_instrs;
  cbn [lit_cells] in *;
  pose_nn; pose_lits;
  unfold bindw in *; cbn [fst snd] in *; autorewrite with wdb in *; cbn [lit_cells] in *; pose_lits;
  unfold cnt, idxw, vw in *; autorewrite with wdb in *; use_goal;
  unfold str in *; pose_zlen;
  try lia.

(* the element operation of an overlay loop is irrelevant for the lengths: abstract it (its body may
   contain a match under a binder, which [split_matches] cannot destruct) *)
Ltac abstract_ops H :=
  repeat match type of H with
         | context [@overlay_run ?A ?op] =>
             tryif is_var op then fail else (let o := fresh "op" in set (o := op) in H; clearbody o)
         end.

(* [unf] unfolds the instruction bodies of one family in the hypothesis *)
Ltac grow_with unf :=
  let p := fresh "p" in let w := fresh "w" in let s := fresh "s" in
  let w' := fresh "w'" in let s' := fresh "s'" in let H := fresh "HH" in
  intros p w s w' s' H; destruct_state s;
  unfold pure, purep, rbind in H; unf H; abstract_ops H;
  split_matches H; inversion H; subst; clear H; grow_fin.

(* C09, SORT: the model's sort is STABLE, and a stable sort is unique.

   Rust sorts the vectors with `sort` / `sort_by`, whose contract is: the result is sorted
   w.r.t. the comparator, a rearrangement of the input, and elements that compare equal keep
   their relative order (the algorithm behind it, a merge sort, is not part of the contract).
   The model (Model/IVector.v) uses the insertion sort [stable_sort].  Stability is observable:
   0.0 and -0.0 compare equal under [fle_nan_last] and are different items.

   For a comparison [le : A -> A -> bool], [eqv le x y] says that x and y compare equal.
   "Equal elements keep their relative order" is stated as: for every k, the sub-list of the
   elements equivalent to k is the same before and after ([filter (eqv le k)]).

   (a) [stable_sort_stable]   the model's sort has this property (le transitive);
   (b) [stable_sort_unique]   every sorted list with this property IS [stable_sort le l]
                              (le total and transitive), so the contract of `sort_by` determines
                              the result, whatever the algorithm;
   (c) [stable_sort_desc_order], [stable_sort_desc_unique]  the same for the DESC instructions,
       which reverse the ascending result: equal elements appear in REVERSED relative order. *)
From Coq Require Import ZArith List Bool Lia Sorting.Permutation Sorting.Sorted.
From PushModel Require Import Base.Sx Base.Machine Base.ListOps Base.F32 Model.Item Model.GraphT Model.State
  Model.InstrBase Model.IVector Spec.VecSpec Proofs.VecProofs.
Import ListNotations.

(* x and y compare equal *)
Definition eqv {A : Type} (le : A -> A -> bool) (x y : A) : bool := le x y && le y x.

(* ------------------------------------------------------------------ *)
(* list facts *)
Section ListFacts.
  Context {A : Type}.

  Lemma filter_rev_comm (p : A -> bool) (l : list A) : filter p (rev l) = rev (filter p l).
  Proof.
    induction l as [|x r IH]; [reflexivity|].
    cbn [rev filter]. rewrite filter_app, IH. cbn [filter].
    destruct (p x); [reflexivity|]. now rewrite app_nil_r.
  Qed.

  Variable R : A -> A -> Prop.

  Lemma StronglySorted_snoc (l : list A) (x : A) :
    StronglySorted R l -> Forall (fun a => R a x) l -> StronglySorted R (l ++ [x]).
  Proof.
    induction l as [|y r IH]; intros S F; cbn [app].
    - constructor; constructor.
    - inversion S as [|? ? Sr Hall]; subst. inversion F as [|? ? Hyx Fr]; subst.
      constructor; [apply IH; assumption|].
      apply Forall_app. split; [exact Hall|]. constructor; [exact Hyx|constructor].
  Qed.

  (* a list sorted downwards is the reverse of a list sorted upwards *)
  Lemma StronglySorted_rev (l : list A) :
    StronglySorted (fun a b => R b a) l -> StronglySorted R (rev l).
  Proof.
    induction l as [|x r IH]; intro S; cbn [rev]; [constructor|].
    inversion S as [|? ? Sr Hall]; subst.
    apply StronglySorted_snoc; [apply IH; exact Sr|].
    apply Forall_rev. exact Hall.
  Qed.
End ListFacts.

(* ------------------------------------------------------------------ *)
Section SortStable.
  Context {A : Type}.
  Variable le : A -> A -> bool.
  Hypothesis le_total : forall a b, le a b = true \/ le b a = true.
  Hypothesis le_trans : forall a b c, le a b = true -> le b c = true -> le a c = true.

  Notation sorted := (StronglySorted (fun a b => le a b = true)).
  Notation sorted_desc := (StronglySorted (fun a b => le b a = true)).

  Lemma le_refl a : le a a = true.
  Proof. destruct (le_total a a); assumption. Qed.

  Lemma eqv_refl a : eqv le a a = true.
  Proof. unfold eqv. now rewrite le_refl. Qed.

  Lemma eqv_sym a b : eqv le a b = eqv le b a.
  Proof. unfold eqv. apply andb_comm. Qed.

  (* two elements of one equivalence class are comparable in both directions *)
  Lemma eqv_le k x y : eqv le k x = true -> eqv le k y = true -> le x y = true.
  Proof.
    unfold eqv. intros Hx Hy.
    apply andb_true_iff in Hx. apply andb_true_iff in Hy.
    destruct Hx as [_ Hxk]. destruct Hy as [Hky _]. eapply le_trans; eassumption.
  Qed.

  (* ---- insertion ---- *)
  (* The shape of an insertion: the list is cut in two, nothing else moves; x passes only
     elements y with [le x y = false] (so none that is equivalent to x), and stops in front
     of the first y with [le x y = true].  In a sorted list everything behind that y is
     above x as well: x lands in front of every element equivalent to it. *)
  Lemma ins_sorted_split x l :
    exists l1 l2, l = l1 ++ l2 /\ ins_sorted_by le x l = l1 ++ x :: l2 /\
                  Forall (fun y => le x y = false) l1 /\
                  match l2 with [] => True | y :: _ => le x y = true end.
  Proof.
    induction l as [|y r IH].
    - exists [], []. repeat split. constructor.
    - cbn [ins_sorted_by]. destruct (le x y) eqn:E.
      + exists [], (y :: r). repeat split; [constructor|exact E].
      + destruct IH as (l1 & l2 & Hl & Hi & Hf & Hh).
        exists (y :: l1), l2. cbn [app]. rewrite Hi, <- Hl. repeat split; [|exact Hh].
        constructor; assumption.
  Qed.

  Lemma ins_sorted_before_equivalent x l :
    sorted l ->
    exists l1 l2, l = l1 ++ l2 /\ ins_sorted_by le x l = l1 ++ x :: l2 /\
                  Forall (fun y => eqv le x y = false) l1 /\ Forall (fun y => le x y = true) l2.
  Proof.
    intro S. destruct (ins_sorted_split x l) as (l1 & l2 & Hl & Hi & Hf & Hh).
    exists l1, l2. repeat split; try assumption.
    - eapply Forall_impl; [|exact Hf]. intros y Hy. unfold eqv. now rewrite Hy.
    - subst l. destruct l2 as [|y r2]; [constructor|].
      assert (S2 : sorted (y :: r2)).
      { clear - S. induction l1 as [|z r1 IH]; [exact S|]. apply IH. cbn [app] in S. now inversion S. }
      inversion S2 as [|? ? _ Hall]; subst. constructor; [exact Hh|].
      eapply Forall_impl; [|exact Hall]. intros a Ha. eapply le_trans; eassumption.
  Qed.

  (* every equivalence class sees the insertion as a `cons` (l need not be sorted) *)
  Lemma ins_sorted_filter k x l :
    filter (eqv le k) (ins_sorted_by le x l) = filter (eqv le k) (x :: l).
  Proof.
    induction l as [|y r IH]; [reflexivity|].
    cbn [ins_sorted_by]. destruct (le x y) eqn:E; [reflexivity|].
    cbn [filter] in IH |- *. rewrite IH.
    destruct (eqv le k x) eqn:Ex, (eqv le k y) eqn:Ey; try reflexivity.
    rewrite (eqv_le k x y Ex Ey) in E. discriminate.
  Qed.

  (* ---- (a) the model's sort is stable ---- *)
  Lemma stable_sort_stable l k : filter (eqv le k) (stable_sort le l) = filter (eqv le k) l.
  Proof.
    induction l as [|x r IH]; [reflexivity|].
    unfold stable_sort in *. cbn [fold_right]. rewrite ins_sorted_filter.
    cbn [filter]. now rewrite IH.
  Qed.

  (* ---- (b) a stable sort is unique ---- *)
  Lemma sorted_head_le x r y : sorted (x :: r) -> In y (x :: r) -> le x y = true.
  Proof.
    intros S [->|Hin]; [apply le_refl|].
    inversion S as [|? ? _ Hall]; subst. rewrite Forall_forall in Hall. now apply Hall.
  Qed.

  Lemma same_classes_In l1 l2 :
    (forall k, filter (eqv le k) l1 = filter (eqv le k) l2) -> forall a, In a l1 -> In a l2.
  Proof.
    intros F a Hin.
    assert (H : In a (filter (eqv le a) l1)) by (apply filter_In; split; [exact Hin|apply eqv_refl]).
    rewrite F in H. apply filter_In in H. tauto.
  Qed.

  (* two sorted lists with the same classes, each class in the same order, are equal
     (that they are rearrangements of each other follows and need not be assumed) *)
  Lemma sorted_same_classes_eq l1 : forall l2,
    sorted l1 -> sorted l2 ->
    (forall k, filter (eqv le k) l1 = filter (eqv le k) l2) -> l1 = l2.
  Proof.
    induction l1 as [|x r1 IH]; intros l2 S1 S2 F.
    - destruct l2 as [|y r2]; [reflexivity|].
      specialize (F y). cbn [filter] in F. rewrite eqv_refl in F. discriminate.
    - destruct l2 as [|y r2].
      { specialize (F x). cbn [filter] in F. rewrite eqv_refl in F. discriminate. }
      assert (Hxy : le x y = true).
      { apply (sorted_head_le x r1 y S1). apply (same_classes_In (y :: r2) (x :: r1)).
        - intro k. symmetry. apply F.
        - now left. }
      assert (Hyx : le y x = true).
      { apply (sorted_head_le y r2 x S2). apply (same_classes_In (x :: r1) (y :: r2) F). now left. }
      assert (E : x = y).
      { pose proof (F x) as Fx. cbn [filter] in Fx. rewrite eqv_refl in Fx.
        unfold eqv at 2 in Fx. rewrite Hxy, Hyx in Fx. cbn [andb] in Fx. now injection Fx. }
      subst y. f_equal.
      inversion S1 as [|? ? S1r _]; subst. inversion S2 as [|? ? S2r _]; subst.
      apply IH; [exact S1r|exact S2r|].
      intro k. specialize (F k). cbn [filter] in F.
      destruct (eqv le k x); [now injection F|exact F].
  Qed.

  Lemma stable_sort_unique l l' :
    Permutation l l' -> sorted l' ->
    (forall k, filter (eqv le k) l' = filter (eqv le k) l) ->
    l' = stable_sort le l.
  Proof.
    intros _ S F. apply sorted_same_classes_eq; [exact S|apply stable_sort_sorted; assumption|].
    intro k. now rewrite stable_sort_stable.
  Qed.

  (* the same without the (redundant) permutation hypothesis *)
  Lemma stable_sort_unique_classes l l' :
    sorted l' -> (forall k, filter (eqv le k) l' = filter (eqv le k) l) -> l' = stable_sort le l.
  Proof.
    intros S F. apply sorted_same_classes_eq; [exact S|apply stable_sort_sorted; assumption|].
    intro k. now rewrite stable_sort_stable.
  Qed.

  (* ---- (c) descending = the ascending result reversed ---- *)
  (* equivalent elements appear in the REVERSE of their original relative order *)
  Lemma stable_sort_desc_order l k :
    filter (eqv le k) (rev (stable_sort le l)) = rev (filter (eqv le k) l).
  Proof. now rewrite filter_rev_comm, stable_sort_stable. Qed.

  Lemma stable_sort_desc_sorted l : sorted_desc (rev (stable_sort le l)).
  Proof.
    apply (StronglySorted_rev (fun a b => le b a = true)). cbn beta.
    apply stable_sort_sorted; assumption.
  Qed.

  Lemma stable_sort_desc_unique l l' :
    Permutation l l' -> sorted_desc l' ->
    (forall k, filter (eqv le k) l' = rev (filter (eqv le k) l)) ->
    l' = rev (stable_sort le l).
  Proof.
    intros _ S F. rewrite <- (rev_involutive l'). f_equal.
    apply stable_sort_unique_classes.
    - apply StronglySorted_rev. exact S.
    - intro k. now rewrite filter_rev_comm, F, rev_involutive.
  Qed.

  (* everything about the pair (ascending result, descending result) *)
  Definition stable_sorted_perm (v w : list A) : Prop :=
    sorted_perm le v w /\ forall k, filter (eqv le k) w = filter (eqv le k) v.
  Definition stable_sorted_perm_desc (v w : list A) : Prop :=
    Permutation v w /\ sorted_desc w /\ forall k, filter (eqv le k) w = rev (filter (eqv le k) v).

  Lemma stable_sort_stable_sorted_perm v : stable_sorted_perm v (stable_sort le v).
  Proof. split; [apply stable_sort_sorted_perm; assumption|apply stable_sort_stable]. Qed.

  Lemma stable_sort_stable_sorted_perm_desc v : stable_sorted_perm_desc v (rev (stable_sort le v)).
  Proof.
    split; [|split].
    - eapply perm_trans; [apply (stable_sort_perm le)|apply Permutation_rev].
    - apply stable_sort_desc_sorted.
    - apply stable_sort_desc_order.
  Qed.

  Lemma stable_sorted_perm_unique v w : stable_sorted_perm v w -> w = stable_sort le v.
  Proof. intros [[P S] F]. now apply stable_sort_unique. Qed.

  Lemma stable_sorted_perm_desc_unique v w : stable_sorted_perm_desc v w -> w = rev (stable_sort le v).
  Proof. intros (P & S & F). now apply stable_sort_desc_unique. Qed.
End SortStable.

(* ------------------------------------------------------------------ *)
(* the SORT instructions *)
Section SortInstr.
  Context {FO : FloatOps}.

  (* SORT*ASC replaces the top vector by a sorted rearrangement in which equivalent elements
     keep their order; SORT*DESC by a rearrangement sorted downwards in which equivalent
     elements have their order reversed (it is the reverse of the ascending result) *)
  Definition sorts_stably {A} (get : state -> list (list A)) (set : state -> list (list A) -> state)
             (le : A -> A -> bool) (asc desc : instr) : Prop :=
    forall s v r, get s = v :: r ->
      exists w, stable_sorted_perm le v w /\ stable_sorted_perm_desc le v (rev w) /\
                asc s = Ok (set s (w :: r)) /\ desc s = Ok (set s (rev w :: r)).

  (* and there is no other such rearrangement: the contract "sorted, rearranged, stable"
     (Rust's `sort_by`), resp. the same followed by `reverse`, determines the result *)
  Definition sort_result_unique {A} (get : state -> list (list A)) (set : state -> list (list A) -> state)
             (le : A -> A -> bool) (asc desc : instr) : Prop :=
    forall s v r, get s = v :: r ->
      (forall w, stable_sorted_perm le v w -> asc s = Ok (set s (w :: r))) /\
      (forall w, stable_sorted_perm_desc le v w -> desc s = Ok (set s (w :: r))).

  Lemma sort_instructions_stable :
    sorts_stably st_bvec set_bvec bool_le bvec_sort_asc bvec_sort_desc /\
    sorts_stably st_ivec set_ivec Z.leb ivec_sort_asc ivec_sort_desc /\
    ((forall a b, fle_nan_last a b = true \/ fle_nan_last b a = true) ->
     (forall a b c, fle_nan_last a b = true -> fle_nan_last b c = true -> fle_nan_last a c = true) ->
     sorts_stably st_fvec set_fvec fle_nan_last fvec_sort_asc fvec_sort_desc).
  Proof.
    split; [|split].
    - intros s v r H. exists (stable_sort bool_le v).
      split; [apply stable_sort_stable_sorted_perm; [apply bool_le_total|apply bool_le_trans]|].
      split; [apply stable_sort_stable_sorted_perm_desc; [apply bool_le_total|apply bool_le_trans]|].
      unfold bvec_sort_asc, bvec_sort_desc, vec_map_top. rewrite H. split; reflexivity.
    - intros s v r H. exists (stable_sort Z.leb v).
      split; [apply stable_sort_stable_sorted_perm; [apply zle_total|apply zle_trans]|].
      split; [apply stable_sort_stable_sorted_perm_desc; [apply zle_total|apply zle_trans]|].
      unfold ivec_sort_asc, ivec_sort_desc, vec_map_top. rewrite H. split; reflexivity.
    - intros Ht Htr s v r H. exists (stable_sort fle_nan_last v).
      split; [apply stable_sort_stable_sorted_perm; assumption|].
      split; [apply stable_sort_stable_sorted_perm_desc; assumption|].
      unfold fvec_sort_asc, fvec_sort_desc, vec_map_top. rewrite H. split; reflexivity.
  Qed.

  Lemma sort_instructions_unique :
    sort_result_unique st_bvec set_bvec bool_le bvec_sort_asc bvec_sort_desc /\
    sort_result_unique st_ivec set_ivec Z.leb ivec_sort_asc ivec_sort_desc /\
    ((forall a b, fle_nan_last a b = true \/ fle_nan_last b a = true) ->
     (forall a b c, fle_nan_last a b = true -> fle_nan_last b c = true -> fle_nan_last a c = true) ->
     sort_result_unique st_fvec set_fvec fle_nan_last fvec_sort_asc fvec_sort_desc).
  Proof.
    split; [|split].
    - intros s v r H. split; intros w Hw.
      + rewrite (stable_sorted_perm_unique bool_le bool_le_total bool_le_trans v w Hw).
        unfold bvec_sort_asc, vec_map_top. now rewrite H.
      + rewrite (stable_sorted_perm_desc_unique bool_le bool_le_total bool_le_trans v w Hw).
        unfold bvec_sort_desc, vec_map_top. now rewrite H.
    - intros s v r H. split; intros w Hw.
      + rewrite (stable_sorted_perm_unique Z.leb zle_total zle_trans v w Hw).
        unfold ivec_sort_asc, vec_map_top. now rewrite H.
      + rewrite (stable_sorted_perm_desc_unique Z.leb zle_total zle_trans v w Hw).
        unfold ivec_sort_desc, vec_map_top. now rewrite H.
    - intros Ht Htr s v r H. split; intros w Hw.
      + rewrite (stable_sorted_perm_unique fle_nan_last Ht Htr v w Hw).
        unfold fvec_sort_asc, vec_map_top. now rewrite H.
      + rewrite (stable_sorted_perm_desc_unique fle_nan_last Ht Htr v w Hw).
        unfold fvec_sort_desc, vec_map_top. now rewrite H.
  Qed.
End SortInstr.

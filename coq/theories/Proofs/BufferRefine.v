(* C17: the ring-buffer model (Model/Buffer.v) refines the bounded sequence of
   Spec/BufSpec.v.  Abstraction: the [ln] cells starting at [en], cyclically. *)
From Coq Require Import ZArith List Bool Lia ZifyBool.
From PushModel Require Import Base.Sx Base.Machine Base.ListOps Model.Buffer Spec.BufSpec Model.BufferMachine
  Suites.SBuffer.
Import ListNotations.
Open Scope Z_scope.

(* ---------------------------------------------------------------- machine *)
Lemma uadd_ok p a b : 0 <= a + b < two64 -> uadd p a b = Ok (a + b).
Proof. unfold uadd, two64. intros H. destruct (Z.ltb_spec (a + b) 18446744073709551616); [reflexivity|lia]. Qed.

Lemma usub_ok p a b : b <= a -> usub p a b = Ok (a - b).
Proof. unfold usub. intros H. destruct (Z.leb_spec b a); [reflexivity|lia]. Qed.

Lemma chk32_ok p r : min32 <= r <= max32 -> chk32 p r = Ok r.
Proof.
  unfold chk32, in_i32. intros H.
  destruct (Z.leb_spec min32 r); [|lia]. destruct (Z.leb_spec r max32); [reflexivity|lia].
Qed.

Lemma usize_as_i32_small u : 0 <= u <= max32 -> usize_as_i32 u = u.
Proof.
  intros H. unfold usize_as_i32. apply wrap32_id. unfold in_i32, min32, max32 in *.
  apply andb_true_intro; split; apply Z.leb_le; lia.
Qed.

Lemma i32_as_usize_nonneg i : 0 <= i -> i32_as_usize i = i.
Proof. unfold i32_as_usize. intros H. destruct (Z.ltb_spec i 0); [lia|reflexivity]. Qed.

Lemma urem_ok a c : c <> 0 -> urem a c = Ok (a mod c).
Proof. unfold urem. intros H. destruct (Z.eqb_spec c 0); [contradiction|reflexivity]. Qed.

(* ------------------------------------------------------------- arithmetic *)
Lemma mod_cases x c : 0 < c -> - c <= x < 2 * c ->
  x mod c = if x <? 0 then x + c else if x <? c then x else x - c.
Proof.
  intros Hc Hx.
  destruct (Z.ltb_spec x 0).
  - symmetry. apply (Zmod_unique x c (-1)); lia.
  - destruct (Z.ltb_spec x c).
    + apply Z.mod_small; lia.
    + symmetry. apply (Zmod_unique x c 1); lia.
Qed.

(* two cells of a window shorter than the ring are distinct *)
Lemma mod_apart e j l c : 0 < c -> 0 <= j < l -> l - j < c -> (e + j) mod c <> (e + l) mod c.
Proof.
  intros Hc Hj Hl E.
  pose proof (Z.div_mod (e + j) c ltac:(lia)) as D1.
  pose proof (Z.div_mod (e + l) c ltac:(lia)) as D2.
  rewrite E in D1.
  assert (D : l - j = c * ((e + l) / c - (e + j) / c)) by lia.
  assert (0 < (e + l) / c - (e + j) / c) by nia.
  nia.
Qed.

(* ------------------------------------------------------------------ lists *)
Section Lists.
  Context {A : Type}.

  Lemma nth_upd_same (c : list A) k a d : (k < length c)%nat -> nth k (upd c k a) d = a.
  Proof. revert k; induction c as [|x r IH]; intros [|k] H; simpl in *; try lia; auto. apply IH; lia. Qed.

  Lemma nth_upd_other (c : list A) k k' a d : k <> k' -> nth k' (upd c k a) d = nth k' c d.
  Proof.
    revert k k'; induction c as [|x r IH]; intros [|k] [|k'] H; simpl; auto; try congruence.
  Qed.

  Lemma hd_error_nth (l : list A) : hd_error l = nth_error l 0.
  Proof. destruct l; reflexivity. Qed.

  Lemma skipn_cons_nth (l : list A) i x : nth_error l i = Some x -> skipn i l = x :: skipn (S i) l.
  Proof.
    revert i; induction l as [|y r IH]; intros [|i] H; simpl in *; try discriminate.
    - now inversion H.
    - apply IH in H. destruct r; [destruct i; discriminate|exact H].
  Qed.
End Lists.

Section BufferRefine.
  Context {A : Type}.
  Variable default : A.

  Notation buf := (buf A).

  (* ------------------------------------------------------------ abstraction *)
  Definition cell (c : list A) (k : Z) : A := nth (Z.to_nat k) c default.

  (* [n] cells starting at [from], cyclically in a ring of [cp] cells *)
  Definition ring (c : list A) (cp from : Z) (n : nat) : list A :=
    map (fun j => cell c ((from + Z.of_nat j) mod cp)) (seq 0 n).

  (* the live items, oldest first *)
  Definition babs (b : buf) : list A := ring (cont b) (cap b) (en b) (Z.to_nat (ln b)).

  Definition Inv (b : buf) : Prop :=
    1 <= cap b /\ clen (cont b) = cap b /\ 0 <= en b < cap b /\ 0 <= ln b <= cap b /\
    st b = (en b + ln b) mod cap b.

  (* capacities for which the `as i32` casts of get_index / to_string are exact:
     the Queue branch casts end + i (< 2 * capacity), the Stack branch and
     to_string cast start, i + 1 and capacity *)
  Definition cap_ok (k : kind) (c : Z) : Prop :=
    match k with Queue => c <= 1073741824 | Stack => c <= 2147483647 end.

  Lemma cap_ok_max32 k c : cap_ok k c -> c <= max32.
  Proof. unfold max32. destruct k; cbn [cap_ok]; lia. Qed.

  (* ------------------------------------------------------------------ cells *)
  Lemma cidx_cell c k : 0 <= k < clen c -> cidx c k = Ok (cell c k).
  Proof.
    unfold cidx, cell, clen. intros H.
    destruct (Z.leb_spec 0 k); [|lia]. destruct (Z.ltb_spec k (Z.of_nat (length c))); [|lia].
    cbn [andb]. rewrite (nth_error_nth' c default) by lia. reflexivity.
  Qed.

  Lemma cget_cell c k : 0 <= k < clen c -> cget c k = Some (cell c k).
  Proof.
    unfold cget, cell, clen. intros H.
    destruct (Z.leb_spec 0 k); [|lia]. destruct (Z.ltb_spec k (Z.of_nat (length c))); [|lia].
    cbn [andb]. apply nth_error_nth'. lia.
  Qed.

  Lemma cset_upd (c : list A) k (a : A) : 0 <= k < clen c -> cset c k a = Ok (upd c (Z.to_nat k) a).
  Proof.
    unfold cset, clen. intros H.
    destruct (Z.leb_spec 0 k); [|lia]. destruct (Z.ltb_spec k (Z.of_nat (length c))); [|lia].
    reflexivity.
  Qed.

  Lemma clen_upd (c : list A) k a : clen (upd c k a) = clen c.
  Proof. unfold clen. now rewrite upd_length. Qed.

  Lemma clen_fresh c : 0 <= c -> clen (fresh default c) = c.
  Proof. intros H. unfold clen, fresh. rewrite repeat_length. lia. Qed.

  Lemma cell_upd_same (c : list A) k (a : A) : 0 <= k < clen c -> cell (upd c (Z.to_nat k) a) k = a.
  Proof. unfold cell, clen. intros H. apply nth_upd_same. lia. Qed.

  Lemma cell_upd_other (c : list A) k k' (a : A) : 0 <= k -> 0 <= k' -> k <> k' -> cell (upd c (Z.to_nat k) a) k' = cell c k'.
  Proof. unfold cell. intros H1 H2 H. apply nth_upd_other. lia. Qed.

  (* ------------------------------------------------------------------- ring *)
  Lemma ring_length c cp from n : length (ring c cp from n) = n.
  Proof. unfold ring. now rewrite map_length, seq_length. Qed.

  Lemma ring_nth c cp from n j :
    (j < n)%nat -> nth_error (ring c cp from n) j = Some (cell c ((from + Z.of_nat j) mod cp)).
  Proof.
    intros H. unfold ring.
    rewrite (map_nth_error _ j (seq 0 n) (d := j)); [reflexivity|].
    rewrite (nth_error_nth' _ 0%nat) by (rewrite seq_length; lia).
    rewrite seq_nth by lia. reflexivity.
  Qed.

  Lemma ring_S_front c cp from n :
    ring c cp from (S n) = cell c (from mod cp) :: ring c cp ((from + 1) mod cp) n.
  Proof.
    unfold ring. cbn [seq map]. rewrite <- seq_shift, map_map.
    f_equal; [f_equal; f_equal; lia|].
    apply map_ext. intros j. f_equal. rewrite Zplus_mod_idemp_l. f_equal. lia.
  Qed.

  Lemma ring_S_back c cp from n :
    ring c cp from (S n) = ring c cp from n ++ [cell c ((from + Z.of_nat n) mod cp)].
  Proof. unfold ring. rewrite seq_S, map_app. reflexivity. Qed.

  Lemma ring_upd_other c cp from n k a :
    0 < cp -> 0 <= k ->
    (forall j, (j < n)%nat -> (from + Z.of_nat j) mod cp <> k) ->
    ring (upd c (Z.to_nat k) a) cp from n = ring c cp from n.
  Proof.
    intros Hc Hk H. unfold ring. apply map_ext_in. intros j Hj. apply in_seq in Hj.
    apply cell_upd_other; [assumption| |].
    - apply Z.mod_pos_bound; lia.
    - intro E. apply (H j); [lia|]. now symmetry.
  Qed.

  (* --------------------------------------------------- reading the abstraction *)
  Lemma babs_len b : 0 <= ln b -> blen (babs b) = ln b.
  Proof. intros H. unfold blen, babs. rewrite ring_length. lia. Qed.

  Lemma babs_empty b : ln b = 0 -> babs b = [].
  Proof. intros H. unfold babs. rewrite H. reflexivity. Qed.

  Lemma babs_nth b j : 0 <= j < ln b ->
    nth_error (babs b) (Z.to_nat j) = Some (cell (cont b) ((en b + j) mod cap b)).
  Proof.
    intros H. unfold babs. rewrite ring_nth by lia. do 3 f_equal. lia.
  Qed.

  Lemma babs_rev_nth b j : 0 <= j < ln b ->
    nth_error (rev (babs b)) (Z.to_nat j) = Some (cell (cont b) ((en b + (ln b - 1 - j)) mod cap b)).
  Proof.
    intros H. rewrite nth_error_rev by (unfold babs; rewrite ring_length; lia).
    unfold babs at 2. rewrite ring_length.
    replace (Z.to_nat (ln b) - S (Z.to_nat j))%nat with (Z.to_nat (ln b - 1 - j)) by lia.
    apply babs_nth. lia.
  Qed.

  (* ------------------------------------------------------- slots and cursors *)
  Lemma inv_st_range b : Inv b -> 0 <= st b < cap b.
  Proof. intros (Hc & _ & _ & _ & Hs). rewrite Hs. apply Z.mod_pos_bound. lia. Qed.

  Lemma st_back b x : Inv b -> 0 <= x <= cap b ->
    (en b + (ln b - x)) mod cap b = if st b - x <? 0 then st b - x + cap b else st b - x.
  Proof.
    intros I Hx. pose proof (inv_st_range b I) as R. destruct I as (Hc & _ & _ & _ & Hs).
    replace (en b + (ln b - x)) with (en b + ln b - x) by lia.
    rewrite <- Zminus_mod_idemp_l, <- Hs.
    rewrite mod_cases by lia.
    destruct (Z.ltb_spec (st b - x) 0); [reflexivity|].
    destruct (Z.ltb_spec (st b - x) (cap b)); [reflexivity|lia].
  Qed.

  Lemma back_slot_ok p b x : Inv b -> cap b <= max32 -> 0 <= x <= cap b ->
    back_slot p b x = Ok ((en b + (ln b - x)) mod cap b).
  Proof.
    intros I Hm Hx. pose proof (inv_st_range b I) as R. rewrite (st_back b x I Hx).
    unfold back_slot. rewrite !usize_as_i32_small by lia.
    unfold sub32, add32. unfold max32 in Hm.
    rewrite chk32_ok by (unfold min32, max32; lia). cbn [rbind].
    destruct (Z.ltb_spec (st b - x) 0).
    - rewrite chk32_ok by (unfold min32, max32; lia). cbn [rbind].
      rewrite i32_as_usize_nonneg by lia. reflexivity.
    - cbn [rbind]. rewrite i32_as_usize_nonneg by lia. reflexivity.
  Qed.

  Lemma slot_range b j : Inv b -> 0 <= (en b + j) mod cap b < clen (cont b).
  Proof. intros (Hc & Hl & _). rewrite Hl. apply Z.mod_pos_bound. lia. Qed.

  Lemma inc_cursor_ok p b c : Inv b -> cap b <= max32 -> 0 <= c < cap b ->
    inc_cursor p b c = Ok ((c + 1) mod cap b).
  Proof.
    intros (Hc & _) Hm Hr. unfold inc_cursor. unfold max32 in Hm.
    rewrite uadd_ok by (unfold two64; lia). cbn [rbind]. apply urem_ok. lia.
  Qed.

  (* the container slot of position i, as the buffer kind counts *)
  Definition slot_of (b : buf) (i : Z) : Z :=
    match knd b with
    | Queue => (en b + i) mod cap b
    | Stack => (en b + (ln b - 1 - i)) mod cap b
    end.

  Lemma get_index_ok p b i : Inv b -> cap_ok (knd b) (cap b) -> 0 <= i < two64 ->
    b_get_index p b i = Ok (if i <? ln b then Some (slot_of b i) else None).
  Proof.
    intros I Hk Hi. pose proof (cap_ok_max32 _ _ Hk) as Hm.
    pose proof I as (Hc & Hl & He & Hn & Hs).
    unfold b_get_index, b_size.
    destruct (Z.eqb_spec (ln b) 0) as [E|E].
    { destruct (Z.ltb_spec i (ln b)); [lia|reflexivity]. }
    rewrite usub_ok by lia. cbn [rbind].
    destruct (Z.ltb_spec (ln b - 1) i); destruct (Z.ltb_spec i (ln b)); try lia; [reflexivity|].
    unfold slot_of. destruct (knd b).
    - cbn [cap_ok] in Hk. unfold max32 in Hm.
      rewrite uadd_ok by (unfold two64; lia). rewrite usub_ok by lia. cbn [rbind].
      rewrite !usize_as_i32_small by (unfold max32; lia).
      rewrite mod_cases by lia.
      destruct (Z.ltb_spec (en b + i) 0); [lia|].
      destruct (Z.ltb_spec (cap b - 1) (en b + i)); destruct (Z.ltb_spec (en b + i) (cap b)); try lia.
      + unfold sub32. rewrite chk32_ok by (unfold min32, max32; lia). cbn [rbind].
        rewrite i32_as_usize_nonneg by lia. reflexivity.
      + cbn [rbind]. rewrite i32_as_usize_nonneg by lia. reflexivity.
    - unfold max32 in Hm. rewrite uadd_ok by (unfold two64; lia). cbn [rbind].
      rewrite back_slot_ok by (unfold max32; lia || assumption). cbn [rbind].
      do 3 f_equal. lia.
  Qed.

  Lemma get_ok p b i : Inv b -> cap_ok (knd b) (cap b) -> 0 <= i < two64 ->
    b_get p b i = Ok (bget (knd b) (babs b) i).
  Proof.
    intros I Hk Hi. pose proof I as (Hc & Hl & He & Hn & Hs).
    unfold b_get. rewrite get_index_ok by assumption. cbn [rbind].
    unfold bget. rewrite babs_len by lia.
    destruct (Z.ltb_spec i (ln b)); [|reflexivity].
    unfold slot_of. destruct (knd b).
    - rewrite cidx_cell by (apply slot_range; assumption). cbn [rbind].
      rewrite babs_nth by lia. reflexivity.
    - rewrite cidx_cell by (apply slot_range; assumption). cbn [rbind].
      rewrite babs_rev_nth by lia. reflexivity.
  Qed.

  (* -------------------------------------------------------------- observers *)
  Lemma en_mod b : Inv b -> (en b + 0) mod cap b = en b.
  Proof. intros (Hc & _ & He & _). rewrite Z.add_0_r. apply Z.mod_small. lia. Qed.

  Lemma oldest_is_hd b : Inv b -> ln b <> 0 -> hd_error (babs b) = Some (cell (cont b) (en b)).
  Proof.
    intros I H. pose proof I as (Hc & Hl & He & Hn & Hs).
    rewrite hd_error_nth. change 0%nat with (Z.to_nat 0).
    rewrite babs_nth by lia. now rewrite en_mod.
  Qed.

  Lemma newest_is_hd_rev b : Inv b -> ln b <> 0 ->
    hd_error (rev (babs b)) = Some (cell (cont b) ((en b + (ln b - 1)) mod cap b)).
  Proof.
    intros I H. pose proof I as (Hc & Hl & He & Hn & Hs).
    rewrite hd_error_nth. change 0%nat with (Z.to_nat 0).
    rewrite babs_rev_nth by lia. do 3 f_equal. lia.
  Qed.

  Lemma copy_oldest_ok b : Inv b -> b_copy_oldest b = Ok (hd_error (babs b)).
  Proof.
    intros I. pose proof I as (Hc & Hl & He & Hn & Hs).
    unfold b_copy_oldest, b_is_empty. destruct (Z.eqb_spec (ln b) 0) as [E|E]; cbn [negb].
    - now rewrite babs_empty.
    - rewrite cidx_cell by lia. cbn [rbind]. now rewrite oldest_is_hd.
  Qed.

  Lemma peek_oldest_ok b : Inv b -> b_peek_oldest b = hd_error (babs b).
  Proof.
    intros I. pose proof I as (Hc & Hl & He & Hn & Hs).
    unfold b_peek_oldest, b_is_empty. destruct (Z.eqb_spec (ln b) 0) as [E|E]; cbn [negb].
    - now rewrite babs_empty.
    - rewrite cget_cell by lia. now rewrite oldest_is_hd.
  Qed.

  Lemma peek_newest_ok p b : Inv b -> cap b <= max32 ->
    b_peek_newest p b = Ok (hd_error (rev (babs b))).
  Proof.
    intros I Hm. pose proof (inv_st_range b I) as R. pose proof I as (Hc & Hl & He & Hn & Hs).
    unfold b_peek_newest, b_is_empty. destruct (Z.eqb_spec (ln b) 0) as [E|E]; cbn [negb].
    - now rewrite babs_empty.
    - unfold max32 in Hm. rewrite uadd_ok by (unfold two64; lia). cbn [rbind].
      rewrite usub_ok by lia. cbn [rbind]. rewrite urem_ok by lia. cbn [rbind].
      rewrite newest_is_hd_rev by assumption.
      assert (Eq : (st b + cap b - 1) mod cap b = (en b + (ln b - 1)) mod cap b).
      { rewrite Hs. replace ((en b + ln b) mod cap b + cap b - 1) with ((en b + ln b) mod cap b + (cap b - 1)) by lia.
        rewrite Zplus_mod_idemp_l.
        replace (en b + ln b + (cap b - 1)) with (en b + (ln b - 1) + 1 * cap b) by lia.
        apply Z_mod_plus_full. }
      rewrite Eq. rewrite cget_cell by (apply slot_range; assumption). reflexivity.
  Qed.

  (* iteration yields exactly the window it starts in *)
  Lemma iter_loop_ok p b n : Inv b -> cap b <= max32 -> forall cur, 0 <= cur < cap b ->
    iter_loop p b n cur = Ok (ring (cont b) (cap b) cur n).
  Proof.
    intros I Hm. pose proof I as (Hc & Hl & He & Hn & Hs).
    induction n as [|n IH]; intros cur Hcur; [reflexivity|].
    cbn [iter_loop]. rewrite inc_cursor_ok by assumption. cbn [rbind].
    rewrite cget_cell by lia.
    rewrite IH by (apply Z.mod_pos_bound; lia). cbn [rbind].
    rewrite ring_S_front. rewrite (Z.mod_small cur) by lia. reflexivity.
  Qed.

  Lemma iter_ok p b : Inv b -> cap b <= max32 -> b_iter p b = Ok (babs b).
  Proof. intros I Hm. unfold b_iter, babs. apply iter_loop_ok; try assumption. apply I. Qed.

  (* printing walks down from the newest item *)
  Lemma to_string_loop_ok p b n : Inv b -> cap b <= max32 -> forall i, 0 <= i -> i + Z.of_nat n <= ln b ->
    to_string_loop p b n i = Ok (firstn n (skipn (Z.to_nat i) (rev (babs b)))).
  Proof.
    intros I Hm. pose proof I as (Hc & Hl & He & Hn & Hs).
    induction n as [|n IH]; intros i Hi Hb; [reflexivity|].
    cbn [to_string_loop]. unfold max32 in Hm.
    rewrite uadd_ok by (unfold two64; lia). cbn [rbind].
    rewrite back_slot_ok by (unfold max32; lia || assumption). cbn [rbind].
    rewrite cidx_cell by (apply slot_range; assumption). cbn [rbind].
    rewrite IH by lia. cbn [rbind].
    rewrite (skipn_cons_nth (rev (babs b)) (Z.to_nat i) (cell (cont b) ((en b + (ln b - (i + 1))) mod cap b))).
    - cbn [firstn]. replace (Z.to_nat (i + 1)) with (S (Z.to_nat i)) by lia. reflexivity.
    - rewrite babs_rev_nth by lia. do 3 f_equal. lia.
  Qed.

  Lemma to_string_ok p b : Inv b -> cap b <= max32 -> b_to_string p b = Ok (rev (babs b)).
  Proof.
    intros I Hm. pose proof I as (Hc & Hl & He & Hn & Hs).
    unfold b_to_string, b_size. rewrite to_string_loop_ok by (assumption || lia).
    cbn [Z.to_nat skipn]. f_equal. apply firstn_all2.
    rewrite rev_length. unfold babs. rewrite ring_length. lia.
  Qed.

  (* --------------------------------------------------------------- mutators *)
  Lemma inv_new k c : 1 <= c -> Inv (b_new default k c).
  Proof.
    intros H. unfold Inv, b_new. cbn [cap cont st en ln]. rewrite clen_fresh by lia.
    repeat split; try lia; try (rewrite Z.mod_small; lia).
  Qed.

  Lemma inv_flush b : Inv b -> Inv (b_flush default b).
  Proof.
    intros (Hc & _). unfold Inv, b_flush. cbn [cap cont st en ln]. rewrite clen_fresh by lia.
    repeat split; try lia; try (rewrite Z.mod_small; lia).
  Qed.

  (* writing the cell under the write cursor of a non-full buffer appends *)
  Lemma ring_write_end b a : Inv b -> ln b < cap b ->
    ring (upd (cont b) (Z.to_nat (st b)) a) (cap b) (en b) (S (Z.to_nat (ln b))) = babs b ++ [a].
  Proof.
    intros I Hf. pose proof (inv_st_range b I) as R. pose proof I as (Hc & Hl & He & Hn & Hs).
    rewrite ring_S_back. rewrite Z2Nat.id by lia. rewrite <- Hs.
    rewrite cell_upd_same by lia. f_equal.
    apply ring_upd_other; [lia|lia|].
    intros j Hj. rewrite Hs. apply mod_apart; lia.
  Qed.

  Lemma push_ok p b a : Inv b -> cap b <= max32 ->
    exists b', b_push p b a = Ok b' /\ Inv b' /\ cap b' = cap b /\ knd b' = knd b /\
               babs b' = (if ln b <? cap b then babs b ++ [a] else babs b).
  Proof.
    intros I Hm. pose proof (inv_st_range b I) as R. pose proof I as (Hc & Hl & He & Hn & Hs).
    unfold b_push, b_is_full. unfold max32 in Hm.
    destruct (Z.eqb_spec (ln b) (cap b)) as [E|E].
    - exists b. destruct (Z.ltb_spec (ln b) (cap b)); [lia|]. auto.
    - destruct (Z.ltb_spec (ln b) (cap b)); [|lia].
      rewrite cset_upd by lia. cbn [rbind]. rewrite uadd_ok by (unfold two64; lia). cbn [rbind].
      rewrite inc_cursor_ok by (unfold max32; lia || assumption). cbn [rbind].
      eexists. split; [reflexivity|]. split; [|split; [reflexivity|split; [reflexivity|]]].
      + unfold Inv. cbn [cap cont st en ln]. rewrite clen_upd.
        repeat split; try lia. rewrite Hs, Zplus_mod_idemp_l. f_equal. lia.
      + unfold babs at 1. cbn [cap cont st en ln].
        replace (Z.to_nat (ln b + 1)) with (S (Z.to_nat (ln b))) by lia.
        apply ring_write_end; assumption.
  Qed.

  Lemma push_force_ok p b a : Inv b -> cap b <= max32 ->
    exists b', b_push_force p b a = Ok b' /\ Inv b' /\ cap b' = cap b /\ knd b' = knd b /\
               babs b' = (if ln b <? cap b then babs b ++ [a] else tl (babs b) ++ [a]).
  Proof.
    intros I Hm. pose proof (inv_st_range b I) as R. pose proof I as (Hc & Hl & He & Hn & Hs).
    unfold b_push_force, b_is_full. unfold max32 in Hm.
    rewrite cset_upd by lia. cbn [rbind].
    destruct (Z.eqb_spec (ln b) (cap b)) as [E|E].
    - destruct (Z.ltb_spec (ln b) (cap b)); [lia|].
      rewrite !inc_cursor_ok by (unfold max32; lia || assumption). cbn [rbind fst snd].
      eexists. split; [reflexivity|]. split; [|split; [reflexivity|split; [reflexivity|]]].
      + unfold Inv. cbn [cap cont st en ln]. rewrite clen_upd.
        repeat split; try lia; try (apply Z.mod_pos_bound; lia).
        rewrite Hs, !Zplus_mod_idemp_l. f_equal. lia.
      + unfold babs. cbn [cap cont st en ln].
        destruct (Z.to_nat (ln b)) as [|m] eqn:En; [lia|].
        rewrite (ring_S_front (cont b)). cbn [tl].
        rewrite ring_S_back.
        assert (Ew : ((en b + 1) mod cap b + Z.of_nat m) mod cap b = st b).
        { rewrite Zplus_mod_idemp_l, Hs. f_equal. lia. }
        rewrite Ew. rewrite cell_upd_same by lia. f_equal.
        apply ring_upd_other; [lia|lia|].
        intros j Hj. rewrite Zplus_mod_idemp_l, Hs.
        replace (en b + 1 + Z.of_nat j) with (en b + (1 + Z.of_nat j)) by lia.
        apply mod_apart; lia.
    - destruct (Z.ltb_spec (ln b) (cap b)); [|lia].
      rewrite uadd_ok by (unfold two64; lia). cbn [rbind fst snd].
      rewrite inc_cursor_ok by (unfold max32; lia || assumption). cbn [rbind].
      eexists. split; [reflexivity|]. split; [|split; [reflexivity|split; [reflexivity|]]].
      + unfold Inv. cbn [cap cont st en ln]. rewrite clen_upd.
        repeat split; try lia. rewrite Hs, Zplus_mod_idemp_l. f_equal. lia.
      + unfold babs at 1. cbn [cap cont st en ln].
        replace (Z.to_nat (ln b + 1)) with (S (Z.to_nat (ln b))) by lia.
        apply ring_write_end; assumption.
  Qed.

  Lemma take_cell_ok (c : list A) k : 0 <= k < clen c ->
    take_cell default c k = Ok (cell c k, upd c (Z.to_nat k) default).
  Proof. intros H. unfold take_cell. rewrite cget_cell, cset_upd by lia. reflexivity. Qed.

  Lemma pop_empty_ok p b : Inv b -> cap_ok (knd b) (cap b) -> ln b = 0 ->
    b_pop default p b = Ok (None, b).
  Proof.
    intros I Hk E. unfold b_pop. rewrite get_index_ok by (assumption || (unfold two64; lia)).
    rewrite E. reflexivity.
  Qed.

  Lemma pop_queue_ok p b : Inv b -> cap_ok (knd b) (cap b) -> knd b = Queue -> ln b <> 0 ->
    exists x b', b_pop default p b = Ok (Some x, b') /\ Inv b' /\ cap b' = cap b /\ knd b' = knd b /\
                 babs b = x :: babs b'.
  Proof.
    intros I Hk Kq E. pose proof (cap_ok_max32 _ _ Hk) as Hm.
    pose proof (inv_st_range b I) as R. pose proof I as (Hc & Hl & He & Hn & Hs).
    unfold b_pop. rewrite get_index_ok by (assumption || (unfold two64; lia)).
    destruct (Z.ltb_spec 0 (ln b)); [|lia]. cbn [rbind].
    unfold slot_of. rewrite Kq. rewrite en_mod by assumption.
    rewrite take_cell_ok by lia. cbn [rbind fst snd].
    rewrite usub_ok by lia. cbn [rbind].
    rewrite inc_cursor_ok by assumption. cbn [rbind].
    do 2 eexists. split; [reflexivity|]. split; [|split; [reflexivity|split; [reflexivity|]]].
    - unfold Inv. cbn [cap cont st en ln]. rewrite clen_upd.
      repeat split; try lia; try (apply Z.mod_pos_bound; lia).
      rewrite Hs, Zplus_mod_idemp_l. f_equal. lia.
    - unfold babs. cbn [cap cont st en ln].
      replace (Z.to_nat (ln b)) with (S (Z.to_nat (ln b - 1))) by lia.
      rewrite ring_S_front. rewrite (Z.mod_small (en b)) by lia. f_equal.
      symmetry. apply ring_upd_other; [lia|lia|].
      intros j Hj. rewrite Zplus_mod_idemp_l.
      replace (en b + 1 + Z.of_nat j) with (en b + (1 + Z.of_nat j)) by lia.
      rewrite <- (en_mod b I) at 2. intro X. symmetry in X. revert X. apply mod_apart; lia.
  Qed.

  Lemma pop_stack_ok p b : Inv b -> cap_ok (knd b) (cap b) -> knd b = Stack -> ln b <> 0 ->
    exists x b', b_pop default p b = Ok (Some x, b') /\ Inv b' /\ cap b' = cap b /\ knd b' = knd b /\
                 babs b = babs b' ++ [x].
  Proof.
    intros I Hk Ks E. pose proof (cap_ok_max32 _ _ Hk) as Hm.
    pose proof (inv_st_range b I) as R. pose proof I as (Hc & Hl & He & Hn & Hs).
    unfold b_pop. rewrite get_index_ok by (assumption || (unfold two64; lia)).
    destruct (Z.ltb_spec 0 (ln b)); [|lia]. cbn [rbind].
    unfold slot_of. rewrite Ks. rewrite Z.sub_0_r.
    pose proof (slot_range b (ln b - 1) I) as Sr.
    rewrite take_cell_ok by assumption. cbn [rbind fst snd].
    rewrite usub_ok by lia. cbn [rbind].
    do 2 eexists. split; [reflexivity|]. split; [|split; [reflexivity|split; [reflexivity|]]].
    - unfold Inv. cbn [cap cont st en ln]. rewrite clen_upd.
      repeat split; try lia.
    - unfold babs. cbn [cap cont st en ln].
      replace (Z.to_nat (ln b)) with (S (Z.to_nat (ln b - 1))) by lia.
      rewrite ring_S_back. rewrite Z2Nat.id by lia. f_equal.
      symmetry. apply ring_upd_other; [lia|lia|].
      intros j Hj. apply mod_apart; lia.
  Qed.

  (* ------------------------------------------------------------- simulation *)
  (* one operation: returns normally, with the spec's output, into a state that
     satisfies the invariant and abstracts to the spec's next state *)
  Lemma bstep_refines p b o :
    Inv b -> cap_ok (knd b) (cap b) -> bop_wf o ->
    exists b', bimpl_step default p b o = Ok (b', snd (bspec_step (knd b) (cap b) (babs b) o)) /\
               Inv b' /\ cap b' = cap b /\ knd b' = knd b /\
               babs b' = fst (bspec_step (knd b) (cap b) (babs b) o).
  Proof.
    intros I Hk Hw. pose proof (cap_ok_max32 _ _ Hk) as Hm.
    pose proof I as (Hc & Hl & He & Hn & Hs).
    pose proof (babs_len b ltac:(lia)) as BL.
    destruct o; cbn [bimpl_step bspec_step fst snd bop_wf] in *.
    - (* capacity *) exists b. auto.
    - (* size *) exists b. rewrite BL. auto.
    - (* to_string *) exists b. rewrite to_string_ok by assumption. auto.
    - (* copy *) exists b. unfold b_copy. rewrite get_ok by assumption. auto.
    - (* copy_oldest *) exists b. rewrite copy_oldest_ok by assumption. auto.
    - (* flush *) exists (b_flush default b). repeat split; try apply inv_flush; auto.
    - (* get *) exists b. rewrite get_ok by assumption. auto.
    - (* push *)
      destruct (push_ok p b a I Hm) as (b' & E & I' & C' & K' & Ab).
      exists b'. rewrite E, BL. cbn [rbind]. auto.
    - (* push_force *)
      destruct (push_force_ok p b a I Hm) as (b' & E & I' & C' & K' & Ab).
      exists b'. rewrite E, BL. cbn [rbind]. auto.
    - (* pop *)
      destruct (Z.eq_dec (ln b) 0) as [E0|E0].
      + exists b. rewrite pop_empty_ok by assumption. cbn [rbind fst snd].
        rewrite (babs_empty b E0). destruct (knd b); cbn [rev fst snd]; auto.
      + assert (Kc : knd b = Queue \/ knd b = Stack) by (destruct (knd b); auto).
        destruct Kc as [Kd|Kd].
        * destruct (pop_queue_ok p b I Hk Kd E0) as (x & b' & E & I' & C' & K' & Ab).
          exists b'. rewrite E, Ab, Kd. cbn [rbind fst snd].
          split; [reflexivity|]. split; [exact I'|]. split; [exact C'|]. split; [congruence|reflexivity].
        * destruct (pop_stack_ok p b I Hk Kd E0) as (x & b' & E & I' & C' & K' & Ab).
          exists b'. rewrite E, Ab, Kd. cbn [rbind fst snd].
          rewrite rev_app_distr. cbn [rev app fst snd]. rewrite rev_involutive.
          split; [reflexivity|]. split; [exact I'|]. split; [exact C'|]. split; [congruence|reflexivity].
    - (* peek_oldest *) exists b. rewrite peek_oldest_ok by assumption. auto.
    - (* peek_newest *) exists b. rewrite peek_newest_ok by assumption. auto.
    - (* iter *) exists b. rewrite iter_ok by assumption. auto.
    - (* is_empty *) exists b. unfold b_is_empty. rewrite BL. auto.
    - (* is_full *) exists b. unfold b_is_full. rewrite BL. auto.
  Qed.

  Lemma buffer_inv_preserved_lemma p b o :
    Inv b -> cap_ok (knd b) (cap b) -> bop_wf o ->
    exists b' u, bimpl_step default p b o = Ok (b', u) /\ Inv b' /\ cap b' = cap b /\ knd b' = knd b /\
                 ln b' <= cap b'.
  Proof.
    intros I Hk Hw. destruct (bstep_refines p b o I Hk Hw) as (b' & E & I' & C' & K' & _).
    exists b'. eexists. split; [exact E|]. repeat split; try assumption; apply I'.
  Qed.

  (* any history, from any state satisfying the invariant *)
  Lemma brun_refines p ops : forall b,
    Inv b -> cap_ok (knd b) (cap b) -> Forall bop_wf ops ->
    exists b', bimpl_run default p b ops = Ok (b', snd (bspec_run (knd b) (cap b) (babs b) ops)) /\
               Inv b' /\ cap b' = cap b /\ knd b' = knd b /\
               babs b' = fst (bspec_run (knd b) (cap b) (babs b) ops).
  Proof.
    induction ops as [|o r IH]; intros b I Hk Hw.
    - exists b. cbn [bimpl_run bspec_run fst snd]. auto.
    - inversion Hw as [|? ? Hwo Hwr]; subst.
      destruct (bstep_refines p b o I Hk Hwo) as (b1 & E1 & I1 & C1 & K1 & A1).
      cbn [bimpl_run bspec_run]. rewrite E1. cbn [rbind fst snd].
      destruct (bspec_step (knd b) (cap b) (babs b) o) as [t1 u1] eqn:Es. cbn [fst snd] in *.
      assert (Hk1 : cap_ok (knd b1) (cap b1)) by (rewrite C1, K1; exact Hk).
      destruct (IH b1 I1 Hk1 Hwr) as (b2 & E2 & I2 & C2 & K2 & A2).
      rewrite C1, K1, A1 in E2, A2.
      rewrite E2. cbn [rbind fst snd].
      destruct (bspec_run (knd b) (cap b) t1 r) as [t2 us] eqn:Er. cbn [fst snd] in *.
      exists b2. split; [reflexivity|]. split; [exact I2|]. split; [congruence|]. split; [congruence|exact A2].
  Qed.

  Lemma babs_new k c : babs (b_new default k c) = [].
  Proof. reflexivity. Qed.

  (* the refinement theorem: every history from a fresh buffer *)
  Lemma buffer_refines_bounded_seq_lemma p k c ops :
    1 <= c -> cap_ok k c -> Forall bop_wf ops ->
    exists b', bimpl_run default p (b_new default k c) ops = Ok (b', snd (bspec_run k c [] ops)) /\
               Inv b' /\ babs b' = fst (bspec_run k c [] ops) /\
               b_size b' = blen (babs b') /\ b_size b' <= c.
  Proof.
    intros Hc Hk Hw.
    destruct (brun_refines p ops (b_new default k c) (inv_new k c Hc) Hk Hw) as (b' & E & I' & C' & K' & A').
    cbn [cap knd b_new] in *. rewrite babs_new in *.
    exists b'. repeat split; try assumption; try apply I'.
    - unfold b_size. symmetry. apply babs_len. apply I'.
    - unfold b_size. rewrite <- C'. apply I'.
  Qed.

End BufferRefine.

(* ------------------------------------------------------------- wire suite *)
Lemma bop_wf_b_sound : forall ops : list (bop Z), forallb bop_wf_b ops = true -> Forall bop_wf ops.
Proof.
  induction ops as [|o r IH]; intros H; [constructor|].
  cbn [forallb] in H. apply andb_prop in H as [H1 H2].
  constructor; [|apply IH; exact H2].
  destruct o; cbn [bop_wf bop_wf_b] in *; try exact I; lia.
Qed.

(* On every case inside the quantifier the suite's model result IS the
   specification's result (so "implementation = model" and "the predicate holds
   on the implementation's output" coincide there). *)
Lemma buffer_result_is_spec p k c ops :
  1 <= c -> cap_ok k c -> forallb bop_wf_b ops = true ->
  sx_res sx_buffer_payload (buffer_result p k c ops) = buffer_expected k c ops.
Proof.
  intros Hc Hk Hw. apply bop_wf_b_sound in Hw.
  destruct (brun_refines 0 p ops (b_new 0 k c) (inv_new 0 k c Hc) Hk Hw) as (b' & E & I' & C' & K' & A').
  cbn [cap knd b_new] in *. rewrite (babs_new 0) in *.
  unfold buffer_result, buffer_expected. rewrite E. cbn [rbind fst snd].
  rewrite (iter_ok 0); [|exact I'|rewrite C'; exact (cap_ok_max32 _ _ Hk)].
  cbn [rbind sx_res]. rewrite A'. reflexivity.
Qed.

(* C15: one-step growth, GRAPH.* (GRAPH.NODES, NODES*HISTORY multiply; PRINT, PRINT*DIFF push text). *)
From Coq Require Import ZArith String List Bool Lia ZifyBool.
From PushModel Require Import Base.Sx Base.Machine Base.ListOps Base.F32 Model.Item Model.GraphT Model.State
  Model.InstrBase Model.Registry Model.IGraph Model.RegistryGraph Model.Cost
  Proofs.CostBase Proofs.CostItem Proofs.CostVec Proofs.CostListIo Proofs.CostGraph Proofs.CostGrowth.
Import ListNotations.
Open Scope Z_scope.

Ltac graph_unfold H :=
  cbv beta iota zeta delta [
    graph_add graph_dup graph_node_add graph_node_state_switch graph_nodes graph_nodes_history graph_node_get_state
    graph_node_history graph_print graph_print_diff graph_stack_depth graph_node_set_state graph_edge_add graph_query
    graph_node_neighbors graph_node_predecessors graph_node_successors graph_edge_get_weight graph_edge_history_gen
    graph_edge_history graph_edge_set_weight set_top gs_push g_clone g_add_node_w counter_fetch_add
    ginstr_sem
    st_bool st_code st_exec st_float st_index st_int st_name st_bvec st_fvec st_ivec st_input st_output
    st_graph st_bind st_cfg st_quote st_send
    set_bool set_code set_exec set_float set_index set_int set_name set_bvec set_fvec set_ivec set_input
    set_output set_graph set_bind set_cfg set_quote set_send
    push_int push_bool push_float push_code push_exec push_name rbind pure purep fst snd] in H.

Ltac extra_hyps ::=
  repeat match goal with
         | E : gs_get ?l 0 = Some ?g |- _ =>
             pose proof (gs_get_le _ _ _ E);
             repeat match goal with
                    | |- context [gs_set_top l ?g'] => rewrite (gs_set_top_weight l g g' E)
                    end;
             clear E
         | E : gs_get ?l ?i = Some ?g |- _ => pose proof (gs_get_le _ _ _ E); clear E
         end.
Ltac pose_once H := let T := type of H in lazymatch goal with _ : T |- _ => fail | _ => pose proof H end.
Ltac extra_goal ::=
  repeat match goal with
         | |- context [wsum ?f (bq_push ?cap ?l ?x)] => pose_once (bq_push_le f cap l x)
         | |- context [gweight (g_add_node ?g ?id ?st)] => pose_once (gweight_add_node g id st)
         | |- context [gweight (g_set_state ?g ?id ?st)] => pose_once (gweight_set_state g id st)
         | |- context [gweight (g_add_edge ?g ?o ?d ?w)] => pose_once (gweight_add_edge g o d w)
         | |- context [gweight (g_set_weight ?g ?o ?d ?w)] => pose_once (gweight_set_weight g o d w)
         | |- context [gweight (switch_loop ?g ?ids ?sw ?on ?off)] => pose_once (gweight_switch_loop ids g sw on off)
         | |- context [g_neighbours ?g ?id ?sts] => pose_once (g_neighbours_le g id sts)
         | |- context [g_preds ?g ?id ?sts] => pose_once (g_preds_le g id sts)
         | |- context [g_succs ?g ?id ?sts] => pose_once (g_succs_le g id sts)
         end;
  change (gweight g_new) with 1 in *.

Section GraphGrowth.
  Context {FO : FloatOps}.

  Lemma graph_grows : table_grows tbl_graph.
  Proof.
    unfold table_grows, tbl_graph, all_ginstr. cbn [map ginstr_name].
    repeat (apply Forall_cons; [cbn [fst snd]; first [left; vm_compute; reflexivity | right; grow_with graph_unfold]|]).
    apply Forall_nil.
  Qed.
End GraphGrowth.

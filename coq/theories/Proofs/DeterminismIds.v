(* C14: graph node identifiers under concurrent creation.
   `Node::new` draws its id with `NODE_COUNTER.fetch_add(1, Relaxed)` (graph.rs:22):
   ONE atomic read-modify-write of the process-wide counter.  A schedule is the
   order in which the threads' fetch_add operations take effect on the counter
   (a total order exists for the RMW operations on one atomic object, whatever the
   memory ordering argument: that is the assumption this model makes about
   AtomicUsize).  [counter_fetch_add] is the transition used by GRAPH.NODE*ADD in
   Model/Graph.v. *)
From Coq Require Import ZArith List Bool Lia ZifyBool Sorted.
From PushModel Require Import Base.Sx Base.Machine Base.F32 Model.GraphT Model.Graph.
Import ListNotations.
Open Scope Z_scope.

Definition thread_id := nat.

(* the ids handed out along a schedule: (thread, id) in schedule order, and the counter afterwards *)
Fixpoint run_sched (c : Z) (sched : list thread_id) : list (thread_id * Z) * Z :=
  match sched with
  | [] => ([], c)
  | t :: r => let '(id, c') := counter_fetch_add c in
              let '(tr, cf) := run_sched c' r in ((t, id) :: tr, cf)
  end.

Definition ids_handed (c : Z) (sched : list thread_id) : list Z := map snd (fst (run_sched c sched)).
Definition ids_of_thread (t : thread_id) (c : Z) (sched : list thread_id) : list Z :=
  map snd (filter (fun e => Nat.eqb (fst e) t) (fst (run_sched c sched))).

Fixpoint zseq (c : Z) (n : nat) : list Z := match n with O => [] | S k => c :: zseq (c + 1) k end.

Lemma run_sched_spec sched : forall c, 0 <= c -> c + Z.of_nat (length sched) < two64 ->
  ids_handed c sched = zseq c (length sched) /\ snd (run_sched c sched) = c + Z.of_nat (length sched).
Proof.
  unfold ids_handed. induction sched as [|t r IH]; intros c H0 H; cbn [run_sched length zseq].
  - cbn. split; [reflexivity|lia].
  - unfold counter_fetch_add, wrap64u. cbn [length] in H.
    assert (E : (c + 1) mod two64 = c + 1) by (apply Z.mod_small; lia). rewrite E.
    destruct (IH (c + 1) ltac:(lia) ltac:(lia)) as [I1 I2].
    destruct (run_sched (c + 1) r) as [tr cf]. cbn [fst snd map] in *. split; [now rewrite I1|lia].
Qed.

Lemma zseq_bounds n : forall c x, In x (zseq c n) -> c <= x < c + Z.of_nat n.
Proof.
  induction n as [|n IH]; intros c x H; cbn [zseq] in H; [contradiction|].
  destruct H as [<-|H]; [lia|]. apply IH in H. lia.
Qed.
Lemma zseq_nodup n : forall c, NoDup (zseq c n).
Proof.
  induction n as [|n IH]; intros c; cbn [zseq]; constructor; [|apply IH].
  intros H. apply zseq_bounds in H. lia.
Qed.
Lemma zseq_sorted n : forall c, StronglySorted Z.lt (zseq c n).
Proof.
  induction n as [|n IH]; intros c; cbn [zseq]; constructor; [apply IH|].
  apply Forall_forall. intros x H. apply zseq_bounds in H. lia.
Qed.

(* a sub-list selected by a filter on the paired thread ids stays strictly increasing *)
Lemma filter_sorted (f : thread_id * Z -> bool) tr :
  StronglySorted Z.lt (map snd tr) -> StronglySorted Z.lt (map snd (filter f tr)).
Proof.
  induction tr as [|e r IH]; intros H; cbn [filter map] in *; [constructor|].
  apply StronglySorted_inv in H as [H1 H2].
  destruct (f e); cbn [map]; [|auto]. constructor; [auto|].
  apply Forall_forall. intros x Hx. rewrite Forall_forall in H2. apply H2.
  apply in_map_iff in Hx as (y & <- & Hy). apply filter_In in Hy as [Hy _]. apply in_map. exact Hy.
Qed.

Theorem node_ids_unique_lemma : forall (sched : list thread_id) (c : Z),
  0 <= c -> c + Z.of_nat (length sched) < two64 ->
  (* the ids are c, c+1, ... in schedule order *)
  ids_handed c sched = zseq c (length sched) /\
  (* pairwise distinct across ALL threads *)
  NoDup (ids_handed c sched) /\
  (* each thread sees its own ids strictly increasing *)
  (forall t, StronglySorted Z.lt (ids_of_thread t c sched)) /\
  (* no wrap: every id is a usize at or above the start value, and the counter did not wrap *)
  Forall (fun id => c <= id < two64) (ids_handed c sched) /\
  snd (run_sched c sched) = c + Z.of_nat (length sched).
Proof.
  intros sched c H0 H. destruct (run_sched_spec sched c H0 H) as [E1 E2].
  split; [exact E1|]. split; [rewrite E1; apply zseq_nodup|]. split; [|split; [|exact E2]].
  - intros t. unfold ids_of_thread. apply filter_sorted. fold (ids_handed c sched). rewrite E1. apply zseq_sorted.
  - rewrite E1. apply Forall_forall. intros x Hx. apply zseq_bounds in Hx. lia.
Qed.

(* the schedule really interleaves: every thread gets exactly as many ids as it has slots *)
Lemma ids_of_thread_length t sched : forall c,
  length (ids_of_thread t c sched) = length (filter (Nat.eqb t) sched).
Proof.
  unfold ids_of_thread. induction sched as [|u r IH]; intros c; cbn [run_sched filter]; [reflexivity|].
  unfold counter_fetch_add. specialize (IH (wrap64u (c + 1))).
  destruct (run_sched (wrap64u (c + 1)) r) as [tr cf]. cbn [fst filter] in *.
  rewrite (Nat.eqb_sym t u). destruct (Nat.eqb u t); cbn [map length]; now rewrite IH.
Qed.

(* The fields of [FloatIntExact] (C20, Proofs/TopoNbr.v) for the Flocq instance:
   integers below 2^24 and their sums, differences and squares are exact in
   binary32; sqrt is monotone; sqrt D <= R iff D <= R^2 for an integer radius
   R < 4096; [fle] is transitive.  Every field except [fie_sq_powf] holds for
   every oracle table; [fie_sq_powf] is about libm's powf, i.e. about the table. *)
From Coq Require Import ZArith List Bool Lia Lra Reals.
From Flocq Require Import IEEE754.BinarySingleNaN IEEE754.Binary IEEE754.Bits Core.
From PushModel Require Import Base.Sx Base.Machine Base.F32 Base.F32Flocq Proofs.FlocqFactsBase
  Spec.TopoSpec Model.Topology Proofs.TopoNbr.
Open Scope Z_scope.

Section Fields.
  Variable tab : list (Z * Z * Z).
  Let FO := flocq_ops tab.
  Existing Instance FO.

  Lemma flocq_fie_zero : f_of_usize 0 = f_zero.
  Proof. reflexivity. Qed.

  Lemma flocq_fie_sqrt_zero : fsqrt f_zero = f_zero.
  Proof. reflexivity. Qed.

  (* exact conversion of a natural number below 2^24 *)
  Lemma of_nat_exact x : 0 <= x < two24 ->
    Fin (fl_of_int x) /\ RV (fl_of_int x) = IZR x /\ Sgn (fl_of_int x) = false.
  Proof.
    unfold two24. intros H. destruct (fl_of_int_exact x ltac:(lia)) as (A & B & C).
    rewrite C. split; [exact A|]. split; [exact B|]. apply Z.ltb_ge. lia.
  Qed.

  Lemma abs_IZR_le z (b : Z) : Z.abs z <= b -> (Rabs (IZR z) <= IZR b)%R.
  Proof. intros H. rewrite <- abs_IZR. now apply IZR_le. Qed.

  Lemma flocq_fie_add x y : 0 <= x -> 0 <= y -> x + y < two24 ->
    fadd (f_of_usize x) (f_of_usize y) = f_of_usize (x + y).
  Proof.
    intros Hx Hy Hs. unfold FO. cbn [fadd f_of_usize flocq_ops]. unfold two24 in *.
    destruct (of_nat_exact x) as (Fx & Vx & Sx); [unfold two24; lia|].
    destruct (of_nat_exact y) as (Fy & Vy & Sy); [unfold two24; lia|].
    destruct (of_nat_exact (x + y)) as (Fs & Vs & Ss); [unfold two24; lia|].
    assert (E : rnd32 (RV (fl_of_int x) + RV (fl_of_int y)) = IZR (x + y)).
    { rewrite Vx, Vy, <- plus_IZR. apply rnd_int. lia. }
    destruct (fl_add_ok (fl_of_int x) (fl_of_int y) 16777216 Fx Fy) as (Fa & Va & Sa);
      [rewrite E; apply abs_IZR_le; lia|lia|].
    apply bits_eq; try assumption; [apply canon_fl_add|apply canon_fl_of_int|congruence|].
    rewrite Sa, Ss, Sx, Sy, Vx, Vy, <- plus_IZR.
    destruct (Rcompare_spec (IZR (x + y)) 0) as [C|C|C]; try reflexivity.
    apply lt_IZR in C. lia.
  Qed.

  (* the difference of two such integers is exact (and is -0 never: a - a = +0) *)
  Lemma sub_exact a b : 0 <= a < two24 -> 0 <= b < two24 ->
    let d := fl_sub (fl_of_int a) (fl_of_int b) in
    Fin d /\ RV d = IZR (a - b) /\ Sgn d = (a - b <? 0).
  Proof.
    intros Ha Hb. cbv zeta.
    destruct (of_nat_exact a Ha) as (Fa & Va & Sa). destruct (of_nat_exact b Hb) as (Fb & Vb & Sb).
    unfold two24 in *.
    assert (E : rnd32 (RV (fl_of_int a) - RV (fl_of_int b)) = IZR (a - b)).
    { rewrite Va, Vb, <- minus_IZR. apply rnd_int. lia. }
    destruct (fl_sub_ok (fl_of_int a) (fl_of_int b) 16777216 Fa Fb) as (Fd & Vd & Sd);
      [rewrite E; apply abs_IZR_le; lia|lia|].
    split; [exact Fd|]. split; [congruence|].
    rewrite Sd, Sa, Sb, Va, Vb, <- minus_IZR.
    destruct (Rcompare_spec (IZR (a - b)) 0) as [C|C|C].
    - apply lt_IZR in C. symmetry. apply Z.ltb_lt. exact C.
    - apply eq_IZR in C. rewrite C. reflexivity.
    - apply lt_IZR in C. symmetry. apply Z.ltb_ge. lia.
  Qed.

  Lemma flocq_fie_sq_mul a b : 0 <= a < two24 -> 0 <= b < two24 -> (a - b) * (a - b) < two24 ->
    fmul (fsub (f_of_usize a) (f_of_usize b)) (fsub (f_of_usize a) (f_of_usize b))
    = f_of_usize ((a - b) * (a - b)).
  Proof.
    intros Ha Hb Hq. unfold FO. cbn [fmul fsub f_of_usize flocq_ops].
    destruct (sub_exact a b Ha Hb) as (Fd & Vd & Sd). cbv zeta in Fd, Vd, Sd.
    set (d := fl_sub (fl_of_int a) (fl_of_int b)) in *.
    pose proof (Z.square_nonneg (a - b)) as Q0.
    destruct (of_nat_exact ((a - b) * (a - b))) as (Fq & Vq & Sq); [lia|].
    unfold two24 in *.
    assert (E : rnd32 (RV d * RV d) = IZR ((a - b) * (a - b))).
    { rewrite Vd, <- mult_IZR. apply rnd_int. lia. }
    destruct (fl_mul_ok d d 16777216 Fd Fd) as (Fm & Vm & Sm); [rewrite E; apply abs_IZR_le; lia|lia|].
    apply bits_eq; try assumption; [apply canon_fl_mul|apply canon_fl_of_int|congruence|].
    rewrite Sm, Sq. apply xorb_nilpotent.
  Qed.

  (* ---- sqrt ---- *)
  Lemma sqrt_of_nat x : 0 <= x < two24 ->
    Fin (fl_sqrt (fl_of_int x)) /\ RV (fl_sqrt (fl_of_int x)) = rnd32 (sqrt (IZR x)).
  Proof.
    intros Hx. destruct (of_nat_exact x Hx) as (Fx & Vx & Sx).
    destruct (fl_sqrt_ok (fl_of_int x) Fx Sx) as (A & B & _). rewrite Vx in B. auto.
  Qed.

  Lemma fle_fin a b : Fin a -> Fin b -> fle a b = true <-> (RV a <= RV b)%R.
  Proof.
    intros Fa Fb. unfold fle, FO. cbn [fcmp flocq_ops]. rewrite fl_le_iff.
    rewrite (XR_of_Fin a Fa), (XR_of_Fin b Fb). pose proof (Fin_not_nan a Fa). pose proof (Fin_not_nan b Fb). tauto.
  Qed.

  Lemma flocq_fie_sqrt_mono x y : 0 <= x -> x <= y -> y < two24 ->
    fle (fsqrt (f_of_usize x)) (fsqrt (f_of_usize y)) = true.
  Proof.
    intros Hx Hxy Hy. unfold FO at 2 3 4 5. cbn [fsqrt f_of_usize flocq_ops].
    destruct (sqrt_of_nat x ltac:(lia)) as [Fx Vx]. destruct (sqrt_of_nat y ltac:(lia)) as [Fy Vy].
    apply (fle_fin _ _ Fx Fy). rewrite Vx, Vy. apply rnd_le. apply sqrt_le_1_alt. apply IZR_le. exact Hxy.
  Qed.

  (* R + 2^-12 is a binary32 for an integer 0 <= R < 4096 *)
  Lemma fmt_step R : 0 <= R < 4096 -> fmt32 (IZR R + / 4096).
  Proof.
    intros H. apply generic_format_FLT. exists (Float radix2 (R * 4096 + 1) (-12)).
    - unfold F2R. cbn [Fnum Fexp]. change (bpow radix2 (-12)) with (/ 4096)%R.
      rewrite plus_IZR, mult_IZR. lra.
    - cbn [Fnum]. change (Z.abs (R * 4096 + 1) < 16777216). lia.
    - cbn [Fexp]. lia.
  Qed.

  (* the real-number core of [fie_sqrt_int] *)
  Lemma rnd_sqrt_le_int D R : 0 <= D -> 0 <= R < 4096 ->
    (rnd32 (sqrt (IZR D)) <= IZR R)%R <-> D <= R * R.
  Proof.
    intros HD HR. assert (FR : fmt32 (IZR R)) by (apply fmt_int; lia).
    assert (r0 : (0 <= IZR R <= 4095)%R) by (split; apply IZR_le; lia).
    assert (d0 : (0 <= IZR D)%R) by (apply IZR_le; lia).
    split.
    - intros H. destruct (Z_le_gt_dec D (R * R)) as [L|G]; [exact L|exfalso].
      assert (G' : (IZR R * IZR R + 1 <= IZR D)%R) by (rewrite <- mult_IZR, <- plus_IZR; apply IZR_le; lia).
      set (v := sqrt (IZR D)) in *.
      assert (vv : (v * v = IZR D)%R) by (apply sqrt_sqrt; exact d0).
      assert (v0 : (0 <= v)%R) by apply sqrt_pos.
      assert (vR : (IZR R < v)%R).
      { destruct (Rlt_le_dec (IZR R) v) as [L|L]; [exact L|exfalso].
        assert (v * v <= IZR R * IZR R)%R by (apply Rmult_le_compat; lra). lra. }
      set (g := (IZR R + / 4096)%R).
      pose proof (fmt_step R HR) as Fg. fold g in Fg.
      destruct (Rle_lt_dec g v) as [L|L].
      + assert (g <= rnd32 v)%R by (rewrite <- (rnd_id g Fg); apply rnd_le; exact L). unfold g in *. lra.
      + destruct (round_N_pt radix2 fexp32 (fun x => negb (Z.even x)) v) as [_ Hn].
        specialize (Hn g Fg).
        rewrite (Rabs_left1 (rnd32 v - v)) in Hn by lra.
        rewrite (Rabs_pos_eq (g - v)) in Hn by lra.
        assert (Hv : (v <= IZR R + / 8192)%R) by (unfold g in *; lra).
        assert (v * v <= (IZR R + / 8192) * (IZR R + / 8192))%R by (apply Rmult_le_compat; lra).
        lra.
    - intros H. rewrite <- (rnd_id (IZR R) FR). apply rnd_le.
      rewrite <- (sqrt_square (IZR R)) by lra. apply sqrt_le_1_alt. rewrite <- mult_IZR. apply IZR_le. exact H.
  Qed.

  Lemma flocq_fie_sqrt_int D R : 0 <= D < two24 -> 0 <= R < 4096 ->
    fle (fsqrt (f_of_usize D)) (f_of_usize R) = (D <=? R * R).
  Proof.
    intros HD HR. unfold FO at 2 3 4. cbn [fsqrt f_of_usize flocq_ops].
    destruct (sqrt_of_nat D HD) as [Fs Vs].
    destruct (of_nat_exact R) as (Fr & Vr & _); [unfold two24; lia|].
    pose proof (fle_fin _ _ Fs Fr) as E. rewrite Vs, Vr in E.
    pose proof (rnd_sqrt_le_int D R ltac:(lia) HR) as Q.
    destruct (fle (fl_sqrt (fl_of_int D)) (fl_of_int R)) eqn:L; destruct (D <=? R * R) eqn:C; try reflexivity.
    - apply Z.leb_gt in C. assert (D <= R * R) by (apply Q, E; reflexivity). lia.
    - apply Z.leb_le in C. assert (false = true) by (apply E, Q; exact C). discriminate.
  Qed.

  (* ---- order ---- *)
  Lemma flocq_fie_le_trans a b c : fle a b = true -> fle b c = true -> fle a c = true.
  Proof.
    unfold fle, FO. cbn [fcmp flocq_ops]. rewrite !fl_le_iff.
    intros (Na & Nb & H1) (_ & Nc & H2). split; [exact Na|]. split; [exact Nc|]. lra.
  Qed.

  Lemma flocq_fie_nonneg_guard r : fle f_zero r = true -> flt r f_zero = false.
  Proof.
    unfold fle, flt, FO. cbn [fcmp flocq_ops]. rewrite fl_le_iff. intros (N0 & Nr & H).
    destruct (match fl_cmp r f_zero with Some Lt => true | _ => false end) eqn:E; [|reflexivity].
    apply fl_lt_iff in E. destruct E as (_ & _ & E). lra.
  Qed.
End Fields.

(* ---- the libm field: a condition on the oracle table ----
   [fie_sq_powf] says libm's powf(d, 2.0) is d * d for every integer d with d^2 < 2^24.  That is
   a fact about the table (on the pinned toolchain it is even false for some d, DESIGN.md), so it
   is a hypothesis: a table that answers those (at most 8191) queries with the exact square. *)
Definition powf_sq_table (tab : list (Z * Z * Z)) : Prop :=
  forall d, d * d < two24 ->
    lookup3 tab FN_POWF (fl_of_int d * 4294967296 + f_two) = Some (fl_of_int (d * d)).

(* a - b as computed by the model is the conversion of the integer a - b *)
Lemma sub_is_of_int a b : 0 <= a < two24 -> 0 <= b < two24 -> (a - b) * (a - b) < two24 ->
  fl_sub (fl_of_int a) (fl_of_int b) = fl_of_int (a - b).
Proof.
  intros Ha Hb Hq. destruct (sub_exact a b Ha Hb) as (Fd & Vd & Sd). cbv zeta in Fd, Vd, Sd.
  unfold two24 in *.
  destruct (fl_of_int_exact (a - b) ltac:(lia)) as (F & V & S).
  apply bits_eq; try assumption; [apply canon_fl_sub|apply canon_fl_of_int|congruence|congruence].
Qed.

Lemma flocq_fie_sq_powf tab : powf_sq_table tab ->
  forall a b, 0 <= a < two24 -> 0 <= b < two24 -> (a - b) * (a - b) < two24 ->
  @libm2 (flocq_ops tab) FN_POWF (@fsub (flocq_ops tab) (@f_of_usize (flocq_ops tab) a) (@f_of_usize (flocq_ops tab) b)) f_two
  = Ok (@f_of_usize (flocq_ops tab) ((a - b) * (a - b))).
Proof.
  intros T a b Ha Hb Hq. unfold libm2. cbn [flibm fsub f_of_usize flocq_ops].
  rewrite (sub_is_of_int a b Ha Hb Hq), (T (a - b) Hq). reflexivity.
Qed.

Theorem flocq_FloatIntExact tab : powf_sq_table tab -> FloatIntExact (flocq_ops tab).
Proof.
  intros T. constructor.
  - apply flocq_fie_zero.
  - apply flocq_fie_add.
  - apply flocq_fie_sq_powf. exact T.
  - apply flocq_fie_sq_mul.
  - apply flocq_fie_sqrt_zero.
  - apply flocq_fie_sqrt_mono.
  - apply flocq_fie_sqrt_int.
  - apply flocq_fie_le_trans.
  - apply flocq_fie_nonneg_guard.
Qed.

(* ---- the Release profile never asks libm: every table ----
   [with_sq_powf FO] is FO with an oracle that answers powf(x, 2.0) by x * x.  It satisfies all of
   [FloatIntExact]; the Release computation (x * x in place of powf) does not consult the oracle, so
   it is the same computation under both interfaces; and the specification ([geo_nbrs], [within])
   does not mention the oracle at all. *)
Definition with_sq_powf (FO : FloatOps) : FloatOps := {|
  fadd := @fadd FO; fsub := @fsub FO; fmul := @fmul FO; fdiv := @fdiv FO; frem := @frem FO;
  fcmp := @fcmp FO; f_of_i32 := @f_of_i32 FO; f_to_i32 := @f_to_i32 FO;
  f_of_usize := @f_of_usize FO; f_to_usize := @f_to_usize FO;
  fsqrt := @fsqrt FO; fceil := @fceil FO; fround := @fround FO; fabs := @fabs FO; fneg := @fneg FO;
  f_is_nan := @f_is_nan FO; f_is_finite := @f_is_finite FO; ffmt := @ffmt FO; fparse := @fparse FO;
  flibm := fun fn key =>
    if (fn =? FN_POWF) && (key mod 4294967296 =? f_two)
    then Some (@fmul FO (key / 4294967296) (key / 4294967296))
    else @flibm FO fn key;
|}.

Theorem flocq_FloatIntExact_sq tab : FloatIntExact (with_sq_powf (flocq_ops tab)).
Proof.
  constructor.
  - exact (flocq_fie_zero tab).
  - exact (flocq_fie_add tab).
  - intros a b Ha Hb Hq. unfold libm2. cbn [flibm with_sq_powf].
    set (x := @fsub (with_sq_powf (flocq_ops tab)) _ _).
    assert (E1 : (x * 4294967296 + f_two) mod 4294967296 = f_two)
      by (rewrite Z.add_comm, Z.mod_add by lia; reflexivity).
    assert (E2 : (x * 4294967296 + f_two) / 4294967296 = x)
      by (rewrite Z.div_add_l by lia; change (f_two / 4294967296) with 0; lia).
    rewrite E1, E2, !Z.eqb_refl. cbn [andb]. unfold x.
    f_equal. exact (flocq_fie_sq_mul tab a b Ha Hb Hq).
  - exact (flocq_fie_sq_mul tab).
  - exact (flocq_fie_sqrt_zero tab).
  - exact (flocq_fie_sqrt_mono tab).
  - exact (flocq_fie_sqrt_int tab).
  - exact (flocq_fie_le_trans tab).
  - exact (flocq_fie_nonneg_guard tab).
Qed.

Section ReleaseSame.
  Variable FO : FloatOps.
  Let FO' := with_sq_powf FO.

  Lemma sqsum_release_same acc l1 l2 : @sqsum FO' Release acc l1 l2 = @sqsum FO Release acc l1 l2.
  Proof.
    revert acc l2. induction l1 as [|a r1 IH]; intros acc [|b r2]; try reflexivity.
    cbn [sqsum sq_term rbind]. apply IH.
  Qed.

  Lemma euclid_release_same l1 l2 : @euclidean_distance FO' Release l1 l2 = @euclidean_distance FO Release l1 l2.
  Proof. unfold euclidean_distance. rewrite sqsum_release_same. reflexivity. Qed.

  Lemma nbr_scan_release_same e nd c r k : forall i,
    @nbr_scan FO' Release e nd c r k i = @nbr_scan FO Release e nd c r k i.
  Proof.
    induction k as [|k IH]; intros i; [reflexivity|].
    cbn [nbr_scan]. rewrite IH.
    destruct (decompose_index i e nd) as [[di|]| |]; try reflexivity.
    cbn [rbind]. rewrite euclid_release_same. reflexivity.
  Qed.

  Lemma find_neighbors_release_same ntotal ndim index r :
    @find_neighbors FO' Release ntotal ndim index r = @find_neighbors FO Release ntotal ndim index r.
  Proof.
    unfold find_neighbors, find_neighbors_with.
    change (@nbr_guard FO' ntotal ndim index r) with (@nbr_guard FO ntotal ndim index r).
    destruct (nbr_guard ntotal ndim index r); [reflexivity|].
    destruct (decompose_index index (edge_length ntotal ndim) ndim) as [[c|]| |]; try reflexivity.
    cbn [rbind]. rewrite nbr_scan_release_same. reflexivity.
  Qed.
End ReleaseSame.

Theorem flocq_nbr_is_geometric_set_release tab ntotal ndim index r :
  1 <= ntotal <= 2147483648 -> 1 <= ndim -> 0 <= index < ntotal ->
  @flt (flocq_ops tab) r f_zero = false -> sizes_ok ntotal ndim ->
  @find_neighbors (flocq_ops tab) Release ntotal ndim index r
  = Ok (Some (@geo_nbrs (flocq_ops tab) ntotal ndim index r)).
Proof.
  intros Hn Hd Hi Hr Hs. rewrite <- find_neighbors_release_same.
  exact (@nbr_is_geometric_set_lemma _ (flocq_FloatIntExact_sq tab) Release ntotal ndim index r Hn Hd Hi Hr Hs).
Qed.

Theorem flocq_nbr_contains_centre_release tab ntotal ndim index r :
  1 <= ntotal <= 2147483648 -> 1 <= ndim -> 0 <= index < ntotal ->
  @fle (flocq_ops tab) f_zero r = true -> sizes_ok ntotal ndim ->
  exists l, @find_neighbors (flocq_ops tab) Release ntotal ndim index r = Ok (Some l) /\ In index l.
Proof.
  intros Hn Hd Hi Hr Hs.
  destruct (@nbr_contains_centre_lemma _ (flocq_FloatIntExact_sq tab) Release ntotal ndim index r Hn Hd Hi Hr Hs)
    as (l & H & I).
  rewrite find_neighbors_release_same in H. eauto.
Qed.

Theorem flocq_nbr_symmetric_release tab ntotal ndim i j r :
  1 <= ntotal <= 2147483648 -> 1 <= ndim -> 0 <= i < ntotal -> 0 <= j < ntotal ->
  @flt (flocq_ops tab) r f_zero = false -> sizes_ok ntotal ndim ->
  exists li lj, @find_neighbors (flocq_ops tab) Release ntotal ndim i r = Ok (Some li) /\
                @find_neighbors (flocq_ops tab) Release ntotal ndim j r = Ok (Some lj) /\
                (In j li <-> In i lj).
Proof.
  intros Hn Hd Hi Hj Hr Hs.
  destruct (@nbr_symmetric_lemma _ (flocq_FloatIntExact_sq tab) Release ntotal ndim i j r Hn Hd Hi Hj Hr Hs)
    as (li & lj & H1 & H2 & I).
  rewrite find_neighbors_release_same in H1, H2. eauto.
Qed.

(* the reading lemmas of [within] do not involve the profile or the oracle: every table *)
Theorem flocq_within_antitone tab D1 D2 r :
  0 <= D1 -> D1 <= D2 -> D2 < two24 ->
  @within (flocq_ops tab) D2 r = true -> @within (flocq_ops tab) D1 r = true.
Proof. exact (@within_antitone_lemma _ (flocq_FloatIntExact_sq tab) D1 D2 r). Qed.

Theorem flocq_within_integer_radius tab D R :
  0 <= D < two24 -> 0 <= R < 4096 ->
  @within (flocq_ops tab) D (@f_of_usize (flocq_ops tab) R) = (D <=? R * R).
Proof. exact (@within_integer_radius_lemma _ (flocq_FloatIntExact_sq tab) D R). Qed.

(* ---- [powf_sq_table] is satisfiable: the table of the 8191 exact squares ---- *)
Definition sq_entry (d : Z) : Z * Z * Z := (FN_POWF, fl_of_int d * 4294967296 + f_two, fl_of_int (d * d)).
Definition sq_table : list (Z * Z * Z) := map (fun n => sq_entry (Z.of_nat n - 4095)) (seq 0 (Z.to_nat 8191)).

Lemma lookup3_map (key val : Z -> Z) fn l d :
  In d l -> (forall d', In d' l -> key d' = key d -> val d' = val d) ->
  lookup3 (map (fun x => (fn, key x, val x)) l) fn (key d) = Some (val d).
Proof.
  induction l as [|x r IH]; intros I U; [destruct I|].
  cbn [map lookup3]. rewrite Z.eqb_refl. cbn [andb].
  destruct (key x =? key d) eqn:E.
  - apply Z.eqb_eq in E. rewrite (U x (or_introl eq_refl) E). reflexivity.
  - destruct I as [->|I]; [rewrite Z.eqb_refl in E; discriminate|].
    apply IH; [exact I|]. intros d' I'. apply U. now right.
Qed.

Lemma fl_of_int_inj_small d d' : Z.abs d < 16777216 -> Z.abs d' < 16777216 -> fl_of_int d' = fl_of_int d -> d' = d.
Proof.
  intros H H' E. destruct (fl_of_int_exact d H) as (_ & V & _). destruct (fl_of_int_exact d' H') as (_ & V' & _).
  rewrite E, V in V'. now apply eq_IZR.
Qed.

Theorem powf_sq_table_inhabited : powf_sq_table sq_table.
Proof.
  intros d Hd. unfold two24 in Hd. assert (B : -4095 <= d <= 4095) by nia.
  unfold sq_table. rewrite <- (map_map (fun n => Z.of_nat n - 4095) sq_entry).
  set (l := map (fun n => Z.of_nat n - 4095) (seq 0 (Z.to_nat 8191))).
  assert (L : forall x, In x l <-> -4095 <= x <= 4095).
  { intros x. unfold l. rewrite in_map_iff. split.
    - intros (n & <- & I). apply in_seq in I. lia.
    - intros Hx. exists (Z.to_nat (x + 4095)). split; [lia|]. apply in_seq. lia. }
  unfold sq_entry.
  apply (lookup3_map (fun x => fl_of_int x * 4294967296 + f_two) (fun x => fl_of_int (x * x)) FN_POWF l d).
  - apply L. exact B.
  - intros d' I E. apply L in I. assert (E' : fl_of_int d' = fl_of_int d) by lia.
    rewrite (fl_of_int_inj_small d d' ltac:(lia) ltac:(lia) E'). reflexivity.
Qed.

(* C01: the LIST and INPUT / OUTPUT families. *)
From Coq Require Import ZArith String List Bool Lia ZifyBool.
From PushModel Require Import Base.Sx Base.Machine Base.ListOps Base.F32 Model.Item Model.GraphT Model.State
  Model.InstrBase Model.ICode Model.Registry Model.IList Model.IIo Model.RegistryListIo
  Proofs.NoPanicBase Proofs.NoPanicItem Proofs.NoPanicTac.
Import ListNotations.
Open Scope Z_scope.

Lemma Forall_bq_push {A} (P : A -> Prop) cap l x : Forall P l -> P x -> Forall P (bq_push cap l x).
Proof. intros. unfold bq_push. destruct (_ <? _); auto using Forall_snoc. Qed.
#[export] Hint Resolve Forall_bq_push : wf.

Ltac unf_state :=
  cbv beta iota zeta delta [
    push_int push_bool push_float push_code push_exec push_name rbind
    set_bool set_code set_exec set_float set_index set_int set_name set_bvec set_fvec set_ivec set_input set_output
    set_graph set_bind set_cfg set_quote set_send
    st_bool st_code st_exec st_float st_index st_int st_name st_bvec st_fvec st_ivec st_input st_output
    st_graph st_bind st_cfg st_quote st_send].

Section ListIo.
  Context {FO : FloatOps}.

  Lemma wf_ival t n : wf_item t -> wf_z (ival t n).
  Proof.
    intros W. unfold ival. destruct (fst (find t pat_int 0 n)) as [[| |[]|]|] eqn:E; auto with wf.
    apply (find_wf pat_int n t W 0) in E. now apply wf_item_int_elim.
  Qed.

  Lemma take_id_wf sid s x s1 : wf_state s -> take_id sid s = Some (x, s1) -> wf_item x /\ wf_state s1.
  Proof.
    intros W.
    destruct s as [sbool scode sexec sfloat sindex sint sname sbvec sfvec sivec sinput soutput sgraph sbind scfg squote ssend].
    destruct W as [Wint Wivec Windex Wcode Wexec Wbind Winput Woutput Wgraphs Wcfg]. st_cbn_all.
    unfold take_id. unf_state.
    repeat match goal with |- context [if ?c then _ else _] => destruct c end;
      try discriminate;
      match goal with |- context [match ?l with _ => _ end] => destruct l end; try discriminate;
      (let Q := fresh "Q" in intros Q; inversion Q; subst; wf_hyps; (split; [auto with wf|constructor; st_cbn; auto with wf])).
  Qed.

  Lemma load_ids_wf ids : forall s xs s', wf_state s -> load_ids ids s = (xs, s') -> Forall wf_item xs /\ wf_state s'.
  Proof.
    induction ids as [|sid r IH]; intros s xs s' W; cbn [load_ids].
    - intros H; inversion H; subst. auto.
    - destruct (take_id sid s) as [[x s1]|] eqn:T.
      + destruct (take_id_wf _ _ _ _ W T) as [Wx W1].
        destruct (load_ids r s1) as [xs' s2] eqn:L. destruct (IH _ _ _ W1 L).
        intros Q; inversion Q; subst. auto.
      + apply IH; assumption.
  Qed.

  Lemma wf_mk_record items : Forall wf_item items -> wf_item (mk_record items).
  Proof. intros. unfold mk_record. auto with wf. Qed.

  Ltac unf_list :=
    cbv beta iota zeta delta [list_add list_remove list_get list_val list_bval list_ival list_fval list_set load_items
      record_pos input_available input_get input_next input_read input_stack_depth output_flush output_stack_depth
      output_write g_depth];
    unf_state.

  (* the items taken by load_items, and the state after, are wf *)
  Ltac open_state s W := destruct s; destruct W; st_cbn_all.

  Lemma list_add_safe : sem_safe0 (pure list_add).
  Proof.
    safe_intro unf_list.
    destruct sivec as [|ids r]; [wf_leaf|]. wf_hyps.
    match goal with |- context [load_ids ids ?s0] =>
      destruct (load_ids ids s0) as [items s2] eqn:L;
      assert (W0 : wf_state s0) by (constructor; st_cbn; assumption);
      destruct (load_ids_wf _ _ _ _ W0 L) as [Wi W2] end.
    clear L W0. open_state s2 W2. unf_state. pose proof (wf_mk_record items Wi). wf_leaf.
  Qed.

  Lemma list_set_safe : sem_safe0 (pure list_set).
  Proof.
    safe_intro unf_list.
    destruct sint as [|idx ir]; [wf_leaf|].
    destruct sivec as [|ids r]; [wf_leaf|]. wf_hyps.
    match goal with |- context [load_ids ids ?s0] =>
      destruct (load_ids ids s0) as [items s2] eqn:L;
      assert (W0 : wf_state s0) by (constructor; st_cbn; assumption);
      destruct (load_ids_wf _ _ _ _ W0 L) as [Wi W2] end.
    clear L W0. open_state s2 W2. unf_state. pose proof (wf_mk_record items Wi). wf_leaf.
  Qed.

  Hint Resolve list_add_safe list_set_safe : safe_special.
  Hint Resolve wf_ival : wf.

  Lemma list_safe : table_safe tbl_list.
  Proof. unfold table_safe, tbl_list. table_walk unf_list. Qed.
  Lemma io_safe : table_safe tbl_io.
  Proof. unfold table_safe, tbl_io. table_walk unf_list. Qed.
End ListIo.

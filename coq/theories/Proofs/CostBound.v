(* C15: the counted cost of every instruction outside [ByOperand] is bounded by the state:
   linear, n log n (the six sorts) or quadratic (nested code helpers, graph scans). *)
From Coq Require Import ZArith String List Bool Lia ZifyBool.
From PushModel Require Import Base.Sx Base.Machine Base.ListOps Base.F32 Model.Item Model.GraphT Model.State
  Model.InstrBase Model.Cost Proofs.CostBase.
Import ListNotations.
Open Scope Z_scope.

Definition lin_ok (c : state -> Z) : Prop := forall s, c s <= 4 * weight s + 64.
(* ... plus the configured limit (only CODE.RAND uses it) *)
Definition linl_ok (c : state -> Z) : Prop := forall s, c s <= 4 * weight s + 64 + limits s.
Lemma limits_nn s : 0 <= limits s.
Proof. unfold limits. lia. Qed.
Lemma lin_linl c : lin_ok c -> linl_ok c.
Proof. intros H s. specialize (H s). pose proof (limits_nn s). lia. Qed.
Lemma linl_code_rand : linl_ok c_code_rand.
Proof.
  intro s. unfold c_code_rand, limits. pose proof (weight_nn s). destruct (st_int s) as [|n r]; lia.
Qed.
Definition nlogn_ok (c : state -> Z) : Prop := forall s, c s <= weight s * (Z.log2 (weight s) + 2) + 64.
Definition quad_ok (c : state -> Z) : Prop := forall s, c s <= weight s * weight s + 4 * weight s + 64.

Lemma top_w_le {A} (f : A -> Z) (fnn : forall x, 0 <= f x) k l : top_w f k l <= wsum f l.
Proof. apply wsum_firstn_le, fnn. Qed.

Lemma tops_le s : tops s <= weight s.
Proof.
  unfold tops, weight. pose proof (weight_parts_nn s).
  pose proof (top_w_le cnt cnt_nn 4 (st_bool s)). pose proof (top_w_le iweight iweight_nn 4 (st_code s)).
  pose proof (top_w_le iweight iweight_nn 4 (st_exec s)). pose proof (top_w_le cnt cnt_nn 4 (st_float s)).
  pose proof (top_w_le idxw idxw_nn 4 (st_index s)). pose proof (top_w_le cnt cnt_nn 4 (st_int s)).
  pose proof (top_w_le vw vw_nn 4 (st_name s)). pose proof (top_w_le vw vw_nn 4 (st_bvec s)).
  pose proof (top_w_le vw vw_nn 4 (st_fvec s)). pose proof (top_w_le vw vw_nn 4 (st_ivec s)).
  pose proof (top_w_le msgw msgw_nn 1 (st_input s)). pose proof (top_w_le msgw msgw_nn 1 (st_output s)).
  lia.
Qed.
Lemma default_le s : default_cost s <= 2 * weight s + 16.
Proof. unfold default_cost. pose proof (tops_le s). lia. Qed.

Lemma lin_default : lin_ok default_cost.
Proof. intro s. pose proof (default_le s). pose proof (weight_nn s). lia. Qed.

(* components of the weight *)
Ltac parts s := pose proof (weight_parts_nn s); unfold weight in *; unfold str in *.

Lemma zlen_le_wsum {A} (f : A -> Z) (f1 : forall x, 1 <= f x) l : zlen l <= wsum f l.
Proof.
  induction l as [|x r IH]; rewrite ?zlen_cons', ?zlen_nil', ?wsum_cons, ?wsum_nil; [lia|]. specialize (f1 x). lia.
Qed.

Lemma lin_from_int : lin_ok c_from_int.
Proof.
  intro s. unfold c_from_int. parts s. destruct (st_int s) as [|n r]; [lia|].
  rewrite wsum_cons in *. rewrite (wsum_cnt r) in *. unfold cnt in *. pose proof (zlen_nn r). lia.
Qed.

(* ---- the lens family: one statement per stack ---- *)
Section LensBound.
  Context {A : Type}.
  Variable get : state -> list A.
  Variable f : A -> Z.
  Hypothesis f1 : forall x, 1 <= f x.
  Hypothesis Hget : forall s, wsum f (get s) <= weight s.
  Hypothesis Hset : forall s idx r, st_int s = idx :: r -> wsum f (get (set_int s r)) <= weight s.

  Lemma fnn_of_f1 : forall x, 0 <= f x.
  Proof. intro x. specialize (f1 x). lia. Qed.

  Lemma lin_yank : lin_ok (c_yank get).
  Proof.
    intro s. unfold c_yank. pose proof (weight_nn s). destruct (st_int s) as [|idx r] eqn:E; [lia|].
    pose proof (clamp_idx_le idx (len32 (get (set_int s r)))). pose proof (len32_le (get (set_int s r))).
    pose proof (zlen_le_wsum f f1 (get (set_int s r))). pose proof (Hset s idx r E). lia.
  Qed.
  Lemma lin_yankdup : lin_ok (c_yankdup get f).
  Proof.
    intro s. unfold c_yankdup. pose proof (weight_nn s). destruct (st_int s) as [|idx r] eqn:E; [lia|].
    cbv zeta. destruct (l_copy _ _) as [x|] eqn:C; [|lia].
    pose proof (wsum_l_copy_le f fnn_of_f1 _ _ _ C). pose proof (Hset s idx r E). lia.
  Qed.
  Lemma lin_flush : lin_ok (c_flush get f).
  Proof. intro s. unfold c_flush. pose proof (weight_nn s). pose proof (Hget s). lia. Qed.

  Lemma lin_lens pre : Forall (fun e => lin_ok (snd e)) (lens_costs get f pre).
  Proof. unfold lens_costs. repeat constructor; cbn [snd]; auto using lin_yank, lin_yankdup, lin_flush. Qed.
End LensBound.

Ltac lens_side :=
  first [ intro x; first [apply iweight_pos|apply vw_pos|unfold cnt; lia|unfold idxw; lia]
        | let s := fresh "s" in intro s; parts s; lia
        | let s := fresh "s" in let E := fresh "E" in
          intros s ? ? E; parts s; destruct s as [xb xc xe xf xix xi xn xbv xfv xiv xinp xoutp xg xbd xcfg xq xsd]; cbn [set_int st_bool st_code st_exec st_float st_index st_int st_name
                                                     st_bvec st_fvec st_ivec st_input st_output st_graph st_bind] in *;
          subst; rewrite ?wsum_cons in *; pose_nn; unfold cnt in *; lia ].

Lemma lin_lens_bool pre : Forall (fun e => lin_ok (snd e)) (lens_costs st_bool cnt pre).
Proof. apply lin_lens; lens_side. Qed.
Lemma lin_lens_int pre : Forall (fun e => lin_ok (snd e)) (lens_costs st_int cnt pre).
Proof. apply lin_lens; lens_side. Qed.
Lemma lin_lens_float pre : Forall (fun e => lin_ok (snd e)) (lens_costs st_float cnt pre).
Proof. apply lin_lens; lens_side. Qed.
Lemma lin_lens_name pre : Forall (fun e => lin_ok (snd e)) (lens_costs st_name vw pre).
Proof. apply lin_lens; lens_side. Qed.
Lemma lin_lens_code pre : Forall (fun e => lin_ok (snd e)) (lens_costs st_code iweight pre).
Proof. apply lin_lens; lens_side. Qed.
Lemma lin_lens_exec pre : Forall (fun e => lin_ok (snd e)) (lens_costs st_exec iweight pre).
Proof. apply lin_lens; lens_side. Qed.
Lemma lin_lens_bvec pre : Forall (fun e => lin_ok (snd e)) (lens_costs st_bvec vw pre).
Proof. apply lin_lens; lens_side. Qed.
Lemma lin_lens_ivec pre : Forall (fun e => lin_ok (snd e)) (lens_costs st_ivec vw pre).
Proof. apply lin_lens; lens_side. Qed.
Lemma lin_lens_fvec pre : Forall (fun e => lin_ok (snd e)) (lens_costs st_fvec vw pre).
Proof. apply lin_lens; lens_side. Qed.

Lemma lin_flush_index : lin_ok (c_flush st_index idxw).
Proof. intro s. unfold c_flush. parts s. lia. Qed.
Lemma lin_flush_output : lin_ok (c_flush st_output msgw).
Proof. intro s. unfold c_flush. parts s. lia. Qed.

(* ---- sorting ---- *)
Lemma nlogn_mono n w : 0 <= n <= w -> n * (Z.log2 n + 2) <= w * (Z.log2 w + 2).
Proof.
  intros [H0 H1]. pose proof (Z.log2_le_mono n w H1). pose proof (Z.log2_nonneg n). nia.
Qed.
Lemma nlogn_sort {A} (get : state -> list (list A)) :
  (forall s, wsum vw (get s) <= weight s) -> nlogn_ok (c_sort get).
Proof.
  intros Hget s. unfold c_sort. pose proof (weight_nn s). pose proof (Z.log2_nonneg (weight s)).
  specialize (Hget s). destruct (get s) as [|v r]; [nia|].
  rewrite wsum_cons in Hget. pose proof (wsum_nonneg vw vw_nn r). unfold vw at 1 in Hget.
  pose proof (zlen_nn v). pose proof (nlogn_mono (zlen v) (weight s) ltac:(lia)). lia.
Qed.
Lemma nlogn_sort_bvec : nlogn_ok (c_sort st_bvec).
Proof. apply nlogn_sort. intro s. parts s. lia. Qed.
Lemma nlogn_sort_ivec : nlogn_ok (c_sort st_ivec).
Proof. apply nlogn_sort. intro s. parts s. lia. Qed.
Lemma nlogn_sort_fvec : nlogn_ok (c_sort st_fvec).
Proof. apply nlogn_sort. intro s. parts s. lia. Qed.

(* ---- nested helpers ---- *)
Lemma wsum_nest_le_sq l : wsum nest l <= wsum iweight l * wsum iweight l.
Proof. apply wsum_sq_le; [apply iweight_nn|]. intros x _. apply nest_le_sq. Qed.
Lemma top_nest_le k l : top_w nest k l <= wsum iweight l * wsum iweight l.
Proof.
  unfold top_w. pose proof (wsum_firstn_le nest nest_nn k l). pose proof (wsum_nest_le_sq l). lia.
Qed.
Lemma sq_mono a b : 0 <= a <= b -> a * a <= b * b.
Proof. nia. Qed.
Lemma quad_nest2 get : (forall s, wsum iweight (get s) <= weight s) -> quad_ok (c_nest2 get).
Proof.
  intros Hget s. unfold c_nest2. pose proof (weight_nn s). specialize (Hget s).
  pose proof (top_nest_le 2 (get s)). pose proof (wsum_nonneg iweight iweight_nn (get s)).
  pose proof (sq_mono (wsum iweight (get s)) (weight s) ltac:(lia)). lia.
Qed.
Lemma quad_nest2_code : quad_ok (c_nest2 st_code).
Proof. apply quad_nest2. intro s. parts s. lia. Qed.
Lemma quad_nest2_exec : quad_ok (c_nest2 st_exec).
Proof. apply quad_nest2. intro s. parts s. lia. Qed.
Lemma quad_subst : quad_ok c_subst.
Proof.
  intro s. unfold c_subst. pose proof (weight_nn s).
  assert (Hc : wsum iweight (st_code s) <= weight s) by (parts s; lia).
  destruct (st_code s) as [|t [|sb [|pt r]]]; try nia.
  rewrite !wsum_cons in Hc. pose proof (wsum_nonneg iweight iweight_nn r).
  pose proof (iweight_pos t). pose proof (iweight_pos sb). pose proof (iweight_pos pt). pose proof (nest_le_sq t).
  nia.
Qed.
Lemma quad_code_print : quad_ok (fun s => 2 + wsum nest (st_code s)).
Proof.
  intro s. pose proof (weight_nn s). assert (Hc : wsum iweight (st_code s) <= weight s) by (parts s; lia).
  pose proof (wsum_nest_le_sq (st_code s)). pose proof (wsum_nonneg iweight iweight_nn (st_code s)).
  pose proof (sq_mono (wsum iweight (st_code s)) (weight s) ltac:(lia)). lia.
Qed.

(* ---- the remaining explicit entries ---- *)
Lemma bind_get_le b n t : bind_get b n = Some t -> iweight t <= wsum bindw b.
Proof.
  induction b as [|[k v] r IH]; cbn [bind_get]; [discriminate|].
  rewrite wsum_cons. pose proof (wsum_nonneg bindw bindw_nn r). pose proof (bindw_nn (k, v)).
  destruct (str_eqb n k).
  - intro Hq; inversion Hq; subst. assert (bindw (k, t) = 1 + zlen k + iweight t) by reflexivity.
    pose proof (zlen_nn k). lia.
  - intro Hq. specialize (IH Hq). lia.
Qed.
Lemma lin_code_definition :
  lin_ok (fun s => default_cost s +
     match st_name s with n :: _ => match bind_get (st_bind s) n with Some t => iweight t | None => 0 end | [] => 0 end).
Proof.
  intro s. pose proof (default_le s). pose proof (weight_nn s).
  assert (wsum bindw (st_bind s) <= weight s) by (parts s; lia).
  destruct (st_name s) as [|n r]; [lia|]. destruct (bind_get _ _) as [t|] eqn:E; [|lia].
  pose proof (bind_get_le _ _ _ E). lia.
Qed.
Lemma lin_exec_cmd : lin_ok (fun s => 2 + wsum vw (st_name s)).
Proof. intro s. parts s. lia. Qed.
Lemma c_code_at_le idx code : 0 <= c_code_at idx code <= wsum iweight code.
Proof.
  unfold c_code_at. pose proof (wsum_nonneg iweight iweight_nn code).
  destruct (l_copy _ _) as [t|] eqn:E; [|lia].
  pose proof (wsum_l_copy_le iweight iweight_nn _ _ _ E). pose proof (iweight_nn t). lia.
Qed.
Lemma code_le_weight s : wsum iweight (st_code s) <= weight s.
Proof. parts s. lia. Qed.
Lemma graphs_le_weight s : 0 <= wsum gweight (st_graph s) <= weight s.
Proof. parts s. lia. Qed.
Lemma lin_list_get : lin_ok (fun s => match st_int s with idx :: _ => 2 + c_code_at idx (st_code s) | [] => 1 end).
Proof.
  intro s. pose proof (weight_nn s). pose proof (code_le_weight s). destruct (st_int s) as [|idx r]; [lia|].
  pose proof (c_code_at_le idx (st_code s)). lia.
Qed.
Lemma lin_list_remove : lin_ok (fun s => 2 + zlen (st_code s)).
Proof. intro s. pose proof (zlen_le_wsum iweight iweight_pos (st_code s)). parts s. lia. Qed.
Lemma lin_list_val :
  lin_ok (fun s => match st_int s with _ :: idx :: _ => 2 + 2 * c_code_at idx (st_code s) | _ => 1 end).
Proof.
  intro s. pose proof (weight_nn s). pose proof (code_le_weight s). destruct (st_int s) as [|n [|idx r]]; try lia.
  pose proof (c_code_at_le idx (st_code s)). lia.
Qed.
Lemma top_graph_le s : 0 <= top_graph s <= wsum gweight (st_graph s).
Proof.
  unfold top_graph. rewrite <- (wsum_rev gweight (st_graph s)).
  destruct (rev (st_graph s)) as [|g r]; rewrite ?wsum_cons, ?wsum_nil; [lia|].
  pose proof (wsum_nonneg gweight gweight_nn r). pose proof (gweight_nn g). lia.
Qed.
Lemma lin_top_graph : lin_ok (fun s => 2 + top_graph s).
Proof. intro s. pose proof (top_graph_le s). pose proof (graphs_le_weight s). lia. Qed.
Lemma lin_all_graphs : lin_ok (fun s => 2 + wsum gweight (st_graph s)).
Proof. intro s. parts s. lia. Qed.
Lemma lin_stateswitch : lin_ok (fun s => default_cost s + top_graph s).
Proof. intro s. pose proof (default_le s). pose proof (top_graph_le s). pose proof (graphs_le_weight s). lia. Qed.
Lemma quad_graph_scan : quad_ok c_graph_scan.
Proof.
  intro s. unfold c_graph_scan. pose proof (weight_nn s).
  assert (Hg : 0 <= wsum gweight (st_graph s) /\ 0 <= hd_w vw (st_ivec s) /\
               wsum gweight (st_graph s) + hd_w vw (st_ivec s) <= weight s).
  { clear H. parts s. unfold hd_w. destruct (st_ivec s) as [|v r]; rewrite ?wsum_cons in *; [lia|].
    pose proof (vw_nn v). pose proof (wsum_nonneg vw vw_nn r). lia. }
  nia.
Qed.
Lemma quad_print_diff : quad_ok (fun s => 2 + wsum gweight (st_graph s) * wsum gweight (st_graph s)).
Proof.
  intro s. pose proof (weight_nn s).
  assert (0 <= wsum gweight (st_graph s) <= weight s) by (parts s; lia). nia.
Qed.

(* ------------------------------------------------------------------ *)
Definition entry_ok (e : string * (state -> Z)) : Prop :=
  match cost_class (fst e) with
  | Linear => linl_ok (snd e)
  | NLogN => nlogn_ok (snd e)
  | Quadratic => quad_ok (snd e)
  | ByOperand => True
  end.

Lemma Forall_lens_entry_ok l :
  Forall (fun e => lin_ok (snd e)) l ->
  forallb (fun e => match cost_class (fst e) with Linear => true | _ => false end) l = true ->
  Forall entry_ok l.
Proof.
  intros H C. induction H as [|e r He Hr IH]; [constructor|].
  cbn [forallb] in C. apply andb_prop in C as [C1 C2]. constructor; [|now apply IH].
  unfold entry_ok. destruct (cost_class (fst e)); try discriminate. apply lin_linl, He.
Qed.

Ltac class_of_goal :=
  unfold entry_ok; cbn [fst snd];
  match goal with
  | |- match cost_class ?n with _ => _ end =>
      let c := eval vm_compute in (cost_class n) in change (cost_class n) with c
  end; cbv iota.

Lemma cost_table_ok : Forall entry_ok cost_table.
Proof.
  unfold cost_table.
  repeat (apply Forall_cons; [class_of_goal; first [exact I|exact linl_code_rand|apply lin_linl; exact lin_from_int]|]).
  repeat (apply Forall_app; split;
          [apply Forall_lens_entry_ok;
           [first [apply lin_lens_bool|apply lin_lens_int|apply lin_lens_float|apply lin_lens_name|apply lin_lens_code
                  |apply lin_lens_exec|apply lin_lens_bvec|apply lin_lens_ivec|apply lin_lens_fvec]
           |vm_compute; reflexivity]|]).
  repeat (apply Forall_cons;
          [class_of_goal; try apply lin_linl;
           first [exact lin_flush_index|exact lin_flush_output|exact nlogn_sort_bvec|exact nlogn_sort_ivec|exact nlogn_sort_fvec
                 |exact quad_nest2_code|exact quad_nest2_exec|exact quad_subst|exact quad_code_print
                 |exact lin_code_definition|exact lin_exec_cmd|exact lin_list_get|exact lin_list_remove|exact lin_list_val
                 |exact lin_top_graph|exact lin_all_graphs|exact lin_stateswitch|exact quad_graph_scan|exact quad_print_diff]|]).
  apply Forall_nil.
Qed.

Lemma cost_lookup n :
  (exists c, In (n, c) cost_table /\ forall s, cost n s = c s) \/ (forall s, cost n s = default_cost s).
Proof.
  unfold cost. destruct (List.find _ cost_table) as [[k c]|] eqn:F.
  - left. apply find_some in F as [Hin Heq]. cbn [fst] in Heq. apply String.eqb_eq in Heq. subst k.
    exists c. split; [exact Hin|reflexivity].
  - right. reflexivity.
Qed.

Theorem cost_linear n s : cost_class n = Linear -> cost n s <= 4 * weight s + 64 + limits s.
Proof.
  intro C. destruct (cost_lookup n) as [(c & Hin & E)|E]; rewrite E.
  - pose proof cost_table_ok as T. rewrite Forall_forall in T. specialize (T _ Hin).
    unfold entry_ok in T. cbn [fst snd] in T. rewrite C in T. apply T.
  - apply lin_linl, lin_default.
Qed.

Theorem cost_nlogn n s : cost_class n = NLogN -> cost n s <= weight s * (Z.log2 (weight s) + 2) + 64.
Proof.
  intro C. destruct (cost_lookup n) as [(c & Hin & E)|E]; rewrite E.
  - pose proof cost_table_ok as T. rewrite Forall_forall in T. specialize (T _ Hin).
    unfold entry_ok in T. cbn [fst snd] in T. rewrite C in T. apply T.
  - pose proof (default_le s). pose proof (weight_nn s). pose proof (Z.log2_nonneg (weight s)). nia.
Qed.

Theorem cost_quadratic n s : cost_class n = Quadratic -> cost n s <= weight s * weight s + 4 * weight s + 64.
Proof.
  intro C. destruct (cost_lookup n) as [(c & Hin & E)|E]; rewrite E.
  - pose proof cost_table_ok as T. rewrite Forall_forall in T. specialize (T _ Hin).
    unfold entry_ok in T. cbn [fst snd] in T. rewrite C in T. apply T.
  - pose proof (default_le s). pose proof (weight_nn s). nia.
Qed.

(* every instruction whose work is not controlled by an operand: a polynomial of degree two in the state *)
Theorem cost_bounded n s :
  KnownUnbounded n = false -> cost n s <= weight s * weight s + 4 * weight s + 64 + limits s.
Proof.
  intro K. pose proof (weight_nn s). pose proof (limits_nn s).
  destruct (cost_class n) eqn:C.
  - pose proof (cost_linear n s C). nia.
  - pose proof (cost_nlogn n s C).
    assert (Z.log2 (weight s) <= weight s).
    { destruct (Z.eq_dec (weight s) 0) as [->|]; [cbn; lia|]. pose proof (Z.log2_lt_lin (weight s)). lia. }
    nia.
  - pose proof (cost_quadratic n s C). lia.
  - unfold cost_class in C. unfold KnownUnbounded in K. rewrite K in C.
    destruct (mem_str n nlogn_names); [discriminate|]. destruct (mem_str n quadratic_names); discriminate.
Qed.

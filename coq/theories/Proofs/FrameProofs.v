(* C10 (frame part): every instruction of the registry changes only the fields in its
   documented footprint.  One generic tactic; a missing or wrong table line is a failed Qed. *)
From Coq Require Import ZArith String List Bool Lia.
From PushModel Require Import Base.Sx Base.Machine Base.ListOps Base.F32 Model.Item Model.GraphT Model.State
  Model.InstrBase Model.IScalar Model.ICode Model.Registry Spec.Footprint Proofs.Frame.
Import ListNotations.
Open Scope string_scope.

Definition frame_ok (m : mask) (f : sem) : Prop :=
  forall p w s w' s', f p w s = Ok (w', s') -> same_outside m s s'.

(* split every match in the hypothesis, then compare the two records field by field *)
Ltac split_matches H :=
  repeat match type of H with
         | context [match ?x with _ => _ end] =>
             match x with
             | context [match _ with _ => _ end] => fail 1
             | _ => destruct x eqn:?; try discriminate H
             end
         end.
Ltac frame_tac :=
  let p := fresh "p" in let w := fresh "w" in let s := fresh "s" in
  let w' := fresh "w'" in let s' := fresh "s'" in let H := fresh "H" in
  intros p w s w' s' H;
  unfold pure, purep, rbind in H;
  cbv beta iota zeta delta [
    g_dup g_pop g_swap g_rot g_flush g_depth g_yank g_shove g_yankdup g_define
    bool_bin boolean_eq boolean_and boolean_or boolean_not boolean_from_float boolean_from_integer boolean_id
    int_bin int_cmp integer_add integer_sub integer_mul integer_div integer_mod integer_lt integer_eq integer_gt
    integer_max integer_min integer_abs integer_ddup integer_from_boolean integer_from_float integer_id integer_stack_depth
    float_bin float_cmp float_add float_sub float_mul float_div float_mod float_lt float_eq float_gt float_max float_min
    float_libm float_cos float_sin float_tan float_exp float_from_boolean float_from_integer float_id
    name_cat name_equal name_quote name_send name_id
    code_eq code_append code_atom code_car code_cdr code_cons code_container code_contains code_member code_definition
    code_discrepancy code_do code_do_star loop_g code_loop exec_loop code_extract code_from code_from_bool code_from_float
    code_from_int code_from_name code_if exec_if code_insert code_length code_list code_nth code_null code_position
    code_print code_quote code_size code_subst code_id noop exec_eq exec_k exec_s exec_y exec_id exec_cmd
    index_current index_define index_destination index_increase
    push_int push_bool push_float push_code push_exec push_name libm1 rbind pure purep fst snd] in H;
  split_matches H;
  inversion H; subst; clear H;
  so_split; intros; try discriminate; reflexivity.

Section Core.
  Context {FO : FloatOps}.

  Definition table_framed (tbl : list (string * sem)) (fp : list (string * mask)) : Prop :=
    Forall (fun e => exists m, fp_lookup fp (fst e) = Some m /\ frame_ok m (snd e)) tbl.

  Lemma core_framed : table_framed tbl_core fp_core.
  Proof.
    unfold table_framed, tbl_core, tbl_boolean, tbl_integer, tbl_float, tbl_name, tbl_code, tbl_exec, tbl_index, stack_family.
    cbn [app].
    repeat (apply Forall_cons; [eexists; split; [reflexivity|]; cbn [snd]; frame_tac|]).
    apply Forall_nil.
  Qed.
End Core.

(* Model of the BOOLEAN / INTEGER / FLOAT / NAME instruction bodies
   (boolean.rs, integer.rs, float.rs, name.rs), RAND instructions excepted
   (Model/IRand.v).  `pop_vec(2)` yields [second; top]: on a top-first list the
   pattern is  top :: second :: rest. *)
From Coq Require Import ZArith String List Bool.
From PushModel Require Import Base.Sx Base.Machine Base.ListOps Base.F32 Model.Item Model.GraphT Model.State Model.InstrBase.
Import ListNotations.
Open Scope Z_scope.

Section Scalar.
  Context {FO : FloatOps}.

  (* ---------- BOOLEAN ---------- *)
  Definition bool_bin (f : bool -> bool -> bool) : instr := fun s =>
    match st_bool s with
    | b :: a :: r => Ok (set_bool s (f a b :: r))
    | _ => Ok s
    end.
  Definition boolean_eq := bool_bin Bool.eqb.
  Definition boolean_and := bool_bin andb.
  Definition boolean_or := bool_bin orb.
  Definition boolean_not : instr := fun s =>
    match st_bool s with b :: r => Ok (set_bool s (negb b :: r)) | [] => Ok s end.
  (* as pinned by the unit tests: TRUE for zero, operand kept (known finding, C04) *)
  Definition boolean_from_float : instr := fun s =>
    match st_float s with x :: _ => Ok (push_bool s (feq x f_zero)) | [] => Ok s end.
  Definition boolean_from_integer : instr := fun s =>
    match st_int s with x :: _ => Ok (push_bool s (x =? 0)) | [] => Ok s end.
  Definition boolean_id : instr := fun s => Ok (push_int s BOOL_ID).

  (* ---------- INTEGER ---------- *)
  Definition int_bin (f : Z -> Z -> option Z) : instr := fun s =>
    match st_int s with
    | b :: a :: r => match f a b with
                     | Some v => Ok (set_int s (v :: r))
                     | None => Ok (set_int s r)          (* operands consumed, no result *)
                     end
    | _ => Ok s
    end.
  Definition int_cmp (f : Z -> Z -> bool) : instr := fun s =>
    match st_int s with
    | b :: a :: r => Ok (push_bool (set_int s r) (f a b))
    | _ => Ok s
    end.
  Definition integer_add := int_bin (fun a b => Some (wadd32 a b)).
  Definition integer_sub := int_bin (fun a b => Some (wsub32 a b)).
  Definition integer_mul := int_bin (fun a b => Some (wmul32 a b)).
  Definition integer_div := int_bin (fun a b => if b =? 0 then None else Some (wdiv32 a b)).
  Definition integer_mod := int_bin (fun a b => if b =? 0 then None else Some (wrem32 a b)).
  Definition integer_lt := int_cmp Z.ltb.
  Definition integer_eq := int_cmp Z.eqb.
  Definition integer_gt := int_cmp Z.gtb.
  Definition integer_max := int_bin (fun a b => Some (if a >? b then a else b)).
  Definition integer_min := int_bin (fun a b => Some (if a >? b then b else a)).
  Definition integer_abs : instr := fun s =>
    match st_int s with a :: r => Ok (set_int s (wabs32 a :: r)) | [] => Ok s end.
  Definition integer_ddup : instr := fun s =>
    match st_int s with
    | b :: a :: r => Ok (set_int s (b :: a :: b :: a :: r))
    | _ => Ok s
    end.
  Definition integer_from_boolean : instr := fun s =>
    match st_bool s with b :: r => Ok (push_int (set_bool s r) (if b then 1 else 0)) | [] => Ok s end.
  Definition integer_from_float : instr := fun s =>
    match st_float s with x :: r => Ok (push_int (set_float s r) (f_to_i32 x)) | [] => Ok s end.
  Definition integer_id : instr := fun s => Ok (push_int s INT_ID).
  (* INTEGER.STACKDEPTH counts the value it pushes *)
  Definition integer_stack_depth : instr := fun s =>
    Ok (push_int s (wadd32 (len32 (st_int s)) 1)).

  (* ---------- FLOAT ---------- *)
  Definition float_bin (f : f32 -> f32 -> option f32) : instr := fun s =>
    match st_float s with
    | b :: a :: r => match f a b with
                     | Some v => Ok (set_float s (v :: r))
                     | None => Ok (set_float s r)
                     end
    | _ => Ok s
    end.
  Definition float_cmp (f : f32 -> f32 -> bool) : instr := fun s =>
    match st_float s with
    | b :: a :: r => Ok (push_bool (set_float s r) (f a b))
    | _ => Ok s
    end.
  (* `fvals[1] != 0f32` : true for NaN *)
  Definition f_nonzero (b : f32) : bool := negb (feq b f_zero).
  Definition float_add := float_bin (fun a b => Some (fadd a b)).
  Definition float_sub := float_bin (fun a b => Some (fsub a b)).
  Definition float_mul := float_bin (fun a b => Some (fmul a b)).
  Definition float_div := float_bin (fun a b => if f_nonzero b then Some (fdiv a b) else None).
  Definition float_mod := float_bin (fun a b => if f_nonzero b then Some (frem a b) else None).
  Definition float_lt := float_cmp flt.
  Definition float_eq := float_cmp feq.
  Definition float_gt := float_cmp fgt.
  Definition float_max := float_bin (fun a b => Some (if fgt a b then a else b)).
  Definition float_min := float_bin (fun a b => Some (if fgt a b then b else a)).
  Definition float_libm (fn : Z) : instr := fun s =>
    match st_float s with
    | x :: r => let! y := libm1 fn x in Ok (set_float s (y :: r))
    | [] => Ok s
    end.
  Definition float_cos := float_libm FN_COS.
  Definition float_sin := float_libm FN_SIN.
  Definition float_tan := float_libm FN_TAN.
  Definition float_exp := float_libm FN_EXP.
  Definition float_from_boolean : instr := fun s =>
    match st_bool s with b :: r => Ok (push_float (set_bool s r) (if b then f_one else f_zero)) | [] => Ok s end.
  Definition float_from_integer : instr := fun s =>
    match st_int s with z :: r => Ok (push_float (set_int s r) (f_of_i32 z)) | [] => Ok s end.
  Definition float_id : instr := fun s => Ok (push_int s FLOAT_ID).

  (* ---------- NAME ---------- *)
  Definition name_cat : instr := fun s =>
    match st_name s with
    | b :: a :: r => Ok (set_name s ((a ++ [32] ++ b) :: r))
    | _ => Ok s
    end.
  Definition name_equal : instr := fun s =>
    match st_name s with
    | b :: a :: r => Ok (push_bool (set_name s r) (str_eqb a b))
    | _ => Ok s
    end.
  Definition name_quote : instr := fun s => Ok (set_quote s true).
  Definition name_send : instr := fun s => Ok (set_send s true).
  Definition name_id : instr := fun s => Ok (push_int s NAME_ID).
End Scalar.

(* Model of the CODE / EXEC / INDEX instruction bodies (code.rs, execution.rs,
   index.rs), CODE.RAND excepted (Model/IRand.v).  Lists are top-first;
   `Item::list(vec![a, b, c])` is the top-first list [c; b; a]. *)
From Coq Require Import ZArith String List Bool.
From PushModel Require Import Base.Sx Base.Machine Base.ListOps Base.F32 Model.Item Model.GraphT Model.State Model.InstrBase.
Import ListNotations.
Open Scope Z_scope.

Definition i_instr (n : string) : item := IInstr (s2l n).

(* an item coerced to the list of its elements, top first *)
Definition as_list (t : item) : list item := match t with IList l => l | _ => [t] end.

Section Code.
  Context {FO : FloatOps}.
  Variable p : profile.

  Definition code_eq : instr := fun s =>
    match st_code s with
    | b :: a :: _ => Ok (push_bool s (item_streq a b))
    | _ => Ok s
    end.
  Definition code_append : instr := fun s =>
    match st_code s with
    | b :: a :: r => Ok (set_code s (IList [b; a] :: r))
    | _ => Ok s
    end.
  Definition code_atom : instr := fun s =>
    match st_code s with
    | t :: _ => Ok (push_bool s (match t with IList _ => false | _ => true end))
    | [] => Ok s
    end.
  Definition code_car : instr := fun s =>
    match st_code s with
    | IList (x :: _) :: r => Ok (set_code s (x :: r))
    | IList [] :: r => Ok (set_code s r)
    | _ => Ok s
    end.
  Definition code_cdr : instr := fun s =>
    match st_code s with
    | IList l :: r => Ok (set_code s (IList (tl l) :: r))
    | _ :: r => Ok (set_code s (IList [] :: r))
    | [] => Ok s
    end.
  Definition code_cons : instr := fun s =>
    match st_code s with
    | b :: a :: r => Ok (set_code s (IList (as_list a ++ as_list b) :: r))
    | _ => Ok s
    end.
  Definition code_container : instr := fun s =>
    match st_code s with
    | b :: a :: _ => Ok (push_code s (match container b a with COk c => c | CErr _ => IList [] end))
    | _ => Ok s
    end.
  (* CONTAINS: the top item contains the second; MEMBER: the second contains the top *)
  Definition code_contains : instr := fun s =>
    match st_code s with
    | b :: a :: _ => Ok (push_bool s (match contains b a 0 with Some _ => true | None => false end))
    | _ => Ok s
    end.
  Definition code_member : instr := fun s =>
    match st_code s with
    | b :: a :: _ => Ok (push_bool s (match contains a b 0 with Some _ => true | None => false end))
    | _ => Ok s
    end.
  Definition code_definition : instr := fun s =>
    match st_name s with
    | n :: nr => let s1 := set_name s nr in
                 match bind_get (st_bind s1) n with
                 | Some t => Ok (push_code s1 t)
                 | None => Ok s1
                 end
    | [] => Ok s
    end.

  (* DISCREPANCY: positionwise mismatches (printed-text equality) over the first
     list's elements + |length difference| for two lists; 0/1 on the printed
     text otherwise.  first = second stack item, scd = top item. *)
  Fixpoint mismatches (fst scd : list item) : Z :=
    match fst, scd with
    | x :: fr, y :: sr => (if item_streq y x then 0 else 1) + mismatches fr sr
    | _, _ => 0
    end.
  Definition discrepancy (a b : item) : Z :=
    match a, b with
    | IList fl, IList sl => wrap32 (mismatches fl sl + Z.abs (zlen fl - zlen sl))
    | _, _ => if item_streq a b then 0 else 1
    end.
  Definition code_discrepancy : instr := fun s =>
    match st_code s with
    | b :: a :: _ => Ok (push_int s (discrepancy a b))
    | _ => Ok s
    end.

  Definition code_do : instr := fun s =>
    match st_code s with
    | t :: _ => Ok (set_exec s (t :: i_instr "CODE.POP" :: st_exec s))
    | [] => Ok s
    end.
  Definition code_do_star : instr := fun s =>
    match st_code s with
    | t :: _ => Ok (set_exec s (i_instr "CODE.POP" :: t :: st_exec s))
    | [] => Ok s
    end.

  (* LOOP over a body taken from [get] (EXEC or CODE): re-arms with
     ( INDEX.INCREASE <LOOP> body ) beneath a copy of the body *)
  Definition loop_g (get : state -> list item) (set : state -> list item -> state) (nm : string) : instr := fun s =>
    match get s with
    | body :: r =>
        let s1 := set s r in
        match st_index s1 with
        | (cur, dest) :: ir =>
            if cur <? dest then
              Ok (set_exec s1 (body :: IList [i_instr "INDEX.INCREASE"; i_instr nm; body] :: st_exec s1))
            else Ok (set_index s1 ir)
        | [] => Ok s1
        end
    | [] => Ok s
    end.
  Definition code_loop := loop_g st_code set_code "CODE.LOOP".
  Definition exec_loop := loop_g st_exec set_exec "EXEC.LOOP".

  Definition code_extract : instr := fun s =>
    match st_int s with
    | idx :: ir =>
        let s1 := set_int s ir in
        match st_code s1 with
        | t :: _ =>
            let! n := rem_euclid32 idx (wrap32 (size t)) in
            let! r := traverse p t (i32_as_usize n) in
            match r with Found y => Ok (push_code s1 y) | Rem _ => Ok s1 end
        | [] => Ok s1
        end
    | [] => Ok s
    end.
  Definition code_from (A : Type) (get : state -> list A) (set : state -> list A -> state) (mk : A -> item) : instr := fun s =>
    match get s with
    | v :: r => Ok (push_code (set s r) (mk v))
    | [] => Ok s
    end.
  Definition code_from_bool := code_from bool st_bool set_bool (fun b => ILit (LBool b)).
  Definition code_from_float := code_from f32 st_float set_float (fun f => ILit (LFloat f)).
  Definition code_from_int := code_from Z st_int set_int (fun z => ILit (LInt z)).
  Definition code_from_name := code_from str st_name set_name IName.

  (* IF: the BOOLEAN is popped only after both code items were taken *)
  Definition code_if : instr := fun s =>
    match st_code s with
    | b :: a :: r =>
        let s1 := set_code s r in
        match st_bool s1 with
        | c :: br => Ok (push_exec (set_bool s1 br) (if c then a else b))
        | [] => Ok s1
        end
    | _ => Ok s
    end.
  Definition exec_if : instr := fun s =>
    match st_exec s with
    | b :: a :: r =>
        let s1 := set_exec s r in
        match st_bool s1 with
        | c :: br => Ok (push_exec (set_bool s1 br) (if c then b else a))
        | [] => Ok s1
        end
    | _ => Ok s
    end.

  (* INSERT: index is NOT normalised (`sub_idx as usize`); the root is never replaced *)
  Definition code_insert : instr := fun s =>
    match st_int s with
    | idx :: ir =>
        let s1 := set_int s ir in
        match st_code s1 with
        | t :: x :: r =>
            let! res := insert p t x (i32_as_usize idx) in
            Ok (set_code s1 (fst res :: x :: r))
        | _ => Ok s1
        end
    | [] => Ok s
    end.
  Definition code_length : instr := fun s =>
    match st_code s with
    | IList l :: _ => Ok (push_int s (len32 l))
    | _ :: _ => Ok (push_int s 1)
    | [] => Ok s
    end.
  Definition code_list : instr := fun s =>
    match st_code s with
    | b :: a :: _ => Ok (push_code s (IList [b; a]))
    | _ => Ok s
    end.
  Definition code_nth : instr := fun s =>
    match st_int s with
    | idx :: ir =>
        let s1 := set_int s ir in
        match st_code s1 with
        | t :: _ =>
            let! n := rem_euclid32 idx (wrap32 (shallow_size t)) in
            let dflt := if n =? 0 then t else IList [] in
            let pick := match t with
                        | IList l => if 0 <? n then match l_copy l (n - 1) with Some y => y | None => dflt end else dflt
                        | _ => dflt
                        end in
            Ok (push_code s1 pick)
        | [] => Ok s1
        end
    | [] => Ok s
    end.
  Definition code_null : instr := fun s =>
    match st_code s with
    | t :: _ => Ok (push_bool s (match t with IList [] => true | _ => false end))
    | [] => Ok s
    end.
  Definition code_position : instr := fun s =>
    match st_code s with
    | b :: a :: _ => Ok (push_int s (match contains b a 0 with Some k => wrap32 k | None => -1 end))
    | _ => Ok s
    end.
  Definition code_print : instr := fun s =>
    match st_code s with
    | _ :: _ => Ok (push_name s (items_str (st_code s)))
    | [] => Ok s
    end.
  Definition code_quote : instr := fun s =>
    match st_exec s with
    | t :: r => Ok (push_code (set_exec s r) t)
    | [] => Ok s
    end.
  Definition code_size : instr := fun s =>
    match st_code s with
    | t :: _ => Ok (push_int s (wrap32 (size t)))
    | [] => Ok s
    end.
  (* SUBST: pops three: target (top), substitute (second), pattern (third) *)
  Definition code_subst : instr := fun s =>
    match st_code s with
    | target :: sub :: pat :: r =>
        let '(t', whole) := substitute target pat sub in
        Ok (set_code s ((if whole then sub else t') :: r))
    | _ => Ok s
    end.
  Definition code_id : instr := fun s => Ok (push_int s CODE_ID).
  Definition noop : instr := fun s => Ok s.

  (* ---------- EXEC ---------- *)
  Definition exec_eq : instr := fun s =>
    match st_exec s with
    | b :: a :: _ => Ok (push_bool s (item_streq a b))
    | _ => Ok s
    end.
  Definition exec_k : instr := fun s =>
    match st_exec s with
    | b :: a :: r => Ok (set_exec s (b :: r))
    | _ => Ok s
    end.
  Definition exec_s : instr := fun s =>
    match st_exec s with
    | a :: b :: c :: r => Ok (set_exec s (a :: c :: IList [b; c] :: r))
    | _ => Ok s
    end.
  Definition exec_y : instr := fun s =>
    match st_exec s with
    | t :: r => Ok (set_exec s (t :: IList [i_instr "EXEC.Y"; t] :: r))
    | [] => Ok s
    end.
  Definition exec_id : instr := fun s => Ok (push_int s EXEC_ID).
  (* EXEC.CMD: shells out; the model covers the operand handling only (the
     spawned process is outside the model; C01 assumes a harmless target) *)
  Definition exec_cmd : instr := fun s =>
    match st_int s with
    | n :: ir =>
        let s1 := set_int s ir in
        if -1 <? n then
          let k := n + 1 in   (* num_args as usize + 1 *)
          if k <=? zlen (st_name s1) then Ok (set_name s1 (skipn (Z.to_nat k) (st_name s1)))
          else Ok s1
        else Ok s1
    | [] => Ok s
    end.

  (* ---------- INDEX ---------- *)
  Definition index_current : instr := fun s =>
    match st_index s with
    | (cur, _) :: _ => Ok (push_int s (wrap32 cur))
    | [] => Ok s
    end.
  Definition index_define : instr := fun s =>
    match st_int s with
    | z :: r => Ok (set_index (set_int s r) ((0, Z.max 0 z) :: st_index s))
    | [] => Ok s
    end.
  (* as written: pushes a new INDEX (0, destination), not an INTEGER *)
  Definition index_destination : instr := fun s =>
    match st_index s with
    | (_, dest) :: _ => Ok (set_index s ((0, dest) :: st_index s))
    | [] => Ok s
    end.
  Definition index_increase : instr := fun s =>
    match st_index s with
    | (cur, dest) :: r => if cur <? dest then Ok (set_index s ((cur + 1, dest) :: r)) else Ok s
    | [] => Ok s
    end.
End Code.

(* C15: a COUNTING model of the resources of one instruction.

   This file does not model time or memory.  It counts:
     [weight s]  the number of scalar cells and code points a state holds: one
                 per stack entry, one per vector element, one per point of a code
                 item (plus the characters of instruction / identifier names and
                 the elements of vector literals inside it), one per character of
                 a NAME, one per element of a queued message, one per node and per
                 edge of a graph snapshot, key + value of a name binding.
     [cost n s]  cells allocated + loop iterations performed by the Rust body of
                 instruction n as written, read off the source:
                   vec![x; size as usize]            size cells
                   for i in 0..vector_size as usize  vector_size iterations (and pushes)
                   for i in 0..ntotal { decompose_index(.., ndim) }   ntotal * ndim
                   Vec::with_capacity(size)          size cells
                   x.clone() of an Item / Vec        the weight of x
                   Vec::remove(k) / insert(k)        the elements shifted
                   to_string()                       one per printed CELL (a cell prints to a
                                                     bounded number of characters; how many is a
                                                     fact about number formatting, not modelled)
   The table is explicit where the count is not simply "the few top items the
   body touches"; everything else gets [default_cost], an UPPER estimate: twice
   the weight of the four topmost entries of every stack.  Upper estimates are
   marked (<=); the entries of the operand-controlled instructions are exact,
   because the refutations rest on them.

   What the counts are good for: they separate the instructions whose work is
   controlled by the STATE (classes Linear / NLogN / Quadratic below) from those
   whose work is controlled by the MAGNITUDE OF AN OPERAND ([ByOperand]).  Real
   RSS, allocator failure and wall-clock are runtime facts; checks/C15.py measures
   them on the implementation, bounded by its case list. *)
From Coq Require Import ZArith String List Bool.
From PushModel Require Import Base.Sx Base.Machine Base.ListOps Base.F32 Model.Item Model.GraphT Model.State
  Model.InstrBase.
Import ListNotations.
Open Scope Z_scope.
Open Scope string_scope.

(* ------------------------------------------------------------------ *)
(* weights *)
Definition wsum {A} (f : A -> Z) (l : list A) : Z := fold_right (fun x a => f x + a) 0 l.
Definition cnt {A} (_ : A) : Z := 1.
Definition idxw (_ : Z * Z) : Z := 2.
(* a vector / a name: the entry itself + its elements / characters *)
Definition vw {A} (v : list A) : Z := 1 + zlen v.

Definition lit_cells (v : lit) : Z :=
  match v with
  | LBoolVec v => vw v | LIntVec v => vw v | LFloatVec v => vw v
  | LIndex _ _ => 2
  | _ => 1
  end.

Fixpoint iweight (t : item) : Z :=
  match t with
  | IList l => 1 + (fix go (l : list item) : Z := match l with [] => 0 | x :: r => iweight x + go r end) l
  | IInstr n => vw n
  | ILit v => lit_cells v
  | IName n => vw n
  end.
Lemma iweight_list l : iweight (IList l) = 1 + wsum iweight l.
Proof. cbn [iweight]. f_equal. Qed.

(* work of the helpers that re-visit a nested operand once per nesting level:
     Item::traverse     `items.copy(i)` clones the child before descending into it
     Item::contains     Item::equals at every node + Item::size of every non-matching child
     Item::substitute / container    Item::equals at every node
     Display for Item   a list prints its children into a fresh String which is then copied
   all are bounded by the sum over every node of the weight of the subtree below it *)
Fixpoint nest (t : item) : Z :=
  match t with
  | IList l => iweight t + (fix go (l : list item) : Z := match l with [] => 0 | x :: r => nest x + go r end) l
  | _ => iweight t
  end.
Lemma nest_list l : nest (IList l) = iweight (IList l) + wsum nest l.
Proof. cbn [nest]. f_equal. Qed.

Definition msgw (m : msg) : Z := 1 + zlen (fst m) + zlen (snd m).
Definition edgesw (kv : Z * list edge) : Z := vw (snd kv).
Definition gweight (g : graph) : Z := 1 + zlen (g_nodes g) + wsum edgesw (g_edges g).
Definition bindw (kv : str * item) : Z := 1 + zlen (fst kv) + iweight (snd kv).

Definition weight (s : state) : Z :=
  wsum cnt (st_bool s) + wsum iweight (st_code s) + wsum iweight (st_exec s) + wsum cnt (st_float s) +
  wsum idxw (st_index s) + wsum cnt (st_int s) + wsum vw (st_name s) +
  wsum vw (st_bvec s) + wsum vw (st_fvec s) + wsum vw (st_ivec s) +
  wsum msgw (st_input s) + wsum msgw (st_output s) + wsum gweight (st_graph s) + wsum bindw (st_bind s).

(* the configured limits a cost may depend on: only max_points_in_random_expressions (CODE.RAND) *)
Definition limits (s : state) : Z := Z.abs (cfg_max_points_rand (st_cfg s)).

(* ------------------------------------------------------------------ *)
(* cost building blocks *)
Definition hd_w {A} (f : A -> Z) (l : list A) : Z := match l with x :: _ => f x | [] => 0 end.
Definition top_w {A} (f : A -> Z) (k : nat) (l : list A) : Z := wsum f (firstn k l).

(* (<=) the four topmost entries of every stack, twice (read once, cloned / written once) *)
Definition tops (s : state) : Z :=
  top_w cnt 4 (st_bool s) + top_w iweight 4 (st_code s) + top_w iweight 4 (st_exec s) + top_w cnt 4 (st_float s) +
  top_w idxw 4 (st_index s) + top_w cnt 4 (st_int s) + top_w vw 4 (st_name s) +
  top_w vw 4 (st_bvec s) + top_w vw 4 (st_fvec s) + top_w vw 4 (st_ivec s) +
  top_w msgw 1 (st_input s) + top_w msgw 1 (st_output s).
Definition default_cost (s : state) : Z := 16 + 2 * tops s.

Definition top_int (s : state) : Z := match st_int s with n :: _ => n | [] => 0 end.

(* T.ONES / T.ZEROS:  if size > 0 { push(vec![x; size as usize]) } *)
Definition c_fill (s : state) : Z := 1 + Z.max 0 (top_int s).
(* the three vector RAND: vec![default; size] / with_capacity(size) + `for _ in 0..size` *)
Definition c_rand_vec (s : state) : Z := 1 + 2 * Z.max 0 (top_int s).
(* FLOATVECTOR.SINE, repaired: `if vector_size >= 0 { for i in 0..vector_size as usize { push } }` *)
Definition c_sine (s : state) : Z :=
  match st_float s, st_int s with
  | _ :: _ :: _ :: _, n :: _ => 1 + Z.max 0 n
  | _, _ => 1
  end.
(* ... as pinned: `for i in 0..vector_size as usize` without the guard *)
Definition c_sine_pinned (s : state) : Z :=
  match st_float s, st_int s with
  | _ :: _ :: _ :: _, n :: _ => 1 + i32_as_usize n
  | _, _ => 1
  end.
(* LIST.NEIGHBOR*: pop_vec(3|4) = [.., dimensions, index, size(top-most of the three)];
   size = max(size, 0); ndim = max(min(size, dimensions), 0);
   find_neighbors: `for i in 0..ntotal` x decompose_index's `vec![0; ndim]` + `for i in 0..ndim`
   (checked_pow makes decompose_index give up after 64 digits when the edge is >= 2) *)
Definition c_neighbor (skip : nat) (s : state) : Z :=
  match skipn skip (st_int s) with
  | size :: _ :: dims :: _ =>
      let ntotal := Z.max size 0 in
      let ndim := Z.max (Z.min ntotal dims) 0 in
      1 + ndim + ntotal * (1 + Z.min ndim 64)
  | _ => 1
  end.
(* CODE.RAND, repaired: limit = min(n.unsigned_abs(), max_points_in_random_expressions.unsigned_abs())
   points are generated: controlled by the CONFIGURED limit, not by the operand *)
Definition c_code_rand (s : state) : Z :=
  match st_int s with
  | n :: _ => 1 + Z.min (Z.abs n) (Z.abs (cfg_max_points_rand (st_cfg s)))
  | [] => 1
  end.
(* ... as pinned: min(i32::abs(n), i32::abs(max)) as usize; |i32::MIN| overflows: a panic in debug
   builds, in release builds the `min` is then i32::MIN and `limit as usize` is 2^64 - 2^31 *)
Definition c_code_rand_pinned (s : state) : Z :=
  match st_int s with
  | n :: _ => if Z.eqb n min32 then two64 - 2147483648
              else 1 + Z.min (Z.abs n) (Z.abs (cfg_max_points_rand (st_cfg s)))
  | [] => 1
  end.

(* INTVECTOR.FROMINT: pop_vec(max(min(size, n), 0)) *)
Definition c_from_int (s : state) : Z :=
  match st_int s with n :: r => 2 + Z.max (Z.min (zlen r) n) 0 | [] => 1 end.

Section Lens.
  Context {A : Type}.
  Variable get : state -> list A.
  Variable f : A -> Z.
  (* YANK / SHOVE: Vec::remove / Vec::insert shift the elements above the position *)
  Definition c_yank (s : state) : Z :=
    match st_int s with
    | idx :: r => 2 + clamp_idx idx (len32 (get (set_int s r)))
    | [] => 1
    end.
  (* YANKDUP: clone of the designated entry *)
  Definition c_yankdup (s : state) : Z :=
    match st_int s with
    | idx :: r => let s1 := set_int s r in
                  2 + match l_copy (get s1) (clamp_idx idx (len32 (get s1))) with Some x => f x | None => 0 end
    | [] => 1
    end.
  (* FLUSH drops every entry *)
  Definition c_flush (s : state) : Z := 1 + wsum f (get s).
  Definition lens_costs (pre : string) : list (string * (state -> Z)) :=
    [ (pre ++ ".YANK", c_yank); (pre ++ ".SHOVE", c_yank); (pre ++ ".YANKDUP", c_yankdup);
      (pre ++ ".FLUSH", c_flush) ].
End Lens.

(* the record / code item at a clamped position of the CODE stack (LIST.GET, *VAL) *)
Definition c_code_at (idx : Z) (code : list item) : Z :=
  match l_copy code (clamp_idx idx (len32 code)) with Some t => iweight t | None => 0 end.

(* sort_by: a stable merge sort, n * (log2 n + 1) comparisons and a buffer of n/2 *)
Definition c_sort {A} (get : state -> list (list A)) (s : state) : Z :=
  match get s with v :: _ => 2 + zlen v * (Z.log2 (zlen v) + 2) | [] => 1 end.

(* the nested helpers on the two topmost CODE / EXEC items *)
Definition c_nest2 (get : state -> list item) (s : state) : Z := 2 + top_w nest 2 (get s).
(* CODE.SUBST (<=): equals at every node of the target against the pattern, a clone of the
   substitute per occurrence *)
Definition c_subst (s : state) : Z :=
  match st_code s with
  | target :: sub :: pat :: _ => 2 + nest target + iweight target * (iweight sub + iweight pat)
  | _ => 1
  end.

Definition top_graph (s : state) : Z := match rev (st_graph s) with g :: _ => gweight g | [] => 0 end.
(* (<=) filter: every node against every entry of the state vector; queries: every edge list *)
Definition c_graph_scan (s : state) : Z := 2 + wsum gweight (st_graph s) * (1 + hd_w vw (st_ivec s)).

Definition cost_table : list (string * (state -> Z)) :=
  [ ("BOOLVECTOR.ONES", c_fill); ("BOOLVECTOR.ZEROS", c_fill); ("INTVECTOR.ONES", c_fill);
     ("INTVECTOR.ZEROS", c_fill); ("FLOATVECTOR.ONES", c_fill); ("FLOATVECTOR.ZEROS", c_fill);
     ("BOOLVECTOR.RAND", c_rand_vec); ("INTVECTOR.RAND", c_rand_vec); ("FLOATVECTOR.RAND", c_rand_vec);
     ("FLOATVECTOR.SINE", c_sine);
     ("LIST.NEIGHBOR*IDS", c_neighbor 0); ("LIST.NEIGHBOR*BVALS", c_neighbor 1);
     ("LIST.NEIGHBOR*IVALS", c_neighbor 1); ("LIST.NEIGHBOR*FVALS", c_neighbor 1);
     ("CODE.RAND", c_code_rand);
     ("INTVECTOR.FROMINT", c_from_int) ]
   ++ lens_costs st_bool cnt "BOOLEAN" ++ lens_costs st_int cnt "INTEGER" ++ lens_costs st_float cnt "FLOAT"
   ++ lens_costs st_name vw "NAME" ++ lens_costs st_code iweight "CODE" ++ lens_costs st_exec iweight "EXEC"
   ++ lens_costs st_bvec vw "BOOLVECTOR" ++ lens_costs st_ivec vw "INTVECTOR" ++ lens_costs st_fvec vw "FLOATVECTOR"
   ++ [ ("INDEX.FLUSH", c_flush st_index idxw); ("OUTPUT.FLUSH", c_flush st_output msgw);
        (* sorting *)
        ("BOOLVECTOR.SORT*ASC", c_sort st_bvec); ("BOOLVECTOR.SORT*DESC", c_sort st_bvec);
        ("INTVECTOR.SORT*ASC", c_sort st_ivec); ("INTVECTOR.SORT*DESC", c_sort st_ivec);
        ("FLOATVECTOR.SORT*ASC", c_sort st_fvec); ("FLOATVECTOR.SORT*DESC", c_sort st_fvec);
        (* nested helpers *)
        ("CODE.=", c_nest2 st_code); ("EXEC.=", c_nest2 st_exec); ("CODE.DISCREPANCY", c_nest2 st_code);
        ("CODE.CONTAINS", c_nest2 st_code); ("CODE.MEMBER", c_nest2 st_code); ("CODE.POSITION", c_nest2 st_code);
        ("CODE.CONTAINER", c_nest2 st_code); ("CODE.EXTRACT", c_nest2 st_code);
        ("CODE.SUBST", c_subst);
        (* CODE.PRINT prints the whole CODE stack *)
        ("CODE.PRINT", fun s => 2 + wsum nest (st_code s));
        (* CODE.DEFINITION clones the bound item *)
        ("CODE.DEFINITION", fun s => default_cost s +
            match st_name s with n :: _ => match bind_get (st_bind s) n with Some t => iweight t | None => 0 end | [] => 0 end);
        (* EXEC.CMD (<=): joins the n + 1 topmost names (the spawned process is outside the model) *)
        ("EXEC.CMD", fun s => 2 + wsum vw (st_name s));
        (* LIST.*: a record somewhere in the CODE stack is cloned / searched; REMOVE shifts the stack *)
        ("LIST.GET", fun s => match st_int s with idx :: _ => 2 + c_code_at idx (st_code s) | [] => 1 end);
        ("LIST.REMOVE", fun s => 2 + zlen (st_code s));
        ("LIST.BVAL", fun s => match st_int s with _ :: idx :: _ => 2 + 2 * c_code_at idx (st_code s) | _ => 1 end);
        ("LIST.IVAL", fun s => match st_int s with _ :: idx :: _ => 2 + 2 * c_code_at idx (st_code s) | _ => 1 end);
        ("LIST.FVAL", fun s => match st_int s with _ :: idx :: _ => 2 + 2 * c_code_at idx (st_code s) | _ => 1 end);
        (* GRAPH.* (<=): clone / print / update of the top snapshot; HISTORY reads one older snapshot *)
        ("GRAPH.DUP", fun s => 2 + top_graph s); ("GRAPH.PRINT", fun s => 2 + top_graph s);
        ("GRAPH.EDGE*ADD", fun s => 2 + top_graph s); ("GRAPH.EDGE*GETWEIGHT", fun s => 2 + top_graph s);
        ("GRAPH.EDGE*SETWEIGHT", fun s => 2 + top_graph s);
        ("GRAPH.NODE*STATESWITCH", fun s => default_cost s + top_graph s);
        ("GRAPH.EDGE*HISTORY", fun s => 2 + wsum gweight (st_graph s));
        ("GRAPH.NODE*HISTORY", fun s => 2 + wsum gweight (st_graph s));
        ("GRAPH.NODES", c_graph_scan); ("GRAPH.NODES*HISTORY", c_graph_scan);
        ("GRAPH.NODE*NEIGHBORS", c_graph_scan); ("GRAPH.NODE*PREDECESSORS", c_graph_scan);
        ("GRAPH.NODE*SUCCESSORS", c_graph_scan);
        (* diff: every edge of one snapshot is looked up in an edge list of the other *)
        ("GRAPH.PRINT*DIFF", fun s => 2 + wsum gweight (st_graph s) * wsum gweight (st_graph s)) ].

Definition cost (n : string) (s : state) : Z :=
  match List.find (fun e => String.eqb (fst e) n) cost_table with
  | Some e => snd e s
  | None => default_cost s
  end.

(* ------------------------------------------------------------------ *)
(* classes, by instruction name *)
Inductive cclass := Linear | NLogN | Quadratic | ByOperand.

Definition mem_str (n : string) (l : list string) : bool := existsb (String.eqb n) l.

(* the instructions whose work is controlled by the magnitude of an operand *)
Definition by_operand_names : list string :=
  [ "BOOLVECTOR.ONES"; "BOOLVECTOR.ZEROS"; "INTVECTOR.ONES"; "INTVECTOR.ZEROS"; "FLOATVECTOR.ONES"; "FLOATVECTOR.ZEROS";
    (* vec![default; size] / with_capacity(size) + one draw per element *)
    "BOOLVECTOR.RAND"; "INTVECTOR.RAND"; "FLOATVECTOR.RAND";
    (* with a positive length *)
    "FLOATVECTOR.SINE";
    (* ntotal x min(ndim, 64) work from two operands *)
    "LIST.NEIGHBOR*IDS"; "LIST.NEIGHBOR*BVALS"; "LIST.NEIGHBOR*IVALS"; "LIST.NEIGHBOR*FVALS" ].
Definition nlogn_names : list string :=
  [ "BOOLVECTOR.SORT*ASC"; "BOOLVECTOR.SORT*DESC"; "INTVECTOR.SORT*ASC"; "INTVECTOR.SORT*DESC";
    "FLOATVECTOR.SORT*ASC"; "FLOATVECTOR.SORT*DESC" ].
Definition quadratic_names : list string :=
  [ "CODE.="; "EXEC.="; "CODE.DISCREPANCY"; "CODE.CONTAINS"; "CODE.MEMBER"; "CODE.POSITION"; "CODE.CONTAINER";
    "CODE.EXTRACT"; "CODE.SUBST"; "CODE.PRINT";
    "GRAPH.NODES"; "GRAPH.NODES*HISTORY"; "GRAPH.NODE*NEIGHBORS"; "GRAPH.NODE*PREDECESSORS"; "GRAPH.NODE*SUCCESSORS";
    "GRAPH.PRINT*DIFF" ].

Definition cost_class (n : string) : cclass :=
  if mem_str n by_operand_names then ByOperand
  else if mem_str n nlogn_names then NLogN
  else if mem_str n quadratic_names then Quadratic
  else Linear.

Definition KnownUnbounded (n : string) : bool := mem_str n by_operand_names.

(* instructions outside the one-step growth theorem although their work is bounded by the state
   and the configured limits:
     CODE.SUBST                          one clone of the substitute PER OCCURRENCE of the pattern: the result
                                         has up to (points of the target) x (weight of the substitute) cells
     GRAPH.NODES, GRAPH.NODES*HISTORY    a node id is pushed once per MATCHING ENTRY of the state vector
                                         (the inner loop has no break): nodes x entries
     CODE.PRINT, GRAPH.PRINT, GRAPH.PRINT*DIFF   push a text: characters per printed cell is a fact about
                                         number formatting (f32 `{:.3}` prints up to 47 characters), outside
                                         FloatOps's interface
     NAME.RAND, NAME.RANDBOUNDNAME, CODE.RAND    push generated names (crate `names`, "adjective-noun"): the
                                         model takes their length from the oracle tape; CODE.RAND pushes up to
                                         the configured max_points_in_random_expressions points *)
Definition multiplying_names : list string := [ "CODE.SUBST"; "GRAPH.NODES"; "GRAPH.NODES*HISTORY" ].
Definition printing_names : list string := [ "CODE.PRINT"; "GRAPH.PRINT"; "GRAPH.PRINT*DIFF" ].
Definition oracle_names : list string := [ "NAME.RAND"; "NAME.RANDBOUNDNAME"; "CODE.RAND" ].
Definition GrowthExcluded (n : string) : bool :=
  KnownUnbounded n || mem_str n multiplying_names || mem_str n printing_names || mem_str n oracle_names.

(* Registry tables of the LIST (NEIGHBOR* excepted: Model/Topology side) and
   INPUT / OUTPUT families. *)
From Coq Require Import ZArith String List Bool.
From PushModel Require Import Base.Sx Base.Machine Base.ListOps Base.F32 Model.Item Model.GraphT Model.State
  Model.InstrBase Model.Registry Model.IList Model.IIo.
Import ListNotations.
Open Scope Z_scope.
Open Scope string_scope.

Section RegistryListIo.
  Context {FO : FloatOps}.

  Definition tbl_list : list (string * sem) :=
    [ ("LIST.ADD", pure list_add); ("LIST.REMOVE", pure list_remove); ("LIST.GET", pure list_get);
      ("LIST.SET", pure list_set); ("LIST.BVAL", pure list_bval); ("LIST.IVAL", pure list_ival);
      ("LIST.FVAL", pure list_fval) ].

  (* io.rs defines input_flush but load_io_instructions does not register it *)
  Definition tbl_io : list (string * sem) :=
    [ ("INPUT.AVAILABLE", pure input_available); ("INPUT.GET", pure input_get);
      ("INPUT.NEXT", pure input_next); ("INPUT.READ", pure input_read);
      ("INPUT.STACKDEPTH", pure input_stack_depth);
      ("OUTPUT.FLUSH", pure output_flush); ("OUTPUT.WRITE", pure output_write);
      ("OUTPUT.STACKDEPTH", pure output_stack_depth) ].
End RegistryListIo.

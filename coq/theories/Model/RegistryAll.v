(* The complete registry: every family's table. *)
From Coq Require Import ZArith String List Bool.
From PushModel Require Import Base.Sx Base.Machine Base.F32 Model.Item Model.State Model.InstrBase Model.Registry Model.Interp
  Model.RegistryVec Model.RegistryListIo Model.RegistryGraph Model.RegistryNbr Model.RegistryRand.
Import ListNotations.
Section All.
  Context {FO : FloatOps}.
  (* the deterministic families *)
  Definition base_table : list (string * sem) :=
    tbl_core ++ tbl_bvec ++ tbl_ivec ++ tbl_fvec ++ tbl_list ++ tbl_io ++ tbl_graph ++ tbl_nbr.
  (* InstructionSet::cache(): the registered names (CODE.RAND draws instruction names from it) *)
  Definition full_names : list str := map (fun e => s2l (fst e)) base_table ++ map s2l rand_names.
  Definition full_table : list (string * sem) := base_table ++ tbl_rand full_names.
  Definition full_registry : registry := mk_registry full_table.
End All.

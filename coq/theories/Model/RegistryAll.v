(* The complete registry: every family's table. *)
From Coq Require Import ZArith String List Bool.
<<<<<<< HEAD
From PushModel Require Import Base.Sx Base.Machine Base.F32 Model.Item Model.State Model.InstrBase Model.Registry Model.Interp
<<<<<<< HEAD
  Model.RegistryVec.
=======
From PushModel Require Import Base.Sx Base.Machine Base.F32 Model.Item Model.State Model.InstrBase Model.Registry Model.Interp Model.RegistryListIo.
>>>>>>> listio
Import ListNotations.
Section All.
  Context {FO : FloatOps}.
<<<<<<< HEAD
  Definition full_table : list (string * sem) := tbl_core ++ tbl_bvec ++ tbl_ivec ++ tbl_fvec.
=======
  Definition full_table : list (string * sem) := tbl_core ++ tbl_list ++ tbl_io.
>>>>>>> listio
=======
  Model.RegistryVec Model.RegistryGraph.
Import ListNotations.
Section All.
  Context {FO : FloatOps}.
  Definition full_table : list (string * sem) := tbl_core ++ tbl_bvec ++ tbl_ivec ++ tbl_fvec ++ tbl_graph.
>>>>>>> graphi
  Definition full_registry : registry := mk_registry full_table.
End All.

(* The stack container as a state machine over the operation vocabulary of
   Spec/SeqSpec.v: each operation calls the modelled Rust method. *)
From Coq Require Import ZArith List Bool Lia.
From PushModel Require Import Base.Sx Base.Machine Model.Stack Spec.SeqSpec.
Import ListNotations.
Open Scope Z_scope.

Section StackMachine.
  Context {A : Type}.
  Variable eqA : A -> A -> bool.
  Variable streq : A -> A -> bool.

  Definition impl_step (p : profile) (v : vec A) (o : op A) : res (vec A * out A) :=
    match o with
    | OSize => Ok (v, UZ (s_size v))
    | OToList => Ok (v, UL (s_to_list v))
    | OLastEq a => Ok (v, UB (s_last_eq eqA v a))
    | OEqualAt i a => let! r := s_equal_at streq p v i a in Ok (v, UOB r)
    | OBottom => Ok (v, UOA (s_bottom v))
    | OFlush => Ok (s_flush v, UUnit)
    | OReplace i a => let! r := s_replace p v i a in Ok (fst r, UOZ (snd r))
    | ORemove i => let! r := s_remove p v i in Ok (r, UUnit)
    | OReverse => Ok (s_reverse v, UUnit)
    | OGet i => let! r := s_get p v i in Ok (v, UOA r)
    | OPush a => Ok (s_push v a, UUnit)
    | OPushFront a => Ok (s_push_front v a, UUnit)
    | OYank i => let! r := s_yank p v i in Ok (r, UUnit)
    | OShove i => let! r := s_shove p v i in Ok (r, UUnit)
    | OSwap i j => let! r := s_swap v i j in Ok (r, UUnit)
    | OPopFront => let '(x, v') := s_pop_front v in Ok (v', UOA x)
    | OPop => let '(x, v') := s_pop v in Ok (v', UOA x)
    | OPopVec n => let! r := s_pop_vec p v n in Ok (snd r, UOL (fst r))
    | OCopy i => let! r := s_copy p v i in Ok (v, UOA r)
    | OCopyVec n => let! r := s_copy_vec p v n in Ok (v, UOL r)
    | OPushVec l => Ok (s_push_vec v l, UUnit)
    end.

  Fixpoint impl_run (p : profile) (v : vec A) (ops : list (op A)) : res (vec A * list (out A)) :=
    match ops with
    | [] => Ok (v, [])
    | o :: r =>
        let! s := impl_step p v o in
        let! t := impl_run p (fst s) r in
        Ok (fst t, snd s :: snd t)
    end.
End StackMachine.

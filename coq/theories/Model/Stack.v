(* Model of src/push/stack.rs : PushStack<T> as the Vec it is (a list, bottom
   element first), every public method with the index arithmetic the Rust code
   performs.  Positions and sizes are usize values (Z in [0, 2^64)). *)
From Coq Require Import ZArith List Bool Lia.
From PushModel Require Import Base.Sx Base.Machine Base.ListOps.
Import ListNotations.
Open Scope Z_scope.

Section Stack.
  Context {A : Type}.
  Variable eqA : A -> A -> bool.     (* PartialEq::eq (shallow for Item) *)
  Variable streq : A -> A -> bool.   (* equality of the Display renderings *)

  Definition vec := list A.          (* bottom first, top last *)

  Definition vlen (v : vec) : Z := Z.of_nat (length v).

  (* v[k] *)
  Definition vidx (v : vec) (k : Z) : res A :=
    if (0 <=? k) && (k <? vlen v) then
      match nth_error v (Z.to_nat k) with Some a => Ok a | None => Panic end
    else Panic.

  (* the slot of stack position i : size - (i + 1) *)
  Definition slot (p : profile) (v : vec) (i : Z) : res Z :=
    let! i1 := uadd p i 1 in usub p (vlen v) i1.

  (* Vec::remove(k) / insert(k, a): panic when out of range *)
  Definition vremove (v : vec) (k : Z) : res (A * vec) :=
    let! a := vidx v k in Ok (a, del v (Z.to_nat k)).
  Definition vinsert (v : vec) (k : Z) (a : A) : res vec :=
    if (0 <=? k) && (k <=? vlen v) then Ok (ins v (Z.to_nat k) a) else Panic.

  Definition s_new : vec := [].
  Definition s_from_vec (l : list A) : vec := l.
  Definition s_size (v : vec) : Z := vlen v.
  Definition s_to_list (v : vec) : list A := rev v.       (* to_string order: top first *)

  Definition s_last_eq (v : vec) (a : A) : bool :=
    match rev v with x :: _ => eqA a x | [] => false end.

  (* equal_at, as repaired by the `fix:` commit (guard i >= size) *)
  Definition s_equal_at (p : profile) (v : vec) (i : Z) (a : A) : res (option bool) :=
    if vlen v <=? i then Ok None
    else let! k := slot p v i in let! x := vidx v k in Ok (Some (streq x a)).

  (* equal_at as on the pinned tree (guard i > size): kept for the history lemma *)
  Definition s_equal_at_pinned (p : profile) (v : vec) (i : Z) (a : A) : res (option bool) :=
    if vlen v <? i then Ok None
    else let! k := slot p v i in let! x := vidx v k in Ok (Some (streq x a)).

  Definition s_bottom (v : vec) : option A :=
    if 0 <? vlen v then nth_error v 0 else None.

  Definition s_flush (v : vec) : vec := [].

  (* Result<(), usize> : inl () = Ok, inr d = Err d *)
  Definition s_replace (p : profile) (v : vec) (i : Z) (a : A) : res (vec * option Z) :=
    if i <? vlen v then
      let! k := slot p v i in
      let! _ := vidx v k in
      Ok (upd v (Z.to_nat k) a, None)
    else Ok (v, Some (Z.min (two64 - 1) (i - vlen v + 1))).         (* diff.saturating_add(1) *)

  Definition s_remove (p : profile) (v : vec) (i : Z) : res vec :=
    if i <? vlen v then
      let! k := slot p v i in let! r := vremove v k in Ok (snd r)
    else Ok v.

  Definition s_reverse (v : vec) : vec := rev v.

  Definition s_get (p : profile) (v : vec) (i : Z) : res (option A) :=
    if i <? vlen v then
      let! k := slot p v i in let! x := vidx v k in Ok (Some x)
    else Ok None.

  Definition s_push (v : vec) (a : A) : vec := v ++ [a].
  Definition s_push_front (v : vec) (a : A) : vec := a :: v.

  Definition s_yank (p : profile) (v : vec) (i : Z) : res vec :=
    if (0 <? i) && (i <? vlen v) then
      let! k := slot p v i in
      let! r := vremove v k in
      Ok (snd r ++ [fst r])
    else Ok v.

  Definition s_pop (v : vec) : option A * vec :=
    match rev v with
    | [] => (None, v)
    | x :: r => (Some x, rev r)
    end.

  Definition s_shove (p : profile) (v : vec) (i : Z) : res vec :=
    if (0 <? i) && (i <? vlen v) then
      match s_pop v with
      | (Some el, v') =>
          let! k := usub p (vlen v') i in
          vinsert v' k el
      | (None, v') => Ok v'
      end
    else Ok v.

  (* Vec::swap on raw indices *)
  Definition s_swap (v : vec) (i j : Z) : res vec :=
    let! a := vidx v i in
    let! b := vidx v j in
    Ok (upd (upd v (Z.to_nat i) b) (Z.to_nat j) a).

  Definition s_pop_front (v : vec) : option A * vec :=
    match v with
    | [] => (None, v)
    | x :: r => (Some x, r)
    end.

  (* split_off(len - n) *)
  Definition s_pop_vec (p : profile) (v : vec) (n : Z) : res (option (list A) * vec) :=
    if vlen v <? n then Ok (None, v)
    else let! k := usub p (vlen v) n in
         Ok (Some (skipn (Z.to_nat k) v), firstn (Z.to_nat k) v).

  Definition s_copy (p : profile) (v : vec) (i : Z) : res (option A) :=
    if vlen v =? 0 then Ok None
    else let! m := usub p (vlen v) 1 in
         if m <? i then Ok None
         else let! k := slot p v i in let! x := vidx v k in Ok (Some x).

  (* for i in 0..n { cpy.push(elements[size - n + i]) } *)
  Fixpoint copy_loop (p : profile) (v : vec) (n : Z) (cnt : nat) (i : Z) : res (list A) :=
    match cnt with
    | O => Ok []
    | S c =>
        let! b := usub p (vlen v) n in
        let! k := uadd p b i in
        let! x := vidx v k in
        let! r := copy_loop p v n c (i + 1) in
        Ok (x :: r)
    end.
  Definition s_copy_vec (p : profile) (v : vec) (n : Z) : res (option (list A)) :=
    if vlen v <? n then Ok None
    else let! l := copy_loop p v n (Z.to_nat n) 0 in Ok (Some l).

  Definition s_push_vec (v : vec) (l : list A) : vec := v ++ l.

End Stack.

Arguments vec A : clear implicits.

(* The ring buffer as a state machine over the operation vocabulary of
   Spec/BufSpec.v: each operation calls the modelled Rust method. *)
From Coq Require Import ZArith List Bool Lia.
From PushModel Require Import Base.Sx Base.Machine Model.Buffer Spec.BufSpec.
Import ListNotations.
Open Scope Z_scope.

Section BufferMachine.
  Context {A : Type}.
  Variable default : A.

  Definition bimpl_step (p : profile) (b : buf A) (o : bop A) : res (buf A * bout A) :=
    match o with
    | BCapacity => Ok (b, VZ (b_capacity b))
    | BSize => Ok (b, VZ (b_size b))
    | BToString => let! l := b_to_string p b in Ok (b, VL l)
    | BCopy i => let! r := b_copy p b i in Ok (b, VOA r)
    | BCopyOldest => let! r := b_copy_oldest b in Ok (b, VOA r)
    | BFlush => Ok (b_flush default b, VUnit)
    | BGet i => let! r := b_get p b i in Ok (b, VOA r)
    | BPush a => let! b' := b_push p b a in Ok (b', VUnit)
    | BPushForce a => let! b' := b_push_force p b a in Ok (b', VUnit)
    | BPop => let! r := b_pop default p b in Ok (snd r, VOA (fst r))
    | BPeekOldest => Ok (b, VOA (b_peek_oldest b))
    | BPeekNewest => let! r := b_peek_newest p b in Ok (b, VOA r)
    | BIter => let! l := b_iter p b in Ok (b, VL l)
    | BIsEmpty => Ok (b, VB (b_is_empty b))
    | BIsFull => Ok (b, VB (b_is_full b))
    end.

  Fixpoint bimpl_run (p : profile) (b : buf A) (ops : list (bop A)) : res (buf A * list (bout A)) :=
    match ops with
    | [] => Ok (b, [])
    | o :: r =>
        let! s := bimpl_step p b o in
        let! t := bimpl_run p (fst s) r in
        Ok (fst t, snd s :: snd t)
    end.
End BufferMachine.

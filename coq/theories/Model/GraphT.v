(* The data of a Graph value as the state model carries it (graph.rs: Graph):
   nodes id -> state, edges destination id -> list of (origin id, weight bits).
   Operations and theorems: Model/Graph.v (C18). *)
From Coq Require Import ZArith List.
From PushModel Require Import Base.F32.
Open Scope Z_scope.

Record graph := {
  g_nodes : list (Z * Z);                       (* (node id, state) *)
  g_edges : list (Z * list (Z * f32)) }.        (* (destination, [(origin, weight)]) *)
Definition empty_graph : graph := {| g_nodes := nil; g_edges := nil |}.

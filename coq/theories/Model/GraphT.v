(* The graph values carried by the state are those of Model/Graph.v (C18). *)
From PushModel Require Export Model.Graph.
Definition empty_graph : graph := g_new.

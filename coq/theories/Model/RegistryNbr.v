(* Registry table of the four LIST.NEIGHBOR* instructions (load_list_instructions,
   src/push/list.rs).  They depend on the build profile through the topology
   model (`powf(2.0)` in euclidean_distance), hence [purep]. *)
From Coq Require Import ZArith String List Bool.
From PushModel Require Import Base.Sx Base.Machine Base.ListOps Base.F32 Model.Item Model.GraphT Model.State
  Model.InstrBase Model.Registry Model.INeighbor.
Import ListNotations.
Open Scope Z_scope.
Open Scope string_scope.

Section RegistryNbr.
  Context {FO : FloatOps}.

  Definition tbl_nbr : list (string * sem) :=
    [ ("LIST.NEIGHBOR*IDS", purep list_neighbor_ids);
      ("LIST.NEIGHBOR*BVALS", purep list_neighbor_bvals);
      ("LIST.NEIGHBOR*IVALS", purep list_neighbor_ivals);
      ("LIST.NEIGHBOR*FVALS", purep list_neighbor_fvals) ].
End RegistryNbr.

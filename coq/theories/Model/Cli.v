(* Model of src/main.rs, the command-line front end:
     parse_program(&mut push_state, &instruction_set, &input);
     PushParser::copy_to_code_stack(&mut push_state);            (parser.rs:45 = interpreter.rs:18)
     push_state.name_bindings.insert("BIN", Item::id(args[0]));
     loop { print EXEC / CODE / INT; if PushInterpreter::step(..) { break; } }
   There is no step limit, no time limit and no growth cap: the loop ends only when
   step reports completion.  [cli_watch k] is what an observer sees who follows the
   loop for at most k iterations. *)
From Coq Require Import ZArith String List Bool.
From PushModel Require Import Base.Sx Base.Machine Base.F32 Model.Item Model.GraphT Model.State
  Model.InstrBase Model.Registry Model.Interp.
Import ListNotations.
Open Scope string_scope.

Definition BIN : str := s2l "BIN".

(* the state in which the loop is entered, given the state the parser left and argv[0] *)
Definition cli_init (arg0 : str) (s0 : state) : state :=
  let s1 := copy_to_code s0 in set_bind s1 (bind_set (st_bind s1) BIN (IName arg0)).

Definition cli_watch (p : profile) (reg : registry) (k : nat) (w : world) (arg0 : str) (s0 : state)
  : res (bool * world * state) :=
  steps p reg k w (cli_init arg0 s0).

(* the three lines printed before every step *)
Section Print.
  Context {FO : FloatOps}.
  Definition cli_lines (s : state) : str * str * str :=
    (items_str (st_exec s), items_str (st_code s), stack_str (map z_str (st_int s))).
End Print.

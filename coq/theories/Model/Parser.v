(* Model of src/push/parser.rs (PushParser::parse_program, parse_vector,
   rec_push) as written, on strings = lists of Unicode scalar values.

   The EXEC stack and every child list are TOP-FIRST (Model/Item.v), so
     push_front (insert at Vec index 0 = bottom)   is   l ++ [x]
     bottom_mut (Vec element 0)                    is   the LAST element of l
     push (Vec::push = top)                        is   x :: l.

   Two defects of the pinned tree are repaired (fix: commits, see Props/C03.v):
   the byte slice &token[k..token.len()-1] panicked for "INT[" / a multi-byte
   last scalar, and `depth -= 1` underflowed on an unmatched ")".  [pinned =
   true] is the code of the pinned tree, [pinned = false] the repaired code
   (token.get(k..len-1) -> None -> literal dropped; depth.saturating_sub(1)). *)
From Coq Require Import ZArith List Bool Lia.
From PushModel Require Import Base.Sx Base.Machine Base.F32 Model.Item Model.State.
Import ListNotations.
Open Scope Z_scope.

(* ---- strings: UTF-8 byte lengths and byte slices ---- *)
Definition utf8_len (c : Z) : Z :=
  if c <? 128 then 1 else if c <? 2048 then 2 else if c <? 65536 then 3 else 4.
Definition str_bytes (s : str) : Z := fold_right (fun c a => utf8_len c + a) 0 s.

(* remove exactly n bytes from the front; None when n is past the end or inside a scalar *)
Fixpoint drop_bytes (s : str) (n : Z) : option str :=
  if n =? 0 then Some s
  else match s with
       | [] => None
       | c :: r => if utf8_len c <=? n then drop_bytes r (n - utf8_len c) else None
       end.
(* the first n bytes; None when n is past the end or inside a scalar *)
Fixpoint take_bytes (s : str) (n : Z) : option str :=
  if n =? 0 then Some []
  else match s with
       | [] => None
       | c :: r => if utf8_len c <=? n
                   then match take_bytes r (n - utf8_len c) with Some t => Some (c :: t) | None => None end
                   else None
       end.
(* str::get(a..b) *)
Definition slice_opt (s : str) (a b : Z) : option str :=
  if b <? a then None
  else match drop_bytes s a with
       | Some r => take_bytes r (b - a)
       | None => None
       end.
(* &s[a..b] : panics where get returns None *)
Definition slice_bytes (s : str) (a b : Z) : res str :=
  match slice_opt s a b with Some r => Ok r | None => Panic end.

Fixpoint starts_with (pre s : str) : bool :=
  match pre, s with
  | [], _ => true
  | a :: pr, b :: r => (a =? b) && starts_with pr r
  | _ :: _, [] => false
  end.

(* ---- str::split_whitespace ----
   [sw s] = (the token that starts at the head of s, possibly empty; the tokens after it) *)
Definition cons_ne (t : str) (ts : list str) : list str :=
  match t with [] => ts | _ :: _ => t :: ts end.
Fixpoint sw (s : str) : str * list str :=
  match s with
  | [] => ([], [])
  | c :: r => let '(t, ts) := sw r in
              if is_ws c then ([], cons_ne t ts) else (c :: t, ts)
  end.
Definition split_ws (s : str) : list str := let '(t, ts) := sw s in cons_ne t ts.

(* ---- str::split(",") : always at least one piece ---- *)
Fixpoint split_on' (sep : Z) (s : str) : str * list str :=
  match s with
  | [] => ([], [])
  | c :: r => let '(t, ts) := split_on' sep r in
              if c =? sep then ([], t :: ts) else (c :: t, ts)
  end.
Definition split_on (sep : Z) (s : str) : list str := let '(t, ts) := split_on' sep s in t :: ts.

(* ---- i32::from_str : [+-]? digit+ , overflow is an error ---- *)
Definition is_dig (c : Z) : bool := (48 <=? c) && (c <=? 57).
Fixpoint digits_val (s : str) (acc : Z) : option Z :=
  match s with
  | [] => Some acc
  | c :: r => if is_dig c then digits_val r (acc * 10 + (c - 48)) else None
  end.
Definition parse_i32 (s : str) : option Z :=
  let '(neg, body) := match s with
                      | 45 :: r => (true, r)
                      | 43 :: r => (false, r)
                      | _ => (false, s)
                      end in
  match body with
  | [] => None
  | _ :: _ => match digits_val body 0 with
              | Some v => let z := if neg then - v else v in
                          if in_i32 z then Some z else None
              | None => None
              end
  end.

(* ---- token constants ---- *)
Definition s_INT : str := [73; 78; 84; 91].             (* INT[   *)
Definition s_FLOAT : str := [70; 76; 79; 65; 84; 91].   (* FLOAT[ *)
Definition s_BOOL : str := [66; 79; 79; 76; 91].        (* BOOL[  *)
Definition s_open : str := [40].
Definition s_close : str := [41].
Definition s_1 : str := [49].
Definition s_0 : str := [48].
Definition s_true_lc : str := [116; 114; 117; 101].
Definition s_false_lc : str := [102; 97; 108; 115; 101].

Fixpoint map_opt {A B} (f : A -> option B) (l : list A) : option (list B) :=
  match l with
  | [] => Some []
  | x :: r => match f x with
              | Some y => match map_opt f r with Some ys => Some (y :: ys) | None => None end
              | None => None
              end
  end.

(* ---- rec_push ----
   [rec_push_in b x d] is rec_push(items, x, d) for the list item b = List{items}
   (and `false` for a non-list b: "No more list found but depth > 0"). *)
Fixpoint rec_push_in (b x : item) (d : Z) {struct b} : item * bool :=
  match b with
  | IList items =>
      if d =? 0 then (IList (items ++ [x]), true)                  (* stack.push_front(item) *)
      else
        let '(l', ok) :=
          (fix go (l : list item) : list item * bool :=
             match l with
             | [] => ([x], true)                                   (* empty stack: stack.push(item) *)
             | b' :: r =>
                 match r with
                 | [] => let '(b'', ok) := rec_push_in b' x (d - 1) in ([b''], ok)   (* bottom_mut() *)
                 | _ :: _ => let '(r', ok) := go r in (b' :: r', ok)
                 end
             end) items in
        (IList l', ok)
  | _ => (b, false)
  end.
Definition rec_push (l : list item) (x : item) (d : Z) : list item * bool :=
  let '(t, ok) := rec_push_in (IList l) x d in
  (match t with IList l' => l' | _ => l end, ok).
(* parse_program ignores the returned flag *)
Definition push_at (l : list item) (x : item) (d : Z) : list item := fst (rec_push l x d).

Inductive vtype := VBool | VInt | VFloat.

Section Parser.
  Context {FO : FloatOps}.
  Variable pinned : bool.
  Variable p : profile.
  Variable names : list str.      (* the registered instruction names *)

  Definition is_instr (tok : str) : bool := existsb (str_eqb tok) names.

  Definition bool_el (s : str) : option bool :=
    if str_eqb s_1 s || str_eqb s_true_lc s then Some true
    else if str_eqb s_0 s || str_eqb s_false_lc s then Some false
    else None.

  (* parse_vector: the literal the elements denote, None = "return" (token ignored) *)
  Definition parse_vector (vt : vtype) (body : str) : option lit :=
    let els := split_on 44 body in
    match vt with
    | VBool => option_map LBoolVec (map_opt bool_el els)
    | VInt => option_map LIntVec (map_opt parse_i32 els)
    | VFloat => option_map LFloatVec (map_opt fparse els)
    end.

  Definition push_vector (e : list item) (d : Z) (vt : vtype) (body : str) : list item :=
    match parse_vector vt body with
    | Some v => push_at e (ILit v) d
    | None => e
    end.

  (* &token[k..token.len()-1] (pinned) / token.get(k..token.len()-1) (repaired) *)
  Definition vec_body (tok : str) (k : Z) : res (option str) :=
    if pinned then let! b := slice_bytes tok k (str_bytes tok - 1) in Ok (Some b)
    else Ok (slice_opt tok k (str_bytes tok - 1)).
  (* depth -= 1 (pinned) / depth = depth.saturating_sub(1) (repaired) *)
  Definition close_depth (d : Z) : res Z :=
    if pinned then usub p d 1 else Ok (if d =? 0 then 0 else d - 1).

  Definition vec_step (tok : str) (k : Z) (vt : vtype) (e : list item) (d : Z) : res (list item * Z) :=
    let! b := vec_body tok k in
    Ok (match b with Some body => push_vector e d vt body | None => e end, d).

  (* one iteration of the token loop *)
  Definition tok_step (tok : str) (e : list item) (d : Z) : res (list item * Z) :=
    if starts_with s_INT tok then vec_step tok 4 VInt e d
    else if starts_with s_FLOAT tok then vec_step tok 6 VFloat e d
    else if starts_with s_BOOL tok then vec_step tok 5 VBool e d
    else if str_eqb s_open tok then
      let e' := push_at e (IList []) d in
      let! d' := uadd p d 1 in Ok (e', d')
    else if str_eqb s_close tok then
      let! d' := close_depth d in Ok (e, d')
    else if is_instr tok then Ok (push_at e (IInstr tok) d, d)
    else match parse_i32 tok with
         | Some z => Ok (push_at e (ILit (LInt z)) d, d)
         | None =>
         match fparse tok with
         | Some f => Ok (push_at e (ILit (LFloat f)) d, d)
         | None =>
             if str_eqb tok s_true then Ok (push_at e (ILit (LBool true)) d, d)
             else if str_eqb tok s_false then Ok (push_at e (ILit (LBool false)) d, d)
             else Ok (push_at e (IName tok) d, d)
         end
         end.

  Fixpoint parse_tokens (toks : list str) (e : list item) (d : Z) : res (list item) :=
    match toks with
    | [] => Ok e
    | t :: r => let! st := tok_step t e d in parse_tokens r (fst st) (snd st)
    end.

  Definition parse_exec (e : list item) (text : str) : res (list item) :=
    parse_tokens (split_ws text) e 0.

  Definition parse_g (s : state) (text : str) : res state :=
    let! e := parse_exec (st_exec s) text in Ok (set_exec s e).
End Parser.

Definition parse_program {FO : FloatOps} := parse_g false.
Definition parse_program_pinned {FO : FloatOps} := parse_g true.

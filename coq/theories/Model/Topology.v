(* Model of /repo/src/push/topology.rs (Topology::euclidean_distance,
   decompose_index, find_neighbors), as repaired by fixes/C20-topology-nedge.patch:
   the edge length of the hypercube is the integer root [edge_length]
   (least e with e^ndim >= ntotal, by checked_pow), no longer
   ceil(powf(ntotal as f32, 1/ndim)).  The pinned float computation is kept as
   [nedge_pinned]; it overshoots on exact powers (125,3 -> 6), see
   C20_nedge_pinned_refuted in Suites/STopology.v.

   (Rust snippets in comments are written without the reference derefs.)
   usize is 64 bit.  `x.powf(2.0)` depends on the build: the debug binary calls
   libm's powf, which on the pinned toolchain differs from x*x in the last bit
   whenever x*x is not exactly representable (e.g. x = 5791); in the release
   binary LLVM rewrites pow(x, 2.0) into x * x.  Both were observed through
   euclidean_distance (coordinate differences above 4096 give different last
   bits in the two builds), so the squared term is [sq_term p]: the oracle
   ([libm2 FN_POWF]) under Debug, [fmul x x] under Release.  Nothing else here
   depends on the profile (`i as i32`, `as u32` are wrapping casts; checked_pow
   never panics).  Not modelled: the allocation `vec![0; ndim]` (capacity
   overflow panic / allocation failure for an operand-sized ndim) — that is
   DESIGN.md section 7 #27 (C15), not C20. *)
From Coq Require Import ZArith List Bool Lia.
From PushModel Require Import Base.Sx Base.Machine Base.F32.
Import ListNotations.
Open Scope Z_scope.

(* usize::checked_pow(self, exp: u32): None exactly when self^exp >= 2^64.
   The first three branches only keep the executable model from building
   astronomically large numbers (exp can be any u32); see checked_pow_spec. *)
Definition checked_pow (b n : Z) : option Z :=
  if n =? 0 then Some 1
  else if b =? 0 then Some 0
  else if b =? 1 then Some 1
  else if 64 <=? n then None
  else let p := b ^ n in if p <? two64 then Some p else None.

(* `i as u32` for a usize i *)
Definition usize_as_u32 (i : Z) : Z := i mod two32.

Definition f_two : f32 := 1073741824.            (* 2.0f32 = 0x40000000 *)

Section Topology.
  Context {FO : FloatOps}.

  (* ---- decompose_index ----
       let mut dindex = vec![0; ndim];
       for i in 0..ndim {
           if let Some(cp) = nedge.checked_pow(i as u32) { dindex[i] = index / cp % nedge; }
           else { return None; } }
       Some(dindex)
     `index / cp` panics for cp = 0 and `% nedge` for nedge = 0 (both only when nedge = 0). *)
  Fixpoint decompose_go (index nedge : Z) (k : nat) (i : Z) : res (option (list Z)) :=
    match k with
    | O => Ok (Some [])
    | S k' =>
        match checked_pow nedge (usize_as_u32 i) with
        | None => Ok None
        | Some cp =>
            if (cp =? 0) || (nedge =? 0) then Panic
            else
              let dg := (index / cp) mod nedge in
              match decompose_go index nedge k' (i + 1) with
              | Ok (Some l) => Ok (Some (dg :: l))
              | r => r
              end
        end
    end.
  Definition decompose_index (index nedge ndim : Z) : res (option (list Z)) :=
    decompose_go index nedge (Z.to_nat ndim) 0.

  (* ---- euclidean_distance ----
       if i1.len() != i2.len() { None } else {
         let mut dist = 0.0;
         for i in 0..i1.len() { dist += (i1[i] as f32 - i2[i] as f32).powf(2.0); }
         Some(f32::sqrt(dist)) } *)
  Definition sq_term (p : profile) (x : f32) : res f32 :=
    match p with
    | Debug => libm2 FN_POWF x f_two
    | Release => Ok (fmul x x)
    end.
  Fixpoint sqsum (p : profile) (acc : f32) (l1 l2 : list Z) : res f32 :=
    match l1, l2 with
    | a :: r1, b :: r2 =>
        let! s := sq_term p (fsub (f_of_usize a) (f_of_usize b)) in
        sqsum p (fadd acc s) r1 r2
    | _, _ => Ok acc
    end.
  Definition euclidean_distance (p : profile) (i1 i2 : list Z) : res (option f32) :=
    if negb (Nat.eqb (length i1) (length i2)) then Ok None
    else let! s := sqsum p f_zero i1 i2 in Ok (Some (fsqrt s)).

  (* ---- edge length (repaired code) ----
       fn edge_length(ntotal: usize, ndim: usize) -> usize {
           let d = ndim.min(64) as u32;
           let mut e: usize = 1;
           while e.checked_pow(d).map_or(false, |p| p < ntotal) { e += 1; }
           e }
     The loop leaves with e <= ntotal, so `e += 1` cannot overflow; the fuel
     ntotal is never exhausted (edge_length_is_iroot). *)
  Fixpoint edge_go (ntotal d : Z) (fuel : nat) (e : Z) : Z :=
    match fuel with
    | O => e
    | S f =>
        match checked_pow e d with
        | Some p => if p <? ntotal then edge_go ntotal d f (e + 1) else e
        | None => e
        end
    end.
  Definition edge_length (ntotal ndim : Z) : Z :=
    edge_go ntotal (Z.min ndim 64) (Z.to_nat ntotal) 1.

  (* the pinned computation:
       f32::ceil((ntotal as f32).powf(1.0 / ndim as f32)) as usize *)
  Definition nedge_pinned (ntotal ndim : Z) : res Z :=
    let! p := libm2 FN_POWF (f_of_usize ntotal) (fdiv f_one (f_of_usize ndim)) in
    Ok (f_to_usize (fceil p)).

  (* ---- find_neighbors ----
       if radius < 0.0 || ndim < 1 || ntotal < 1 || index > ntotal { return None; }
       let nedge = <edge>;
       if let Some(dindex) = decompose_index(index, &nedge, ndim) {
           let mut neighbors = vec![];
           for i in 0..ntotal {
               if let Some(di) = decompose_index(&i, &nedge, ndim) {
                   if let Some(dist) = euclidean_distance(&dindex, &di) {
                       if dist <= radius { neighbors.push(i as i32); } } } }
           return Some(IntVector::new(neighbors));
       } else { return None; } *)
  Fixpoint nbr_scan (p : profile) (nedge ndim : Z) (dindex : list Z) (radius : f32) (k : nat) (i : Z) : res (list Z) :=
    match k with
    | O => Ok []
    | S k' =>
        let! odi := decompose_index i nedge ndim in
        let! keep :=
          match odi with
          | None => Ok false
          | Some di =>
              let! od := euclidean_distance p dindex di in
              match od with
              | None => Ok false
              | Some dist => Ok (fle dist radius)
              end
          end in
        let! rest := nbr_scan p nedge ndim dindex radius k' (i + 1) in
        Ok (if keep then usize_as_i32 i :: rest else rest)
    end.

  Definition find_neighbors_with (p : profile) (nedge : Z) (ntotal ndim index : Z) (radius : f32) : res (option (list Z)) :=
    let! od := decompose_index index nedge ndim in
    match od with
    | None => Ok None
    | Some dindex =>
        let! l := nbr_scan p nedge ndim dindex radius (Z.to_nat ntotal) 0 in
        Ok (Some l)
    end.

  Definition nbr_guard (ntotal ndim index : Z) (radius : f32) : bool :=
    flt radius f_zero || (ndim <? 1) || (ntotal <? 1) || (ntotal <? index).

  Definition find_neighbors (p : profile) (ntotal ndim index : Z) (radius : f32) : res (option (list Z)) :=
    if nbr_guard ntotal ndim index radius then Ok None
    else find_neighbors_with p (edge_length ntotal ndim) ntotal ndim index radius.

  Definition find_neighbors_pinned (p : profile) (ntotal ndim index : Z) (radius : f32) : res (option (list Z)) :=
    if nbr_guard ntotal ndim index radius then Ok None
    else let! nedge := nedge_pinned ntotal ndim in
         find_neighbors_with p nedge ntotal ndim index radius.
End Topology.

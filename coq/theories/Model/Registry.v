(* The instruction registry: name -> semantics, one table per family.  The
   correspondence check asserts at run time that the names registered here and
   the names of InstructionSet::load().cache() are the same set. *)
From Coq Require Import ZArith String List Bool.
From PushModel Require Import Base.Sx Base.Machine Base.ListOps Base.F32 Model.Item Model.GraphT Model.State
  Model.InstrBase Model.IScalar Model.ICode.
Import ListNotations.
Open Scope Z_scope.
Open Scope string_scope.

(* what lies outside the PushState value: the process-wide node counter and the
   outcomes of the random number generator (consumed in order) *)
Record world := { w_next_node : Z; w_tape : list Z }.
Definition sem := profile -> world -> state -> res (world * state).

Section Registry.
  Context {FO : FloatOps}.

  Definition pure (f : instr) : sem := fun _ w s => let! s' := f s in Ok (w, s').
  Definition purep (f : profile -> instr) : sem := fun p w s => let! s' := f p s in Ok (w, s').

  Definition lit_bool (b : bool) := ILit (LBool b).
  Definition lit_int (z : Z) := ILit (LInt z).
  Definition lit_float (f : f32) := ILit (LFloat f).
  Definition lit_bvec (v : list bool) := ILit (LBoolVec v).
  Definition lit_ivec (v : list Z) := ILit (LIntVec v).
  Definition lit_fvec (v : list f32) := ILit (LFloatVec v).

  (* the nine uniform stack-manipulation instructions of one stack type *)
  Definition stack_family {A} (pre : string) (get : state -> list A) (set : state -> list A -> state)
    : list (string * sem) :=
    [ (pre ++ ".DUP", pure (g_dup get set)); (pre ++ ".POP", pure (g_pop get set));
      (pre ++ ".SWAP", pure (g_swap get set)); (pre ++ ".ROT", pure (g_rot get set));
      (pre ++ ".FLUSH", pure (g_flush set)); (pre ++ ".YANK", pure (g_yank get set));
      (pre ++ ".YANKDUP", pure (g_yankdup get set)); (pre ++ ".SHOVE", pure (g_shove get set)) ].

  Definition tbl_boolean : list (string * sem) :=
    stack_family "BOOLEAN" st_bool set_bool ++
    [ ("BOOLEAN.STACKDEPTH", pure (g_depth st_bool));
      ("BOOLEAN.DEFINE", pure (g_define st_bool set_bool lit_bool));
      ("BOOLEAN.=", pure boolean_eq); ("BOOLEAN.AND", pure boolean_and); ("BOOLEAN.OR", pure boolean_or);
      ("BOOLEAN.NOT", pure boolean_not); ("BOOLEAN.FROMFLOAT", pure boolean_from_float);
      ("BOOLEAN.FROMINTEGER", pure boolean_from_integer); ("BOOLEAN.ID", pure boolean_id) ].

  Definition tbl_integer : list (string * sem) :=
    stack_family "INTEGER" st_int set_int ++
    [ ("INTEGER.STACKDEPTH", pure integer_stack_depth);
      ("INTEGER.DEFINE", pure (g_define st_int set_int lit_int));
      ("INTEGER.%", pure integer_mod); ("INTEGER.*", pure integer_mul); ("INTEGER.+", pure integer_add);
      ("INTEGER.-", pure integer_sub); ("INTEGER./", pure integer_div); ("INTEGER.<", pure integer_lt);
      ("INTEGER.=", pure integer_eq); ("INTEGER.>", pure integer_gt); ("INTEGER.ABS", pure integer_abs);
      ("INTEGER.DDUP", pure integer_ddup); ("INTEGER.FROMBOOLEAN", pure integer_from_boolean);
      ("INTEGER.FROMFLOAT", pure integer_from_float); ("INTEGER.ID", pure integer_id);
      ("INTEGER.MAX", pure integer_max); ("INTEGER.MIN", pure integer_min) ].

  Definition tbl_float : list (string * sem) :=
    stack_family "FLOAT" st_float set_float ++
    [ ("FLOAT.STACKDEPTH", pure (g_depth st_float));
      ("FLOAT.DEFINE", pure (g_define st_float set_float lit_float));
      ("FLOAT.%", pure float_mod); ("FLOAT.*", pure float_mul); ("FLOAT.+", pure float_add);
      ("FLOAT.-", pure float_sub); ("FLOAT./", pure float_div); ("FLOAT.<", pure float_lt);
      ("FLOAT.=", pure float_eq); ("FLOAT.>", pure float_gt); ("FLOAT.COS", pure float_cos);
      ("FLOAT.EXP", pure float_exp); ("FLOAT.FROMBOOLEAN", pure float_from_boolean);
      ("FLOAT.FROMINTEGER", pure float_from_integer); ("FLOAT.ID", pure float_id);
      ("FLOAT.MAX", pure float_max); ("FLOAT.MIN", pure float_min); ("FLOAT.SIN", pure float_sin);
      ("FLOAT.TAN", pure float_tan) ].

  (* NAME has no DEFINE *)
  Definition tbl_name : list (string * sem) :=
    stack_family "NAME" st_name set_name ++
    [ ("NAME.STACKDEPTH", pure (g_depth st_name));
      ("NAME.=", pure name_equal); ("NAME.CAT", pure name_cat); ("NAME.ID", pure name_id);
      ("NAME.QUOTE", pure name_quote); ("NAME.SEND", pure name_send) ].

  Definition tbl_code : list (string * sem) :=
    stack_family "CODE" st_code set_code ++
    [ ("CODE.STACKDEPTH", pure (g_depth st_code));
      ("CODE.DEFINE", pure (g_define st_code set_code (fun t => t)));
      ("CODE.=", pure code_eq); ("CODE.APPEND", pure code_append); ("CODE.ATOM", pure code_atom);
      ("CODE.CAR", pure code_car); ("CODE.CDR", pure code_cdr); ("CODE.CONS", pure code_cons);
      ("CODE.CONTAINER", pure code_container); ("CODE.CONTAINS", pure code_contains);
      ("CODE.DEFINITION", pure code_definition); ("CODE.DISCREPANCY", pure code_discrepancy);
      ("CODE.DO", pure code_do); ("CODE.DO*", pure code_do_star); ("CODE.LOOP", pure code_loop);
      ("CODE.EXTRACT", purep code_extract); ("CODE.FROMBOOLEAN", pure code_from_bool);
      ("CODE.FROMFLOAT", pure code_from_float); ("CODE.FROMINTEGER", pure code_from_int);
      ("CODE.FROMNAME", pure code_from_name); ("CODE.ID", pure code_id); ("CODE.IF", pure code_if);
      ("CODE.INSERT", purep code_insert); ("CODE.LENGTH", pure code_length); ("CODE.LIST", pure code_list);
      ("CODE.MEMBER", pure code_member); ("CODE.NOOP", pure noop); ("CODE.NTH", pure code_nth);
      ("CODE.NULL", pure code_null); ("CODE.POSITION", pure code_position); ("CODE.PRINT", pure code_print);
      ("CODE.QUOTE", pure code_quote); ("CODE.SIZE", pure code_size); ("CODE.SUBST", pure code_subst) ].

  Definition tbl_exec : list (string * sem) :=
    stack_family "EXEC" st_exec set_exec ++
    [ ("EXEC.STACKDEPTH", pure (g_depth st_exec));
      ("EXEC.DEFINE", pure (g_define st_exec set_exec (fun t => t)));
      ("EXEC.=", pure exec_eq); ("EXEC.CMD", pure exec_cmd); ("EXEC.LOOP", pure exec_loop);
      ("EXEC.ID", pure exec_id); ("EXEC.IF", pure exec_if); ("EXEC.K", pure exec_k);
      ("EXEC.S", pure exec_s); ("EXEC.Y", pure exec_y) ].

  Definition tbl_index : list (string * sem) :=
    [ ("INDEX.CURRENT", pure index_current); ("INDEX.DEFINE", pure index_define);
      ("INDEX.DESTINATION", pure index_destination); ("INDEX.FLUSH", pure (g_flush set_index));
      ("INDEX.INCREASE", pure index_increase); ("INDEX.POP", pure (g_pop st_index set_index)) ].

  Definition tbl_core : list (string * sem) :=
    [ ("NOOP", pure noop) ] ++ tbl_boolean ++ tbl_integer ++ tbl_float ++ tbl_name ++ tbl_code ++ tbl_exec ++ tbl_index.
End Registry.

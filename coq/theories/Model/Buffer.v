(* Model of src/push/buffer.rs : PushBuffer<T>, the fixed-capacity ring buffer,
   as the record it is: a Vec of `capacity` cells plus the cursors `start`
   (next cell to write), `end` (oldest live cell) and `len`, with the modulo
   arithmetic, the usize subtractions and the `as i32` / `as usize` casts the
   Rust code performs.  Cursors and positions are usize values (Z in [0, 2^64)).
   Everything that indexes the Vec, unwraps, subtracts or takes a remainder
   returns [res].

   [b_to_string] models the code as REPAIRED by fixes/C17-buffer-to_string.patch
   (first printed slot is start-1); the code of the pinned tree (first printed
   slot is start) is kept as [b_to_string_pinned]. *)
From Coq Require Import ZArith List Bool Lia.
From PushModel Require Import Base.Sx Base.Machine Base.ListOps.
Import ListNotations.
Open Scope Z_scope.

Inductive kind := Queue | Stack.

(* `a % b` on usize: division by zero panics in every profile *)
Definition urem (a b : Z) : res Z := if b =? 0 then Panic else Ok (a mod b).

Section Buffer.
  Context {A : Type}.
  Variable default : A.              (* T::default() *)

  Record buf := mkbuf {
    cap : Z;                         (* capacity  *)
    cont : list A;                   (* container *)
    st : Z;                          (* start     *)
    en : Z;                          (* end       *)
    ln : Z;                          (* len       *)
    knd : kind                       (* buffer_type *)
  }.

  Definition clen (c : list A) : Z := Z.of_nat (length c).

  (* container[k] : panics out of range *)
  Definition cidx (c : list A) (k : Z) : res A :=
    if (0 <=? k) && (k <? clen c) then
      match nth_error c (Z.to_nat k) with Some a => Ok a | None => Panic end
    else Panic.
  (* container.get(k) *)
  Definition cget (c : list A) (k : Z) : option A :=
    if (0 <=? k) && (k <? clen c) then nth_error c (Z.to_nat k) else None.
  (* container[k] = a : panics out of range *)
  Definition cset (c : list A) (k : Z) (a : A) : res (list A) :=
    if (0 <=? k) && (k <? clen c) then Ok (upd c (Z.to_nat k) a) else Panic.

  (* for _ in 0..capacity { container.push(T::default()) } *)
  Definition fresh (capacity : Z) : list A := repeat default (Z.to_nat capacity).

  Definition b_new (k : kind) (capacity : Z) : buf :=
    mkbuf capacity (fresh capacity) 0 0 0 k.

  Definition b_capacity (b : buf) : Z := cap b.
  Definition b_size (b : buf) : Z := ln b.
  Definition b_is_empty (b : buf) : bool := ln b =? 0.
  Definition b_is_full (b : buf) : bool := ln b =? cap b.

  (* let mut index = self.start as i32 - X as i32;
     if index < 0 { index += self.capacity as i32; }   ... index as usize *)
  Definition back_slot (p : profile) (b : buf) (x : Z) : res Z :=
    let! d := sub32 p (usize_as_i32 (st b)) (usize_as_i32 x) in
    let! idx := (if d <? 0 then add32 p d (usize_as_i32 (cap b)) else Ok d) in
    Ok (i32_as_usize idx).

  (* to_string, as the list of cells it prints (each as " {}", then trim).
     Repaired code: index = start as i32 - (i + 1) as i32 *)
  Fixpoint to_string_loop (p : profile) (b : buf) (cnt : nat) (i : Z) : res (list A) :=
    match cnt with
    | O => Ok []
    | S c =>
        let! i1 := uadd p i 1 in
        let! k := back_slot p b i1 in
        let! x := cidx (cont b) k in
        let! r := to_string_loop p b c (i + 1) in
        Ok (x :: r)
    end.
  Definition b_to_string (p : profile) (b : buf) : res (list A) :=
    to_string_loop p b (Z.to_nat (b_size b)) 0.

  (* pinned tree: index = start as i32 - i as i32 *)
  Fixpoint to_string_loop_pinned (p : profile) (b : buf) (cnt : nat) (i : Z) : res (list A) :=
    match cnt with
    | O => Ok []
    | S c =>
        let! k := back_slot p b i in
        let! x := cidx (cont b) k in
        let! r := to_string_loop_pinned p b c (i + 1) in
        Ok (x :: r)
    end.
  Definition b_to_string_pinned (p : profile) (b : buf) : res (list A) :=
    to_string_loop_pinned p b (Z.to_nat (b_size b)) 0.

  (* fn get_index(&self, i) -> Option<usize> *)
  Definition b_get_index (p : profile) (b : buf) (i : Z) : res (option Z) :=
    if b_size b =? 0 then Ok None
    else
      let! m := usub p (b_size b) 1 in
      if m <? i then Ok None
      else match knd b with
           | Stack =>
               let! i1 := uadd p i 1 in
               let! k := back_slot p b i1 in
               Ok (Some k)
           | Queue =>
               let! s := uadd p (en b) i in
               let idx := usize_as_i32 s in
               let! c1 := usub p (cap b) 1 in
               let! idx := (if usize_as_i32 c1 <? idx then sub32 p idx (usize_as_i32 (cap b)) else Ok idx) in
               Ok (Some (i32_as_usize idx))
           end.

  (* copy / get / get_mut : same slot, container[index] *)
  Definition b_get (p : profile) (b : buf) (i : Z) : res (option A) :=
    let! o := b_get_index p b i in
    match o with
    | Some k => let! x := cidx (cont b) k in Ok (Some x)
    | None => Ok None
    end.
  Definition b_copy := b_get.
  Definition b_get_mut := b_get.

  Definition b_copy_oldest (b : buf) : res (option A) :=
    if negb (b_is_empty b) then let! x := cidx (cont b) (en b) in Ok (Some x) else Ok None.

  Definition b_flush (b : buf) : buf :=
    mkbuf (cap b) (fresh (cap b)) 0 0 0 (knd b).

  (* self.start += 1; self.start %= self.capacity; *)
  Definition inc_cursor (p : profile) (b : buf) (c : Z) : res Z :=
    let! c1 := uadd p c 1 in urem c1 (cap b).

  Definition b_push (p : profile) (b : buf) (a : A) : res buf :=
    if b_is_full b then Ok b
    else
      let! c := cset (cont b) (st b) a in
      let! l := uadd p (ln b) 1 in
      let! s := inc_cursor p b (st b) in
      Ok (mkbuf (cap b) c s (en b) l (knd b)).

  Definition b_push_force (p : profile) (b : buf) (a : A) : res buf :=
    let! c := cset (cont b) (st b) a in
    let! el := (if b_is_full b
                then let! e := inc_cursor p b (en b) in Ok (e, ln b)
                else let! l := uadd p (ln b) 1 in Ok (en b, l)) in
    let! s := inc_cursor p b (st b) in
    Ok (mkbuf (cap b) c s (fst el) (snd el) (knd b)).

  (* container.get_mut(k).unwrap() ; std::mem::take(cell) *)
  Definition take_cell (c : list A) (k : Z) : res (A * list A) :=
    match cget c k with
    | Some x => let! c' := cset c k default in Ok (x, c')
    | None => Panic
    end.

  Definition b_pop (p : profile) (b : buf) : res (option A * buf) :=
    let! o := b_get_index p b 0 in
    match o with
    | None => Ok (None, b)
    | Some k =>
        let! t := take_cell (cont b) k in
        let! l := usub p (ln b) 1 in
        match knd b with
        | Queue =>
            let! e := inc_cursor p b (en b) in
            Ok (Some (fst t), mkbuf (cap b) (snd t) (st b) e l (knd b))
        | Stack =>
            Ok (Some (fst t), mkbuf (cap b) (snd t) k (en b) l (knd b))
        end
    end.

  Definition b_peek_oldest (b : buf) : option A :=
    if negb (b_is_empty b) then cget (cont b) (en b) else None.

  Definition b_peek_newest (p : profile) (b : buf) : res (option A) :=
    if negb (b_is_empty b) then
      let! s := uadd p (st b) (cap b) in
      let! s1 := usub p s 1 in
      let! k := urem s1 (cap b) in
      Ok (cget (cont b) k)
    else Ok None.

  (* iter(): the items PushBufferIterator::next yields until it returns None.
     [cnt] is the iterator's `length` field (a structural counter here). *)
  Fixpoint iter_loop (p : profile) (b : buf) (cnt : nat) (cur : Z) : res (list A) :=
    match cnt with
    | O => Ok []
    | S c =>
        let result := cget (cont b) cur in
        let! cur' := inc_cursor p b cur in
        match result with
        | None => Ok []
        | Some x => let! r := iter_loop p b c cur' in Ok (x :: r)
        end
    end.
  Definition b_iter (p : profile) (b : buf) : res (list A) :=
    iter_loop p b (Z.to_nat (ln b)) (en b).

End Buffer.

Arguments buf A : clear implicits.

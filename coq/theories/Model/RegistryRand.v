(* Registry table of the instructions that read the random number generator
   (Model/IRand.v).  CODE.RAND draws instruction names from the
   InstructionCache handed to PushInterpreter::step; the table is therefore
   parametric in that list of names. *)
From Coq Require Import ZArith String List Bool.
From PushModel Require Import Base.Sx Base.Machine Base.F32 Model.Item Model.State Model.InstrBase Model.Registry
  Model.RandomGen Model.IRand.
Import ListNotations.
Open Scope string_scope.

Definition rand_names : list string :=
  [ "BOOLEAN.RAND"; "INTEGER.RAND"; "FLOAT.RAND"; "CODE.RAND"; "NAME.RAND"; "NAME.RANDBOUNDNAME";
    "BOOLVECTOR.RAND"; "INTVECTOR.RAND"; "FLOATVECTOR.RAND" ].

Section RegistryRand.
  Context {FO : FloatOps}.
  Definition tbl_rand (instrs : list str) : list (string * sem) :=
    [ ("BOOLEAN.RAND", boolean_rand); ("INTEGER.RAND", integer_rand); ("FLOAT.RAND", float_rand);
      ("CODE.RAND", code_rand instrs); ("NAME.RAND", name_rand); ("NAME.RANDBOUNDNAME", name_rand_bound);
      ("BOOLVECTOR.RAND", bool_vector_rand); ("INTVECTOR.RAND", int_vector_rand);
      ("FLOATVECTOR.RAND", float_vector_rand) ].
  Lemma tbl_rand_names instrs : map fst (tbl_rand instrs) = rand_names.
  Proof. reflexivity. Qed.

  (* the table of the pinned tree *)
  Definition tbl_rand_pinned (instrs : list str) : list (string * sem) :=
    [ ("BOOLEAN.RAND", boolean_rand); ("INTEGER.RAND", integer_rand); ("FLOAT.RAND", float_rand_pinned);
      ("CODE.RAND", code_rand_pinned instrs); ("NAME.RAND", name_rand); ("NAME.RANDBOUNDNAME", name_rand_bound);
      ("BOOLVECTOR.RAND", bool_vector_rand_pinned); ("INTVECTOR.RAND", int_vector_rand);
      ("FLOATVECTOR.RAND", float_vector_rand_pinned) ].
End RegistryRand.

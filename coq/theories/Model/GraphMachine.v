(* Graph histories as a state machine over the vocabulary of Spec/GraphSpec.v:
   every operation calls the modelled Rust method.  The world is the
   process-global node counter plus a few graph registers. *)
From Coq Require Import ZArith List Bool Lia.
From PushModel Require Import Base.Sx Base.Machine Base.ListOps Base.F32 Model.Graph Spec.GraphSpec.
Import ListNotations.
Open Scope Z_scope.

Record world : Type := mkW { w_next : Z; w_regs : list graph }.

Section GraphMachine.
  Context {FO : FloatOps}.

  Definition greg (w : world) (r : nat) : graph := nth r (w_regs w) g_new.
  Definition gset (w : world) (r : nat) (g : graph) : world := mkW (w_next w) (upd (w_regs w) r g).

  Definition g_step (w : world) (o : gop) : world * gout :=
    match o with
    | GNew r => (gset w r g_new, UUnit)
    | GClone a b => (gset w b (g_clone (greg w a)), UUnit)
    | GAddNode r st =>
        let '(g', id, next') := g_add_node_w (w_next w) (greg w r) st in
        (mkW next' (upd (w_regs w) r g'), UZ id)
    | GRemoveNode r id => (gset w r (g_remove_node (greg w r) id), UUnit)
    | GAddEdge r o d x => (gset w r (g_add_edge (greg w r) o d x), UUnit)
    | GRemoveEdge r o d => (gset w r (g_remove_edge (greg w r) o d), UUnit)
    | GGetState r id => (w, UOZ (g_get_state (greg w r) id))
    | GSetState r id st => (gset w r (g_set_state (greg w r) id st), UUnit)
    | GGetWeight r o d => (w, UOF (g_get_weight (greg w r) o d))
    | GSetWeight r o d x => (gset w r (g_set_weight (greg w r) o d x), UUnit)
    | GNodeSize r => (w, UZ (g_node_size (greg w r)))
    | GEdgeSize r => (w, UZ (g_edge_size (greg w r)))
    | GFilter r sts => (w, UIds (g_filter (greg w r) sts))
    | GDiff a b => (w, UDiff (g_diff (greg w a) (greg w b)))
    | GPreds r id sts => (w, UIds (g_preds (greg w r) id sts))
    | GSuccs r id sts => (w, UIds (g_succs (greg w r) id sts))
    | GNeigh r id sts => (w, UIds (g_neighbours (greg w r) id sts))
    end.

  Fixpoint g_run (w : world) (ops : list gop) : world * list gout :=
    match ops with
    | [] => (w, [])
    | o :: r =>
        let s := g_step w o in
        let t := g_run (fst s) r in
        (fst t, snd s :: snd t)
    end.
End GraphMachine.

(* the initial world: counter at [next], [n] empty registers *)
Definition w_init (next : Z) (n : nat) : world := mkW next (repeat g_new n).
Definition sw_init (next : Z) (n : nat) : sworld := mkSW next (repeat s_new n).

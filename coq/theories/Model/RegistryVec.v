(* The registry tables of the three vector families (load_vector_instructions,
   src/push/vector.rs:126-481), *.RAND excepted (Model/IRand.v).  The vector
   stacks have no ROT; DUP POP SWAP FLUSH YANK YANKDUP SHOVE STACKDEPTH DEFINE
   are the generic bodies of InstrBase (checked line by line against the code). *)
From Coq Require Import ZArith String List Bool.
From PushModel Require Import Base.Sx Base.Machine Base.ListOps Base.F32 Model.Item Model.GraphT Model.State
  Model.InstrBase Model.ICode Model.Registry Model.IVector.
Import ListNotations.
Open Scope Z_scope.
Open Scope string_scope.

Section RegistryVec.
  Context {FO : FloatOps}.

  (* the uniform stack-manipulation instructions of a vector stack: stack_family without ROT *)
  Definition vec_stack_family {A} (pre : string) (get : state -> list A) (set : state -> list A -> state)
    : list (string * sem) :=
    filter (fun e => negb (String.eqb (fst e) (pre ++ ".ROT"))) (stack_family pre get set).

  Definition tbl_bvec : list (string * sem) :=
    vec_stack_family "BOOLVECTOR" st_bvec set_bvec ++
    [ ("BOOLVECTOR.STACKDEPTH", pure (g_depth st_bvec));
      ("BOOLVECTOR.DEFINE", pure (g_define st_bvec set_bvec lit_bvec));
      ("BOOLVECTOR.GET", pure bvec_get); ("BOOLVECTOR.SET", pure bvec_set);
      ("BOOLVECTOR.AND", pure bvec_and); ("BOOLVECTOR.OR", pure bvec_or); ("BOOLVECTOR.NOT", pure bvec_not);
      ("BOOLVECTOR.COUNT", pure bvec_count); ("BOOLVECTOR.EQUAL", pure bvec_equal);
      ("BOOLVECTOR.ID", pure bvec_id); ("BOOLVECTOR.LENGTH", pure bvec_length);
      ("BOOLVECTOR.ONES", pure bvec_ones); ("BOOLVECTOR.ZEROS", pure bvec_zeros);
      ("BOOLVECTOR.ROTATE", pure bvec_rotate);
      ("BOOLVECTOR.SORT*ASC", pure bvec_sort_asc); ("BOOLVECTOR.SORT*DESC", pure bvec_sort_desc) ].

  Definition tbl_ivec : list (string * sem) :=
    vec_stack_family "INTVECTOR" st_ivec set_ivec ++
    [ ("INTVECTOR.STACKDEPTH", pure (g_depth st_ivec));
      ("INTVECTOR.DEFINE", pure (g_define st_ivec set_ivec lit_ivec));
      ("INTVECTOR.APPEND", pure ivec_append); ("INTVECTOR.BOOLINDEX", pure ivec_bool_index);
      ("INTVECTOR.GET", pure ivec_get); ("INTVECTOR.SET", pure ivec_set);
      ("INTVECTOR.+", pure ivec_add); ("INTVECTOR.-", pure ivec_sub);
      ("INTVECTOR.CONTAINS", pure ivec_contains); ("INTVECTOR.EMPTY", pure ivec_empty);
      ("INTVECTOR.EQUAL", pure ivec_equal); ("INTVECTOR.FROMINT", pure ivec_from_int);
      ("INTVECTOR.ID", pure ivec_id); ("INTVECTOR.ONES", pure ivec_ones); ("INTVECTOR.ZEROS", pure ivec_zeros);
      ("INTVECTOR.MEAN", pure ivec_mean); ("INTVECTOR.LENGTH", pure ivec_length);
      ("INTVECTOR.LOOP", pure ivec_loop); ("INTVECTOR.REMOVE", pure ivec_remove);
      ("INTVECTOR.ROTATE", pure ivec_rotate);
      ("INTVECTOR.SORT*ASC", pure ivec_sort_asc); ("INTVECTOR.SORT*DESC", pure ivec_sort_desc);
      ("INTVECTOR.SET*INSERT", pure ivec_set_insert); ("INTVECTOR.SUM", pure ivec_sum) ].

  Definition tbl_fvec : list (string * sem) :=
    vec_stack_family "FLOATVECTOR" st_fvec set_fvec ++
    [ ("FLOATVECTOR.STACKDEPTH", pure (g_depth st_fvec));
      ("FLOATVECTOR.DEFINE", pure (g_define st_fvec set_fvec lit_fvec));
      ("FLOATVECTOR.GET", pure fvec_get); ("FLOATVECTOR.SET", pure fvec_set);
      ("FLOATVECTOR.+", pure fvec_add); ("FLOATVECTOR.-", pure fvec_sub);
      ("FLOATVECTOR.*", pure fvec_mul); ("FLOATVECTOR./", pure fvec_div);
      ("FLOATVECTOR.*SCALAR", pure fvec_mul_scalar); ("FLOATVECTOR.APPEND", pure fvec_append);
      ("FLOATVECTOR.EMPTY", pure fvec_empty); ("FLOATVECTOR.EQUAL", pure fvec_equal);
      ("FLOATVECTOR.ID", pure fvec_id); ("FLOATVECTOR.LENGTH", pure fvec_length);
      ("FLOATVECTOR.MEAN", pure fvec_mean); ("FLOATVECTOR.ONES", pure fvec_ones);
      ("FLOATVECTOR.ZEROS", pure fvec_zeros); ("FLOATVECTOR.ROTATE", pure fvec_rotate);
      ("FLOATVECTOR.SINE", pure fvec_sine);
      ("FLOATVECTOR.SORT*ASC", pure fvec_sort_asc); ("FLOATVECTOR.SORT*DESC", pure fvec_sort_desc);
      ("FLOATVECTOR.SUM", pure fvec_sum) ].

  (* ---- the tables of the code as pinned (before fixes/C09-*.patch) ----
     BOOLVECTOR.ROTATE was bound to bool_vector_rand (no deterministic entry here: the
     pinned table simply lacks the name), FLOATVECTOR.SUM to float_vector_stack_depth. *)
  Definition override (t : list (string * sem)) (o : list (string * sem)) : list (string * sem) :=
    map (fun e => match List.find (fun e' => String.eqb (fst e') (fst e)) o with Some e' => e' | None => e end) t.

  Definition tbl_bvec_pinned : list (string * sem) :=
    filter (fun e => negb (String.eqb (fst e) "BOOLVECTOR.ROTATE"))
      (override tbl_bvec
        [ ("BOOLVECTOR.AND", purep bvec_and_pinned); ("BOOLVECTOR.OR", purep bvec_or_pinned);
          ("BOOLVECTOR.NOT", purep bvec_not_pinned) ]).
  Definition tbl_ivec_pinned : list (string * sem) :=
    override tbl_ivec
      [ ("INTVECTOR.+", purep ivec_add_pinned); ("INTVECTOR.-", purep ivec_sub_pinned);
        ("INTVECTOR.MEAN", purep ivec_mean_pinned); ("INTVECTOR.SUM", purep ivec_sum_pinned);
        ("INTVECTOR.ROTATE", pure ivec_rotate_pinned) ].
  Definition tbl_fvec_pinned : list (string * sem) :=
    override tbl_fvec
      [ ("FLOATVECTOR.+", purep fvec_add_pinned); ("FLOATVECTOR.-", purep fvec_sub_pinned);
        ("FLOATVECTOR.*", purep fvec_mul_pinned); ("FLOATVECTOR./", purep fvec_div_pinned);
        ("FLOATVECTOR.ROTATE", pure fvec_rotate_pinned); ("FLOATVECTOR.SINE", pure fvec_sine_pinned);
        ("FLOATVECTOR.SORT*ASC", pure fvec_sort_asc_pinned); ("FLOATVECTOR.SORT*DESC", pure fvec_sort_desc_pinned);
        ("FLOATVECTOR.SUM", pure (g_depth st_fvec)) ].
End RegistryVec.

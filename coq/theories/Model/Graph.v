(* Model of src/push/graph.rs lines 1-481 : Node, Edge, Graph (API level).

   Graph.nodes : HashMap<usize, Node>      -> association list id |-> state,
                                              kept sorted by id (canonical
                                              iteration order; the harness sorts
                                              whatever Rust yields in HashMap order)
   Graph.edges : HashMap<usize, Vec<Edge>> -> association list destination id |->
                                              incoming edges (origin, weight) in
                                              the Vec's order, sorted by destination
   A Node is created only by Node::new and inserted under its own node_id, so
   the key is the node id and the value is the state.  Weights are f32 bit
   patterns (Base/F32.v).  The process-global NODE_COUNTER is the explicit
   [next] argument of [g_add_node_w].  Nothing in this API can panic: the
   unwraps in Graph::diff are guarded by contains_key / contains, the index in
   get_weight / set_weight comes from position() on the same Vec. *)
From Coq Require Import ZArith List Bool Lia.
From PushModel Require Import Base.Sx Base.Machine Base.ListOps Base.F32.
Import ListNotations.
Open Scope Z_scope.

(* ---------------------------------------------------------------------- *)
(* HashMap<usize, V> as a key-sorted association list *)
Section ZMap.
  Context {V : Type}.
  Definition zmap := list (Z * V).

  (* get / contains_key *)
  Fixpoint zm_get (k : Z) (m : zmap) : option V :=
    match m with
    | [] => None
    | kv :: r => if fst kv =? k then Some (snd kv) else zm_get k r
    end.
  Definition zm_mem (k : Z) (m : zmap) : bool :=
    match zm_get k m with Some _ => true | None => false end.

  (* insert (also the write-back of a get_mut) *)
  Fixpoint zm_insert (k : Z) (v : V) (m : zmap) : zmap :=
    match m with
    | [] => [(k, v)]
    | kv :: r =>
        if k <? fst kv then (k, v) :: m
        else if k =? fst kv then (k, v) :: r
        else kv :: zm_insert k v r
    end.

  (* remove *)
  Definition zm_remove (k : Z) (m : zmap) : zmap :=
    filter (fun kv => negb (fst kv =? k)) m.

  (* len *)
  Definition zm_len (m : zmap) : Z := Z.of_nat (length m).
End ZMap.
Arguments zmap V : clear implicits.

(* iter_mut over the values *)
Definition zm_map_values {V W} (f : V -> W) (m : zmap V) : zmap W :=
  map (fun kv => (fst kv, f (snd kv))) m.

(* ---------------------------------------------------------------------- *)
(* Edge { origin_node_id, weight } ; PartialEq / Hash look at the origin only *)
Definition edge : Type := Z * f32.
Definition e_origin (e : edge) : Z := fst e.
Definition e_weight (e : edge) : f32 := snd e.
Definition edge_eqb (a b : edge) : bool := e_origin a =? e_origin b.

(* iter().position(|x| x == &Edge::new(o, 0.0)) *)
Fixpoint e_position (o : Z) (l : list edge) : option nat :=
  match l with
  | [] => None
  | x :: r => if e_origin x =? o then Some O else option_map S (e_position o r)
  end.
(* contains(&Edge::new(o, _)) *)
Definition e_contains (o : Z) (l : list edge) : bool :=
  existsb (fun x => e_origin x =? o) l.
(* iter().find(|&&x| x == Edge::new(o, 0.0)) *)
Definition e_find (o : Z) (l : list edge) : option edge :=
  find (fun x => e_origin x =? o) l.
(* if let Some(i) = position(..) { edges.remove(i) } *)
Definition e_remove_first (o : Z) (l : list edge) : list edge :=
  match e_position o l with Some k => del l k | None => l end.
(* retain(|x| x != &Edge::new(o, 0.0)) *)
Definition e_retain_ne (o : Z) (l : list edge) : list edge :=
  filter (fun x => negb (e_origin x =? o)) l.
(* if let Some(i) = position(..) { edges[i].set_weight(w) } *)
Definition e_set_first (o : Z) (w : f32) (l : list edge) : list edge :=
  match e_position o l with
  | Some k => match nth_error l k with
              | Some e => upd l k (e_origin e, w)
              | None => l
              end
  | None => l
  end.
(* if let Some(i) = position(..) { Some(edges[i].get_weight()) } *)
Definition e_get_first (o : Z) (l : list edge) : option f32 :=
  match e_position o l with
  | Some k => match nth_error l k with Some e => Some (e_weight e) | None => None end
  | None => None
  end.

(* ---------------------------------------------------------------------- *)
Record graph : Type := mkGraph {
  g_nodes : zmap Z;               (* node id |-> state *)
  g_edges : zmap (list edge)      (* destination id |-> incoming edges *)
}.

(* Graph::new / Default *)
Definition g_new : graph := mkGraph [] [].

(* Clone (derived): HashMap and Vec clones are deep *)
Definition g_clone (g : graph) : graph := g.

(* NODE_COUNTER.fetch_add(1, Relaxed): returns the old value, wraps at 2^64 *)
Definition counter_fetch_add (next : Z) : Z * Z := (next, wrap64u (next + 1)).

(* the body of add_node once Node::new has drawn [id] *)
Definition g_add_node (g : graph) (id state : Z) : graph :=
  mkGraph (zm_insert id state (g_nodes g)) (g_edges g).
(* add_node with the counter threaded through: (graph', returned id, next') *)
Definition g_add_node_w (next : Z) (g : graph) (state : Z) : graph * Z * Z :=
  let '(id, next') := counter_fetch_add next in (g_add_node g id state, id, next').

Definition g_remove_node (g : graph) (id : Z) : graph :=
  mkGraph (zm_remove id (g_nodes g))
          (zm_map_values (e_remove_first id) (zm_remove id (g_edges g))).

Definition g_add_edge (g : graph) (o d : Z) (w : f32) : graph :=
  if zm_mem o (g_nodes g) && zm_mem d (g_nodes g) then
    match zm_get d (g_edges g) with
    | Some es =>
        if e_contains o es then g
        else mkGraph (g_nodes g) (zm_insert d (es ++ [(o, w)]) (g_edges g))
    | None => mkGraph (g_nodes g) (zm_insert d [(o, w)] (g_edges g))
    end
  else g.

Definition g_remove_edge (g : graph) (o d : Z) : graph :=
  match zm_get d (g_edges g) with
  | Some es => mkGraph (g_nodes g) (zm_insert d (e_retain_ne o es) (g_edges g))
  | None => g
  end.

Definition g_get_state (g : graph) (id : Z) : option Z := zm_get id (g_nodes g).

Definition g_set_state (g : graph) (id state : Z) : graph :=
  match zm_get id (g_nodes g) with
  | Some _ => mkGraph (zm_insert id state (g_nodes g)) (g_edges g)
  | None => g
  end.

Definition g_get_weight (g : graph) (o d : Z) : option f32 :=
  match zm_get d (g_edges g) with
  | Some es => e_get_first o es
  | None => None
  end.

Definition g_set_weight (g : graph) (o d : Z) (w : f32) : graph :=
  match zm_get d (g_edges g) with
  | Some es => mkGraph (g_nodes g) (zm_insert d (e_set_first o w es) (g_edges g))
  | None => g
  end.

Definition g_node_size (g : graph) : Z := zm_len (g_nodes g).

Definition g_edge_size (g : graph) : Z :=
  fold_left (fun acc kv => acc + Z.of_nat (length (snd kv))) (g_edges g) 0.

(* filter: node ids (before the `as i32` cast), in key order; a node appears
   once per matching entry of [states] (the inner loop does not break) *)
Definition g_filter_ids (g : graph) (states : list Z) : list Z :=
  flat_map (fun n =>
              match states with
              | [] => [fst n]
              | _ => flat_map (fun s => if snd n =? s then [fst n] else []) states
              end) (g_nodes g).
Definition g_filter (g : graph) (states : list Z) : list Z :=
  map usize_as_i32 (g_filter_ids g states).

(* ---- reads the GRAPH.* instructions perform on the public fields -------- *)
(* graph.edges.get(&id) *)
Definition g_incoming (g : graph) (id : Z) : option (list edge) := zm_get id (g_edges g).
(* graph.nodes.get(&id) *)
Definition g_node (g : graph) (id : Z) : option Z := zm_get id (g_nodes g).
(* states.len() == 0 || states.contains(&st) *)
Definition state_sel (states : list Z) (st : Z) : bool :=
  match states with [] => true | _ => existsb (fun s => s =? st) states end.

(* predecessor loop of NODE*PREDECESSORS / NODE*NEIGHBORS, ids before `as i32`,
   in the Vec's order *)
Definition g_preds (g : graph) (id : Z) (states : list Z) : list Z :=
  match g_incoming g id with
  | Some es =>
      flat_map (fun e => match g_get_state g (e_origin e) with
                         | Some st => if state_sel states st then [e_origin e] else []
                         | None => []
                         end) es
  | None => []
  end.
(* successor loop of NODE*SUCCESSORS / NODE*NEIGHBORS, in key order *)
Definition g_succs (g : graph) (id : Z) (states : list Z) : list Z :=
  flat_map (fun kv => if e_contains id (snd kv) then
                        match g_node g (fst kv) with
                        | Some st => if state_sel states st then [fst kv] else []
                        | None => []
                        end
                      else []) (g_edges g).
Definition g_neighbours (g : graph) (id : Z) (states : list Z) : list Z :=
  g_preds g id states ++ g_succs g id states.

(* PartialEq for Graph: HashMap == HashMap with Node == (id only) and
   Vec<Edge> == (same length, same origins position by position) *)
Fixpoint edges_eqb (a b : list edge) : bool :=
  match a, b with
  | [], [] => true
  | x :: ra, y :: rb => edge_eqb x y && edges_eqb ra rb
  | _, _ => false
  end.
Definition g_eqb (a b : graph) : bool :=
  (zm_len (g_nodes a) =? zm_len (g_nodes b))
  && forallb (fun kv => zm_mem (fst kv) (g_nodes b)) (g_nodes a)
  && (zm_len (g_edges a) =? zm_len (g_edges b))
  && forallb (fun kv => match zm_get (fst kv) (g_edges b) with
                        | Some es => edges_eqb (snd kv) es
                        | None => false
                        end) (g_edges a).

(* ---------------------------------------------------------------------- *)
(* Graph::diff as a structured change list.  Text of one entry:
     NRem id st      "-N[ID: id, STATE: st]"
     NAdd id st      "+N[ID: id, STATE: st]"
     NChg id s s'    "~N[ID: id, s <= STATE => s']"
     ERem d o w      "-E[d <= [ONID: o, WEIGHT: w]]"
     EAdd d o w      "+E[d <= [ONID: o, WEIGHT: w]]"
     EChg d o w w'   "~E[d <= [ONID: o, w <= WEIGHT => w']]"
   whole text: "\nNODES(n):" entries "\nEDGES(m):" entries, each entry on its
   own line, separated by ",".  Entry order: left-hand loop, then right-hand
   loop, each in key order here (HashMap order in Rust). *)
Inductive nchange : Type :=
| NRem (id st : Z) | NAdd (id st : Z) | NChg (id st st' : Z).
Inductive echange : Type :=
| ERem (d o : Z) (w : f32) | EAdd (d o : Z) (w : f32) | EChg (d o : Z) (w w' : f32).

Section Diff.
  Context {FO : FloatOps}.

  (* Node::diff for two nodes stored under the same key (same node_id) *)
  Definition node_diff (id st st' : Z) : option nchange :=
    if st =? st' then None else Some (NChg id st st').

  (* Edge::diff : `==` on f32.  The left edge was found by its origin, so the
     origins agree and Some means the weights differ. *)
  Definition edge_diff (d : Z) (l r : edge) : option echange :=
    if (e_origin l =? e_origin r) && feq (e_weight l) (e_weight r) then None
    else Some (EChg d (e_origin r) (e_weight l) (e_weight r)).

  Definition diff_nodes (a b : graph) : list nchange :=
    flat_map (fun n => if zm_mem (fst n) (g_nodes b) then [] else [NRem (fst n) (snd n)]) (g_nodes a)
    ++ flat_map (fun n => match zm_get (fst n) (g_nodes a) with
                          | None => [NAdd (fst n) (snd n)]
                          | Some st => match node_diff (fst n) st (snd n) with
                                       | Some c => [c]
                                       | None => []
                                       end
                          end) (g_nodes b).

  Definition diff_edges (a b : graph) : list echange :=
    flat_map (fun kv =>
                match zm_get (fst kv) (g_edges b) with
                | None => map (fun e => ERem (fst kv) (e_origin e) (e_weight e)) (snd kv)
                | Some es' =>
                    flat_map (fun e => if e_contains (e_origin e) es' then []
                                       else [ERem (fst kv) (e_origin e) (e_weight e)]) (snd kv)
                end) (g_edges a)
    ++ flat_map (fun kv =>
                match zm_get (fst kv) (g_edges a) with
                | None => map (fun e => EAdd (fst kv) (e_origin e) (e_weight e)) (snd kv)
                | Some es =>
                    flat_map (fun e =>
                                if e_contains (e_origin e) es then
                                  match e_find (e_origin e) es with
                                  | Some l => match edge_diff (fst kv) l e with
                                              | Some c => [c]
                                              | None => []
                                              end
                                  | None => []      (* unreachable: contains *)
                                  end
                                else [EAdd (fst kv) (e_origin e) (e_weight e)]) (snd kv)
                end) (g_edges b).

  (* self.diff(other) ; None = "identical" *)
  Definition g_diff (a b : graph) : option (list nchange * list echange) :=
    let n := diff_nodes a b in
    let e := diff_edges a b in
    if Z.of_nat (length n) + Z.of_nat (length e) =? 0 then None else Some (n, e).
End Diff.

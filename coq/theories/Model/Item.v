(* Model of src/push/item.rs.  A code item is a rose tree; the children of a
   list are kept TOP-FIRST (items.get(i) is [nth i l]), i.e. in the order in
   which they are printed and executed.

   Not modelled: PushType::Graph literals.  No parser rule and no instruction
   ever builds one (Item::graph() has no caller outside the unit tests), so no
   reachable state contains one. *)
From Coq Require Import ZArith List Bool Lia.
From PushModel Require Import Base.Sx Base.Machine Base.ListOps Base.F32.
Import ListNotations.
Open Scope Z_scope.

Definition str := list Z.     (* Unicode scalar values *)

Inductive lit :=
| LBool (b : bool)
| LInt (z : Z)
| LIndex (cur dest : Z)
| LFloat (f : f32)
| LBoolVec (v : list bool)
| LIntVec (v : list Z)
| LFloatVec (v : list f32).

Inductive item :=
| IList (l : list item)
| IInstr (name : str)
| ILit (v : lit)
| IName (name : str).

(* induction principle for the nested type *)
Section ItemInd.
  Variable P : item -> Prop.
  Hypothesis HL : forall l, Forall P l -> P (IList l).
  Hypothesis HI : forall n, P (IInstr n).
  Hypothesis HV : forall v, P (ILit v).
  Hypothesis HN : forall n, P (IName n).
  Fixpoint item_ind' (t : item) : P t :=
    match t with
    | IList l => HL l ((fix go (l : list item) : Forall P l :=
                          match l with
                          | [] => Forall_nil P
                          | x :: r => Forall_cons x (item_ind' x) (go r)
                          end) l)
    | IInstr n => HI n
    | ILit v => HV v
    | IName n => HN n
    end.
End ItemInd.

Fixpoint str_eqb (a b : str) : bool :=
  match a, b with
  | [], [] => true
  | x :: ra, y :: rb => (x =? y) && str_eqb ra rb
  | _, _ => false
  end.

Fixpoint list_eqb {A} (e : A -> A -> bool) (a b : list A) : bool :=
  match a, b with
  | [], [] => true
  | x :: ra, y :: rb => e x y && list_eqb e ra rb
  | _, _ => false
  end.

(* ---- sizes ---- *)
Fixpoint size (t : item) : Z :=
  match t with
  | IList l => 1 + (fix go (l : list item) : Z :=
                      match l with [] => 0 | x :: r => size x + go r end) l
  | _ => 1
  end.
Definition sizes (l : list item) : Z := fold_right (fun x a => size x + a) 0 l.
Lemma size_list l : size (IList l) = 1 + sizes l.
Proof. cbn [size]. f_equal. Qed.

Definition shallow_size (t : item) : Z :=
  match t with IList l => Z.of_nat (length l) + 1 | _ => 1 end.

(* ---- traverse: depth-first point lookup with its Err(remaining) protocol ---- *)
Inductive tr := Found (t : item) | Rem (d : Z).

Fixpoint traverse (p : profile) (t : item) (d : Z) {struct t} : res tr :=
  if d =? 0 then Ok (Found t)
  else match t with
       | IList l =>
           (fix go (l : list item) (d : Z) {struct l} : res tr :=
              match l with
              | [] => Ok (Rem d)
              | x :: r =>
                  let! d1 := usub p d 1 in
                  let! nx := traverse p x d1 in
                  match nx with
                  | Found y => Ok (Found y)
                  | Rem nd => go r nd
                  end
              end) l d
       | _ => Ok (Rem d)
       end.
Definition traverse_list (p : profile) : list item -> Z -> res tr :=
  fix go (l : list item) (d : Z) {struct l} : res tr :=
    match l with
    | [] => Ok (Rem d)
    | x :: r =>
        let! d1 := usub p d 1 in
        let! nx := traverse p x d1 in
        match nx with
        | Found y => Ok (Found y)
        | Rem nd => go r nd
        end
    end.
Lemma traverse_unfold p t d :
  traverse p t d = if d =? 0 then Ok (Found t)
                   else match t with IList l => traverse_list p l d | _ => Ok (Rem d) end.
Proof. destruct t; reflexivity. Qed.

(* ---- insert: replace the point at depth-first index [d] ----
   Result<bool, usize>: IOk b / IErr remaining.  [insert] is the repaired code
   (replaces child number i of the enclosing list), [insert_pinned] the code of
   the pinned tree (replaces child number depth-1, the stale replace_idx). *)
Inductive ins_r := IOk (b : bool) | IErr (d : Z).

(* PushStack::replace on a child list (top-first); out of range is ignored *)
Definition replace_child (l : list item) (i : Z) (x : item) : list item :=
  if (0 <=? i) && (i <? Z.of_nat (length l)) then upd l (Z.to_nat i) x else l.

Section Insert.
  Variable pinned : bool.
  Fixpoint insert_g (p : profile) (t x : item) (d : Z) {struct t} : res (item * ins_r) :=
    if d =? 0 then Ok (t, IOk true)
    else match t with
         | IList l =>
             let! ridx := usub p d 1 in
             let! r :=
               (fix go (pre l : list item) (i d : Z) {struct l} : res (list item * ins_r) :=
                  match l with
                  | [] => Ok (rev pre, IErr d)
                  | c :: rest =>
                      let! d1 := usub p d 1 in
                      let! nx := insert_g p c x d1 in
                      match snd nx with
                      | IOk here =>
                          let l' := rev pre ++ fst nx :: rest in
                          Ok (if here then replace_child l' (if pinned then ridx else i) x else l', IOk false)
                      | IErr nd => go (fst nx :: pre) rest (i + 1) nd
                      end
                  end) [] l 0 d in
             Ok (IList (fst r), snd r)
         | _ => Ok (t, IErr d)
         end.
End Insert.
Definition insert := insert_g false.
Definition insert_pinned := insert_g true.

(* ---- literal and deep equality ---- *)
Section Eq.
  Context {FO : FloatOps}.

  Definition lit_equals (a b : lit) : bool :=
    match a, b with
    | LBool x, LBool y => Bool.eqb x y
    | LInt x, LInt y => x =? y
    | LIndex c1 d1, LIndex c2 d2 => (c1 =? c2) && (d1 =? d2)
    | LFloat x, LFloat y => feq x y
    | LBoolVec x, LBoolVec y => list_eqb Bool.eqb x y
    | LIntVec x, LIntVec y => list_eqb Z.eqb x y
    | LFloatVec x, LFloatVec y => list_eqb feq x y
    | _, _ => false
    end.

  Fixpoint equals (a b : item) {struct a} : bool :=
    match a, b with
    | IList la, IList lb =>
        (fix go (la lb : list item) {struct la} : bool :=
           match la, lb with
           | [], [] => true
           | x :: ra, y :: rb => equals x y && go ra rb
           | _, _ => false
           end) la lb
    | IInstr n, IInstr m => str_eqb n m
    | ILit v, ILit w => lit_equals v w
    | IName n, IName m => str_eqb n m
    | _, _ => false
    end.
  Definition equals_list : list item -> list item -> bool :=
    fix go (la lb : list item) {struct la} : bool :=
      match la, lb with
      | [], [] => true
      | x :: ra, y :: rb => equals x y && go ra rb
      | _, _ => false
      end.

  (* PartialEq for Item: same kind (and same literal type), values ignored *)
  Definition lit_kind (v : lit) : Z :=
    match v with LBool _ => 0 | LInt _ => 1 | LIndex _ _ => 2 | LFloat _ => 3
                 | LBoolVec _ => 4 | LIntVec _ => 5 | LFloatVec _ => 6 end.
  Definition shallow_eq (a b : item) : bool :=
    match a, b with
    | IList _, IList _ => true
    | IInstr _, IInstr _ => true
    | ILit v, ILit w => lit_kind v =? lit_kind w
    | IName _, IName _ => true
    | _, _ => false
    end.

  (* ---- substitute: (item', matched_here) ---- *)
  Fixpoint substitute (t pat sub : item) {struct t} : item * bool :=
    if equals t pat then (t, true)
    else match t with
         | IList l =>
             (IList ((fix go (l : list item) {struct l} : list item :=
                        match l with
                        | [] => []
                        | c :: r => let '(c', m) := substitute c pat sub in
                                    (if m then sub else c') :: go r
                        end) l), false)
         | _ => (t, false)
         end.

  (* ---- contains: index of pattern; [contains] repaired, [contains_pinned] as pinned ---- *)
  Section Contains.
    Variable pinned : bool.
    Fixpoint contains_g (t pat : item) (d : Z) {struct t} : option Z :=
      if equals t pat then Some d
      else match t with
           | IList l =>
               (fix go (l : list item) (d : Z) {struct l} : option Z :=
                  match l with
                  | [] => None
                  | c :: r =>
                      let d1 := d + 1 in
                      match contains_g c pat d1 with
                      | Some k => Some k
                      | None => go r (if pinned then d1 else d1 + (size c - 1))
                      end
                  end) l d
           | _ => None
           end.
  End Contains.
  Definition contains := contains_g false.
  Definition contains_pinned := contains_g true.

  (* ---- find: n-th shallow match in depth-first order; threads the counter ---- *)
  Fixpoint find (t pat : item) (cnt n : Z) {struct t} : option item * Z :=
    let hit := shallow_eq pat t in
    if hit && (cnt =? n) then (Some t, cnt)
    else
      let cnt := if hit then cnt + 1 else cnt in
      match t with
      | IList l =>
          (fix go (l : list item) (cnt : Z) {struct l} : option item * Z :=
             match l with
             | [] => (None, cnt)
             | c :: r => match find c pat cnt n with
                         | (Some y, k) => (Some y, k)
                         | (None, k) => go r k
                         end
             end) l cnt
      | _ => (None, cnt)
      end.

  (* ---- container: Result<Item, bool> ---- *)
  Inductive cont_r := COk (t : item) | CErr (b : bool).
  Fixpoint container (t pat : item) {struct t} : cont_r :=
    if equals t pat then CErr true
    else match t with
         | IList l =>
             (fix go (l : list item) {struct l} : cont_r :=
                match l with
                | [] => CErr false
                | c :: r => match container c pat with
                            | COk y => COk y
                            | CErr true => COk t
                            | CErr false => go r
                            end
                end) l
         | _ => CErr false
         end.
End Eq.

(* ---- printing (Display for Item, PushStack::to_string) ---- *)
Fixpoint pos_digits (fuel : nat) (n : Z) (acc : str) : str :=
  match fuel with
  | O => acc
  | S f => if n <? 10 then (48 + n) :: acc else pos_digits f (n / 10) ((48 + n mod 10) :: acc)
  end.
Definition nat_str (n : Z) : str := pos_digits (S (Z.to_nat (Z.log2 (Z.max n 1)))) n [].
Definition z_str (z : Z) : str := if z <? 0 then 45 :: nat_str (- z) else nat_str z.

Definition s_true : str := [84; 82; 85; 69].
Definition s_false : str := [70; 65; 76; 83; 69].
Definition bool_str (b : bool) : str := if b then s_true else s_false.

Fixpoint join (sep : str) (l : list str) : str :=
  match l with
  | [] => []
  | [x] => x
  | x :: r => x ++ sep ++ join sep r
  end.

(* char::is_whitespace *)
Definition is_ws (c : Z) : bool :=
  ((9 <=? c) && (c <=? 13)) || (c =? 32) || (c =? 133) || (c =? 160) || (c =? 5760) ||
  ((8192 <=? c) && (c <=? 8202)) || (c =? 8232) || (c =? 8233) || (c =? 8239) || (c =? 8287) || (c =? 12288).
Fixpoint trim_start (s : str) : str :=
  match s with c :: r => if is_ws c then trim_start r else s | [] => [] end.
Definition trim (s : str) : str := rev (trim_start (rev (trim_start s))).

Section Print.
  Context {FO : FloatOps}.
  Definition vec_str {A} (f : A -> str) (v : list A) : str :=
    [91] ++ join [44] (map f v) ++ [93].
  Definition lit_str (v : lit) : str :=
    match v with
    | LBool b => bool_str b
    | LInt z => z_str z
    | LIndex c d => z_str c ++ [47] ++ z_str d
    | LFloat f => ffmt 3 f
    | LBoolVec v => vec_str bool_str v
    | LIntVec v => vec_str z_str v
    | LFloatVec v => vec_str (ffmt 3) v
    end.
  (* a stack of printable things: " a b c" built by push_str(" x") then trim *)
  Definition stack_str (l : list str) : str := trim (concat (map (fun s => 32 :: s) l)).
  Fixpoint item_str (t : item) : str :=
    match t with
    | IList l => [40; 32] ++ stack_str ((fix go (l : list item) : list str :=
                                           match l with [] => [] | x :: r => item_str x :: go r end) l) ++ [32; 41]
    | IInstr n => n
    | ILit v => lit_str v
    | IName n => n
    end.
  Definition items_str (l : list item) : str := stack_str (map item_str l).
  Lemma item_str_list l : item_str (IList l) = [40; 32] ++ items_str l ++ [32; 41].
  Proof.
    cbn [item_str]. unfold items_str. do 3 f_equal.
  Qed.
  (* to_string equality, as used by equal_at *)
  Definition item_streq (a b : item) : bool := str_eqb (item_str a) (item_str b).
End Print.

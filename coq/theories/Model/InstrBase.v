(* Building blocks of the instruction model: abstract stack accessors on
   top-first lists (the PushStack methods as seen through the C16 refinement),
   and the nine stack-manipulation instructions written ONCE over a lens. *)
From Coq Require Import ZArith String Ascii List Bool.
From PushModel Require Import Base.Sx Base.Machine Base.ListOps Base.F32 Model.Item Model.GraphT Model.State.
Import ListNotations.
Open Scope Z_scope.

(* instruction names: Coq string literals converted to code points *)
Definition s2l (s : string) : str := map (fun a => Z.of_N (N_of_ascii a)) (list_ascii_of_string s).

Definition zlen {A} (l : list A) : Z := Z.of_nat (length l).

(* PushStack::copy / get (position from the top) *)
Definition l_copy {A} (l : list A) (i : Z) : option A :=
  if (0 <=? i) && (i <? zlen l) then nth_error l (Z.to_nat i) else None.
(* PushStack::yank *)
Definition l_yank {A} (l : list A) (i : Z) : list A :=
  if (0 <? i) && (i <? zlen l) then
    match nth_error l (Z.to_nat i) with
    | Some x => x :: del l (Z.to_nat i)
    | None => l
    end
  else l.
(* PushStack::shove *)
Definition l_shove {A} (l : list A) (i : Z) : list A :=
  if (0 <? i) && (i <? zlen l) then
    match l with
    | x :: r => ins r (Z.to_nat i) x
    | [] => l
    end
  else l.
(* PushStack::remove / replace *)
Definition l_remove {A} (l : list A) (i : Z) : list A :=
  if (0 <=? i) && (i <? zlen l) then del l (Z.to_nat i) else l.
Definition l_replace {A} (l : list A) (i : Z) (x : A) : list A :=
  if (0 <=? i) && (i <? zlen l) then upd l (Z.to_nat i) x else l.

(* `size() as i32` *)
Definition len32 {A} (l : list A) : Z := wrap32 (zlen l).

Definition instr := state -> res state.

(* ---- the stack-manipulation family over a lens ---- *)
Section Generic.
  Context {A : Type}.
  Variable get : state -> list A.
  Variable set : state -> list A -> state.

  Definition g_dup : instr := fun s =>
    match get s with x :: _ => Ok (set s (x :: get s)) | [] => Ok s end.
  Definition g_pop : instr := fun s =>
    match get s with _ :: r => Ok (set s r) | [] => Ok s end.
  Definition g_swap : instr := fun s => Ok (set s (l_shove (get s) 1)).
  Definition g_rot : instr := fun s => Ok (set s (l_yank (get s) 2)).
  Definition g_flush : instr := fun s => Ok (set s []).
  Definition g_depth : instr := fun s => Ok (set_int s (len32 (get s) :: st_int s)).
  (* the index is popped from INTEGER first; the clamp sees the stack after that *)
  Definition g_yank : instr := fun s =>
    match st_int s with
    | idx :: r => let s1 := set_int s r in
                  Ok (set s1 (l_yank (get s1) (clamp_idx idx (len32 (get s1)))))
    | [] => Ok s
    end.
  Definition g_shove : instr := fun s =>
    match st_int s with
    | idx :: r => let s1 := set_int s r in
                  Ok (set s1 (l_shove (get s1) (clamp_idx idx (len32 (get s1)))))
    | [] => Ok s
    end.
  Definition g_yankdup : instr := fun s =>
    match st_int s with
    | idx :: r => let s1 := set_int s r in
                  match l_copy (get s1) (clamp_idx idx (len32 (get s1))) with
                  | Some x => Ok (set s1 (x :: get s1))
                  | None => Ok s1
                  end
    | [] => Ok s
    end.
  (* T.DEFINE: name popped first, then the value; binds name -> literal/code item *)
  Variable to_item : A -> item.
  Definition g_define : instr := fun s =>
    match st_name s with
    | n :: nr => let s1 := set_name s nr in
                 match get s1 with
                 | v :: vr => Ok (set_bind (set s1 vr) (bind_set (st_bind s1) n (to_item v)))
                 | [] => Ok s1
                 end
    | [] => Ok s
    end.
End Generic.

Definition push_int (s : state) (z : Z) : state := set_int s (z :: st_int s).
Definition push_bool (s : state) (b : bool) : state := set_bool s (b :: st_bool s).
Definition push_float (s : state) (f : f32) : state := set_float s (f :: st_float s).
Definition push_code (s : state) (t : item) : state := set_code s (t :: st_code s).
Definition push_exec (s : state) (t : item) : state := set_exec s (t :: st_exec s).
Definition push_name (s : state) (n : str) : state := set_name s (n :: st_name s).

(* stack ids (state.rs) *)
Definition BOOL_ID := 1.  Definition BVEC_ID := 2.  Definition CODE_ID := 3.  Definition EXEC_ID := 4.
Definition FLOAT_ID := 5. Definition FVEC_ID := 6.  Definition INDEX_ID := 7. Definition INPUT_ID := 8.
Definition INT_ID := 9.   Definition IVEC_ID := 10. Definition NAME_ID := 11. Definition OUTPUT_ID := 12.

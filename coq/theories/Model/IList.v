(* Model of the LIST instruction bodies (src/push/list.rs), the four
   LIST.NEIGHBOR* instructions excepted (they need the topology model,
   Model/Topology.v, and live with it).

   A record is a list item on the CODE stack.  `Item::list(items)` makes the
   LAST element of the Rust vector the top of the list: the top-first child
   list of the record is [rev items]. *)
From Coq Require Import ZArith String List Bool.
From PushModel Require Import Base.Sx Base.Machine Base.ListOps Base.F32 Model.Item Model.GraphT Model.State Model.InstrBase.
Import ListNotations.
Open Scope Z_scope.

Section ListInstr.
  Context {FO : FloatOps}.

  (* ---- bval / ival / fval: the n-th shallow type match, default when absent ---- *)
  Definition pat_bool : item := ILit (LBool false).
  Definition pat_int : item := ILit (LInt 0).
  Definition pat_float : item := ILit (LFloat f_zero).

  Definition bval (t : item) (n : Z) : bool :=
    match fst (find t pat_bool 0 n) with Some (ILit (LBool b)) => b | _ => false end.
  Definition ival (t : item) (n : Z) : Z :=
    match fst (find t pat_int 0 n) with Some (ILit (LInt z)) => z | _ => 0 end.
  Definition fval (t : item) (n : Z) : f32 :=
    match fst (find t pat_float 0 n) with Some (ILit (LFloat f)) => f | _ => f_zero end.

  (* ---- load_items ---- *)
  (* one arm of the `match sid`: pop the designated stack, wrap the value as an
     item.  None = unknown id (INDEX, INPUT, OUTPUT ids included) or empty stack. *)
  Definition take_id (sid : Z) (s : state) : option (item * state) :=
    if sid =? BOOL_ID then
      match st_bool s with x :: r => Some (ILit (LBool x), set_bool s r) | [] => None end
    else if sid =? BVEC_ID then
      match st_bvec s with x :: r => Some (ILit (LBoolVec x), set_bvec s r) | [] => None end
    else if sid =? CODE_ID then
      match st_code s with x :: r => Some (x, set_code s r) | [] => None end
    else if sid =? EXEC_ID then
      match st_exec s with x :: r => Some (x, set_exec s r) | [] => None end
    else if sid =? FLOAT_ID then
      match st_float s with x :: r => Some (ILit (LFloat x), set_float s r) | [] => None end
    else if sid =? FVEC_ID then
      match st_fvec s with x :: r => Some (ILit (LFloatVec x), set_fvec s r) | [] => None end
    else if sid =? INT_ID then
      match st_int s with x :: r => Some (ILit (LInt x), set_int s r) | [] => None end
    else if sid =? IVEC_ID then
      match st_ivec s with x :: r => Some (ILit (LIntVec x), set_ivec s r) | [] => None end
    else if sid =? NAME_ID then
      match st_name s with x :: r => Some (IName x, set_name s r) | [] => None end
    else None.

  (* the `for &sid in &stack_ids.values` loop: the items in VECTOR order *)
  Fixpoint load_ids (ids : list Z) (s : state) : list item * state :=
    match ids with
    | [] => ([], s)
    | sid :: r =>
        match take_id sid s with
        | Some (x, s1) => let '(xs, s2) := load_ids r s1 in (x :: xs, s2)
        | None => load_ids r s
        end
    end.

  (* the id vector itself is popped first *)
  Definition load_items (s : state) : option (list item * state) :=
    match st_ivec s with
    | ids :: r => Some (load_ids ids (set_ivec s r))
    | [] => None
    end.

  (* Item::list(vec) *)
  Definition mk_record (items : list item) : item := IList (rev items).

  (* ---- instructions ---- *)
  Definition list_add : instr := fun s =>
    match load_items s with
    | Some (items, s1) => Ok (push_code s1 (mk_record items))
    | None => Ok s
    end.

  (* `i32::max(i32::min(size - 1, index), 0) as usize` on the CODE stack *)
  Definition record_pos (s : state) (idx : Z) : Z := clamp_idx idx (len32 (st_code s)).

  Definition list_remove : instr := fun s =>
    match st_int s with
    | idx :: r => let s1 := set_int s r in
                  Ok (set_code s1 (l_remove (st_code s1) (record_pos s1 idx)))
    | [] => Ok s
    end.

  Definition list_get : instr := fun s =>
    match st_int s with
    | idx :: r => let s1 := set_int s r in
                  match l_copy (st_code s1) (record_pos s1 idx) with
                  | Some (IList l) => Ok (push_exec s1 (IList l))
                  | _ => Ok s1
                  end
    | [] => Ok s
    end.

  (* pop_vec(2) = [second; top]: index[0] = second is the position, index[1] = top is n *)
  Definition list_val {A} (f : item -> Z -> A) (push : state -> A -> state) : instr := fun s =>
    match st_int s with
    | n :: idx :: r => let s1 := set_int s r in
                       match l_copy (st_code s1) (record_pos s1 idx) with
                       | Some t => Ok (push s1 (f t (i32_as_usize n)))
                       | None => Ok s1
                       end
    | _ => Ok s
    end.
  Definition list_bval := list_val bval push_bool.
  Definition list_ival := list_val ival push_int.
  Definition list_fval := list_val fval push_float.

  (* LIST.SET, repaired code: the position is popped first, then the designated
     items are taken, then the position is clamped into the CODE stack as it is
     NOW.  PushStack::replace ignores a position outside the stack (only
     possible when the CODE stack is empty: the new record is then dropped). *)
  Definition list_set : instr := fun s =>
    match st_int s with
    | idx :: r => let s1 := set_int s r in
                  match load_items s1 with
                  | Some (items, s2) =>
                      Ok (set_code s2 (l_replace (st_code s2) (record_pos s2 idx) (mk_record items)))
                  | None => Ok s1
                  end
    | [] => Ok s
    end.

  (* the code of the pinned tree: the position is clamped BEFORE load_items runs
     (which may pop CODE items): the position clamped with the stale size can lie
     outside the stack; the new record (and the items taken for it) is then dropped *)
  Definition list_set_pinned : instr := fun s =>
    match st_int s with
    | idx :: r => let s1 := set_int s r in
                  let pos := record_pos s1 idx in
                  match load_items s1 with
                  | Some (items, s2) => Ok (set_code s2 (l_replace (st_code s2) pos (mk_record items)))
                  | None => Ok s1
                  end
    | [] => Ok s
    end.
End ListInstr.

(* Model of src/push/random.rs (CodeGenerator), as repaired by the `fix:` commits
   of C12/C13; the code of the pinned tree is kept as *_pinned.

   RANDOMNESS IS AN EXPLICIT ORACLE.  The implementation draws from
   rand::thread_rng, which cannot be seeded without a source hook.  The model
   takes the outcomes of the generator from a TAPE (a [list Z], the field
   [w_tape] of the world), consumed front to back, one element per call of
   gen_range / Uniform::sample / rng.gen / rand::random / Normal::sample
   (a name taken from names::Generator consumes several, see [draw_name]):

   - [draw_range t lo hi]  (integer gen_range(lo..hi), Uniform::from(lo..hi)):
       Panic when lo >= hi  -- that is what rand does ("cannot sample empty
       range"); otherwise the value  lo + (x mod (hi - lo))  for the next tape
       element x.  So for EVERY tape the value lies in [lo, hi), and every
       value of [lo, hi) is produced by some tape (x := v - lo).
   - an exhausted tape answers 0 ([next]); nothing depends on that choice.
   - float draws are bit patterns taken from the tape, constrained by a stated
     predicate; a tape element outside the predicate is replaced by a fixed
     element that satisfies it:
       [draw_unit_f32]   rng.gen::<f32>()  : bits in [0, 0x3f800000), i.e. the
                         non-negative floats below 1.0 (for IEEE binary32 the
                         order of non-negative floats is the order of their bit
                         patterns; rand produces the multiples of 2^-24 among them)
       [draw_f32_range]  gen_range(lo..hi) on f32 : rand's contract
                         lo <= x < hi; Panic when not lo < hi and when hi - lo
                         is not finite (UniformFloat::sample_single asserts both)
       [draw_any_f32]    Normal::sample : any f32 (NaNs canonical)
   - [draw_name]  names::Generator::next().unwrap() ("adjective-noun"): an
     opaque NON-EMPTY string, nothing else is assumed: first code point, number
     k of further code points, then k elements of the tape.
   - existing_random_name picks the key with index gen_range(0..len) of
     HashMap::keys(), whose order is unspecified: the model indexes the
     association list [st_bind]; the SET of possible results (all bound names)
     does not depend on the enumeration order.

   Theorems (Proofs/Rand*.v) are stated for every tape, i.e. for every
   outcome of the random number generator. *)
From Coq Require Import ZArith String List Bool Lia.
From PushModel Require Import Base.Sx Base.Machine Base.ListOps Base.F32 Model.Item Model.GraphT Model.State
  Model.InstrBase.
Import ListNotations.
Open Scope Z_scope.

Definition tape := list Z.

Definition next (t : tape) : Z * tape :=
  match t with [] => (0, []) | x :: r => (x, r) end.

Definition draw_range (t : tape) (lo hi : Z) : res (Z * tape) :=
  if lo <? hi then Ok (lo + fst (next t) mod (hi - lo), snd (next t)) else Panic.

(* ---- float draws ---- *)
Definition unit_bits (b : Z) : bool := (0 <=? b) && (b <? 1065353216).
Definition draw_unit_f32 (t : tape) : f32 * tape :=
  ((if unit_bits (fst (next t)) then fst (next t) else 0), snd (next t)).

(* any 32-bit pattern, NaNs collapsed to the canonical one (Base/F32.v) *)
Definition canon_f32 (x : Z) : f32 :=
  let b := x mod two32 in
  if 2139095040 <? b mod 2147483648 then 2143289344 else b.
Definition draw_any_f32 (t : tape) : f32 * tape := (canon_f32 (fst (next t)), snd (next t)).

Definition f_half : f32 := 1056964608.     (* 0.5 *)
Definition f_100 : f32 := 1120403456.      (* 100.0 *)
Definition f_10000 : f32 := 1176256512.    (* 10000.0 *)

Definition noop_name : str := s2l "NOOP".

Section RandomGen.
  Context {FO : FloatOps}.

  (* lo <= x < hi; the first disjunct (bit equality with lo) is the value the
     model substitutes for a tape element that violates rand's contract *)
  Definition f_in_range (lo hi x : f32) : bool := (x =? lo) || (fle lo x && flt x hi).
  Definition draw_f32_range (t : tape) (lo hi : f32) : res (f32 * tape) :=
    if flt lo hi && f_is_finite (fsub hi lo) then
      let x := fst (next t) in
      Ok ((if fle lo x && flt x hi then x else lo), snd (next t))
    else Panic.

  (* f32::min : a NaN operand is ignored *)
  Definition fmin (a b : f32) : f32 :=
    if f_is_nan a then b else if f_is_nan b then a else if flt b a then b else a.
  (* `x as u32` : saturating, NaN -> 0 *)
  Definition f_to_u32 (x : f32) : Z := Z.min (f_to_usize x) 4294967295.

  (* ---- names ---- *)
  Definition draw_name (t : tape) : str * tape :=
    let c := fst (next t) in
    let t1 := snd (next t) in
    let t2 := snd (next t1) in
    let k := Z.to_nat (Z.min (fst (next t1)) (zlen t2)) in      (* at most what is left of the tape *)
    (c :: firstn k t2, skipn k t2).
  Definition new_random_name (t : tape) : str * tape := draw_name t.

  Definition existing_random_name (binds : list (str * item)) (t : tape) : res (str * tape) :=
    match binds with
    | [] => Ok (new_random_name t)
    | _ => let! r := draw_range t 0 (zlen binds) in
           Ok (fst (nth (Z.to_nat (fst r)) binds ([], IList [])), snd r)
    end.

  (* ---- scalars ---- *)
  (* [random_float]: the span guard is the repair; [random_float_pinned] is the pinned code *)
  Definition random_float (c : config) (t : tape) : res (option f32 * tape) :=
    let lo := cfg_min_rand_float c in
    let hi := cfg_max_rand_float c in
    if flt lo hi && f_is_finite (fsub hi lo) then
      let! r := draw_f32_range t lo hi in Ok (Some (fst r), snd r)
    else Ok (None, t).
  Definition random_float_pinned (c : config) (t : tape) : res (option f32 * tape) :=
    let lo := cfg_min_rand_float c in
    let hi := cfg_max_rand_float c in
    if flt lo hi then
      let! r := draw_f32_range t lo hi in Ok (Some (fst r), snd r)
    else Ok (None, t).

  Definition random_integer (c : config) (t : tape) : res (option Z * tape) :=
    if cfg_min_rand_int c <? cfg_max_rand_int c then
      let! r := draw_range t (cfg_min_rand_int c) (cfg_max_rand_int c) in Ok (Some (fst r), snd r)
    else Ok (None, t).

  (* ---- vectors ---- *)
  (* size draws from [lo, hi) *)
  Fixpoint draw_ints (k : nat) (t : tape) (lo hi : Z) : res (list Z * tape) :=
    match k with
    | O => Ok ([], t)
    | S k' => let! r := draw_range t lo hi in
              let! rs := draw_ints k' (snd r) lo hi in
              Ok (fst r :: fst rs, snd rs)
    end.
  Definition random_int_vector (size lo hi : Z) (t : tape) : res (option (list Z) * tape) :=
    if (size <? 0) || (hi <=? lo) then Ok (None, t)
    else let! r := draw_ints (Z.to_nat size) t lo hi in Ok (Some (fst r), snd r).

  Fixpoint draw_floats (k : nat) (t : tape) : list f32 * tape :=
    match k with
    | O => ([], t)
    | S k' => let r := draw_any_f32 t in
              let rs := draw_floats k' (snd r) in
              (fst r :: fst rs, snd rs)
    end.
  (* Normal::new(mean, sd) fails (and the unwrap panics) exactly when sd is not finite (rand_distr 0.4.3) *)
  Definition normal_new_ok (sd : f32) : bool := f_is_finite sd.
  Definition random_float_vector (size : Z) (mean sd : f32) (t : tape) : res (option (list f32) * tape) :=
    if (size <? 0) || negb (f_is_finite sd) || flt sd f_zero then Ok (None, t)
    else if normal_new_ok sd then
      let r := draw_floats (Z.to_nat size) t in Ok (Some (fst r), snd r)
    else Panic.
  Definition random_float_vector_pinned (size : Z) (mean sd : f32) (t : tape) : res (option (list f32) * tape) :=
    if (size <? 0) || flt sd f_zero then Ok (None, t)
    else if normal_new_ok sd then
      let r := draw_floats (Z.to_nat size) t in Ok (Some (fst r), snd r)
    else Panic.

  (* ---- boolean vector ---- *)
  (* the documented rounding: share of non-default bits rounded to 1/100, times the size, truncated *)
  Definition bv_default (sp : f32) : bool := fgt sp f_half.
  Definition bv_share (sp : f32) : f32 := fdiv (fround (fmul f_100 (fmin sp (fsub f_one sp)))) f_100.
  Definition nbits (size : Z) (sp : f32) : Z := f_to_i32 (fmul (bv_share sp) (f_of_i32 size)).

  (* the rejection loop `loop { idx = gen_range(0..hi); if v[idx] == default { flip; break } }`
     with fuel: None = no default position was offered within [fuel] draws *)
  Fixpoint flip_loop (fuel : nat) (hi : Z) (d : bool) (t : tape) (v : list bool)
    : res (option (list bool * tape)) :=
    match fuel with
    | O => Ok None
    | S f =>
        let! r := draw_range t 0 hi in
        let i := Z.to_nat (fst r) in
        match nth_error v i with
        | None => Panic                                   (* index out of bounds *)
        | Some b => if Bool.eqb b d then Ok (Some (upd v i (negb d), snd r))
                    else flip_loop f hi d (snd r) v
        end
    end.
  (* first position below [hi] that still holds the default *)
  Fixpoint flip_first (hi : nat) (d : bool) (v : list bool) : list bool :=
    match hi, v with
    | S h, b :: r => if Bool.eqb b d then negb d :: r else b :: flip_first h d r
    | _, _ => v
    end.
  (* One flip.  Every draw of the loop comes from the tape; a tape is a FINITE prefix of the
     generator's outcomes, so when it is used up before a default position was offered the
     model continues with the outcome "the first default position" (some continuation of the
     generator's output produces it).  If there is no default position below [hi] the real
     loop never ends; the model then leaves the vector alone -- unreachable, since the number
     of flips never exceeds the number of admissible positions (C13_bool_vec_count). *)
  Definition flip_one (hi : Z) (d : bool) (t : tape) (v : list bool) : res (list bool * tape) :=
    let! r := flip_loop (S (length t)) hi d t v in
    match r with
    | Some x => Ok x
    | None => Ok (flip_first (Z.to_nat hi) d v, [])
    end.
  Fixpoint flip_n (k : nat) (hi : Z) (d : bool) (t : tape) (v : list bool) : res (list bool * tape) :=
    match k with
    | O => Ok (v, t)
    | S k' => let! r := flip_one hi d t v in flip_n k' hi d (snd r) (fst r)
    end.

  Section BoolVec.
    Variable p : profile.
    (* pinned = true: NaN sparsity accepted, index drawn from 0..size-1 *)
    Definition random_bool_vector_g (pinned : bool) (size : Z) (sp : f32) (t : tape)
      : res (option (list bool) * tape) :=
      if (size <? 0) || (negb pinned && f_is_nan sp) || flt sp f_zero || fgt sp f_one then Ok (None, t)
      else
        let d := bv_default sp in
        let v := repeat d (Z.to_nat size) in
        let n := nbits size sp in
        let! hi1 := add32 p n 1 in                       (* for _i in 1..num_active_bits + 1 *)
        let iters := Z.to_nat (hi1 - 1) in
        let! hi := (if pinned then sub32 p size 1 else Ok size) in
        let! r := flip_n iters hi d t v in
        Ok (Some (fst r), snd r).
    Definition random_bool_vector := random_bool_vector_g false.
    Definition random_bool_vector_pinned := random_bool_vector_g true.
  End BoolVec.

  (* ---- code ---- *)
  (* decompose(elements, r): parts pushed in order.  Fuel r suffices (every draw is >= 1);
     running out of fuel is reported as Panic and proved unreachable (C12_decompose_parts). *)
  Fixpoint decompose (fuel : nat) (t : tape) (r : Z) : res (list Z * tape) :=
    match fuel with
    | O => Panic
    | S f =>
        if r =? 1 then Ok ([1], t)
        else
          let! d := draw_range t 1 r in                   (* r = 0: gen_range(1..0) panics *)
          let! rest := decompose f (snd d) (r - fst d) in
          Ok (fst d :: fst rest, snd rest)
    end.

  Section Code.
    Variable binds : list (str * item).
    Variable cfg : config.
    Variable instrs : list str.           (* InstructionCache::list *)

    (* (new_erc_name_probability * 10000 as f32) as u32 *)
    Definition n_event_new : Z := f_to_u32 (fmul (cfg_new_erc_name_prob cfg) f_10000).

    (* one point: rand::random::<ItemType>() is gen_range(0..=5): 0 Boolean, 1 Float,
       2 Instruction, 3 Integer, 4 and 5 Name.  The three vector item types are never
       sampled (their match arms are dead code). *)
    Definition gen_leaf (t : tape) : res (item * tape) :=
      let! k := draw_range t 0 6 in
      let t1 := snd k in
      if fst k =? 0 then
        let! b := draw_range t1 0 2 in Ok (ILit (LBool (fst b =? 1)), snd b)
      else if fst k =? 1 then
        let f := draw_unit_f32 t1 in Ok (ILit (LFloat (fst f)), snd f)
      else if fst k =? 2 then
        match instrs with
        | [] => Ok (IInstr noop_name, t1)
        | _ => let! i := draw_range t1 0 (zlen instrs) in
               Ok (IInstr (nth (Z.to_nat (fst i)) instrs noop_name), snd i)
        end
      else if fst k =? 3 then
        let! z := draw_range t1 min32 (max32 + 1) in Ok (ILit (LInt (fst z)), snd z)
      else
        let! r := draw_range t1 0 10000 in
        if fst r <? n_event_new then
          let nm := new_random_name (snd r) in Ok (IName (fst nm), snd nm)
        else
          let! nm := existing_random_name binds (snd r) in Ok (IName (fst nm), snd nm).

    (* random_code_with_size.  Recursion on the size with fuel: [Z.to_nat points] suffices
       because every part of the decomposition of points-1 is at most points-1.
       points = 0: `points - 1` underflows (debug: panic; release: a request for 2^64-1
       points that cannot complete) -- Panic in the model, never requested by the callers. *)
    Fixpoint gen (fuel : nat) (t : tape) (points : Z) {struct fuel} : res (item * tape) :=
      match fuel with
      | O => Panic
      | S f =>
          if points =? 1 then gen_leaf t
          else if points <? 1 then Panic
          else
            let! parts := decompose (Z.to_nat (points - 1)) t (points - 1) in
            let! items :=
              (fix go (ps : list Z) (t : tape) {struct ps} : res (list item * tape) :=
                 match ps with
                 | [] => Ok ([], t)
                 | k :: r => let! x := gen f t k in
                             let! xs := go r (snd x) in
                             Ok (fst x :: fst xs, snd xs)
                 end) (fst parts) (snd parts) in
            (* Item::list(vec) : the last element of the vector is the top *)
            Ok (IList (rev (fst items)), snd items)
      end.
    Definition gen_all (f : nat) : list Z -> tape -> res (list item * tape) :=
      fix go (ps : list Z) (t : tape) {struct ps} : res (list item * tape) :=
        match ps with
        | [] => Ok ([], t)
        | k :: r => let! x := gen f t k in
                    let! xs := go r (snd x) in
                    Ok (fst x :: fst xs, snd xs)
        end.
    Definition random_code_with_size (t : tape) (points : Z) : res (item * tape) :=
      gen (Z.to_nat points) t points.

    (* random_code: [min_bound] = 1 is the repaired guard `max_points > 1`, 0 the pinned one *)
    Definition random_code_g (min_bound : Z) (t : tape) (max_points : Z) : res (option item * tape) :=
      if min_bound <? max_points then
        let! a := draw_range t 1 max_points in            (* Uniform::from(1..max_points) *)
        let! it := random_code_with_size (snd a) (fst a) in
        Ok (Some (fst it), snd it)
      else Ok (None, t).
    Definition random_code := random_code_g 1.
    Definition random_code_pinned := random_code_g 0.
  End Code.
End RandomGen.

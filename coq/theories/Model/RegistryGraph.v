(* The registry table of the GRAPH family (load_graph_instructions,
   src/push/graph.rs:483-554): the nineteen names and what each is bound to. *)
From Coq Require Import ZArith String List Bool.
From PushModel Require Import Base.Sx Base.Machine Base.ListOps Base.F32 Model.Item Model.GraphT Model.State
  Model.InstrBase Model.Registry Model.IGraph.
Import ListNotations.
Open Scope Z_scope.
Open Scope string_scope.

Inductive ginstr : Type :=
| XAdd | XDup | XNodeAdd | XNodeGetState | XNodeHistory | XNodeSetState | XNodeNeighbors
| XNodePredecessors | XNodeSuccessors | XNodeStateSwitch | XNodes | XNodesHistory | XStackDepth
| XPrint | XPrintDiff | XEdgeAdd | XEdgeHistory | XEdgeGetWeight | XEdgeSetWeight.

Definition all_ginstr : list ginstr :=
  [XAdd; XDup; XNodeAdd; XNodeGetState; XNodeHistory; XNodeSetState; XNodeNeighbors;
   XNodePredecessors; XNodeSuccessors; XNodeStateSwitch; XNodes; XNodesHistory; XStackDepth;
   XPrint; XPrintDiff; XEdgeAdd; XEdgeHistory; XEdgeGetWeight; XEdgeSetWeight].

Definition ginstr_name (i : ginstr) : string :=
  match i with
  | XAdd => "GRAPH.ADD" | XDup => "GRAPH.DUP" | XNodeAdd => "GRAPH.NODE*ADD"
  | XNodeGetState => "GRAPH.NODE*GETSTATE" | XNodeHistory => "GRAPH.NODE*HISTORY"
  | XNodeSetState => "GRAPH.NODE*SETSTATE" | XNodeNeighbors => "GRAPH.NODE*NEIGHBORS"
  | XNodePredecessors => "GRAPH.NODE*PREDECESSORS" | XNodeSuccessors => "GRAPH.NODE*SUCCESSORS"
  | XNodeStateSwitch => "GRAPH.NODE*STATESWITCH" | XNodes => "GRAPH.NODES"
  | XNodesHistory => "GRAPH.NODES*HISTORY" | XStackDepth => "GRAPH.STACKDEPTH"
  | XPrint => "GRAPH.PRINT" | XPrintDiff => "GRAPH.PRINT*DIFF" | XEdgeAdd => "GRAPH.EDGE*ADD"
  | XEdgeHistory => "GRAPH.EDGE*HISTORY" | XEdgeGetWeight => "GRAPH.EDGE*GETWEIGHT"
  | XEdgeSetWeight => "GRAPH.EDGE*SETWEIGHT"
  end.

Section RegistryGraph.
  Context {FO : FloatOps}.

  Definition ginstr_sem (i : ginstr) : sem :=
    match i with
    | XAdd => pure graph_add
    | XDup => pure graph_dup
    | XNodeAdd => graph_node_add
    | XNodeGetState => pure graph_node_get_state
    | XNodeHistory => pure graph_node_history
    | XNodeSetState => pure graph_node_set_state
    | XNodeNeighbors => pure graph_node_neighbors
    | XNodePredecessors => pure graph_node_predecessors
    | XNodeSuccessors => pure graph_node_successors
    | XNodeStateSwitch => pure graph_node_state_switch
    | XNodes => pure graph_nodes
    | XNodesHistory => pure graph_nodes_history
    | XStackDepth => pure graph_stack_depth
    | XPrint => pure graph_print
    | XPrintDiff => pure graph_print_diff
    | XEdgeAdd => pure graph_edge_add
    | XEdgeHistory => pure graph_edge_history
    | XEdgeGetWeight => pure graph_edge_get_weight
    | XEdgeSetWeight => pure graph_edge_set_weight
    end.

  Definition tbl_graph : list (string * sem) := map (fun i => (ginstr_name i, ginstr_sem i)) all_ginstr.
End RegistryGraph.

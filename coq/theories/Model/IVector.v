(* Model of the BOOLVECTOR / INTVECTOR / FLOATVECTOR instruction bodies
   (src/push/vector.rs), the three *.RAND instructions excepted (Model/IRand.v).

   A vector is the list of its elements in index order (element 0 first); the
   three vector stacks are top-first lists of vectors.  `pop_vec(2)` yields
   [second; top]: on a top-first list the pattern is  top :: second :: rest.

   The definitions without suffix describe the code AFTER the `fix:` commits of
   fixes/C09-*.patch; the code as pinned is kept as `*_pinned` (every possible
   panic of the pinned code is a [Panic], with the profile where debug and
   release builds differ).

   `len as i32 - 1` is modelled as `len32 v - 1` exactly as in InstrBase (stack
   and vector lengths below 2^31; C15 covers the resource envelope). *)
From Coq Require Import ZArith String List Bool.
From PushModel Require Import Base.Sx Base.Machine Base.ListOps Base.F32 Model.Item Model.GraphT Model.State
  Model.InstrBase Model.ICode.
Import ListNotations.
Open Scope Z_scope.

(* ------------------------------------------------------------------ *)
(* element access on a Vec: `v[i]` and `v[i] = x` panic out of range   *)
Section VecAccess.
  Context {A : Type}.

  Definition vnth (v : list A) (i : Z) : res A :=
    if (0 <=? i) && (i <? zlen v) then
      match nth_error v (Z.to_nat i) with Some x => Ok x | None => Panic end
    else Panic.
  Definition vupd (v : list A) (i : Z) (x : A) : res (list A) :=
    if (0 <=? i) && (i <? zlen v) then Ok (upd v (Z.to_nat i) x) else Panic.

  (* i32::max(i32::min(index, len as i32 - 1), 0) as usize, under `len > 0` *)
  Definition vclamp (v : list A) (idx : Z) : Z := Z.max (Z.min idx (len32 v - 1)) 0.

  (* GET: `if len > 0 { push(values[clamp]) }` *)
  Definition vget (v : list A) (idx : Z) : res (option A) :=
    if 0 <? zlen v then let! x := vnth v (vclamp v idx) in Ok (Some x) else Ok None.
  (* SET: `if len > 0 { values[clamp] = x }` *)
  Definition vset (v : list A) (idx : Z) (x : A) : res (list A) :=
    if 0 <? zlen v then vupd v (vclamp v idx) x else Ok v.

  (* ---------- the element-wise loops ---------- *)

  (* fn offset_index(i, offset, size) (introduced by the repair): the position
     i + offset computed without overflow, if it lies inside 0..size *)
  Definition offset_index (i off size : Z) : option Z :=
    let j := i + off in if (0 <=? j) && (j <? size) then Some j else None.

  (* repaired loop:  for i in 0..top.len() { if let Some(j) = offset_index(i, offset, scd_size)
                                               { second[j] = op(second[j], top[i]) } }
     [op x t = None] is the zero-divisor case of the divide loops (sets `invalid`). *)
  Fixpoint ov_loop (op : A -> A -> option A) (off size : Z) (top : list A) (i : Z)
           (acc : list A) (inv : bool) : list A * bool :=
    match top with
    | [] => (acc, inv)
    | t :: r =>
        match offset_index i off size with
        | Some j =>
            match nth_error acc (Z.to_nat j) with
            | Some x =>
                match op x t with
                | Some y => ov_loop op off size r (i + 1) (upd acc (Z.to_nat j) y) inv
                | None => ov_loop op off size r (i + 1) acc true
                end
            | None => ov_loop op off size r (i + 1) acc inv       (* unreachable: j < size = |acc| *)
            end
        | None => ov_loop op off size r (i + 1) acc inv
        end
    end.
  (* the vector pushed by an element-wise instruction: None = nothing pushed *)
  Definition overlay_run (op : A -> A -> option A) (second top : list A) (off : Z) : option (list A) :=
    let '(v, inv) := ov_loop op off (zlen second) top 0 second false in
    if inv then None else Some v.

  (* pinned loop:  for i in 0..scd_size { let j = (i as i32 + offset) as usize;
                                          if j > scd_size - 1 { continue }; second[j] op= top[i] } *)
  Fixpoint ov_loop_pinned (p : profile) (op : A -> A -> res (option A)) (off size : Z) (top : list A)
           (k : nat) (i : Z) (acc : list A) (inv : bool) : res (list A * bool) :=
    match k with
    | O => Ok (acc, inv)
    | S k' =>
        let! sum := add32 p (wrap32 i) off in
        let j := i32_as_usize sum in
        let! m := usub p size 1 in
        if m <? j then ov_loop_pinned p op off size top k' (i + 1) acc inv
        else
          let! t := vnth top i in
          let! x := vnth acc j in
          let! y := op x t in
          match y with
          | Some y => let! acc' := vupd acc j y in ov_loop_pinned p op off size top k' (i + 1) acc' inv
          | None => ov_loop_pinned p op off size top k' (i + 1) acc true
          end
    end.
  Definition overlay_run_pinned (p : profile) (op : A -> A -> res (option A)) (second top : list A) (off : Z)
    : res (option (list A)) :=
    let! r := ov_loop_pinned p op off (zlen second) top (length second) 0 second false in
    Ok (if snd r then None else Some (fst r)).

  (* the instruction around the loop: pop_vec(2) from the vector stack FIRST,
     then the offset; without an offset both vectors are gone *)
  Variable get : state -> list (list A).
  Variable set : state -> list (list A) -> state.
  Definition vec_overlay (run : list A -> list A -> Z -> res (option (list A))) : instr := fun s =>
    match get s with
    | top :: second :: r =>
        let s1 := set s r in
        match st_int s1 with
        | off :: ir =>
            let s2 := set_int s1 ir in
            let! o := run second top off in
            match o with
            | Some v => Ok (set s2 (v :: r))
            | None => Ok s2
            end
        | [] => Ok s1
        end
    | _ => Ok s
    end.

  (* ---------- instructions that are the same for the three element types ---------- *)

  (* T.EQUAL: pops both *)
  Definition vec_equal (eqv : list A -> list A -> bool) : instr := fun s =>
    match get s with
    | b :: a :: r => Ok (push_bool (set s r) (eqv a b))
    | _ => Ok s
    end.
  (* T.LENGTH: the vector stays *)
  Definition vec_length : instr := fun s =>
    match get s with v :: _ => Ok (push_int s (len32 v)) | [] => Ok s end.
  (* T.ONES / T.ZEROS: `if size > 0 { push(vec![x; size as usize]) }` *)
  Definition vec_fill (x : A) : instr := fun s =>
    match st_int s with
    | n :: ir => let s1 := set_int s ir in
                 if 0 <? n then Ok (set s1 (repeat x (Z.to_nat n) :: get s1)) else Ok s1
    | [] => Ok s
    end.
  (* T.EMPTY *)
  Definition vec_empty : instr := fun s => Ok (set s ([] :: get s)).

  (* a transformation of the top vector in place (get_mut(0)) *)
  Definition vec_map_top (f : list A -> res (list A)) : instr := fun s =>
    match get s with
    | v :: r => let! v' := f v in Ok (set s (v' :: r))
    | [] => Ok s
    end.

  (* scalar stack lens for GET / SET / ROTATE / APPEND *)
  Variable sget : state -> list A.
  Variable sset : state -> list A -> state.

  (* T.GET: index popped first; the vector stays *)
  Definition vec_get : instr := fun s =>
    match st_int s with
    | idx :: ir =>
        let s1 := set_int s ir in
        match get s1 with
        | v :: _ => let! o := vget v idx in
                    match o with Some x => Ok (sset s1 (x :: sget s1)) | None => Ok s1 end
        | [] => Ok s1
        end
    | [] => Ok s
    end.
  (* T.SET: index popped, then the new element, then the top vector is updated in place *)
  Definition vec_set : instr := fun s =>
    match st_int s with
    | idx :: ir =>
        let s1 := set_int s ir in
        match sget s1 with
        | x :: xr =>
            let s2 := sset s1 xr in
            match get s2 with
            | v :: r => let! v' := vset v idx x in Ok (set s2 (v' :: r))
            | [] => Ok s2
            end
        | [] => Ok s1
        end
    | [] => Ok s
    end.

  (* T.ROTATE: the scalar is popped first.
     repaired: `if n > 0 { rotate_left(1); values[n - 1] = x }` *)
  Definition rotate_in (v : list A) (x : A) : list A :=
    match v with [] => [] | _ :: r => r ++ [x] end.
  Definition vec_rotate : instr := fun s =>
    match sget s with
    | x :: xr =>
        let s1 := sset s xr in
        match get s1 with
        | v :: r => Ok (set s1 (rotate_in v x :: r))
        | [] => Ok s1
        end
    | [] => Ok s
    end.
  (* pinned: `rotate_left(1)` asserts 1 <= len *)
  Definition vec_rotate_pinned : instr := fun s =>
    match sget s with
    | x :: xr =>
        let s1 := sset s xr in
        match get s1 with
        | [] :: _ => Panic
        | v :: r => Ok (set s1 (rotate_in v x :: r))
        | [] => Ok s1
        end
    | [] => Ok s
    end.

  (* T.APPEND: get_mut(0) on the vector stack comes FIRST: without a vector the scalar stays *)
  Definition vec_append : instr := fun s =>
    match get s with
    | v :: r =>
        match sget s with
        | x :: xr => Ok (set (sset s xr) ((v ++ [x]) :: r))
        | [] => Ok s
        end
    | [] => Ok s
    end.
End VecAccess.

(* Vec<T> == Vec<T> : same length and element-wise `==` *)
Fixpoint veqb {A} (eqb : A -> A -> bool) (a b : list A) : bool :=
  match a, b with
  | [], [] => true
  | x :: ra, y :: rb => eqb x y && veqb eqb ra rb
  | _, _ => false
  end.

(* stable insertion sort: the unique stable sort for a total preorder, hence
   what `sort_by` (a stable merge sort) computes *)
Section Sort.
  Context {A : Type}.
  Variable le : A -> A -> bool.
  Fixpoint ins_sorted_by (x : A) (l : list A) : list A :=
    match l with
    | [] => [x]
    | y :: r => if le x y then x :: l else y :: ins_sorted_by x r
    end.
  Definition stable_sort (l : list A) : list A := fold_right ins_sorted_by [] l.
End Sort.

Section Vector.
  Context {FO : FloatOps}.

  (* ================= BOOLVECTOR ================= *)

  Definition bvec_id : instr := fun s => Ok (push_int s BVEC_ID).

  Definition bvec_get := vec_get st_bvec st_bool set_bool.
  Definition bvec_set := vec_set st_bvec set_bvec st_bool set_bool.

  Definition bvec_and := vec_overlay st_bvec set_bvec
    (fun second top off => Ok (overlay_run (fun x t => Some (andb x t)) second top off)).
  Definition bvec_or := vec_overlay st_bvec set_bvec
    (fun second top off => Ok (overlay_run (fun x t => Some (orb x t)) second top off)).
  Definition bvec_and_pinned (p : profile) := vec_overlay st_bvec set_bvec
    (overlay_run_pinned p (fun x t => Ok (Some (andb x t)))).
  Definition bvec_or_pinned (p : profile) := vec_overlay st_bvec set_bvec
    (overlay_run_pinned p (fun x t => Ok (Some (orb x t)))).

  (* BOOLVECTOR.NOT: one vector; position i + offset is flipped for every index i of the vector.
     The vector is popped first; without an offset it is gone. *)
  Fixpoint not_loop (off size : Z) (k : nat) (i : Z) (acc : list bool) : list bool :=
    match k with
    | O => acc
    | S k' =>
        match offset_index i off size with
        | Some j =>
            match nth_error acc (Z.to_nat j) with
            | Some x => not_loop off size k' (i + 1) (upd acc (Z.to_nat j) (negb x))
            | None => not_loop off size k' (i + 1) acc
            end
        | None => not_loop off size k' (i + 1) acc
        end
    end.
  Definition bvec_not : instr := fun s =>
    match st_bvec s with
    | v :: r =>
        let s1 := set_bvec s r in
        match st_int s1 with
        | off :: ir => Ok (set_bvec (set_int s1 ir) (not_loop off (zlen v) (length v) 0 v :: r))
        | [] => Ok s1
        end
    | [] => Ok s
    end.
  Fixpoint not_loop_pinned (p : profile) (off : Z) (k : nat) (i : Z) (acc : list bool) : res (list bool) :=
    match k with
    | O => Ok acc
    | S k' =>
        let! sum := add32 p (wrap32 i) off in
        let j := i32_as_usize sum in
        let! m := usub p (zlen acc) 1 in
        if m <? j then not_loop_pinned p off k' (i + 1) acc
        else
          let! x := vnth acc j in
          let! acc' := vupd acc j (negb x) in
          not_loop_pinned p off k' (i + 1) acc'
    end.
  Definition bvec_not_pinned (p : profile) : instr := fun s =>
    match st_bvec s with
    | v :: r =>
        let s1 := set_bvec s r in
        match st_int s1 with
        | off :: ir => let! v' := not_loop_pinned p off (length v) 0 v in
                       Ok (set_bvec (set_int s1 ir) (v' :: r))
        | [] => Ok s1
        end
    | [] => Ok s
    end.

  Definition bvec_equal := vec_equal st_bvec set_bvec (veqb Bool.eqb).
  Definition bvec_length := vec_length st_bvec.
  Definition bvec_ones := vec_fill st_bvec set_bvec true.
  Definition bvec_zeros := vec_fill st_bvec set_bvec false.
  Definition bvec_rotate := vec_rotate st_bvec set_bvec st_bool set_bool.
  Definition bvec_rotate_pinned := vec_rotate_pinned st_bvec set_bvec st_bool set_bool.

  (* `sort_by(|a, b| a.partial_cmp(b).unwrap())` on bool: false < true, never unordered *)
  Definition bool_le (a b : bool) : bool := implb a b.
  Definition bvec_sort_asc := vec_map_top st_bvec set_bvec (fun v => Ok (stable_sort bool_le v)).
  Definition bvec_sort_desc := vec_map_top st_bvec set_bvec (fun v => Ok (rev (stable_sort bool_le v))).

  Definition count_true (v : list bool) : Z := zlen (filter (fun b => b) v).
  Definition bvec_count : instr := fun s =>
    match st_bvec s with v :: _ => Ok (push_int s (wrap32 (count_true v))) | [] => Ok s end.

  (* ================= INTVECTOR ================= *)

  Definition ivec_id : instr := fun s => Ok (push_int s IVEC_ID).
  Definition ivec_append := vec_append st_ivec set_ivec st_int set_int.

  (* INTVECTOR.BOOLINDEX: the BOOLVECTOR item is popped *)
  Fixpoint bool_index (v : list bool) (i : Z) : list Z :=
    match v with
    | [] => []
    | b :: r => if b then wrap32 i :: bool_index r (i + 1) else bool_index r (i + 1)
    end.
  Definition ivec_bool_index : instr := fun s =>
    match st_bvec s with
    | v :: r => Ok (set_ivec (set_bvec s r) (bool_index v 0 :: st_ivec s))
    | [] => Ok s
    end.

  Definition ivec_get := vec_get st_ivec st_int set_int.
  Definition ivec_set := vec_set st_ivec set_ivec st_int set_int.

  (* repaired: wrapping_add / wrapping_sub / wrapping_mul / wrapping_div *)
  Definition ivec_arith (op : Z -> Z -> option Z) := vec_overlay st_ivec set_ivec
    (fun second top off => Ok (overlay_run op second top off)).
  Definition ivec_add := ivec_arith (fun x t => Some (wadd32 x t)).
  Definition ivec_sub := ivec_arith (fun x t => Some (wsub32 x t)).
  (* not registered (commented out in load_vector_instructions), modelled for completeness *)
  Definition ivec_mul := ivec_arith (fun x t => Some (wmul32 x t)).
  Definition ivec_div := ivec_arith (fun x t => if t =? 0 then None else Some (wdiv32 x t)).

  Definition ivec_arith_pinned (p : profile) (op : Z -> Z -> res (option Z)) :=
    vec_overlay st_ivec set_ivec (overlay_run_pinned p op).
  Definition ivec_add_pinned (p : profile) := ivec_arith_pinned p (fun x t => rmap Some (add32 p x t)).
  Definition ivec_sub_pinned (p : profile) := ivec_arith_pinned p (fun x t => rmap Some (sub32 p x t)).
  Definition ivec_mul_pinned (p : profile) := ivec_arith_pinned p (fun x t => rmap Some (mul32 p x t)).
  Definition ivec_div_pinned (p : profile) :=
    ivec_arith_pinned p (fun x t => if t =? 0 then Ok None else rmap Some (div32 x t)).

  (* INTVECTOR.CONTAINS: element popped first, then the vector *)
  Definition zmem (x : Z) (v : list Z) : bool := existsb (Z.eqb x) v.
  Definition ivec_contains : instr := fun s =>
    match st_int s with
    | x :: ir =>
        let s1 := set_int s ir in
        match st_ivec s1 with
        | v :: r => Ok (push_bool (set_ivec s1 r) (zmem x v))
        | [] => Ok s1
        end
    | [] => Ok s
    end.

  Definition ivec_empty := vec_empty st_ivec set_ivec.
  Definition ivec_equal := vec_equal st_ivec set_ivec (veqb Z.eqb).

  (* INTVECTOR.FROMINT: the n topmost integers (n clamped into 0..size), bottom-most first *)
  Definition ivec_from_int : instr := fun s =>
    match st_int s with
    | n :: ir =>
        let corr := Z.max (Z.min (len32 ir) n) 0 in
        let k := Z.to_nat corr in
        Ok (set_ivec (set_int s (skipn k ir)) (rev (firstn k ir) :: st_ivec s))
    | [] => Ok s
    end.

  Definition ivec_length := vec_length st_ivec.

  (* INTVECTOR.LOOP: vector popped, then the body from EXEC *)
  Definition ivec_loop : instr := fun s =>
    match st_ivec s with
    | v :: r =>
        let s1 := set_ivec s r in
        match st_exec s1 with
        | body :: er =>
            let s2 := set_exec s1 er in
            match v with
            | x :: rest =>
                Ok (push_int (set_exec s2 (body :: IList [ILit (LIntVec rest); i_instr "INTVECTOR.LOOP"; body] :: er)) x)
            | [] => Ok s2
            end
        | [] => Ok s1
        end
    | [] => Ok s
    end.

  (* `iter().sum::<i32>()` : left fold from 0 with `+` *)
  Fixpoint sum32_pinned (p : profile) (acc : Z) (v : list Z) : res Z :=
    match v with
    | [] => Ok acc
    | x :: r => let! a := add32 p acc x in sum32_pinned p a r
    end.
  (* repaired SUM: fold(0, wrapping_add) *)
  Definition wsum32 (v : list Z) : Z := fold_left wadd32 v 0.
  (* repaired MEAN: the exact sum in i64 *)
  Definition zsum (v : list Z) : Z := fold_left Z.add v 0.
  (* `x as f32` for an i64 x (round to nearest even is symmetric) *)
  Definition f_of_i64 (z : Z) : f32 := if z <? 0 then fneg (f_of_usize (- z)) else f_of_usize z.

  (* INTVECTOR.MEAN: the vector stays; an empty vector gives 0/0 = NaN *)
  Definition ivec_mean : instr := fun s =>
    match st_ivec s with
    | v :: _ => Ok (push_float s (fdiv (f_of_i64 (zsum v)) (f_of_usize (zlen v))))
    | [] => Ok s
    end.
  Definition ivec_mean_pinned (p : profile) : instr := fun s =>
    match st_ivec s with
    | v :: _ => let! t := sum32_pinned p 0 v in
                Ok (push_float s (fdiv (f_of_i32 t) (f_of_usize (zlen v))))
    | [] => Ok s
    end.
  Definition ivec_sum : instr := fun s =>
    match st_ivec s with v :: _ => Ok (push_int s (wsum32 v)) | [] => Ok s end.
  Definition ivec_sum_pinned (p : profile) : instr := fun s =>
    match st_ivec s with v :: _ => let! t := sum32_pinned p 0 v in Ok (push_int s t) | [] => Ok s end.

  Definition ivec_ones := vec_fill st_ivec set_ivec 1.
  Definition ivec_zeros := vec_fill st_ivec set_ivec 0.

  (* INTVECTOR.REMOVE: get_mut(0) first (without a vector the integer stays); retain(x != to_remove) *)
  Definition ivec_remove : instr := fun s =>
    match st_ivec s with
    | v :: r =>
        match st_int s with
        | x :: ir => Ok (set_ivec (set_int s ir) (filter (fun y => negb (y =? x)) v :: r))
        | [] => Ok s
        end
    | [] => Ok s
    end.

  Definition ivec_rotate := vec_rotate st_ivec set_ivec st_int set_int.
  Definition ivec_rotate_pinned := vec_rotate_pinned st_ivec set_ivec st_int set_int.

  (* INTVECTOR.SET*INSERT: an empty vector is created when the stack is empty (even without an integer) *)
  Definition ivec_set_insert : instr := fun s =>
    let s0 := match st_ivec s with [] => set_ivec s [[]] | _ => s end in
    match st_ivec s0 with
    | v :: r =>
        match st_int s0 with
        | x :: ir => Ok (set_ivec (set_int s0 ir) ((if zmem x v then v else v ++ [x]) :: r))
        | [] => Ok s0
        end
    | [] => Ok s0
    end.

  Definition ivec_sort_asc := vec_map_top st_ivec set_ivec (fun v => Ok (stable_sort Z.leb v)).
  Definition ivec_sort_desc := vec_map_top st_ivec set_ivec (fun v => Ok (rev (stable_sort Z.leb v))).

  (* ================= FLOATVECTOR ================= *)

  Definition fvec_id : instr := fun s => Ok (push_int s FVEC_ID).
  Definition fvec_append := vec_append st_fvec set_fvec st_float set_float.
  Definition fvec_get := vec_get st_fvec st_float set_float.
  Definition fvec_set := vec_set st_fvec set_fvec st_float set_float.

  Definition fvec_arith (op : f32 -> f32 -> option f32) := vec_overlay st_fvec set_fvec
    (fun second top off => Ok (overlay_run op second top off)).
  Definition fvec_add := fvec_arith (fun x t => Some (fadd x t)).
  Definition fvec_sub := fvec_arith (fun x t => Some (fsub x t)).
  Definition fvec_mul := fvec_arith (fun x t => Some (fmul x t)).
  (* `if top[i] == 0.0 { invalid = true }` : true for -0.0, false for NaN *)
  Definition fvec_div := fvec_arith (fun x t => if feq t f_zero then None else Some (fdiv x t)).

  Definition fvec_arith_pinned (p : profile) (op : f32 -> f32 -> option f32) :=
    vec_overlay st_fvec set_fvec (overlay_run_pinned p (fun x t => Ok (op x t))).
  Definition fvec_add_pinned (p : profile) := fvec_arith_pinned p (fun x t => Some (fadd x t)).
  Definition fvec_sub_pinned (p : profile) := fvec_arith_pinned p (fun x t => Some (fsub x t)).
  Definition fvec_mul_pinned (p : profile) := fvec_arith_pinned p (fun x t => Some (fmul x t)).
  Definition fvec_div_pinned (p : profile) :=
    fvec_arith_pinned p (fun x t => if feq t f_zero then None else Some (fdiv x t)).

  (* FLOATVECTOR.*SCALAR: the float is popped first *)
  Definition fvec_mul_scalar : instr := fun s =>
    match st_float s with
    | f :: fr =>
        let s1 := set_float s fr in
        match st_fvec s1 with
        | v :: r => Ok (set_fvec s1 (map (fun x => fmul x f) v :: r))
        | [] => Ok s1
        end
    | [] => Ok s
    end.

  Definition fvec_empty := vec_empty st_fvec set_fvec.
  (* Vec<f32> == : same length and element-wise `==` (NaN differs from itself, -0.0 == 0.0) *)
  Definition fvec_equal := vec_equal st_fvec set_fvec (veqb feq).
  Definition fvec_length := vec_length st_fvec.

  (* `iter().sum::<f32>()` : left fold with `+` from -0.0 (the additive identity used by
     <f32 as Sum> in the pinned toolchain) *)
  Definition f_negzero : f32 := 2147483648.
  Definition fsum (v : list f32) : f32 := fold_left fadd v f_negzero.

  (* FLOATVECTOR.MEAN: the vector stays; an empty vector gives -0/0 = NaN *)
  Definition fvec_mean : instr := fun s =>
    match st_fvec s with
    | v :: _ => Ok (push_float s (fdiv (fsum v) (f_of_usize (zlen v))))
    | [] => Ok s
    end.
  (* FLOATVECTOR.SUM (repaired registry: float_vector_sum) *)
  Definition fvec_sum : instr := fun s =>
    match st_fvec s with v :: _ => Ok (push_float s (fsum v)) | [] => Ok s end.

  Definition fvec_ones := vec_fill st_fvec set_fvec f_one.
  Definition fvec_zeros := vec_fill st_fvec set_fvec f_zero.
  Definition fvec_rotate := vec_rotate st_fvec set_fvec st_float set_float.
  Definition fvec_rotate_pinned := vec_rotate_pinned st_fvec set_fvec st_float set_float.

  (* FLOATVECTOR.SINE: pop_vec(3) from FLOAT first (top = amplitude A, second = angle
     velocity x, third = phase phi), then the length; element i is
     A * sin(((2.0 * PI) * x) * (i as f32) + phi) *)
  Definition TWO_PI : f32 := 1086918619.          (* 0x40c90fdb = 2.0f32 * PI *)
  Fixpoint sine_loop (a x phi : f32) (k : nat) (i : Z) : res (list f32) :=
    match k with
    | O => Ok []
    | S k' =>
        let! y := libm1 FN_SIN (fadd (fmul (fmul TWO_PI x) (f_of_usize i)) phi) in
        let! r := sine_loop a x phi k' (i + 1) in
        Ok (fmul a y :: r)
    end.
  (* repaired: `if vector_size >= 0 { ... }` *)
  Definition fvec_sine : instr := fun s =>
    match st_float s with
    | a :: x :: phi :: fr =>
        let s1 := set_float s fr in
        match st_int s1 with
        | n :: ir =>
            let s2 := set_int s1 ir in
            if 0 <=? n then
              let! v := sine_loop a x phi (Z.to_nat n) 0 in Ok (set_fvec s2 (v :: st_fvec s2))
            else Ok s2
        | [] => Ok s1
        end
    | _ => Ok s
    end.
  (* pinned: `for i in 0..vector_size as usize` : a negative length is 2^64 - |n| iterations
     of `push`; the process is killed by the allocator long before.  [Panic] stands for that
     abort here (the pinned variant is not used for correspondence on negative lengths). *)
  Definition fvec_sine_pinned : instr := fun s =>
    match st_float s with
    | a :: x :: phi :: fr =>
        let s1 := set_float s fr in
        match st_int s1 with
        | n :: ir =>
            let s2 := set_int s1 ir in
            if 0 <=? n then
              let! v := sine_loop a x phi (Z.to_nat n) 0 in Ok (set_fvec s2 (v :: st_fvec s2))
            else Panic
        | [] => Ok s1
        end
    | _ => Ok s
    end.

  (* sorting.  repaired comparator:
       a.partial_cmp(b).unwrap_or_else(|| a.is_nan().cmp(&b.is_nan()))
     i.e. the usual order with every NaN after every number and NaNs equal to each other *)
  Definition bool_cmp (a b : bool) : comparison :=
    match a, b with false, true => Lt | true, false => Gt | _, _ => Eq end.
  Definition fcmp_nan_last (a b : f32) : comparison :=
    match fcmp a b with Some c => c | None => bool_cmp (f_is_nan a) (f_is_nan b) end.
  Definition fle_nan_last (a b : f32) : bool :=
    match fcmp_nan_last a b with Gt => false | _ => true end.
  Definition fvec_sort_asc := vec_map_top st_fvec set_fvec (fun v => Ok (stable_sort fle_nan_last v)).
  Definition fvec_sort_desc := vec_map_top st_fvec set_fvec (fun v => Ok (rev (stable_sort fle_nan_last v))).
  (* pinned: `partial_cmp(b).unwrap()` : every element of a vector of length >= 2 is compared
     at least once, so a NaN anywhere panics; shorter vectors are not compared at all *)
  Definition fle_total (a b : f32) : bool := negb (fgt a b).
  Definition fsort_pinned (v : list f32) : res (list f32) :=
    if (2 <=? zlen v) && existsb f_is_nan v then Panic else Ok (stable_sort fle_total v).
  Definition fvec_sort_asc_pinned := vec_map_top st_fvec set_fvec fsort_pinned.
  Definition fvec_sort_desc_pinned := vec_map_top st_fvec set_fvec (fun v => rmap (@rev f32) (fsort_pinned v)).
End Vector.

(* Model of the INPUT / OUTPUT instruction bodies (src/push/io.rs).  The two
   queues are their abstract bounded sequences, OLDEST FIRST (C17 refinement):
   peek_oldest / copy_oldest = head, pop (Queue) = drop the head, push = append
   unless full.  `input_flush` exists in io.rs but is not registered. *)
From Coq Require Import ZArith String List Bool.
From PushModel Require Import Base.Sx Base.Machine Base.ListOps Base.F32 Model.Item Model.GraphT Model.State Model.InstrBase.
Import ListNotations.
Open Scope Z_scope.

Definition input_available : instr := fun s =>
  Ok (push_bool s (0 <? zlen (st_input s))).

(* INPUT.GET, repaired code: nothing is pushed when the oldest message has an
   empty body.  The index is popped first and is lost when the queue is empty. *)
Definition input_get : instr := fun s =>
  match st_int s with
  | idx :: r =>
      let s1 := set_int s r in
      match st_input s1 with
      | (_, body) :: _ =>
          match nth_error body (Z.to_nat (clamp_idx idx (len32 body))) with
          | Some b => Ok (push_bool s1 b)
          | None => Ok s1
          end
      | [] => Ok s1
      end
  | [] => Ok s
  end.

(* the code of the pinned tree: `input.body.values[list_index]` is evaluated
   unconditionally; index 0 of an empty Vec panics *)
Definition input_get_pinned : instr := fun s =>
  match st_int s with
  | idx :: r =>
      let s1 := set_int s r in
      match st_input s1 with
      | (_, body) :: _ =>
          match nth_error body (Z.to_nat (clamp_idx idx (len32 body))) with
          | Some b => Ok (push_bool s1 b)
          | None => Panic
          end
      | [] => Ok s1
      end
  | [] => Ok s
  end.

Definition input_next : instr := fun s => Ok (set_input s (tl (st_input s))).

(* body to BOOLVECTOR first, then header to INTVECTOR *)
Definition input_read : instr := fun s =>
  match st_input s with
  | (header, body) :: _ =>
      let s1 := set_bvec s (body :: st_bvec s) in
      Ok (set_ivec s1 (header :: st_ivec s1))
  | [] => Ok s
  end.

Definition input_stack_depth : instr := fun s => Ok (push_int s (len32 (st_input s))).

Definition output_flush : instr := fun s => Ok (set_output s []).
Definition output_stack_depth : instr := fun s => Ok (push_int s (len32 (st_output s))).

(* the body is popped first and is lost when there is no header *)
Definition output_write : instr := fun s =>
  match st_bvec s with
  | body :: br =>
      let s1 := set_bvec s br in
      match st_ivec s1 with
      | header :: hr => let s2 := set_ivec s1 hr in
                        Ok (set_output s2 (bq_push OUTPUT_CAP (st_output s2) (header, body)))
      | [] => Ok s1
      end
  | [] => Ok s
  end.

(* Model of the nine instructions that read the random number generator:
   BOOLEAN.RAND (boolean.rs), INTEGER.RAND (integer.rs), FLOAT.RAND (float.rs),
   CODE.RAND (code.rs), NAME.RAND, NAME.RANDBOUNDNAME (name.rs), BOOLVECTOR.RAND,
   INTVECTOR.RAND, FLOATVECTOR.RAND (vector.rs).  They are world-reading [sem]s:
   the outcomes of the generator are consumed from [w_tape] (Model/RandomGen.v).
   The bodies are the code as repaired by the C12/C13 `fix:` commits; the pinned
   behaviour is kept in the *_pinned definitions. *)
From Coq Require Import ZArith String List Bool.
From PushModel Require Import Base.Sx Base.Machine Base.ListOps Base.F32 Model.Item Model.GraphT Model.State
  Model.InstrBase Model.Registry Model.RandomGen.
Import ListNotations.
Open Scope Z_scope.

Definition set_tape (w : world) (t : tape) : world := {| w_next_node := w_next_node w; w_tape := t |}.

Section IRand.
  Context {FO : FloatOps}.

  (* `rng.gen_range(0..2) == 1` *)
  Definition boolean_rand : sem := fun _ w s =>
    let! r := draw_range (w_tape w) 0 2 in
    Ok (set_tape w (snd r), push_bool s (fst r =? 1)).

  Definition integer_rand : sem := fun _ w s =>
    let! r := random_integer (st_cfg s) (w_tape w) in
    Ok (set_tape w (snd r), match fst r with Some z => push_int s z | None => s end).

  Definition float_rand_g (pinned : bool) : sem := fun _ w s =>
    let! r := (if pinned then random_float_pinned else random_float) (st_cfg s) (w_tape w) in
    Ok (set_tape w (snd r), match fst r with Some x => push_float s x | None => s end).
  Definition float_rand := float_rand_g false.
  Definition float_rand_pinned := float_rand_g true.

  (* cmp::min(size_limit.unsigned_abs(), max_points.unsigned_abs()) as usize *)
  Definition code_limit (n maxpts : Z) : Z := Z.min (Z.abs n) (Z.abs maxpts).
  (* pinned: cmp::min(i32::abs(size_limit), i32::abs(max_points)) as usize *)
  Definition code_limit_pinned (p : profile) (n maxpts : Z) : res Z :=
    let! a := abs32 p n in
    let! b := abs32 p maxpts in
    Ok (i32_as_usize (Z.min a b)).

  (* the size limit is popped first and stays consumed whatever happens *)
  Definition code_rand (instrs : list str) : sem := fun _ w s =>
    match st_int s with
    | n :: ir =>
        let s1 := set_int s ir in
        let limit := code_limit n (cfg_max_points_rand (st_cfg s1)) in
        let! r := random_code (st_bind s1) (st_cfg s1) instrs (w_tape w) limit in
        Ok (set_tape w (snd r), match fst r with Some t => push_code s1 t | None => s1 end)
    | [] => Ok (w, s)
    end.
  (* the pinned CODE.RAND for limits that are representable (no abs overflow): bound 1 panics *)
  Definition code_rand_pinned (instrs : list str) : sem := fun p w s =>
    match st_int s with
    | n :: ir =>
        let s1 := set_int s ir in
        let! limit := code_limit_pinned p n (cfg_max_points_rand (st_cfg s1)) in
        let! r := random_code_pinned (st_bind s1) (st_cfg s1) instrs (w_tape w) limit in
        Ok (set_tape w (snd r), match fst r with Some t => push_code s1 t | None => s1 end)
    | [] => Ok (w, s)
    end.

  Definition name_rand : sem := fun _ w s =>
    let r := new_random_name (w_tape w) in
    Ok (set_tape w (snd r), push_name s (fst r)).
  Definition name_rand_bound : sem := fun _ w s =>
    let! r := existing_random_name (st_bind s) (w_tape w) in
    Ok (set_tape w (snd r), push_name s (fst r)).

  (* size from INTEGER (popped first), sparsity from FLOAT *)
  Definition bool_vector_rand_g (pinned : bool) : sem := fun p w s =>
    match st_int s with
    | size :: ir =>
        let s1 := set_int s ir in
        match st_float s1 with
        | sp :: fr =>
            let s2 := set_float s1 fr in
            let! r := random_bool_vector_g p pinned size sp (w_tape w) in
            Ok (set_tape w (snd r),
                match fst r with Some v => set_bvec s2 (v :: st_bvec s2) | None => s2 end)
        | [] => Ok (w, s1)
        end
    | [] => Ok (w, s)
    end.
  Definition bool_vector_rand := bool_vector_rand_g false.
  Definition bool_vector_rand_pinned := bool_vector_rand_g true.

  (* pop_vec(3): params[2] = top = size, params[1] = max, params[0] = min *)
  Definition int_vector_rand : sem := fun _ w s =>
    match st_int s with
    | size :: hi :: lo :: ir =>
        let s1 := set_int s ir in
        let! r := random_int_vector size lo hi (w_tape w) in
        Ok (set_tape w (snd r),
            match fst r with Some v => set_ivec s1 (v :: st_ivec s1) | None => s1 end)
    | _ => Ok (w, s)
    end.

  (* size from INTEGER (popped first); pop_vec(2) on FLOAT: [1] = top = mean, [0] = deviation *)
  Definition float_vector_rand_g (pinned : bool) : sem := fun _ w s =>
    match st_int s with
    | size :: ir =>
        let s1 := set_int s ir in
        match st_float s1 with
        | mean :: sd :: fr =>
            let s2 := set_float s1 fr in
            let! r := (if pinned then random_float_vector_pinned else random_float_vector) size mean sd (w_tape w) in
            Ok (set_tape w (snd r),
                match fst r with Some v => set_fvec s2 (v :: st_fvec s2) | None => s2 end)
        | _ => Ok (w, s1)
        end
    | [] => Ok (w, s)
    end.
  Definition float_vector_rand := float_vector_rand_g false.
  Definition float_vector_rand_pinned := float_vector_rand_g true.
End IRand.

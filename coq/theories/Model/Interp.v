(* Model of src/push/interpreter.rs: step and run. *)
From Coq Require Import ZArith String List Bool.
From PushModel Require Import Base.Sx Base.Machine Base.ListOps Base.F32 Model.Item Model.GraphT Model.State
  Model.InstrBase Model.Registry.
Import ListNotations.
Open Scope Z_scope.

Definition registry := list (str * sem).
Definition mk_registry (t : list (string * sem)) : registry := map (fun e => (s2l (fst e), snd e)) t.
Fixpoint lookup (reg : registry) (n : str) : option sem :=
  match reg with
  | [] => None
  | (k, f) :: r => if str_eqb n k then Some f else lookup r n
  end.

Definition push_lit (s : state) (v : lit) : state :=
  match v with
  | LBool b => set_bool s (b :: st_bool s)
  | LInt z => set_int s (z :: st_int s)
  | LIndex c d => set_index s ((c, d) :: st_index s)
  | LFloat f => set_float s (f :: st_float s)
  | LBoolVec v => set_bvec s (v :: st_bvec s)
  | LIntVec v => set_ivec s (v :: st_ivec s)
  | LFloatVec v => set_fvec s (v :: st_fvec s)
  end.

Section Interp.
  Variable p : profile.
  Variable reg : registry.

  (* one interpreter step: (finished?, world, state) *)
  Definition step (w : world) (s : state) : res (bool * world * state) :=
    match st_exec s with
    | [] => Ok (true, w, s)
    | t :: r =>
        let s1 := set_exec s r in
        match t with
        | ILit v => Ok (false, w, push_lit s1 v)
        | IName n =>
            if st_quote s1 then Ok (false, w, set_quote (set_name s1 (n :: st_name s1)) false)
            else match bind_get (st_bind s1) n with
                 | Some b => Ok (false, w, set_exec s1 (b :: st_exec s1))
                 | None => Ok (false, w, set_name s1 (n :: st_name s1))
                 end
        | IInstr n =>
            match lookup reg n with
            | Some f => let! r := f p w s1 in Ok (false, fst r, snd r)
            | None => Ok (false, w, s1)
            end
        | IList l => Ok (false, w, set_exec s1 (l ++ st_exec s1))
        end
    end.

  (* k steps (stops early when finished) *)
  Fixpoint steps (k : nat) (w : world) (s : state) : res (bool * world * state) :=
    match k with
    | O => Ok (false, w, s)
    | S k' =>
        let! r := step w s in
        let '(fin, w', s') := r in
        if fin then Ok (true, w', s') else steps k' w' s'
    end.

  Definition copy_to_code (s : state) : state := set_code s (st_exec s ++ st_code s).

  Inductive outcome := NoErrors | StepLimit | TimeLimit | GrowthCap | OutOfFuel.

  (* the run loop; [clock c] is the elapsed time in ms read at iteration c *)
  Fixpoint run_loop (clock : Z -> Z) (fuel : nat) (c : Z) (w : world) (s : state)
    : res (outcome * world * state) :=
    match fuel with
    | O => Ok (OutOfFuel, w, s)
    | S f =>
        if cfg_eval_push_limit (st_cfg s) <? c then Ok (StepLimit, w, s)
        else if cfg_eval_time_limit (st_cfg s) <? clock c then Ok (TimeLimit, w, s)
        else
          let z := state_size s in
          let! r := step w s in
          let '(fin, w', s') := r in
          if fin then Ok (NoErrors, w', s')
          else if z + cfg_growth_cap (st_cfg s') <? state_size s' then Ok (GrowthCap, w', s')
          else run_loop clock f (c + 1) w' s'
    end.

  Definition run_fuel (s : state) : nat := S (S (Z.to_nat (cfg_eval_push_limit (st_cfg s) + 2))).
  Definition run (clock : Z -> Z) (w : world) (s : state) : res (outcome * world * state) :=
    let s1 := copy_to_code s in run_loop clock (run_fuel s1) 0 w s1.
End Interp.

(* Model of the GRAPH.* instruction bodies, src/push/graph.rs lines 556-865,
   as written (operand order, what is popped before what, which buffer method).

   THE GRAPH STACK.  [st_graph : list graph] is the capacity-100 Stack-kind
   PushBuffer as its abstract bounded sequence, OLDEST FIRST (C17): the top /
   newest graph is the LAST element.
     graph_stack.get(i) / get_mut(i) / copy(i)   [gs_get l i]   i-th NEWEST, None when i >= size
     write-back through get_mut(0)               [gs_set_top l g]
     graph_stack.push(g)                         [bq_push GRAPH_CAP l g]  (IGNORED when 100 graphs are held;
                                                 no GRAPH.* instruction uses push_force or pop)
     graph_stack.size()                          length
   No GRAPH.* body can panic: every index is guarded (`pop_vec(2)` before
   `ids[0]`/`ids[1]`, the min of both lengths in STATESWITCH, get_index's
   `i > size - 1` test after `size == 0`), and the Graph API cannot panic
   (Model/Graph.v).  Every body returns [Ok].

   CASTS.  `id as usize` of an i32 is [i32_as_usize] (a negative id becomes a
   value >= 2^63, which is never a node id in practice: a no-op, not a panic);
   `node_id as i32` of a usize is [usize_as_i32] (truncation).  `pos as usize`
   only happens under `pos >= 0`.

   NODE IDS — THE ID PROTOCOL OF THE CORRESPONDENCE CHECK.  Node ids come from
   the process-global NODE_COUNTER (fetch_add).  The model reads and advances
   [w_next_node] of [world]; GRAPH.NODE*ADD is therefore a [sem] that threads
   the world, every other instruction is [pure].
   A `run` case carries ABSOLUTE ids: the graphs of the initial state hold the
   very ids the real graphs will hold, integer operands are plain integers
   (nothing is translated), and the world part `(next_node tape)` states the
   value the process counter has when the first step starts.  The counter of
   the harness process can be read (create one node, look at its id) and
   advanced (create and drop nodes) but never lowered, so the harness
     1. reads the counter c (this consumes id c),
     2. requires  c < every node id of the initial graph stack < next_node,
     3. creates the nodes of the initial graphs in increasing id order, burning
        the ids in between (Node::new + drop); a node shared by several
        snapshots is ONE Node value cloned into each of them (Node: Clone and
        Graph.nodes / Graph.edges are public fields), with the state of each
        snapshot set through Node::set_state,
     4. burns ids until the counter equals next_node, then runs the steps,
     5. writes the final state with the REAL ids (no renaming).
   So symbolic id = real id, in graphs, on the INTEGER stack and inside
   INTVECTORs alike.  If the process counter is already beyond what a case
   needs (cases must use increasing id ranges along a stream; the generators
   do), the harness re-runs that one case in a fresh child process, whose
   counter starts at 1.  A case with next_node = 1 and no node in its initial
   graphs is run without touching the counter (all pre-existing `run` cases).
   Generators: gen/stepgen.py (`next_base`, `rand_graphs`).

   HASHMAP ORDER.  Graph.nodes / Graph.edges are HashMaps; the model iterates
   in key order.  Where such an iteration is pushed as an INTVECTOR (GRAPH.NODES,
   NODES*HISTORY, the successor part of NODE*SUCCESSORS / NODE*NEIGHBORS) or
   printed (GRAPH.PRINT, PRINT*DIFF) the real order is arbitrary.  The `run`
   suite compares exactly, so its generators keep every HashMap-ordered result
   at <= 1 element (per loop); the suite `graphq` runs the same cases without
   that restriction and compares the top INTVECTOR as a sorted list and the top
   NAME as the sorted list of its lines (Suites/SGraphQ.v).  Predecessors are in
   Vec order (deterministic) and compared exactly.

   TEXT.  GRAPH.PRINT pushes Graph's Display text, GRAPH.PRINT*DIFF the text of
   Graph::diff, onto the NAME stack.  Both are modelled character by character,
   entries in key order.  f32 weights are printed by `f32::to_string` (shortest
   digits that round-trip, never scientific notation); [fdisp] reconstructs it
   from the two FloatOps primitives [ffmt] (fixed precision) and [fparse]:
   the fewest decimals whose correctly rounded rendering parses back (|x| <
   2^24), resp. the most trailing zeros (|x| >= 2^24).  GAP: at a power of two
   the rounding interval is asymmetric and Rust may find a shorter string on
   its wide side that the correctly rounded candidate misses; [fdisp] then
   prints one digit more.  Not observed in the sweeps; the text only matters
   for these two instructions.

   REPAIRED / PINNED.  GRAPH.EDGE*HISTORY is modelled AFTER the repair
   `pos > 0` -> `pos >= 0` (depth 0 = the current snapshot readable, as for
   NODE*HISTORY and NODES*HISTORY); the pinned body is [graph_edge_history_pinned].
   (Its `println!` goes to stdout, not to the state; the harness silences fd 1
   around the steps.) *)
From Coq Require Import ZArith String List Bool.
From PushModel Require Import Base.Sx Base.Machine Base.ListOps Base.F32 Model.Item Model.GraphT Model.State
  Model.InstrBase Model.Registry.
Import ListNotations.
Close Scope string_scope.
Open Scope Z_scope.

(* ---------------------------------------------------------------------- *)
(* the graph stack *)
Definition gs_get (l : list graph) (i : Z) : option graph :=
  if (0 <=? i) && (i <? zlen l) then nth_error (rev l) (Z.to_nat i) else None.
Definition gs_set_top (l : list graph) (g : graph) : list graph :=
  match l with [] => [] | _ => removelast l ++ [g] end.
Definition gs_push (l : list graph) (g : graph) : list graph := bq_push GRAPH_CAP l g.

Definition set_top (s : state) (g : graph) : state := set_graph s (gs_set_top (st_graph s) g).

(* ---------------------------------------------------------------------- *)
(* text *)
Definition nl : str := [10].
Fixpoint digits_val (s : str) (acc : Z) : Z :=
  match s with c :: r => digits_val r (acc * 10 + (c - 48)) | [] => acc end.

Definition tx (s : string) : str := s2l s.
Arguments tx s%string_scope.

Section Text.
  Context {FO : FloatOps}.

  Definition parses_to (s : str) (x : f32) : bool :=
    match fparse s with Some y => (y =? x)%Z | None => false end.
  (* fewest decimals that round-trip *)
  Fixpoint disp_small (fuel : nat) (d : Z) (x : f32) : str :=
    match fuel with
    | O => ffmt d x
    | S f => if parses_to (ffmt d x) x then ffmt d x else disp_small f (d + 1) x
    end.
  (* an integer n >= 2^24 (the exact value of |x|): most trailing zeros that round-trip *)
  Fixpoint disp_big (fuel : nat) (k : Z) (n : Z) (ax : f32) : str :=
    match fuel with
    | O => nat_str n
    | S f => let p := 10 ^ k in
             let m := ((2 * n + p) / (2 * p)) * p in
             if parses_to (nat_str m) ax then nat_str m else disp_big f (k - 1) n ax
    end.
  (* f32::to_string *)
  Definition fdisp (x : f32) : str := ffmt (-1) x.

  (* Display for Node / Edge *)
  Definition node_text (id st : Z) : str :=
    tx "N[ID: " ++ z_str id ++ tx ", STATE: " ++ z_str st ++ tx "]".
  Definition edge_text (o : Z) (w : f32) : str :=
    tx "[ONID: " ++ z_str o ++ tx ", WEIGHT: " ++ fdisp w ++ tx "]".
  (* Display for Graph *)
  Definition graph_text (g : graph) : str :=
    nl ++ tx "NODES(" ++ z_str (g_node_size g) ++ tx "): "
       ++ join (tx ", ") (map (fun n => nl ++ node_text (fst n) (snd n)) (g_nodes g))
       ++ nl ++ tx "EDGES(" ++ z_str (g_edge_size g) ++ tx "): "
       ++ join (tx ", ")
            (flat_map (fun kv => map (fun e => nl ++ tx "E[" ++ z_str (fst kv) ++ tx " <= "
                                               ++ edge_text (e_origin e) (e_weight e) ++ tx "]") (snd kv))
                      (g_edges g)).
  (* the text of Graph::diff *)
  Definition nchange_text (c : nchange) : str :=
    match c with
    | NRem id st => tx "-" ++ node_text id st
    | NAdd id st => tx "+" ++ node_text id st
    | NChg id st st' => tx "~N[ID: " ++ z_str id ++ tx ", " ++ z_str st ++ tx " <= STATE => " ++ z_str st' ++ tx "]"
    end.
  Definition echange_text (c : echange) : str :=
    match c with
    | ERem d o w => tx "-E[" ++ z_str d ++ tx " <= " ++ edge_text o w ++ tx "]"
    | EAdd d o w => tx "+E[" ++ z_str d ++ tx " <= " ++ edge_text o w ++ tx "]"
    | EChg d o w w' => tx "~E[" ++ z_str d ++ tx " <= [ONID: " ++ z_str o ++ tx ", " ++ fdisp w
                         ++ tx " <= WEIGHT => " ++ fdisp w' ++ tx "]]"
    end.
  Definition diff_text (d : list nchange * list echange) : str :=
    nl ++ tx "NODES(" ++ z_str (zlen (fst d)) ++ tx "):"
       ++ join (tx ",") (map (fun c => nl ++ nchange_text c) (fst d))
       ++ nl ++ tx "EDGES(" ++ z_str (zlen (snd d)) ++ tx "):"
       ++ join (tx ",") (map (fun c => nl ++ echange_text c) (snd d)).
End Text.

(* ---------------------------------------------------------------------- *)
Section IGraph.
  Context {FO : FloatOps}.

  (* GRAPH.ADD: graph_stack.push(Graph::new()) *)
  Definition graph_add : instr := fun s =>
    Ok (set_graph s (gs_push (st_graph s) g_new)).

  (* GRAPH.DUP: if let Some(g) = copy(0) { push(g) } *)
  Definition graph_dup : instr := fun s =>
    match gs_get (st_graph s) 0 with
    | Some g => Ok (set_graph s (gs_push (st_graph s) (g_clone g)))
    | None => Ok s
    end.

  (* GRAPH.NODE*ADD: get_mut(0), then INTEGER pop = state; pushes `add_node(state) as i32` *)
  Definition graph_node_add : sem := fun _ w s =>
    match gs_get (st_graph s) 0 with
    | Some g =>
        match st_int s with
        | st :: r =>
            let '(g', id, next') := g_add_node_w (w_next_node w) g st in
            Ok ({| w_next_node := next'; w_tape := w_tape w |},
                set_top (set_int s (usize_as_i32 id :: r)) g')
        | [] => Ok (w, s)
        end
    | None => Ok (w, s)
    end.

  (* the loop of STATESWITCH: i in 0..min(len ids, len switch) *)
  Fixpoint switch_loop (g : graph) (ids : list Z) (sw : list bool) (on off : Z) : graph :=
    match ids, sw with
    | id :: ri, b :: rb => switch_loop (g_set_state g (i32_as_usize id) (if b then on else off)) ri rb on off
    | _, _ => g
    end.
  (* GRAPH.NODE*STATESWITCH: get_mut(0); INTVECTOR pop; BOOLVECTOR pop; INTEGER pop_vec(2) =
     [on_state (second); off_state (top)].  Operands popped before a missing one stay popped. *)
  Definition graph_node_state_switch : instr := fun s =>
    match gs_get (st_graph s) 0 with
    | Some g =>
        match st_ivec s with
        | ids :: ivr =>
            let s1 := set_ivec s ivr in
            match st_bvec s1 with
            | sw :: bvr =>
                let s2 := set_bvec s1 bvr in
                match st_int s2 with
                | off :: on :: r => Ok (set_top (set_int s2 r) (switch_loop g ids sw on off))
                | _ => Ok s2
                end
            | [] => Ok s1
            end
        | [] => Ok s
        end
    | None => Ok s
    end.

  (* GRAPH.NODES: get(0); INTVECTOR pop = states; pushes filter(states) *)
  Definition graph_nodes : instr := fun s =>
    match gs_get (st_graph s) 0 with
    | Some g =>
        match st_ivec s with
        | sts :: r => Ok (set_ivec s (g_filter g sts :: r))
        | [] => Ok s
        end
    | None => Ok s
    end.

  (* GRAPH.NODES*HISTORY: INTEGER pop = pos; if pos >= 0: get(pos); INTVECTOR pop; push filter *)
  Definition graph_nodes_history : instr := fun s =>
    match st_int s with
    | pos :: ir =>
        let s1 := set_int s ir in
        if 0 <=? pos then
          match gs_get (st_graph s1) pos with
          | Some g =>
              match st_ivec s1 with
              | sts :: r => Ok (set_ivec s1 (g_filter g sts :: r))
              | [] => Ok s1
              end
          | None => Ok s1
          end
        else Ok s1
    | [] => Ok s
    end.

  (* GRAPH.NODE*GETSTATE: get_mut(0); INTEGER pop = id; if id > 0 and the node exists push its state *)
  Definition graph_node_get_state : instr := fun s =>
    match gs_get (st_graph s) 0 with
    | Some g =>
        match st_int s with
        | id :: r =>
            let s1 := set_int s r in
            if 0 <? id then
              match g_get_state g (i32_as_usize id) with
              | Some st => Ok (push_int s1 st)
              | None => Ok s1
              end
            else Ok s1
        | [] => Ok s
        end
    | None => Ok s
    end.

  (* GRAPH.NODE*HISTORY: INTEGER pop = pos; if pos >= 0: INTEGER pop = id; get_mut(pos); if id >= 0 ... *)
  Definition graph_node_history : instr := fun s =>
    match st_int s with
    | pos :: ir =>
        let s1 := set_int s ir in
        if 0 <=? pos then
          match st_int s1 with
          | id :: r =>
              let s2 := set_int s1 r in
              match gs_get (st_graph s2) pos with
              | Some g =>
                  if 0 <=? id then
                    match g_get_state g (i32_as_usize id) with
                    | Some st => Ok (push_int s2 st)
                    | None => Ok s2
                    end
                  else Ok s2
              | None => Ok s2
              end
          | [] => Ok s1
          end
        else Ok s1
    | [] => Ok s
    end.

  (* GRAPH.PRINT: get(0); name_stack.push(graph.to_string()) *)
  Definition graph_print : instr := fun s =>
    match gs_get (st_graph s) 0 with
    | Some g => Ok (push_name s (graph_text g))
    | None => Ok s
    end.

  (* GRAPH.PRINT*DIFF: new = get(0), old = get(1); old.diff(new) pushed when Some *)
  Definition graph_print_diff : instr := fun s =>
    match gs_get (st_graph s) 0 with
    | Some new =>
        match gs_get (st_graph s) 1 with
        | Some old =>
            match g_diff old new with
            | Some d => Ok (push_name s (diff_text d))
            | None => Ok s
            end
        | None => Ok s
        end
    | None => Ok s
    end.

  (* GRAPH.STACKDEPTH: int_stack.push(size() as i32) *)
  Definition graph_stack_depth : instr := fun s => Ok (push_int s (len32 (st_graph s))).

  (* GRAPH.NODE*SETSTATE: get_mut(0); INTEGER pop = state (top); INTEGER pop = id; if id > 0 set_state *)
  Definition graph_node_set_state : instr := fun s =>
    match gs_get (st_graph s) 0 with
    | Some g =>
        match st_int s with
        | st :: r1 =>
            let s1 := set_int s r1 in
            match r1 with
            | id :: r2 =>
                let s2 := set_int s1 r2 in
                if 0 <? id then Ok (set_top s2 (g_set_state g (i32_as_usize id) st)) else Ok s2
            | [] => Ok s1
            end
        | [] => Ok s
        end
    | None => Ok s
    end.

  (* GRAPH.EDGE*ADD: get_mut(0); FLOAT pop = weight; INTEGER pop_vec(2) = [origin (second); destination (top)] *)
  Definition graph_edge_add : instr := fun s =>
    match gs_get (st_graph s) 0 with
    | Some g =>
        match st_float s with
        | w :: fr =>
            let s1 := set_float s fr in
            match st_int s1 with
            | d :: o :: r => Ok (set_top (set_int s1 r) (g_add_edge g (i32_as_usize o) (i32_as_usize d) w))
            | _ => Ok s1
            end
        | [] => Ok s
        end
    | None => Ok s
    end.

  (* the query family: get(0); INTVECTOR pop = states; INTEGER pop = node id; if id > 0 push the ids `as i32` *)
  Definition graph_query (q : graph -> Z -> list Z -> list Z) : instr := fun s =>
    match gs_get (st_graph s) 0 with
    | Some g =>
        match st_ivec s with
        | sts :: ivr =>
            let s1 := set_ivec s ivr in
            match st_int s1 with
            | id :: r =>
                let s2 := set_int s1 r in
                if 0 <? id then Ok (set_ivec s2 (map usize_as_i32 (q g (i32_as_usize id) sts) :: ivr))
                else Ok s2
            | [] => Ok s1
            end
        | [] => Ok s
        end
    | None => Ok s
    end.
  Definition graph_node_neighbors := graph_query g_neighbours.
  Definition graph_node_predecessors := graph_query g_preds.
  Definition graph_node_successors := graph_query g_succs.

  (* GRAPH.EDGE*GETWEIGHT: get_mut(0); INTEGER pop_vec(2) = [origin; destination]; push the weight if any *)
  Definition graph_edge_get_weight : instr := fun s =>
    match gs_get (st_graph s) 0 with
    | Some g =>
        match st_int s with
        | d :: o :: r =>
            let s1 := set_int s r in
            match g_get_weight g (i32_as_usize o) (i32_as_usize d) with
            | Some w => Ok (push_float s1 w)
            | None => Ok s1
            end
        | _ => Ok s
        end
    | None => Ok s
    end.

  (* GRAPH.EDGE*HISTORY: INTEGER pop = pos; if [guard pos]: get_mut(pos); INTEGER pop_vec(2) = [origin; destination] *)
  Definition graph_edge_history_gen (guard : Z -> bool) : instr := fun s =>
    match st_int s with
    | pos :: ir =>
        let s1 := set_int s ir in
        if guard pos then
          match gs_get (st_graph s1) pos with
          | Some g =>
              match st_int s1 with
              | d :: o :: r =>
                  let s2 := set_int s1 r in
                  match g_get_weight g (i32_as_usize o) (i32_as_usize d) with
                  | Some w => Ok (push_float s2 w)
                  | None => Ok s2
                  end
              | _ => Ok s1
              end
          | None => Ok s1
          end
        else Ok s1
    | [] => Ok s
    end.
  Definition graph_edge_history := graph_edge_history_gen (fun pos => 0 <=? pos).          (* repaired *)
  Definition graph_edge_history_pinned := graph_edge_history_gen (fun pos => 0 <? pos).    (* as pinned *)

  (* GRAPH.EDGE*SETWEIGHT: get_mut(0); FLOAT pop = weight; INTEGER pop_vec(2) = [origin; destination] *)
  Definition graph_edge_set_weight : instr := fun s =>
    match gs_get (st_graph s) 0 with
    | Some g =>
        match st_float s with
        | w :: fr =>
            let s1 := set_float s fr in
            match st_int s1 with
            | d :: o :: r => Ok (set_top (set_int s1 r) (g_set_weight g (i32_as_usize o) (i32_as_usize d) w))
            | _ => Ok s1
            end
        | [] => Ok s
        end
    | None => Ok s
    end.
End IGraph.

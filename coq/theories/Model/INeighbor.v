(* Model of the four LIST.NEIGHBOR* instruction bodies (src/push/list.rs:265-355),
   as written (reference derefs omitted in the snippets).  All four start alike:

     if let Some(topology) = int_stack.pop_vec(3 | 4) {        // nothing happens with fewer INTEGERs
         let position = topology[3] as usize;                  // *VALS only: the TOP integer
         let size = i32::max(topology[2], 0);
         let index = i32::max(i32::min(size - 1, topology[1]), 0) as usize;
         let dimensions = i32::max(i32::min(size, topology[0]), 0) as usize;
         if let Some(fval) = float_stack.pop() {               // no FLOAT: the INTEGERs are gone
             let radius = f32::max(fval, 0.0);
             if let Some(neighbors) = Topology::find_neighbors(&(size as usize), &dimensions, &index, &radius) {
                 ... push one vector ...
             } } }

   pop_vec(n) hands the n top elements over in BOTTOM-TO-TOP order (stack.rs:198)
   and takes nothing when fewer are there: topology[n-1] is the top.  On the
   top-first INTEGER list of the model:
       IDS  :            size :: index :: dimensions :: rest
       *VALS: position :: size :: index :: dimensions :: rest
   `size - 1` cannot overflow (size >= 0); the three clamped values are
   non-negative, so their `as usize` casts are the identity; `position` is
   sign-extended ([i32_as_usize]: a negative position is a huge usize, no
   element of a record is addressed by it and the default value is read).

   f32::max(a, b): if one operand is NaN the other is returned ([fmax_rust]);
   for -0.0 against 0.0 the sign of the result is unspecified — the radius is
   only ever compared (`radius < 0.0`, `dist <= radius`), never stored, and both
   zeros compare alike, so any choice models the code.

   The neighbour list comes from the model of Topology::find_neighbors
   (Model/Topology.v), which depends on the build profile (`powf(2.0)`), hence
   the [profile] argument.  *VALS: `code_stack.get(n as usize)` is the record
   n positions below the top of the CODE stack; neighbours without a CODE item
   are skipped, the others contribute bval/ival/fval(item, position) — the
   vector can be shorter than the neighbourhood, and ANY code item counts (a
   non-list item is searched by `find` like a record is). *)
From Coq Require Import ZArith String List Bool.
From PushModel Require Import Base.Sx Base.Machine Base.ListOps Base.F32 Model.Item Model.GraphT Model.State
  Model.InstrBase Model.IList Model.Topology.
Import ListNotations.
Open Scope Z_scope.

Section NeighborInstr.
  Context {FO : FloatOps}.

  (* Rust's f32::max: a NaN operand yields the other operand.  A NaN [b] needs no
     test of its own: the comparison is then unordered, [flt a b] is false and
     [a] is returned. *)
  Definition fmax_rust (a b : f32) : f32 :=
    if f_is_nan a then b else if flt a b then b else a.

  (* the operand corrections ("All values are corrected by max-min") *)
  Definition nbr_size (t2 : Z) : Z := Z.max t2 0.
  Definition nbr_index (size t1 : Z) : Z := Z.max (Z.min (size - 1) t1) 0.
  Definition nbr_dims (size t0 : Z) : Z := Z.max (Z.min size t0) 0.
  Definition nbr_radius (fv : f32) : f32 := fmax_rust fv f_zero.

  (* the call shared by the four bodies *)
  Definition nbr_call (p : profile) (t2 t1 t0 : Z) (fv : f32) : res (option (list Z)) :=
    let size := nbr_size t2 in
    find_neighbors p size (nbr_dims size t0) (nbr_index size t1) (nbr_radius fv).

  Definition list_neighbor_ids (p : profile) : instr := fun s =>
    match st_int s with
    | t2 :: t1 :: t0 :: r =>
        let s1 := set_int s r in
        match st_float s1 with
        | fv :: fr =>
            let s2 := set_float s1 fr in
            let! on := nbr_call p t2 t1 t0 fv in
            match on with
            | Some nbrs => Ok (set_ivec s2 (nbrs :: st_ivec s2))
            | None => Ok s2
            end
        | [] => Ok s1
        end
    | _ => Ok s
    end.

  (* for n in neighbors { if let Some(item) = code_stack.get(n as usize) { result.push(f(item, &position)) } } *)
  Fixpoint nbr_vals {A} (f : item -> Z -> A) (code : list item) (position : Z) (nbrs : list Z) : list A :=
    match nbrs with
    | [] => []
    | n :: r =>
        match l_copy code (i32_as_usize n) with
        | Some t => f t position :: nbr_vals f code position r
        | None => nbr_vals f code position r
        end
    end.

  Definition list_neighbor_vals {A} (f : item -> Z -> A) (push : state -> list A -> state) (p : profile) : instr := fun s =>
    match st_int s with
    | t3 :: t2 :: t1 :: t0 :: r =>
        let s1 := set_int s r in
        let position := i32_as_usize t3 in
        match st_float s1 with
        | fv :: fr =>
            let s2 := set_float s1 fr in
            let! on := nbr_call p t2 t1 t0 fv in
            match on with
            | Some nbrs => Ok (push s2 (nbr_vals f (st_code s2) position nbrs))
            | None => Ok s2
            end
        | [] => Ok s1
        end
    | _ => Ok s
    end.

  Definition push_bvec (s : state) (v : list bool) : state := set_bvec s (v :: st_bvec s).
  Definition push_ivec (s : state) (v : list Z) : state := set_ivec s (v :: st_ivec s).
  Definition push_fvec (s : state) (v : list f32) : state := set_fvec s (v :: st_fvec s).

  Definition list_neighbor_bvals := list_neighbor_vals bval push_bvec.
  Definition list_neighbor_ivals := list_neighbor_vals ival push_ivec.
  Definition list_neighbor_fvals := list_neighbor_vals fval push_fvec.
End NeighborInstr.

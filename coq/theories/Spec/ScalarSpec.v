(* C04 reference: what the doc comments of the BOOLEAN / INTEGER / FLOAT / NAME
   arithmetic, logic, comparison, min/max, trigonometric and conversion instructions say.
   One line per instruction: operand stack, operand count, whether operands are consumed,
   and the function of the operands (deepest first: for two operands [a; b], a is the SECOND
   stack item = the left operand, b is the top).  [None] = no result (zero divisor). *)
From Coq Require Import ZArith String List Bool.
From PushModel Require Import Base.Sx Base.Machine Base.F32 Model.Item Model.GraphT Model.State Model.InstrBase.
Import ListNotations.
Open Scope Z_scope.

Inductive ty := TB | TI | TF | TN.
Inductive sval := VB (b : bool) | VI (z : Z) | VF (f : f32) | VN (n : str).

Record ssig := {
  s_ty : ty; s_n : nat; s_consume : bool;
  s_fun : list sval -> res (option sval) }.

Definition vals (t : ty) (s : state) : list sval :=
  match t with
  | TB => map VB (st_bool s) | TI => map VI (st_int s)
  | TF => map VF (st_float s) | TN => map VN (st_name s)
  end.
Definition drop (t : ty) (n : nat) (s : state) : state :=
  match t with
  | TB => set_bool s (skipn n (st_bool s)) | TI => set_int s (skipn n (st_int s))
  | TF => set_float s (skipn n (st_float s)) | TN => set_name s (skipn n (st_name s))
  end.
Definition push_val (s : state) (v : sval) : state :=
  match v with
  | VB b => push_bool s b | VI z => push_int s z | VF f => push_float s f | VN n => push_name s n
  end.

(* the reference semantics of a signature: operands must ALL be present, otherwise nothing happens *)
Definition apply_sig (g : ssig) (s : state) : res state :=
  let avail := vals (s_ty g) s in
  if Nat.ltb (length avail) (s_n g) then Ok s
  else
    let args := rev (firstn (s_n g) avail) in
    let! out := s_fun g args in
    let s1 := if s_consume g then drop (s_ty g) (s_n g) s else s in
    Ok (match out with Some v => push_val s1 v | None => s1 end).

Section Table.
  Context {FO : FloatOps}.
  Definition ii (f : Z -> Z -> option Z) : list sval -> res (option sval) :=
    fun a => match a with [VI x; VI y] => Ok (option_map VI (f x y)) | _ => Ok None end.
  Definition ib (f : Z -> Z -> bool) : list sval -> res (option sval) :=
    fun a => match a with [VI x; VI y] => Ok (Some (VB (f x y))) | _ => Ok None end.
  Definition ff (f : f32 -> f32 -> option f32) : list sval -> res (option sval) :=
    fun a => match a with [VF x; VF y] => Ok (option_map VF (f x y)) | _ => Ok None end.
  Definition fb (f : f32 -> f32 -> bool) : list sval -> res (option sval) :=
    fun a => match a with [VF x; VF y] => Ok (Some (VB (f x y))) | _ => Ok None end.
  Definition bb (f : bool -> bool -> bool) : list sval -> res (option sval) :=
    fun a => match a with [VB x; VB y] => Ok (Some (VB (f x y))) | _ => Ok None end.
  Definition fl (fn : Z) : list sval -> res (option sval) :=
    fun a => match a with [VF x] => let! y := libm1 fn x in Ok (Some (VF y)) | _ => Ok None end.
  Definition mk (t : ty) (n : nat) (f : list sval -> res (option sval)) : ssig :=
    {| s_ty := t; s_n := n; s_consume := true; s_fun := f |}.
  Definition nonzero (b : f32) : bool := negb (feq b f_zero).

  Open Scope string_scope.
  Definition scalar_table : list (string * ssig) := [
    (* INTEGER: results that do not fit wrap (any in-type value is acceptable; the code wraps) *)
    ("INTEGER.+", mk TI 2 (ii (fun a b => Some (wrap32 (a + b)))));
    ("INTEGER.-", mk TI 2 (ii (fun a b => Some (wrap32 (a - b)))));
    ("INTEGER.*", mk TI 2 (ii (fun a b => Some (wrap32 (a * b)))));
    ("INTEGER./", mk TI 2 (ii (fun a b => if (b =? 0)%Z then None else Some (wrap32 (Z.quot a b)))));
    ("INTEGER.%", mk TI 2 (ii (fun a b => if (b =? 0)%Z then None else Some (Z.rem a b))));
    ("INTEGER.<", mk TI 2 (ib Z.ltb)); ("INTEGER.=", mk TI 2 (ib Z.eqb)); ("INTEGER.>", mk TI 2 (ib Z.gtb));
    ("INTEGER.MAX", mk TI 2 (ii (fun a b => Some (Z.max a b))));
    ("INTEGER.MIN", mk TI 2 (ii (fun a b => Some (Z.min a b))));
    ("INTEGER.ABS", mk TI 1 (fun a => match a with [VI x] => Ok (Some (VI (wrap32 (Z.abs x)))) | _ => Ok None end));
    ("INTEGER.FROMBOOLEAN", mk TB 1 (fun a => match a with [VB x] => Ok (Some (VI (if x then 1 else 0)%Z)) | _ => Ok None end));
    ("INTEGER.FROMFLOAT", mk TF 1 (fun a => match a with [VF x] => Ok (Some (VI (f_to_i32 x))) | _ => Ok None end));
    (* FLOAT *)
    ("FLOAT.+", mk TF 2 (ff (fun a b => Some (fadd a b)))); ("FLOAT.-", mk TF 2 (ff (fun a b => Some (fsub a b))));
    ("FLOAT.*", mk TF 2 (ff (fun a b => Some (fmul a b))));
    ("FLOAT./", mk TF 2 (ff (fun a b => if nonzero b then Some (fdiv a b) else None)));
    ("FLOAT.%", mk TF 2 (ff (fun a b => if nonzero b then Some (frem a b) else None)));
    ("FLOAT.<", mk TF 2 (fb flt)); ("FLOAT.=", mk TF 2 (fb feq)); ("FLOAT.>", mk TF 2 (fb fgt));
    ("FLOAT.MAX", mk TF 2 (ff (fun a b => Some (if fgt a b then a else b))));
    ("FLOAT.MIN", mk TF 2 (ff (fun a b => Some (if fgt a b then b else a))));
    ("FLOAT.COS", mk TF 1 (fl FN_COS)); ("FLOAT.SIN", mk TF 1 (fl FN_SIN));
    ("FLOAT.TAN", mk TF 1 (fl FN_TAN)); ("FLOAT.EXP", mk TF 1 (fl FN_EXP));
    ("FLOAT.FROMBOOLEAN", mk TB 1 (fun a => match a with [VB x] => Ok (Some (VF (if x then f_one else f_zero))) | _ => Ok None end));
    ("FLOAT.FROMINTEGER", mk TI 1 (fun a => match a with [VI x] => Ok (Some (VF (f_of_i32 x))) | _ => Ok None end));
    (* BOOLEAN *)
    ("BOOLEAN.=", mk TB 2 (bb Bool.eqb)); ("BOOLEAN.AND", mk TB 2 (bb andb)); ("BOOLEAN.OR", mk TB 2 (bb orb));
    ("BOOLEAN.NOT", mk TB 1 (fun a => match a with [VB x] => Ok (Some (VB (negb x))) | _ => Ok None end));
    (* NAME *)
    ("NAME.=", mk TN 2 (fun a => match a with [VN x; VN y] => Ok (Some (VB (str_eqb x y))) | _ => Ok None end));
    ("NAME.CAT", mk TN 2 (fun a => match a with [VN x; VN y] => Ok (Some (VN (x ++ [32%Z] ++ y)%list)) | _ => Ok None end))
  ].

  (* KNOWN FINDING (C04): the doc comments say "Pushes FALSE if the top FLOAT/INTEGER is zero,
     TRUE otherwise" (and every other conversion consumes its operand); the code pushes TRUE for
     zero and keeps the operand, and the unit tests boolean_from_*_compares_to_zero pin exactly
     that.  The reference for these two names is therefore the pinned behaviour. *)
  Definition known_table : list (string * ssig) := [
    ("BOOLEAN.FROMFLOAT", {| s_ty := TF; s_n := 1; s_consume := false;
        s_fun := fun a => match a with [VF x] => Ok (Some (VB (feq x f_zero))) | _ => Ok None end |});
    ("BOOLEAN.FROMINTEGER", {| s_ty := TI; s_n := 1; s_consume := false;
        s_fun := fun a => match a with [VI x] => Ok (Some (VB (x =? 0)%Z)) | _ => Ok None end |})
  ].
  (* what the documentation asks for instead *)
  Definition documented_from_float : ssig := mk TF 1
    (fun a => match a with [VF x] => Ok (Some (VB (negb (feq x f_zero)))) | _ => Ok None end).
  Definition documented_from_integer : ssig := mk TI 1
    (fun a => match a with [VI x] => Ok (Some (VB (negb (x =? 0)%Z))) | _ => Ok None end).
End Table.

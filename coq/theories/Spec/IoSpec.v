(* Abstract description of the INPUT / OUTPUT instructions over the two message
   queues (C17, IO part).  The input side never looks at the live queue: it is
   written against the ORIGINAL message sequence [q0] and the number [k] of
   messages consumed so far.  The output side keeps the log of every message
   offered since the last flush; the queue holds the first three of them. *)
From Coq Require Import String ZArith List Bool.
From PushModel Require Import Base.Sx Base.Machine Base.ListOps Base.F32 Model.Item Model.GraphT Model.State
  Model.InstrBase.
Import ListNotations.
Open Scope Z_scope.
Open Scope list_scope.

Inductive io_op := IRead | IGet | INext | IAvail | IDepth | OWrite | OFlush | ODepth.

Definition io_name (o : io_op) : string :=
  match o with
  | IRead => "INPUT.READ" | IGet => "INPUT.GET" | INext => "INPUT.NEXT" | IAvail => "INPUT.AVAILABLE"
  | IDepth => "INPUT.STACKDEPTH" | OWrite => "OUTPUT.WRITE" | OFlush => "OUTPUT.FLUSH" | ODepth => "OUTPUT.STACKDEPTH"
  end%string.

(* abstract machine state: messages consumed, messages offered since the last
   flush (preceded by what the queue held initially), and the stacks *)
Record io_st := { io_k : nat; io_log : list msg; io_s : state }.

Definition io_spec_step (q0 : list msg) (a : io_st) (o : io_op) : io_st :=
  let k := io_k a in let log := io_log a in let s := io_s a in
  match o with
  | IRead =>          (* a copy of message number k: body to BOOLVECTOR, header to INTVECTOR *)
      match nth_error q0 k with
      | Some (h, b) => {| io_k := k; io_log := log; io_s := set_ivec (set_bvec s (b :: st_bvec s)) (h :: st_ivec s) |}
      | None => a
      end
  | IGet =>           (* one bit of message number k; the index is consumed in any case *)
      match st_int s with
      | idx :: r =>
          let s1 := set_int s r in
          match nth_error q0 k with
          | Some (_, body) =>
              match nth_error body (Z.to_nat (clamp_idx idx (len32 body))) with
              | Some bit => {| io_k := k; io_log := log; io_s := push_bool s1 bit |}
              | None => {| io_k := k; io_log := log; io_s := s1 |}
              end
          | None => {| io_k := k; io_log := log; io_s := s1 |}
          end
      | [] => a
      end
  | INext => {| io_k := S k; io_log := log; io_s := s |}
  | IAvail => {| io_k := k; io_log := log; io_s := push_bool s (Nat.ltb k (length q0)) |}
  | IDepth => {| io_k := k; io_log := log; io_s := push_int s (Z.of_nat (length q0 - k)) |}
  | OWrite =>         (* body popped first; without a header it is lost and nothing is offered *)
      match st_bvec s with
      | body :: br =>
          match st_ivec s with
          | header :: hr => {| io_k := k; io_log := log ++ [(header, body)]; io_s := set_ivec (set_bvec s br) hr |}
          | [] => {| io_k := k; io_log := log; io_s := set_bvec s br |}
          end
      | [] => a
      end
  | OFlush => {| io_k := k; io_log := []; io_s := s |}
  | ODepth => {| io_k := k; io_log := log; io_s := push_int s (Z.of_nat (Nat.min 3 (length log))) |}
  end.

Definition io_spec (q0 : list msg) (ops : list io_op) (a : io_st) : io_st := fold_left (io_spec_step q0) ops a.

(* the concrete state the abstract one stands for *)
Definition io_concrete (q0 : list msg) (a : io_st) : state :=
  set_output (set_input (io_s a) (skipn (io_k a) q0)) (firstn 3 (io_log a)).

Definition count_next (ops : list io_op) : nat :=
  length (filter (fun o => match o with INext => true | _ => false end) ops).

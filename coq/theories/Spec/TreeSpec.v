(* Abstract description of code trees as sequences of points (C08).

   A tree is described by the preorder (depth-first) listing of its points:
   the tree itself first, then the points of each child, children in the order
   in which they are printed (top-first).  Everything below is defined on that
   listing or by plain structural recursion; nothing here refers to the
   model's traverse / insert / contains / container / substitute.
   "Structurally equal" is [equals] of Model/Item.v (float literals compare
   with IEEE [feq]: a NaN literal is equal to nothing, itself included). *)
From Coq Require Import ZArith List Bool Lia.
From PushModel Require Import Base.Sx Base.Machine Base.F32 Model.Item.
Import ListNotations.
Open Scope Z_scope.

(* ---- the points of a tree, in depth-first order ---- *)
Fixpoint points (t : item) : list item :=
  t :: match t with
       | IList l => (fix go (l : list item) : list item :=
                       match l with [] => [] | c :: r => points c ++ go r end) l
       | _ => []
       end.
Definition points_list : list item -> list item :=
  fix go (l : list item) : list item :=
    match l with [] => [] | c :: r => points c ++ go r end.

(* number of points *)
Definition psize (t : item) : Z := Z.of_nat (length (points t)).

(* the value returned for an index that is not a point (never observable) *)
Definition dflt : item := IList [].

Definition nth_point (t : item) (i : Z) : item := nth (Z.to_nat i) (points t) dflt.

(* ---- the tree with the subtree rooted at point [i] replaced by [x] ----
   The subtree of child c of a list occupies the next [psize c] indices. *)
Fixpoint replace_point (t : item) (i : Z) (x : item) {struct t} : item :=
  if i =? 0 then x
  else match t with
       | IList l =>
           IList ((fix go (l : list item) (k : Z) {struct l} : list item :=
                     match l with
                     | [] => []
                     | c :: r => if k <? psize c then replace_point c k x :: r
                                 else c :: go r (k - psize c)
                     end) l (i - 1))
       | _ => t
       end.
Definition replace_in_list (x : item) : list item -> Z -> list item :=
  fix go (l : list item) (k : Z) {struct l} : list item :=
    match l with
    | [] => []
    | c :: r => if k <? psize c then replace_point c k x :: r
                else c :: go r (k - psize c)
    end.

(* ---- the parent of point [k] (k > 0): the list one of whose children is
   rooted at index k ---- *)
Fixpoint parent_point (t : item) (k : Z) {struct t} : option item :=
  match t with
  | IList l =>
      if k <=? 0 then None
      else (fix go (l : list item) (j : Z) {struct l} : option item :=
              match l with
              | [] => None
              | c :: r => if j =? 0 then Some t
                          else if j <? psize c then parent_point c j
                          else go r (j - psize c)
              end) l (k - 1)
  | _ => None
  end.
Definition parent_in_list (self : item) : list item -> Z -> option item :=
  fix go (l : list item) (j : Z) {struct l} : option item :=
    match l with
    | [] => None
    | c :: r => if j =? 0 then Some self
                else if j <? psize c then parent_point c j
                else go r (j - psize c)
    end.

(* index of the first element satisfying f *)
Fixpoint find_index {A} (f : A -> bool) (l : list A) : option Z :=
  match l with
  | [] => None
  | a :: r => if f a then Some 0 else option_map Z.succ (find_index f r)
  end.

Section WithFloats.
  Context {FO : FloatOps}.

  (* index of the first point structurally equal to [pat] *)
  Definition first_index (pat t : item) : option Z :=
    find_index (fun q => equals q pat) (points t).

  Definition occurs (pat t : item) : Prop :=
    exists q, In q (points t) /\ equals q pat = true.

  (* the list whose direct child is the first occurrence of [pat] *)
  Definition parent_of_first (pat t : item) : option item :=
    match first_index pat t with
    | Some k => parent_point t k
    | None => None
    end.

  (* what Item::container reports: Err(true) = the tree itself is the match,
     Err(false) = no occurrence, Ok(c) = c is the parent of the first occurrence *)
  Definition container_of (t pat : item) : cont_r :=
    match first_index pat t with
    | None => CErr false
    | Some k => if k =? 0 then CErr true
                else match parent_point t k with
                     | Some c => COk c
                     | None => CErr false
                     end
    end.

  (* every maximal structural match strictly below the root is replaced by
     [sub]; nothing inside a replaced subtree or inside [sub] is revisited *)
  Fixpoint subst_all (t pat sub : item) {struct t} : item :=
    match t with
    | IList l =>
        IList ((fix go (l : list item) : list item :=
                  match l with
                  | [] => []
                  | c :: r => (if equals c pat then sub else subst_all c pat sub) :: go r
                  end) l)
    | _ => t
    end.
  Definition subst_list (pat sub : item) : list item -> list item :=
    fix go (l : list item) : list item :=
      match l with
      | [] => []
      | c :: r => (if equals c pat then sub else subst_all c pat sub) :: go r
      end.

  (* no float literal anywhere: on such trees [equals] is reflexive whatever
     the float comparison does *)
  Definition lit_float_free (v : lit) : bool :=
    match v with LFloat _ => false | LFloatVec [] => true | LFloatVec _ => false | _ => true end.
  Fixpoint float_free (t : item) : bool :=
    match t with
    | IList l => (fix go (l : list item) : bool :=
                    match l with [] => true | c :: r => float_free c && go r end) l
    | ILit v => lit_float_free v
    | _ => true
    end.
  Definition float_free_list : list item -> bool :=
    fix go (l : list item) : bool :=
      match l with [] => true | c :: r => float_free c && go r end.
End WithFloats.

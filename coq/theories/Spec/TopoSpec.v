(* Specification side of C20 (neighbourhoods on index topologies).
   - [iroot_ceil n d]: the edge of the smallest hypercube of dimension d that
     holds n cells (least e with n <= e^d);
   - coordinates of an index: its little-endian digit vector in base e, with the
     inverse [compose];
   - [sqdist]: integer squared Euclidean distance of two coordinate vectors;
   - [within D r]: "a point at squared distance D lies within radius r", in f32
     semantics: sqrt of D (as f32) <= r.  The crate's own suite relies on
     f32::sqrt(2.0) as radius including the diagonal, so the comparison is
     the f32 one, not the real-number one;
   - [geo_nbrs]: the geometric neighbourhood, the set the property talks about. *)
From Coq Require Import ZArith List Bool Lia.
From PushModel Require Import Base.Sx Base.F32.
Import ListNotations.
Open Scope Z_scope.

(* ---- integer root, rounded up: upward search from 1 ---- *)
Fixpoint iroot_go (n d : Z) (fuel : nat) (e : Z) : Z :=
  match fuel with
  | O => e
  | S f => if n <=? e ^ d then e else iroot_go n d f (e + 1)
  end.
Definition iroot_ceil (n d : Z) : Z := iroot_go n d (Z.to_nat n) 1.

(* ---- coordinates ---- *)
Fixpoint digits (e : Z) (d : nat) (i : Z) : list Z :=
  match d with
  | O => []
  | S d' => (i mod e) :: digits e d' (i / e)
  end.
Fixpoint compose (e : Z) (l : list Z) : Z :=
  match l with
  | [] => 0
  | x :: r => x + e * compose e r
  end.
Definition coord_ok (e : Z) (d : nat) (l : list Z) : Prop :=
  length l = d /\ Forall (fun x => 0 <= x < e) l.

Fixpoint sqdist (l1 l2 : list Z) : Z :=
  match l1, l2 with
  | a :: r1, b :: r2 => (a - b) * (a - b) + sqdist r1 r2
  | _, _ => 0
  end.

Definition two24 : Z := 16777216.                 (* integers up to 2^24 are exact in binary32 *)

(* 0, 1, ..., n-1 *)
Definition zseq (n : Z) : list Z := map Z.of_nat (seq 0 (Z.to_nat n)).

Section Within.
  Context {FO : FloatOps}.
  Definition within (D : Z) (r : f32) : bool := fle (fsqrt (f_of_usize D)) r.

  (* the neighbourhood of [index] among ntotal cells arranged in the smallest
     enclosing ndim-dimensional hypercube *)
  Definition geo_nbrs (ntotal ndim index : Z) (r : f32) : list Z :=
    let e := iroot_ceil ntotal ndim in
    let d := Z.to_nat ndim in
    filter (fun i => within (sqdist (digits e d index) (digits e d i)) r) (zseq ntotal).
End Within.

(* ---- characterisation of the integer root ---- *)
Lemma pow_ge_base e d : 1 <= e -> 1 <= d -> e <= e ^ d.
Proof.
  intros He Hd. rewrite <- (Z.pow_1_r e) at 1. apply Z.pow_le_mono_r; lia.
Qed.

Lemma iroot_go_spec n d : 1 <= d -> forall fuel e,
  1 <= e -> n <= e + Z.of_nat fuel ->
  (forall e', 1 <= e' < e -> e' ^ d < n) ->
  let r := iroot_go n d fuel e in
  e <= r /\ n <= r ^ d /\ (forall e', 1 <= e' < r -> e' ^ d < n).
Proof.
  intros Hd. induction fuel as [|f IH]; intros e He Hn Hlow; cbn [iroot_go].
  - split; [lia|]. split; [|exact Hlow].
    pose proof (pow_ge_base e d He Hd). lia.
  - destruct (n <=? e ^ d) eqn:E.
    + apply Z.leb_le in E. split; [lia|]. split; assumption.
    + apply Z.leb_gt in E.
      destruct (IH (e + 1)) as (H1 & H2 & H3); try lia.
      * intros e' He'. destruct (Z.eq_dec e' e) as [->|]; [exact E|apply Hlow; lia].
      * split; [lia|]. split; assumption.
Qed.

(* iroot_ceil n d is the least positive e with n <= e^d *)
Lemma iroot_ceil_spec n d : 1 <= n -> 1 <= d ->
  let e := iroot_ceil n d in
  1 <= e /\ n <= e ^ d /\ (forall e', 1 <= e' < e -> e' ^ d < n).
Proof.
  intros Hn Hd. unfold iroot_ceil.
  apply (iroot_go_spec n d Hd (Z.to_nat n) 1); lia.
Qed.

Lemma iroot_ceil_unique n d e : 1 <= d ->
  1 <= e -> n <= e ^ d -> (forall e', 1 <= e' < e -> e' ^ d < n) -> 1 <= n ->
  iroot_ceil n d = e.
Proof.
  intros Hd He Hup Hlow Hn.
  destruct (iroot_ceil_spec n d Hn Hd) as (H1 & H2 & H3).
  set (r := iroot_ceil n d) in *.
  destruct (Z.lt_trichotomy r e) as [L|[E|G]]; [|exact E|].
  - specialize (Hlow r ltac:(lia)). lia.
  - specialize (H3 e ltac:(lia)). lia.
Qed.

Lemma iroot_ceil_le n d : 1 <= n -> 1 <= d -> iroot_ceil n d <= n.
Proof.
  intros Hn Hd. destruct (iroot_ceil_spec n d Hn Hd) as (H1 & H2 & H3).
  destruct (Z_lt_le_dec n (iroot_ceil n d)) as [L|]; [|assumption].
  specialize (H3 n ltac:(lia)). pose proof (pow_ge_base n d Hn Hd). lia.
Qed.

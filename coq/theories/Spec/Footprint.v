(* C10 reference: the documented footprint of every instruction — the fields of the
   state it may write.  One line per instruction family; a field not listed is never
   changed by the instruction, whatever the operands. *)
From Coq Require Import ZArith String List Bool.
From PushModel Require Import Base.Sx Base.Machine Base.F32 Model.Item Model.GraphT Model.State Model.InstrBase.
Import ListNotations.
Open Scope string_scope.

Inductive fld := FBool | FCode | FExec | FFloat | FIndex | FInt | FName | FBvec | FFvec | FIvec
               | FInput | FOutput | FGraph | FBind | FCfg | FQuote | FSend.

Definition also (f : fld) (m : mask) : mask :=
  match f with
  | FBool => also_bool m | FCode => also_code m | FExec => also_exec m | FFloat => also_float m
  | FIndex => also_index m | FInt => also_int m | FName => also_name m | FBvec => also_bvec m
  | FFvec => also_fvec m | FIvec => also_ivec m | FInput => also_input m | FOutput => also_output m
  | FGraph => also_graph m | FBind => also_bind m | FCfg => also_cfg m | FQuote => also_quote m
  | FSend => also_send m
  end.
Definition W (l : list fld) : mask := fold_right also mask_none l.

(* the stack-manipulation family of a stack type *)
Definition fp_family (pre : string) (f : fld) : list (string * mask) :=
  [ (pre ++ ".DUP", W [f]); (pre ++ ".POP", W [f]); (pre ++ ".SWAP", W [f]); (pre ++ ".ROT", W [f]);
    (pre ++ ".FLUSH", W [f]); (pre ++ ".YANK", W [FInt; f]); (pre ++ ".YANKDUP", W [FInt; f]);
    (pre ++ ".SHOVE", W [FInt; f]) ].

Definition fp_core : list (string * mask) :=
  [ ("NOOP", W []) ] ++
  fp_family "BOOLEAN" FBool ++
  [ ("BOOLEAN.STACKDEPTH", W [FInt]); ("BOOLEAN.DEFINE", W [FName; FBool; FBind]);
    ("BOOLEAN.=", W [FBool]); ("BOOLEAN.AND", W [FBool]); ("BOOLEAN.OR", W [FBool]); ("BOOLEAN.NOT", W [FBool]);
    ("BOOLEAN.FROMFLOAT", W [FBool]); ("BOOLEAN.FROMINTEGER", W [FBool]); ("BOOLEAN.ID", W [FInt]) ] ++
  fp_family "INTEGER" FInt ++
  [ ("INTEGER.STACKDEPTH", W [FInt]); ("INTEGER.DEFINE", W [FName; FInt; FBind]);
    ("INTEGER.%", W [FInt]); ("INTEGER.*", W [FInt]); ("INTEGER.+", W [FInt]); ("INTEGER.-", W [FInt]);
    ("INTEGER./", W [FInt]); ("INTEGER.<", W [FInt; FBool]); ("INTEGER.=", W [FInt; FBool]);
    ("INTEGER.>", W [FInt; FBool]); ("INTEGER.ABS", W [FInt]); ("INTEGER.DDUP", W [FInt]);
    ("INTEGER.FROMBOOLEAN", W [FBool; FInt]); ("INTEGER.FROMFLOAT", W [FFloat; FInt]); ("INTEGER.ID", W [FInt]);
    ("INTEGER.MAX", W [FInt]); ("INTEGER.MIN", W [FInt]) ] ++
  fp_family "FLOAT" FFloat ++
  [ ("FLOAT.STACKDEPTH", W [FInt]); ("FLOAT.DEFINE", W [FName; FFloat; FBind]);
    ("FLOAT.%", W [FFloat]); ("FLOAT.*", W [FFloat]); ("FLOAT.+", W [FFloat]); ("FLOAT.-", W [FFloat]);
    ("FLOAT./", W [FFloat]); ("FLOAT.<", W [FFloat; FBool]); ("FLOAT.=", W [FFloat; FBool]);
    ("FLOAT.>", W [FFloat; FBool]); ("FLOAT.COS", W [FFloat]); ("FLOAT.EXP", W [FFloat]);
    ("FLOAT.FROMBOOLEAN", W [FBool; FFloat]); ("FLOAT.FROMINTEGER", W [FInt; FFloat]); ("FLOAT.ID", W [FInt]);
    ("FLOAT.MAX", W [FFloat]); ("FLOAT.MIN", W [FFloat]); ("FLOAT.SIN", W [FFloat]); ("FLOAT.TAN", W [FFloat]) ] ++
  fp_family "NAME" FName ++
  [ ("NAME.STACKDEPTH", W [FInt]); ("NAME.=", W [FName; FBool]); ("NAME.CAT", W [FName]); ("NAME.ID", W [FInt]);
    ("NAME.QUOTE", W [FQuote]); ("NAME.SEND", W [FSend]) ] ++
  fp_family "CODE" FCode ++
  [ ("CODE.STACKDEPTH", W [FInt]); ("CODE.DEFINE", W [FName; FCode; FBind]);
    ("CODE.=", W [FBool]); ("CODE.APPEND", W [FCode]); ("CODE.ATOM", W [FBool]); ("CODE.CAR", W [FCode]);
    ("CODE.CDR", W [FCode]); ("CODE.CONS", W [FCode]); ("CODE.CONTAINER", W [FCode]); ("CODE.CONTAINS", W [FBool]);
    ("CODE.DEFINITION", W [FName; FCode]); ("CODE.DISCREPANCY", W [FInt]); ("CODE.DO", W [FExec]);
    ("CODE.DO*", W [FExec]); ("CODE.LOOP", W [FCode; FExec; FIndex]); ("CODE.EXTRACT", W [FInt; FCode]);
    ("CODE.FROMBOOLEAN", W [FBool; FCode]); ("CODE.FROMFLOAT", W [FFloat; FCode]);
    ("CODE.FROMINTEGER", W [FInt; FCode]); ("CODE.FROMNAME", W [FName; FCode]); ("CODE.ID", W [FInt]);
    ("CODE.IF", W [FCode; FBool; FExec]); ("CODE.INSERT", W [FInt; FCode]); ("CODE.LENGTH", W [FInt]);
    ("CODE.LIST", W [FCode]); ("CODE.MEMBER", W [FBool]); ("CODE.NOOP", W []); ("CODE.NTH", W [FInt; FCode]);
    ("CODE.NULL", W [FBool]); ("CODE.POSITION", W [FInt]); ("CODE.PRINT", W [FName]);
    ("CODE.QUOTE", W [FExec; FCode]); ("CODE.SIZE", W [FInt]); ("CODE.SUBST", W [FCode]) ] ++
  fp_family "EXEC" FExec ++
  [ ("EXEC.STACKDEPTH", W [FInt]); ("EXEC.DEFINE", W [FName; FExec; FBind]);
    ("EXEC.=", W [FBool]); ("EXEC.CMD", W [FInt; FName]); ("EXEC.LOOP", W [FExec; FIndex]);
    ("EXEC.ID", W [FInt]); ("EXEC.IF", W [FExec; FBool]); ("EXEC.K", W [FExec]); ("EXEC.S", W [FExec]);
    ("EXEC.Y", W [FExec]) ] ++
  [ ("INDEX.CURRENT", W [FInt]); ("INDEX.DEFINE", W [FInt; FIndex]); ("INDEX.DESTINATION", W [FIndex]);
    ("INDEX.FLUSH", W [FIndex]); ("INDEX.INCREASE", W [FIndex]); ("INDEX.POP", W [FIndex]) ].

(* ---- the three vector families (vector.rs); the vector stacks have no ROT ---- *)
Definition fp_vec_family (pre : string) (f : fld) : list (string * mask) :=
  [ (pre ++ ".DUP", W [f]); (pre ++ ".POP", W [f]); (pre ++ ".SWAP", W [f]);
    (pre ++ ".FLUSH", W [f]); (pre ++ ".YANK", W [FInt; f]); (pre ++ ".YANKDUP", W [FInt; f]);
    (pre ++ ".SHOVE", W [FInt; f]) ].

Definition fp_bvec : list (string * mask) :=
  fp_vec_family "BOOLVECTOR" FBvec ++
  [ ("BOOLVECTOR.STACKDEPTH", W [FInt]); ("BOOLVECTOR.DEFINE", W [FName; FBvec; FBind]);
    ("BOOLVECTOR.GET", W [FInt; FBool]); ("BOOLVECTOR.SET", W [FInt; FBool; FBvec]);
    ("BOOLVECTOR.AND", W [FBvec; FInt]); ("BOOLVECTOR.OR", W [FBvec; FInt]); ("BOOLVECTOR.NOT", W [FBvec; FInt]);
    ("BOOLVECTOR.COUNT", W [FInt]); ("BOOLVECTOR.EQUAL", W [FBvec; FBool]); ("BOOLVECTOR.ID", W [FInt]);
    ("BOOLVECTOR.LENGTH", W [FInt]); ("BOOLVECTOR.ONES", W [FInt; FBvec]); ("BOOLVECTOR.ZEROS", W [FInt; FBvec]);
    ("BOOLVECTOR.ROTATE", W [FBool; FBvec]); ("BOOLVECTOR.SORT*ASC", W [FBvec]); ("BOOLVECTOR.SORT*DESC", W [FBvec]) ].

Definition fp_ivec : list (string * mask) :=
  fp_vec_family "INTVECTOR" FIvec ++
  [ ("INTVECTOR.STACKDEPTH", W [FInt]); ("INTVECTOR.DEFINE", W [FName; FIvec; FBind]);
    ("INTVECTOR.APPEND", W [FInt; FIvec]); ("INTVECTOR.BOOLINDEX", W [FBvec; FIvec]);
    ("INTVECTOR.GET", W [FInt]); ("INTVECTOR.SET", W [FInt; FIvec]);
    ("INTVECTOR.+", W [FIvec; FInt]); ("INTVECTOR.-", W [FIvec; FInt]);
    ("INTVECTOR.CONTAINS", W [FInt; FIvec; FBool]); ("INTVECTOR.EMPTY", W [FIvec]);
    ("INTVECTOR.EQUAL", W [FIvec; FBool]); ("INTVECTOR.FROMINT", W [FInt; FIvec]); ("INTVECTOR.ID", W [FInt]);
    ("INTVECTOR.ONES", W [FInt; FIvec]); ("INTVECTOR.ZEROS", W [FInt; FIvec]); ("INTVECTOR.MEAN", W [FFloat]);
    ("INTVECTOR.LENGTH", W [FInt]); ("INTVECTOR.LOOP", W [FIvec; FExec; FInt]); ("INTVECTOR.REMOVE", W [FInt; FIvec]);
    ("INTVECTOR.ROTATE", W [FInt; FIvec]); ("INTVECTOR.SORT*ASC", W [FIvec]); ("INTVECTOR.SORT*DESC", W [FIvec]);
    ("INTVECTOR.SET*INSERT", W [FInt; FIvec]); ("INTVECTOR.SUM", W [FInt]) ].

Definition fp_fvec : list (string * mask) :=
  fp_vec_family "FLOATVECTOR" FFvec ++
  [ ("FLOATVECTOR.STACKDEPTH", W [FInt]); ("FLOATVECTOR.DEFINE", W [FName; FFvec; FBind]);
    ("FLOATVECTOR.GET", W [FInt; FFloat]); ("FLOATVECTOR.SET", W [FInt; FFloat; FFvec]);
    ("FLOATVECTOR.+", W [FFvec; FInt]); ("FLOATVECTOR.-", W [FFvec; FInt]);
    ("FLOATVECTOR.*", W [FFvec; FInt]); ("FLOATVECTOR./", W [FFvec; FInt]);
    ("FLOATVECTOR.*SCALAR", W [FFloat; FFvec]); ("FLOATVECTOR.APPEND", W [FFloat; FFvec]);
    ("FLOATVECTOR.EMPTY", W [FFvec]); ("FLOATVECTOR.EQUAL", W [FFvec; FBool]); ("FLOATVECTOR.ID", W [FInt]);
    ("FLOATVECTOR.LENGTH", W [FInt]); ("FLOATVECTOR.MEAN", W [FFloat]);
    ("FLOATVECTOR.ONES", W [FInt; FFvec]); ("FLOATVECTOR.ZEROS", W [FInt; FFvec]);
    ("FLOATVECTOR.ROTATE", W [FFloat; FFvec]); ("FLOATVECTOR.SINE", W [FFloat; FInt; FFvec]);
    ("FLOATVECTOR.SORT*ASC", W [FFvec]); ("FLOATVECTOR.SORT*DESC", W [FFvec]); ("FLOATVECTOR.SUM", W [FFloat]) ].

Definition fp_vec : list (string * mask) := fp_bvec ++ fp_ivec ++ fp_fvec.

(* ---- LIST (list.rs).  A record is built from the stacks designated by the ids of the top
   INTVECTOR: any of the nine typed stacks may lose an item (INDEX / INPUT / OUTPUT ids
   designate nothing). ---- *)
Definition designated : list fld := [FBool; FBvec; FCode; FExec; FFloat; FFvec; FInt; FIvec; FName].
Definition fp_list : list (string * mask) :=
  [ ("LIST.ADD", W designated);                  (* id vector and designated items popped, record pushed on CODE *)
    ("LIST.REMOVE", W [FInt; FCode]); ("LIST.GET", W [FInt; FExec]);
    ("LIST.SET", W designated);                  (* position from INTEGER, then as LIST.ADD, record replaced on CODE *)
    ("LIST.BVAL", W [FInt; FBool]); ("LIST.IVAL", W [FInt]); ("LIST.FVAL", W [FInt; FFloat]) ].

(* ---- INPUT / OUTPUT (io.rs) ---- *)
Definition fp_io : list (string * mask) :=
  [ ("INPUT.AVAILABLE", W [FBool]); ("INPUT.GET", W [FInt; FBool]); ("INPUT.NEXT", W [FInput]);
    (* the doc comment of INPUT.READ names the BOOLVECTOR stack only; the body also pushes the
       header on INTVECTOR (finding C10/input-read-header, documentation) *)
    ("INPUT.READ", W [FBvec; FIvec]);
    ("INPUT.STACKDEPTH", W [FInt]);
    ("OUTPUT.FLUSH", W [FOutput]); ("OUTPUT.WRITE", W [FBvec; FIvec; FOutput]); ("OUTPUT.STACKDEPTH", W [FInt]) ].

(* ---- GRAPH (graph.rs) ---- *)
Definition fp_graph : list (string * mask) :=
  [ ("GRAPH.ADD", W [FGraph]); ("GRAPH.DUP", W [FGraph]); ("GRAPH.NODE*ADD", W [FInt; FGraph]);
    ("GRAPH.NODE*GETSTATE", W [FInt]); ("GRAPH.NODE*HISTORY", W [FInt]); ("GRAPH.NODE*SETSTATE", W [FInt; FGraph]);
    ("GRAPH.NODE*NEIGHBORS", W [FIvec; FInt]); ("GRAPH.NODE*PREDECESSORS", W [FIvec; FInt]);
    ("GRAPH.NODE*SUCCESSORS", W [FIvec; FInt]);
    ("GRAPH.NODE*STATESWITCH", W [FIvec; FBvec; FInt; FGraph]);
    ("GRAPH.NODES", W [FIvec]); ("GRAPH.NODES*HISTORY", W [FInt; FIvec]); ("GRAPH.STACKDEPTH", W [FInt]);
    ("GRAPH.PRINT", W [FName]); ("GRAPH.PRINT*DIFF", W [FName]);
    ("GRAPH.EDGE*ADD", W [FFloat; FInt; FGraph]); ("GRAPH.EDGE*HISTORY", W [FInt; FFloat]);
    ("GRAPH.EDGE*GETWEIGHT", W [FInt; FFloat]); ("GRAPH.EDGE*SETWEIGHT", W [FFloat; FInt; FGraph]) ].

(* ---- LIST.NEIGHBOR* (list.rs): size, index, dimensions (and the position for *VALS) from INTEGER,
   the radius from FLOAT; one vector pushed ---- *)
Definition fp_nbr : list (string * mask) :=
  [ ("LIST.NEIGHBOR*IDS", W [FInt; FFloat; FIvec]); ("LIST.NEIGHBOR*BVALS", W [FInt; FFloat; FBvec]);
    ("LIST.NEIGHBOR*IVALS", W [FInt; FFloat; FIvec]); ("LIST.NEIGHBOR*FVALS", W [FInt; FFloat; FFvec]) ].

(* ---- the instructions that read the random number generator (the generator is outside the state) ---- *)
Definition fp_rand : list (string * mask) :=
  [ ("BOOLEAN.RAND", W [FBool]); ("INTEGER.RAND", W [FInt]); ("FLOAT.RAND", W [FFloat]);
    ("CODE.RAND", W [FInt; FCode]); ("NAME.RAND", W [FName]); ("NAME.RANDBOUNDNAME", W [FName]);
    ("BOOLVECTOR.RAND", W [FInt; FFloat; FBvec]); ("INTVECTOR.RAND", W [FInt; FIvec]);
    ("FLOATVECTOR.RAND", W [FInt; FFloat; FFvec]) ].

(* every registered family, in the order of Model/RegistryAll.v; a new family is one more `++`
   (and one more lemma in FrameProofs2.all_framed) *)
Definition fp_base : list (string * mask) :=
  fp_core ++ fp_bvec ++ fp_ivec ++ fp_fvec ++ fp_list ++ fp_io ++ fp_graph ++ fp_nbr.
Definition fp_all : list (string * mask) := fp_base ++ fp_rand.

Fixpoint fp_lookup (t : list (string * mask)) (n : string) : option mask :=
  match t with
  | [] => None
  | (k, m) :: r => if String.eqb n k then Some m else fp_lookup r n
  end.

(* ---- one interpreter step: EXEC plus the footprint of the item it executes ---- *)
Definition lit_fld (v : lit) : fld :=
  match v with
  | LBool _ => FBool | LInt _ => FInt | LIndex _ _ => FIndex | LFloat _ => FFloat
  | LBoolVec _ => FBvec | LIntVec _ => FIvec | LFloatVec _ => FFvec
  end.
Inductive step_fp (fp : list (string * mask)) : item -> mask -> Prop :=
| sf_lit v : step_fp fp (ILit v) (W [lit_fld v])                 (* a literal goes to its typed stack *)
| sf_name n : step_fp fp (IName n) (W [FName; FQuote])           (* NAME stack (or EXEC when bound); the quote flag is cleared *)
| sf_list l : step_fp fp (IList l) (W [])                        (* unpacked onto EXEC *)
| sf_instr k m : fp_lookup fp k = Some m -> step_fp fp (IInstr (s2l k)) m
| sf_unknown n : (forall k, n = s2l k -> fp_lookup fp k = None) -> step_fp fp (IInstr n) (W []).

(* ================================================================================== *)
(* C10, second half: an instruction that lacks an operand only pops.                   *)

(* [l'] is [l] with some top items removed *)
Definition suffix {A} (l' l : list A) : Prop := exists k : nat, l' = skipn k l.

(* nothing pushed, nothing changed: every typed stack lost at most some top items; INDEX stack,
   queues, graphs, bindings, configuration and flags are equal *)
Definition only_pops (s s' : state) : Prop :=
  suffix (st_bool s') (st_bool s) /\ suffix (st_code s') (st_code s) /\ suffix (st_exec s') (st_exec s) /\
  suffix (st_float s') (st_float s) /\ suffix (st_int s') (st_int s) /\ suffix (st_name s') (st_name s) /\
  suffix (st_bvec s') (st_bvec s) /\ suffix (st_fvec s') (st_fvec s) /\ suffix (st_ivec s') (st_ivec s) /\
  st_index s' = st_index s /\ st_input s' = st_input s /\ st_output s' = st_output s /\
  st_graph s' = st_graph s /\ st_bind s' = st_bind s /\ st_cfg s' = st_cfg s /\
  st_quote s' = st_quote s /\ st_send s' = st_send s.

(* number of items a field holds (flags and configuration hold none) *)
Definition depth (f : fld) (s : state) : nat :=
  match f with
  | FBool => length (st_bool s) | FCode => length (st_code s) | FExec => length (st_exec s)
  | FFloat => length (st_float s) | FIndex => length (st_index s) | FInt => length (st_int s)
  | FName => length (st_name s) | FBvec => length (st_bvec s) | FFvec => length (st_fvec s)
  | FIvec => length (st_ivec s) | FInput => length (st_input s) | FOutput => length (st_output s)
  | FGraph => length (st_graph s) | FBind => length (st_bind s) | FCfg | FQuote | FSend => O
  end.

Local Open Scope nat_scope.
(* operand requirement: how many items of which stack the instruction needs in order to apply *)
Definition need := list (fld * nat).
Definition lacking_in (nd : need) (s : state) : bool :=
  existsb (fun e => Nat.ltb (depth (fst e) s) (snd e)) nd.

(* YANK / YANKDUP / SHOVE: the index and at least one item to act on *)
Definition nd_family (pre : string) (f : fld) (ny : need) : list (string * need) :=
  [ (pre ++ ".DUP", [(f, 1)]); (pre ++ ".POP", [(f, 1)]); (pre ++ ".SWAP", [(f, 2)]); (pre ++ ".ROT", [(f, 3)]);
    (pre ++ ".FLUSH", []); (pre ++ ".YANK", ny); (pre ++ ".YANKDUP", ny); (pre ++ ".SHOVE", ny) ].
Definition nd_vec_family (pre : string) (f : fld) : list (string * need) :=
  [ (pre ++ ".DUP", [(f, 1)]); (pre ++ ".POP", [(f, 1)]); (pre ++ ".SWAP", [(f, 2)]);
    (pre ++ ".FLUSH", []); (pre ++ ".YANK", [(FInt, 1); (f, 1)]); (pre ++ ".YANKDUP", [(FInt, 1); (f, 1)]);
    (pre ++ ".SHOVE", [(FInt, 1); (f, 1)]) ].

Definition nd_core : list (string * need) :=
  [ ("NOOP", []) ] ++
  nd_family "BOOLEAN" FBool [(FInt, 1); (FBool, 1)] ++
  [ ("BOOLEAN.STACKDEPTH", []); ("BOOLEAN.DEFINE", [(FName, 1); (FBool, 1)]);
    ("BOOLEAN.=", [(FBool, 2)]); ("BOOLEAN.AND", [(FBool, 2)]); ("BOOLEAN.OR", [(FBool, 2)]); ("BOOLEAN.NOT", [(FBool, 1)]);
    ("BOOLEAN.FROMFLOAT", [(FFloat, 1)]); ("BOOLEAN.FROMINTEGER", [(FInt, 1)]); ("BOOLEAN.ID", []) ] ++
  nd_family "INTEGER" FInt [(FInt, 2)] ++
  [ ("INTEGER.STACKDEPTH", []); ("INTEGER.DEFINE", [(FName, 1); (FInt, 1)]);
    ("INTEGER.%", [(FInt, 2)]); ("INTEGER.*", [(FInt, 2)]); ("INTEGER.+", [(FInt, 2)]); ("INTEGER.-", [(FInt, 2)]);
    ("INTEGER./", [(FInt, 2)]); ("INTEGER.<", [(FInt, 2)]); ("INTEGER.=", [(FInt, 2)]);
    ("INTEGER.>", [(FInt, 2)]); ("INTEGER.ABS", [(FInt, 1)]); ("INTEGER.DDUP", [(FInt, 2)]);
    ("INTEGER.FROMBOOLEAN", [(FBool, 1)]); ("INTEGER.FROMFLOAT", [(FFloat, 1)]); ("INTEGER.ID", []);
    ("INTEGER.MAX", [(FInt, 2)]); ("INTEGER.MIN", [(FInt, 2)]) ] ++
  nd_family "FLOAT" FFloat [(FInt, 1); (FFloat, 1)] ++
  [ ("FLOAT.STACKDEPTH", []); ("FLOAT.DEFINE", [(FName, 1); (FFloat, 1)]);
    ("FLOAT.%", [(FFloat, 2)]); ("FLOAT.*", [(FFloat, 2)]); ("FLOAT.+", [(FFloat, 2)]); ("FLOAT.-", [(FFloat, 2)]);
    ("FLOAT./", [(FFloat, 2)]); ("FLOAT.<", [(FFloat, 2)]); ("FLOAT.=", [(FFloat, 2)]);
    ("FLOAT.>", [(FFloat, 2)]); ("FLOAT.COS", [(FFloat, 1)]); ("FLOAT.EXP", [(FFloat, 1)]);
    ("FLOAT.FROMBOOLEAN", [(FBool, 1)]); ("FLOAT.FROMINTEGER", [(FInt, 1)]); ("FLOAT.ID", []);
    ("FLOAT.MAX", [(FFloat, 2)]); ("FLOAT.MIN", [(FFloat, 2)]); ("FLOAT.SIN", [(FFloat, 1)]); ("FLOAT.TAN", [(FFloat, 1)]) ] ++
  nd_family "NAME" FName [(FInt, 1); (FName, 1)] ++
  [ ("NAME.STACKDEPTH", []); ("NAME.=", [(FName, 2)]); ("NAME.CAT", [(FName, 2)]); ("NAME.ID", []);
    ("NAME.QUOTE", []); ("NAME.SEND", []) ] ++
  nd_family "CODE" FCode [(FInt, 1); (FCode, 1)] ++
  [ ("CODE.STACKDEPTH", []); ("CODE.DEFINE", [(FName, 1); (FCode, 1)]);
    ("CODE.=", [(FCode, 2)]); ("CODE.APPEND", [(FCode, 2)]); ("CODE.ATOM", [(FCode, 1)]); ("CODE.CAR", [(FCode, 1)]);
    ("CODE.CDR", [(FCode, 1)]); ("CODE.CONS", [(FCode, 2)]); ("CODE.CONTAINER", [(FCode, 2)]); ("CODE.CONTAINS", [(FCode, 2)]);
    ("CODE.DEFINITION", [(FName, 1)]); ("CODE.DISCREPANCY", [(FCode, 2)]); ("CODE.DO", [(FCode, 1)]);
    ("CODE.DO*", [(FCode, 1)]); ("CODE.LOOP", [(FCode, 1); (FIndex, 1)]); ("CODE.EXTRACT", [(FInt, 1); (FCode, 1)]);
    ("CODE.FROMBOOLEAN", [(FBool, 1)]); ("CODE.FROMFLOAT", [(FFloat, 1)]);
    ("CODE.FROMINTEGER", [(FInt, 1)]); ("CODE.FROMNAME", [(FName, 1)]); ("CODE.ID", []);
    ("CODE.IF", [(FCode, 2); (FBool, 1)]); ("CODE.INSERT", [(FInt, 1); (FCode, 2)]); ("CODE.LENGTH", [(FCode, 1)]);
    ("CODE.LIST", [(FCode, 2)]); ("CODE.MEMBER", [(FCode, 2)]); ("CODE.NOOP", []); ("CODE.NTH", [(FInt, 1); (FCode, 1)]);
    ("CODE.NULL", [(FCode, 1)]); ("CODE.POSITION", [(FCode, 2)]); ("CODE.PRINT", [(FCode, 1)]);
    ("CODE.QUOTE", [(FExec, 1)]); ("CODE.SIZE", [(FCode, 1)]); ("CODE.SUBST", [(FCode, 3)]) ] ++
  nd_family "EXEC" FExec [(FInt, 1); (FExec, 1)] ++
  [ ("EXEC.STACKDEPTH", []); ("EXEC.DEFINE", [(FName, 1); (FExec, 1)]);
    ("EXEC.=", [(FExec, 2)]);
    ("EXEC.CMD", [(FInt, 1)]);         (* the number of NAME operands is the INTEGER's value: a guard, not a fixed need *)
    ("EXEC.LOOP", [(FExec, 1); (FIndex, 1)]);
    ("EXEC.ID", []); ("EXEC.IF", [(FExec, 2); (FBool, 1)]); ("EXEC.K", [(FExec, 2)]); ("EXEC.S", [(FExec, 3)]);
    ("EXEC.Y", [(FExec, 1)]) ] ++
  [ ("INDEX.CURRENT", [(FIndex, 1)]); ("INDEX.DEFINE", [(FInt, 1)]); ("INDEX.DESTINATION", [(FIndex, 1)]);
    ("INDEX.FLUSH", []); ("INDEX.INCREASE", [(FIndex, 1)]); ("INDEX.POP", [(FIndex, 1)]) ].

Definition nd_bvec : list (string * need) :=
  nd_vec_family "BOOLVECTOR" FBvec ++
  [ ("BOOLVECTOR.STACKDEPTH", []); ("BOOLVECTOR.DEFINE", [(FName, 1); (FBvec, 1)]);
    ("BOOLVECTOR.GET", [(FInt, 1); (FBvec, 1)]); ("BOOLVECTOR.SET", [(FInt, 1); (FBool, 1); (FBvec, 1)]);
    ("BOOLVECTOR.AND", [(FBvec, 2); (FInt, 1)]); ("BOOLVECTOR.OR", [(FBvec, 2); (FInt, 1)]);
    ("BOOLVECTOR.NOT", [(FBvec, 1); (FInt, 1)]);
    ("BOOLVECTOR.COUNT", [(FBvec, 1)]); ("BOOLVECTOR.EQUAL", [(FBvec, 2)]); ("BOOLVECTOR.ID", []);
    ("BOOLVECTOR.LENGTH", [(FBvec, 1)]); ("BOOLVECTOR.ONES", [(FInt, 1)]); ("BOOLVECTOR.ZEROS", [(FInt, 1)]);
    ("BOOLVECTOR.ROTATE", [(FBool, 1); (FBvec, 1)]); ("BOOLVECTOR.SORT*ASC", [(FBvec, 1)]); ("BOOLVECTOR.SORT*DESC", [(FBvec, 1)]) ].

Definition nd_ivec : list (string * need) :=
  nd_vec_family "INTVECTOR" FIvec ++
  [ ("INTVECTOR.STACKDEPTH", []); ("INTVECTOR.DEFINE", [(FName, 1); (FIvec, 1)]);
    ("INTVECTOR.APPEND", [(FIvec, 1); (FInt, 1)]); ("INTVECTOR.BOOLINDEX", [(FBvec, 1)]);
    ("INTVECTOR.GET", [(FInt, 1); (FIvec, 1)]); ("INTVECTOR.SET", [(FInt, 2); (FIvec, 1)]);
    ("INTVECTOR.+", [(FIvec, 2); (FInt, 1)]); ("INTVECTOR.-", [(FIvec, 2); (FInt, 1)]);
    ("INTVECTOR.CONTAINS", [(FInt, 1); (FIvec, 1)]); ("INTVECTOR.EMPTY", []);
    ("INTVECTOR.EQUAL", [(FIvec, 2)]); ("INTVECTOR.FROMINT", [(FInt, 1)]); ("INTVECTOR.ID", []);
    ("INTVECTOR.ONES", [(FInt, 1)]); ("INTVECTOR.ZEROS", [(FInt, 1)]); ("INTVECTOR.MEAN", [(FIvec, 1)]);
    ("INTVECTOR.LENGTH", [(FIvec, 1)]); ("INTVECTOR.LOOP", [(FIvec, 1); (FExec, 1)]);
    ("INTVECTOR.REMOVE", [(FIvec, 1); (FInt, 1)]);
    ("INTVECTOR.ROTATE", [(FInt, 1); (FIvec, 1)]); ("INTVECTOR.SORT*ASC", [(FIvec, 1)]); ("INTVECTOR.SORT*DESC", [(FIvec, 1)]);
    (* EXCEPTION (documented: "If no INTVECTOR item exists, a new one will be created"): on an empty
       INTVECTOR stack an empty vector is pushed even without an INTEGER; recorded as needing nothing *)
    ("INTVECTOR.SET*INSERT", []);
    ("INTVECTOR.SUM", [(FIvec, 1)]) ].

Definition nd_fvec : list (string * need) :=
  nd_vec_family "FLOATVECTOR" FFvec ++
  [ ("FLOATVECTOR.STACKDEPTH", []); ("FLOATVECTOR.DEFINE", [(FName, 1); (FFvec, 1)]);
    ("FLOATVECTOR.GET", [(FInt, 1); (FFvec, 1)]); ("FLOATVECTOR.SET", [(FInt, 1); (FFloat, 1); (FFvec, 1)]);
    ("FLOATVECTOR.+", [(FFvec, 2); (FInt, 1)]); ("FLOATVECTOR.-", [(FFvec, 2); (FInt, 1)]);
    ("FLOATVECTOR.*", [(FFvec, 2); (FInt, 1)]); ("FLOATVECTOR./", [(FFvec, 2); (FInt, 1)]);
    ("FLOATVECTOR.*SCALAR", [(FFloat, 1); (FFvec, 1)]); ("FLOATVECTOR.APPEND", [(FFvec, 1); (FFloat, 1)]);
    ("FLOATVECTOR.EMPTY", []); ("FLOATVECTOR.EQUAL", [(FFvec, 2)]); ("FLOATVECTOR.ID", []);
    ("FLOATVECTOR.LENGTH", [(FFvec, 1)]); ("FLOATVECTOR.MEAN", [(FFvec, 1)]);
    ("FLOATVECTOR.ONES", [(FInt, 1)]); ("FLOATVECTOR.ZEROS", [(FInt, 1)]);
    ("FLOATVECTOR.ROTATE", [(FFloat, 1); (FFvec, 1)]); ("FLOATVECTOR.SINE", [(FFloat, 3); (FInt, 1)]);
    ("FLOATVECTOR.SORT*ASC", [(FFvec, 1)]); ("FLOATVECTOR.SORT*DESC", [(FFvec, 1)]); ("FLOATVECTOR.SUM", [(FFvec, 1)]) ].

Definition nd_list : list (string * need) :=
  [ ("LIST.ADD", [(FIvec, 1)]); ("LIST.REMOVE", [(FInt, 1); (FCode, 1)]); ("LIST.GET", [(FInt, 1); (FCode, 1)]);
    (* without a record to replace, the items taken for the new record are lost, nothing is pushed *)
    ("LIST.SET", [(FInt, 1); (FIvec, 1); (FCode, 1)]); ("LIST.BVAL", [(FInt, 2); (FCode, 1)]); ("LIST.IVAL", [(FInt, 2); (FCode, 1)]);
    ("LIST.FVAL", [(FInt, 2); (FCode, 1)]) ].

Definition nd_io : list (string * need) :=
  [ ("INPUT.AVAILABLE", []); ("INPUT.GET", [(FInt, 1); (FInput, 1)]); ("INPUT.NEXT", [(FInput, 1)]);
    ("INPUT.READ", [(FInput, 1)]); ("INPUT.STACKDEPTH", []);
    ("OUTPUT.FLUSH", []); ("OUTPUT.WRITE", [(FBvec, 1); (FIvec, 1)]); ("OUTPUT.STACKDEPTH", []) ].

Definition nd_graph : list (string * need) :=
  [ ("GRAPH.ADD", []); ("GRAPH.DUP", [(FGraph, 1)]); ("GRAPH.NODE*ADD", [(FGraph, 1); (FInt, 1)]);
    ("GRAPH.NODE*GETSTATE", [(FGraph, 1); (FInt, 1)]); ("GRAPH.NODE*HISTORY", [(FInt, 2); (FGraph, 1)]);
    ("GRAPH.NODE*SETSTATE", [(FGraph, 1); (FInt, 2)]);
    ("GRAPH.NODE*NEIGHBORS", [(FGraph, 1); (FIvec, 1); (FInt, 1)]);
    ("GRAPH.NODE*PREDECESSORS", [(FGraph, 1); (FIvec, 1); (FInt, 1)]);
    ("GRAPH.NODE*SUCCESSORS", [(FGraph, 1); (FIvec, 1); (FInt, 1)]);
    ("GRAPH.NODE*STATESWITCH", [(FGraph, 1); (FIvec, 1); (FBvec, 1); (FInt, 2)]);
    ("GRAPH.NODES", [(FGraph, 1); (FIvec, 1)]); ("GRAPH.NODES*HISTORY", [(FInt, 1); (FGraph, 1); (FIvec, 1)]);
    ("GRAPH.STACKDEPTH", []); ("GRAPH.PRINT", [(FGraph, 1)]); ("GRAPH.PRINT*DIFF", [(FGraph, 2)]);
    ("GRAPH.EDGE*ADD", [(FGraph, 1); (FFloat, 1); (FInt, 2)]); ("GRAPH.EDGE*HISTORY", [(FInt, 3); (FGraph, 1)]);
    ("GRAPH.EDGE*GETWEIGHT", [(FGraph, 1); (FInt, 2)]); ("GRAPH.EDGE*SETWEIGHT", [(FGraph, 1); (FFloat, 1); (FInt, 2)]) ].

Definition nd_nbr : list (string * need) :=
  [ ("LIST.NEIGHBOR*IDS", [(FInt, 3); (FFloat, 1)]); ("LIST.NEIGHBOR*BVALS", [(FInt, 4); (FFloat, 1)]);
    ("LIST.NEIGHBOR*IVALS", [(FInt, 4); (FFloat, 1)]); ("LIST.NEIGHBOR*FVALS", [(FInt, 4); (FFloat, 1)]) ].

Definition nd_rand : list (string * need) :=
  [ ("BOOLEAN.RAND", []); ("INTEGER.RAND", []); ("FLOAT.RAND", []); ("CODE.RAND", [(FInt, 1)]); ("NAME.RAND", []);
    (* EXCEPTION (documented, random.rs: "Selects a random item from the name bindings or a new name if
       there is not name binding yet"): without any binding a fresh name is pushed; recorded as needing nothing *)
    ("NAME.RANDBOUNDNAME", []);
    ("BOOLVECTOR.RAND", [(FInt, 1); (FFloat, 1)]); ("INTVECTOR.RAND", [(FInt, 3)]);
    ("FLOATVECTOR.RAND", [(FInt, 1); (FFloat, 2)]) ].

Definition nd_base : list (string * need) :=
  nd_core ++ nd_bvec ++ nd_ivec ++ nd_fvec ++ nd_list ++ nd_io ++ nd_graph ++ nd_nbr.
Definition nd_all : list (string * need) := nd_base ++ nd_rand.

Fixpoint nd_lookup (t : list (string * need)) (n : string) : option need :=
  match t with
  | [] => None
  | (k, m) :: r => if String.eqb n k then Some m else nd_lookup r n
  end.

Definition needs (n : string) : need := match nd_lookup nd_all n with Some nd => nd | None => [] end.
(* some needed operand is missing *)
Definition lacking (n : string) (s : state) : bool := lacking_in (needs n) s.

(* ---- guards: all operands are there, but the condition on their VALUES under which the
   instruction applies does not hold.  [gd_all] gives, per instruction NAME, the test "the guard
   fails" (written with the comparison the doc comment states).  An instruction whose guard fails
   only pops, exactly as when an operand is missing. ---- *)
Local Open Scope Z_scope.
Section Guards.
  Context {FO : FloatOps}.
  Definition top_int (P : Z -> bool) (s : state) : bool := match st_int s with z :: _ => P z | [] => false end.
  Definition second_int (P : Z -> bool) (s : state) : bool := match st_int s with _ :: z :: _ => P z | _ => false end.
  Definition top_float (P : f32 -> bool) (s : state) : bool := match st_float s with x :: _ => P x | [] => false end.

  Fixpoint zero_over (top : list f32) (i off size : Z) : bool :=
    match top with
    | [] => false
    | t :: r => (feq t f_zero && (0 <=? i + off) && (i + off <? size)) || zero_over r (i + 1) off size
    end.

  Definition gd_all : list (string * (state -> bool)) :=
    [ (* documented: "If the top item is zero this acts as a NOOP" (the two operands are consumed) *)
      ("INTEGER./", top_int (fun z => z =? 0)); ("INTEGER.%", top_int (fun z => z =? 0));
      ("FLOAT./", top_float (fun x => feq x f_zero)); ("FLOAT.%", top_float (fun x => feq x f_zero));
      (* documented: "Increases the current value by one if current < destination. Otherwise ... NOOP" *)
      ("INDEX.INCREASE", fun s => match st_index s with (cur, dest) :: _ => negb (cur <? dest) | [] => false end);
      (* documented: "If the length is < 0 no vector is pushed" *)
      ("FLOATVECTOR.SINE", top_int (fun n => negb (0 <=? n)));
      (* guards of the code on which the doc comments are silent: a size that is not positive, *)
      ("BOOLVECTOR.ONES", top_int (fun n => negb (0 <? n))); ("BOOLVECTOR.ZEROS", top_int (fun n => negb (0 <? n)));
      ("INTVECTOR.ONES", top_int (fun n => negb (0 <? n))); ("INTVECTOR.ZEROS", top_int (fun n => negb (0 <? n)));
      ("FLOATVECTOR.ONES", top_int (fun n => negb (0 <? n))); ("FLOATVECTOR.ZEROS", top_int (fun n => negb (0 <? n)));
      (* a name without a definition, a negative argument count, *)
      ("CODE.DEFINITION", fun s => match st_name s with
                                   | n :: _ => match bind_get (st_bind s) n with None => true | Some _ => false end
                                   | [] => false end);
      ("EXEC.CMD", fun s => match st_int s with        (* ... or fewer than n + 1 NAMEs for n arguments *)
                            | n :: _ => negb (-1 <? n) || negb (n + 1 <=? zlen (st_name s))
                            | [] => false end);
      (* a node id that is not positive, a negative GRAPH stack position *)
      ("GRAPH.NODE*GETSTATE", top_int (fun id => negb (0 <? id)));
      ("GRAPH.NODE*SETSTATE", second_int (fun id => negb (0 <? id)));
      ("GRAPH.NODE*NEIGHBORS", top_int (fun id => negb (0 <? id)));
      ("GRAPH.NODE*PREDECESSORS", top_int (fun id => negb (0 <? id)));
      ("GRAPH.NODE*SUCCESSORS", top_int (fun id => negb (0 <? id)));
      ("GRAPH.NODES*HISTORY", top_int (fun pos => negb (0 <=? pos)));
      ("GRAPH.NODE*HISTORY", top_int (fun pos => negb (0 <=? pos)));
      ("GRAPH.EDGE*HISTORY", top_int (fun pos => negb (0 <=? pos)));
      (* documented (vector.rs): "If the size is <0 or the sparcity not in [0,1] this acts as a NOOP",
         "If the size is <0 or max < min ...", "If size < 0 or standard deviation < 0 ..." (the operands are consumed);
         the code also refuses max = min and a deviation that is not finite *)
      ("BOOLVECTOR.RAND", fun s => match st_int s, st_float s with
                                   | size :: _, sp :: _ => (size <? 0) || f_is_nan sp || flt sp f_zero || fgt sp f_one
                                   | _, _ => false end);
      ("INTVECTOR.RAND", fun s => match st_int s with
                                  | size :: hi :: lo :: _ => (size <? 0) || (hi <=? lo)
                                  | _ => false end);
      ("FLOATVECTOR.RAND", fun s => match st_int s, st_float s with
                                    | size :: _, _ :: sd :: _ => (size <? 0) || negb (f_is_finite sd) || flt sd f_zero
                                    | _, _ => false end);
      (* documented: "If at least one divisor is zero the instruction acts as NOOP" (both vectors and the offset
         are consumed): element i of the top vector is zero and lies over position i + offset of the second *)
      ("FLOATVECTOR./", fun s => match st_fvec s, st_int s with
                                 | top :: second :: _, off :: _ => zero_over top 0 off (zlen second)
                                 | _, _ => false end) ].

  Fixpoint gd_lookup (t : list (string * (state -> bool))) (n : string) : option (state -> bool) :=
    match t with
    | [] => None
    | (k, g) :: r => if String.eqb n k then Some g else gd_lookup r n
    end.
  Definition guard_fails (n : string) (s : state) : bool :=
    match gd_lookup gd_all n with Some g => g s | None => false end.
  (* the instruction does not apply *)
  Definition unfired (n : string) (s : state) : bool := lacking n s || guard_fails n s.
End Guards.

(* C10 reference: the documented footprint of every instruction — the fields of the
   state it may write.  One line per instruction family; a field not listed is never
   changed by the instruction, whatever the operands. *)
From Coq Require Import ZArith String List Bool.
From PushModel Require Import Base.Sx Base.Machine Base.F32 Model.Item Model.GraphT Model.State.
Import ListNotations.
Open Scope string_scope.

Inductive fld := FBool | FCode | FExec | FFloat | FIndex | FInt | FName | FBvec | FFvec | FIvec
               | FInput | FOutput | FGraph | FBind | FCfg | FQuote | FSend.

Definition also (f : fld) (m : mask) : mask :=
  match f with
  | FBool => also_bool m | FCode => also_code m | FExec => also_exec m | FFloat => also_float m
  | FIndex => also_index m | FInt => also_int m | FName => also_name m | FBvec => also_bvec m
  | FFvec => also_fvec m | FIvec => also_ivec m | FInput => also_input m | FOutput => also_output m
  | FGraph => also_graph m | FBind => also_bind m | FCfg => also_cfg m | FQuote => also_quote m
  | FSend => also_send m
  end.
Definition W (l : list fld) : mask := fold_right also mask_none l.

(* the stack-manipulation family of a stack type *)
Definition fp_family (pre : string) (f : fld) : list (string * mask) :=
  [ (pre ++ ".DUP", W [f]); (pre ++ ".POP", W [f]); (pre ++ ".SWAP", W [f]); (pre ++ ".ROT", W [f]);
    (pre ++ ".FLUSH", W [f]); (pre ++ ".YANK", W [FInt; f]); (pre ++ ".YANKDUP", W [FInt; f]);
    (pre ++ ".SHOVE", W [FInt; f]) ].

Definition fp_core : list (string * mask) :=
  [ ("NOOP", W []) ] ++
  fp_family "BOOLEAN" FBool ++
  [ ("BOOLEAN.STACKDEPTH", W [FInt]); ("BOOLEAN.DEFINE", W [FName; FBool; FBind]);
    ("BOOLEAN.=", W [FBool]); ("BOOLEAN.AND", W [FBool]); ("BOOLEAN.OR", W [FBool]); ("BOOLEAN.NOT", W [FBool]);
    ("BOOLEAN.FROMFLOAT", W [FBool]); ("BOOLEAN.FROMINTEGER", W [FBool]); ("BOOLEAN.ID", W [FInt]) ] ++
  fp_family "INTEGER" FInt ++
  [ ("INTEGER.STACKDEPTH", W [FInt]); ("INTEGER.DEFINE", W [FName; FInt; FBind]);
    ("INTEGER.%", W [FInt]); ("INTEGER.*", W [FInt]); ("INTEGER.+", W [FInt]); ("INTEGER.-", W [FInt]);
    ("INTEGER./", W [FInt]); ("INTEGER.<", W [FInt; FBool]); ("INTEGER.=", W [FInt; FBool]);
    ("INTEGER.>", W [FInt; FBool]); ("INTEGER.ABS", W [FInt]); ("INTEGER.DDUP", W [FInt]);
    ("INTEGER.FROMBOOLEAN", W [FBool; FInt]); ("INTEGER.FROMFLOAT", W [FFloat; FInt]); ("INTEGER.ID", W [FInt]);
    ("INTEGER.MAX", W [FInt]); ("INTEGER.MIN", W [FInt]) ] ++
  fp_family "FLOAT" FFloat ++
  [ ("FLOAT.STACKDEPTH", W [FInt]); ("FLOAT.DEFINE", W [FName; FFloat; FBind]);
    ("FLOAT.%", W [FFloat]); ("FLOAT.*", W [FFloat]); ("FLOAT.+", W [FFloat]); ("FLOAT.-", W [FFloat]);
    ("FLOAT./", W [FFloat]); ("FLOAT.<", W [FFloat; FBool]); ("FLOAT.=", W [FFloat; FBool]);
    ("FLOAT.>", W [FFloat; FBool]); ("FLOAT.COS", W [FFloat]); ("FLOAT.EXP", W [FFloat]);
    ("FLOAT.FROMBOOLEAN", W [FBool; FFloat]); ("FLOAT.FROMINTEGER", W [FInt; FFloat]); ("FLOAT.ID", W [FInt]);
    ("FLOAT.MAX", W [FFloat]); ("FLOAT.MIN", W [FFloat]); ("FLOAT.SIN", W [FFloat]); ("FLOAT.TAN", W [FFloat]) ] ++
  fp_family "NAME" FName ++
  [ ("NAME.STACKDEPTH", W [FInt]); ("NAME.=", W [FName; FBool]); ("NAME.CAT", W [FName]); ("NAME.ID", W [FInt]);
    ("NAME.QUOTE", W [FQuote]); ("NAME.SEND", W [FSend]) ] ++
  fp_family "CODE" FCode ++
  [ ("CODE.STACKDEPTH", W [FInt]); ("CODE.DEFINE", W [FName; FCode; FBind]);
    ("CODE.=", W [FBool]); ("CODE.APPEND", W [FCode]); ("CODE.ATOM", W [FBool]); ("CODE.CAR", W [FCode]);
    ("CODE.CDR", W [FCode]); ("CODE.CONS", W [FCode]); ("CODE.CONTAINER", W [FCode]); ("CODE.CONTAINS", W [FBool]);
    ("CODE.DEFINITION", W [FName; FCode]); ("CODE.DISCREPANCY", W [FInt]); ("CODE.DO", W [FExec]);
    ("CODE.DO*", W [FExec]); ("CODE.LOOP", W [FCode; FExec; FIndex]); ("CODE.EXTRACT", W [FInt; FCode]);
    ("CODE.FROMBOOLEAN", W [FBool; FCode]); ("CODE.FROMFLOAT", W [FFloat; FCode]);
    ("CODE.FROMINTEGER", W [FInt; FCode]); ("CODE.FROMNAME", W [FName; FCode]); ("CODE.ID", W [FInt]);
    ("CODE.IF", W [FCode; FBool; FExec]); ("CODE.INSERT", W [FInt; FCode]); ("CODE.LENGTH", W [FInt]);
    ("CODE.LIST", W [FCode]); ("CODE.MEMBER", W [FBool]); ("CODE.NOOP", W []); ("CODE.NTH", W [FInt; FCode]);
    ("CODE.NULL", W [FBool]); ("CODE.POSITION", W [FInt]); ("CODE.PRINT", W [FName]);
    ("CODE.QUOTE", W [FExec; FCode]); ("CODE.SIZE", W [FInt]); ("CODE.SUBST", W [FCode]) ] ++
  fp_family "EXEC" FExec ++
  [ ("EXEC.STACKDEPTH", W [FInt]); ("EXEC.DEFINE", W [FName; FExec; FBind]);
    ("EXEC.=", W [FBool]); ("EXEC.CMD", W [FInt; FName]); ("EXEC.LOOP", W [FExec; FIndex]);
    ("EXEC.ID", W [FInt]); ("EXEC.IF", W [FExec; FBool]); ("EXEC.K", W [FExec]); ("EXEC.S", W [FExec]);
    ("EXEC.Y", W [FExec]) ] ++
  [ ("INDEX.CURRENT", W [FInt]); ("INDEX.DEFINE", W [FInt; FIndex]); ("INDEX.DESTINATION", W [FIndex]);
    ("INDEX.FLUSH", W [FIndex]); ("INDEX.INCREASE", W [FIndex]); ("INDEX.POP", W [FIndex]) ].

Fixpoint fp_lookup (t : list (string * mask)) (n : string) : option mask :=
  match t with
  | [] => None
  | (k, m) :: r => if String.eqb n k then Some m else fp_lookup r n
  end.

(* C10 reference: the documented footprint of every instruction — the fields of the
   state it may write.  One line per instruction family; a field not listed is never
   changed by the instruction, whatever the operands. *)
From Coq Require Import ZArith String List Bool.
From PushModel Require Import Base.Sx Base.Machine Base.F32 Model.Item Model.GraphT Model.State Model.InstrBase.
Import ListNotations.
Open Scope string_scope.

Inductive fld := FBool | FCode | FExec | FFloat | FIndex | FInt | FName | FBvec | FFvec | FIvec
               | FInput | FOutput | FGraph | FBind | FCfg | FQuote | FSend.

Definition also (f : fld) (m : mask) : mask :=
  match f with
  | FBool => also_bool m | FCode => also_code m | FExec => also_exec m | FFloat => also_float m
  | FIndex => also_index m | FInt => also_int m | FName => also_name m | FBvec => also_bvec m
  | FFvec => also_fvec m | FIvec => also_ivec m | FInput => also_input m | FOutput => also_output m
  | FGraph => also_graph m | FBind => also_bind m | FCfg => also_cfg m | FQuote => also_quote m
  | FSend => also_send m
  end.
Definition W (l : list fld) : mask := fold_right also mask_none l.

(* the stack-manipulation family of a stack type *)
Definition fp_family (pre : string) (f : fld) : list (string * mask) :=
  [ (pre ++ ".DUP", W [f]); (pre ++ ".POP", W [f]); (pre ++ ".SWAP", W [f]); (pre ++ ".ROT", W [f]);
    (pre ++ ".FLUSH", W [f]); (pre ++ ".YANK", W [FInt; f]); (pre ++ ".YANKDUP", W [FInt; f]);
    (pre ++ ".SHOVE", W [FInt; f]) ].

Definition fp_core : list (string * mask) :=
  [ ("NOOP", W []) ] ++
  fp_family "BOOLEAN" FBool ++
  [ ("BOOLEAN.STACKDEPTH", W [FInt]); ("BOOLEAN.DEFINE", W [FName; FBool; FBind]);
    ("BOOLEAN.=", W [FBool]); ("BOOLEAN.AND", W [FBool]); ("BOOLEAN.OR", W [FBool]); ("BOOLEAN.NOT", W [FBool]);
    ("BOOLEAN.FROMFLOAT", W [FBool]); ("BOOLEAN.FROMINTEGER", W [FBool]); ("BOOLEAN.ID", W [FInt]) ] ++
  fp_family "INTEGER" FInt ++
  [ ("INTEGER.STACKDEPTH", W [FInt]); ("INTEGER.DEFINE", W [FName; FInt; FBind]);
    ("INTEGER.%", W [FInt]); ("INTEGER.*", W [FInt]); ("INTEGER.+", W [FInt]); ("INTEGER.-", W [FInt]);
    ("INTEGER./", W [FInt]); ("INTEGER.<", W [FInt; FBool]); ("INTEGER.=", W [FInt; FBool]);
    ("INTEGER.>", W [FInt; FBool]); ("INTEGER.ABS", W [FInt]); ("INTEGER.DDUP", W [FInt]);
    ("INTEGER.FROMBOOLEAN", W [FBool; FInt]); ("INTEGER.FROMFLOAT", W [FFloat; FInt]); ("INTEGER.ID", W [FInt]);
    ("INTEGER.MAX", W [FInt]); ("INTEGER.MIN", W [FInt]) ] ++
  fp_family "FLOAT" FFloat ++
  [ ("FLOAT.STACKDEPTH", W [FInt]); ("FLOAT.DEFINE", W [FName; FFloat; FBind]);
    ("FLOAT.%", W [FFloat]); ("FLOAT.*", W [FFloat]); ("FLOAT.+", W [FFloat]); ("FLOAT.-", W [FFloat]);
    ("FLOAT./", W [FFloat]); ("FLOAT.<", W [FFloat; FBool]); ("FLOAT.=", W [FFloat; FBool]);
    ("FLOAT.>", W [FFloat; FBool]); ("FLOAT.COS", W [FFloat]); ("FLOAT.EXP", W [FFloat]);
    ("FLOAT.FROMBOOLEAN", W [FBool; FFloat]); ("FLOAT.FROMINTEGER", W [FInt; FFloat]); ("FLOAT.ID", W [FInt]);
    ("FLOAT.MAX", W [FFloat]); ("FLOAT.MIN", W [FFloat]); ("FLOAT.SIN", W [FFloat]); ("FLOAT.TAN", W [FFloat]) ] ++
  fp_family "NAME" FName ++
  [ ("NAME.STACKDEPTH", W [FInt]); ("NAME.=", W [FName; FBool]); ("NAME.CAT", W [FName]); ("NAME.ID", W [FInt]);
    ("NAME.QUOTE", W [FQuote]); ("NAME.SEND", W [FSend]) ] ++
  fp_family "CODE" FCode ++
  [ ("CODE.STACKDEPTH", W [FInt]); ("CODE.DEFINE", W [FName; FCode; FBind]);
    ("CODE.=", W [FBool]); ("CODE.APPEND", W [FCode]); ("CODE.ATOM", W [FBool]); ("CODE.CAR", W [FCode]);
    ("CODE.CDR", W [FCode]); ("CODE.CONS", W [FCode]); ("CODE.CONTAINER", W [FCode]); ("CODE.CONTAINS", W [FBool]);
    ("CODE.DEFINITION", W [FName; FCode]); ("CODE.DISCREPANCY", W [FInt]); ("CODE.DO", W [FExec]);
    ("CODE.DO*", W [FExec]); ("CODE.LOOP", W [FCode; FExec; FIndex]); ("CODE.EXTRACT", W [FInt; FCode]);
    ("CODE.FROMBOOLEAN", W [FBool; FCode]); ("CODE.FROMFLOAT", W [FFloat; FCode]);
    ("CODE.FROMINTEGER", W [FInt; FCode]); ("CODE.FROMNAME", W [FName; FCode]); ("CODE.ID", W [FInt]);
    ("CODE.IF", W [FCode; FBool; FExec]); ("CODE.INSERT", W [FInt; FCode]); ("CODE.LENGTH", W [FInt]);
    ("CODE.LIST", W [FCode]); ("CODE.MEMBER", W [FBool]); ("CODE.NOOP", W []); ("CODE.NTH", W [FInt; FCode]);
    ("CODE.NULL", W [FBool]); ("CODE.POSITION", W [FInt]); ("CODE.PRINT", W [FName]);
    ("CODE.QUOTE", W [FExec; FCode]); ("CODE.SIZE", W [FInt]); ("CODE.SUBST", W [FCode]) ] ++
  fp_family "EXEC" FExec ++
  [ ("EXEC.STACKDEPTH", W [FInt]); ("EXEC.DEFINE", W [FName; FExec; FBind]);
    ("EXEC.=", W [FBool]); ("EXEC.CMD", W [FInt; FName]); ("EXEC.LOOP", W [FExec; FIndex]);
    ("EXEC.ID", W [FInt]); ("EXEC.IF", W [FExec; FBool]); ("EXEC.K", W [FExec]); ("EXEC.S", W [FExec]);
    ("EXEC.Y", W [FExec]) ] ++
  [ ("INDEX.CURRENT", W [FInt]); ("INDEX.DEFINE", W [FInt; FIndex]); ("INDEX.DESTINATION", W [FIndex]);
    ("INDEX.FLUSH", W [FIndex]); ("INDEX.INCREASE", W [FIndex]); ("INDEX.POP", W [FIndex]) ].

(* ---- the three vector families (vector.rs); the vector stacks have no ROT ---- *)
Definition fp_vec_family (pre : string) (f : fld) : list (string * mask) :=
  [ (pre ++ ".DUP", W [f]); (pre ++ ".POP", W [f]); (pre ++ ".SWAP", W [f]);
    (pre ++ ".FLUSH", W [f]); (pre ++ ".YANK", W [FInt; f]); (pre ++ ".YANKDUP", W [FInt; f]);
    (pre ++ ".SHOVE", W [FInt; f]) ].

Definition fp_bvec : list (string * mask) :=
  fp_vec_family "BOOLVECTOR" FBvec ++
  [ ("BOOLVECTOR.STACKDEPTH", W [FInt]); ("BOOLVECTOR.DEFINE", W [FName; FBvec; FBind]);
    ("BOOLVECTOR.GET", W [FInt; FBool]); ("BOOLVECTOR.SET", W [FInt; FBool; FBvec]);
    ("BOOLVECTOR.AND", W [FBvec; FInt]); ("BOOLVECTOR.OR", W [FBvec; FInt]); ("BOOLVECTOR.NOT", W [FBvec; FInt]);
    ("BOOLVECTOR.COUNT", W [FInt]); ("BOOLVECTOR.EQUAL", W [FBvec; FBool]); ("BOOLVECTOR.ID", W [FInt]);
    ("BOOLVECTOR.LENGTH", W [FInt]); ("BOOLVECTOR.ONES", W [FInt; FBvec]); ("BOOLVECTOR.ZEROS", W [FInt; FBvec]);
    ("BOOLVECTOR.ROTATE", W [FBool; FBvec]); ("BOOLVECTOR.SORT*ASC", W [FBvec]); ("BOOLVECTOR.SORT*DESC", W [FBvec]) ].

Definition fp_ivec : list (string * mask) :=
  fp_vec_family "INTVECTOR" FIvec ++
  [ ("INTVECTOR.STACKDEPTH", W [FInt]); ("INTVECTOR.DEFINE", W [FName; FIvec; FBind]);
    ("INTVECTOR.APPEND", W [FInt; FIvec]); ("INTVECTOR.BOOLINDEX", W [FBvec; FIvec]);
    ("INTVECTOR.GET", W [FInt]); ("INTVECTOR.SET", W [FInt; FIvec]);
    ("INTVECTOR.+", W [FIvec; FInt]); ("INTVECTOR.-", W [FIvec; FInt]);
    ("INTVECTOR.CONTAINS", W [FInt; FIvec; FBool]); ("INTVECTOR.EMPTY", W [FIvec]);
    ("INTVECTOR.EQUAL", W [FIvec; FBool]); ("INTVECTOR.FROMINT", W [FInt; FIvec]); ("INTVECTOR.ID", W [FInt]);
    ("INTVECTOR.ONES", W [FInt; FIvec]); ("INTVECTOR.ZEROS", W [FInt; FIvec]); ("INTVECTOR.MEAN", W [FFloat]);
    ("INTVECTOR.LENGTH", W [FInt]); ("INTVECTOR.LOOP", W [FIvec; FExec; FInt]); ("INTVECTOR.REMOVE", W [FInt; FIvec]);
    ("INTVECTOR.ROTATE", W [FInt; FIvec]); ("INTVECTOR.SORT*ASC", W [FIvec]); ("INTVECTOR.SORT*DESC", W [FIvec]);
    ("INTVECTOR.SET*INSERT", W [FInt; FIvec]); ("INTVECTOR.SUM", W [FInt]) ].

Definition fp_fvec : list (string * mask) :=
  fp_vec_family "FLOATVECTOR" FFvec ++
  [ ("FLOATVECTOR.STACKDEPTH", W [FInt]); ("FLOATVECTOR.DEFINE", W [FName; FFvec; FBind]);
    ("FLOATVECTOR.GET", W [FInt; FFloat]); ("FLOATVECTOR.SET", W [FInt; FFloat; FFvec]);
    ("FLOATVECTOR.+", W [FFvec; FInt]); ("FLOATVECTOR.-", W [FFvec; FInt]);
    ("FLOATVECTOR.*", W [FFvec; FInt]); ("FLOATVECTOR./", W [FFvec; FInt]);
    ("FLOATVECTOR.*SCALAR", W [FFloat; FFvec]); ("FLOATVECTOR.APPEND", W [FFloat; FFvec]);
    ("FLOATVECTOR.EMPTY", W [FFvec]); ("FLOATVECTOR.EQUAL", W [FFvec; FBool]); ("FLOATVECTOR.ID", W [FInt]);
    ("FLOATVECTOR.LENGTH", W [FInt]); ("FLOATVECTOR.MEAN", W [FFloat]);
    ("FLOATVECTOR.ONES", W [FInt; FFvec]); ("FLOATVECTOR.ZEROS", W [FInt; FFvec]);
    ("FLOATVECTOR.ROTATE", W [FFloat; FFvec]); ("FLOATVECTOR.SINE", W [FFloat; FInt; FFvec]);
    ("FLOATVECTOR.SORT*ASC", W [FFvec]); ("FLOATVECTOR.SORT*DESC", W [FFvec]); ("FLOATVECTOR.SUM", W [FFloat]) ].

Definition fp_vec : list (string * mask) := fp_bvec ++ fp_ivec ++ fp_fvec.

(* ---- LIST (list.rs).  A record is built from the stacks designated by the ids of the top
   INTVECTOR: any of the nine typed stacks may lose an item (INDEX / INPUT / OUTPUT ids
   designate nothing). ---- *)
Definition designated : list fld := [FBool; FBvec; FCode; FExec; FFloat; FFvec; FInt; FIvec; FName].
Definition fp_list : list (string * mask) :=
  [ ("LIST.ADD", W designated);                  (* id vector and designated items popped, record pushed on CODE *)
    ("LIST.REMOVE", W [FInt; FCode]); ("LIST.GET", W [FInt; FExec]);
    ("LIST.SET", W designated);                  (* position from INTEGER, then as LIST.ADD, record replaced on CODE *)
    ("LIST.BVAL", W [FInt; FBool]); ("LIST.IVAL", W [FInt]); ("LIST.FVAL", W [FInt; FFloat]) ].

(* ---- INPUT / OUTPUT (io.rs) ---- *)
Definition fp_io : list (string * mask) :=
  [ ("INPUT.AVAILABLE", W [FBool]); ("INPUT.GET", W [FInt; FBool]); ("INPUT.NEXT", W [FInput]);
    (* the doc comment of INPUT.READ names the BOOLVECTOR stack only; the body also pushes the
       header on INTVECTOR (finding C10/input-read-header, documentation) *)
    ("INPUT.READ", W [FBvec; FIvec]);
    ("INPUT.STACKDEPTH", W [FInt]);
    ("OUTPUT.FLUSH", W [FOutput]); ("OUTPUT.WRITE", W [FBvec; FIvec; FOutput]); ("OUTPUT.STACKDEPTH", W [FInt]) ].

(* ---- GRAPH (graph.rs) ---- *)
Definition fp_graph : list (string * mask) :=
  [ ("GRAPH.ADD", W [FGraph]); ("GRAPH.DUP", W [FGraph]); ("GRAPH.NODE*ADD", W [FInt; FGraph]);
    ("GRAPH.NODE*GETSTATE", W [FInt]); ("GRAPH.NODE*HISTORY", W [FInt]); ("GRAPH.NODE*SETSTATE", W [FInt; FGraph]);
    ("GRAPH.NODE*NEIGHBORS", W [FIvec; FInt]); ("GRAPH.NODE*PREDECESSORS", W [FIvec; FInt]);
    ("GRAPH.NODE*SUCCESSORS", W [FIvec; FInt]);
    ("GRAPH.NODE*STATESWITCH", W [FIvec; FBvec; FInt; FGraph]);
    ("GRAPH.NODES", W [FIvec]); ("GRAPH.NODES*HISTORY", W [FInt; FIvec]); ("GRAPH.STACKDEPTH", W [FInt]);
    ("GRAPH.PRINT", W [FName]); ("GRAPH.PRINT*DIFF", W [FName]);
    ("GRAPH.EDGE*ADD", W [FFloat; FInt; FGraph]); ("GRAPH.EDGE*HISTORY", W [FInt; FFloat]);
    ("GRAPH.EDGE*GETWEIGHT", W [FInt; FFloat]); ("GRAPH.EDGE*SETWEIGHT", W [FFloat; FInt; FGraph]) ].

(* every registered family; a new family is one more `++` (and one more lemma in FrameProofs2.all_framed) *)
Definition fp_all : list (string * mask) :=
  fp_core ++ fp_bvec ++ fp_ivec ++ fp_fvec ++ fp_list ++ fp_io ++ fp_graph.

Fixpoint fp_lookup (t : list (string * mask)) (n : string) : option mask :=
  match t with
  | [] => None
  | (k, m) :: r => if String.eqb n k then Some m else fp_lookup r n
  end.

(* ---- one interpreter step: EXEC plus the footprint of the item it executes ---- *)
Definition lit_fld (v : lit) : fld :=
  match v with
  | LBool _ => FBool | LInt _ => FInt | LIndex _ _ => FIndex | LFloat _ => FFloat
  | LBoolVec _ => FBvec | LIntVec _ => FIvec | LFloatVec _ => FFvec
  end.
Inductive step_fp (fp : list (string * mask)) : item -> mask -> Prop :=
| sf_lit v : step_fp fp (ILit v) (W [lit_fld v])                 (* a literal goes to its typed stack *)
| sf_name n : step_fp fp (IName n) (W [FName; FQuote])           (* NAME stack (or EXEC when bound); the quote flag is cleared *)
| sf_list l : step_fp fp (IList l) (W [])                        (* unpacked onto EXEC *)
| sf_instr k m : fp_lookup fp k = Some m -> step_fp fp (IInstr (s2l k)) m
| sf_unknown n : (forall k, n = s2l k -> fp_lookup fp k = None) -> step_fp fp (IInstr n) (W []).

(* The abstract specification of the stack container: a plain list with
   position 0 at the top.  Short enough to read in a minute. *)
From Coq Require Import ZArith List Bool Lia.
From PushModel Require Import Base.ListOps.
Import ListNotations.
Open Scope Z_scope.

Section SeqSpec.
  Context {A : Type}.
  Variable eqA : A -> A -> bool.
  Variable streq : A -> A -> bool.

  Inductive op :=
  | OSize | OToList | OLastEq (a : A) | OEqualAt (i : Z) (a : A) | OBottom | OFlush
  | OReplace (i : Z) (a : A) | ORemove (i : Z) | OReverse | OGet (i : Z)
  | OPush (a : A) | OPushFront (a : A) | OYank (i : Z) | OShove (i : Z)
  | OSwap (i j : Z) | OPopFront | OPop | OPopVec (n : Z) | OCopy (i : Z)
  | OCopyVec (n : Z) | OPushVec (l : list A).

  Inductive out :=
  | UUnit | UZ (z : Z) | UB (b : bool) | UOB (o : option bool) | UOA (o : option A)
  | UOL (o : option (list A)) | UL (l : list A) | UOZ (o : option Z).

  Definition seq := list A.                (* top first *)
  Definition len (t : seq) : Z := Z.of_nat (length t).
  Definition pos (i : Z) : nat := Z.to_nat i.

  Definition inb (i : Z) (t : seq) : bool := (0 <=? i) && (i <? len t).

  (* positions are usize values, so 0 <= i is part of well-formedness *)
  Definition spec_step (t : seq) (o : op) : seq * out :=
    match o with
    | OSize => (t, UZ (len t))
    | OToList => (t, UL t)
    | OLastEq a => (t, UB (match t with x :: _ => eqA a x | [] => false end))
    | OEqualAt i a =>
        (t, UOB (match nth_error t (pos i) with Some x => Some (streq x a) | None => None end))
    | OBottom => (t, UOA (match rev t with x :: _ => Some x | [] => None end))
    | OFlush => ([], UUnit)
    | OReplace i a => if inb i t then (upd t (pos i) a, UOZ None)
                      else (t, UOZ (Some (Z.min 18446744073709551615 (i - len t + 1))))   (* the offset, saturating at usize::MAX *)
    | ORemove i => (del t (pos i), UUnit)
    | OReverse => (rev t, UUnit)
    | OGet i => (t, UOA (nth_error t (pos i)))
    | OPush a => (a :: t, UUnit)
    | OPushFront a => (t ++ [a], UUnit)
    | OYank i => (match nth_error t (pos i) with
                  | Some x => x :: del t (pos i)
                  | None => t end, UUnit)
    | OShove i => (match t with
                   | x :: r => if (i <? len t) then ins r (pos i) x else t
                   | [] => t end, UUnit)
    | OSwap i j => (* raw indices from the bottom *)
        (match nth_error (rev t) (pos i), nth_error (rev t) (pos j) with
         | Some a, Some b => rev (upd (upd (rev t) (pos i) b) (pos j) a)
         | _, _ => t end, UUnit)
    | OPopFront => (match rev t with x :: r => (rev r, UOA (Some x)) | [] => (t, UOA None) end)
    | OPop => (match t with x :: r => (r, UOA (Some x)) | [] => (t, UOA None) end)
    | OPopVec n => if n <=? len t then (skipn (pos n) t, UOL (Some (rev (firstn (pos n) t))))
                   else (t, UOL None)
    | OCopy i => (t, UOA (nth_error t (pos i)))
    | OCopyVec n => if n <=? len t then (t, UOL (Some (rev (firstn (pos n) t))))
                    else (t, UOL None)
    | OPushVec l => (rev l ++ t, UUnit)
    end.

  (* well-formed operation: positions are usize values; raw swap indices are in
     range (that is Vec::swap's own contract, which the container exposes) *)
  Definition op_wf (t : seq) (o : op) : Prop :=
    match o with
    | OEqualAt i _ | OReplace i _ | ORemove i | OGet i | OYank i | OShove i
    | OPopVec i | OCopy i | OCopyVec i => 0 <= i <= 18446744073709551615
    | OSwap i j => 0 <= i < len t /\ 0 <= j < len t
    | _ => True
    end.

  Fixpoint spec_run (t : seq) (ops : list op) : seq * list out :=
    match ops with
    | [] => (t, [])
    | o :: r => let '(t', u) := spec_step t o in
                let '(t'', us) := spec_run t' r in (t'', u :: us)
    end.

  (* The same function for machine evaluation: a position beyond the end is replaced by the length before it
     is turned into a (unary) natural number, so that positions like 2^64 - 1 can be evaluated.
     [spec_step_c_eq] below: it IS spec_step. *)
  Definition clamp_op (t : seq) (o : op) : op :=
    let c i := Z.min i (len t) in
    match o with
    | OEqualAt i a => OEqualAt (c i) a
    | ORemove i => ORemove (c i)
    | OGet i => OGet (c i)
    | OYank i => OYank (c i)
    | OCopy i => OCopy (c i)
    | _ => o
    end.
  Definition spec_step_c (t : seq) (o : op) : seq * out := spec_step t (clamp_op t o).

  Lemma nth_error_clamp (t : seq) (i : Z) : nth_error t (pos (Z.min i (len t))) = nth_error t (pos i).
  Proof.
    unfold pos, len. destruct (Z.min_spec i (Z.of_nat (length t))) as [[H E]|[H E]]; rewrite E; [reflexivity|].
    rewrite (proj2 (nth_error_None t (Z.to_nat i))) by lia.
    rewrite (proj2 (nth_error_None t (Z.to_nat (Z.of_nat (length t))))) by lia. reflexivity.
  Qed.
  Lemma del_clamp (t : seq) (i : Z) : del t (pos (Z.min i (len t))) = del t (pos i).
  Proof.
    unfold pos, len. destruct (Z.min_spec i (Z.of_nat (length t))) as [[H E]|[H E]]; rewrite E; [reflexivity|].
    rewrite !del_beyond by lia. reflexivity.
  Qed.
  Lemma spec_step_c_eq (t : seq) (o : op) : spec_step_c t o = spec_step t o.
  Proof.
    unfold spec_step_c. destruct o; cbn [clamp_op spec_step]; try reflexivity;
      rewrite ?nth_error_clamp, ?del_clamp; reflexivity.
  Qed.

  Fixpoint spec_run_c (t : seq) (ops : list op) : seq * list out :=
    match ops with
    | [] => (t, [])
    | o :: r => let '(t', u) := spec_step_c t o in
                let '(t'', us) := spec_run_c t' r in (t'', u :: us)
    end.
  Lemma spec_run_c_eq (ops : list op) : forall t, spec_run_c t ops = spec_run t ops.
  Proof.
    induction ops as [|o r IH]; intros t; cbn [spec_run_c spec_run]; [reflexivity|].
    rewrite spec_step_c_eq. destruct (spec_step t o) as [t' u]. rewrite IH. reflexivity.
  Qed.

  (* all operations of a history are well formed along the spec's own run *)
  Fixpoint ops_wf (t : seq) (ops : list op) : Prop :=
    match ops with
    | [] => True
    | o :: r => op_wf t o /\ ops_wf (fst (spec_step t o)) r
    end.
End SeqSpec.

Arguments op A : clear implicits.
Arguments out A : clear implicits.

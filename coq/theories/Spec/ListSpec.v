(* Abstract description of LIST records (C19): which items an id vector
   designates, what a record of literals puts back, what the n-th value of a
   type inside a code item is.  Nothing here mentions the instruction bodies. *)
From Coq Require Import ZArith List Bool.
From PushModel Require Import Base.Sx Base.Machine Base.ListOps Base.F32 Model.Item Model.GraphT Model.State
  Model.InstrBase Model.Interp.
Import ListNotations.
Open Scope Z_scope.

(* ---- the nine stacks an id can designate, seen as stacks of items (top first) ---- *)
Definition stack_items (sid : Z) (s : state) : list item :=
  if sid =? BOOL_ID then map (fun x => ILit (LBool x)) (st_bool s)
  else if sid =? BVEC_ID then map (fun x => ILit (LBoolVec x)) (st_bvec s)
  else if sid =? CODE_ID then st_code s
  else if sid =? EXEC_ID then st_exec s
  else if sid =? FLOAT_ID then map (fun x => ILit (LFloat x)) (st_float s)
  else if sid =? FVEC_ID then map (fun x => ILit (LFloatVec x)) (st_fvec s)
  else if sid =? INT_ID then map (fun x => ILit (LInt x)) (st_int s)
  else if sid =? IVEC_ID then map (fun x => ILit (LIntVec x)) (st_ivec s)
  else if sid =? NAME_ID then map IName (st_name s)
  else [].

(* the state without the top [n] elements of stack [sid]; other ids: unchanged *)
Definition drop_stack (sid : Z) (n : nat) (s : state) : state :=
  if sid =? BOOL_ID then set_bool s (skipn n (st_bool s))
  else if sid =? BVEC_ID then set_bvec s (skipn n (st_bvec s))
  else if sid =? CODE_ID then set_code s (skipn n (st_code s))
  else if sid =? EXEC_ID then set_exec s (skipn n (st_exec s))
  else if sid =? FLOAT_ID then set_float s (skipn n (st_float s))
  else if sid =? FVEC_ID then set_fvec s (skipn n (st_fvec s))
  else if sid =? INT_ID then set_int s (skipn n (st_int s))
  else if sid =? IVEC_ID then set_ivec s (skipn n (st_ivec s))
  else if sid =? NAME_ID then set_name s (skipn n (st_name s))
  else s.

(* the ids that designate a stack LIST.ADD / LIST.SET can take from *)
Definition source_ids : list Z :=
  [BOOL_ID; BVEC_ID; CODE_ID; EXEC_ID; FLOAT_ID; FVEC_ID; INT_ID; IVEC_ID; NAME_ID].
(* every item held by the nine source stacks *)
Definition all_items (s : state) : list item := flat_map (fun k => stack_items k s) source_ids.

(* ---- designate: one left-to-right pass over the id vector ----
   [acc] collects the children of the record, top first (the item designated
   LAST is the top of the record). *)
Definition designate_step (st : list item * state) (sid : Z) : list item * state :=
  match stack_items sid (snd st) with
  | x :: _ => (x :: fst st, drop_stack sid 1 (snd st))
  | [] => st                                        (* empty stack or no such stack: skipped *)
  end.
Definition designate (ids : list Z) (s : state) : item * state :=
  let r := fold_left designate_step ids ([], s) in (IList (fst r), snd r).

(* ---- the same thing said without a pass: occurrence j of id k designates
   item j (from the top) of stack k ---- *)
Definition cnt (k : Z) (ids : list Z) : nat := length (filter (Z.eqb k) ids).

Fixpoint picked (seen ids : list Z) (s : state) : list item :=
  match ids with
  | [] => []
  | sid :: r =>
      match nth_error (stack_items sid s) (cnt sid seen) with
      | Some x => x :: picked (sid :: seen) r s
      | None => picked (sid :: seen) r s
      end
  end.

(* every source stack without its designated top items; nothing else differs *)
Definition drop_counts (ids : list Z) (s : state) : state :=
  {| st_bool := skipn (cnt BOOL_ID ids) (st_bool s);
     st_code := skipn (cnt CODE_ID ids) (st_code s);
     st_exec := skipn (cnt EXEC_ID ids) (st_exec s);
     st_float := skipn (cnt FLOAT_ID ids) (st_float s);
     st_index := st_index s;
     st_int := skipn (cnt INT_ID ids) (st_int s);
     st_name := skipn (cnt NAME_ID ids) (st_name s);
     st_bvec := skipn (cnt BVEC_ID ids) (st_bvec s);
     st_fvec := skipn (cnt FVEC_ID ids) (st_fvec s);
     st_ivec := skipn (cnt IVEC_ID ids) (st_ivec s);
     st_input := st_input s; st_output := st_output s; st_graph := st_graph s;
     st_bind := st_bind s; st_cfg := st_cfg s; st_quote := st_quote s; st_send := st_send s |}.

(* ---- records of literals ---- *)
(* pushing the literals of a record in execution order (first child first) *)
Definition push_lits (lits : list lit) (s : state) : state := fold_left push_lit lits s.

Definition sel_bool (v : lit) := match v with LBool b => Some b | _ => None end.
Definition sel_int (v : lit) := match v with LInt b => Some b | _ => None end.
Definition sel_index (v : lit) := match v with LIndex c d => Some (c, d) | _ => None end.
Definition sel_float (v : lit) := match v with LFloat b => Some b | _ => None end.
Definition sel_bvec (v : lit) := match v with LBoolVec b => Some b | _ => None end.
Definition sel_ivec (v : lit) := match v with LIntVec b => Some b | _ => None end.
Definition sel_fvec (v : lit) := match v with LFloatVec b => Some b | _ => None end.
Fixpoint filter_map {A B} (f : A -> option B) (l : list A) : list B :=
  match l with
  | [] => []
  | x :: r => match f x with Some y => y :: filter_map f r | None => filter_map f r end
  end.

(* ids whose stacks hold literals *)
Definition literal_id (k : Z) : bool :=
  (k =? BOOL_ID) || (k =? BVEC_ID) || (k =? FLOAT_ID) || (k =? FVEC_ID) || (k =? INT_ID) || (k =? IVEC_ID).

(* ---- addressed record ---- *)
(* the position LIST.* instructions address on a CODE stack of [len] items *)
Definition clamped_pos (idx len : Z) : Z := if idx <? 0 then 0 else if len <=? idx then len - 1 else idx.

(* ---- n-th value of a type, depth-first from the top ---- *)
Fixpoint preorder (t : item) : list item :=
  t :: match t with
       | IList l => (fix go (l : list item) : list item :=
                       match l with [] => [] | x :: r => preorder x ++ go r end) l
       | _ => []
       end.
Lemma preorder_list l : preorder (IList l) = IList l :: flat_map preorder l.
Proof. reflexivity. Qed.

Section Typed.
  Context {FO : FloatOps}.
  (* the points of [t] of the same kind as [pat] (list / instruction / name / literal type), in preorder *)
  Definition typed_points (pat t : item) : list item := filter (shallow_eq pat) (preorder t).
End Typed.

Definition item_bool (t : item) := match t with ILit (LBool b) => Some b | _ => None end.
Definition item_int (t : item) := match t with ILit (LInt b) => Some b | _ => None end.
Definition item_float (t : item) := match t with ILit (LFloat b) => Some b | _ => None end.
(* all booleans / integers / floats inside an item, in preorder *)
Definition bools_of (t : item) : list bool := filter_map item_bool (preorder t).
Definition ints_of (t : item) : list Z := filter_map item_int (preorder t).
Definition floats_of (t : item) : list f32 := filter_map item_float (preorder t).

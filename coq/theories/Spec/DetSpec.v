(* C14 reference: which instructions read the world outside the PushState value,
   and what it means for a state to mention an instruction / an identifier.

   [world] (Model/Registry.v) = the process-wide node counter + the outcomes of
   the random number generator.  The instructions whose semantics reads it are
   listed BY NAME here, one list per family (a further family is added by
   appending its list to [world_reading_names]): every theorem of
   Proofs/Determinism*.v is stated over [world_reading_names] and re-checks itself
   against the registry table. *)
From Coq Require Import ZArith String List Bool.
From PushModel Require Import Base.Sx Base.Machine Base.F32 Model.Item Model.GraphT Model.State Model.InstrBase
  Model.RegistryRand.
Import ListNotations.
Open Scope string_scope.

(* GRAPH.NODE*ADD draws the node id from the process-wide counter (graph.rs:11, 22) *)
Definition graph_world_names : list string := [ "GRAPH.NODE*ADD" ].
(* the RAND family consumes the outcomes of the random number generator (Model/IRand.v) *)
Definition rand_world_names : list string := rand_names.

Definition world_reading_names : list string := graph_world_names ++ rand_world_names.
Definition world_reading (n : string) : bool := existsb (String.eqb n) world_reading_names.

(* membership of a literal name in a list of literal names *)
Definition lit_in (names : list string) (n : string) : bool := existsb (String.eqb n) names.

(* the instruction names an instruction can put on EXEC by itself (re-arming) *)
Definition rearm_names : list string :=
  [ "CODE.POP"; "EXEC.Y"; "EXEC.LOOP"; "CODE.LOOP"; "INDEX.INCREASE"; "INTVECTOR.LOOP" ].

(* CODE.RAND builds random code from the names of the instruction cache: the one
   instruction that can put an instruction on a stack that was nowhere in the state *)
Definition closure_exceptions : list string := [ "CODE.RAND" ].

(* membership of a code-point name in a list of literal names *)
Definition name_in (names : list string) (n : str) : bool := existsb (fun m => str_eqb n (s2l m)) names.

(* [occurs qi qn t]: some instruction item whose name satisfies [qi], or some
   identifier item whose name satisfies [qn], occurs in [t] at any depth *)
Fixpoint occurs (qi qn : str -> bool) (t : item) : bool :=
  match t with
  | IList l => (fix go (l : list item) : bool :=
                  match l with [] => false | x :: r => occurs qi qn x || go r end) l
  | IInstr n => qi n
  | ILit _ => false
  | IName n => qn n
  end.
Definition occurs_list (qi qn : str -> bool) (l : list item) : bool := existsb (occurs qi qn) l.

(* everywhere an item or a name can sit in a state: EXEC, CODE, the values of the
   name bindings (items), and the NAME stack (identifiers only) *)
Definition occurs_state (qi qn : str -> bool) (s : state) : bool :=
  occurs_list qi qn (st_exec s) || occurs_list qi qn (st_code s) ||
  occurs_list qi qn (map snd (st_bind s)) || existsb qn (st_name s).

Definition nowhere : str -> bool := fun _ => false.

(* some instruction item with one of [names] occurs anywhere in the state *)
Definition mentions_b (names : list string) (s : state) : bool := occurs_state (name_in names) nowhere s.
(* some identifier with one of [names] occurs in an item or on the NAME stack *)
Definition mentions_name_b (names : list string) (s : state) : bool := occurs_state nowhere (name_in names) s.

Definition no_world_reading (s : state) : Prop := mentions_b world_reading_names s = false.

(* the set of instruction names occurring in a state, as a predicate *)
Definition instr_name_in_state (s : state) (n : str) : bool := occurs_state (fun m => str_eqb m n) nowhere s.

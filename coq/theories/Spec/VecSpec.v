(* C09 — the abstract description of the vector instructions (README rules).
   A vector is the list of its elements, element 0 first.  Nothing here refers
   to loops, machine integers or panics. *)
From Coq Require Import ZArith List Bool Sorting.Permutation Sorting.Sorted.
From PushModel Require Import Base.Sx Base.Machine Base.F32.
Import ListNotations.
Open Scope Z_scope.

Section VecSpec.
  Context {A : Type}.

  (* map with the position of each element, positions counted from i *)
  Fixpoint mapi_from {B} (f : Z -> A -> B) (i : Z) (l : list A) : list B :=
    match l with
    | [] => []
    | x :: r => f i x :: mapi_from f (i + 1) r
    end.
  Definition mapi {B} (f : Z -> A -> B) (l : list A) : list B := mapi_from f 0 l.

  (* element k of a vector, for any integer k *)
  Definition elem_at (v : list A) (k : Z) : option A :=
    if k <? 0 then None else nth_error v (Z.to_nat k).

  (* THE README RULE.  The top vector is shifted by the offset: its element k lies over
     position k + off of the second vector.  Position j of the result combines the
     second vector's element with the top element lying over it, if there is one, and is
     the second vector's element otherwise. *)
  Definition overlay_elem (op : A -> A -> option A) (top : list A) (off : Z) (j : Z) (x : A) : option A :=
    match elem_at top (j - off) with
    | Some y => op x y
    | None => Some x
    end.
  Definition overlay (f : A -> A -> A) (second top : list A) (off : Z) : list A :=
    mapi (fun j x => match elem_at top (j - off) with Some y => f x y | None => x end) second.

  (* all elements defined -> the list of them; one undefined -> nothing *)
  Fixpoint opt_all (l : list (option A)) : option (list A) :=
    match l with
    | [] => Some []
    | Some x :: r => match opt_all r with Some v => Some (x :: v) | None => None end
    | None :: _ => None
    end.
  (* with a partial operation (division): no result at all if the operation is undefined on
     one overlapping position *)
  Definition overlay_partial (op : A -> A -> option A) (second top : list A) (off : Z) : option (list A) :=
    opt_all (mapi (overlay_elem op top off) second).

  (* BOOLVECTOR.NOT has one operand: position j is flipped iff the vector, shifted by the
     offset, lies over it, i.e. iff j - off is one of its own positions *)
  Definition flip_window (neg : A -> A) (v : list A) (off : Z) : list A :=
    mapi (fun j x => if (0 <=? j - off) && (j - off <? Z.of_nat (length v)) then neg x else x) v.

  (* GET / SET: the index is clamped into the vector *)
  Definition clamp (idx len : Z) : Z := Z.max 0 (Z.min idx (len - 1)).
  Definition get_clamped (v : list A) (idx : Z) : option A :=
    nth_error v (Z.to_nat (clamp idx (Z.of_nat (length v)))).
  Definition set_clamped (v : list A) (idx : Z) (x : A) : list A :=
    mapi (fun j y => if j =? clamp idx (Z.of_nat (length v)) then x else y) v.

  (* ROTATE: every element moves one position to the left, the first one is dropped, the
     new element becomes the last; an empty vector stays empty *)
  Definition rotate (v : list A) (x : A) : list A :=
    match v with [] => [] | _ => tl v ++ [x] end.

  (* SORT: a sorted rearrangement *)
  Definition sorted_perm (le : A -> A -> bool) (v w : list A) : Prop :=
    Permutation v w /\ StronglySorted (fun a b => le a b = true) w.
End VecSpec.

(* aggregates *)
Definition count (v : list bool) : Z := Z.of_nat (count_occ bool_dec v true).
Definition sumZ (v : list Z) : Z := fold_right Z.add 0 v.
(* the positions holding TRUE, in increasing order *)
Definition true_positions (v : list bool) : list Z :=
  map Z.of_nat (filter (fun j => nth j v false) (seq 0 (length v))).
(* the number of elements taken by FROMINT *)
Definition take_count (n avail : Z) : nat := Z.to_nat (Z.max 0 (Z.min n avail)).

(* What C12 / C13 say about the random generators, as DECIDABLE predicates on a
   produced value.  The same predicates are proved of every value the model can
   produce (for every tape = every outcome of the generator; Proofs/Rand*.v)
   and evaluated on the values the implementation produces (Suites/SRand.v). *)
From Coq Require Import ZArith String List Bool Lia.
From PushModel Require Import Base.Sx Base.Machine Base.ListOps Base.F32 Model.Item Model.GraphT Model.State
  Model.InstrBase Model.RandomGen.
Import ListNotations.
Open Scope Z_scope.

Definition mem_str (n : str) (l : list str) : bool := existsb (str_eqb n) l.
Definition nonempty {A} (l : list A) : bool := match l with [] => false | _ => true end.

(* ---------------- C12 ---------------- *)
(* the decomposition of a request r: positive parts that sum to r; the code
   additionally always ends with a part 1 (the recursion stops at remaining = 1) *)
Definition zsum (l : list Z) : Z := fold_right Z.add 0 l.
Definition valid_parts (r : Z) (parts : list Z) : bool :=
  forallb (fun k => 1 <=? k) parts && (zsum parts =? r) && (last parts 0 =? 1).

Section C12.
  Variable instrs : list str.             (* the supplied instruction list *)
  Variable binds : list (str * item).     (* the name bindings of the state *)
  Variable nnew : Z.                      (* n_event_new: in nnew of 10000 cases a NEW name is drawn *)

  (* a name leaf: a currently bound name, unless a new one is drawn (possible when nnew > 0;
     the existing-name branch is possible when nnew < 10000) or nothing is bound yet *)
  Definition name_ok (nm : str) : bool :=
    match binds with
    | [] => nonempty nm
    | _ => ((0 <? nnew) && nonempty nm) || ((nnew <? 10000) && mem_str nm (map fst binds))
    end.

  Definition leaf_ok (t : item) : bool :=
    match t with
    | IInstr nm => match instrs with [] => str_eqb nm noop_name | _ => mem_str nm instrs end
    | ILit (LBool _) => true
    | ILit (LInt z) => in_i32 z
    | ILit (LFloat f) => unit_bits f                 (* rng.gen::<f32>() : a float in [0,1) *)
    | IName nm => name_ok nm
    | _ => false
    end.

  Fixpoint leaves (t : item) : list item :=
    match t with
    | IList l => flat_map leaves l
    | _ => [t]
    end.
  Fixpoint no_empty_list (t : item) : bool :=
    match t with
    | IList l => nonempty l && forallb no_empty_list l
    | _ => true
    end.

  (* the shape of a generated item: leaves allowed, no empty list, and the first child of
     every list (the one generated last) is a single point *)
  Fixpoint shape_ok (t : item) : bool :=
    match t with
    | IList l => match l with [] => false | x :: _ => size x =? 1 end && forallb shape_ok l
    | _ => leaf_ok t
    end.
  Definition valid_gen (n : Z) (t : item) : bool := (size t =? n) && shape_ok t.
End C12.

(* ---------------- C13 ---------------- *)
Definition count_neq (d : bool) (v : list bool) : Z :=
  fold_right (fun b a => (if Bool.eqb b d then 0 else 1) + a) 0 v.
Definition count_eq (d : bool) (v : list bool) : Z :=
  fold_right (fun b a => (if Bool.eqb b d then 1 else 0) + a) 0 v.
Definition all_in_range (lo hi : Z) (v : list Z) : bool := forallb (fun z => (lo <=? z) && (z <? hi)) v.

Section C13.
  Context {FO : FloatOps}.
  (* the parameter domains as the documentation states them *)
  Definition bv_params_ok (size : Z) (sp : f32) : bool :=
    (0 <=? size) && negb (f_is_nan sp) && negb (flt sp f_zero) && negb (fgt sp f_one).
  Definition iv_params_ok (size lo hi : Z) : bool := (0 <=? size) && (lo <? hi).
  Definition fv_params_ok (size : Z) (sd : f32) : bool :=
    (0 <=? size) && f_is_finite sd && negb (flt sd f_zero).

  (* BOOLVECTOR.RAND: length, and the number of non-default bits is the documented share *)
  Definition bool_vec_ok (size : Z) (sp : f32) (v : list bool) : bool :=
    (zlen v =? size) && (count_neq (bv_default sp) v =? nbits size sp).
  Definition int_vec_ok (size lo hi : Z) (v : list Z) : bool := (zlen v =? size) && all_in_range lo hi v.
  Definition float_vec_ok (size : Z) (v : list f32) : bool := zlen v =? size.
End C13.

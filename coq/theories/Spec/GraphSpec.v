(* The plain set-based description of a directed weighted graph:
   a finite map  node id -> state  and a finite map  (origin, destination) ->
   weight, both as association lists without duplicate keys, in no particular
   order.  Also the operation vocabulary of graph histories over a few graph
   registers (so that clone / snapshot and diff can be expressed) and the
   specification machine over it. *)
From Coq Require Import ZArith List Bool Lia.
From PushModel Require Import Base.Sx Base.Machine Base.ListOps Base.F32 Model.Graph.
Import ListNotations.
Open Scope Z_scope.

Definition sedge : Type := (Z * Z) * f32.            (* ((origin, destination), weight) *)
Definition se_o (e : sedge) : Z := fst (fst e).
Definition se_d (e : sedge) : Z := snd (fst e).
Definition se_w (e : sedge) : f32 := snd e.

Record sgraph : Type := mkS {
  s_nodes : list (Z * Z);        (* id |-> state, no duplicate id *)
  s_edges : list sedge           (* (o, d) |-> weight, no duplicate (o, d) *)
}.

Definition s_new : sgraph := mkS [] [].

Fixpoint assoc {V} (k : Z) (l : list (Z * V)) : option V :=
  match l with [] => None | kv :: r => if fst kv =? k then Some (snd kv) else assoc k r end.
Definition pair_is (o d : Z) (e : sedge) : bool := (se_o e =? o) && (se_d e =? d).
Fixpoint assoc2 (o d : Z) (l : list sedge) : option f32 :=
  match l with [] => None | e :: r => if pair_is o d e then Some (se_w e) else assoc2 o d r end.

Definition s_get_state (s : sgraph) (id : Z) : option Z := assoc id (s_nodes s).
Definition s_get_weight (s : sgraph) (o d : Z) : option f32 := assoc2 o d (s_edges s).
Definition s_has_node (s : sgraph) (id : Z) : bool :=
  match s_get_state s id with Some _ => true | None => false end.
Definition s_has_edge (s : sgraph) (o d : Z) : bool :=
  match s_get_weight s o d with Some _ => true | None => false end.

(* a node with this id: the state is (re)bound *)
Definition s_add_node (s : sgraph) (id st : Z) : sgraph :=
  mkS ((id, st) :: filter (fun n => negb (fst n =? id)) (s_nodes s)) (s_edges s).
(* the node and every edge touching it disappear *)
Definition s_remove_node (s : sgraph) (id : Z) : sgraph :=
  mkS (filter (fun n => negb (fst n =? id)) (s_nodes s))
      (filter (fun e => negb ((se_o e =? id) || (se_d e =? id))) (s_edges s)).
(* a new edge needs both end points and a free ordered pair *)
Definition s_add_edge (s : sgraph) (o d : Z) (w : f32) : sgraph :=
  if s_has_node s o && s_has_node s d && negb (s_has_edge s o d)
  then mkS (s_nodes s) (((o, d), w) :: s_edges s) else s.
Definition s_remove_edge (s : sgraph) (o d : Z) : sgraph :=
  mkS (s_nodes s) (filter (fun e => negb (pair_is o d e)) (s_edges s)).
Definition s_set_state (s : sgraph) (id st : Z) : sgraph :=
  mkS (map (fun n => if fst n =? id then (id, st) else n) (s_nodes s)) (s_edges s).
Definition s_set_weight (s : sgraph) (o d : Z) (w : f32) : sgraph :=
  mkS (s_nodes s) (map (fun e => if pair_is o d e then ((o, d), w) else e) (s_edges s)).
Definition s_node_count (s : sgraph) : Z := Z.of_nat (length (s_nodes s)).
Definition s_edge_count (s : sgraph) : Z := Z.of_nat (length (s_edges s)).

(* node sets (as lists, order irrelevant).  [state_sel states st]: no state
   given = every node, otherwise the node's state is one of them. *)
Definition s_sel (s : sgraph) (states : list Z) (id : Z) : bool :=
  match s_get_state s id with Some st => state_sel states st | None => false end.
Definition s_preds (s : sgraph) (id : Z) (states : list Z) : list Z :=
  map se_o (filter (fun e => (se_d e =? id) && s_sel s states (se_o e)) (s_edges s)).
Definition s_succs (s : sgraph) (id : Z) (states : list Z) : list Z :=
  map se_d (filter (fun e => (se_o e =? id) && s_sel s states (se_d e)) (s_edges s)).
Definition s_neighbours (s : sgraph) (id : Z) (states : list Z) : list Z :=
  s_preds s id states ++ s_succs s id states.
(* state filter: every node when no state is given; otherwise a node is listed
   once per occurrence of its state in [states] *)
Definition s_filter_ids (s : sgraph) (states : list Z) : list Z :=
  flat_map (fun n => match states with
                     | [] => [fst n]
                     | _ => map (fun _ => fst n) (filter (fun x => snd n =? x) states)
                     end) (s_nodes s).

Section Same.
  Context {FO : FloatOps}.
  (* same nodes, states, edges and weights; weights compared with f32 `==`
     (so a NaN weight is not the same as itself, and +0.0 is the same as -0.0) *)
  Definition wsame (x y : option f32) : bool :=
    match x, y with
    | Some a, Some b => feq a b
    | None, None => true
    | _, _ => false
    end.
  Definition osame (x y : option Z) : bool :=
    match x, y with
    | Some a, Some b => a =? b
    | None, None => true
    | _, _ => false
    end.
  Definition s_same (a b : sgraph) : bool :=
    forallb (fun n => osame (Some (snd n)) (s_get_state b (fst n))) (s_nodes a)
    && forallb (fun n => osame (s_get_state a (fst n)) (Some (snd n))) (s_nodes b)
    && forallb (fun e => wsame (Some (se_w e)) (s_get_weight b (se_o e) (se_d e))) (s_edges a)
    && forallb (fun e => wsame (s_get_weight a (se_o e) (se_d e)) (Some (se_w e))) (s_edges b).
End Same.

(* ---------------------------------------------------------------------- *)
(* operation vocabulary: registers are positions in a list of graphs *)
Inductive gop : Type :=
| GNew (r : nat)                               (* reg r := Graph::new() *)
| GClone (src dst : nat)                       (* reg dst := reg src .clone() *)
| GAddNode (r : nat) (st : Z)
| GRemoveNode (r : nat) (id : Z)
| GAddEdge (r : nat) (o d : Z) (w : f32)
| GRemoveEdge (r : nat) (o d : Z)
| GGetState (r : nat) (id : Z)
| GSetState (r : nat) (id st : Z)
| GGetWeight (r : nat) (o d : Z)
| GSetWeight (r : nat) (o d : Z) (w : f32)
| GNodeSize (r : nat)
| GEdgeSize (r : nat)
| GFilter (r : nat) (states : list Z)
| GDiff (a b : nat)                            (* reg a .diff(reg b) *)
| GPreds (r : nat) (id : Z) (states : list Z)
| GSuccs (r : nat) (id : Z) (states : list Z)
| GNeigh (r : nat) (id : Z) (states : list Z).

Inductive gout : Type :=
| UUnit
| UZ (z : Z)
| UOZ (o : option Z)
| UOF (o : option f32)
| UIds (l : list Z)
| UDiff (o : option (list nchange * list echange)).

(* the register written by an operation *)
Definition writes (o : gop) : option nat :=
  match o with
  | GNew r | GClone _ r | GAddNode r _ | GRemoveNode r _ | GAddEdge r _ _ _ | GRemoveEdge r _ _
  | GSetState r _ _ | GSetWeight r _ _ _ => Some r
  | _ => None
  end.

Record sworld : Type := mkSW { sw_next : Z; sw_regs : list sgraph }.

Section SpecMachine.
  Context {FO : FloatOps}.

  Definition sreg (w : sworld) (r : nat) : sgraph := nth r (sw_regs w) s_new.
  Definition sset (w : sworld) (r : nat) (s : sgraph) : sworld := mkSW (sw_next w) (upd (sw_regs w) r s).

  Definition spec_step (w : sworld) (o : gop) : sworld * gout :=
    match o with
    | GNew r => (sset w r s_new, UUnit)
    | GClone a b => (sset w b (sreg w a), UUnit)
    | GAddNode r st =>
        (mkSW (wrap64u (sw_next w + 1)) (upd (sw_regs w) r (s_add_node (sreg w r) (sw_next w) st)),
         UZ (sw_next w))
    | GRemoveNode r id => (sset w r (s_remove_node (sreg w r) id), UUnit)
    | GAddEdge r o d x => (sset w r (s_add_edge (sreg w r) o d x), UUnit)
    | GRemoveEdge r o d => (sset w r (s_remove_edge (sreg w r) o d), UUnit)
    | GGetState r id => (w, UOZ (s_get_state (sreg w r) id))
    | GSetState r id st => (sset w r (s_set_state (sreg w r) id st), UUnit)
    | GGetWeight r o d => (w, UOF (s_get_weight (sreg w r) o d))
    | GSetWeight r o d x => (sset w r (s_set_weight (sreg w r) o d x), UUnit)
    | GNodeSize r => (w, UZ (s_node_count (sreg w r)))
    | GEdgeSize r => (w, UZ (s_edge_count (sreg w r)))
    | GFilter r sts => (w, UIds (map usize_as_i32 (s_filter_ids (sreg w r) sts)))
    | GDiff a b => (w, UDiff (if s_same (sreg w a) (sreg w b) then None else Some ([], [])))
    | GPreds r id sts => (w, UIds (s_preds (sreg w r) id sts))
    | GSuccs r id sts => (w, UIds (s_succs (sreg w r) id sts))
    | GNeigh r id sts => (w, UIds (s_neighbours (sreg w r) id sts))
    end.

  Fixpoint spec_run (w : sworld) (ops : list gop) : sworld * list gout :=
    match ops with
    | [] => (w, [])
    | o :: r =>
        let s := spec_step w o in
        let t := spec_run (fst s) r in
        (fst t, snd s :: snd t)
    end.
End SpecMachine.

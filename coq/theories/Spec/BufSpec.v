(* The abstract specification of the ring buffer: the list of live items,
   OLDEST FIRST, never longer than the capacity.  Short enough to read in a
   minute.

   Documented orders (what the Rust doc comments and unit tests fix):
   * get(i) / copy(i) / get_mut(i): "the ith position ... depending on the
     BufferType": Queue kind = i-th oldest, Stack kind = i-th newest (unit tests
     buffer_{queue,stack}_index_updated_after_carryover);
   * pop: Queue kind = oldest, Stack kind = newest (buffer_type_*_pops_* tests);
   * iter: oldest to newest for both kinds (buffer_iterates_returns_all_elements
     runs on a Stack-kind buffer and expects 1,2,3 after push 1,2,3);
   * to_string: no doc comment and no unit test.  The code walks DOWNWARDS from
     the write cursor (`start - i`) for `size` cells, for both kinds; that is
     the newest item first, which is also how PushStack::to_string prints (top
     first) and the only user is PushState's "GRAPH" line next to the other
     stacks.  So the specification chosen is: to_string lists exactly the live
     items, NEWEST FIRST.  (The pinned code starts one cell too high and so
     prints one dead cell and drops the oldest item; no order at all makes that
     output "exactly the live items".) *)
From Coq Require Import ZArith List Bool Lia.
From PushModel Require Import Model.Buffer.
Import ListNotations.
Open Scope Z_scope.

Section BufSpec.
  Context {A : Type}.

  Inductive bop :=
  | BCapacity | BSize | BToString | BCopy (i : Z) | BCopyOldest | BFlush | BGet (i : Z)
  | BPush (a : A) | BPushForce (a : A) | BPop | BPeekOldest | BPeekNewest | BIter
  | BIsEmpty | BIsFull.

  Inductive bout :=
  | VUnit | VZ (z : Z) | VB (b : bool) | VOA (o : option A) | VL (l : list A).

  Definition bseq := list A.               (* oldest first *)
  Definition blen (t : bseq) : Z := Z.of_nat (length t).

  (* the i-th item as the buffer kind counts *)
  (* (positions are usize values, possibly huge: compared with the length
     before they are used to count along the list) *)
  Definition bget (k : kind) (t : bseq) (i : Z) : option A :=
    if i <? blen t then
      match k with
      | Queue => nth_error t (Z.to_nat i)
      | Stack => nth_error (rev t) (Z.to_nat i)
      end
    else None.

  Definition bspec_step (k : kind) (c : Z) (t : bseq) (o : bop) : bseq * bout :=
    match o with
    | BCapacity => (t, VZ c)
    | BSize => (t, VZ (blen t))
    | BToString => (t, VL (rev t))
    | BCopy i => (t, VOA (bget k t i))
    | BCopyOldest => (t, VOA (hd_error t))
    | BFlush => ([], VUnit)
    | BGet i => (t, VOA (bget k t i))
    | BPush a => (if blen t <? c then t ++ [a] else t, VUnit)
    | BPushForce a => (if blen t <? c then t ++ [a] else tl t ++ [a], VUnit)
    | BPop => match k with
              | Queue => match t with x :: r => (r, VOA (Some x)) | [] => (t, VOA None) end
              | Stack => match rev t with x :: r => (rev r, VOA (Some x)) | [] => (t, VOA None) end
              end
    | BPeekOldest => (t, VOA (hd_error t))
    | BPeekNewest => (t, VOA (hd_error (rev t)))
    | BIter => (t, VL t)
    | BIsEmpty => (t, VB (blen t =? 0))
    | BIsFull => (t, VB (blen t =? c))
    end.

  (* positions are usize values *)
  Definition bop_wf (o : bop) : Prop :=
    match o with
    | BCopy i | BGet i => 0 <= i < 18446744073709551616
    | _ => True
    end.

  Fixpoint bspec_run (k : kind) (c : Z) (t : bseq) (ops : list bop) : bseq * list bout :=
    match ops with
    | [] => (t, [])
    | o :: r => let '(t', u) := bspec_step k c t o in
                let '(t'', us) := bspec_run k c t' r in (t'', u :: us)
    end.

  (* the sequence is bounded: no operation makes it longer than the capacity *)
  Lemma bspec_step_bounded k c t o : 1 <= c -> blen t <= c -> blen (fst (bspec_step k c t o)) <= c.
  Proof.
    unfold blen. intros Hc Ht.
    destruct o; cbn [bspec_step fst]; try assumption; try (cbn [length]; lia).
    - unfold blen. destruct (Z.ltb_spec (Z.of_nat (length t)) c); [|assumption].
      rewrite app_length; cbn [length]; lia.
    - unfold blen. destruct (Z.ltb_spec (Z.of_nat (length t)) c); rewrite app_length; cbn [length]; [lia|].
      destruct t; cbn [tl length] in *; lia.
    - destruct k.
      + destruct t; cbn [fst length] in *; lia.
      + pose proof (rev_length t) as L. destruct (rev t) as [|x r]; cbn [fst]; [assumption|].
        rewrite rev_length. cbn [length] in L. lia.
  Qed.

  Lemma bspec_run_bounded k c ops : forall t, 1 <= c -> blen t <= c -> blen (fst (bspec_run k c t ops)) <= c.
  Proof.
    induction ops as [|o r IH]; intros t Hc Ht; cbn [bspec_run fst]; [assumption|].
    pose proof (bspec_step_bounded k c t o Hc Ht) as B.
    destruct (bspec_step k c t o) as [t' u]. cbn [fst] in B.
    specialize (IH t' Hc B). destruct (bspec_run k c t' r) as [t'' us]. exact IH.
  Qed.
End BufSpec.

Arguments bop A : clear implicits.
Arguments bout A : clear implicits.

(* What parsing a Push program means, independently of how parser.rs does it.

   1. [classify names tok] : the documented lexical rules, in their order of
      precedence, on the level of characters (no byte offsets).
   2. A token sequence is read with an explicit stack of OPEN lists
      ([zst] = the items of the innermost open list so far, and those of the
      enclosing ones); "(" opens, ")" closes, an unmatched ")" is ignored, lists
      still open at the end are closed.  [spec_parse] is the resulting stack,
      first token on top.
   3. Token forests ([ttree]) with their rendering [flatten] and the stack they
      denote [to_stack], for the round-trip statements. *)
From Coq Require Import ZArith List Bool Lia.
From PushModel Require Import Base.Sx Base.Machine Base.F32 Model.Item Model.Parser.
Import ListNotations.
Open Scope Z_scope.

Inductive cls :=
| CItem (t : item)     (* the token is one item *)
| CDrop                (* malformed vector literal: contributes nothing *)
| COpen
| CClose.

(* typed vector literal: prefix and number of prefix characters *)
Definition vec_prefix (tok : str) : option (vtype * nat) :=
  if starts_with s_INT tok then Some (VInt, 4%nat)
  else if starts_with s_FLOAT tok then Some (VFloat, 6%nat)
  else if starts_with s_BOOL tok then Some (VBool, 5%nat)
  else None.

(* the element text of a vector literal: what stands between the k prefix
   characters and the LAST character, which has to be a one-byte character
   (it is the closing bracket in a well-formed literal; the parser does not
   look at it).  A token that is only the prefix has no element text. *)
Definition vec_elems_text (k : nat) (tok : str) : option str :=
  match rev (skipn k tok) with
  | c :: r => if c <? 128 then Some (rev r) else None
  | [] => None
  end.

(* ---- token forests ---- *)
Inductive ttree := TA (tok : str) | TL (l : list ttree).

Section TInd.
  Variable P : ttree -> Prop.
  Hypothesis HA : forall tok, P (TA tok).
  Hypothesis HL : forall l, Forall P l -> P (TL l).
  Fixpoint ttree_ind' (t : ttree) : P t :=
    match t with
    | TA tok => HA tok
    | TL l => HL l ((fix go (l : list ttree) : Forall P l :=
                       match l with
                       | [] => Forall_nil P
                       | x :: r => Forall_cons x (ttree_ind' x) (go r)
                       end) l)
    end.
End TInd.

(* the token sequence of a tree: "(" children ")" *)
Fixpoint flatten1 (t : ttree) : list str :=
  match t with
  | TA tok => [tok]
  | TL l => s_open :: (fix go (l : list ttree) : list str :=
                         match l with [] => [] | x :: r => flatten1 x ++ go r end) l ++ [s_close]
  end.
Definition flatten (f : list ttree) : list str := flat_map flatten1 f.
Lemma flatten1_list l : flatten1 (TL l) = s_open :: flatten l ++ [s_close].
Proof.
  reflexivity.
Qed.


Section Classify.
  Context {FO : FloatOps}.
  Variable names : list str.

  Definition classify (tok : str) : cls :=
    match vec_prefix tok with
    | Some (vt, k) =>
        match vec_elems_text k tok with
        | Some body => match parse_vector vt body with
                       | Some v => CItem (ILit v)
                       | None => CDrop
                       end
        | None => CDrop
        end
    | None =>
        if str_eqb s_open tok then COpen
        else if str_eqb s_close tok then CClose
        else if is_instr names tok then CItem (IInstr tok)
        else match parse_i32 tok with
             | Some z => CItem (ILit (LInt z))
             | None =>
             match fparse tok with
             | Some f => CItem (ILit (LFloat f))
             | None =>
                 if str_eqb tok s_true then CItem (ILit (LBool true))
                 else if str_eqb tok s_false then CItem (ILit (LBool false))
                 else CItem (IName tok)
             end
             end
    end.

  (* ---- reading a classified token sequence ---- *)
  Definition zst := (list item * list (list item))%type.   (* innermost open list, enclosing ones (innermost first) *)

  Definition z_step (z : zst) (c : cls) : zst :=
    let '(cur, outer) := z in
    match c with
    | CItem t => (cur ++ [t], outer)
    | CDrop => z
    | COpen => ([], cur :: outer)
    | CClose => match outer with
                | o :: os => (o ++ [IList cur], os)
                | [] => z                                    (* unmatched ")" *)
                end
    end.
  Fixpoint plug (cur : list item) (outer : list (list item)) : list item :=
    match outer with
    | [] => cur
    | o :: os => plug (o ++ [IList cur]) os
    end.
  Definition z_run (z : zst) (cs : list cls) : zst := fold_left z_step cs z.
  Definition spec_parse_tokens (pre : list item) (toks : list str) : list item :=
    let '(cur, outer) := z_run (pre, []) (map classify toks) in plug cur outer.
  Definition spec_parse (pre : list item) (text : str) : list item :=
    spec_parse_tokens pre (split_ws text).

  (* parentheses balanced: never more ")" than "(" so far, none open at the end *)
  Fixpoint balanced_from (d : nat) (cs : list cls) : bool :=
    match cs with
    | [] => Nat.eqb d 0
    | COpen :: r => balanced_from (S d) r
    | CClose :: r => match d with O => false | S d' => balanced_from d' r end
    | _ :: r => balanced_from d r
    end.
  Definition balanced (toks : list str) : bool := balanced_from 0 (map classify toks).

  (* the items it denotes: an atom is classified (a malformed vector literal
     denotes nothing), a list is the list of what its children denote, in order *)
  Fixpoint to_items (t : ttree) : list item :=
    match t with
    | TA tok => match classify tok with CItem i => [i] | _ => [] end
    | TL l => [IList ((fix go (l : list ttree) : list item :=
                         match l with [] => [] | x :: r => to_items x ++ go r end) l)]
    end.
  Definition to_stack (f : list ttree) : list item := flat_map to_items f.
  Lemma to_items_list l : to_items (TL l) = [IList (to_stack l)].
  Proof.
    reflexivity.
  Qed.

  (* atoms are tokens other than the two parentheses *)
  Definition atom_tok (tok : str) : Prop := classify tok <> COpen /\ classify tok <> CClose.
  Fixpoint atoms_ok (t : ttree) : Prop :=
    match t with
    | TA tok => atom_tok tok
    | TL l => (fix go (l : list ttree) : Prop :=
                 match l with [] => True | x :: r => atoms_ok x /\ go r end) l
    end.
  Definition forest_ok (f : list ttree) : Prop := Forall atoms_ok f.
  Lemma atoms_ok_list l : atoms_ok (TL l) <-> forest_ok l.
  Proof.
    cbn [atoms_ok]. unfold forest_ok. induction l as [|x r IH].
    - split; auto.
    - split.
      + intros [H1 H2]. constructor; [exact H1|]. now apply IH.
      + intro H. inversion H; subst. split; [assumption|]. now apply IH.
  Qed.
End Classify.

(* a token as split_whitespace can produce it *)
Definition ws_free (s : str) : Prop := forallb (fun c => negb (is_ws c)) s = true.
Definition good_tok (s : str) : Prop := s <> [] /\ ws_free s.
Definition ws_freeb (s : str) : bool := forallb (fun c => negb (is_ws c)) s.
Definition good_tokb (s : str) : bool := match s with [] => false | _ :: _ => ws_freeb s end.

(* ---- printable programs (C11): the decidable class for which print-then-parse
   is claimed.  An atom is printable when its printed text is one token and the
   lexical rules read that token back as the same atom. ---- *)
(* every atom of a tree satisfies P *)
Section AtomsAll.
  Variable P : item -> bool.
  Fixpoint atoms_all (t : item) : bool :=
    match t with
    | IList l => (fix go (l : list item) : bool :=
                    match l with [] => true | x :: r => atoms_all x && go r end) l
    | _ => P t
    end.
  Lemma atoms_all_list l : atoms_all (IList l) = forallb atoms_all l.
  Proof. reflexivity. Qed.
End AtomsAll.

Section Printable.
  Context {FO : FloatOps}.
  Variable names : list str.

  Definition rt_atom (a : item) : bool :=
    good_tokb (item_str a) &&
    match classify names (item_str a), a with
    | CItem (ILit (LInt y)), ILit (LInt z) => y =? z
    | CItem (ILit (LBool y)), ILit (LBool z) => Bool.eqb y z
    | CItem (IInstr m), IInstr n => str_eqb m n
    | CItem (IName m), IName n => str_eqb m n
    | _, _ => false
    end.
  (* a float literal: its 3-decimal text is one token and lexes as some float *)
  Definition rt_float (a : item) : bool :=
    match a with
    | ILit (LFloat x) =>
        good_tokb (ffmt 3 x) &&
        match classify names (ffmt 3 x) with CItem (ILit (LFloat _)) => true | _ => false end
    | _ => false
    end.

  Definition printable : item -> bool := atoms_all rt_atom.
  Definition printable_f : item -> bool := atoms_all (fun a => rt_atom a || rt_float a).
End Printable.

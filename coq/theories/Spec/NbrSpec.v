(* Specification side of C20, instruction part: which records of the CODE stack
   a neighbourhood addresses.  A neighbour index j addresses the item j
   positions below the top of the CODE stack; neighbours beyond the stack
   address nothing.  [records_at code nbrs] lists the addressed items in the
   order of [nbrs] (ascending, for a computed neighbourhood). *)
From Coq Require Import ZArith List Bool.
From PushModel Require Import Base.Sx Base.Machine Base.F32 Model.Item Model.InstrBase.
Import ListNotations.
Open Scope Z_scope.

(* the neighbour positions that exist on the CODE stack *)
Definition present_nbrs (code : list item) (nbrs : list Z) : list Z :=
  filter (fun j => j <? zlen code) nbrs.

Definition records_at (code : list item) (nbrs : list Z) : list item :=
  map (fun j => nth (Z.to_nat j) code (IList [])) (present_nbrs code nbrs).

(* C16 — the generic stack container behaves like a plain sequence.
   Only statements, each closed by [exact] of a lemma from Proofs/, with
   [Print Assumptions] beneath. *)
From Coq Require Import ZArith List Bool.
From PushModel Require Import Base.Sx Base.Machine Base.ListOps Model.Stack Spec.SeqSpec
  Model.StackMachine Proofs.StackRefine Suites.SStack Suites.SStackGen.
Import ListNotations.
Open Scope Z_scope.

(* Any history of operations over the whole public API, run on the Vec-backed
   model under either build profile, returns normally, yields the outputs of the
   plain top-first sequence and ends in the state the sequence ends in. *)
Theorem C16_stack_refines_seq :
  forall (A : Type) (eqA streq : A -> A -> bool) (p : profile) (ops : list (op A)) (v : vec A),
    ops_wf eqA streq (rev v) ops ->
    sizes_ok eqA streq (rev v) ops ->
    exists v', impl_run eqA streq p v ops = Ok (v', snd (spec_run eqA streq (rev v) ops))
               /\ rev v' = fst (spec_run eqA streq (rev v) ops).
Proof. exact (@stack_refines_seq_lemma). Qed.
Print Assumptions C16_stack_refines_seq.

(* Out-of-range positions are reported as absent and never fail. *)
Theorem C16_out_of_range_absent :
  forall (A : Type) (eqA streq : A -> A -> bool) (p : profile) (v : vec A) (i : Z) (a : A),
    vlen v <= i < two64 -> vlen v < two64 ->
    impl_step eqA streq p v (OGet i) = Ok (v, UOA None) /\
    impl_step eqA streq p v (OCopy i) = Ok (v, UOA None) /\
    impl_step eqA streq p v (OEqualAt i a) = Ok (v, UOB None) /\
    impl_step eqA streq p v (ORemove i) = Ok (v, UUnit) /\
    impl_step eqA streq p v (OYank i) = Ok (v, UUnit) /\
    impl_step eqA streq p v (OShove i) = Ok (v, UUnit) /\
    impl_step eqA streq p v (OReplace i a) = Ok (v, UOZ (Some (Z.min (two64 - 1) (i - vlen v + 1)))) /\
    (vlen v < i -> impl_step eqA streq p v (OPopVec i) = Ok (v, UOL None) /\
                   impl_step eqA streq p v (OCopyVec i) = Ok (v, UOL None)).
Proof. exact (@out_of_range_absent_lemma). Qed.
Print Assumptions C16_out_of_range_absent.

(* Printing order: the listing used by to_string is the sequence, top first. *)
Theorem C16_to_string_top_first :
  forall (A : Type) (v : vec A), s_to_list v = rev v.
Proof. reflexivity. Qed.
Print Assumptions C16_to_string_top_first.

(* The decidable form of the hypotheses used by the wire checker is sound. *)
Theorem C16_wf_b_sound :
  forall ops t, ops_wf_b t ops = true -> ops_wf Z.eqb Z.eqb t ops.
Proof. exact ops_wf_b_sound. Qed.
Print Assumptions C16_wf_b_sound.

(* The same for the element-generic wire suite (instance: PushStack<Item>, suite
   "stackitem"), and: inside the quantifier that suite prints exactly the run of
   the plain-sequence specification, whatever the element codec. *)
Theorem C16_wf_bg_sound :
  forall (A : Type) (eqA streq : A -> A -> bool) (ops : list (op A)) (t : list A),
    ops_wf_bg eqA streq t ops = true -> ops_wf eqA streq t ops.
Proof. exact ops_wf_bg_sound. Qed.
Print Assumptions C16_wf_bg_sound.

Theorem C16_generic_suite_result_is_spec :
  forall (A : Type) (sx_el : A -> sx) (sx_listing : list A -> sx) (eqA streq : A -> A -> bool)
         (p : profile) (init : list A) (ops : list (op A)),
    ops_wf_bg eqA streq (rev init) ops = true -> sizes_ok eqA streq (rev init) ops ->
    run_g sx_el sx_listing eqA streq p init ops =
    SL [SZ 0; sx_run_g sx_el sx_listing (spec_run eqA streq (rev init) ops)].
Proof. exact suite_g_result_is_spec. Qed.
Print Assumptions C16_generic_suite_result_is_spec.

(* The wire checkers evaluate the specification through [spec_run_c], which replaces a position beyond the
   end by the length before converting it to a natural number (positions up to 2^64 - 1 are evaluated):
   it is the specification. *)
Theorem C16_clamped_evaluation_is_spec :
  forall (A : Type) (eqA streq : A -> A -> bool) (ops : list (op A)) (t : list A),
    spec_run_c eqA streq t ops = spec_run eqA streq t ops.
Proof. intros A eqA streq ops t. exact (spec_run_c_eq eqA streq ops t). Qed.
Print Assumptions C16_clamped_evaluation_is_spec.

(* Non-vacuity: a concrete non-trivial history meets the hypotheses. *)
Example C16_nonvacuous :
  let ops := [OPush 7; OPushFront 9; OYank 2; OShove 1; OSwap 0 2; OPopVec 2; OEqualAt 1 5; OGet 4] in
  ops_wf Z.eqb Z.eqb (rev [1; 2]) ops /\ sizes_ok Z.eqb Z.eqb (rev [1; 2]) ops.
Proof. cbv. repeat split; discriminate. Qed.

(* History: on the pinned tree equal_at guarded with `i > size`; the model of
   that code panics at i = size in both profiles (defect repaired by a fix: commit). *)
Example C16_equal_at_pinned_refuted :
  s_equal_at_pinned Z.eqb Debug [1; 2] 2 5 = Panic /\ s_equal_at_pinned Z.eqb Release [1; 2] 2 5 = Panic.
Proof. split; reflexivity. Qed.

(* C06 — control flow runs code in the documented order, the documented number of times.
   Statements only.  [behaved b f]: the body b, from any state, terminates having restored the rest of
   EXEC and the INDEX stack, its effect being the function f (Proofs/LoopProofs.v). *)
From Coq Require Import ZArith String List Bool.
From PushModel Require Import Base.Sx Base.Machine Base.F32 Model.Item Model.GraphT Model.State
  Model.InstrBase Model.ICode Model.IVector Model.Registry Model.Interp Model.RegistryAll Proofs.RunProofs Proofs.LoopProofs.
Import ListNotations.
Open Scope Z_scope.

(* executing a list runs its elements left to right: they are put on EXEC first element on top *)
Theorem C06_list_unpacks_in_order : forall (FO : FloatOps) p w s l r,
  st_exec s = IList l :: r -> step p full_registry w s = Ok (false, w, set_exec s (l ++ r)%list).
Proof. exact @step_list. Qed.
Print Assumptions C06_list_unpacks_in_order.

(* one-step equations of the combinators, for all stack contents (a = top, b = second, c = third) *)
Theorem C06_exec_if : forall s a b r c br, st_exec s = a :: b :: r -> st_bool s = c :: br ->
  exec_if s = Ok (set_exec (set_bool s br) ((if c then a else b) :: r)).
Proof. intros s a b r c br E B. unfold exec_if. rewrite E. cbn. rewrite B. reflexivity. Qed.
Print Assumptions C06_exec_if.

Theorem C06_code_if : forall s a b r c br, st_code s = a :: b :: r -> st_bool s = c :: br ->
  code_if s = Ok (push_exec (set_bool (set_code s r) br) (if c then b else a)).
Proof. intros s a b r c br E B. unfold code_if. rewrite E. cbn. rewrite B. reflexivity. Qed.
Print Assumptions C06_code_if.

Theorem C06_exec_k_s_y : forall s,
  (forall a b r, st_exec s = a :: b :: r -> exec_k s = Ok (set_exec s (a :: r))) /\
  (forall a b c r, st_exec s = a :: b :: c :: r -> exec_s s = Ok (set_exec s (a :: c :: IList [b; c] :: r))) /\
  (forall a r, st_exec s = a :: r -> exec_y s = Ok (set_exec s (a :: IList [i_instr "EXEC.Y"; a] :: r))).
Proof.
  intros s. repeat split; intros; unfold exec_k, exec_s, exec_y; match goal with H : st_exec s = _ |- _ => rewrite H end; reflexivity.
Qed.
Print Assumptions C06_exec_k_s_y.

Theorem C06_code_do_quote : forall s,
  (forall t r, st_code s = t :: r -> code_do s = Ok (set_exec s (t :: i_instr "CODE.POP" :: st_exec s))) /\
  (forall t r, st_code s = t :: r -> code_do_star s = Ok (set_exec s (i_instr "CODE.POP" :: t :: st_exec s))) /\
  (forall t r, st_exec s = t :: r -> code_quote s = Ok (push_code (set_exec s r) t)).
Proof.
  intros s. repeat split; intros; unfold code_do, code_do_star, code_quote;
    match goal with H : _ s = _ |- _ => rewrite H end; reflexivity.
Qed.
Print Assumptions C06_code_do_quote.

(* EXEC.LOOP: exactly destination-many executions, INDEX.CURRENT = current .. destination-1 in order *)
Theorem C06_exec_loop_runs_n_times : forall (FO : FloatOps) p b f, behaved p b f ->
  forall (d : nat) w s r c n ir,
    st_exec s = i_instr "EXEC.LOOP" :: b :: r -> st_index s = (c, n) :: ir -> n - c = Z.of_nat d ->
    runs p w s (pop_index (loop_iter f d (set_exec s r))).
Proof. exact @exec_loop_runs_n_times. Qed.
Print Assumptions C06_exec_loop_runs_n_times.

(* ... and it leaves no index and no loop code behind *)
Theorem C06_exec_loop_leaves_nothing_behind : forall (FO : FloatOps) p b f, behaved p b f ->
  forall (d : nat) w s r c n ir,
    st_exec s = i_instr "EXEC.LOOP" :: b :: r -> st_index s = (c, n) :: ir -> n - c = Z.of_nat d ->
    exists s', runs p w s s' /\ st_exec s' = r /\ st_index s' = ir.
Proof. exact @exec_loop_leaves_nothing_behind. Qed.
Print Assumptions C06_exec_loop_leaves_nothing_behind.

(* the exposed indices: with INDEX.CURRENT as the body the INTEGER stack receives c, c+1, ..., c+d-1 *)
Theorem C06_index_current_is_a_body : forall (FO : FloatOps) p, behaved p (i_instr "INDEX.CURRENT") push_current.
Proof. exact @index_current_behaved. Qed.
Print Assumptions C06_index_current_is_a_body.

Theorem C06_loop_exposes_indices_in_order : forall d s c n ir, st_index s = (c, n) :: ir -> 0 <= c ->
  c + Z.of_nat d <= max32 -> st_int (loop_iter push_current d s) = (count_down d c ++ st_int s)%list.
Proof. exact loop_pushes_indices. Qed.
Print Assumptions C06_loop_exposes_indices_in_order.

(* loops nest: a whole counted loop is again a well-behaved body, with the iterated effect *)
Theorem C06_nested_loops : forall (FO : FloatOps) p b f n, behaved p b f ->
  behaved p (counted_loop n b) (counted_effect f n).
Proof. exact @counted_loop_behaved. Qed.
Print Assumptions C06_nested_loops.

(* INTVECTOR.LOOP: the body once per element, in element order, that element on INTEGER; the vector
   and the loop code are gone afterwards *)
Theorem C06_intvector_loop_runs_per_element : forall (FO : FloatOps) p b f, behaved p b f ->
  forall (v : list Z) w s r vr,
    st_exec s = i_instr "INTVECTOR.LOOP" :: b :: r -> st_ivec s = v :: vr ->
    runs p w s (loop_vec f v (set_ivec (set_exec s r) vr)).
Proof. exact @intvector_loop_runs_per_element. Qed.
Print Assumptions C06_intvector_loop_runs_per_element.

(* KNOWN FINDING: CODE.LOOP.  It re-arms with ( INDEX.INCREASE CODE.LOOP body ) — pinned by the unit test
   code_loop_pushes_body_and_updated_loop — but the re-armed CODE.LOOP takes its body from the CODE stack,
   where the body no longer is: from an empty CODE stack, one iteration leaves the index pair behind. *)
Theorem C06_code_loop_refuted : forall (FO : FloatOps),
  let body := i_instr "INDEX.CURRENT" in
  let s0 := set_index (set_code empty_state [body]) [(0, 1)] in
  (* first call: the body is popped from CODE and the loop re-arms itself on EXEC *)
  code_loop s0 = Ok (set_exec (set_code s0 []) [body; IList [i_instr "INDEX.INCREASE"; i_instr "CODE.LOOP"; body]]) /\
  (* after the body and INDEX.INCREASE ran, the re-armed CODE.LOOP finds no body on CODE: it does
     nothing, and the index pair (1, 1) is never removed *)
  let s1 := set_index (set_code empty_state []) [(1, 1)] in
  code_loop s1 = Ok s1 /\ st_index s1 = [(1, 1)].
Proof. intros FO body s0. split; [reflexivity|]. split; reflexivity. Qed.
Print Assumptions C06_code_loop_refuted.

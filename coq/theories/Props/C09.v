(* C09 — vector instructions follow the README rules for lengths, offsets and indices.
   Statements only; every theorem is parametric in the float arithmetic (FloatOps). *)
From Coq Require Import ZArith String List Bool Sorting.Permutation Sorting.Sorted.
From PushModel Require Import Base.Sx Base.Machine Base.ListOps Base.F32 Model.Item Model.GraphT Model.State
  Model.InstrBase Model.IVector Model.Registry Model.Interp Model.RegistryVec Model.RegistryAll
  Spec.VecSpec Proofs.VecProofs Proofs.VecDispatch Proofs.SortStable.
Import ListNotations.
Open Scope Z_scope.

(* The element-wise loop computes the README rule (Spec.VecSpec.overlay_partial: position j of the
   result combines second[j] with top[j - off] where that exists and is second[j] otherwise; no
   result if a partial operation is undefined on an overlapping position) for ALL pairs of
   lengths, ALL offsets and every operation. *)
Theorem C09_overlay_correct :
  forall (A : Type) (op : A -> A -> option A) (second top : list A) (off : Z),
    overlay_run op second top off = overlay_partial op second top off.
Proof. exact (fun A op second top off => overlay_run_partial op off second top). Qed.
Print Assumptions C09_overlay_correct.

Theorem C09_overlay_total :
  forall (A : Type) (f : A -> A -> A) (second top : list A) (off : Z),
    overlay_run (fun x t => Some (f x t)) second top off = Some (overlay f second top off).
Proof. exact @overlay_run_total. Qed.
Print Assumptions C09_overlay_total.

(* the result has the second vector's length *)
Theorem C09_overlay_length :
  forall (A : Type) (f : A -> A -> A) (second top : list A) (off : Z),
    length (overlay f second top off) = length second.
Proof. exact @overlay_length. Qed.
Print Assumptions C09_overlay_length.

(* every element of the second vector that the shifted top vector does not lie over is unchanged *)
Theorem C09_overlay_outside_unchanged :
  forall (A : Type) (f : A -> A -> A) (second top : list A) (off : Z) (n : nat),
    ~ (0 <= Z.of_nat n - off < Z.of_nat (length top)) ->
    nth_error (overlay f second top off) n = nth_error second n.
Proof. exact @overlay_outside. Qed.
Print Assumptions C09_overlay_outside_unchanged.

(* on the overlap the two elements are combined, the second vector's element on the left *)
Theorem C09_overlay_inside_combined :
  forall (A : Type) (f : A -> A -> A) (second top : list A) (off : Z) (n : nat) (x y : A),
    nth_error second n = Some x -> elem_at top (Z.of_nat n - off) = Some y ->
    nth_error (overlay f second top off) n = Some (f x y).
Proof. exact @overlay_inside. Qed.
Print Assumptions C09_overlay_inside_combined.

(* The ten element-wise instructions (INTVECTOR.* and INTVECTOR./ are implemented but not
   registered): with two vectors and an offset present they consume the three operands and
   push the overlay; a division pushes nothing when a divisor on the overlap is zero. *)
Theorem C09_elementwise_instructions : forall (FO : FloatOps),
  elementwise st_bvec set_bvec bvec_and andb /\ elementwise st_bvec set_bvec bvec_or orb /\
  elementwise st_ivec set_ivec ivec_add wadd32 /\ elementwise st_ivec set_ivec ivec_sub wsub32 /\
  elementwise st_ivec set_ivec ivec_mul wmul32 /\
  elementwise st_fvec set_fvec fvec_add fadd /\ elementwise st_fvec set_fvec fvec_sub fsub /\
  elementwise st_fvec set_fvec fvec_mul fmul /\
  elementwise_partial st_ivec set_ivec ivec_div (fun x t => if t =? 0 then None else Some (wdiv32 x t)) /\
  elementwise_partial st_fvec set_fvec fvec_div (fun x t => if feq t f_zero then None else Some (fdiv x t)).
Proof. exact @elementwise_instructions. Qed.
Print Assumptions C09_elementwise_instructions.

(* BOOLVECTOR.NOT flips exactly the positions j with 0 <= j - off < length *)
Theorem C09_not_spec : forall s v r off ir,
  st_bvec s = v :: r -> st_int s = off :: ir ->
  bvec_not s = Ok (set_bvec (set_int s ir) (flip_window negb v off :: r)).
Proof. exact @bvec_not_spec. Qed.
Print Assumptions C09_not_spec.

(* GET and SET clamp their index into the vector: never a panic, for any i32 index; an empty
   vector gives no element / stays empty.  (Vector lengths up to i32::MAX.) *)
Theorem C09_get_set_clamped :
  forall (A : Type) (v : list A) (idx : Z) (x : A), zlen v <= max32 ->
    vget v idx = Ok (get_clamped v idx) /\
    vset v idx x = Ok (set_clamped v idx x) /\
    length (set_clamped v idx x) = length v /\
    (forall n, nth_error (set_clamped v idx x) n =
               option_map (fun y => if Z.of_nat n =? clamp idx (Z.of_nat (length v)) then x else y) (nth_error v n)) /\
    (0 < Z.of_nat (length v) -> 0 <= clamp idx (Z.of_nat (length v)) < Z.of_nat (length v)) /\
    (0 <= idx < Z.of_nat (length v) -> clamp idx (Z.of_nat (length v)) = idx).
Proof.
  intros A v idx x H.
  exact (conj (vget_spec v idx H) (conj (vset_spec v idx x H) (conj (set_clamped_length v idx x)
        (conj (set_clamped_nth v idx x) (conj (clamp_in_range idx _) (clamp_id idx _)))))).
Qed.
Print Assumptions C09_get_set_clamped.

Theorem C09_get_instructions : forall s idx ir,
  st_int s = idx :: ir ->
  (forall v r, st_bvec s = v :: r -> zlen v <= max32 ->
     bvec_get s = Ok (match get_clamped v idx with Some x => set_bool (set_int s ir) (x :: st_bool s) | None => set_int s ir end)) /\
  (forall v r, st_ivec s = v :: r -> zlen v <= max32 ->
     ivec_get s = Ok (match get_clamped v idx with Some x => set_int s (x :: ir) | None => set_int s ir end)) /\
  (forall v r, st_fvec s = v :: r -> zlen v <= max32 ->
     fvec_get s = Ok (match get_clamped v idx with Some x => set_float (set_int s ir) (x :: st_float s) | None => set_int s ir end)).
Proof. exact @get_instructions. Qed.
Print Assumptions C09_get_instructions.

Theorem C09_set_instructions : forall s idx ir,
  st_int s = idx :: ir ->
  (forall x xr v r, st_bool s = x :: xr -> st_bvec s = v :: r -> zlen v <= max32 ->
     bvec_set s = Ok (set_bvec (set_bool (set_int s ir) xr) (set_clamped v idx x :: r))) /\
  (forall x xr v r, ir = x :: xr -> st_ivec s = v :: r -> zlen v <= max32 ->
     ivec_set s = Ok (set_ivec (set_int s xr) (set_clamped v idx x :: r))) /\
  (forall x xr v r, st_float s = x :: xr -> st_fvec s = v :: r -> zlen v <= max32 ->
     fvec_set s = Ok (set_fvec (set_float (set_int s ir) xr) (set_clamped v idx x :: r))).
Proof. exact @set_instructions. Qed.
Print Assumptions C09_set_instructions.

(* ONES / ZEROS *)
Theorem C09_ones_zeros_spec : forall s n ir,
  st_int s = n :: ir ->
  let out {A} (set : state -> list (list A) -> state) (get : state -> list (list A)) (x : A) :=
    Ok (if 0 <? n then set (set_int s ir) (repeat x (Z.to_nat n) :: get s) else set_int s ir) in
  bvec_ones s = out set_bvec st_bvec true /\ bvec_zeros s = out set_bvec st_bvec false /\
  ivec_ones s = out set_ivec st_ivec 1 /\ ivec_zeros s = out set_ivec st_ivec 0 /\
  fvec_ones s = out set_fvec st_fvec f_one /\ fvec_zeros s = out set_fvec st_fvec f_zero.
Proof. exact @fill_instructions. Qed.
Print Assumptions C09_ones_zeros_spec.

(* LENGTH, COUNT, SUM, MEAN: the integer sum wraps into i32 (as INTEGER.+ does), the integer
   mean is the exact sum converted to f32 and divided by the length; the float sum is the
   left-to-right sum starting from -0.0; the mean of an empty vector is 0/0. *)
Theorem C09_aggregates_spec : forall (FO : FloatOps) s,
  (forall v r, st_bvec s = v :: r -> zlen v <= max32 ->
     bvec_length s = Ok (push_int s (zlen v)) /\ bvec_count s = Ok (push_int s (count v))) /\
  (forall v r, st_ivec s = v :: r -> zlen v <= max32 ->
     ivec_length s = Ok (push_int s (zlen v)) /\
     ivec_sum s = Ok (push_int s (wrap32 (sumZ v))) /\
     ivec_mean s = Ok (push_float s (fdiv (f_of_i64 (sumZ v)) (f_of_usize (zlen v))))) /\
  (forall v r, st_fvec s = v :: r -> zlen v <= max32 ->
     fvec_length s = Ok (push_int s (zlen v)) /\
     fvec_sum s = Ok (push_float s (fold_left fadd v f_negzero)) /\
     fvec_mean s = Ok (push_float s (fdiv (fold_left fadd v f_negzero) (f_of_usize (zlen v))))).
Proof. exact @aggregate_instructions. Qed.
Print Assumptions C09_aggregates_spec.

(* SORT: a sorted rearrangement, resp. its reverse.  For floats the order is `fle_nan_last`
   (numbers in their usual order, every NaN behind every number); the theorem needs that this is
   a total preorder, which holds for IEEE comparison (validated for binary32 in Suites/SF32). *)
Theorem C09_sort_spec : forall (FO : FloatOps),
  sorts st_bvec set_bvec bool_le bvec_sort_asc bvec_sort_desc /\
  sorts st_ivec set_ivec Z.leb ivec_sort_asc ivec_sort_desc /\
  ((forall a b, fle_nan_last a b = true \/ fle_nan_last b a = true) ->
   (forall a b c, fle_nan_last a b = true -> fle_nan_last b c = true -> fle_nan_last a c = true) ->
   sorts st_fvec set_fvec fle_nan_last fvec_sort_asc fvec_sort_desc).
Proof. exact @sort_instructions. Qed.
Print Assumptions C09_sort_spec.

(* SORT is STABLE, and that determines the result.  Rust's `sort` / `sort_by` promise a sorted
   rearrangement in which elements that compare equal keep their relative order (observable for
   floats: 0.0 and -0.0 compare equal, and so do all NaN); the model sorts by insertion.
   [eqv le x y := le x y && le y x] (x and y compare equal); "keep their relative order" is: for
   every k the sub-list of the elements equivalent to k is unchanged.

   The model's sort has the property (transitivity of the comparison is enough) ... *)
Theorem C09_stable_sort_keeps_equal_order :
  forall (A : Type) (le : A -> A -> bool),
    (forall a b c, le a b = true -> le b c = true -> le a c = true) ->
    forall (l : list A) (k : A), filter (eqv le k) (stable_sort le l) = filter (eqv le k) l.
Proof. exact @stable_sort_stable. Qed.
Print Assumptions C09_stable_sort_keeps_equal_order.

(* ... because an insertion cuts the sorted list in two, moves nothing else, and puts the new
   element behind elements that are not equivalent to it and in front of all the others it is
   below or equivalent to ... *)
Theorem C09_insert_before_equivalent :
  forall (A : Type) (le : A -> A -> bool),
    (forall a b c, le a b = true -> le b c = true -> le a c = true) ->
    forall (x : A) (l : list A), StronglySorted (fun a b => le a b = true) l ->
    exists l1 l2, l = (l1 ++ l2)%list /\ ins_sorted_by le x l = (l1 ++ x :: l2)%list /\
                  Forall (fun y => eqv le x y = false) l1 /\ Forall (fun y => le x y = true) l2.
Proof. exact @ins_sorted_before_equivalent. Qed.
Print Assumptions C09_insert_before_equivalent.

(* ... and for a total preorder ANY sorted rearrangement with the property is the model's
   result: the contract of a stable sort leaves no freedom, whatever the algorithm. *)
Theorem C09_stable_sort_is_the_only_one :
  forall (A : Type) (le : A -> A -> bool),
    (forall a b, le a b = true \/ le b a = true) ->
    (forall a b c, le a b = true -> le b c = true -> le a c = true) ->
    forall l l' : list A,
      Permutation l l' -> StronglySorted (fun a b => le a b = true) l' ->
      (forall k, filter (eqv le k) l' = filter (eqv le k) l) ->
      l' = stable_sort le l.
Proof. exact @stable_sort_unique. Qed.
Print Assumptions C09_stable_sort_is_the_only_one.

(* SORT*DESC reverses the ascending result (as the Rust code does: sort, then reverse), so
   elements that compare equal come out in the REVERSE of their original relative order; and
   that, too, is the only list sorted downwards with this arrangement of equal elements. *)
Theorem C09_sort_desc_reverses_equal_order :
  forall (A : Type) (le : A -> A -> bool),
    (forall a b c, le a b = true -> le b c = true -> le a c = true) ->
    forall (l : list A) (k : A),
      filter (eqv le k) (rev (stable_sort le l)) = rev (filter (eqv le k) l).
Proof. exact @stable_sort_desc_order. Qed.
Print Assumptions C09_sort_desc_reverses_equal_order.

Theorem C09_sort_desc_is_the_only_one :
  forall (A : Type) (le : A -> A -> bool),
    (forall a b, le a b = true \/ le b a = true) ->
    (forall a b c, le a b = true -> le b c = true -> le a c = true) ->
    forall l l' : list A,
      Permutation l l' -> StronglySorted (fun a b => le b a = true) l' ->
      (forall k, filter (eqv le k) l' = rev (filter (eqv le k) l)) ->
      l' = rev (stable_sort le l).
Proof. exact @stable_sort_desc_unique. Qed.
Print Assumptions C09_sort_desc_is_the_only_one.

(* The six instructions.  [stable_sorted_perm le v w]: w is a rearrangement of v, sorted, with
   every class of equivalent elements in its original order; [stable_sorted_perm_desc le v w]: w
   is a rearrangement of v, sorted downwards, with every class in reversed order
   (Proofs/SortStable.v).  [sorts_stably]: SORT*ASC replaces the top vector v by a w with
   [stable_sorted_perm le v w] and SORT*DESC replaces it by [rev w], which satisfies
   [stable_sorted_perm_desc le v (rev w)]. *)
Theorem C09_sort_is_stable : forall (FO : FloatOps),
  sorts_stably st_bvec set_bvec bool_le bvec_sort_asc bvec_sort_desc /\
  sorts_stably st_ivec set_ivec Z.leb ivec_sort_asc ivec_sort_desc /\
  ((forall a b, fle_nan_last a b = true \/ fle_nan_last b a = true) ->
   (forall a b c, fle_nan_last a b = true -> fle_nan_last b c = true -> fle_nan_last a c = true) ->
   sorts_stably st_fvec set_fvec fle_nan_last fvec_sort_asc fvec_sort_desc).
Proof. exact @sort_instructions_stable. Qed.
Print Assumptions C09_sort_is_stable.

(* [sort_result_unique]: EVERY w with [stable_sorted_perm le v w] is the vector SORT*ASC leaves,
   and every w with [stable_sorted_perm_desc le v w] is the vector SORT*DESC leaves. *)
Theorem C09_stable_sort_unique : forall (FO : FloatOps),
  sort_result_unique st_bvec set_bvec bool_le bvec_sort_asc bvec_sort_desc /\
  sort_result_unique st_ivec set_ivec Z.leb ivec_sort_asc ivec_sort_desc /\
  ((forall a b, fle_nan_last a b = true \/ fle_nan_last b a = true) ->
   (forall a b c, fle_nan_last a b = true -> fle_nan_last b c = true -> fle_nan_last a c = true) ->
   sort_result_unique st_fvec set_fvec fle_nan_last fvec_sort_asc fvec_sort_desc).
Proof. exact @sort_instructions_unique. Qed.
Print Assumptions C09_stable_sort_unique.

(* ROTATE (an empty vector stays empty) *)
Theorem C09_rotate_spec : forall s,
  (forall x xr v r, st_bool s = x :: xr -> st_bvec s = v :: r ->
     bvec_rotate s = Ok (set_bvec (set_bool s xr) (rotate v x :: r))) /\
  (forall x xr v r, st_int s = x :: xr -> st_ivec s = v :: r ->
     ivec_rotate s = Ok (set_ivec (set_int s xr) (rotate v x :: r))) /\
  (forall x xr v r, st_float s = x :: xr -> st_fvec s = v :: r ->
     fvec_rotate s = Ok (set_fvec (set_float s xr) (rotate v x :: r))).
Proof. exact @rotate_instructions. Qed.
Print Assumptions C09_rotate_spec.

Theorem C09_rotate_elements : forall (A : Type) (v : list A) (x : A) (n : nat),
  length (rotate v x) = length v /\
  (v <> [] -> nth_error (rotate v x) n = if Nat.eqb (S n) (length v) then Some x else nth_error v (S n)).
Proof. intros A v x n. exact (conj (rotate_length v x) (rotate_nth v x n)). Qed.
Print Assumptions C09_rotate_elements.

Theorem C09_append_spec : forall s,
  (forall x xr v r, st_int s = x :: xr -> st_ivec s = v :: r ->
     ivec_append s = Ok (set_ivec (set_int s xr) ((v ++ [x])%list :: r))) /\
  (forall x xr v r, st_float s = x :: xr -> st_fvec s = v :: r ->
     fvec_append s = Ok (set_fvec (set_float s xr) ((v ++ [x])%list :: r))).
Proof. exact @append_instructions. Qed.
Print Assumptions C09_append_spec.

Theorem C09_remove_spec : forall s x xr v r,
  st_int s = x :: xr -> st_ivec s = v :: r ->
  exists w, ivec_remove s = Ok (set_ivec (set_int s xr) (w :: r)) /\
            (forall y, In y w <-> In y v /\ y <> x) /\ (~ In x v -> w = v).
Proof. exact @remove_instruction. Qed.
Print Assumptions C09_remove_spec.

Theorem C09_set_insert_spec : forall s x xr,
  st_int s = x :: xr ->
  (forall v r, st_ivec s = v :: r ->
     ivec_set_insert s = Ok (set_ivec (set_int s xr) ((if zmem x v then v else (v ++ [x])%list) :: r))) /\
  (st_ivec s = [] -> ivec_set_insert s = Ok (set_ivec (set_int s xr) [[x]])).
Proof. exact @set_insert_instruction. Qed.
Print Assumptions C09_set_insert_spec.

Theorem C09_set_insert_keeps_sets : forall x v,
  (zmem x v = true <-> In x v) /\ (NoDup v -> NoDup (if zmem x v then v else (v ++ [x])%list)).
Proof. intros x v. exact (conj (zmem_In x v) (set_insert_nodup x v)). Qed.
Print Assumptions C09_set_insert_keeps_sets.

Theorem C09_contains_spec : forall s x xr v r,
  st_int s = x :: xr -> st_ivec s = v :: r ->
  exists b, ivec_contains s = Ok (push_bool (set_ivec (set_int s xr) r) b) /\ (b = true <-> In x v).
Proof. exact @contains_instruction. Qed.
Print Assumptions C09_contains_spec.

Theorem C09_boolindex_spec : forall s v r,
  st_bvec s = v :: r -> zlen v <= max32 ->
  ivec_bool_index s = Ok (set_ivec (set_bvec s r) (true_positions v :: st_ivec s)).
Proof. exact @bool_index_instruction. Qed.
Print Assumptions C09_boolindex_spec.

Theorem C09_fromint_spec : forall s n ir,
  st_int s = n :: ir -> zlen ir <= max32 ->
  let k := take_count n (zlen ir) in
  ivec_from_int s = Ok (set_ivec (set_int s (skipn k ir)) (rev (firstn k ir) :: st_ivec s)).
Proof. exact @from_int_instruction. Qed.
Print Assumptions C09_fromint_spec.

Theorem C09_scalar_spec : forall (FO : FloatOps) s f fr v r,
  st_float s = f :: fr -> st_fvec s = v :: r ->
  fvec_mul_scalar s = Ok (set_fvec (set_float s fr) (map (fun x => fmul x f) v :: r)).
Proof. exact @mul_scalar_instruction. Qed.
Print Assumptions C09_scalar_spec.

(* SINE: element i = A * sin(((2 pi) * x) * i + phi) for whatever function the libm oracle
   answers; a negative length pushes nothing *)
Theorem C09_sine_spec : forall (FO : FloatOps) (sin : f32 -> f32) s a x phi fr n ir,
  (forall y, flibm FN_SIN y = Some (sin y)) ->
  st_float s = a :: x :: phi :: fr -> st_int s = n :: ir ->
  fvec_sine s = Ok (if 0 <=? n
                    then set_fvec (set_int (set_float s fr) ir)
                           (map (fun j => sine_elem sin a x phi (Z.of_nat j)) (seq 0 (Z.to_nat n)) :: st_fvec s)
                    else set_int (set_float s fr) ir).
Proof. exact @sine_instruction. Qed.
Print Assumptions C09_sine_spec.

(* every vector instruction name dispatches to its own operation *)
Theorem C09_vector_names_dispatch : forall (FO : FloatOps),
  Forall (fun e => lookup full_registry (s2l (fst e)) = Some (snd e)) vector_table /\
  lookup full_registry (s2l "BOOLVECTOR.ROTATE") = Some (pure bvec_rotate) /\
  lookup full_registry (s2l "FLOATVECTOR.SUM") = Some (pure fvec_sum).
Proof. intro FO. exact (conj vector_names_dispatch repaired_bindings). Qed.
Print Assumptions C09_vector_names_dispatch.

(* the outcome of a vector instruction does not depend on the build profile (on the pinned tree
   offset arithmetic, INTVECTOR.+ - SUM MEAN panicked in debug builds and wrapped in release builds) *)
Theorem C09_profile_independent : forall (FO : FloatOps),
  Forall (fun e => forall w s, snd e Debug w s = snd e Release w s) vector_table.
Proof. exact @vector_profile_independent. Qed.
Print Assumptions C09_profile_independent.

(* ---- non-vacuity ---- *)
(* unequal lengths, negative offset: INT[10,20] + INT[1,2,3] at offset -1 *)
Example C09_nonvacuous_overlay :
  overlay Z.add [10; 20] [1; 2; 3] (-1) = [12; 23] /\
  overlay Z.add [10; 20; 30; 40] [1; 2] 1 = [10; 21; 32; 40] /\
  overlay Z.add [10; 20] [1; 2; 3] 2147483647 = [10; 20] /\
  overlay_partial (fun x t => if t =? 0 then None else Some (Z.quot x t)) [10; 20] [0; 5] (-1) = Some [2; 20] /\
  overlay_partial (fun x t => if t =? 0 then None else Some (Z.quot x t)) [10; 20] [0; 5] 0 = None.
Proof. repeat split; reflexivity. Qed.

Example C09_nonvacuous_instruction : forall (FO : FloatOps),
  let s := set_int (set_ivec empty_state [[1; 2; 3]; [10]]) [-2; 7] in
  ivec_add s = Ok (set_int (set_ivec empty_state [[13]]) [7]).
Proof. reflexivity. Qed.

Example C09_nonvacuous_get_set :
  get_clamped [5; 6; 7] 99 = Some 7 /\ get_clamped [5; 6; 7] (-3) = Some 5 /\
  set_clamped [5; 6; 7] 99 0 = [5; 6; 0] /\ get_clamped (@nil Z) 0 = None.
Proof. repeat split; reflexivity. Qed.

Example C09_nonvacuous_not_rotate :
  flip_window negb [true; true; false] 1 = [true; false; true] /\ rotate [1; 2; 3] 9 = [2; 3; 9] /\
  rotate (@nil Z) 9 = [].
Proof. repeat split; reflexivity. Qed.

(* stability is not vacuous: pairs compared by their first component only.  The sort keeps
   (1,0) before (1,1) and (2,0) before (2,1); the descending result has them the other way
   round; and the list with (1,1) before (1,0) is a sorted rearrangement as well (so
   C09_sort_spec alone does not determine the result) but not a stable one. *)
Example C09_nonvacuous_sort_stable :
  let le (p q : Z * Z) := fst p <=? fst q in
  let l := [(2, 0); (1, 0); (2, 1); (1, 1); (0, 0)] in
  stable_sort le l = [(0, 0); (1, 0); (1, 1); (2, 0); (2, 1)] /\
  rev (stable_sort le l) = [(2, 1); (2, 0); (1, 1); (1, 0); (0, 0)] /\
  eqv le (1, 0) (1, 1) = true /\ eqv le (1, 0) (2, 0) = false /\
  filter (eqv le (1, 7)) l = [(1, 0); (1, 1)] /\
  filter (eqv le (1, 7)) (stable_sort le l) = [(1, 0); (1, 1)] /\
  filter (eqv le (1, 7)) (rev (stable_sort le l)) = [(1, 1); (1, 0)] /\
  filter (eqv le (1, 7)) [(0, 0); (1, 1); (1, 0); (2, 0); (2, 1)] = [(1, 1); (1, 0)].
Proof. vm_compute. repeat split. Qed.

Example C09_nonvacuous_sort_unstable_alternative :
  let le (p q : Z * Z) := fst p <=? fst q in
  let l := [(1, 0); (1, 1); (2, 0)] in
  let l' := [(1, 1); (1, 0); (2, 0)] in
  sorted_perm le l l' /\ l' <> stable_sort le l /\
  filter (eqv le (1, 0)) l' <> filter (eqv le (1, 0)) l.
Proof.
  split; [split|split].
  - apply perm_swap.
  - repeat (constructor; [|repeat (constructor; try reflexivity)]). constructor.
  - vm_compute. discriminate.
  - vm_compute. discriminate.
Qed.

(* on the instruction: integers that compare equal are identical, booleans likewise; the
   instruction-level statement is exercised on floats in Props/FloatFacts.v *)
Example C09_nonvacuous_sort_instruction : forall (FO : FloatOps),
  let s := set_ivec empty_state [[3; 1; 2; 1]; [10]] in
  ivec_sort_asc s = Ok (set_ivec empty_state [[1; 1; 2; 3]; [10]]) /\
  ivec_sort_desc s = Ok (set_ivec empty_state [[3; 2; 1; 1]; [10]]).
Proof. intro FO. split; reflexivity. Qed.

(* ---- the pinned tree (before fixes/C09-*.patch) ---- *)
(* a shorter top vector panicked in every profile *)
Example C09_overlay_pinned_refuted :
  overlay_run_pinned Release (fun x t => Ok (Some (andb x t))) [true; false] [true] 0 = Panic /\
  overlay (fun x t => andb x t) [true; false] [true] 0 = [true; false].
Proof. split; reflexivity. Qed.
(* a longer top vector with a negative offset was partly ignored *)
Example C09_overlay_pinned_ignores_refuted :
  overlay_run_pinned Release (fun x t => Ok (Some (x + t))) [10] [1; 2; 3] (-2) = Ok (Some [10]) /\
  overlay Z.add [10] [1; 2; 3] (-2) = [13].
Proof. split; reflexivity. Qed.
(* i + offset overflowed in debug builds *)
Example C09_offset_overflow_pinned_refuted :
  not_loop_pinned Debug 2147483647 2 0 [true; true] = Panic /\
  not_loop_pinned Release 2147483647 2 0 [true; true] = Ok [true; true].
Proof. split; reflexivity. Qed.
(* FLOATVECTOR.SUM was the stack depth; BOOLVECTOR.ROTATE was not its own function *)
Example C09_registry_pinned_refuted : forall (FO : FloatOps),
  List.find (fun e => String.eqb (fst e) "BOOLVECTOR.ROTATE") tbl_bvec_pinned = None /\
  option_map (fun e => snd e Debug {| w_next_node := 0; w_tape := [] |} (set_fvec empty_state [[f_one; f_one]]))
             (List.find (fun e => String.eqb (fst e) "FLOATVECTOR.SUM") tbl_fvec_pinned)
  = Some (Ok ({| w_next_node := 0; w_tape := [] |}, set_int (set_fvec empty_state [[f_one; f_one]]) [1])).
Proof. intro FO. split; reflexivity. Qed.
(* ROTATE on an empty vector, SUM overflow in debug *)
Example C09_rotate_sum_pinned_refuted : forall (FO : FloatOps),
  ivec_rotate_pinned (set_int (set_ivec empty_state [[]]) [5]) = Panic /\
  ivec_sum_pinned Debug (set_ivec empty_state [[2147483647; 1]]) = Panic /\
  ivec_sum (set_ivec empty_state [[2147483647; 1]]) = Ok (set_int (set_ivec empty_state [[2147483647; 1]]) [-2147483648]).
Proof. intro FO. repeat split; reflexivity. Qed.

(* C05 — stack-manipulation instructions act uniformly on every stack and conserve items.
   The family is ONE generic definition over a lens (Model/InstrBase.v); the theorems below
   hold for every lens, hence for every stack type; the registry lemma ties each typed
   instruction NAME to the generic definition.  Statements only. *)
From Coq Require Import ZArith String List Bool Permutation.
From PushModel Require Import Base.Sx Base.Machine Base.ListOps Base.F32 Model.Item Model.GraphT Model.State
  Model.InstrBase Model.Registry Model.Interp Model.RegistryAll Spec.SeqSpec
  Proofs.Frame Proofs.StackOpsProofs Proofs.UniformProofs Proofs.VecUniform.
Import ListNotations.
Open Scope Z_scope.

(* positions: the abstract accessors are the plain-sequence operations of C16, position 0 = top *)
Theorem C05_yank_is_sequence_yank : forall (A : Type) eqA streq (l : list A) i, 0 <= i ->
  l_yank l i = fst (spec_step eqA streq l (OYank i)).
Proof. exact @l_yank_is_spec. Qed.
Print Assumptions C05_yank_is_sequence_yank.

Theorem C05_shove_is_sequence_shove : forall (A : Type) eqA streq (l : list A) i, 0 <= i ->
  l_shove l i = fst (spec_step eqA streq l (OShove i)).
Proof. exact @l_shove_is_spec. Qed.
Print Assumptions C05_shove_is_sequence_shove.

(* YANK / SHOVE: index removed from INTEGER first, clamped; the result is that position map
   and a permutation of the stack *)
Theorem C05_yank_spec : forall (A : Type) (L : lens A) s idx r, st_int s = idx :: r ->
  let s1 := set_int s r in
  exists s', g_yank (lget L) (lset L) s = Ok s' /\
    lget L s' = l_yank (lget L s1) (clamp_idx idx (len32 (lget L s1))) /\
    Permutation (lget L s') (lget L s1).
Proof. exact @g_yank_spec. Qed.
Print Assumptions C05_yank_spec.

Theorem C05_shove_spec : forall (A : Type) (L : lens A) s idx r, st_int s = idx :: r ->
  let s1 := set_int s r in
  exists s', g_shove (lget L) (lset L) s = Ok s' /\
    lget L s' = l_shove (lget L s1) (clamp_idx idx (len32 (lget L s1))) /\
    Permutation (lget L s') (lget L s1).
Proof. exact @g_shove_spec. Qed.
Print Assumptions C05_shove_spec.

Theorem C05_swap_spec : forall (A : Type) (L : lens A) s s', g_swap (lget L) (lset L) s = Ok s' ->
  lget L s' = match lget L s with a :: b :: r => b :: a :: r | l => l end.
Proof. exact @g_swap_spec. Qed.
Print Assumptions C05_swap_spec.

Theorem C05_rot_spec : forall (A : Type) (L : lens A) s s', g_rot (lget L) (lset L) s = Ok s' ->
  lget L s' = match lget L s with a :: b :: c :: r => c :: a :: b :: r | l => l end.
Proof. exact @g_rot_spec. Qed.
Print Assumptions C05_rot_spec.

Theorem C05_swap_rot_permutation : forall (A : Type) (L : lens A) s s',
  (g_swap (lget L) (lset L) s = Ok s' -> Permutation (lget L s') (lget L s)) /\
  (g_rot (lget L) (lset L) s = Ok s' -> Permutation (lget L s') (lget L s)).
Proof. intros; split; [apply g_swap_perm | apply g_rot_perm]. Qed.
Print Assumptions C05_swap_rot_permutation.

(* DUP and YANKDUP add exactly one copy of an existing item *)
Theorem C05_dup_adds_one_copy : forall (A : Type) (L : lens A) s,
  g_dup (lget L) (lset L) s = Ok (match lget L s with x :: r => lset L s (x :: x :: r) | [] => s end).
Proof. exact @g_dup_spec. Qed.
Print Assumptions C05_dup_adds_one_copy.

Theorem C05_yankdup_adds_one_copy : forall (A : Type) (L : lens A) s idx r, st_int s = idx :: r ->
  let s1 := set_int s r in
  small L s1 ->
  exists s', g_yankdup (lget L) (lset L) s = Ok s' /\
    match lget L s1 with
    | [] => s' = s1
    | _ => exists x, nth_error (lget L s1) (Z.to_nat (clamp_idx idx (zlen (lget L s1)))) = Some x /\
                     lget L s' = x :: lget L s1
    end.
Proof. exact @g_yankdup_spec. Qed.
Print Assumptions C05_yankdup_adds_one_copy.

Theorem C05_pop_removes_top : forall (A : Type) (L : lens A) s,
  g_pop (lget L) (lset L) s = Ok (match lget L s with _ :: r => lset L s r | [] => s end).
Proof. exact @g_pop_spec. Qed.
Print Assumptions C05_pop_removes_top.

Theorem C05_flush_empties : forall (A : Type) (L : lens A) s s', g_flush (lset L) s = Ok s' -> lget L s' = [].
Proof. exact @g_flush_empties. Qed.
Print Assumptions C05_flush_empties.

Theorem C05_depth_reports : forall (A : Type) (L : lens A) s, small L s ->
  g_depth (lget L) s = Ok (set_int s (zlen (lget L s) :: st_int s)).
Proof. exact @g_depth_spec. Qed.
Print Assumptions C05_depth_reports.

Theorem C05_no_index_no_effect : forall (A : Type) (L : lens A) s, st_int s = [] ->
  g_yank (lget L) (lset L) s = Ok s /\ g_shove (lget L) (lset L) s = Ok s /\ g_yankdup (lget L) (lset L) s = Ok s.
Proof. exact @g_index_ops_need_index. Qed.
Print Assumptions C05_no_index_no_effect.

(* nothing else changes *)
Theorem C05_frame_unary : forall (A : Type) (L : lens A) s s',
  g_dup (lget L) (lset L) s = Ok s' \/ g_pop (lget L) (lset L) s = Ok s' \/ g_swap (lget L) (lset L) s = Ok s' \/
  g_rot (lget L) (lset L) s = Ok s' \/ g_flush (lset L) s = Ok s' ->
  same_outside (lmask L) s s'.
Proof. exact @g_unary_frame. Qed.
Print Assumptions C05_frame_unary.

Theorem C05_frame_indexed : forall (A : Type) (L : lens A) s s',
  g_yank (lget L) (lset L) s = Ok s' \/ g_shove (lget L) (lset L) s = Ok s' \/ g_yankdup (lget L) (lset L) s = Ok s' ->
  same_outside (mask_union (also_int mask_none) (lmask L)) s s'.
Proof. exact @g_index_frame. Qed.
Print Assumptions C05_frame_indexed.

Theorem C05_frame_depth : forall (A : Type) (L : lens A) s s',
  g_depth (lget L) s = Ok s' -> same_outside (also_int mask_none) s s'.
Proof. exact @g_depth_frame. Qed.
Print Assumptions C05_frame_depth.

(* uniformity: each typed instruction name is bound to the generic definition at its lens *)
Theorem C05_uniform_scalar_stacks : forall (FO : FloatOps),
  uniform_for "BOOLEAN" L_bool /\ uniform_for "INTEGER" L_int /\ uniform_for "FLOAT" L_float /\
  uniform_for "NAME" L_name /\ uniform_for "CODE" L_code /\ uniform_for "EXEC" L_exec.
Proof. exact @uniform_scalar. Qed.
Print Assumptions C05_uniform_scalar_stacks.

Theorem C05_stackdepth_uniform : forall (FO : FloatOps),
  reg_is "BOOLEAN.STACKDEPTH" (g_depth st_bool) /\ reg_is "FLOAT.STACKDEPTH" (g_depth st_float) /\
  reg_is "NAME.STACKDEPTH" (g_depth st_name) /\ reg_is "CODE.STACKDEPTH" (g_depth st_code) /\
  reg_is "EXEC.STACKDEPTH" (g_depth st_exec).
Proof. exact @depth_uniform. Qed.
Print Assumptions C05_stackdepth_uniform.

(* the three vector stack types: same generic definitions; vector.rs registers no *.ROT for them *)
Theorem C05_uniform_vector_stacks : forall (FO : FloatOps),
  uniform_norot_for "BOOLVECTOR" L_bvec /\ uniform_norot_for "INTVECTOR" L_ivec /\ uniform_norot_for "FLOATVECTOR" L_fvec.
Proof. exact @uniform_vector. Qed.
Print Assumptions C05_uniform_vector_stacks.

Theorem C05_stackdepth_uniform_vector : forall (FO : FloatOps),
  reg_is "BOOLVECTOR.STACKDEPTH" (g_depth st_bvec) /\ reg_is "INTVECTOR.STACKDEPTH" (g_depth st_ivec) /\
  reg_is "FLOATVECTOR.STACKDEPTH" (g_depth st_fvec).
Proof. exact @depth_uniform_vector. Qed.
Print Assumptions C05_stackdepth_uniform_vector.

(* non-vacuity: a state with an index and a three-element stack *)
Example C05_nonvacuous :
  let s := set_int (set_bool empty_state [true; false; true]) [7] in
  st_int s = [7] /\ small L_bool (set_int s []) /\
  exists s', g_yank st_bool set_bool s = Ok s' /\ st_bool s' = [true; true; false] /\ st_int s' = [].
Proof. cbn. repeat split; try discriminate. eexists; repeat split; reflexivity. Qed.

(* C08 — CODE list surgery is coherent with depth-first point indexing.
   API level: the tree functions of Item (size, traverse, insert, contains,
   container, substitute).  Only statements, each closed by [exact] of a lemma
   from Proofs/, with [Print Assumptions] beneath.  All theorems are for all
   trees (unbounded depth and size, every atom kind), all indices, both build
   profiles, and any float comparison ([FloatOps] is universally quantified).

   points t      : preorder listing of the points of t (t first, then the points
                   of each child, children top-first)           Spec/TreeSpec.v
   nth_point t i : i-th element of that listing
   EXTRACT = traverse, INSERT = insert, POSITION = contains, CONTAINER =
   container, SUBST = substitute, SIZE = size.

   [insert] and [contains] are the REPAIRED functions (fixes/C08-item-insert.patch,
   fixes/C08-item-contains.patch); the code of the pinned tree is
   [insert_pinned] / [contains_pinned], refuted at the end of this file. *)
From Coq Require Import ZArith List Bool.
From PushModel Require Import Base.Sx Base.Machine Base.F32 Model.Item Spec.TreeSpec
  Proofs.TreePoints Proofs.TreeInsert Proofs.TreeSearch.
Import ListNotations.
Open Scope Z_scope.

(* ---- SIZE counts points ---- *)
Theorem C08_size_is_length_points :
  forall t : item, size t = Z.of_nat (length (points t)).
Proof. exact size_is_length_points. Qed.
Print Assumptions C08_size_is_length_points.

(* ---- EXTRACT at d yields the d-th point in depth-first order; beyond the
   last point it reports how far beyond (the Err(remaining) protocol) ---- *)
Theorem C08_traverse_spec :
  forall (p : profile) (t : item) (d : Z), 0 <= d ->
    (d < size t -> traverse p t d = Ok (Found (nth_point t d))) /\
    (size t <= d -> traverse p t d = Ok (Rem (d - size t + 1))).
Proof. exact traverse_spec. Qed.
Print Assumptions C08_traverse_spec.

(* `depth -= 1` never underflows: no panic in debug, no wrap-around in release *)
Theorem C08_traverse_no_underflow :
  forall (p : profile) (t : item) (d : Z), 0 <= d -> traverse p t d <> Panic.
Proof. exact traverse_no_underflow. Qed.
Print Assumptions C08_traverse_no_underflow.

(* ---- INSERT at 0 < i < size replaces exactly the subtree rooted at point i.
   [replace_point] is defined structurally in Spec/TreeSpec.v. ---- *)
Theorem C08_insert_spec :
  forall (p : profile) (t x : item) (i : Z), 0 < i < size t ->
    insert p t x i = Ok (replace_point t i x, IOk false).
Proof. exact insert_spec. Qed.
Print Assumptions C08_insert_spec.

(* index 0: Item::insert leaves the tree alone and tells the caller (Ok(true)) *)
Theorem C08_insert_root_untouched :
  forall (p : profile) (t x : item), insert p t x 0 = Ok (t, IOk true).
Proof. exact insert_root_untouched. Qed.
Print Assumptions C08_insert_root_untouched.

Theorem C08_insert_out_of_range_noop :
  forall (p : profile) (t x : item) (i : Z), size t <= i ->
    insert p t x i = Ok (t, IErr (i - size t + 1)).
Proof. exact insert_out_of_range_noop. Qed.
Print Assumptions C08_insert_out_of_range_noop.

Theorem C08_extract_after_insert :
  forall (p : profile) (t x : item) (i : Z), 0 < i < size t ->
    exists t', insert p t x i = Ok (t', IOk false) /\ traverse p t' i = Ok (Found x).
Proof. exact extract_after_insert. Qed.
Print Assumptions C08_extract_after_insert.

(* Nothing outside the replaced subtree changes.  With old = the replaced
   subtree: the new tree has size t + size x - size old points; every point
   before i keeps its index, and keeps its value unless it is an ancestor of
   point i (j <= i < j + size (point j)), in which case it is the same point
   with the same replacement done inside it; the points of x follow from index
   i; every point after the replaced block keeps its value and moves by
   size x - size old. *)
Theorem C08_insert_local :
  forall (p : profile) (t x : item) (i : Z), 0 < i < size t ->
    exists t', insert p t x i = Ok (t', IOk false) /\
      let old := nth_point t i in
      size t' = size t + size x - size old /\
      (forall j, 0 <= j < i ->
         nth_point t' j = if i <? j + size (nth_point t j)
                          then replace_point (nth_point t j) (i - j) x
                          else nth_point t j) /\
      (forall j, 0 <= j < size x -> nth_point t' (i + j) = nth_point x j) /\
      (forall j, i + size old <= j < size t ->
         nth_point t' (j + size x - size old) = nth_point t j).
Proof. exact insert_local. Qed.
Print Assumptions C08_insert_local.

(* a subtree occupies the contiguous block of indices [j, j + size) *)
Theorem C08_subtree_is_block :
  forall (t : item) (j : Z), 0 <= j < size t -> j + size (nth_point t j) <= size t.
Proof. exact subtree_fits. Qed.
Print Assumptions C08_subtree_is_block.

(* ---- POSITION: index of the first structurally equal point ---- *)
Theorem C08_position_spec :
  forall (FO : FloatOps) (t pat : item), contains t pat 0 = first_index pat t.
Proof. exact @position_spec. Qed.
Print Assumptions C08_position_spec.

(* ... so EXTRACT at the reported index returns an item equal to the searched
   one, and no smaller index does *)
Theorem C08_position_extract :
  forall (FO : FloatOps) (p : profile) (t pat : item) (k : Z),
    contains t pat 0 = Some k ->
    0 <= k < size t /\
    traverse p t k = Ok (Found (nth_point t k)) /\
    equals (nth_point t k) pat = true /\
    (forall j, 0 <= j < k -> equals (nth_point t j) pat = false).
Proof. exact @position_extract. Qed.
Print Assumptions C08_position_extract.

(* ... and "not found" (CODE.POSITION's -1) exactly when no point is equal *)
Theorem C08_position_none_iff_absent :
  forall (FO : FloatOps) (t pat : item),
    contains t pat 0 = None <-> (forall q, In q (points t) -> equals q pat = false).
Proof. exact @position_none_iff_absent. Qed.
Print Assumptions C08_position_none_iff_absent.

(* an item without float literals that is a point of the tree is found
   (with float literals this needs x == x, false for NaN) *)
Theorem C08_position_finds_present :
  forall (FO : FloatOps) (t pat : item),
    float_free pat = true -> In pat (points t) ->
    exists k, contains t pat 0 = Some k /\ 0 <= k < size t /\ equals (nth_point t k) pat = true.
Proof. exact @position_finds_present. Qed.
Print Assumptions C08_position_finds_present.

(* ---- CONTAINER ---- *)
(* [parent_point t k] is the parent of point k: a list, itself point j < k of
   t, one of whose direct children is rooted at index k *)
Theorem C08_parent_point_is_parent :
  forall (t : item) (k : Z), 0 < k < size t ->
    exists j, 0 <= j < k /\ parent_point t k = Some (nth_point t j) /\
      exists pre post, nth_point t j = IList (pre ++ nth_point t k :: post) /\ k = j + 1 + sizes pre.
Proof. exact parent_point_spec. Qed.
Print Assumptions C08_parent_point_is_parent.

(* ... and it is the SMALLEST enclosing list: no point strictly between the
   parent j and its child k reaches k (its block of indices ends at or before k) *)
Theorem C08_parent_is_smallest :
  forall (t : item) (j k : Z), 0 <= j < size t ->
    (exists pre post, nth_point t j = IList (pre ++ nth_point t k :: post) /\ k = j + 1 + sizes pre) ->
    forall j', j < j' < k -> j' + size (nth_point t j') <= k.
Proof. exact parent_is_smallest. Qed.
Print Assumptions C08_parent_is_smallest.

(* EXTRACT composes: point m of point j is point j + m *)
Theorem C08_extract_composes :
  forall (t : item) (j m : Z), 0 <= j < size t -> 0 <= m < size (nth_point t j) ->
    nth_point t (j + m) = nth_point (nth_point t j) m.
Proof. exact nth_point_compose. Qed.
Print Assumptions C08_extract_composes.

(* container = Err(true) when the tree itself matches, Err(false) when nothing
   matches, otherwise the parent of the FIRST preorder occurrence *)
Theorem C08_container_spec :
  forall (FO : FloatOps) (t pat : item), container t pat = container_of t pat.
Proof. exact @container_spec. Qed.
Print Assumptions C08_container_spec.

Theorem C08_container_ok :
  forall (FO : FloatOps) (t pat c : item), container t pat = COk c ->
    exists k j pre post,
      first_index pat t = Some k /\ parent_of_first pat t = Some c /\
      0 <= j < k /\ k < size t /\
      nth_point t j = c /\ In c (points t) /\
      c = IList (pre ++ nth_point t k :: post) /\ k = j + 1 + sizes pre /\
      equals (nth_point t k) pat = true.
Proof. exact @container_ok_props. Qed.
Print Assumptions C08_container_ok.

Theorem C08_container_err_true_iff :
  forall (FO : FloatOps) (t pat : item), container t pat = CErr true <-> equals t pat = true.
Proof. exact @container_err_true_iff. Qed.
Print Assumptions C08_container_err_true_iff.

Theorem C08_container_err_false_iff :
  forall (FO : FloatOps) (t pat : item),
    container t pat = CErr false <-> (forall q, In q (points t) -> equals q pat = false).
Proof. exact @container_err_false_iff. Qed.
Print Assumptions C08_container_err_false_iff.

(* ---- SUBST: every maximal match below the root is replaced, nothing else;
   a match at the root is reported by the flag and left to the caller ---- *)
Theorem C08_subst_spec :
  forall (FO : FloatOps) (t pat sub : item),
    substitute t pat sub = (subst_all t pat sub, equals t pat).
Proof. exact @subst_spec. Qed.
Print Assumptions C08_subst_spec.

Theorem C08_subst_only_matches :
  forall (FO : FloatOps) (pat sub t : item),
    (forall q, In q (points t) -> q = t \/ equals q pat = false) -> subst_all t pat sub = t.
Proof. exact @subst_all_no_match. Qed.
Print Assumptions C08_subst_only_matches.

(* structurally equal trees have the same number of points *)
Theorem C08_equals_same_size :
  forall (FO : FloatOps) (a b : item), equals a b = true -> size a = size b.
Proof. exact @equals_size. Qed.
Print Assumptions C08_equals_same_size.

(* ---- non-vacuity and the pinned code ---- *)
(* an instance of the float interface for computing on float-free trees *)
Definition dummy_ops : FloatOps := {|
  fadd := fun a _ => a; fsub := fun a _ => a; fmul := fun a _ => a; fdiv := fun a _ => a;
  frem := fun a _ => a; fcmp := fun _ _ => None;
  f_of_i32 := fun z => z; f_to_i32 := fun z => z; f_of_usize := fun z => z; f_to_usize := fun z => z;
  fsqrt := fun a => a; fceil := fun a => a; fround := fun a => a; fabs := fun a => a; fneg := fun a => a;
  f_is_nan := fun _ => false; f_is_finite := fun _ => true;
  ffmt := fun _ _ => []; fparse := fun _ => None; flibm := fun _ _ => None |}.

Definition nm (c : Z) : item := IName [c].
(* ( A ( B ) C D E ) *)
Definition ex_tree : item := IList [nm 65; IList [nm 66]; nm 67; nm 68; nm 69].

Example C08_nonvacuous_points :
  points ex_tree = [ex_tree; nm 65; IList [nm 66]; nm 66; nm 67; nm 68; nm 69] /\ size ex_tree = 7.
Proof. split; reflexivity. Qed.

Example C08_nonvacuous_insert :
  insert Debug ex_tree (nm 88) 4 = Ok (IList [nm 65; IList [nm 66]; nm 88; nm 68; nm 69], IOk false) /\
  insert Release ex_tree (IList [nm 88; nm 89]) 2
    = Ok (IList [nm 65; IList [nm 88; nm 89]; nm 67; nm 68; nm 69], IOk false) /\
  traverse Debug (IList [nm 65; IList [nm 88; nm 89]; nm 67; nm 68; nm 69]) 5 = Ok (Found (nm 67)).
Proof. repeat split; vm_compute; reflexivity. Qed.

Example C08_nonvacuous_search :
  let FO := dummy_ops in
  let t := IList [IList [nm 65; nm 66]; nm 67; IList [nm 67]] in
  contains t (nm 67) 0 = Some 4 /\ container t (nm 67) = COk t /\
  container t (nm 66) = COk (IList [nm 65; nm 66]) /\ container t (nm 90) = CErr false /\
  substitute t (nm 67) (nm 88) = (IList [IList [nm 65; nm 66]; nm 88; IList [nm 88]], false).
Proof. vm_compute. repeat split; reflexivity. Qed.

(* The code of the pinned tree violates C08_insert_spec: inserting X into
   ( A ( B ) C D E ) at point 4 (= C) replaces child number depth-1 = 3 of the
   root, i.e. D. *)
Example C08_insert_pinned_refuted :
  replace_point ex_tree 4 (nm 88) = IList [nm 65; IList [nm 66]; nm 88; nm 68; nm 69] /\
  insert_pinned Debug ex_tree (nm 88) 4 = Ok (IList [nm 65; IList [nm 66]; nm 67; nm 88; nm 69], IOk false) /\
  insert_pinned Release ex_tree (nm 88) 4 = Ok (IList [nm 65; IList [nm 66]; nm 67; nm 88; nm 69], IOk false) /\
  (* ... and into ( A ( B ) C ) at 4 nothing happens although the call reports success *)
  insert_pinned Debug (IList [nm 65; IList [nm 66]; nm 67]) (nm 88) 4
    = Ok (IList [nm 65; IList [nm 66]; nm 67], IOk false).
Proof. repeat split; vm_compute; reflexivity. Qed.

(* The code of the pinned tree violates C08_position_spec: the position of C in
   ( ( A B ) C ) is reported as 2 (the points A, B of the non-matching nested
   list are not counted); point 2 is A, the first occurrence of C is point 4. *)
Example C08_contains_pinned_refuted :
  let FO := dummy_ops in
  let t := IList [IList [nm 65; nm 66]; nm 67] in
  contains_pinned t (nm 67) 0 = Some 2 /\ first_index (nm 67) t = Some 4 /\
  nth_point t 2 = nm 65 /\ nth_point t 4 = nm 67 /\ contains t (nm 67) 0 = Some 4.
Proof. vm_compute. repeat split; reflexivity. Qed.

(* FloatFacts — the float hypotheses of the property theorems, discharged for the
   executable float instance (Base/F32Flocq.v: Flocq 4 binary32, round to nearest even),
   i.e. for the instance every correspondence run executes.

   The property theorems (Props/C01.v, C09.v, C13.v, C20.v) are parametric in the law-free
   class [FloatOps] and carry the IEEE facts they need as explicit hypotheses.  Here each of
   those hypotheses is a THEOREM about [flocq_ops tab], for every libm oracle table [tab]
   (the one exception, [fie_sq_powf], is a statement about libm's powf, i.e. about the
   table: it is proved for tables that answer powf(d, 2.0) with d * d, and is not needed
   for the Release profile), followed by the property theorems instantiated at
   [flocq_ops tab] with the hypotheses gone.

   Statements only; proofs are in Proofs/FlocqFacts{Base,Nbits,Int,Sort}.v and
   Suites/SNoPanicFloat.v.

   ALLOWED AXIOM BASE.  Flocq is built on Coq's classical real numbers, so every theorem
   of this file depends on (exactly, and only) these four axioms of the standard library:
     Classical_Prop.classic
     FunctionalExtensionality.functional_extensionality_dep
     ClassicalDedekindReals.sig_forall_dec
     ClassicalDedekindReals.sig_not_dec
   No axiom is declared in this development. *)
From Coq Require Import ZArith String List Bool Sorted.
From PushModel Require Import Base.Sx Base.Machine Base.ListOps Base.F32 Base.F32Flocq
  Model.Item Model.GraphT Model.State Model.InstrBase Model.Registry Model.Interp Model.RandomGen
  Model.IRand Model.IVector Model.RegistryAll Model.Topology
  Spec.RandSpec Spec.TopoSpec Proofs.RandVec Proofs.NoPanicBase Proofs.NoPanicRand Proofs.NoPanic
  Proofs.VecProofs Proofs.SortStable Proofs.TopoNbr
  Suites.SNoPanicFloat Proofs.FlocqFactsNbits Proofs.FlocqFactsInt Proofs.FlocqFactsSort
  Props.C01 Props.C09 Props.C13 Props.C20.
Import ListNotations.
Open Scope Z_scope.
Open Scope list_scope.

Notation table := (list (Z * Z * Z)).

(* ================= 1. the hypotheses ================= *)

(* C01 [fo_typed]: `x as i32` is an i32 *)
Theorem FF_fo_typed : forall tab : table, @fo_typed (flocq_ops tab).
Proof. exact flocq_fo_typed. Qed.
Print Assumptions FF_fo_typed.

(* C13 [nbits_sane] : for 0 <= size <= i32::MAX and a sparsity s that is not NaN, not < 0, not > 1,
   n = trunc(round(100 * min(s, 1 - s)) / 100 * size) satisfies 0 <= n <= size and n < i32::MAX *)
Theorem FF_nbits_sane : forall (tab : table) size sp,
  in_i32 size = true -> @bv_params_ok (flocq_ops tab) size sp = true ->
  @nbits_sane (flocq_ops tab) size sp = true.
Proof. exact flocq_nbits_sane. Qed.
Print Assumptions FF_nbits_sane.

(* C01 [fo_nbits] : the same, as C01 states it *)
Theorem FF_fo_nbits : forall tab : table, @fo_nbits (flocq_ops tab).
Proof. exact flocq_fo_nbits. Qed.
Print Assumptions FF_fo_nbits.

(* C20 [FloatIntExact], field by field *)
Theorem FF_fie_zero : forall tab : table, @f_of_usize (flocq_ops tab) 0 = f_zero.
Proof. exact flocq_fie_zero. Qed.
Print Assumptions FF_fie_zero.

Theorem FF_fie_add : forall (tab : table) x y, 0 <= x -> 0 <= y -> x + y < two24 ->
  @fadd (flocq_ops tab) (@f_of_usize (flocq_ops tab) x) (@f_of_usize (flocq_ops tab) y)
  = @f_of_usize (flocq_ops tab) (x + y).
Proof. exact flocq_fie_add. Qed.
Print Assumptions FF_fie_add.

Theorem FF_fie_sq_mul : forall (tab : table) a b,
  0 <= a < two24 -> 0 <= b < two24 -> (a - b) * (a - b) < two24 ->
  @fmul (flocq_ops tab)
    (@fsub (flocq_ops tab) (@f_of_usize (flocq_ops tab) a) (@f_of_usize (flocq_ops tab) b))
    (@fsub (flocq_ops tab) (@f_of_usize (flocq_ops tab) a) (@f_of_usize (flocq_ops tab) b))
  = @f_of_usize (flocq_ops tab) ((a - b) * (a - b)).
Proof. exact flocq_fie_sq_mul. Qed.
Print Assumptions FF_fie_sq_mul.

Theorem FF_fie_sqrt_zero : forall tab : table, @fsqrt (flocq_ops tab) f_zero = f_zero.
Proof. exact flocq_fie_sqrt_zero. Qed.
Print Assumptions FF_fie_sqrt_zero.

Theorem FF_fie_sqrt_mono : forall (tab : table) x y, 0 <= x -> x <= y -> y < two24 ->
  @fle (flocq_ops tab) (@fsqrt (flocq_ops tab) (@f_of_usize (flocq_ops tab) x))
                       (@fsqrt (flocq_ops tab) (@f_of_usize (flocq_ops tab) y)) = true.
Proof. exact flocq_fie_sqrt_mono. Qed.
Print Assumptions FF_fie_sqrt_mono.

Theorem FF_fie_sqrt_int : forall (tab : table) D R, 0 <= D < two24 -> 0 <= R < 4096 ->
  @fle (flocq_ops tab) (@fsqrt (flocq_ops tab) (@f_of_usize (flocq_ops tab) D)) (@f_of_usize (flocq_ops tab) R)
  = (D <=? R * R).
Proof. exact flocq_fie_sqrt_int. Qed.
Print Assumptions FF_fie_sqrt_int.

Theorem FF_fie_le_trans : forall (tab : table) a b c,
  @fle (flocq_ops tab) a b = true -> @fle (flocq_ops tab) b c = true -> @fle (flocq_ops tab) a c = true.
Proof. exact flocq_fie_le_trans. Qed.
Print Assumptions FF_fie_le_trans.

Theorem FF_fie_nonneg_guard : forall (tab : table) r,
  @fle (flocq_ops tab) f_zero r = true -> @flt (flocq_ops tab) r f_zero = false.
Proof. exact flocq_fie_nonneg_guard. Qed.
Print Assumptions FF_fie_nonneg_guard.

(* the libm field, for tables that answer powf(d, 2.0) with d * d for the integers d with d^2 < 2^24 *)
Theorem FF_fie_sq_powf : forall tab : table,
  (forall d, d * d < two24 ->
     lookup3 tab FN_POWF (fl_of_int d * 4294967296 + f_two) = Some (fl_of_int (d * d))) ->
  forall a b, 0 <= a < two24 -> 0 <= b < two24 -> (a - b) * (a - b) < two24 ->
  @libm2 (flocq_ops tab) FN_POWF
    (@fsub (flocq_ops tab) (@f_of_usize (flocq_ops tab) a) (@f_of_usize (flocq_ops tab) b)) f_two
  = Ok (@f_of_usize (flocq_ops tab) ((a - b) * (a - b))).
Proof. exact flocq_fie_sq_powf. Qed.
Print Assumptions FF_fie_sq_powf.

(* the whole record: for such tables ... *)
Theorem FF_FloatIntExact : forall tab : table, powf_sq_table tab -> FloatIntExact (flocq_ops tab).
Proof. exact flocq_FloatIntExact. Qed.
Print Assumptions FF_FloatIntExact.

(* the condition on the table is satisfiable: the table of the 8191 exact squares *)
Theorem FF_powf_sq_table_inhabited : exists tab : table, powf_sq_table tab.
Proof. exact (ex_intro _ sq_table powf_sq_table_inhabited). Qed.
Print Assumptions FF_powf_sq_table_inhabited.

(* ... and, for every table, for the instance whose oracle answers powf(x, 2.0) by x * x (all
   other operations are those of [flocq_ops tab]; the Release build computes x * x itself) *)
Theorem FF_FloatIntExact_sq : forall tab : table, FloatIntExact (with_sq_powf (flocq_ops tab)).
Proof. exact flocq_FloatIntExact_sq. Qed.
Print Assumptions FF_FloatIntExact_sq.

(* C09: the order of FLOATVECTOR.SORT is a total preorder *)
Theorem FF_fle_nan_last_total : forall (tab : table) a b,
  @fle_nan_last (flocq_ops tab) a b = true \/ @fle_nan_last (flocq_ops tab) b a = true.
Proof. exact flocq_fle_nan_last_total. Qed.
Print Assumptions FF_fle_nan_last_total.

Theorem FF_fle_nan_last_trans : forall (tab : table) a b c,
  @fle_nan_last (flocq_ops tab) a b = true -> @fle_nan_last (flocq_ops tab) b c = true ->
  @fle_nan_last (flocq_ops tab) a c = true.
Proof. exact flocq_fle_nan_last_trans. Qed.
Print Assumptions FF_fle_nan_last_trans.

(* ... and it is the order the documentation describes: [fle] on numbers, every NaN after every
   number, all NaN equivalent *)
Theorem FF_fle_nan_last_shape : forall (tab : table) a b,
  (fl_is_nan a = false -> fl_is_nan b = false ->
     @fle_nan_last (flocq_ops tab) a b = @fle (flocq_ops tab) a b) /\
  (fl_is_nan a = false -> fl_is_nan b = true ->
     @fle_nan_last (flocq_ops tab) a b = true /\ @fle_nan_last (flocq_ops tab) b a = false) /\
  (fl_is_nan a = true -> fl_is_nan b = true -> @fle_nan_last (flocq_ops tab) a b = true).
Proof. exact flocq_fle_nan_last_shape. Qed.
Print Assumptions FF_fle_nan_last_shape.

(* ================= 2. the property theorems at the Flocq instance ================= *)

(* ---- C01: no float hypothesis left ---- *)
Theorem FF_C01_instr_no_panic_flocq : forall (tab : table) (n : string) (f : sem),
  In (n, f) (@full_table (flocq_ops tab)) ->
  forall (p : profile) (w : world) (s : state), wf_state s -> envelope s -> f p w s <> Panic.
Proof. exact (fun tab => C01_instr_no_panic (flocq_ops tab) (flocq_fo_nbits tab)). Qed.
Print Assumptions FF_C01_instr_no_panic_flocq.

Theorem FF_C01_wf_preserved_flocq : forall (tab : table) (n : string) (f : sem),
  In (n, f) (@full_table (flocq_ops tab)) ->
  forall (p : profile) (w : world) (s : state) (w' : world) (s' : state),
    wf_state s -> envelope s -> f p w s = Ok (w', s') -> wf_state s'.
Proof. exact (fun tab => C01_wf_preserved (flocq_ops tab) (flocq_fo_nbits tab) (flocq_fo_typed tab)). Qed.
Print Assumptions FF_C01_wf_preserved_flocq.

Theorem FF_C01_step_no_panic_flocq : forall (tab : table) (p : profile) (w : world) (s : state),
  wf_state s -> envelope s -> step p (@full_registry (flocq_ops tab)) w s <> Panic.
Proof. exact (fun tab => C01_step_no_panic (flocq_ops tab) (flocq_fo_nbits tab)). Qed.
Print Assumptions FF_C01_step_no_panic_flocq.

Theorem FF_C01_steps_no_panic_flocq : forall (tab : table) (p : profile) (k : nat) (w : world) (s : state),
  wf_state s -> @stays_in_envelope (flocq_ops tab) p k w s ->
  steps p (@full_registry (flocq_ops tab)) k w s <> Panic.
Proof. exact (fun tab => C01_steps_no_panic (flocq_ops tab) (flocq_fo_nbits tab) (flocq_fo_typed tab)). Qed.
Print Assumptions FF_C01_steps_no_panic_flocq.

Theorem FF_C01_run_no_panic_flocq : forall (tab : table) (p : profile) (clock : Z -> Z) (w : world) (s : state),
  wf_state s -> @stays_in_envelope (flocq_ops tab) p (run_fuel (copy_to_code s)) w (copy_to_code s) ->
  run p (@full_registry (flocq_ops tab)) clock w s <> Panic.
Proof. exact (fun tab => C01_run_no_panic (flocq_ops tab) (flocq_fo_nbits tab) (flocq_fo_typed tab)). Qed.
Print Assumptions FF_C01_run_no_panic_flocq.

(* ---- C13: [nbits_sane] replaced by "size is an i32" ----
   [nbits size sp] is, by definition (Model/RandomGen.v),
   f_to_i32 (fmul (fdiv (fround (fmul f_100 (fmin sp (fsub f_one sp)))) f_100) (f_of_i32 size)) *)
Theorem FF_C13_bool_vec_length_flocq : forall (tab : table) p w s size ir sp fr,
  st_int s = size :: ir -> st_float s = sp :: fr -> in_i32 size = true ->
  @bv_params_ok (flocq_ops tab) size sp = true ->
  exists w' v, @bool_vector_rand (flocq_ops tab) p w s
                 = Ok (w', set_bvec (set_float (set_int s ir) fr) (v :: st_bvec s)) /\
    zlen v = size.
Proof.
  exact (fun tab p w s size ir sp fr Hi Hf H32 Hp =>
    C13_bool_vec_length (flocq_ops tab) p w s size ir sp fr Hi Hf Hp (flocq_nbits_sane tab size sp H32 Hp)).
Qed.
Print Assumptions FF_C13_bool_vec_length_flocq.

Theorem FF_C13_bool_vec_count_flocq : forall (tab : table) p w s size ir sp fr,
  st_int s = size :: ir -> st_float s = sp :: fr -> in_i32 size = true ->
  @bv_params_ok (flocq_ops tab) size sp = true ->
  exists w' v, @bool_vector_rand (flocq_ops tab) p w s
                 = Ok (w', set_bvec (set_float (set_int s ir) fr) (v :: st_bvec s)) /\
    count_neq (@fgt (flocq_ops tab) sp f_half) v = @nbits (flocq_ops tab) size sp.
Proof.
  exact (fun tab p w s size ir sp fr Hi Hf H32 Hp =>
    C13_bool_vec_count (flocq_ops tab) p w s size ir sp fr Hi Hf Hp (flocq_nbits_sane tab size sp H32 Hp)).
Qed.
Print Assumptions FF_C13_bool_vec_count_flocq.

Theorem FF_C13_bool_vec_every_position_reachable_flocq : forall (tab : table) p s size ir sp fr pos nn,
  st_int s = size :: ir -> st_float s = sp :: fr -> in_i32 size = true ->
  @bv_params_ok (flocq_ops tab) size sp = true -> 1 <= @nbits (flocq_ops tab) size sp -> 0 <= pos < size ->
  exists t w' v, @bool_vector_rand (flocq_ops tab) p {| w_next_node := nn; w_tape := t |} s
                   = Ok (w', set_bvec (set_float (set_int s ir) fr) (v :: st_bvec s)) /\
    nth_error v (Z.to_nat pos) = Some (negb (@bv_default (flocq_ops tab) sp)).
Proof.
  exact (fun tab p s size ir sp fr pos nn Hi Hf H32 Hp =>
    C13_bool_vec_every_position_reachable (flocq_ops tab) p s size ir sp fr pos nn Hi Hf Hp
      (flocq_nbits_sane tab size sp H32 Hp)).
Qed.
Print Assumptions FF_C13_bool_vec_every_position_reachable_flocq.

(* ---- C09: FLOATVECTOR.SORT sorts ---- *)
Theorem FF_C09_sort_spec_flocq : forall tab : table,
  sorts st_fvec set_fvec (@fle_nan_last (flocq_ops tab))
        (@fvec_sort_asc (flocq_ops tab)) (@fvec_sort_desc (flocq_ops tab)).
Proof.
  exact (fun tab => proj2 (proj2 (C09_sort_spec (flocq_ops tab)))
                      (flocq_fle_nan_last_total tab) (flocq_fle_nan_last_trans tab)).
Qed.
Print Assumptions FF_C09_sort_spec_flocq.

(* ... stably (0.0 and -0.0, and all NaN, keep their relative order; SORT*DESC reverses it), and
   no other vector meets the contract of a stable sort (Proofs/SortStable.v) *)
Theorem FF_C09_sort_is_stable_flocq : forall tab : table,
  sorts_stably st_fvec set_fvec (@fle_nan_last (flocq_ops tab))
               (@fvec_sort_asc (flocq_ops tab)) (@fvec_sort_desc (flocq_ops tab)).
Proof.
  exact (fun tab => proj2 (proj2 (C09_sort_is_stable (flocq_ops tab)))
                      (flocq_fle_nan_last_total tab) (flocq_fle_nan_last_trans tab)).
Qed.
Print Assumptions FF_C09_sort_is_stable_flocq.

Theorem FF_C09_stable_sort_unique_flocq : forall tab : table,
  sort_result_unique st_fvec set_fvec (@fle_nan_last (flocq_ops tab))
                     (@fvec_sort_asc (flocq_ops tab)) (@fvec_sort_desc (flocq_ops tab)).
Proof.
  exact (fun tab => proj2 (proj2 (C09_stable_sort_unique (flocq_ops tab)))
                      (flocq_fle_nan_last_total tab) (flocq_fle_nan_last_trans tab)).
Qed.
Print Assumptions FF_C09_stable_sort_unique_flocq.

(* ---- C20 ---- *)
(* Release build (the squares are computed as d * d): every table *)
Theorem FF_C20_nbr_is_geometric_set_flocq : forall (tab : table) ntotal ndim index r,
  1 <= ntotal <= 2147483648 -> 1 <= ndim -> 0 <= index < ntotal ->
  @flt (flocq_ops tab) r f_zero = false -> sizes_ok ntotal ndim ->
  @find_neighbors (flocq_ops tab) Release ntotal ndim index r
  = Ok (Some (@geo_nbrs (flocq_ops tab) ntotal ndim index r)).
Proof. exact flocq_nbr_is_geometric_set_release. Qed.
Print Assumptions FF_C20_nbr_is_geometric_set_flocq.

(* both builds, for tables whose powf(d, 2.0) is d * d *)
Theorem FF_C20_nbr_is_geometric_set_flocq_powf : forall (tab : table), powf_sq_table tab ->
  forall (p : profile) ntotal ndim index r,
  1 <= ntotal <= 2147483648 -> 1 <= ndim -> 0 <= index < ntotal ->
  @flt (flocq_ops tab) r f_zero = false -> sizes_ok ntotal ndim ->
  @find_neighbors (flocq_ops tab) p ntotal ndim index r
  = Ok (Some (@geo_nbrs (flocq_ops tab) ntotal ndim index r)).
Proof. exact (fun tab T => C20_nbr_is_geometric_set (flocq_ops tab) (flocq_FloatIntExact tab T)). Qed.
Print Assumptions FF_C20_nbr_is_geometric_set_flocq_powf.

Theorem FF_C20_nbr_contains_centre_flocq : forall (tab : table) ntotal ndim index r,
  1 <= ntotal <= 2147483648 -> 1 <= ndim -> 0 <= index < ntotal ->
  @fle (flocq_ops tab) f_zero r = true -> sizes_ok ntotal ndim ->
  exists l, @find_neighbors (flocq_ops tab) Release ntotal ndim index r = Ok (Some l) /\ In index l.
Proof. exact flocq_nbr_contains_centre_release. Qed.
Print Assumptions FF_C20_nbr_contains_centre_flocq.

Theorem FF_C20_nbr_symmetric_flocq : forall (tab : table) ntotal ndim i j r,
  1 <= ntotal <= 2147483648 -> 1 <= ndim -> 0 <= i < ntotal -> 0 <= j < ntotal ->
  @flt (flocq_ops tab) r f_zero = false -> sizes_ok ntotal ndim ->
  exists li lj, @find_neighbors (flocq_ops tab) Release ntotal ndim i r = Ok (Some li) /\
                @find_neighbors (flocq_ops tab) Release ntotal ndim j r = Ok (Some lj) /\
                (In j li <-> In i lj).
Proof. exact flocq_nbr_symmetric_release. Qed.
Print Assumptions FF_C20_nbr_symmetric_flocq.

(* both builds, every table: growing the radius only adds neighbours *)
Theorem FF_C20_nbr_monotone_radius_flocq : forall (tab : table) (p : profile) ntotal ndim index r1 r2 l1 l2,
  @fle (flocq_ops tab) r1 r2 = true ->
  @find_neighbors (flocq_ops tab) p ntotal ndim index r1 = Ok (Some l1) ->
  @find_neighbors (flocq_ops tab) p ntotal ndim index r2 = Ok (Some l2) ->
  incl l1 l2.
Proof.
  exact (fun tab p ntotal ndim index r1 r2 l1 l2 =>
    C20_nbr_monotone_radius (flocq_ops tab) p ntotal ndim index r1 r2 l1 l2 (flocq_fie_le_trans tab)).
Qed.
Print Assumptions FF_C20_nbr_monotone_radius_flocq.

Theorem FF_C20_within_antitone_flocq : forall (tab : table) D1 D2 r,
  0 <= D1 -> D1 <= D2 -> D2 < two24 ->
  @within (flocq_ops tab) D2 r = true -> @within (flocq_ops tab) D1 r = true.
Proof. exact flocq_within_antitone. Qed.
Print Assumptions FF_C20_within_antitone_flocq.

Theorem FF_C20_within_integer_radius_flocq : forall (tab : table) D R,
  0 <= D < two24 -> 0 <= R < 4096 ->
  @within (flocq_ops tab) D (@f_of_usize (flocq_ops tab) R) = (D <=? R * R).
Proof. exact flocq_within_integer_radius. Qed.
Print Assumptions FF_C20_within_integer_radius_flocq.

(* ================= 3. non-vacuity ================= *)
(* the quantifiers are inhabited and the instance computes: 10 cells at sparsity 0.3 (bits 0x3e99999a)
   get 3 non-default bits; 0.5 * 7 = 3.5 truncates to 3; sqrt 16 <= 4 *)
Example FF_nonvacuous :
  @bv_params_ok (flocq_ops []) 10 1050253722 = true /\ in_i32 10 = true /\
  @nbits (flocq_ops []) 10 1050253722 = 3 /\
  @nbits (flocq_ops []) 7 f_half = 3 /\
  @within (flocq_ops []) 16 (@f_of_usize (flocq_ops []) 4) = true /\
  @fle_nan_last (flocq_ops []) f_one f_nan = true /\ @fle_nan_last (flocq_ops []) f_nan f_one = false.
Proof. vm_compute. repeat split. Qed.

(* stability is visible on floats: 0.0 (bits 0) and -0.0 (bits 0x80000000) compare equal and are
   different items; ascending they stay in their order, descending the order is reversed *)
Example FF_nonvacuous_sort_stable :
  let nz := 2147483648 in
  eqv (@fle_nan_last (flocq_ops [])) 0 nz = true /\
  @fvec_sort_asc (flocq_ops []) (set_fvec empty_state [[f_one; nz; 0; nz]])
    = Ok (set_fvec empty_state [[nz; 0; nz; f_one]]) /\
  @fvec_sort_asc (flocq_ops []) (set_fvec empty_state [[f_one; 0; nz; nz]])
    = Ok (set_fvec empty_state [[0; nz; nz; f_one]]) /\
  @fvec_sort_desc (flocq_ops []) (set_fvec empty_state [[f_one; 0; nz; nz]])
    = Ok (set_fvec empty_state [[f_one; nz; nz; 0]]).
Proof. vm_compute. repeat split. Qed.
